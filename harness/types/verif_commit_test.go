//go:build verif

package types

// Conformance harness for spec/commit/Commitments.tla (C19): replays TLC's enumeration of
// (kind, shape, mutated field), ordered lists, stored receipt containers and chain ids on the real
// digest writers (calculateBlockHash, bytesForDigest, CalculateTxHash, ReceiptMerkle.GetHash),
// merkle roots (CalculateTxsRootHash, Receipts.MerkleRoot) and codecs (Receipts gob encoding,
// ChainID.Bytes/Read, MakeChainId, Genesis.Bytes).  Verdicts come from the real code only; the model's
// predictions are compared for information (divergence notes).

import (
	"bytes"
	"encoding/hex"
	"fmt"
	"math"
	"math/rand"
	"os"
	"reflect"
	"runtime"
	"sort"
	"strings"
	"testing"
	"time"

	"github.com/aergoio/aergo/v2/internal/enc/gob"
	"github.com/aergoio/aergo/v2/internal/verifkit"
	"github.com/libp2p/go-libp2p/core/crypto"
	"github.com/minio/sha256-simd"
	"github.com/willf/bloom"
)

// ---------------------------------------------------------------- input (from TLC via vcheck)

type c19Shape struct {
	P      string `json:"p"` // header / tx: "full" | "sparse"
	Fmt    string `json:"fmt"`
	Status string `json:"status"`
	Nev    int    `json:"nev"`
	Same   bool   `json:"same"`
	Bloom  bool   `json:"bloom"`
}

type c19Mutation struct {
	Kind      string   `json:"kind"`
	Shape     c19Shape `json:"shape"`
	Field     string   `json:"field"`
	Changed   []string `json:"changed"`
	Required  []string `json:"required"`
	Forbidden []string `json:"forbidden"`
	Stored    bool     `json:"stored"`
}

type c19List struct {
	List  []string `json:"list"`
	Bloom bool     `json:"bloom"`
	Root  string   `json:"root"` // the model's symbolic root
}

type c19AbsEvent struct {
	Addr int   `json:"addr"`
	Name []int `json:"name"`
	Args []int `json:"args"`
	Idx  int   `json:"idx"`
}

type c19AbsReceipt struct {
	Addr   int           `json:"addr"`
	Status string        `json:"status"`
	Ret    []int         `json:"ret"`
	Fee    []int         `json:"fee"`
	Cum    []int         `json:"cum"`
	Gas    int           `json:"gas"`
	Fd     bool          `json:"fd"`
	Bloom  []int         `json:"bloom"`
	Events []c19AbsEvent `json:"events"`
}

type c19Codec struct {
	Fmt   string          `json:"fmt"`
	Bloom bool            `json:"bloom"`
	Rs    []c19AbsReceipt `json:"rs"`
	Ok    bool            `json:"ok"`
}

type c19AbsCid struct {
	Ver   int32 `json:"ver"`
	Pub   bool  `json:"pub"`
	Main  bool  `json:"main"`
	Magic []int `json:"magic"`
	Cons  []int `json:"cons"`
}

type c19Cid struct {
	C      c19AbsCid `json:"c"`
	Stored bool      `json:"stored"` // the model's encoder accepts the id
	Ok     bool      `json:"ok"`
	Bytes  []int     `json:"bytes"`
}

type c19Input struct {
	Mutations []c19Mutation `json:"mutations"`
	Lists     []c19List     `json:"lists"`
	Codec     []c19Codec    `json:"codec"`
	Cids      []c19Cid      `json:"cids"`
	Reps      int           `json:"reps"`
	LongLists int           `json:"long_lists"`
	Genesis   int           `json:"genesis"`
}

// ---------------------------------------------------------------- helpers

// c19Violate records a violation, at most two per signature (a known finding hit by thousands of cases must not
// crowd out a different violation: verifkit keeps 25 in total).
var c19SigCount = map[string]int{}

func c19Violate(res *verifkit.Result, sig map[string]interface{}, replay interface{}, format string, a ...interface{}) {
	k := fmt.Sprint(sig)
	c19SigCount[k]++
	if c19SigCount[k] <= 2 {
		res.Violate(sig, map[string]interface{}{"violated": sig, "input": replay}, format, a...)
	}
}

func c19Rnd(rng *rand.Rand, n int) []byte {
	b := make([]byte, n)
	rng.Read(b)
	return b
}

func c19Addr(prefix byte, rng *rand.Rand) []byte {
	a := c19Rnd(rng, AddressLength)
	a[0] = prefix
	return a
}

func c19Sha(b []byte) string {
	h := sha256.Sum256(b)
	return hex.EncodeToString(h[:])
}

func c19Has(l []string, s string) bool {
	for _, x := range l {
		if x == s {
			return true
		}
	}
	return false
}

// c19Styles lists the concrete single-field mutations tried for a value of the given kind.
// fixed > 0: the format gives the field a fixed width (hashes, addresses, bloom filters).
func c19Styles(v reflect.Value, fixed int) []string {
	switch v.Kind() {
	case reflect.Slice, reflect.String:
		if fixed > 0 {
			if v.Len() == 0 {
				return []string{"fill"}
			}
			return []string{"flipFirst", "flipLast", "flipAny"}
		}
		if v.Len() == 0 {
			return []string{"setZeroByte", "setRandom"}
		}
		return []string{"flipFirst", "flipLast", "flipAny", "appendZero", "appendRandom", "prependZero", "truncate", "clear"}
	case reflect.Uint64, reflect.Int64, reflect.Int32:
		return []string{"inc", "highBit", "zeroOrMax"}
	case reflect.Bool:
		return []string{"not"}
	}
	return nil
}

func c19MutBytes(b []byte, style string, fixed int, rng *rand.Rand) []byte {
	c := append([]byte(nil), b...)
	switch style {
	case "fill":
		return c19Rnd(rng, fixed)
	case "flipFirst":
		c[0] ^= 0x80
	case "flipLast":
		c[len(c)-1] ^= 0x01
	case "flipAny":
		c[rng.Intn(len(c))] ^= byte(1 << uint(rng.Intn(8)))
	case "appendZero":
		c = append(c, 0)
	case "appendRandom":
		c = append(c, byte(1+rng.Intn(255)))
	case "prependZero":
		c = append([]byte{0}, c...)
	case "truncate":
		c = c[:len(c)-1]
	case "clear":
		c = nil
	case "setZeroByte":
		c = []byte{0}
	case "setRandom":
		c = c19Rnd(rng, 1+rng.Intn(40))
	}
	return c
}

// c19Mutate applies one style to a struct field (addressable reflect.Value).
func c19Mutate(v reflect.Value, style string, fixed int, rng *rand.Rand) {
	switch v.Kind() {
	case reflect.Slice:
		v.SetBytes(c19MutBytes(v.Bytes(), style, fixed, rng))
	case reflect.String:
		v.SetString(string(c19MutBytes([]byte(v.String()), style, fixed, rng)))
	case reflect.Uint64:
		x := v.Uint()
		switch style {
		case "inc":
			x++
		case "highBit":
			x ^= 1 << 63
		default:
			if x == 0 {
				x = math.MaxUint64
			} else {
				x = 0
			}
		}
		v.SetUint(x)
	case reflect.Int64, reflect.Int32:
		x := v.Int()
		bits := uint(63)
		if v.Kind() == reflect.Int32 {
			bits = 31
		}
		switch style {
		case "inc":
			x++
		case "highBit":
			x ^= -1 << bits // flips the sign bit only
		default:
			if x == 0 {
				x = 1<<bits - 1
			} else {
				x = 0
			}
		}
		v.SetInt(x)
	case reflect.Bool:
		v.SetBool(!v.Bool())
	}
}

// ---------------------------------------------------------------- headers

func c19BaseHeader(shape string, rng *rand.Rand, priv crypto.PrivKey) *BlockHeader {
	if shape == "sparse" {
		return &BlockHeader{}
	}
	cid, _ := (&ChainID{Version: 3, PublicNet: true, Magic: "verif.chain", Consensus: "dpos"}).Bytes()
	h := &BlockHeader{
		ChainID: cid, PrevBlockHash: c19Rnd(rng, 32), BlockNo: 1 + uint64(rng.Int63()), Timestamp: 1 + rng.Int63(),
		BlocksRootHash: c19Rnd(rng, 32), TxsRootHash: c19Rnd(rng, 32), ReceiptsRootHash: c19Rnd(rng, 32),
		Confirms: 1 + uint64(rng.Intn(100)), CoinbaseAccount: c19Addr(0x02, rng), Consensus: c19Rnd(rng, 1+rng.Intn(60)),
	}
	blk := &Block{Header: h}
	if err := blk.Sign(priv); err != nil {
		panic(err)
	}
	return h
}

func c19CloneHeader(h *BlockHeader) *BlockHeader {
	c := &BlockHeader{BlockNo: h.BlockNo, Timestamp: h.Timestamp, Confirms: h.Confirms}
	c.ChainID = append([]byte(nil), h.ChainID...)
	c.PrevBlockHash = append([]byte(nil), h.PrevBlockHash...)
	c.BlocksRootHash = append([]byte(nil), h.BlocksRootHash...)
	c.TxsRootHash = append([]byte(nil), h.TxsRootHash...)
	c.ReceiptsRootHash = append([]byte(nil), h.ReceiptsRootHash...)
	c.PubKey = append([]byte(nil), h.PubKey...)
	c.CoinbaseAccount = append([]byte(nil), h.CoinbaseAccount...)
	c.Sign = append([]byte(nil), h.Sign...)
	c.Consensus = append([]byte(nil), h.Consensus...)
	return c
}

// the fields of a header / tx body as plain values (nil and empty byte strings are the same field value)
func c19HeaderFields(h *BlockHeader) []string {
	return []string{hex.EncodeToString(h.ChainID), hex.EncodeToString(h.PrevBlockHash), fmt.Sprint(h.BlockNo, h.Timestamp, h.Confirms), hex.EncodeToString(h.BlocksRootHash),
		hex.EncodeToString(h.TxsRootHash), hex.EncodeToString(h.ReceiptsRootHash), hex.EncodeToString(h.PubKey), hex.EncodeToString(h.CoinbaseAccount),
		hex.EncodeToString(h.Sign), hex.EncodeToString(h.Consensus)}
}

func c19TxFields(b *TxBody) []string {
	return []string{fmt.Sprint(b.Nonce, b.GasLimit, b.Type), hex.EncodeToString(b.Account), hex.EncodeToString(b.Recipient), hex.EncodeToString(b.Amount),
		hex.EncodeToString(b.Payload), hex.EncodeToString(b.GasPrice), hex.EncodeToString(b.ChainIdHash), hex.EncodeToString(b.Sign)}
}

func c19HeaderDigests(h *BlockHeader) map[string]string {
	b := &Block{Header: h}
	id := b.calculateBlockHash()
	b2 := &Block{Header: h}
	if !bytes.Equal(b2.BlockHash(), id) { // BlockHash() of a block without a cached Hash is the computed digest
		return map[string]string{"blockHash": "inconsistent", "blockSignDigest": ""}
	}
	msg, _ := h.bytesForDigest()
	return map[string]string{"blockHash": hex.EncodeToString(id), "blockSignDigest": c19Sha(msg)}
}

func c19SigValid(h *BlockHeader) bool {
	defer func() { recover() }()
	ok, err := (&Block{Header: h}).VerifySign()
	return err == nil && ok
}

// ---------------------------------------------------------------- transactions (identifier only; the signing digest lives in account/key)

func c19BaseTx(shape string, rng *rand.Rand) *TxBody {
	if shape == "sparse" {
		return &TxBody{}
	}
	return &TxBody{Nonce: 1 + uint64(rng.Int63()), Account: c19Addr(0x02, rng), Recipient: c19Addr(0x03, rng),
		Amount: c19Rnd(rng, 1+rng.Intn(12)), Payload: c19Rnd(rng, 1+rng.Intn(80)), GasLimit: 1 + uint64(rng.Int63()),
		GasPrice: c19Rnd(rng, 1+rng.Intn(8)), Type: TxType_TRANSFER, ChainIdHash: c19Rnd(rng, 32), Sign: c19Rnd(rng, 70)}
}

func c19CloneTxBody(b *TxBody) *TxBody {
	return &TxBody{Nonce: b.Nonce, Account: append([]byte(nil), b.Account...), Recipient: append([]byte(nil), b.Recipient...),
		Amount: append([]byte(nil), b.Amount...), Payload: append([]byte(nil), b.Payload...), GasLimit: b.GasLimit,
		GasPrice: append([]byte(nil), b.GasPrice...), Type: b.Type, ChainIdHash: append([]byte(nil), b.ChainIdHash...),
		Sign: append([]byte(nil), b.Sign...)}
}

// ---------------------------------------------------------------- receipts

type c19Versionner bool // true: at or above the V2 fork height

func (v c19Versionner) Version(BlockNo) int32 {
	if v {
		return 2
	}
	return 0
}
func (v c19Versionner) IsV2Fork(BlockNo) bool { return bool(v) }

func c19Bloom(rng *rand.Rand, items ...[]byte) []byte {
	bf := bloom.New(BloomBitBits, BloomHashKNum)
	for _, it := range items {
		bf.Add(it)
	}
	bf.Add(c19Rnd(rng, 8))
	b, _ := bf.GobEncode()
	return b[24:]
}

func c19BaseReceipt(s c19Shape, rng *rand.Rand) *Receipt {
	r := NewReceipt(c19Addr(0x0C, rng), s.Status, `{"k":`+fmt.Sprint(rng.Intn(1000))+`}`)
	r.TxHash = c19Rnd(rng, 32)
	r.FeeUsed = c19Rnd(rng, 1+rng.Intn(9))
	r.FeeUsed[0] |= 1
	r.GasUsed = 1 + uint64(rng.Int63())
	r.FeeDelegation = rng.Intn(2) == 0
	r.From = c19Addr(0x02, rng)
	r.To = c19Addr(0x0C, rng)
	for i := 0; i < s.Nev; i++ {
		ev := &Event{ContractAddress: r.ContractAddress, EventName: fmt.Sprintf("ev%d", i), JsonArgs: fmt.Sprintf(`[%d,"x"]`, rng.Intn(100)),
			EventIdx: int32(i)}
		if !s.Same {
			ev.ContractAddress = c19Addr(0x0C, rng)
		}
		r.Events = append(r.Events, ev)
	}
	if s.Bloom {
		r.Bloom = c19Bloom(rng, r.ContractAddress)
	}
	r.SetMemoryInfo(c19Rnd(rng, 32), 1+uint64(rng.Intn(1000000)), int32(rng.Intn(50)))
	return r
}

func c19CloneEvent(e *Event) *Event {
	return &Event{ContractAddress: append([]byte(nil), e.ContractAddress...), EventName: e.EventName, JsonArgs: e.JsonArgs,
		EventIdx: e.EventIdx, TxHash: append([]byte(nil), e.TxHash...), BlockHash: append([]byte(nil), e.BlockHash...),
		BlockNo: e.BlockNo, TxIndex: e.TxIndex}
}

func c19CloneReceipt(r *Receipt) *Receipt {
	c := &Receipt{ContractAddress: append([]byte(nil), r.ContractAddress...), Status: r.Status, Ret: r.Ret,
		TxHash: append([]byte(nil), r.TxHash...), FeeUsed: append([]byte(nil), r.FeeUsed...),
		CumulativeFeeUsed: append([]byte(nil), r.CumulativeFeeUsed...), Bloom: append([]byte(nil), r.Bloom...),
		BlockNo: r.BlockNo, BlockHash: append([]byte(nil), r.BlockHash...), TxIndex: r.TxIndex,
		From: append([]byte(nil), r.From...), To: append([]byte(nil), r.To...), FeeDelegation: r.FeeDelegation, GasUsed: r.GasUsed}
	for _, e := range r.Events {
		c.Events = append(c.Events, c19CloneEvent(e))
	}
	return c
}

func c19Receipts(rs []*Receipt, v2 bool, blockBloom bool, rng *rand.Rand) *Receipts {
	out := &Receipts{}
	out.SetHardFork(c19Versionner(v2), 77)
	out.Set(rs)
	if blockBloom {
		bf := bloom.New(BloomBitBits, BloomHashKNum)
		bf.Add([]byte("block-bloom"))
		if rng != nil {
			bf.Add(c19Rnd(rng, 6))
		}
		if err := out.MergeBloom(bf); err != nil {
			panic(err)
		}
	}
	return out
}

// digests of a receipt: the merkle leaf of its format and the receipts root of lists holding it
func c19ReceiptDigests(r *Receipt, v2 bool, others []*Receipt) map[string]string {
	leaf := (&ReceiptMerkle{r, 77, c19Versionner(v2)}).GetHash()
	var roots []byte
	for _, withBloom := range []bool{false, true} {
		roots = append(roots, c19Receipts([]*Receipt{r}, v2, withBloom, nil).MerkleRoot()...)
		roots = append(roots, c19Receipts([]*Receipt{others[0], r}, v2, withBloom, nil).MerkleRoot()...)
		roots = append(roots, c19Receipts([]*Receipt{others[0], r, others[1]}, v2, withBloom, nil).MerkleRoot()...)
	}
	return map[string]string{"leaf": hex.EncodeToString(leaf), "root": c19Sha(roots)}
}

// plain dumps for the replay files (Receipt has a custom MarshalJSON that embeds Ret / JsonArgs as raw JSON)
func c19DumpReceipt(r *Receipt) map[string]interface{} {
	evs := []map[string]interface{}{}
	for _, e := range r.Events {
		evs = append(evs, map[string]interface{}{"ContractAddress": hex.EncodeToString(e.ContractAddress), "EventName": fmt.Sprintf("%q", e.EventName),
			"JsonArgs": fmt.Sprintf("%q", e.JsonArgs), "EventIdx": e.EventIdx, "TxHash": hex.EncodeToString(e.TxHash), "BlockHash": hex.EncodeToString(e.BlockHash),
			"BlockNo": e.BlockNo, "TxIndex": e.TxIndex})
	}
	return map[string]interface{}{"ContractAddress": hex.EncodeToString(r.ContractAddress), "Status": r.Status, "Ret": fmt.Sprintf("%q", r.Ret),
		"TxHash": hex.EncodeToString(r.TxHash), "FeeUsed": hex.EncodeToString(r.FeeUsed), "CumulativeFeeUsed": hex.EncodeToString(r.CumulativeFeeUsed),
		"Bloom": c19Sha(r.Bloom)[:16] + fmt.Sprintf("(sha256 of %d bytes)", len(r.Bloom)), "Events": evs, "BlockNo": r.BlockNo, "BlockHash": hex.EncodeToString(r.BlockHash),
		"TxIndex": r.TxIndex, "From": hex.EncodeToString(r.From), "To": hex.EncodeToString(r.To), "FeeDelegation": r.FeeDelegation, "GasUsed": r.GasUsed}
}

func c19DumpReceipts(rs []*Receipt) []map[string]interface{} {
	out := []map[string]interface{}{}
	for _, r := range rs {
		out = append(out, c19DumpReceipt(r))
	}
	return out
}

// c19PersistDiff names the first persisted field in which b (read back) differs from a (written); "" if none.
func c19PersistDiff(a, b *Receipt, v2 bool) string {
	switch {
	case !bytes.Equal(a.ContractAddress, b.ContractAddress):
		return "ContractAddress"
	case a.Status != b.Status:
		return "Status"
	case a.Ret != b.Ret:
		return "Ret"
	case !bytes.Equal(a.TxHash, b.TxHash):
		return "TxHash"
	case !bytes.Equal(a.FeeUsed, b.FeeUsed):
		return "FeeUsed"
	case !bytes.Equal(a.CumulativeFeeUsed, b.CumulativeFeeUsed):
		return "CumulativeFeeUsed"
	case !bytes.Equal(a.Bloom, b.Bloom):
		return "Bloom"
	case v2 && a.GasUsed != b.GasUsed:
		return "GasUsed"
	case v2 && a.FeeDelegation != b.FeeDelegation:
		return "FeeDelegation"
	case len(a.Events) != len(b.Events):
		return "Events"
	}
	for i := range a.Events {
		x, y := a.Events[i], b.Events[i]
		switch {
		case !bytes.Equal(x.ContractAddress, y.ContractAddress):
			return fmt.Sprintf("Ev%d.ContractAddress", i+1)
		case x.EventName != y.EventName:
			return fmt.Sprintf("Ev%d.EventName", i+1)
		case x.JsonArgs != y.JsonArgs:
			return fmt.Sprintf("Ev%d.JsonArgs", i+1)
		case x.EventIdx != y.EventIdx:
			return fmt.Sprintf("Ev%d.EventIdx", i+1)
		case !bytes.Equal(x.TxHash, y.TxHash):
			return fmt.Sprintf("Ev%d.TxHash", i+1)
		}
	}
	return ""
}

// c19StoreLoad writes the container the way ChainDB.writeReceiptsAndOperations does (gob -> MarshalBinary) and reads it back
// the way ChainDB.getReceipts + the readers of chainhandle.go do (SetHardFork, gob -> UnmarshalBinary, SetMemoryInfo).
func c19StoreLoad(rs *Receipts, v2 bool) (back *Receipts, problem string) {
	defer func() {
		if p := recover(); p != nil {
			back, problem = nil, fmt.Sprintf("panic: %v", p)
		}
	}()
	data, err := gob.Encode(rs)
	if err != nil {
		return nil, "encode: " + err.Error()
	}
	var out Receipts
	out.SetHardFork(c19Versionner(v2), rs.blockNo)
	if err := gob.Decode(data, &out); err != nil {
		return nil, "decode: " + err.Error()
	}
	for i, r := range out.Get() {
		if i < len(rs.receipts) {
			r.SetMemoryInfo(rs.receipts[i].BlockHash, rs.receipts[i].BlockNo, rs.receipts[i].TxIndex)
		}
	}
	return &out, ""
}

func c19ContainerDiff(a, b *Receipts, v2 bool) string {
	if (a.bloom == nil) != (b.bloom == nil) {
		return "blockBloom.presence"
	}
	if a.bloom != nil {
		x, _ := (*bloom.BloomFilter)(a.bloom).GobEncode()
		y, _ := (*bloom.BloomFilter)(b.bloom).GobEncode()
		if !bytes.Equal(x, y) {
			return "blockBloom"
		}
	}
	if len(a.receipts) != len(b.receipts) {
		return "count"
	}
	for i := range a.receipts {
		if d := c19PersistDiff(a.receipts[i], b.receipts[i], v2); d != "" {
			return fmt.Sprintf("receipt%d.%s", i, d)
		}
	}
	if !bytes.Equal(a.MerkleRoot(), b.MerkleRoot()) {
		return "merkleRoot"
	}
	return ""
}

func c19RoundTripClass(rs []*Receipt, diff string) string {
	for _, r := range rs {
		if len(r.CumulativeFeeUsed) > 0 {
			return "cumulativeFeeUsed-nonempty"
		}
	}
	if i := strings.IndexByte(diff, '.'); i >= 0 && strings.HasPrefix(diff, "receipt") {
		return "field:" + strings.TrimLeft(diff[i+1:], "0123456789")
	}
	if strings.HasPrefix(diff, "panic") || strings.HasPrefix(diff, "decode") || strings.HasPrefix(diff, "encode") {
		return "decoder-fails"
	}
	return "field:" + diff
}

// receipt field -> (pointer to the value, fixed width)
func c19ReceiptField(r *Receipt, field string) (reflect.Value, int) {
	if strings.HasPrefix(field, "Ev") && strings.Contains(field, ".") {
		var i int
		var f string
		fmt.Sscanf(strings.Replace(field, ".", " ", 1), "Ev%d %s", &i, &f)
		v := reflect.ValueOf(r.Events[i-1]).Elem().FieldByName(f)
		switch f {
		case "ContractAddress":
			return v, AddressLength
		case "TxHash", "BlockHash":
			return v, 32
		}
		return v, 0
	}
	v := reflect.ValueOf(r).Elem().FieldByName(field)
	switch field {
	case "ContractAddress":
		return v, AddressLength
	case "TxHash", "BlockHash":
		return v, 32
	case "Bloom":
		return v, BloomBitByte
	}
	return v, 0
}

// ---------------------------------------------------------------- the padding rule of the merkle tree (classification only)

func c19Expand(l []string) []string {
	out := append([]string(nil), l...)
	for w := 1; len(out) > w; w *= 2 {
		if (len(out)/w)%2 == 1 {
			out = append(out, out[len(out)-w:]...)
		}
	}
	return out
}

func c19PadEquivalent(a, b []string) bool {
	return strings.Join(c19Expand(a), ",") == strings.Join(c19Expand(b), ",")
}

// ---------------------------------------------------------------- test

func TestVerifCommit(t *testing.T) {
	if !verifkit.Enabled() {
		t.Skip("run through bin/vcheck")
	}
	var in c19Input
	if err := verifkit.ReadInput(&in); err != nil {
		t.Fatal(err)
	}
	res := verifkit.NewResult()
	defer func() {
		if err := res.Write(); err != nil {
			t.Fatal(err)
		}
		if res.NumViolations() > 0 {
			t.Fail()
		}
	}()
	if in.Reps <= 0 {
		in.Reps = 1
	}
	// a decoder fed with misaligned data may take payload bytes for a counter and allocate accordingly: stop before the
	// machine suffers (no verdict in that case)
	go func() {
		var ms runtime.MemStats
		for {
			time.Sleep(200 * time.Millisecond)
			runtime.ReadMemStats(&ms)
			if ms.Sys > 3<<30 {
				fmt.Println("VERIF-ABORT: harness memory above 3 GiB (a decoder allocated from a misread counter)")
				os.Exit(3)
			}
		}
	}()
	diverge := map[string]int{}
	c19RunMutations(&in, res, diverge)
	c19RunLists(&in, res, diverge)
	c19RunCodec(&in, res, diverge)
	c19RunCids(&in, res, diverge)
	c19RunGenesis(&in, res)
	keys := make([]string, 0, len(diverge))
	for k := range diverge {
		keys = append(keys, k)
	}
	sort.Strings(keys)
	for _, k := range keys {
		res.Note("DIVERGENCE module=Commitments %s (%d cases): the code no longer does what the model transcribes", k, diverge[k])
	}
	res.Extra["divergences"] = len(diverge)
}

func c19RunMutations(in *c19Input, res *verifkit.Result, diverge map[string]int) {
	privSeed := sha256.Sum256([]byte(fmt.Sprintf("c19-bp-key-%d", verifkit.Seed())))
	priv, err := crypto.UnmarshalSecp256k1PrivateKey(privSeed[:])
	if err != nil {
		panic(err)
	}
	for ci, m := range in.Mutations {
		for rep := 0; rep < in.Reps; rep++ {
			rng := verifkit.Rng(int64(ci)*131 + int64(rep))
			switch m.Kind {
			case "header":
				base := c19BaseHeader(m.Shape.P, rng, priv)
				bd := c19HeaderDigests(base)
				signed := m.Shape.P == "full" && c19SigValid(base)
				if m.Shape.P == "full" && !signed {
					c19Violate(res, map[string]interface{}{"kind": "honest-signature-rejected"}, m, "a freshly signed header does not verify")
				}
				v0 := reflect.ValueOf(base).Elem().FieldByName(m.Field)
				for _, st := range c19Styles(v0, 0) {
					mh := c19CloneHeader(base)
					c19Mutate(reflect.ValueOf(mh).Elem().FieldByName(m.Field), st, 0, rng)
					keep := c19CloneHeader(mh)
					md := c19HeaderDigests(mh)
					c19SigValid(mh)
					if !reflect.DeepEqual(c19HeaderFields(mh), c19HeaderFields(keep)) {
						c19Violate(res, map[string]interface{}{"kind": "input-modified", "function": "header digests"}, map[string]interface{}{"before": keep, "after": mh},
							"computing the block hash / signing digest / verifying the signature changed the header")
					}
					c19Judge(res, diverge, m, st, bd, md, map[string]interface{}{"base": base, "mutant": mh})
					if signed && m.Field != "Sign" && c19SigValid(mh) {
						c19Violate(res, map[string]interface{}{"kind": "signature-survives-mutation", "object": "header", "field": m.Field},
							map[string]interface{}{"case": m, "style": st, "base": base, "mutant": mh},
							"header field %s changed (%s) and the producer's signature still verifies", m.Field, st)
					}
				}
			case "tx":
				base := c19BaseTx(m.Shape.P, rng)
				bd := map[string]string{"txHash": hex.EncodeToString((&Tx{Body: base}).CalculateTxHash())}
				v0 := reflect.ValueOf(base).Elem().FieldByName(m.Field)
				for _, st := range c19Styles(v0, 0) {
					mb := c19CloneTxBody(base)
					c19Mutate(reflect.ValueOf(mb).Elem().FieldByName(m.Field), st, 0, rng)
					keepTx := c19CloneTxBody(mb)
					md := map[string]string{"txHash": hex.EncodeToString((&Tx{Body: mb}).CalculateTxHash())}
					if !reflect.DeepEqual(c19TxFields(mb), c19TxFields(keepTx)) {
						c19Violate(res, map[string]interface{}{"kind": "input-modified", "function": "CalculateTxHash"}, map[string]interface{}{"before": keepTx, "after": mb},
							"computing the transaction hash changed the transaction body")
					}
					c19Judge(res, diverge, m, st, bd, md, map[string]interface{}{"base": base, "mutant": mb})
				}
			case "receipt":
				c19ReceiptCase(res, diverge, m, rng)
			}
		}
	}
}

// c19Judge compares the digests before/after one concrete mutation with the property (verdict) and the model (note).
func c19Judge(res *verifkit.Result, diverge map[string]int, m c19Mutation, style string, bd, md map[string]string, replay interface{}) {
	ds := make([]string, 0, len(bd))
	for d := range bd {
		ds = append(ds, d)
	}
	sort.Strings(ds)
	for _, d := range ds {
		before := bd[d]
		changed := before != md[d]
		res.Count(fmt.Sprintf("mut|%s|%v|%s|%s|%s", m.Kind, m.Shape, m.Field, style, d))
		if c19Has(m.Required, d) && !changed {
			c19Violate(res, map[string]interface{}{"kind": "field-not-committed", "object": m.Kind, "digest": d, "field": c19FieldClass(m.Field)},
				map[string]interface{}{"case": m, "style": style, "objects": replay},
				"%s: changing only %s (%s, shape %+v) leaves %s unchanged", m.Kind, m.Field, style, m.Shape, d)
		}
		if c19Has(m.Forbidden, d) && changed {
			c19Violate(res, map[string]interface{}{"kind": "sign-digest-covers-signature", "object": m.Kind, "digest": d},
				map[string]interface{}{"case": m, "style": style, "objects": replay},
				"%s: the signing digest %s depends on the signature field (%s)", m.Kind, d, style)
		}
		if c19Has(m.Changed, d) != changed {
			diverge[fmt.Sprintf("digest=%s field=%s model-changed=%v real-changed=%v", d, c19FieldClass(m.Field), c19Has(m.Changed, d), changed)]++
		}
	}
	res.Sample(map[string]interface{}{"case": m, "style": style, "before": bd, "after": md})
}

// Ev2.EventName -> Ev.EventName (the event index is not part of the identity of a finding)
func c19FieldClass(f string) string {
	if strings.HasPrefix(f, "Ev") && strings.Contains(f, ".") {
		return "Ev." + f[strings.IndexByte(f, '.')+1:]
	}
	return f
}

func c19ReceiptCase(res *verifkit.Result, diverge map[string]int, m c19Mutation, rng *rand.Rand) {
	v2 := m.Shape.Fmt == "v2"
	base := c19BaseReceipt(m.Shape, rng)
	others := []*Receipt{c19BaseReceipt(c19Shape{Status: "SUCCESS", Same: true}, rng), c19BaseReceipt(c19Shape{Status: "ERROR", Nev: 1, Same: true, Bloom: true}, rng)}
	bd := c19ReceiptDigests(base, v2, others)
	type variant struct {
		style string
		r     *Receipt
	}
	var vs []variant
	switch {
	case m.Field == "Status":
		for _, s := range []string{"SUCCESS", "CREATED", "ERROR", "RECREATED"} {
			if s != base.Status {
				c := c19CloneReceipt(base)
				c.Status = s
				vs = append(vs, variant{"to" + s, c})
			}
		}
	case m.Field == "Events":
		c := c19CloneReceipt(base)
		c.Events = append(c.Events, &Event{ContractAddress: c.ContractAddress, EventName: "extra", JsonArgs: "[]", EventIdx: int32(len(c.Events)), TxHash: c.TxHash})
		vs = append(vs, variant{"appendEvent", c})
		if len(base.Events) > 0 {
			c2 := c19CloneReceipt(base)
			c2.Events = c2.Events[:len(c2.Events)-1]
			vs = append(vs, variant{"dropLastEvent", c2})
			c3 := c19CloneReceipt(base)
			c3.Events = c3.Events[1:]
			vs = append(vs, variant{"dropFirstEvent", c3})
		}
		if len(base.Events) > 1 {
			c4 := c19CloneReceipt(base)
			c4.Events[0], c4.Events[1] = c4.Events[1], c4.Events[0]
			vs = append(vs, variant{"swapEvents", c4})
		}
	default:
		v0, fixed := c19ReceiptField(base, m.Field)
		for _, st := range c19Styles(v0, fixed) {
			c := c19CloneReceipt(base)
			v, _ := c19ReceiptField(c, m.Field)
			c19Mutate(v, st, fixed, rng)
			vs = append(vs, variant{st, c})
		}
		if fixed == BloomBitByte && len(base.Bloom) > 0 {
			c := c19CloneReceipt(base)
			c.Bloom = nil
			vs = append(vs, variant{"clear", c})
		}
		if strings.HasSuffix(m.Field, ".ContractAddress") && !m.Shape.Same {
			c := c19CloneReceipt(base)
			v, _ := c19ReceiptField(c, m.Field)
			v.SetBytes(append([]byte(nil), c.ContractAddress...))
			vs = append(vs, variant{"makeSameAsReceipt", c})
		}
	}
	for _, x := range vs {
		keepR := fmt.Sprint(c19DumpReceipt(x.r))
		md := c19ReceiptDigests(x.r, v2, others)
		if fmt.Sprint(c19DumpReceipt(x.r)) != keepR {
			c19Violate(res, map[string]interface{}{"kind": "input-modified", "function": "receipt digests"}, map[string]interface{}{"case": m, "style": x.style, "before": keepR},
				"computing the merkle leaf / receipts root changed the receipt")
		}
		c19Judge(res, diverge, m, x.style, bd, md, map[string]interface{}{"base": c19DumpReceipt(base), "mutant": c19DumpReceipt(x.r)})
		// what the commitment covers must survive storage: write and read the mutant.  The events of a receipt carry the
		// receipt's own transaction hash (the node fills both from the same transaction; the readers restore it).
		// CumulativeFeeUsed: the stored containers with that field set are examined by c19RunCodec, with sample values
		// that keep the allocations of a defective decoder bounded (see c19Concrete).
		if strings.HasSuffix(m.Field, ".TxHash") || m.Field == "CumulativeFeeUsed" {
			continue
		}
		sr := c19CloneReceipt(x.r)
		for _, e := range sr.Events {
			e.TxHash = sr.TxHash
		}
		rs := c19Receipts([]*Receipt{others[0], sr}, v2, m.Shape.Bloom, rng)
		keepS := fmt.Sprint(c19DumpReceipt(sr))
		back, problem := c19StoreLoad(rs, v2)
		if fmt.Sprint(c19DumpReceipt(sr)) != keepS {
			c19Violate(res, map[string]interface{}{"kind": "input-modified", "function": "receipts store codec"}, map[string]interface{}{"case": m, "style": x.style, "before": keepS},
				"writing / reading the receipts container changed the receipt that was written")
		}
		diff := problem
		if back != nil {
			diff = c19ContainerDiff(rs, back, v2)
		}
		res.Count(fmt.Sprintf("mutstore|%v|%s|%s", m.Shape, m.Field, x.style))
		if diff != "" {
			c19Violate(res, map[string]interface{}{"kind": "roundtrip", "object": "receipts", "class": c19RoundTripClass(rs.receipts, diff)},
				map[string]interface{}{"case": m, "style": x.style, "receipts": c19DumpReceipts(rs.receipts), "fmt": m.Shape.Fmt, "difference": diff},
				"receipts written and read back in format %s differ (%s) after changing %s (%s)", m.Shape.Fmt, diff, m.Field, x.style)
		}
	}
}

func c19RunLists(in *c19Input, res *verifkit.Result, diverge map[string]int) {
	rng := verifkit.Rng(7001)
	elem := map[string]bool{}
	for _, l := range in.Lists {
		for _, e := range l.List {
			elem[e] = true
		}
	}
	txOf := map[string]*Tx{}
	rcOf := map[string]*Receipt{}
	names := make([]string, 0, len(elem))
	for e := range elem {
		names = append(names, e)
	}
	sort.Strings(names)
	for i, e := range names {
		tx := &Tx{Body: c19BaseTx("full", rng)}
		tx.Body.Nonce = uint64(i + 1)
		tx.Hash = tx.CalculateTxHash()
		txOf[e] = tx
		rcOf[e] = c19BaseReceipt(c19Shape{Status: "SUCCESS", Nev: i % 3, Same: i%2 == 0, Bloom: i%3 > 0}, rng)
		rcOf[e].TxHash = tx.Hash
	}
	type rootFn struct {
		name string
		fn   func(l c19List) []byte
	}
	mkTxs := func(l []string) []*Tx {
		out := make([]*Tx, len(l))
		for i, e := range l {
			out[i] = txOf[e]
		}
		return out
	}
	mkRs := func(l []string) []*Receipt {
		out := make([]*Receipt, len(l))
		for i, e := range l {
			out[i] = rcOf[e]
		}
		return out
	}
	fns := []rootFn{
		{"txs", func(l c19List) []byte {
			if l.Bloom {
				return nil
			}
			return CalculateTxsRootHash(mkTxs(l.List))
		}},
		{"receipts-v1", func(l c19List) []byte { return c19Receipts(mkRs(l.List), false, l.Bloom, nil).MerkleRoot() }},
		{"receipts-v2", func(l c19List) []byte { return c19Receipts(mkRs(l.List), true, l.Bloom, nil).MerkleRoot() }},
	}
	for _, f := range fns {
		byReal := map[string][]int{}
		byModel := map[string][]int{}
		for i, l := range in.Lists {
			r := f.fn(l)
			if r == nil {
				continue
			}
			res.Count(fmt.Sprintf("list|%s|%v|%v", f.name, l.List, l.Bloom))
			byReal[hex.EncodeToString(r)] = append(byReal[hex.EncodeToString(r)], i)
			byModel[l.Root] = append(byModel[l.Root], i)
			if len(l.List) == 0 && !l.Bloom && f.name == "txs" {
				res.Sample(map[string]interface{}{"root": f.name, "list": l.List, "real": hex.EncodeToString(r)})
			}
		}
		reported := 0
		realKeys := make([]string, 0, len(byReal))
		for k := range byReal {
			realKeys = append(realKeys, k)
		}
		sort.Slice(realKeys, func(i, j int) bool { return byReal[realKeys[i]][0] < byReal[realKeys[j]][0] })
		for _, rk := range realKeys {
			idx := byReal[rk]
			if len(idx) < 2 {
				continue
			}
			// the property: a root denotes one list
			a, b := in.Lists[idx[0]], in.Lists[idx[1]]
			pattern := "other"
			if a.Bloom == b.Bloom && c19PadEquivalent(c19Entries(a), c19Entries(b)) {
				pattern = "odd-tail-repeated"
			}
			if reported < 4 {
				c19Violate(res, map[string]interface{}{"kind": "root-not-binding", "level": "types", "root": c19RootClass(f.name), "pattern": pattern},
					map[string]interface{}{"root": f.name, "lists": []c19List{a, b}, "colliding_lists": len(idx)},
					"%s root: the different lists %v and %v (block bloom %v/%v) have the same root", f.name, a.List, b.List, a.Bloom, b.Bloom)
				reported++
			}
			for _, j := range idx[1:] { // lists the model keeps apart but the code does not
				if in.Lists[j].Root != in.Lists[idx[0]].Root {
					diverge["root="+f.name+" real roots equal, model roots differ"]++
				}
			}
		}
		for _, idx := range byModel {
			r0 := f.fn(in.Lists[idx[0]])
			for _, j := range idx[1:] {
				if !bytes.Equal(r0, f.fn(in.Lists[j])) {
					diverge["root="+f.name+" model roots equal (padding rule), real roots differ"]++
				}
			}
		}
	}
	// sampled beyond the bounds: long lists, one element replaced / removed / swapped / appended
	for k := 0; k < in.LongLists; k++ {
		n := 1 + rng.Intn(70)
		txs := make([]*Tx, n)
		ids := make([]string, n)
		for i := range txs {
			tx := &Tx{Body: c19BaseTx("full", rng)}
			tx.Hash = tx.CalculateTxHash()
			txs[i], ids[i] = tx, hex.EncodeToString(tx.Hash[:6])
		}
		root := CalculateTxsRootHash(txs)
		extra := &Tx{Body: c19BaseTx("full", rng)}
		extra.Hash = extra.CalculateTxHash()
		i, j := rng.Intn(n), rng.Intn(n)
		variants := map[string][]*Tx{}
		rep := append([]*Tx(nil), txs...)
		rep[i] = extra
		variants["replace"] = rep
		variants["remove"] = append(append([]*Tx(nil), txs[:i]...), txs[i+1:]...)
		variants["append"] = append(append([]*Tx(nil), txs...), extra)
		variants["appendCopyOfLast"] = append(append([]*Tx(nil), txs...), txs[n-1])
		if txs[i] != txs[j] {
			sw := append([]*Tx(nil), txs...)
			sw[i], sw[j] = sw[j], sw[i]
			variants["swap"] = sw
		}
		for _, name := range []string{"replace", "remove", "append", "appendCopyOfLast", "swap"} {
			v, present := variants[name]
			if !present {
				continue
			}
			res.Count(fmt.Sprintf("longlist|%d|%s", k, name))
			if bytes.Equal(CalculateTxsRootHash(v), root) {
				vid := make([]string, len(v))
				for q, tx := range v {
					vid[q] = hex.EncodeToString(tx.Hash[:6])
				}
				pattern := "other"
				if c19PadEquivalent(ids, vid) {
					pattern = "odd-tail-repeated"
				}
				c19Violate(res, map[string]interface{}{"kind": "root-not-binding", "level": "types", "root": "txs", "pattern": pattern},
					map[string]interface{}{"root": "txs", "length": n, "variant": name, "position": i, "list": ids, "other": vid},
					"txs root: a list of %d transactions and its variant '%s' have the same root", n, name)
			}
		}
	}
}

func c19Entries(l c19List) []string {
	if l.Bloom {
		return append(append([]string(nil), l.List...), "BLOOM")
	}
	return l.List
}

func c19RootClass(n string) string {
	if strings.HasPrefix(n, "receipts") {
		return "receipts"
	}
	return n
}

// ---------------------------------------------------------------- stored containers

func c19Cells(cells []int, rng *rand.Rand, first byte) []byte {
	if len(cells) == 0 {
		return nil
	}
	b := c19Rnd(rng, len(cells)*(1+rng.Intn(20)))
	if first != 0 {
		b[0] = first
	}
	return b
}

// c19Concrete builds a concrete receipt from the abstract one.  A decoder that loses its position after
// CumulativeFeeUsed (the stray advance repaired by 7559143f) takes 4 bytes of payload for the event counter; so that a
// tree with such a defect allocates little, the samples with that field set use a 4-byte value and addresses with
// zeros after their prefix byte (the caller passes such addresses).
func c19Concrete(a c19AbsReceipt, addrs [][]byte, rng *rand.Rand) *Receipt {
	r := NewReceipt(addrs[a.Addr-1], a.Status, "")
	if len(a.Ret) > 0 {
		r.Ret = `"` + hex.EncodeToString(c19Rnd(rng, 1+rng.Intn(20))) + `"`
	}
	r.TxHash = c19Rnd(rng, 32)
	r.FeeUsed = c19Cells(a.Fee, rng, 0)
	if len(a.Cum) > 0 {
		r.CumulativeFeeUsed = c19Rnd(rng, 4)
	}
	if a.Gas > 0 {
		r.GasUsed = 1 + uint64(rng.Int63())
	}
	r.FeeDelegation = a.Fd
	if len(a.Bloom) > 0 {
		r.Bloom = c19Bloom(rng)
	}
	for _, e := range a.Events {
		ev := &Event{ContractAddress: addrs[e.Addr-1], JsonArgs: `["` + hex.EncodeToString(c19Rnd(rng, 1+rng.Intn(10))) + `"]`, TxHash: r.TxHash}
		if len(e.Name) > 0 {
			ev.EventName = "n" + hex.EncodeToString(c19Rnd(rng, rng.Intn(8)))
		}
		if e.Idx > 0 {
			ev.EventIdx = 1 + int32(rng.Intn(1<<20))
		}
		r.Events = append(r.Events, ev)
	}
	r.SetMemoryInfo(c19Rnd(rng, 32), 77, 0)
	return r
}

func c19RunCodec(in *c19Input, res *verifkit.Result, diverge map[string]int) {
	for ci, c := range in.Codec {
		for rep := 0; rep < in.Reps; rep++ {
			rng := verifkit.Rng(900000 + int64(ci)*17 + int64(rep))
			// the address classes of the node: contract ids (0x0C), key addresses (0x02/0x03), padded names (0x80)
			addrs := [][]byte{c19Addr([]byte{0x0C, 0x02, 0x80}[rep%3], rng), c19Addr([]byte{0x03, 0x0C, 0x02}[rep%3], rng)}
			for _, a := range c.Rs {
				if len(a.Cum) > 0 {
					for _, ad := range addrs {
						ad[1], ad[2], ad[3] = 0, 0, 0
					}
				}
			}
			v2 := c.Fmt == "v2"
			var rs []*Receipt
			for _, a := range c.Rs {
				rs = append(rs, c19Concrete(a, addrs, rng))
			}
			cont := c19Receipts(rs, v2, c.Bloom, rng)
			back, problem := c19StoreLoad(cont, v2)
			diff := problem
			if back != nil {
				diff = c19ContainerDiff(cont, back, v2)
			}
			res.Count(fmt.Sprintf("codec|%d", ci))
			if diff != "" {
				c19Violate(res, map[string]interface{}{"kind": "roundtrip", "object": "receipts", "class": c19RoundTripClass(rs, diff)},
					map[string]interface{}{"case": c, "receipts": c19DumpReceipts(rs), "difference": diff},
					"receipts container (format %s, block bloom %v, %d receipts) read back differs from what was written: %s", c.Fmt, c.Bloom, len(rs), diff)
			}
			if (diff == "") != c.Ok {
				diverge[fmt.Sprintf("stored receipts: model round trip ok=%v, real ok=%v (class %s)", c.Ok, diff == "", c19RoundTripClass(rs, diff))]++
			}
			if rep == 0 && ci%997 == 0 {
				res.Sample(map[string]interface{}{"codec_case": c, "difference": diff})
			}
		}
	}
}

// ---------------------------------------------------------------- chain ids

func c19Name(cells []int, rng *rand.Rand, wide bool) string {
	var sb strings.Builder
	for _, c := range cells {
		if c == 0 {
			sb.WriteByte('/')
			continue
		}
		sb.WriteByte(byte('a' + c - 1))
		if wide {
			sb.WriteString(hex.EncodeToString(c19Rnd(rng, rng.Intn(4))))
			if rng.Intn(3) == 0 {
				sb.WriteByte('.')
			}
		}
	}
	return sb.String()
}

func c19RunCids(in *c19Input, res *verifkit.Result, diverge map[string]int) {
	versions := []int32{0, 1, 2, 3, 4, 5, -1, math.MaxInt32, math.MinInt32}
	for _, wide := range []bool{false, true} {
		rng := verifkit.Rng(5005)
		byBytes := map[string][]*ChainID{}
		for ci, c := range in.Cids {
			id := &ChainID{Version: c.C.Ver, PublicNet: c.C.Pub, MainNet: c.C.Main, Magic: c19Name(c.C.Magic, rng, wide), Consensus: c19Name(c.C.Cons, rng, wide)}
			if wide {
				id.Version = versions[(ci+int(c.C.Ver))%len(versions)]
			}
			res.Count(fmt.Sprintf("cid|%v|%d", wide, ci))
			b, err := id.Bytes()
			if (err == nil) != c.Stored {
				diverge[fmt.Sprintf("chain id: model encoder accepts=%v, real encoder accepts=%v", c.Stored, err == nil)]++
			}
			if err != nil {
				continue // refused when written: nothing was stored
			}
			byBytes[string(b)] = append(byBytes[string(b)], id)
			hasSep := strings.Contains(id.Magic, "/") || strings.Contains(id.Consensus, "/")
			class := "other"
			if hasSep {
				class = "separator-in-name"
			}
			back := NewChainID()
			rerr := back.Read(b)
			ok := rerr == nil && back.Equals(id)
			if !ok {
				c19Violate(res, map[string]interface{}{"kind": "roundtrip", "object": "chainid", "class": class},
					map[string]interface{}{"chainid": id, "bytes": hex.EncodeToString(b), "read_error": fmt.Sprint(rerr), "read": back},
					"chain id %s read back from its own bytes: error=%v value=%s", id.ToJSON(), rerr, back.ToJSON())
			}
			if ok != c.Ok {
				diverge[fmt.Sprintf("chain id: model round trip ok=%v, real ok=%v (%s)", c.Ok, ok, class)]++
			}
			// the version prefix is replaceable without touching the rest
			for _, v := range versions {
				before := append([]byte(nil), b...)
				nb := MakeChainId(b, v)
				if !bytes.Equal(b, before) { // the argument is the parent block's own header field in every caller
					c19Violate(res, map[string]interface{}{"kind": "input-modified", "function": "MakeChainId"},
						map[string]interface{}{"chainid": id, "version": v, "argument_before": hex.EncodeToString(before), "argument_after": hex.EncodeToString(b)},
						"MakeChainId(%s, %d) changed the bytes it was given (version prefix %d -> %d): a parent block's header would no longer hash to its id",
						id.ToJSON(), v, DecodeChainIdVersion(before), DecodeChainIdVersion(b))
					nb = append([]byte(nil), nb...) // keep the result, give the argument its bytes back
					copy(b, before)
				}
				if DecodeChainIdVersion(nb) != v || !ChainIdEqualWithoutVersion(nb, b) || len(nb) != len(b) {
					c19Violate(res, map[string]interface{}{"kind": "makechainid", "class": "prefix"}, map[string]interface{}{"chainid": id, "version": v},
						"MakeChainId(%s, %d) does not yield the same id with version %d", id.ToJSON(), v, v)
				}
				if ok {
					x := NewChainID()
					want := *id
					want.Version = v
					if err := x.Read(nb); err != nil || !x.Equals(&want) {
						c19Violate(res, map[string]interface{}{"kind": "makechainid", "class": "decode"}, map[string]interface{}{"chainid": id, "version": v},
							"MakeChainId(%s, %d) decodes to %s (%v)", id.ToJSON(), v, x.ToJSON(), err)
					}
				}
			}
			if ci%211 == 0 && !wide {
				res.Sample(map[string]interface{}{"chainid": id, "bytes": hex.EncodeToString(b), "roundtrip": ok})
			}
		}
		reported := 0
		byteKeys := make([]string, 0, len(byBytes))
		for k := range byBytes {
			byteKeys = append(byteKeys, k)
		}
		sort.Strings(byteKeys)
		for _, bk := range byteKeys {
			ids := byBytes[bk]
			for i := 1; i < len(ids); i++ {
				if !ids[0].Equals(ids[i]) && reported < 3 {
					class := "other"
					if strings.Contains(ids[0].Magic+ids[0].Consensus+ids[i].Magic+ids[i].Consensus, "/") {
						class = "separator-in-name"
					}
					b, _ := ids[0].Bytes()
					c19Violate(res, map[string]interface{}{"kind": "not-binding", "object": "chainid", "class": class},
						map[string]interface{}{"a": ids[0], "b": ids[i], "bytes": hex.EncodeToString(b)},
						"the different chain ids %s and %s have the same binary form", ids[0].ToJSON(), ids[i].ToJSON())
					reported++
				}
			}
		}
	}
}

// ---------------------------------------------------------------- genesis (sampled)

func c19RunGenesis(in *c19Input, res *verifkit.Result) {
	rng := verifkit.Rng(8008)
	for k := 0; k < in.Genesis; k++ {
		g := &Genesis{ID: ChainID{Version: int32(rng.Intn(6)), PublicNet: rng.Intn(2) == 0, MainNet: rng.Intn(2) == 0,
			Magic: "m" + hex.EncodeToString(c19Rnd(rng, rng.Intn(6))), Consensus: []string{"dpos", "raft", "sbp", ""}[rng.Intn(4)]},
			Timestamp: []int64{0, 1, -5, rng.Int63(), math.MaxInt64}[rng.Intn(5)]}
		for i := rng.Intn(4); i > 0; i-- {
			g.BPs = append(g.BPs, "16Uiu2"+hex.EncodeToString(c19Rnd(rng, 20)))
		}
		for i := rng.Intn(3); i > 0; i-- {
			g.EnterpriseBPs = append(g.EnterpriseBPs, EnterpriseBP{Name: fmt.Sprintf("bp%d", i), Address: "/ip4/10.0.0.1/tcp/7846", PeerID: hex.EncodeToString(c19Rnd(rng, 12))})
		}
		if rng.Intn(2) == 0 {
			g.Balance = map[string]string{"AmNpn7K9wg6wsn6oMkTWwLeLFrnpbNPJDMVu6hHBxKMuTqFcJ9K2": "100"}
		}
		res.Count(fmt.Sprintf("genesis|%d", k))
		back := GetGenesisFromBytes(g.Bytes())
		bad := ""
		switch {
		case back == nil:
			bad = "undecodable"
		case !back.ID.Equals(&g.ID):
			bad = "ID"
		case back.Timestamp != g.Timestamp:
			bad = "Timestamp"
		case strings.Join(back.BPs, ",") != strings.Join(g.BPs, ","):
			bad = "BPs"
		case fmt.Sprint(back.EnterpriseBPs) != fmt.Sprint(g.EnterpriseBPs) && (len(back.EnterpriseBPs) > 0 || len(g.EnterpriseBPs) > 0):
			bad = "EnterpriseBPs"
		}
		if bad == "" { // the genesis block built from what was read back is the block that was built from what was written
			a, b := g.Block(), back.Block()
			if !bytes.Equal(a.calculateBlockHash(), b.calculateBlockHash()) {
				bad = "genesis block hash"
			}
		}
		if bad != "" {
			c19Violate(res, map[string]interface{}{"kind": "roundtrip", "object": "genesis", "class": bad}, map[string]interface{}{"genesis": g, "read": back},
				"genesis read back from Genesis.Bytes differs in %s", bad)
		}
	}
}
