//go:build verif

package syncer

// End-to-end runs of the real Syncer against REAL chain services (C17): the local node and the remote node are
// chain.ChainService instances on in-memory stores; anchors come from chainanchor.go:getAnchorsNew (Skip = 16,
// MaxAnchors = 32), the sync peer's ancestor answer from chainhandle.go:findAncestor, every AddBlock is executed
// by chain.addBlock (side branch, reorganisation).  Chains are long enough for the anchors not to reach the
// genesis block, so the honest "no ancestor among the anchors" answer and the full scan are exercised.  The
// driver answers in random order and injects faults; the property predicates of the replay harness apply.

import (
	"fmt"
	"math/rand"
	"sort"
	"strings"
	"testing"
	"time"

	"github.com/aergoio/aergo/v2/chain"
	"github.com/aergoio/aergo/v2/internal/verifkit"
	"github.com/aergoio/aergo/v2/types"
	"github.com/aergoio/aergo/v2/types/message"
)

type vE2EScenario struct {
	ID        string  `json:"id"`
	Lbest     int     `json:"lbest"`
	Rbest     int     `json:"rbest"`
	Fork      int     `json:"fork"`
	Target    int     `json:"target"`
	NPeers    int     `json:"npeers"`
	ChunkSize int     `json:"chunk"`
	HashReq   int     `json:"hashreq"`
	MaxTasks  int     `json:"maxtasks"`
	MaxPend   int     `json:"maxpend"`
	Full      bool    `json:"full"`
	FaultRate float64 `json:"fault_rate"`
	MaxFaults int     `json:"max_faults"`
	Seed      int64   `json:"seed"`
	// the remote node has also stored the local node's branch (as a side branch): its ancestor search must not offer those blocks
	RemoteKnowsLocal bool `json:"remote_knows_local"`
}

type vE2EInput struct {
	Scenarios []vE2EScenario `json:"scenarios"`
}

type vCSLocal struct {
	*chain.ChainService
}

func (l vCSLocal) best() int {
	b, err := l.GetBestBlock()
	if err != nil || b == nil {
		return -1
	}
	return int(b.GetHeader().GetBlockNo())
}

func (l vCSLocal) mainHash(no int) []byte {
	if no < 0 {
		return nil
	}
	h, err := l.GetHashByNo(uint64(no))
	if err != nil {
		return nil
	}
	return h
}

func (l vCSLocal) addBlock(b *types.Block) error { return l.VerifC17AddBlock(b) }

func vGenBlockOn(prev *types.Block) *types.Block {
	bi := types.NewBlockHeaderInfoFromPrevBlock(prev, vNextTs(), types.DummyBlockVersionner(0))
	b := types.NewBlock(bi, prev.GetHeader().GetBlocksRootHash(), nil, nil, nil, nil)
	b.BlockHash()
	return b
}

func vExtendOn(base []*types.Block, upto int) []*types.Block {
	out := append([]*types.Block(nil), base...)
	for len(out)-1 < upto {
		out = append(out, vGenBlockOn(out[len(out)-1]))
	}
	return out
}

func newWorldE2E(sc vE2EScenario, rng *rand.Rand) (*vWorld, error) {
	localCS := chain.VerifC17NewChain()
	remoteCS := chain.VerifC17NewChain()
	gen := localCS.VerifC17Genesis()
	if g2 := remoteCS.VerifC17Genesis(); g2 == nil || gen == nil || string(g2.BlockHash()) != string(gen.BlockHash()) {
		return nil, fmt.Errorf("genesis blocks differ")
	}
	common := vExtendOn([]*types.Block{gen}, sc.Fork)
	local := vExtendOn(common, sc.Lbest)
	remote := vExtendOn(common, sc.Rbest)
	for _, b := range local[1:] {
		if err := localCS.VerifC17AddBlock(b); err != nil {
			return nil, fmt.Errorf("building the local chain: block %d: %v", b.GetHeader().GetBlockNo(), err)
		}
	}
	for _, b := range remote[1:] {
		if err := remoteCS.VerifC17AddBlock(b); err != nil {
			return nil, fmt.Errorf("building the remote chain: block %d: %v", b.GetHeader().GetBlockNo(), err)
		}
	}
	if sc.RemoteKnowsLocal && sc.Lbest < sc.Rbest {
		for _, b := range local[sc.Fork+1:] {
			if err := remoteCS.VerifC17AddBlock(b); err != nil {
				return nil, fmt.Errorf("giving the remote node the local branch: block %d: %v", b.GetHeader().GetBlockNo(), err)
			}
		}
		if h, err := remoteCS.GetHashByNo(uint64(sc.Rbest)); err != nil || string(h) != string(remote[sc.Rbest].BlockHash()) {
			return nil, fmt.Errorf("remote main chain changed by the side branch")
		}
	}
	par := vParams{NPeers: sc.NPeers, ChunkSize: sc.ChunkSize, HashReq: sc.HashReq, MaxTasks: sc.MaxTasks, MaxPendingConn: sc.MaxPend, MaxFail: MaxPeerFailCount}
	w := &vWorld{par: par, ch: vChains{Lbest: sc.Lbest, Rbest: sc.Rbest, Fork: sc.Fork, Full: sc.Full}, rng: rng,
		sig: make(chan struct{}, 1), reqs: map[string]*vOut{}, rno: map[string]int{}, notifyC: make(chan error, 64)}
	w.remote = remote
	w.alt = vExtendOn([]*types.Block{gen}, sc.Rbest+2)
	for i, b := range remote {
		w.rno[string(b.BlockHash())] = i
	}
	w.lc = vCSLocal{localCS}
	w.realAnchors = func() ([][]byte, uint64) {
		hs, last, err := localCS.VerifC17Anchors()
		if err != nil {
			return nil, 0
		}
		return hs, last
	}
	w.realAncestor = func(hashes [][]byte) *types.BlockInfo {
		bi, err := remoteCS.VerifC17FindAncestor(hashes)
		if err != nil {
			return nil
		}
		return bi
	}
	for i := 1; i <= par.NPeers; i++ {
		w.peers = append(w.peers, vPeerID(i))
	}
	w.cfg = &SyncerConfig{maxHashReqSize: uint64(par.HashReq), maxBlockReqSize: par.ChunkSize, maxPendingConn: par.MaxPendingConn,
		maxBlockReqTasks: par.MaxTasks, fetchTimeOut: time.Hour, useFullScanOnly: sc.Full}
	w.sy = NewSyncer(nil, localCS, w.cfg)
	w.sy.SetRequester(w)
	return w, nil
}

// finishRandom drives the running session to its end: random response order, faults with the given rate
func (w *vWorld) finishRandom(rate float64, maxFaults int) {
	faults := 0
	idleSince := time.Now()
	backdated := false
	for iter := 0; iter < 1000000; iter++ {
		w.drainNotify()
		w.mu.Lock()
		var s *vSelf
		var o *vOut
		nOut := len(w.reqs)
		if len(w.selfq) > 0 && (nOut == 0 || w.rng.Intn(3) == 0 || !w.sy.isRunning) {
			s = w.selfq[0]
			w.selfq = w.selfq[1:]
		} else if w.sy.isRunning && nOut > 0 {
			keys := make([]string, 0, nOut)
			for k := range w.reqs {
				keys = append(keys, k)
			}
			sort.Strings(keys)
			k := keys[w.rng.Intn(len(keys))]
			o = w.reqs[k]
			delete(w.reqs, k)
		}
		w.mu.Unlock()
		switch {
		case s != nil:
			if !w.deliverSelf(s) {
				return
			}
		case o != nil:
			fault := faults < maxFaults && w.rng.Float64() < rate
			kind := "ok"
			if fault {
				faults++
				kind = []string{"fail", "drop"}[w.rng.Intn(2)]
			}
			var rsp interface{}
			switch o.msg.(type) {
			case *message.AddBlock:
				rsp = w.addRsp(o, true)
			case *message.GetBlockChunks:
				if fault && w.rng.Intn(3) == 0 && o.task != nil {
					// the peer stays silent: the task times out
					o.task.started = o.task.started.Add(-24 * time.Hour)
					continue
				}
				rsp = w.chunkRsp(o, kind)
			case *message.GetHashes:
				rsp = w.hashesRsp(o, "ok")
			case *message.GetSyncAncestor:
				time.Sleep(500 * time.Microsecond)
				rsp = w.ancestorRsp(o, "ok")
				w.mu.Lock()
				w.reqs[o.key] = o
				w.mu.Unlock()
			case *message.GetHashByNo:
				rsp = w.hashByNoRsp(o, "ok")
			}
			if !w.deliverTracked(rsp) {
				return
			}
			if _, isAnc := o.msg.(*message.GetSyncAncestor); isAnc {
				for i := 0; i < 40; i++ {
					w.mu.Lock()
					reacted := len(w.selfq) > 0 || w.sessFull || !w.sy.isRunning
					if reacted {
						delete(w.reqs, o.key)
					}
					w.mu.Unlock()
					if reacted {
						break
					}
					time.Sleep(time.Millisecond)
				}
			}
		default:
			if !w.sy.isRunning {
				return
			}
			select {
			case <-w.sig:
				idleSince = time.Now()
				backdated = false
				continue
			case <-time.After(10 * time.Millisecond):
			}
			idle := time.Since(idleSince)
			if idle > 50*time.Millisecond && !backdated {
				w.mu.Lock()
				ts := append([]*vOut(nil), w.tasks...)
				w.mu.Unlock()
				for _, t := range ts {
					if t.task != nil {
						t.task.started = t.task.started.Add(-24 * time.Hour)
					}
				}
				backdated = true
			}
			if idle > vHangLimit {
				w.mu.Lock()
				w.violate("no-termination", "session seq=%d makes no progress for %v with nothing outstanding (running=%v)\n%s", w.sy.Seq, vHangLimit, w.sy.isRunning, goroutineDump())
				w.mu.Unlock()
				return
			}
			continue
		}
		idleSince = time.Now()
		backdated = false
	}
}

func runE2E(sc vE2EScenario) (viol []vViolation, note string, err error) {
	anchorsDiffer := ""
	rng := rand.New(rand.NewSource(sc.Seed))
	w, err := newWorldE2E(sc, rng)
	if err != nil {
		return nil, "", err
	}
	w.shortTO = 150 * time.Millisecond
	common := w.common()
	if common != sc.Fork {
		return nil, "", fmt.Errorf("scenario construction: common=%d fork=%d", common, sc.Fork)
	}
	// the anchors of the real chain service are what Syncer.tla's Anchors says for Skip = 16, MaxAnchors = 32
	hs, last := w.anchors()
	no := sc.Lbest
	for i := 0; i < 32; i++ {
		if i >= len(hs) || string(hs[i]) != string(w.lc.mainHash(no)) {
			anchorsDiffer = fmt.Sprintf("getAnchorsNew: anchor #%d is not the main chain block %d (best %d)", i, no, sc.Lbest)
			break
		}
		if no == 0 {
			if len(hs) != i+1 || last != 0 {
				anchorsDiffer = fmt.Sprintf("getAnchorsNew: %d anchors, last %d; expected %d anchors ending at 0", len(hs), last, i+1)
			}
			break
		}
		if i == 31 && (len(hs) != 32 || int(last) != no) {
			anchorsDiffer = fmt.Sprintf("getAnchorsNew: %d anchors, last %d; expected 32 anchors ending at %d", len(hs), last, no)
		}
		if no < 16 {
			no = 0
		} else {
			no -= 16
		}
	}
	// sessions until the target is reached (a faulty session may stop with an error; the next one continues)
	for s := 0; s < 6 && len(w.viol) == 0 && w.lc.best() < sc.Target; s++ {
		seq := w.sy.Seq
		if !w.startSession(sc.Target, false, true) {
			break
		}
		if !w.sy.isRunning || w.sy.Seq != seq+1 {
			w.violate("restart-refused", "SyncStart(target %d) not accepted: running=%v seq %d->%d local best %d", sc.Target, w.sy.isRunning, seq, w.sy.Seq, w.lc.best())
			break
		}
		rate, mf := sc.FaultRate, sc.MaxFaults
		if s >= 2 {
			rate, mf = 0, 0
		}
		w.finishRandom(rate, mf)
		w.drainNotify()
	}
	if len(w.viol) == 0 {
		w.drainNotify()
		if len(w.notifs) != w.accepted {
			w.violate("missing-notification", "%d sessions were accepted but %d result notifications arrived", w.accepted, len(w.notifs))
		} else if w.lc.best() < sc.Target {
			w.violate("restart-failed", "target %d not reached after %d sessions (notifications %v, local best %d)", sc.Target, w.accepted, w.notifs, w.lc.best())
		} else {
			for i := 0; i <= sc.Target; i++ {
				if string(w.lc.mainHash(i)) != string(w.remote[i].BlockHash()) {
					w.violate("wrong-chain", "after a successful sync the local main chain differs from the remote chain at block %d", i)
					break
				}
			}
		}
	}
	if w.sy.isRunning {
		w.sy.Reset(errVerifStop)
	}
	note = fmt.Sprintf("%s: sessions=%d notifications=%v fullscan=%v", sc.ID, w.accepted, w.notifs, w.sessFull)
	if anchorsDiffer != "" {
		note = "DIVERGENCE " + sc.ID + ": " + anchorsDiffer // the anchor layout is not part of the property
	}
	return w.viol, note, nil
}

func TestVerifSyncerE2E(t *testing.T) {
	if !verifkit.Enabled() {
		t.Skip("not started by bin/vcheck")
	}
	var in vE2EInput
	if err := verifkit.ReadInput(&in); err != nil {
		t.Fatal(err)
	}
	res := verifkit.NewResult()
	defer func() {
		if err := res.Write(); err != nil {
			t.Fatal(err)
		}
	}()
	schedTick = 2 * time.Millisecond
	dfltTimeout = time.Hour
	quietLogger()
	ndiv := 0
	defer func() { res.Extra["divergences"] = ndiv }()
	for _, sc := range in.Scenarios {
		viol, note, err := runE2E(sc)
		if err != nil {
			t.Fatalf("scenario %s: %v", sc.ID, err)
		}
		res.Count(sc.ID)
		res.Note("%s", note)
		if strings.HasPrefix(note, "DIVERGENCE") {
			ndiv++
		}
		for _, v := range viol {
			res.Violate(v.sig, map[string]interface{}{"kind": v.sig["kind"], "scenario": sc}, "%s\n(e2e scenario %+v)", v.text, sc)
		}
	}
}

var _ = strings.HasPrefix
