//go:build verif

package syncer

import (
	"errors"
	"fmt"
	"math/rand"
	"os"
	"sort"
	"strings"
	"sync"
	"testing"
	"time"

	"github.com/aergoio/aergo/v2/internal/verifkit"
	"github.com/aergoio/aergo/v2/types"
	"github.com/aergoio/aergo/v2/types/message"
)

var (
	errVerifStop = errors.New("verif: stop requested")
	errVerifPeer = errors.New("verif: peer failure")
	vFinderMu    sync.Mutex // serialises the deliveries that read the package variable dfltTimeout
)

const (
	vStepLimit = 20 * time.Second // a step's outputs must show up within this time
	vHangLimit = 25 * time.Second // free run: no progress for this long = no termination
)

// ---------------------------------------------------------------- sessions

func (w *vWorld) startSession(target int, finderTimer bool, notify bool) bool {
	w.mu.Lock()
	w.dlv, w.dlvHash, w.tasks, w.ancInfo = nil, nil, nil, nil
	w.sessFull, w.nilFault, w.hfArmed, w.bfEnded = false, false, false, false
	w.ackedOK = map[int]bool{}
	w.common0 = w.common()
	w.curTarget = target
	w.mu.Unlock()
	if finderTimer {
		w.cfg.fetchTimeOut = w.shortTO
	} else {
		w.cfg.fetchTimeOut = time.Hour
	}
	var c chan error
	if notify {
		c = w.notifyC
	}
	w.nsess++
	return w.deliverTracked(&message.SyncStart{PeerID: w.peers[0], TargetNo: uint64(target), NotifyC: c})
}

// deliverTracked delivers and does the end-of-session bookkeeping (outstanding requests become stale)
func (w *vWorld) deliverTracked(m interface{}) bool {
	was := w.sy.isRunning
	seq0 := w.sy.Seq
	defer func() {
		if _, ok := m.(*message.SyncStart); ok && w.sy.Seq != seq0 {
			w.accepted++
		}
	}()
	if !w.deliver(m) {
		w.mu.Lock()
		w.violate("actor-blocked", "Syncer.Receive(%T) did not return within %v: the actor is blocked\n%s", m, vBlockLimit, goroutineDump())
		// the two known ways to get there (known_findings.json) are told apart by what was being handed over
		if n := len(w.viol); n > 0 && w.viol[n-1].sig["kind"] == "actor-blocked" {
			switch m.(type) {
			case *message.GetHashByNoRsp:
				w.viol[n-1].sig["race"] = "hashbyno-response-after-finder-timeout"
			case *message.GetBlockChunksRsp, *message.AddBlockRsp:
				if w.bfEnded {
					w.viol[n-1].sig["race"] = "responses-for-ended-blockfetcher-exceed-buffer"
				}
			}
		}
		w.mu.Unlock()
		return false
	}
	if was && !w.sy.isRunning {
		w.mu.Lock()
		for k, o := range w.reqs {
			if strings.HasPrefix(k, "add:") {
				w.staleAdd = o
			} else {
				w.stale = append(w.stale, o)
			}
		}
		w.reqs = map[string]*vOut{}
		w.dlv, w.dlvHash = nil, nil
		w.mu.Unlock()
	}
	return true
}

func (w *vWorld) acked() int {
	if w.ancInfo == nil {
		return -1
	}
	n := int(w.ancInfo.No)
	for w.ackedOK[n+1] {
		n++
	}
	return n
}

// ---------------------------------------------------------------- building responses

func (w *vWorld) take(key string) *vOut {
	w.mu.Lock()
	defer w.mu.Unlock()
	o := w.reqs[key]
	delete(w.reqs, key)
	return o
}

func (w *vWorld) takePrefix(prefix string) *vOut {
	w.mu.Lock()
	defer w.mu.Unlock()
	var keys []string
	for k := range w.reqs {
		if strings.HasPrefix(k, prefix) {
			keys = append(keys, k)
		}
	}
	if len(keys) == 0 {
		return nil
	}
	sort.Strings(keys)
	o := w.reqs[keys[0]]
	delete(w.reqs, keys[0])
	return o
}

// the remote node's findAncestor: the first of the hashes that is on its main chain
func (w *vWorld) honestAncestor(hashes [][]byte) *types.BlockInfo {
	if w.realAncestor != nil {
		return w.realAncestor(hashes)
	}
	for _, h := range hashes {
		if n, ok := w.rno[string(h)]; ok {
			return &types.BlockInfo{Hash: h, No: uint64(n)}
		}
	}
	return nil
}

func (w *vWorld) ancestorRsp(o *vOut, kind string) *message.GetSyncAncestorRsp {
	req := o.msg.(*message.GetSyncAncestor)
	rsp := &message.GetSyncAncestorRsp{Seq: req.Seq}
	switch kind {
	case "ok":
		rsp.Ancestor = w.honestAncestor(req.Hashes)
	case "nil":
		w.mu.Lock()
		w.nilFault = true
		w.mu.Unlock()
	case "low":
		rsp.Ancestor = &types.BlockInfo{Hash: w.remote[0].BlockHash(), No: 0}
	}
	return rsp
}

func (w *vWorld) hashByNoRsp(o *vOut, kind string) *message.GetHashByNoRsp {
	req := o.msg.(*message.GetHashByNo)
	rsp := &message.GetHashByNoRsp{Seq: req.Seq}
	if kind == "ok" && int(req.BlockNo) < len(w.remote) {
		rsp.BlockHash = w.remote[req.BlockNo].BlockHash()
	} else {
		rsp.Err = errVerifPeer
	}
	return rsp
}

func (w *vWorld) hashesRsp(o *vOut, kind string) *message.GetHashesRsp {
	req := o.msg.(*message.GetHashes)
	prev, cnt := int(req.PrevInfo.No), int(req.Count)
	var hs []message.BlockHash
	for i := prev + 1; i <= prev+cnt && i < len(w.remote); i++ {
		hs = append(hs, w.remote[i].BlockHash())
	}
	rsp := &message.GetHashesRsp{Seq: req.Seq, PrevInfo: req.PrevInfo, Hashes: hs, Count: uint64(len(hs))}
	switch kind {
	case "ok":
	case "fail": // an error together with hashes
		rsp.Err = errVerifPeer
	case "drop":
		v := w.rng.Intn(3)
		if v == 1 && cnt < 2 {
			v = 0
		}
		switch v {
		case 0: // what p2p sends when the peer fails: error, no hashes
			rsp.Hashes, rsp.Count, rsp.Err = nil, 0, errVerifPeer
		case 1: // too few
			rsp.Hashes, rsp.Count = hs[:len(hs)-1], uint64(len(hs)-1)
		case 2: // the answer to another question: the same number of hashes, window shifted by one block
			if prev+1+cnt < len(w.remote) {
				rsp.PrevInfo = &types.BlockInfo{Hash: w.remote[prev+1].BlockHash(), No: uint64(prev + 1)}
				hs = nil
				for i := prev + 2; i <= prev+1+cnt; i++ {
					hs = append(hs, w.remote[i].BlockHash())
				}
			} else if prev >= 1 {
				rsp.PrevInfo = &types.BlockInfo{Hash: w.remote[prev-1].BlockHash(), No: uint64(prev - 1)}
				hs = nil
				for i := prev; i < prev+cnt; i++ {
					hs = append(hs, w.remote[i].BlockHash())
				}
			} else {
				rsp.PrevInfo = &types.BlockInfo{Hash: w.alt[1].BlockHash(), No: req.PrevInfo.No}
			}
			rsp.Hashes, rsp.Count = hs, uint64(len(hs))
		}
		w.logf("hashes drop variant %d", v)
	}
	return rsp
}

func (w *vWorld) chunkBlocks(first, count int) []*types.Block {
	var bs []*types.Block
	for i := first; i < first+count && i < len(w.remote); i++ {
		bs = append(bs, w.remote[i])
	}
	return bs
}

func (w *vWorld) chunkRsp(o *vOut, kind string) *message.GetBlockChunksRsp {
	req := o.msg.(*message.GetBlockChunks)
	rsp := &message.GetBlockChunksRsp{Seq: req.Seq, ToWhom: req.ToWhom}
	good := w.chunkBlocks(o.first, o.count)
	switch kind {
	case "ok":
		rsp.Blocks = good
	case "fail":
		v := w.rng.Intn(3)
		if v == 2 && len(good) < 2 {
			v = w.rng.Intn(2)
		}
		switch v {
		case 0:
			rsp.Err = errVerifPeer
		case 1:
			rsp.Blocks = []*types.Block{}
		case 2: // hash-unlinked: two blocks swapped
			bs := append([]*types.Block(nil), good...)
			i := w.rng.Intn(len(bs) - 1)
			bs[i], bs[i+1] = bs[i+1], bs[i]
			rsp.Blocks = bs
		}
		w.logf("chunk fail variant %d", v)
	case "drop":
		var vs []int
		if len(good) >= 2 {
			vs = append(vs, 0)
		}
		if o.first+o.count < len(w.remote) {
			vs = append(vs, 1)
		}
		vs = append(vs, 2)
		if len(w.peers) >= 2 {
			// attributing the blocks to another peer is only a non-matching response if that peer never had this task
			other := w.peerIdx(req.ToWhom)%len(w.peers) + 1
			clean := true
			w.mu.Lock()
			for _, t := range w.tasks {
				if t.first == o.first && t.peer != nil && t.peer.No == other-1 {
					clean = false
				}
			}
			w.mu.Unlock()
			if clean {
				vs = append(vs, 3)
			}
		}
		v := vs[w.rng.Intn(len(vs))]
		switch v {
		case 0: // too few
			rsp.Blocks = good[:len(good)-1]
		case 1: // too many
			rsp.Blocks = w.chunkBlocks(o.first, o.count+1)
		case 2: // linked blocks of another branch with the same numbers
			for i := o.first; i < o.first+o.count; i++ {
				rsp.Blocks = append(rsp.Blocks, w.alt[i])
			}
		case 3: // right blocks, attributed to another peer
			rsp.Blocks = good
			me := w.peerIdx(req.ToWhom)
			other := me%len(w.peers) + 1
			rsp.ToWhom = w.peers[other-1]
		}
		w.logf("chunk drop variant %d", v)
	}
	return rsp
}

func (w *vWorld) addRsp(o *vOut, ok bool) *message.AddBlockRsp {
	b := o.msg.(*message.AddBlock).Block
	rsp := &message.AddBlockRsp{BlockNo: b.GetHeader().GetBlockNo(), BlockHash: b.BlockHash()}
	if ok {
		if err := w.lc.addBlock(b); err != nil {
			// the chain service refuses what the syncer handed over (P1 has flagged it already)
			rsp.Err = err
			w.logf("chain refused block %d: %v", rsp.BlockNo, err)
		} else {
			w.mu.Lock()
			w.ackedOK[int(rsp.BlockNo)] = true
			w.mu.Unlock()
		}
		return rsp
	}
	switch v := w.rng.Intn(3); v {
	case 0:
		rsp.Err = errVerifPeer
	case 1:
		rsp.BlockHash = nil
	case 2: // an acknowledgement for something else
		rsp.BlockHash = w.alt[1].BlockHash()
	}
	return rsp
}

// staleRsp answers a request of a finished session honestly (it carries the old sequence number)
func (w *vWorld) staleRsp(o *vOut) interface{} {
	switch o.msg.(type) {
	case *message.GetSyncAncestor:
		return w.ancestorRsp(o, "ok")
	case *message.GetHashByNo:
		return w.hashByNoRsp(o, "ok")
	case *message.GetHashes:
		return w.hashesRsp(o, "ok")
	case *message.GetBlockChunks:
		return w.chunkRsp(o, "ok")
	}
	return nil
}

// ---------------------------------------------------------------- scripted replay

type vLook struct {
	finderTimer bool // the session needs the finder's timer to fire
	hashTimerAt int  // the hash fetcher's timer must fire while the j-th request is outstanding (0 = never)
}

// lookahead over the steps of the session that starts at step i (a SyncStart)
func lookahead(steps []vStep, i int) vLook {
	var l vLook
	nh := 0
	for j := i + 1; j < len(steps); j++ {
		a := steps[j].Act
		switch a.Name {
		case "SyncStart":
			return l
		case "FinderTimeout":
			l.finderTimer = true
		case "AncestorRsp":
			if a.Kind == "low" {
				l.finderTimer = true
			}
		case "HashesRsp":
			nh++
			if a.Kind == "drop" && l.hashTimerAt == 0 {
				l.hashTimerAt = nh
			}
		case "HashTimeout":
			if l.hashTimerAt == 0 {
				l.hashTimerAt = nh + 1
			}
		}
	}
	return l
}

type vObs struct {
	reqs  []string
	selfq []string
	dlv   []int
}

func (w *vWorld) snapshot() vObs {
	var o vObs
	for k := range w.reqs {
		o.reqs = append(o.reqs, k)
	}
	sort.Strings(o.reqs)
	for _, s := range w.selfq {
		o.selfq = append(o.selfq, s.str)
	}
	o.dlv = append(o.dlv, w.dlv...)
	return o
}

func eqStr(a, b []string) bool {
	if len(a) != len(b) {
		return false
	}
	for i := range a {
		if a[i] != b[i] {
			return false
		}
	}
	return true
}

func subsetStr(a, b []string) bool {
	m := map[string]bool{}
	for _, x := range b {
		m[x] = true
	}
	for _, x := range a {
		if !m[x] {
			return false
		}
	}
	return true
}

func prefixStr(a, b []string) bool { return len(a) <= len(b) && eqStr(a, b[:len(a)]) }
func prefixInt(a, b []int) bool    { return len(a) <= len(b) && eqInt(a, b[:len(a)]) }

func eqInt(a, b []int) bool {
	if len(a) != len(b) {
		return false
	}
	for i := range a {
		if a[i] != b[i] {
			return false
		}
	}
	return true
}

// waitFor blocks until the observed interface state equals the model's; "" = matched
func (w *vWorld) waitFor(exp vExp, redeliver func()) string {
	want := append([]string(nil), exp.Reqs...)
	sort.Strings(want)
	deadline := time.Now().Add(vStepLimit)
	next := time.Now().Add(30 * time.Millisecond)
	var o vObs
	for {
		w.mu.Lock()
		o = w.snapshot()
		w.mu.Unlock()
		if eqStr(o.reqs, want) && eqStr(o.selfq, exp.Selfq) && eqInt(o.dlv, exp.Dlv) {
			break
		}
		// outputs that the model does not have can never go away again: no point in waiting for the deadline
		if !(subsetStr(o.reqs, want) && prefixStr(o.selfq, exp.Selfq) && prefixInt(o.dlv, exp.Dlv)) && time.Now().After(deadline.Add(-vStepLimit).Add(100*time.Millisecond)) {
			deadline = time.Now().Add(-time.Second)
		}
		if time.Now().After(deadline) {
			return fmt.Sprintf("interface state differs: requests real=%v model=%v; self messages real=%v model=%v; AddBlock sequence real=%v model=%v",
				o.reqs, want, o.selfq, exp.Selfq, o.dlv, exp.Dlv)
		}
		if redeliver != nil && time.Now().After(next) {
			redeliver()
			next = time.Now().Add(30 * time.Millisecond)
		}
		select {
		case <-w.sig:
		case <-time.After(5 * time.Millisecond):
		}
	}
	w.drainNotify()
	if w.sy.isRunning != exp.Running {
		return fmt.Sprintf("isRunning real=%v model=%v", w.sy.isRunning, exp.Running)
	}
	if int(w.sy.Seq) != exp.Seq {
		return fmt.Sprintf("Seq real=%d model=%d", w.sy.Seq, exp.Seq)
	}
	anc := -1
	if w.sy.ctx != nil && w.sy.ctx.CommonAncestor != nil {
		anc = int(w.sy.ctx.CommonAncestor.BlockNo())
	}
	if anc != exp.Anc {
		return fmt.Sprintf("ancestor real=%d model=%d", anc, exp.Anc)
	}
	if len(w.notifs) != len(exp.Notif) {
		return fmt.Sprintf("notifications real=%v model=%v", w.notifs, exp.Notif)
	}
	for i := range w.notifs {
		if w.notifs[i] != exp.Notif[i] {
			return fmt.Sprintf("notifications real=%v model=%v", w.notifs, exp.Notif)
		}
	}
	return ""
}

// an unexpected timer-driven stop among the self messages = the run was too slow for its short timers
func (w *vWorld) sawUnexpectedTimer(exp vExp) bool {
	w.mu.Lock()
	defer w.mu.Unlock()
	n := 0
	for _, s := range w.selfq {
		if m, ok := s.msg.(*message.SyncStop); ok && (m.Err == ErrHashFetcherTimeout || m.Err == ErrorGetSyncAncestorTimeout || m.Err == ErrFinderTimeout) {
			n++
		}
	}
	e := 0
	for _, s := range exp.Selfq {
		if strings.HasPrefix(s, "SyncStop:") && strings.HasSuffix(s, ":0") && (strings.Contains(s, ":Finder:") || strings.Contains(s, ":HashFetcher:")) {
			e++
		}
	}
	return n > e
}

// expire makes one running task exceed fetchTimeOut and waits until the block fetcher has noticed
func (w *vWorld) expire(p, s int) string {
	w.mu.Lock()
	var o *vOut
	for i := len(w.tasks) - 1; i >= 0; i-- {
		t := w.tasks[i]
		if t.first == s && t.task != nil && t.peer != nil && t.peer.No == p-1 {
			o = t
			break
		}
	}
	w.mu.Unlock()
	if o == nil {
		return fmt.Sprintf("no running task (peer %d, first %d) known to the harness", p, s)
	}
	before := o.peer.FailCnt
	o.task.started = o.task.started.Add(-24 * time.Hour)
	deadline := time.Now().Add(vStepLimit)
	for o.peer.FailCnt == before {
		if time.Now().After(deadline) {
			return fmt.Sprintf("task (peer %d, first %d) did not expire", p, s)
		}
		time.Sleep(300 * time.Microsecond)
	}
	return ""
}

// bfBarrier waits until the block fetcher goroutine has taken everything out of its response channel.  It handles a
// message completely before it looks at its ticker again, so whatever the harness does next (expire a task, let the
// hash fetcher hand over a hash set) is ordered after the responses delivered so far.
func (w *vWorld) bfBarrier() {
	bf := w.sy.blockFetcher
	w.mu.Lock()
	ended := w.bfEnded
	w.mu.Unlock()
	if bf == nil || ended {
		return
	}
	deadline := time.Now().Add(300 * time.Millisecond) // an ended (or parked) block fetcher never drains it
	for len(bf.responseCh) > 0 && time.Now().Before(deadline) {
		time.Sleep(100 * time.Microsecond)
	}
}

// doStep performs one model action on the real syncer; "" = ok, otherwise why the script cannot be followed
func (w *vWorld) doStep(steps []vStep, i int) string {
	st := steps[i]
	a := st.Act
	var redeliver func()
	switch a.Name {
	case "SyncStart":
		l := lookahead(steps, i)
		w.look = l
		if l.finderTimer || l.hashTimerAt > 0 {
			w.timerUsed = true
		}
		if !w.startSession(a.T, l.finderTimer, true) {
			return "blocked"
		}
	case "SyncStartIgnored":
		if !w.deliverTracked(&message.SyncStart{PeerID: w.peers[0], TargetNo: uint64(len(w.remote) - 1)}) {
			return "blocked"
		}
	case "AncestorRsp":
		o := w.take("anc:0:0:0:0")
		if o == nil {
			return "no outstanding GetSyncAncestor"
		}
		rsp := w.ancestorRsp(o, a.Kind)
		// handleAncestorRsp hands the answer over with a non-blocking send: give the finder time to park
		time.Sleep(500 * time.Microsecond)
		if !w.deliverTracked(rsp) {
			return "blocked"
		}
		if a.Kind != "low" {
			redeliver = func() { w.deliverTracked(rsp) }
		}
	case "HashByNoRsp":
		o := w.takePrefix("hbn:")
		if o == nil {
			return "no outstanding GetHashByNo"
		}
		if !w.deliverTracked(w.hashByNoRsp(o, a.Kind)) {
			return "blocked"
		}
	case "FinderTimeout", "HashTimeout":
		// real timers
	case "DeliverSelf":
		w.mu.Lock()
		var s *vSelf
		if len(w.selfq) > 0 {
			s = w.selfq[0]
			w.selfq = w.selfq[1:]
		}
		w.mu.Unlock()
		if s == nil {
			return "no self message pending"
		}
		if !w.deliverSelf(s) {
			return "blocked"
		}
	case "ExtStop":
		if !w.deliverTracked(&message.SyncStop{Seq: w.sy.Seq, FromWho: "verif", Err: errVerifStop}) {
			return "blocked"
		}
	case "HashesRsp":
		o := w.takePrefix("hashes:")
		if o == nil {
			return "no outstanding GetHashes"
		}
		w.nHashRsp++
		if w.look.hashTimerAt == w.nHashRsp+1 && w.sy.hashFetcher != nil {
			w.sy.hashFetcher.timeout = w.shortTO // read by timer.Reset after this response
		}
		if !w.deliverTracked(w.hashesRsp(o, a.Kind)) {
			return "blocked"
		}
	case "ChunkRsp":
		o := w.take(fmt.Sprintf("chunk:%d:%d:%d:%d", a.P, a.S, a.C, a.R))
		if o == nil {
			return fmt.Sprintf("no outstanding GetBlockChunks(peer %d, first %d, count %d)", a.P, a.S, a.C)
		}
		if !w.deliverTracked(w.chunkRsp(o, a.Kind)) {
			return "blocked"
		}
		w.bfBarrier()
	case "TaskTimeout":
		for _, t := range a.Tasks {
			if d := w.expire(t[0], t[1]); d != "" {
				return d
			}
		}
	case "AddRsp":
		o := w.take(fmt.Sprintf("add:%d:0:0:0", a.N))
		if o == nil {
			return fmt.Sprintf("no outstanding AddBlock(%d)", a.N)
		}
		if !w.deliverTracked(w.addRsp(o, a.Ok)) {
			return "blocked"
		}
		w.bfBarrier()
	case "StaleOther":
		w.mu.Lock()
		var o *vOut
		if len(w.stale) > 0 {
			o = w.stale[len(w.stale)-1]
			w.stale = w.stale[:len(w.stale)-1]
		}
		w.mu.Unlock()
		if o == nil {
			return "no stale request"
		}
		if !w.deliverTracked(w.staleRsp(o)) {
			return "blocked"
		}
	case "StaleAdd":
		w.mu.Lock()
		o := w.staleAdd
		w.staleAdd = nil
		w.mu.Unlock()
		if o == nil || int(o.msg.(*message.AddBlock).Block.GetHeader().GetBlockNo()) != a.N {
			return fmt.Sprintf("no stale AddBlock(%d)", a.N)
		}
		if !w.deliverTracked(w.addRsp(o, a.Ok)) {
			return "blocked"
		}
		w.bfBarrier()
	default:
		return "unknown action " + a.Name
	}
	return w.waitFor(st.Exp, redeliver)
}

// deliverSelf hands a message of the syncer's own goroutines to the actor
func (w *vWorld) deliverSelf(s *vSelf) bool {
	if fr, ok := s.msg.(*message.FinderResult); ok && w.sy.isRunning && fr.Seq == w.sy.Seq && fr.Ancestor != nil {
		// handleFinderResult creates the fetchers: block fetcher reads cfg.fetchTimeOut, hash fetcher dfltTimeout
		w.cfg.fetchTimeOut = time.Hour
		vFinderMu.Lock()
		if w.look.hashTimerAt == 1 {
			dfltTimeout = w.shortTO
		} else {
			dfltTimeout = time.Hour
		}
		w.nHashRsp = 0
		ok := w.deliverTracked(s.msg)
		dfltTimeout = time.Hour
		vFinderMu.Unlock()
		return ok
	}
	return w.deliverTracked(s.msg)
}

// ---------------------------------------------------------------- free run: honest answers until the session ends

// armFirstHashTimer: once the first GetHashes is out (so NewTimer and reqTime are set) make requestTimeout() see
// a timeout comfortably shorter than the timer's period (the code compares elapsed > timeout at the single firing)
func (w *vWorld) armFirstHashTimer() {
	if w.look.hashTimerAt != 1 || w.hfArmed || w.sy.hashFetcher == nil {
		return
	}
	w.mu.Lock()
	seen := false
	for k := range w.reqs {
		if strings.HasPrefix(k, "hashes:") {
			seen = true
		}
	}
	w.mu.Unlock()
	if seen {
		w.sy.hashFetcher.timeout = w.shortTO / 2
		w.hfArmed = true
	}
}

func (w *vWorld) finish() {
	idleSince := time.Now()
	backdated := false
	for iter := 0; iter < 100000; iter++ {
		w.drainNotify()
		w.mu.Lock()
		var s *vSelf
		var o *vOut
		if len(w.selfq) > 0 {
			s = w.selfq[0]
			w.selfq = w.selfq[1:]
		} else if w.sy.isRunning {
			for _, pre := range []string{"add:", "chunk:", "hashes:", "anc:", "hbn:"} {
				var keys []string
				for k := range w.reqs {
					if strings.HasPrefix(k, pre) {
						keys = append(keys, k)
					}
				}
				if len(keys) > 0 {
					sort.Strings(keys)
					o = w.reqs[keys[0]]
					delete(w.reqs, keys[0])
					break
				}
			}
		}
		w.mu.Unlock()
		switch {
		case s != nil:
			if !w.deliverSelf(s) {
				return
			}
		case o != nil:
			var rsp interface{}
			switch o.msg.(type) {
			case *message.AddBlock:
				rsp = w.addRsp(o, true)
			case *message.GetBlockChunks:
				rsp = w.chunkRsp(o, "ok")
			case *message.GetHashes:
				rsp = w.hashesRsp(o, "ok")
			case *message.GetSyncAncestor:
				time.Sleep(500 * time.Microsecond)
				rsp = w.ancestorRsp(o, "ok")
				// the non-blocking hand-over may drop it: keep the request until the finder moved on
				w.mu.Lock()
				w.reqs[o.key] = o
				w.mu.Unlock()
			case *message.GetHashByNo:
				rsp = w.hashByNoRsp(o, "ok")
			}
			if !w.deliverTracked(rsp) {
				return
			}
			if _, isAnc := o.msg.(*message.GetSyncAncestor); isAnc {
				// wait a little for the finder's reaction, then forget the request if it reacted
				for i := 0; i < 40; i++ {
					w.mu.Lock()
					reacted := len(w.selfq) > 0 || w.sessFull || !w.sy.isRunning
					w.mu.Unlock()
					if reacted {
						w.mu.Lock()
						delete(w.reqs, o.key)
						w.mu.Unlock()
						break
					}
					time.Sleep(time.Millisecond)
				}
			}
		default:
			if !w.sy.isRunning {
				return
			}
			select {
			case <-w.sig:
				idleSince = time.Now()
				backdated = false
				continue
			case <-time.After(10 * time.Millisecond):
			}
			idle := time.Since(idleSince)
			if idle > 50*time.Millisecond && !backdated {
				// requests that were consumed without effect: let their tasks time out
				w.mu.Lock()
				ts := append([]*vOut(nil), w.tasks...)
				w.mu.Unlock()
				for _, t := range ts {
					if t.task != nil {
						t.task.started = t.task.started.Add(-24 * time.Hour)
					}
				}
				backdated = true
			}
			if idle > vHangLimit {
				w.mu.Lock()
				w.violate("no-termination", "session seq=%d makes no progress for %v with nothing outstanding (running=%v)\n%s", w.sy.Seq, vHangLimit, w.sy.isRunning, goroutineDump())
				w.mu.Unlock()
				return
			}
			continue
		}
		idleSince = time.Now()
		backdated = false
		w.armFirstHashTimer()
	}
}

// P5: after everything that happened a new session starts and completes
func (w *vWorld) restart() {
	w.drainNotify()
	if w.sy.isRunning || len(w.viol) > 0 {
		return
	}
	tgt := len(w.remote) - 1
	if w.lc.best() >= tgt {
		return
	}
	seq := w.sy.Seq
	w.look = vLook{}
	if !w.startSession(tgt, false, true) {
		return
	}
	if !w.sy.isRunning || w.sy.Seq != seq+1 {
		w.mu.Lock()
		w.violate("restart-refused", "SyncStart(target %d) after a finished session was not accepted (running=%v seq %d->%d, local best %d)", tgt, w.sy.isRunning, seq, w.sy.Seq, w.lc.best())
		w.mu.Unlock()
		return
	}
	// leftovers of earlier sessions arrive now: they must be ignored
	w.mu.Lock()
	st := w.stale
	w.stale = nil
	w.mu.Unlock()
	for i, o := range st {
		if i >= 3 {
			break
		}
		if !w.deliverTracked(w.staleRsp(o)) {
			return
		}
	}
	n0 := len(w.notifs)
	w.finish()
	w.drainNotify()
	if len(w.viol) > 0 {
		return
	}
	w.mu.Lock()
	defer w.mu.Unlock()
	if len(w.notifs) != n0+1 || !w.notifs[len(w.notifs)-1] || w.lc.best() != tgt {
		w.violate("restart-failed", "the session started after the scripted ones did not complete: notifications=%v local best=%d target=%d delivered=%v", w.notifs[n0:], w.lc.best(), tgt, w.dlv)
	}
}

// ---------------------------------------------------------------- one behaviour

type vRunResult struct {
	viol     []vViolation
	diverged string
	step     int
	log      []string
	tainted  bool
}

func runBehaviour(par vParams, b *vBehaviour, seed int64, shortTO time.Duration, withRestart bool) vRunResult {
	rng := rand.New(rand.NewSource(seed))
	w := newWorld(par, b.Ch, rng)
	w.shortTO = shortTO
	res := vRunResult{step: -1}
	for i := range b.Steps {
		d := w.doStep(b.Steps, i)
		w.mu.Lock()
		o := w.snapshot()
		w.mu.Unlock()
		w.logf("step %d %s -> reqs=%v selfq=%v dlv=%v %s", i, b.Steps[i].Act.Name, o.reqs, o.selfq, o.dlv, w.debugBF())
		w.armFirstHashTimer()
		if d != "" {
			if d != "blocked" {
				if w.timerUsed && (w.sawUnexpectedTimer(b.Steps[i].Exp) || b.Steps[i].Act.Name == "HashTimeout" || b.Steps[i].Act.Name == "FinderTimeout") {
					res.tainted = true
				}
				res.diverged = fmt.Sprintf("step %d %+v: %s", i, b.Steps[i].Act, d)
				res.step = i
			}
			break
		}
		if len(w.viol) > 0 {
			res.step = i
			break
		}
	}
	if len(w.viol) == 0 {
		w.finish()
	}
	if len(w.viol) == 0 && withRestart {
		w.restart()
	}
	// every accepted SyncStart is answered by exactly one notification
	w.drainNotify()
	if len(w.viol) == 0 && !w.sy.isRunning && len(w.notifs) != w.accepted {
		w.violate("missing-notification", "%d sessions were accepted but %d result notifications arrived (%v)", w.accepted, len(w.notifs), w.notifs)
	}
	// leave nothing behind
	if w.sy.isRunning {
		done := make(chan struct{})
		go func() { w.sy.Reset(errVerifStop); close(done) }()
		select {
		case <-done:
		case <-time.After(5 * time.Second):
		}
	}
	res.viol = w.viol
	res.log = w.log
	return res
}

var vDebug = os.Getenv("VERIF_SYNCER_DEBUG") != ""

// debugBF prints the block fetcher's queues (racy; debugging aid only)
func (w *vWorld) debugBF() string {
	bf := w.sy.blockFetcher
	if bf == nil {
		return ""
	}
	return fmt.Sprintf("run=%d pend=%d retry=%d free=%d bad=%d connq=%d", bf.runningQueue.Len(), bf.pendingQueue.Len(), bf.retryQueue.Len(),
		bf.peers.free, bf.peers.bad, len(bf.blockProcessor.connQueue))
}

// ---------------------------------------------------------------- test entry

func TestVerifSyncer(t *testing.T) {
	if !verifkit.Enabled() {
		t.Skip("not started by bin/vcheck")
	}
	var in vInput
	if err := verifkit.ReadInput(&in); err != nil {
		t.Fatal(err)
	}
	res := verifkit.NewResult()
	defer func() {
		if err := res.Write(); err != nil {
			t.Fatal(err)
		}
	}()
	// package-level knobs of the syncer (constant for the whole run)
	schedTick = 2 * time.Millisecond
	MaxPeerFailCount = in.Params.MaxFail
	dfltTimeout = time.Hour
	if os.Getenv("VERIF_SYNCER_LOG") == "" {
		// the syncer logs every message; keep the output small
		quietLogger()
	}
	par := in.Par
	if par <= 0 {
		par = 24
	}
	var wg sync.WaitGroup
	sem := make(chan struct{}, par)
	var divMu sync.Mutex
	divergences := 0
	badRuns := 0
	skipped := 0
	only := os.Getenv("VERIF_SYNCER_ONLY")
	for bi := range in.Behaviours {
		b := &in.Behaviours[bi]
		if only != "" && b.ID != only {
			continue
		}
		wg.Add(1)
		sem <- struct{}{}
		go func(bi int) {
			defer wg.Done()
			defer func() { <-sem }()
			divMu.Lock()
			stop := badRuns >= 40
			if stop {
				skipped++
			}
			divMu.Unlock()
			if stop { // the verdict is settled; do not spend hours on a broken tree
				return
			}
			seed := verifkit.Seed()*7919 + int64(bi)
			var r vRunResult
			to := 150 * time.Millisecond
			for attempt := 0; attempt < 4; attempt++ {
				r = runBehaviour(in.Params, b, seed, to, in.RestartEvery <= 1 || bi%in.RestartEvery == 0)
				if !r.tainted || len(r.viol) > 0 {
					break
				}
				to *= 4
			}
			res.Count(b.ID)
			if bi < 2 {
				res.Sample(map[string]interface{}{"behaviour": b.ID, "chains": b.Ch, "steps": len(b.Steps)})
			}
			if len(r.viol) > 0 || r.diverged != "" {
				divMu.Lock()
				badRuns++
				divMu.Unlock()
			}
			for _, v := range r.viol {
				res.Violate(v.sig, map[string]interface{}{"kind": v.sig["kind"], "behaviour": b, "seed": seed, "step": r.step, "log": r.log}, "%s\n(behaviour %s, chains %+v)", v.text, b.ID, b.Ch)
			}
			if len(r.viol) == 0 && r.diverged != "" {
				divMu.Lock()
				divergences++
				divMu.Unlock()
				if vDebug {
					fmt.Println(strings.Join(r.log, "\n"))
				}
				res.Note("DIVERGENCE behaviour %s chains %+v: %s (tainted=%v) log=%v", b.ID, b.Ch, r.diverged, r.tainted, r.log)
			}
		}(bi)
	}
	wg.Wait()
	res.Extra["divergences"] = divergences
	res.Extra["skipped"] = skipped
	res.Extra["behaviours"] = len(in.Behaviours)
}
