//go:build verif

package syncer

// Conformance harness for spec/sync/Syncer.tla (C17).
//
// The harness is the Syncer's IComponentRequester (chain service + p2p + the actor's own mailbox) and the
// caller of Syncer.Receive.  It replays behaviours of the TLC model: every step is one message handled by
// the actor (a response of a peer / the chain service, a timeout, a message of the syncer's own
// goroutines, a stop request); after every step the outstanding requests, the self-message queue, the
// AddBlock sequence, the ancestor and the result notifications of the REAL syncer are compared with the
// model state.  Independently of the model, the property's predicates are evaluated on everything the
// syncer emits (gap-free child-linked AddBlock sequence from a common ancestor, truthful outcome,
// termination, restartability).  After the scripted prefix every behaviour is run to completion with
// honest answers, and a further session must start and succeed.
//
// Time: no wall-clock timeouts are used for fetch tasks (cfg.fetchTimeOut = 1h); a task "times out" by
// back-dating FetchTask.started (pointer captured on the block fetcher goroutine inside TellTo).  Finder and
// hash-fetcher timeouts use short real timers, only in sessions whose script needs them; a run in which such
// a timer fired although the script did not ask for it is discarded and repeated with longer timers.

import (
	"bytes"
	"encoding/hex"
	"errors"
	"fmt"
	"math/rand"
	"runtime"
	"sort"
	"strings"
	"sync"
	"testing"
	"time"

	"github.com/aergoio/aergo-actor/actor"
	"github.com/aergoio/aergo/v2/internal/verifkit"
	"github.com/aergoio/aergo/v2/types"
	"github.com/aergoio/aergo/v2/types/message"
	"github.com/rs/zerolog"
)

// ---------------------------------------------------------------- input

type vParams struct {
	NPeers         int `json:"NPeers"`
	ChunkSize      int `json:"ChunkSize"`
	HashReq        int `json:"HashReq"`
	MaxTasks       int `json:"MaxTasks"`
	MaxPendingConn int `json:"MaxPendingConn"`
	MaxFail        int `json:"MaxFail"`
	Skip           int `json:"Skip"`
	MaxAnchors     int `json:"MaxAnchors"`
}

type vChains struct {
	Lbest int  `json:"lbest"`
	Rbest int  `json:"rbest"`
	Fork  int  `json:"fork"`
	Full  bool `json:"full"`
}

type vExp struct {
	Reqs    []string `json:"reqs"`  // "k:a:b:c"
	Selfq   []string `json:"selfq"` // "m:sq:who:v"
	Dlv     []int    `json:"dlv"`
	Running bool     `json:"running"`
	Phase   string   `json:"phase"`
	Anc     int      `json:"anc"`
	Notif   []bool   `json:"notif"`
	Seq     int      `json:"seq"`
	Target  int      `json:"target"`
}

type vAct struct {
	Name  string   `json:"name"`
	T     int      `json:"t"`
	Kind  string   `json:"kind"`
	P     int      `json:"p"`
	S     int      `json:"s"`
	C     int      `json:"c"`
	R     int      `json:"r"`
	N     int      `json:"n"`
	Ok    bool     `json:"ok"`
	Tasks [][2]int `json:"tasks"` // TaskTimeout: (peer, first no)
}

type vStep struct {
	Act vAct `json:"act"`
	Exp vExp `json:"exp"`
}

type vBehaviour struct {
	ID    string  `json:"id"`
	Ch    vChains `json:"ch"`
	Steps []vStep `json:"steps"`
}

type vInput struct {
	Params     vParams      `json:"params"`
	Behaviours []vBehaviour `json:"behaviours"`
	Par        int          `json:"par"`
	RestartEvery int        `json:"restart_every"` // the extra "a new session starts and succeeds" run after every n-th behaviour
}

// ---------------------------------------------------------------- local chain (stands for the chain service)

var errOrphan = errors.New("verif: orphan block")

type vLocalChain struct {
	types.ChainAccessor // unused methods
	mu                  sync.Mutex
	byHash              map[string]*types.Block
	main                []*types.Block
}

func newLocalChain(blocks []*types.Block) *vLocalChain {
	lc := &vLocalChain{byHash: map[string]*types.Block{}}
	for _, b := range blocks {
		lc.byHash[string(b.BlockHash())] = b
		lc.main = append(lc.main, b)
	}
	return lc
}

func (lc *vLocalChain) GetBestBlock() (*types.Block, error) {
	lc.mu.Lock()
	defer lc.mu.Unlock()
	return lc.main[len(lc.main)-1], nil
}

func (lc *vLocalChain) GetBlock(h []byte) (*types.Block, error) {
	lc.mu.Lock()
	defer lc.mu.Unlock()
	if b, ok := lc.byHash[string(h)]; ok {
		return b, nil
	}
	return nil, errors.New("verif: block not found")
}

func (lc *vLocalChain) GetHashByNo(no types.BlockNo) ([]byte, error) {
	lc.mu.Lock()
	defer lc.mu.Unlock()
	if no >= uint64(len(lc.main)) {
		return nil, errors.New("verif: no such block number")
	}
	return lc.main[no].BlockHash(), nil
}

func (lc *vLocalChain) best() int {
	lc.mu.Lock()
	defer lc.mu.Unlock()
	return len(lc.main) - 1
}

func (lc *vLocalChain) mainHash(no int) []byte {
	lc.mu.Lock()
	defer lc.mu.Unlock()
	if no < 0 || no >= len(lc.main) {
		return nil
	}
	return lc.main[no].BlockHash()
}

// addBlock is the chain service's AddBlock: known block -> ok, unknown parent -> error, longer branch -> reorg.
func (lc *vLocalChain) addBlock(b *types.Block) error {
	lc.mu.Lock()
	defer lc.mu.Unlock()
	h := string(b.BlockHash())
	if _, ok := lc.byHash[h]; ok {
		return nil
	}
	parent, ok := lc.byHash[string(b.GetHeader().GetPrevBlockHash())]
	if !ok || parent.GetHeader().GetBlockNo()+1 != b.GetHeader().GetBlockNo() {
		return errOrphan
	}
	lc.byHash[h] = b
	if int(b.GetHeader().GetBlockNo()) > len(lc.main)-1 {
		no := int(b.GetHeader().GetBlockNo())
		nm := make([]*types.Block, no+1)
		cur := b
		for i := no; i >= 0; i-- {
			if i < len(lc.main) && bytes.Equal(lc.main[i].BlockHash(), cur.BlockHash()) {
				copy(nm[:i+1], lc.main[:i+1])
				break
			}
			nm[i] = cur
			if i > 0 {
				cur = lc.byHash[string(cur.GetHeader().GetPrevBlockHash())]
			}
		}
		lc.main = nm
	}
	return nil
}

// vLocal is what the harness needs from the local chain (stub above, or a real chain.ChainService in the e2e runs)
type vLocal interface {
	types.ChainAccessor
	best() int
	mainHash(no int) []byte
	addBlock(b *types.Block) error
}

// ---------------------------------------------------------------- block generation

var vTsCounter int64 = 1_600_000_000_000_000_000
var vTsMu sync.Mutex

func vNextTs() int64 {
	vTsMu.Lock()
	defer vTsMu.Unlock()
	vTsCounter += 1000
	return vTsCounter
}

func vGenBlock(prev *types.Block) *types.Block {
	var bi *types.BlockHeaderInfo
	if prev != nil {
		bi = types.NewBlockHeaderInfoFromPrevBlock(prev, vNextTs(), types.DummyBlockVersionner(0))
	} else {
		cid, _ := types.NewChainID().Bytes()
		bi = &types.BlockHeaderInfo{Ts: vNextTs(), ChainId: cid}
	}
	b := types.NewBlock(bi, nil, nil, nil, nil, nil)
	b.BlockHash()
	return b
}

func vExtend(base []*types.Block, upto int) []*types.Block {
	out := append([]*types.Block(nil), base...)
	for len(out)-1 < upto {
		var prev *types.Block
		if len(out) > 0 {
			prev = out[len(out)-1]
		}
		out = append(out, vGenBlock(prev))
	}
	return out
}

// ---------------------------------------------------------------- observed outputs

type vOut struct {
	key   string
	msg   interface{}
	seq   uint64
	task  *FetchTask // GetBlockChunks: the running task (captured on the block fetcher goroutine)
	peer  *SyncPeer
	at    time.Time
	first int // first block number of a chunk request
	count int
}

type vSelf struct {
	str string
	msg interface{}
}

type vCtx struct {
	actor.Context
	msg interface{}
}

func (c *vCtx) Message() interface{} { return c.msg }

type vViolation struct {
	sig  map[string]interface{}
	text string
}

type vWorld struct {
	par    vParams
	ch     vChains
	rng    *rand.Rand
	remote []*types.Block // remote main chain
	alt    []*types.Block // a bogus branch from genesis (same numbers, other hashes)
	rno    map[string]int // hash -> number on the remote chain
	lc     vLocal
	realAnchors func() ([][]byte, uint64) // e2e: the chain package's anchors (real Skip / MaxAnchors)
	realAncestor func(hashes [][]byte) *types.BlockInfo // e2e: the remote chain service's findAncestor
	cfg    *SyncerConfig
	sy     *Syncer
	peers  []types.PeerID

	mu       sync.Mutex
	sig      chan struct{}
	reqs     map[string]*vOut
	selfq    []*vSelf
	dlv      []int
	dlvHash  [][]byte
	tasks    []*vOut // every chunk request of the session (task pointers)
	stale    []*vOut
	staleAdd *vOut
	ancInfo  *types.BlockInfo // ancestor of the session (from the FinderResult the finder sent)
	sessFull bool             // the finder used the full scan in this session
	nilFault bool             // ... after a peer failure reported as "no ancestor"
	common0  int              // highest common block at session start
	lastAnch int
	ackedOK  map[int]bool // blocks of this session the chain service acknowledged
	curTarget int
	look     vLook
	nHashRsp int
	notifyC  chan error
	notifs   []bool
	nsess    int
	accepted int // SyncStart messages that opened a session (Seq advanced)
	bfEnded  bool // the block fetcher goroutine of the current session has ended

	shortTO   time.Duration // duration of the short real timers of this run
	timerUsed bool          // the script of this run needs a finder / hash-fetcher timer
	tainted   bool          // a short timer fired that the script did not ask for
	hfArmed   bool

	viol     []vViolation
	diverged string
	log      []string
}

func (w *vWorld) logf(f string, a ...interface{}) {
	if len(w.log) < 400 {
		w.log = append(w.log, fmt.Sprintf(f, a...))
	}
}

func (w *vWorld) violate(kind, f string, a ...interface{}) {
	// caller holds w.mu or is the runner
	if len(w.viol) < 5 {
		w.viol = append(w.viol, vViolation{sig: map[string]interface{}{"kind": kind}, text: fmt.Sprintf(f, a...)})
	}
}

func (w *vWorld) notify() {
	select {
	case w.sig <- struct{}{}:
	default:
	}
}

func vPeerID(i int) types.PeerID { return types.PeerID([]byte(fmt.Sprintf("vpeer-%d", i))) }

func (w *vWorld) peerIdx(id types.PeerID) int {
	for i, p := range w.peers {
		if p == id {
			return i + 1
		}
	}
	return 0
}

// anchors of the local main chain (chain/chainanchor.go:getAnchorsNew with the model's Skip / MaxAnchors)
func (w *vWorld) anchors() ([][]byte, uint64) {
	if w.realAnchors != nil {
		return w.realAnchors()
	}
	var hs [][]byte
	no := w.lc.best()
	last := no
	for i := 0; i < w.par.MaxAnchors; i++ {
		hs = append(hs, w.lc.mainHash(no))
		last = no
		if no == 0 {
			break
		}
		if no < w.par.Skip {
			no = 0
		} else {
			no -= w.par.Skip
		}
	}
	return hs, uint64(last)
}

// ---- IComponentRequester

func (w *vWorld) RequestToFutureResult(target string, m interface{}, timeout time.Duration, tip string) (interface{}, error) {
	switch msg := m.(type) {
	case *message.GetAnchors:
		hs, last := w.anchors()
		w.mu.Lock()
		w.lastAnch = int(last)
		w.mu.Unlock()
		return message.GetAnchorsRsp{Seq: msg.Seq, Hashes: hs, LastNo: last}, nil
	case *message.GetPeers:
		rsp := &message.GetPeersRsp{}
		for i := range w.peers {
			rsp.Peers = append(rsp.Peers, &message.PeerInfo{Addr: &types.PeerAddress{PeerID: []byte(w.peers[i])}, State: types.RUNNING})
		}
		return rsp, nil
	}
	return nil, fmt.Errorf("verif: unexpected future request %T", m)
}

func (w *vWorld) RequestTo(target string, m interface{}) { w.out(target, m) }
func (w *vWorld) TellTo(target string, m interface{})    { w.out(target, m) }

func (w *vWorld) out(target string, m interface{}) {
	w.mu.Lock()
	defer w.mu.Unlock()
	defer w.notify()
	now := time.Now()
	switch msg := m.(type) {
	case *message.GetSyncAncestor:
		w.reqs["anc:0:0:0:0"] = &vOut{key: "anc:0:0:0:0", msg: msg, seq: msg.Seq, at: now}
	case *message.GetHashByNo:
		w.sessFull = true
		k := fmt.Sprintf("hbn:%d:0:0:0", msg.BlockNo)
		w.reqs[k] = &vOut{key: k, msg: msg, seq: msg.Seq, at: now}
	case *message.GetHashes:
		k := fmt.Sprintf("hashes:%d:%d:0:0", msg.PrevInfo.No, msg.Count)
		w.reqs[k] = &vOut{key: k, msg: msg, seq: msg.Seq, at: now}
	case *message.GetBlockChunks:
		first := -1
		if len(msg.Hashes) > 0 {
			if n, ok := w.rno[string(msg.Hashes[0])]; ok {
				first = n
			}
		}
		o := &vOut{msg: msg, seq: msg.Seq, at: now, first: first, count: len(msg.Hashes)}
		// we are on the block fetcher goroutine, right after runningQueue.PushBack(task)
		retry := 0
		if bf := w.sy.blockFetcher; bf != nil {
			if e := bf.runningQueue.Back(); e != nil {
				o.task = e.Value.(*FetchTask)
				o.peer = o.task.syncPeer
				retry = o.task.retry
			}
		}
		k := fmt.Sprintf("chunk:%d:%d:%d:%d", w.peerIdx(msg.ToWhom), first, len(msg.Hashes), retry)
		o.key = k
		// the requested hashes must be a contiguous piece of the remote chain (they come from the hash fetcher)
		for i, h := range msg.Hashes {
			if n, ok := w.rno[string(h)]; !ok || n != first+i {
				w.violate("chunk-request-not-contiguous", "GetBlockChunks asks for hashes that are not a contiguous piece of the remote chain (first=%d idx=%d)", first, i)
				break
			}
		}
		w.reqs[k] = o
		w.tasks = append(w.tasks, o)
	case *message.AddBlock:
		w.onAddBlock(msg, now)
	case *message.FinderResult:
		w.onFinderResult(msg)
		w.selfq = append(w.selfq, &vSelf{str: fmt.Sprintf("FinderResult:%d:Finder:%d", msg.Seq, vAncNo(msg.Ancestor)), msg: msg})
	case *message.SyncStop:
		v := 0
		if msg.Err == nil {
			v = 1
		}
		if msg.FromWho == NameBlockFetcher {
			w.bfEnded = true // the block fetcher goroutine reports its end (error or recovered panic) with this message
		}
		if msg.Err == ErrHashFetcherTimeout || msg.Err == ErrorGetSyncAncestorTimeout || msg.Err == ErrFinderTimeout {
			w.logf("timer fired: %v", msg.Err)
		}
		w.selfq = append(w.selfq, &vSelf{str: fmt.Sprintf("SyncStop:%d:%s:%d", msg.Seq, msg.FromWho, v), msg: msg})
	case *message.CloseFetcher:
		w.selfq = append(w.selfq, &vSelf{str: fmt.Sprintf("CloseFetcher:%d:%s:0", msg.Seq, msg.FromWho), msg: msg})
	default:
		w.violate("unexpected-message", "syncer sent an unexpected message %T to %s", m, target)
	}
}

func vAncNo(bi *types.BlockInfo) int {
	if bi == nil {
		return -1
	}
	return int(bi.No)
}

// P2: the ancestor the finder reports is on the local main chain and on the remote chain
func (w *vWorld) onFinderResult(msg *message.FinderResult) {
	if msg.Ancestor == nil {
		return
	}
	no := int(msg.Ancestor.No)
	w.ancInfo = msg.Ancestor
	lh := w.lc.mainHash(no)
	if lh == nil || !bytes.Equal(lh, msg.Ancestor.Hash) {
		w.violate("ancestor-not-on-local-main", "finder reports ancestor %d which is not on the local main chain", no)
		return
	}
	if no >= len(w.remote) || !bytes.Equal(w.remote[no].BlockHash(), msg.Ancestor.Hash) {
		w.violate("ancestor-not-on-remote", "finder reports ancestor %d which the remote chain lacks", no)
		return
	}
	if w.sessFull {
		lo := w.common0
		if w.nilFault && w.lastAnch-1 < lo {
			lo = w.lastAnch - 1
		}
		if no < lo {
			w.violate("ancestor-not-highest", "full scan found ancestor %d but block %d is shared as well", no, lo)
		}
	}
}

// P1: ascending, contiguous, child-linked, from the ancestor
func (w *vWorld) onAddBlock(msg *message.AddBlock, now time.Time) {
	b := msg.Block
	no := int(b.GetHeader().GetBlockNo())
	k := fmt.Sprintf("add:%d:0:0:0", no)
	w.reqs[k] = &vOut{key: k, msg: msg, at: now}
	if w.ancInfo == nil {
		w.violate("add-without-ancestor", "AddBlock(%d) before any ancestor was determined", no)
		return
	}
	expNo := int(w.ancInfo.No) + len(w.dlv) + 1
	prev := w.ancInfo.Hash
	if len(w.dlv) > 0 {
		prev = w.dlvHash[len(w.dlvHash)-1]
	}
	if no != expNo {
		kind := "delivery-gap"
		if no < expNo {
			kind = "delivery-duplicate"
		}
		w.violate(kind, "AddBlock #%d of the session carries block %d, expected %d (ancestor %d, delivered so far %v)", len(w.dlv)+1, no, expNo, w.ancInfo.No, w.dlv)
	} else if !bytes.Equal(b.GetHeader().GetPrevBlockHash(), prev) {
		w.violate("delivery-not-child", "AddBlock(%d) is not a child of the previously delivered block / the ancestor", no)
	} else if no >= len(w.remote) || !bytes.Equal(w.remote[no].BlockHash(), b.BlockHash()) {
		w.violate("delivery-foreign-block", "AddBlock(%d) is not the remote chain's block", no)
	}
	if !msg.IsSync {
		w.violate("add-not-sync", "AddBlock(%d) without IsSync", no)
	}
	w.dlv = append(w.dlv, no)
	w.dlvHash = append(w.dlvHash, b.BlockHash())
}

// ---------------------------------------------------------------- world construction

func newWorld(par vParams, ch vChains, rng *rand.Rand) *vWorld {
	w := &vWorld{par: par, ch: ch, rng: rng, sig: make(chan struct{}, 1), reqs: map[string]*vOut{}, rno: map[string]int{},
		notifyC: make(chan error, 64)}
	common := vExtend(nil, ch.Fork)
	local := vExtend(common, ch.Lbest)
	w.remote = vExtend(common, ch.Rbest)
	w.alt = vExtend(common[:1], ch.Rbest+2)
	for i, b := range w.remote {
		w.rno[string(b.BlockHash())] = i
	}
	w.lc = newLocalChain(local)
	for i := 1; i <= par.NPeers; i++ {
		w.peers = append(w.peers, vPeerID(i))
	}
	w.cfg = &SyncerConfig{
		maxHashReqSize:   uint64(par.HashReq),
		maxBlockReqSize:  par.ChunkSize,
		maxPendingConn:   par.MaxPendingConn,
		maxBlockReqTasks: par.MaxTasks,
		fetchTimeOut:     time.Hour,
		useFullScanOnly:  ch.Full,
	}
	w.sy = NewSyncer(nil, w.lc, w.cfg)
	w.sy.SetRequester(w)
	return w
}

// highest block shared by the local main chain and the remote chain
func (w *vWorld) common() int {
	c := 0
	for i := 0; i < len(w.remote); i++ {
		h := w.lc.mainHash(i)
		if h == nil || !bytes.Equal(h, w.remote[i].BlockHash()) {
			break
		}
		c = i
	}
	return c
}

// ---------------------------------------------------------------- delivering a message to the actor

const vBlockLimit = 12 * time.Second

// deliver calls Syncer.Receive; false = the actor did not return (blocked)
func (w *vWorld) deliver(m interface{}) bool {
	done := make(chan struct{})
	go func() {
		w.sy.Receive(&vCtx{msg: m})
		close(done)
	}()
	select {
	case <-done:
		w.drainNotify()
		return true
	case <-time.After(vBlockLimit):
		return false
	}
}

func (w *vWorld) drainNotify() {
	for w.notifyC != nil {
		select {
		case err := <-w.notifyC:
			w.mu.Lock()
			w.notifs = append(w.notifs, err == nil)
			w.checkOutcome(err)
			w.mu.Unlock()
		default:
			return
		}
	}
}

// P3: a nil notification means every block anc+1..target was handed over and acknowledged
func (w *vWorld) checkOutcome(err error) {
	if err != nil {
		return
	}
	tgt := w.curTarget
	if w.ancInfo == nil || w.acked() != tgt || len(w.dlv) != tgt-int(w.ancInfo.No) {
		w.violate("false-success", "session notified success but target=%d acked=%d delivered=%v ancestor=%v", tgt, w.acked(), w.dlv, vAncNo(w.ancInfo))
	}
}

func goroutineDump() string {
	buf := make([]byte, 1<<20)
	n := runtime.Stack(buf, true)
	var keep []string
	for _, g := range strings.Split(string(buf[:n]), "\n\n") {
		// the syncer's own goroutines (and the blocked actor call), not the harness'
		for _, f := range []string{"syncer/finder.go", "syncer/hashfetcher.go", "syncer/blockfetcher.go", "syncer/blockprocessor.go", "syncer/syncerservice.go"} {
			if strings.Contains(g, f) {
				keep = append(keep, g)
				break
			}
		}
	}
	s := strings.Join(keep, "\n\n")
	if len(s) > 6000 {
		s = s[:6000]
	}
	return s
}

func quietLogger() {
	l := logger.Logger.Level(zerolog.Disabled)
	logger.Logger = &l
}

var _ = hex.EncodeToString
var _ = sort.Strings
var _ = verifkit.Enabled
var _ testing.T
