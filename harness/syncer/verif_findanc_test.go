//go:build verif

package syncer

// Conformance harness for spec/sync/FindAncestor.tla (C17, responder side of the anchor comparison): a real
// chain.ChainService holds a main chain 0..R and, as a stored side branch, blocks F+1..S of another fork (added through
// the real addBlock; shorter than the main chain, so no reorganisation).  Every anchor list enumerated by TLC (main-chain
// blocks, side-branch blocks and unknown blocks in every position) is passed to the real findAncestor.  Verdict: the
// returned block is on the responder's main chain and one of the anchors, otherwise "no ancestor".

import (
	"bytes"
	"fmt"
	"testing"

	"github.com/aergoio/aergo/v2/chain"
	"github.com/aergoio/aergo/v2/internal/verifkit"
	"github.com/aergoio/aergo/v2/types"
)

type vfaCase struct {
	Anchors [][2]interface{} `json:"anchors"` // ["m"|"s"|"u", n]
	Answer  [2]interface{}   `json:"answer"`  // ["m", n] or ["none", 0]
}

type vfaInput struct {
	R     int       `json:"r"`
	F     int       `json:"f"`
	S     int       `json:"s"`
	Cases []vfaCase `json:"cases"`
}

func TestVerifFindAncestor(t *testing.T) {
	if !verifkit.Enabled() {
		t.Skip("not started by bin/vcheck")
	}
	var in vfaInput
	if err := verifkit.ReadInput(&in); err != nil {
		t.Fatal(err)
	}
	res := verifkit.NewResult()
	defer func() {
		if err := res.Write(); err != nil {
			t.Fatal(err)
		}
	}()
	quietLogger()
	cs := chain.VerifC17NewChain()
	gen := cs.VerifC17Genesis()
	main := vExtendOn([]*types.Block{gen}, in.R)
	side := vExtendOn(main[:in.F+1], in.S)
	unknown := vExtendOn(main[:1], 1)[1]
	for _, b := range main[1:] {
		if err := cs.VerifC17AddBlock(b); err != nil {
			t.Fatalf("main chain block %d: %v", b.GetHeader().GetBlockNo(), err)
		}
	}
	for _, b := range side[in.F+1:] {
		if err := cs.VerifC17AddBlock(b); err != nil {
			t.Fatalf("side branch block %d: %v", b.GetHeader().GetBlockNo(), err)
		}
	}
	// the construction is what the model assumes: main chain unchanged, side blocks stored but not on it
	for i, b := range main {
		if h, err := cs.GetHashByNo(uint64(i)); err != nil || !bytes.Equal(h, b.BlockHash()) {
			t.Fatalf("responder main chain differs at %d", i)
		}
	}
	for _, b := range side[in.F+1:] {
		if _, err := cs.GetBlock(b.BlockHash()); err != nil {
			t.Fatalf("side branch block %d is not stored", b.GetHeader().GetBlockNo())
		}
	}
	blockOf := func(x [2]interface{}) *types.Block {
		n := int(x[1].(float64))
		switch x[0].(string) {
		case "m":
			return main[n]
		case "s":
			return side[n]
		}
		return unknown
	}
	divergences := 0
	defer func() { res.Extra["divergences"] = divergences }()
	for ci, cse := range in.Cases {
		var hashes [][]byte
		for _, a := range cse.Anchors {
			hashes = append(hashes, blockOf(a).BlockHash())
		}
		got, err := cs.VerifC17FindAncestor(hashes)
		res.Count(fmt.Sprintf("fa/%d", ci))
		desc := fmt.Sprintf("anchors %v", cse.Anchors)
		if err == nil && got != nil {
			no := int(got.No)
			onMain := no < len(main) && bytes.Equal(main[no].BlockHash(), got.Hash)
			inList := false
			for _, h := range hashes {
				if bytes.Equal(h, got.Hash) {
					inList = true
				}
			}
			if !onMain || !inList {
				kind := "side-branch"
				if !inList {
					kind = "not-an-anchor"
				}
				res.Violate(map[string]interface{}{"kind": "findancestor-answer-not-on-main-chain", "answer": kind},
					map[string]interface{}{"case": cse, "r": in.R, "f": in.F, "s": in.S},
					"findAncestor(%s) on a responder with main chain 0..%d and a stored side branch %d..%d returned block %d which is %s: "+
						"the requester would take a block the responder's main chain lacks as the common ancestor", desc, in.R, in.F+1, in.S, no,
					map[bool]string{true: "not on its main chain (a side-branch block)", false: "not one of the anchors"}[inList])
				if res.NumViolations() >= 10 {
					return
				}
				continue
			}
		}
		// conformance with the model (first anchor on the main chain / none)
		exp := cse.Answer
		ok := false
		if exp[0].(string) == "none" {
			ok = err != nil || got == nil
		} else if err == nil && got != nil {
			ok = bytes.Equal(got.Hash, blockOf(exp).BlockHash()) && int(got.No) == int(exp[1].(float64))
		}
		if !ok {
			divergences++
			res.Note("DIVERGENCE findAncestor(%s): real=%v err=%v model=%v", desc, got, err, exp)
		}
	}
}
