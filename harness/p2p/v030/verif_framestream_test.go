//go:build verif

package v030

// Conformance harness for spec/p2p/FrameStream.tla (C18 a, the reader/writer as a stream object): every finished
// behaviour of the TLC model (an interleaving of WriteMsg calls, ReadMsg calls and one ending of the connection) is
// replayed on a real V030ReadWriter pair over an in-memory connection.  The consumer KEEPS every message it was given;
// after every call (read, write, ending) ALL kept messages are compared, field by field and byte by byte, with
// independent copies: the copy taken when the message was returned (ReturnedMessagesImmutable) and the copy of what the
// writer was given (StreamFidelity).  (Package v200 has no reader/writer of its own: it runs over this one.)

import (
	"bytes"
	"errors"
	"fmt"
	"io"
	"math/rand"
	"runtime"
	"strconv"
	"strings"
	"sync"
	"testing"
	"time"

	"github.com/aergoio/aergo/v2/internal/verifkit"
	"github.com/aergoio/aergo/v2/p2p/p2pcommon"
)

type fsBehaviour struct {
	Steps []string `json:"steps"` // "W <class> <sub> <result>" | "R" | "E <ending>"
	Ret   []string `json:"ret"`   // "= <kind> <sub> <class> <tag>": the results of the ReadMsg calls according to the model
	Name  string   `json:"name,omitempty"`
}

type fsFamily struct {
	Scale   string         `json:"scale"`   // true | small (MaxPayloadLength configured to small_max)
	Lens    map[string]int `json:"lens"`    // real payload length of the classes small, fedge, pedge, large
	OverAdd int64          `json:"over_add"` // the foreign oversize header announces Max + over_add ...
	OverAbs int64          `json:"over_abs"` // ... or this value
	Rest    int            `json:"rest"`    // bytes following that header
	HdrCut  int            `json:"hdr_cut"` // bytes of the header that arrive when the connection is cut inside it (1..47)
	Cut     string         `json:"cut"`     // zero | one | half | last: payload bytes that arrive when it is cut inside the payload
	Chunker string         `json:"chunker"` // all | one | rand | split
	Fill    string         `json:"fill"`
	Salt    int64          `json:"salt"`
}

type fsInput struct {
	Behaviours []fsBehaviour `json:"behaviours"`
	Scenarios  []fsBehaviour `json:"scenarios"` // counterexamples of the "shared buffer" variant of the model: must not reproduce
	Families   []fsFamily    `json:"families"`
	SmallMax   uint32        `json:"small_max"`
	TrueIdx    []int         `json:"true_idx"` // the behaviours replayed at the node's real MaxPayloadLength (8 MiB frames are expensive)
	Stride     int           `json:"stride"`   // small scale: behaviour i runs on the families f with (i + f) % stride == 0
}

var errWouldBlock = errors.New("verif: the connection has no byte to give and is still open (a real connection would block here)")

// fsConn is the in-memory connection: the writer appends, the reader gets what has arrived, in chunks.
type fsConn struct {
	data    []byte
	pos     int
	limit   int // bytes beyond this offset have not arrived yet (-1: everything has)
	closed  bool
	mode    string
	rng     *rand.Rand
	splits  []int
	starved bool
	maxReq  int
}

func (c *fsConn) Write(b []byte) (int, error) {
	if c.closed {
		return 0, io.ErrClosedPipe
	}
	c.data = append(c.data, b...)
	return len(b), nil
}

func (c *fsConn) arrived() int {
	if c.limit >= 0 && c.limit < len(c.data) {
		return c.limit
	}
	return len(c.data)
}

func (c *fsConn) Read(p []byte) (int, error) {
	if len(p) > c.maxReq {
		c.maxReq = len(p)
	}
	n := c.arrived() - c.pos
	if n <= 0 {
		if c.closed {
			return 0, io.EOF
		}
		c.starved = true
		return 0, errWouldBlock
	}
	if n > len(p) {
		n = len(p)
	}
	if n == 0 {
		return 0, nil
	}
	switch c.mode {
	case "one":
		n = 1
	case "rand":
		if m := 1 + c.rng.Intn(8192); n > m {
			n = m
		}
	case "split":
		for _, s := range c.splits {
			if s > c.pos && s-c.pos < n {
				n = s - c.pos
				break
			}
		}
	}
	copy(p, c.data[c.pos:c.pos+n])
	c.pos += n
	return n, nil
}

func (c *fsConn) Close() error { c.closed = true; return nil }

func (f *fsFamily) lenOf(cls string) int64 {
	switch cls {
	case "z":
		return 0
	case "one":
		return 1
	case "max":
		return int64(maxPayload())
	case "over":
		return int64(maxPayload()) + 1
	}
	return int64(f.Lens[cls])
}

// payload bytes: a window of a pool of random bytes that starts with the given byte (generating fresh random bytes for
// every frame dominates the run time); the window is only ever read: the code under test gets copies
var fsPool = func() []byte {
	b := make([]byte, int(p2pcommon.MaxPayloadLength)+(2<<20))
	rand.New(rand.NewSource(18)).Read(b)
	return b
}()

func fsFill(n int64, first byte, mode string, rng *rand.Rand) []byte {
	if n == 0 {
		return []byte{}
	}
	if mode == "frames" || n > int64(len(fsPool))-(1<<20) {
		b := fillPayload(n, mode, rng)
		b[0] = first
		return b
	}
	off := rng.Intn(len(fsPool) - int(n) - 4096)
	for fsPool[off] != first {
		off++
	}
	return fsPool[off : off+int(n) : off+int(n)]
}

// fsArena: memory of the harness (connection buffer, the independent copies) reused from one replay to the next; fresh
// multi-megabyte allocations for every replay cost more than the replay.  Nothing of it is ever handed to a reader.
type fsArena struct {
	buf []byte
	off int
}

func (a *fsArena) take(n int) []byte {
	if a.off+n > len(a.buf) {
		return make([]byte, n)
	}
	b := a.buf[a.off : a.off+n : a.off+n]
	a.off += n
	return b
}

func (a *fsArena) copyOf(b []byte) []byte {
	c := a.take(len(b))
	copy(c, b)
	return c
}

func copyMsg(a *fsArena, m p2pcommon.Message) refMsg {
	return refMsg{sub: m.Subprotocol(), ts: m.Timestamp(), id: m.ID(), org: m.OriginalID(), payload: a.copyOf(m.Payload())}
}

// first difference between a kept message and a reference copy ("" when equal)
func diffMsg(m p2pcommon.Message, w *refMsg) (field, text string) {
	switch {
	case m.Subprotocol() != w.sub:
		return "subprotocol", fmt.Sprintf("sub-protocol %d, was %d", m.Subprotocol(), w.sub)
	case m.Length() != uint32(len(w.payload)):
		return "length", fmt.Sprintf("Length() %d, was %d", m.Length(), len(w.payload))
	case m.Timestamp() != w.ts:
		return "timestamp", fmt.Sprintf("timestamp %d, was %d", m.Timestamp(), w.ts)
	case m.ID() != w.id:
		return "id", "message id differs"
	case m.OriginalID() != w.org:
		return "original-id", "original id differs"
	case len(m.Payload()) != len(w.payload):
		return "payload", fmt.Sprintf("%d payload bytes, were %d", len(m.Payload()), len(w.payload))
	case !bytes.Equal(m.Payload(), w.payload):
		i := 0
		for m.Payload()[i] == w.payload[i] {
			i++
		}
		return "payload", fmt.Sprintf("payload byte %d of %d is %#02x, was %#02x", i, len(w.payload), m.Payload()[i], w.payload[i])
	}
	return "", ""
}

type fsViol struct {
	kind, field, text string
	step              int
}

// replayStream runs one behaviour on a fresh connection.
func replayStream(b *fsBehaviour, f *fsFamily, chunker string, rng *rand.Rand, ar *fsArena) (v *fsViol, harnessErr error) {
	ar.off = 0
	conn := &fsConn{limit: -1, mode: chunker, rng: rng}
	wr := NewV030ReadWriter(bytes.NewReader(nil), conn, conn)
	rd := NewV030ReadWriter(conn, io.Discard, conn)
	step := 0
	defer func() {
		if r := recover(); r != nil {
			buf := make([]byte, 2048)
			buf = buf[:runtime.Stack(buf, false)]
			v = &fsViol{kind: "panic", text: fmt.Sprintf("panic: %v\n%s", r, buf), step: step}
		}
	}()
	// which frame is cut by the ending (it never arrives completely)
	ending, lastOK, total := "", -1, int64(16384)
	for i, s := range b.Steps {
		if strings.HasPrefix(s, "E ") {
			ending = s[2:]
		} else if strings.HasPrefix(s, "W ") && strings.HasSuffix(s, " ok") {
			lastOK = i
			total += refHdr + f.lenOf(strings.Fields(s)[1])
		}
	}
	conn.data = ar.take(int(total))[:0]
	var (
		want     []refMsg            // what the writer was given (accepted messages), independent copies
		kept     []p2pcommon.Message // what the consumer keeps
		snap     []refMsg            // independent copies taken when the message was returned
		nread    int
		cutStart = -1
		cutLen   int64
	)
	check := func(after string) *fsViol {
		for i, m := range kept {
			if fld, txt := diffMsg(m, &snap[i]); fld != "" {
				return &fsViol{kind: "returned-message-changed", field: fld, step: step,
					text: fmt.Sprintf("message #%d of the connection (sub %d, %d payload bytes), returned by an earlier ReadMsg and kept, has changed after %s: %s",
						i+1, snap[i].sub, len(snap[i].payload), after, txt)}
			}
		}
		return nil
	}
	for step = 0; step < len(b.Steps); step++ {
		fs := strings.Fields(b.Steps[step])
		switch fs[0] {
		case "W":
			cls, res := fs[1], fs[3]
			asub, _ := strconv.Atoi(fs[2])
			L := f.lenOf(cls)
			m := refMsg{sub: subFor(asub, int(f.Salt)+step), ts: rng.Int63() - rng.Int63(), id: randID(rng), payload: fsFill(L, byte(len(want)*37+11), f.Fill, rng)} // no two frames of a connection start alike
			if rng.Intn(2) == 0 {
				m.org = randID(rng)
			}
			given := p2pcommon.NewMessageValue(m.sub, m.id, m.org, m.ts, ar.copyOf(m.payload)) // WriteMsg only reads it (checked below)
			before := len(conn.data)
			if step == lastOK && (ending == "cutHdr" || ending == "cutBody") {
				cutStart, cutLen = before, L
				if ending == "cutHdr" {
					conn.limit = before + f.HdrCut
				} else {
					k := int64(0)
					switch f.Cut {
					case "one":
						k = 1
					case "half":
						k = L / 2
					case "last":
						k = L - 1
					}
					if k > L-1 {
						k = L - 1
					}
					conn.limit = before + refHdr + int(k)
				}
			}
			err := wr.WriteMsg(given)
			grown := len(conn.data) - before
			if fld, txt := diffMsg(given, &m); fld != "" {
				return &fsViol{kind: "write-modified-message", field: fld, step: step, text: "WriteMsg changed the message it was given: " + txt}, nil
			}
			if res == "ok" {
				if err != nil {
					return &fsViol{kind: "write-refused-valid", step: step, text: fmt.Sprintf("WriteMsg refused a valid message (sub %d, %d bytes, max %d): %v", m.sub, L, maxPayload(), err)}, nil
				}
				if int64(grown) != refHdr+L {
					return &fsViol{kind: "write-size", step: step, text: fmt.Sprintf("WriteMsg of a %d byte payload left %d bytes on the connection when it returned, want %d", L, grown, refHdr+L)}, nil
				}
				conn.splits = append(conn.splits, before+f.HdrCut, before+refHdr, before+refHdr+int(L/2))
				want = append(want, m)
			} else {
				if err == nil {
					return &fsViol{kind: "write-accepted-invalid", step: step, text: fmt.Sprintf("WriteMsg accepted a payload of %d bytes (max %d)", L, maxPayload())}, nil
				}
				if grown != 0 {
					return &fsViol{kind: "refused-write-leaked-bytes", step: step, text: fmt.Sprintf("a refused WriteMsg left %d bytes on the connection", grown)}, nil
				}
			}
			if v := check("a WriteMsg on the other end"); v != nil {
				return v, nil
			}
		case "E":
			switch fs[1] {
			case "close":
			case "over":
				over := f.OverAbs
				if f.OverAdd > 0 || over <= int64(maxPayload()) {
					add := f.OverAdd
					if add <= 0 {
						add = 1
					}
					over = int64(maxPayload()) + add
				}
				conn.data = append(conn.data, encodeHeader(uint32(p2pcommon.GetBlocksResponse), uint32(over), rng.Int63(), randID(rng), randID(rng))...)
				n := int64(f.Rest)
				if n < 0 || n > 8192 {
					n = 8192
				}
				conn.data = append(conn.data, fillPayload(n, f.Fill, rng)...)
			default: // the frame written last never arrives completely
				if cutStart < 0 || conn.pos > conn.limit {
					return nil, fmt.Errorf("behaviour %v: nothing to cut (start %d, consumed %d, limit %d)", b.Steps, cutStart, conn.pos, conn.limit)
				}
				conn.data = conn.data[:conn.limit]
				conn.limit = -1
			}
			conn.closed = true
			if v := check("the connection ended"); v != nil {
				return v, nil
			}
		case "R":
			if nread >= len(b.Ret) {
				return nil, fmt.Errorf("behaviour %v has more reads than results", b.Steps)
			}
			exp := strings.Fields(b.Ret[nread]) // = kind sub class tag
			nread++
			conn.starved = false
			msg, err := rd.ReadMsg()
			if conn.maxReq > maxPayload()+4096 {
				return &fsViol{kind: "alloc-exceeds-max", step: step, text: fmt.Sprintf("ReadMsg #%d asked the connection for %d bytes at once (MaxPayloadLength %d)", nread, conn.maxReq, maxPayload())}, nil
			}
			if exp[1] == "msg" {
				k := len(kept)
				if k >= len(want) {
					return nil, fmt.Errorf("behaviour %v delivers more than was written", b.Steps)
				}
				w := &want[k]
				if conn.starved {
					return &fsViol{kind: "read-blocks", step: step, text: fmt.Sprintf("ReadMsg #%d asked for more bytes although frame #%d (sub %d, %d payload bytes) had arrived completely: on a real connection it would not return (error given to it: %v)",
						nread, k+1, w.sub, len(w.payload), err)}, nil
				}
				if err != nil {
					return &fsViol{kind: "unexpected-error", step: step, text: fmt.Sprintf("ReadMsg #%d failed (%v) although frame #%d (sub %d, %d payload bytes) had arrived completely", nread, err, k+1, w.sub, len(w.payload))}, nil
				}
				if msg == nil {
					return &fsViol{kind: "nil-message", step: step, text: fmt.Sprintf("ReadMsg #%d returned neither message nor error", nread)}, nil
				}
				if fld, txt := diffMsg(msg, w); fld != "" {
					return &fsViol{kind: "stream-fidelity", field: fld, step: step,
						text: fmt.Sprintf("the %d. message returned is not the %d. message written (sub %d, %d payload bytes): %s", k+1, k+1, w.sub, len(w.payload), txt)}, nil
				}
				kept = append(kept, msg)
				snap = append(snap, copyMsg(ar, msg))
			} else {
				if err == nil {
					got := "nil"
					if msg != nil {
						got = fmt.Sprintf("a message (sub %d, %d payload bytes)", msg.Subprotocol(), len(msg.Payload()))
					}
					return &fsViol{kind: "unexpected-success-" + exp[1], step: step, text: fmt.Sprintf("ReadMsg #%d returned %s where the connection is %s (ending %s, frame cut: %d payload bytes announced)", nread, got, exp[1], ending, cutLen)}, nil
				}
				if msg != nil {
					return &fsViol{kind: "error-with-message", step: step, text: fmt.Sprintf("ReadMsg #%d returned both a message and an error (%v)", nread, err)}, nil
				}
				if conn.starved {
					return &fsViol{kind: "read-blocks", step: step, text: fmt.Sprintf("ReadMsg #%d asked for more bytes while the connection was open and empty (%s expected)", nread, exp[1])}, nil
				}
			}
			if v := check(fmt.Sprintf("ReadMsg #%d (%s)", nread, exp[1])); v != nil {
				return v, nil
			}
			// ... and every kept message still is the message that was written
			for i, m := range kept {
				if fld, txt := diffMsg(m, &want[i]); fld != "" {
					return &fsViol{kind: "stream-fidelity", field: fld, step: step, text: fmt.Sprintf("after ReadMsg #%d the %d. message returned is no longer the %d. message written: %s", nread, i+1, i+1, txt)}, nil
				}
			}
		}
	}
	if nread != len(b.Ret) {
		return nil, fmt.Errorf("behaviour %v: %d reads, %d results", b.Steps, nread, len(b.Ret))
	}
	return nil, nil
}

func TestVerifFrameStream(t *testing.T) {
	if !verifkit.Enabled() {
		t.Skip("run by bin/vcheck")
	}
	var in fsInput
	if err := verifkit.ReadInput(&in); err != nil {
		t.Fatal(err)
	}
	res := verifkit.NewResult()
	defer func() {
		if err := res.Write(); err != nil {
			t.Fatal(err)
		}
	}()
	report := func(v *fsViol, replay map[string]interface{}) {
		sig := map[string]interface{}{"part": "framing-stream", "kind": v.kind}
		if v.field != "" {
			sig["field"] = v.field
		}
		replay["failing_step"] = v.step
		res.Violate(sig, replay, "framing (stream): %s", v.text)
	}
	type job struct {
		b      *fsBehaviour
		bi, fi int
		scen   bool
	}
	var herr error
	var hmu sync.Mutex
	runPhase := func(scale string) {
		jobs := make(chan job, 256)
		var wg sync.WaitGroup
		workers := runtime.GOMAXPROCS(0)
		if workers > 4 && scale == "true" { // several frames of 8 MiB per behaviour, several copies of each
			workers = 4
		}
		maxW := 1
		for i := range in.Behaviours {
			n := 0
			for _, st := range in.Behaviours[i].Steps {
				if st[0] == 'W' {
					n++
				}
			}
			if n > maxW {
				maxW = n
			}
		}
		for w := 0; w < workers; w++ {
			wg.Add(1)
			go func() {
				defer wg.Done()
				ar := &fsArena{buf: make([]byte, (3*maxW+1)*(maxPayload()+refHdr)+(1<<16))} // the connection + 2 copies of every frame
				for j := range jobs {
					f := &in.Families[j.fi]
					chunkers := []string{f.Chunker}
					if scale == "small" && f.Chunker != "one" && (j.bi+j.fi)%3 == 0 {
						chunkers = append(chunkers, "one")
					}
					for _, ch := range chunkers {
						rng := verifkit.Rng(int64(j.bi)*1013 + f.Salt)
						v, err := replayStream(j.b, f, ch, rng, ar)
						if err != nil {
							hmu.Lock()
							herr = err
							hmu.Unlock()
							break
						}
						kind := "behaviour"
						if j.scen {
							kind = "scenario"
						}
						res.Count(fmt.Sprintf("stream|%s|%s|%d|%d|%s", kind, scale, j.bi, j.fi, ch))
						if v != nil {
							report(v, map[string]interface{}{"steps": j.b.Steps, "model_results": j.b.Ret, "scenario": j.b.Name, "family": f, "chunker": ch, "max_payload": maxPayload()})
							break
						}
					}
					if j.bi%4001 == 0 && !j.scen && j.fi == 0 {
						res.Sample(map[string]interface{}{"steps": j.b.Steps, "model_results": j.b.Ret, "family": f})
					}
				}
			}()
		}
		for fi := range in.Families {
			if in.Families[fi].Scale != scale {
				continue
			}
			for si := range in.Scenarios {
				jobs <- job{&in.Scenarios[si], si, fi, true}
			}
		}
		stride := 1
		if scale == "small" && in.Stride > 1 {
			stride = in.Stride
		}
		feed := func(bi int) {
			for fi := range in.Families {
				if in.Families[fi].Scale == scale && (bi+fi)%stride == 0 {
					jobs <- job{&in.Behaviours[bi], bi, fi, false}
				}
			}
		}
		if scale == "true" {
			for _, bi := range in.TrueIdx {
				if bi >= 0 && bi < len(in.Behaviours) {
					feed(bi)
				}
			}
		} else {
			for bi := range in.Behaviours {
				feed(bi)
			}
		}
		close(jobs)
		wg.Wait()
	}
	trueMax := p2pcommon.MaxPayloadLength
	defer func() { p2pcommon.MaxPayloadLength = trueMax }()
	t0 := time.Now()
	runPhase("true")
	t1 := time.Now()
	if in.SmallMax > 8192 {
		p2pcommon.MaxPayloadLength = in.SmallMax
		runPhase("small")
	}
	res.Note("framing (stream): real MaxPayloadLength %.1fs, MaxPayloadLength configured to %d: %.1fs", t1.Sub(t0).Seconds(), in.SmallMax, time.Since(t1).Seconds())
	if herr != nil {
		t.Fatalf("harness: %v", herr)
	}
	res.Note("framing (stream): %d behaviours + %d scenarios x %d families; every kept message compared after every call", len(in.Behaviours), len(in.Scenarios), len(in.Families))
}
