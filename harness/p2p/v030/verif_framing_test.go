//go:build verif

package v030

// Conformance harness for spec/p2p/Framing.tla (C18 a): every finished reader run of the TLC model
// (abstract byte stream, writer log, reference results) is concretised into real byte streams
// (abstract length classes -> real lengths around the limits, abstract offsets -> real offsets) and
// replayed on the real V030ReadWriter under several chunkings; a seeded random-stream driver and a
// sequential allocation probe (runtime.MemStats around every ReadMsg) extend it.

import (
	"bytes"
	"encoding/binary"
	"fmt"
	"io"
	"math/rand"
	"runtime"
	"sync"
	"testing"

	"github.com/aergoio/aergo/v2/internal/verifkit"
	"github.com/aergoio/aergo/v2/p2p/p2pcommon"
)

// ---------------------------------------------------------------- input (from TLC via vcheck)

type frOutcome struct {
	K   string `json:"k"` // msg | err_header | err_too_big | err_truncated
	Sub int    `json:"sub"`
	N   int    `json:"n"`
}

type frWrite struct {
	Sub      int    `json:"sub"`
	Plen     int    `json:"plen"`
	Declared int    `json:"declared"`
	Res      string `json:"res"`
}

type frCase struct {
	Stream  []int       `json:"stream"`
	Wlog    []frWrite   `json:"wlog"`
	Pure    bool        `json:"pure"`
	Chopped int         `json:"chopped"`
	Out     []frOutcome `json:"out"`
}

type frFamily struct {
	Scale   string `json:"scale"`    // true: the node's MaxPayloadLength; small: MaxPayloadLength configured to small_max for the run
	Mid     int    `json:"mid"`      // real length of the abstract class "2" (between 2 and Max-1); <= 0: Max + mid
	OverAdd int64  `json:"over_add"` // oversize length field = Max + over_add (when > 0) ...
	OverAbs int64  `json:"over_abs"` // ... or this absolute value
	Over    int64  `json:"-"`
	Rest    int    `json:"rest"`    // bytes following an oversize header when the model has some (-1: as many as announced)
	HdrCut  int    `json:"hdr_cut"` // real offset of "inside the header" (1..47)
	Inter   string `json:"inter"`   // early | late | spread: real offsets of "inside the payload"
	Chunker string `json:"chunker"` // all | one | rand | split
	Fill    string `json:"fill"`    // rand | frames: payload content (frames: looks like a sequence of oversize headers)
	Salt    int64  `json:"salt"`
}

type frInput struct {
	HdrLen    int        `json:"hdr_len"`
	Max       int        `json:"max"` // abstract Max (classes 0..Max+1)
	Cases     []frCase   `json:"cases"`
	Families  []frFamily `json:"families"`
	RandomN   int        `json:"random_streams"`
	SmallMax  uint32     `json:"small_max"`  // the configured maximum of the small-scale phase
	TrueEvery int        `json:"true_every"` // true-scale families replay every n-th case (the 8 MB frames are expensive)
}

// resolve the lengths of a family against the currently configured maximum
func (f frFamily) resolved() *frFamily {
	if f.Mid <= 0 {
		f.Mid = maxPayload() + f.Mid
	}
	f.Over = f.OverAbs
	if f.OverAdd > 0 {
		f.Over = int64(maxPayload()) + f.OverAdd
	}
	if f.Over <= int64(maxPayload()) {
		f.Over = int64(maxPayload()) + 1
	}
	return &f
}

// ---------------------------------------------------------------- the wire format (reference, from the protocol description)

const refHdr = 48

var allSubs = []p2pcommon.SubProtocol{
	p2pcommon.StatusRequest, p2pcommon.PingRequest, p2pcommon.PingResponse, p2pcommon.GoAway, p2pcommon.AddressesRequest,
	p2pcommon.AddressesResponse, p2pcommon.IssueCertificateRequest, p2pcommon.IssueCertificateResponse,
	p2pcommon.CertificateRenewedNotice, p2pcommon.GetBlocksRequest, p2pcommon.GetBlocksResponse,
	p2pcommon.GetBlockHeadersRequest, p2pcommon.GetBlockHeadersResponse, p2pcommon.NewBlockNotice,
	p2pcommon.GetAncestorRequest, p2pcommon.GetAncestorResponse, p2pcommon.GetHashesRequest, p2pcommon.GetHashesResponse,
	p2pcommon.GetHashByNoRequest, p2pcommon.GetHashByNoResponse, p2pcommon.GetTXsRequest, p2pcommon.GetTXsResponse,
	p2pcommon.NewTxNotice, p2pcommon.BlockProducedNotice, p2pcommon.GetClusterRequest, p2pcommon.GetClusterResponse,
	p2pcommon.RaftWrapperMessage,
	// ids no handler knows: the framing layer must carry them all the same
	p2pcommon.SubProtocol(0), p2pcommon.SubProtocol(0x14), p2pcommon.SubProtocol(0x7fffffff), p2pcommon.SubProtocol(0xffffffff),
}

type refMsg struct {
	sub     p2pcommon.SubProtocol
	ts      int64
	id, org p2pcommon.MsgID
	payload []byte
}

func encodeHeader(sub uint32, length uint32, ts int64, id, org p2pcommon.MsgID) []byte {
	b := make([]byte, refHdr)
	binary.BigEndian.PutUint32(b[0:4], sub)
	binary.BigEndian.PutUint32(b[4:8], length)
	binary.BigEndian.PutUint64(b[8:16], uint64(ts))
	copy(b[16:32], id[:])
	copy(b[32:48], org[:])
	return b
}

func randID(rng *rand.Rand) (m p2pcommon.MsgID) {
	rng.Read(m[:])
	return
}

// ---------------------------------------------------------------- chunked, counting reader

type chunkReader struct {
	data    []byte
	pos     int
	mode    string
	rng     *rand.Rand
	splits  []int // split points for mode "split"
	maxReq  int   // largest len(p) the code under test asked for
	nCalls  int
	zeroRun int
}

func (c *chunkReader) Read(p []byte) (int, error) {
	c.nCalls++
	if len(p) > c.maxReq {
		c.maxReq = len(p)
	}
	if c.pos >= len(c.data) {
		return 0, io.EOF
	}
	n := len(c.data) - c.pos
	if n > len(p) {
		n = len(p)
	}
	switch c.mode {
	case "one":
		if n > 1 {
			n = 1
		}
	case "rand":
		if m := 1 + c.rng.Intn(8192); n > m {
			n = m
		}
	case "split":
		for _, s := range c.splits {
			if s > c.pos && s-c.pos < n {
				n = s - c.pos
				break
			}
		}
	}
	if n == 0 { // len(p) == 0
		return 0, nil
	}
	copy(p, c.data[c.pos:c.pos+n])
	c.pos += n
	return n, nil
}

type nopCloser struct{}

func (nopCloser) Close() error { return nil }

// ---------------------------------------------------------------- concretisation

type concrete struct {
	data     []byte
	want     []refMsg // messages that must be returned, in order; then exactly one error
	lastKind string   // class of the final failure according to the model
	lastDecl int64    // length field of the frame that fails (err_too_big / err_truncated)
	splits   []int
	desc     map[string]interface{}
}

func maxPayload() int { return int(p2pcommon.MaxPayloadLength) }

// real length of an abstract length class (abstract Max = 3: 0, 1, mid, Max, oversize)
func (f *frFamily) realLen(cls int, absMax int) int64 {
	switch {
	case cls == 0:
		return 0
	case cls == 1 && absMax >= 3:
		return 1
	case cls < absMax:
		return int64(f.Mid)
	case cls == absMax:
		return int64(maxPayload())
	default:
		return f.Over
	}
}

// real offset of the abstract offset j inside a unit of abstract length l and real length L
func (f *frFamily) inside(j, l int, L int64) int64 {
	if j <= 0 {
		return 0
	}
	if j >= l {
		return L
	}
	if L < int64(l) { // cannot keep the points distinct: clamp (only for tiny real lengths)
		if int64(j) < L {
			return int64(j)
		}
		return L
	}
	switch f.Inter {
	case "early":
		return int64(j)
	case "late":
		return L - int64(l-j)
	default:
		return int64(j) * L / int64(l)
	}
}

func (f *frFamily) hdrInside(j, hdrLen int) int {
	if j <= 0 {
		return 0
	}
	if j >= hdrLen {
		return refHdr
	}
	// hdrLen = 2: one interior point (HdrCut); hdrLen = 3: two (HdrCut/2+?): keep them ordered
	if hdrLen == 2 {
		return f.HdrCut
	}
	p := f.HdrCut * j / (hdrLen - 1)
	if p < j {
		p = j
	}
	if p > refHdr-(hdrLen-j) {
		p = refHdr - (hdrLen - j)
	}
	return p
}

func fillPayload(n int64, mode string, rng *rand.Rand) []byte {
	b := make([]byte, n)
	if mode == "frames" {
		// looks like a run of headers announcing 0xffffffff bytes: must never be interpreted
		h := encodeHeader(uint32(p2pcommon.StatusRequest), 0xffffffff, 1, p2pcommon.MsgID{1}, p2pcommon.MsgID{})
		for i := int64(0); i < n; i += refHdr {
			copy(b[i:], h)
		}
		return b
	}
	// random content is expensive for 8 MB payloads: random head and tail, patterned middle
	if n <= 1<<16 {
		rng.Read(b)
		return b
	}
	rng.Read(b[:4096])
	rng.Read(b[n-4096:])
	for i := int64(4096); i < n-4096; i++ {
		b[i] = byte(i*31 + n)
	}
	return b
}

func subFor(abs int, idx int) p2pcommon.SubProtocol {
	return allSubs[(abs*7+idx)%len(allSubs)]
}

// an injected (adversarial) abstract stream, made concrete through the reference parse structure
func concretiseInjected(c *frCase, f *frFamily, in *frInput, idx int, rng *rand.Rand) *concrete {
	out := &concrete{desc: map[string]interface{}{}}
	var buf bytes.Buffer
	pos := 0
	for i, o := range c.Out {
		switch o.K {
		case "msg":
			cls := c.Stream[pos+1]
			L := f.realLen(cls, in.Max)
			m := refMsg{sub: subFor(c.Stream[pos], idx+i), ts: rng.Int63() - rng.Int63(), id: randID(rng), payload: fillPayload(L, f.Fill, rng)}
			if rng.Intn(2) == 0 {
				m.org = randID(rng)
			}
			start := buf.Len()
			buf.Write(encodeHeader(m.sub.Uint32(), uint32(L), m.ts, m.id, m.org))
			buf.Write(m.payload)
			out.want = append(out.want, m)
			out.splits = append(out.splits, start+f.HdrCut, start+refHdr, start+refHdr+int(L/2))
			pos += in.HdrLen + cls
		case "err_header":
			k := f.hdrInside(o.N, in.HdrLen)
			b := make([]byte, k)
			rng.Read(b)
			buf.Write(b)
			out.lastKind = o.K
		case "err_too_big":
			rest := len(c.Stream) - pos - in.HdrLen
			start := buf.Len()
			buf.Write(encodeHeader(subFor(c.Stream[pos], idx+i).Uint32(), uint32(f.Over), rng.Int63(), randID(rng), p2pcommon.MsgID{}))
			n := int64(0)
			if rest > 0 {
				n = int64(f.Rest)
				if f.Rest < 0 {
					n = f.Over
				}
			}
			if n > int64(maxPayload())+4096 {
				n = int64(maxPayload()) + 4096
			}
			buf.Write(fillPayload(n, f.Fill, rng))
			out.splits = append(out.splits, start+f.HdrCut, start+refHdr)
			out.lastKind, out.lastDecl = o.K, f.Over
		case "err_truncated":
			cls := c.Stream[pos+1]
			L := f.realLen(cls, in.Max)
			k := f.inside(o.N, cls, L)
			if k >= L { // cannot happen for cls >= 1 (o.N < cls)
				k = L - 1
			}
			start := buf.Len()
			buf.Write(encodeHeader(subFor(c.Stream[pos], idx+i).Uint32(), uint32(L), rng.Int63(), randID(rng), randID(rng)))
			buf.Write(fillPayload(k, f.Fill, rng))
			out.splits = append(out.splits, start+f.HdrCut, start+refHdr)
			out.lastKind, out.lastDecl = o.K, L
		}
	}
	out.data = buf.Bytes()
	return out
}

// a message whose Length() does not tell the truth
type lyingMsg struct {
	*p2pcommon.MessageValue
	declared uint32
}

func (l lyingMsg) Length() uint32 { return l.declared }

type frViol struct {
	kind string
	text string
}

// a writer-built abstract stream: the real WriteMsg produces the bytes
func concretisePure(c *frCase, f *frFamily, in *frInput, idx int, rng *rand.Rand) (*concrete, *frViol) {
	out := &concrete{desc: map[string]interface{}{}}
	var buf bytes.Buffer
	w := NewV030ReadWriter(bytes.NewReader(nil), &buf, nopCloser{})
	var frames []struct {
		start int
		cls   int
		L     int64
	}
	for i, e := range c.Wlog {
		L := f.realLen(e.Plen, in.Max)
		if e.Plen > in.Max {
			L = int64(maxPayload()) + 1 + int64(rng.Intn(2)) // a real payload just over the limit (not the huge length-field values)
		}
		m := refMsg{sub: subFor(e.Sub, idx+i), ts: rng.Int63() - rng.Int63(), id: randID(rng), payload: fillPayload(L, f.Fill, rng)}
		if rng.Intn(2) == 0 {
			m.org = randID(rng)
		}
		mv := p2pcommon.NewMessageValue(m.sub, m.id, m.org, m.ts, m.payload)
		var msg p2pcommon.Message = mv
		if e.Declared != e.Plen {
			d := f.realLen(e.Declared, in.Max)
			if d == L { // classes collapse for this family: force a difference
				d = L + 1
			}
			msg = lyingMsg{mv, uint32(d)}
		}
		before := buf.Len()
		err := w.WriteMsg(msg)
		grown := buf.Len() - before
		if e.Res == "ok" {
			if err != nil {
				return nil, &frViol{"write-refused-valid", fmt.Sprintf("WriteMsg refused a valid message (sub %d, %d bytes): %v", m.sub, L, err)}
			}
			if int64(grown) != refHdr+L {
				return nil, &frViol{"write-size", fmt.Sprintf("WriteMsg of a %d byte payload put %d bytes on the wire, want %d", L, grown, refHdr+L)}
			}
			frames = append(frames, struct {
				start int
				cls   int
				L     int64
			}{before, e.Plen, L})
			out.want = append(out.want, m)
			out.splits = append(out.splits, before+f.HdrCut, before+refHdr, before+refHdr+int(L/2))
		} else {
			if err == nil {
				return nil, &frViol{"write-accepted-invalid", fmt.Sprintf("WriteMsg accepted a message it must refuse (%s: Length()=%d, len(Payload())=%d, max %d)",
					e.Res, msg.Length(), L, maxPayload())}
			}
			if grown != 0 {
				return nil, &frViol{"refused-write-leaked-bytes", fmt.Sprintf("a refused WriteMsg (%s) left %d bytes on the wire", e.Res, grown)}
			}
		}
	}
	data := buf.Bytes()
	// truncation: abstract offset (from the end) -> real offset
	if c.Chopped > 0 {
		absLen := 0
		for _, fr := range frames {
			absLen += in.HdrLen + fr.cls
		}
		keep := absLen - c.Chopped // abstract bytes kept
		cut, apos := 0, 0
		for _, fr := range frames {
			fl := in.HdrLen + fr.cls
			if keep >= apos+fl {
				cut = fr.start + refHdr + int(fr.L)
				apos += fl
				continue
			}
			in_ := keep - apos
			if in_ <= in.HdrLen {
				cut = fr.start + f.hdrInside(in_, in.HdrLen)
			} else {
				cut = fr.start + refHdr + int(f.inside(in_-in.HdrLen, fr.cls, fr.L))
			}
			break
		}
		data = data[:cut]
	}
	// what must come back: the model's result list decides how many messages
	nmsg := 0
	for _, o := range c.Out {
		if o.K == "msg" {
			nmsg++
		} else {
			out.lastKind = o.K
		}
	}
	if nmsg > len(out.want) {
		return nil, &frViol{"harness", "model delivers more messages than were written"}
	}
	if out.lastKind == "err_truncated" && nmsg < len(out.want) {
		out.lastDecl = int64(len(out.want[nmsg].payload))
	}
	out.want = out.want[:nmsg]
	out.data = data
	return out, nil
}

// ---------------------------------------------------------------- reading back and comparing

type readStats struct {
	maxReq int
	errs   []string
}

// runReader calls ReadMsg until it fails and compares with the expectation.  probe: measure the heap
// allocated by every call (only meaningful when nothing else runs).
func runReader(cc *concrete, chunker string, rng *rand.Rand, probe bool) (v *frViol, st readStats) {
	cr := &chunkReader{data: cc.data, mode: chunker, rng: rng, splits: cc.splits}
	defer func() {
		if r := recover(); r != nil {
			buf := make([]byte, 2048)
			buf = buf[:runtime.Stack(buf, false)]
			v = &frViol{"panic", fmt.Sprintf("ReadMsg panicked: %v\n%s", r, buf)}
		}
	}()
	rw := NewV030ReadWriter(cr, io.Discard, nopCloser{})
	bound := uint64(maxPayload()) + 256<<10
	for i := 0; ; i++ {
		var m0, m1 runtime.MemStats
		if probe {
			runtime.ReadMemStats(&m0)
		}
		msg, err := rw.ReadMsg()
		if probe {
			runtime.ReadMemStats(&m1)
			if d := m1.TotalAlloc - m0.TotalAlloc; d > bound {
				return &frViol{"alloc-exceeds-max", fmt.Sprintf("ReadMsg #%d allocated %d bytes (> MaxPayloadLength %d + slack) on a stream of %d bytes whose failing frame announces %d bytes",
					i+1, d, maxPayload(), len(cc.data), cc.lastDecl)}, st
			}
		}
		if cr.maxReq > maxPayload()+4096 {
			return &frViol{"alloc-exceeds-max", fmt.Sprintf("ReadMsg #%d asked the stream for %d bytes at once (> MaxPayloadLength %d): a buffer of that size was allocated", i+1, cr.maxReq, maxPayload())}, st
		}
		st.maxReq = cr.maxReq
		if i < len(cc.want) {
			w := cc.want[i]
			if err != nil {
				return &frViol{"unexpected-error", fmt.Sprintf("ReadMsg #%d failed (%v) on a complete frame (sub %d, %d payload bytes)", i+1, err, w.sub, len(w.payload))}, st
			}
			if msg == nil {
				return &frViol{"nil-message", fmt.Sprintf("ReadMsg #%d returned neither message nor error", i+1)}, st
			}
			switch {
			case msg.Subprotocol() != w.sub:
				return &frViol{"roundtrip-mismatch", fmt.Sprintf("message #%d: sub-protocol %d read, %d written", i+1, msg.Subprotocol(), w.sub)}, st
			case msg.Length() != uint32(len(w.payload)) || !bytes.Equal(msg.Payload(), w.payload):
				return &frViol{"roundtrip-mismatch", fmt.Sprintf("message #%d: payload differs (%d bytes read, Length()=%d, %d written)", i+1, len(msg.Payload()), msg.Length(), len(w.payload))}, st
			case msg.Timestamp() != w.ts:
				return &frViol{"roundtrip-mismatch", fmt.Sprintf("message #%d: timestamp %d read, %d written", i+1, msg.Timestamp(), w.ts)}, st
			case msg.ID() != w.id || msg.OriginalID() != w.org:
				return &frViol{"roundtrip-mismatch", fmt.Sprintf("message #%d: ids differ", i+1)}, st
			}
			continue
		}
		// the failure
		if err == nil {
			got := "nil"
			if msg != nil {
				got = fmt.Sprintf("a message (sub %d, %d payload bytes)", msg.Subprotocol(), len(msg.Payload()))
			}
			return &frViol{"unexpected-success-" + cc.lastKind, fmt.Sprintf("ReadMsg #%d returned %s where the stream is %s (stream %d bytes, %d consumed, announced length %d)",
				i+1, got, cc.lastKind, len(cc.data), cr.pos, cc.lastDecl)}, st
		}
		if msg != nil {
			return &frViol{"error-with-message", fmt.Sprintf("ReadMsg #%d returned both a message and an error (%v)", i+1, err)}, st
		}
		st.errs = append(st.errs, cc.lastKind+": "+err.Error())
		return nil, st
	}
}

// reference parser for raw byte streams (random driver)
func refParse(data []byte) *concrete {
	cc := &concrete{data: data}
	pos := 0
	for {
		if len(data)-pos < refHdr {
			cc.lastKind = "err_header"
			return cc
		}
		h := data[pos : pos+refHdr]
		L := int64(binary.BigEndian.Uint32(h[4:8]))
		if L > int64(maxPayload()) {
			cc.lastKind, cc.lastDecl = "err_too_big", L
			return cc
		}
		if int64(len(data)-pos-refHdr) < L {
			cc.lastKind, cc.lastDecl = "err_truncated", L
			return cc
		}
		m := refMsg{sub: p2pcommon.SubProtocol(binary.BigEndian.Uint32(h[0:4])), ts: int64(binary.BigEndian.Uint64(h[8:16])),
			payload: data[pos+refHdr : pos+refHdr+int(L)]}
		copy(m.id[:], h[16:32])
		copy(m.org[:], h[32:48])
		cc.want = append(cc.want, m)
		cc.splits = append(cc.splits, pos+7, pos+refHdr)
		pos += refHdr + int(L)
	}
}

func randomStream(rng *rand.Rand) []byte {
	var buf bytes.Buffer
	for n := rng.Intn(5); n > 0; n-- {
		var L uint32
		switch rng.Intn(6) {
		case 0:
			L = 0
		case 1:
			L = uint32(rng.Intn(64))
		case 2:
			L = uint32(rng.Intn(20000))
		case 3:
			L = rng.Uint32() // almost always oversize
		case 4:
			L = uint32(maxPayload()) + uint32(rng.Intn(3)) - 1
			if rng.Intn(4) != 0 { // keep the 8 MB frames rare
				L = uint32(rng.Intn(300000))
			}
		default:
			L = uint32(rng.Intn(5000))
		}
		h := make([]byte, refHdr)
		rng.Read(h)
		binary.BigEndian.PutUint32(h[4:8], L)
		buf.Write(h)
		have := int64(L)
		if rng.Intn(3) == 0 { // lying frame: fewer or more bytes than announced follow
			have = int64(rng.Intn(int(L%100000) + 50))
		}
		if have > int64(maxPayload())+100 {
			have = int64(rng.Intn(3000))
		}
		p := make([]byte, have)
		rng.Read(p)
		buf.Write(p)
	}
	if rng.Intn(2) == 0 { // garbage tail
		t := make([]byte, rng.Intn(200))
		rng.Read(t)
		buf.Write(t)
	}
	b := buf.Bytes()
	if len(b) > 0 && rng.Intn(3) == 0 { // cut anywhere
		b = b[:rng.Intn(len(b)+1)]
	}
	return b
}

// ---------------------------------------------------------------- the test

func TestVerifFraming(t *testing.T) {
	if !verifkit.Enabled() {
		t.Skip("run by bin/vcheck")
	}
	var in frInput
	if err := verifkit.ReadInput(&in); err != nil {
		t.Fatal(err)
	}
	res := verifkit.NewResult()
	defer func() {
		if err := res.Write(); err != nil {
			t.Fatal(err)
		}
	}()
	errKinds := map[string]int{}
	var mu sync.Mutex
	report := func(v *frViol, replay map[string]interface{}) {
		res.Violate(map[string]interface{}{"part": "framing", "kind": v.kind}, replay, "framing: %s", v.text)
	}

	// ---- phase 1 (sequential): allocation probe, ordered by how much a faulty reader would allocate
	probeViol := false
	{
		rng := verifkit.Rng(1801)
		type probeCase struct {
			name string
			over int64
			rest int
		}
		mp := int64(maxPayload())
		probes := []probeCase{
			{"max+1, announced bytes follow", mp + 1, -1}, {"max+1, nothing follows", mp + 1, 0}, {"max+1, 100 bytes follow", mp + 1, 100},
			{"max+4096", mp + 4096, 5000}, {"16MiB+max", mp + 16<<20, 5000}, {"64MiB", 64 << 20, 10}, {"256MiB", 256 << 20, 10},
			{"1GiB", 1 << 30, 10}, {"2GiB", 1 << 31, 10}, {"4GiB-1", 1<<32 - 1, 10},
		}
		for _, p := range probes {
			if probeViol && p.over > mp+16<<20+1 {
				res.Note("allocation probe: skipped %s after an earlier violation", p.name)
				continue
			}
			// one good frame, then the oversize header
			var buf bytes.Buffer
			good := refMsg{sub: p2pcommon.PingRequest, ts: 7, id: randID(rng), payload: fillPayload(100, "rand", rng)}
			buf.Write(encodeHeader(good.sub.Uint32(), 100, good.ts, good.id, good.org))
			buf.Write(good.payload)
			buf.Write(encodeHeader(uint32(p2pcommon.GetBlocksResponse), uint32(p.over), 1, randID(rng), randID(rng)))
			n := int64(p.rest)
			if p.rest < 0 {
				n = p.over
			}
			buf.Write(fillPayload(n, "rand", rng))
			cc := &concrete{data: buf.Bytes(), want: []refMsg{good}, lastKind: "err_too_big", lastDecl: p.over}
			for _, ch := range []string{"all", "rand"} {
				runtime.GC()
				v, st := runReader(cc, ch, rng, true)
				res.Count(fmt.Sprintf("probe|%s|%s", p.name, ch))
				for _, e := range st.errs {
					errKinds[classify(e)]++
				}
				if v != nil {
					probeViol = true
					report(v, map[string]interface{}{"probe": p.name, "announced": p.over, "bytes_following": n, "chunker": ch})
					break
				}
			}
		}
		// truncated frames announcing an admissible length: allocation up to Max is allowed, more is not
		for _, L := range []int64{mp, mp - 1, 1 << 20, 4097} {
			for _, have := range []int64{0, 1, L / 2, L - 1} {
				var buf bytes.Buffer
				buf.Write(encodeHeader(uint32(p2pcommon.GetTXsResponse), uint32(L), 1, randID(rng), randID(rng)))
				buf.Write(fillPayload(have, "rand", rng))
				cc := &concrete{data: buf.Bytes(), lastKind: "err_truncated", lastDecl: L}
				runtime.GC()
				v, st := runReader(cc, "rand", rng, true)
				res.Count(fmt.Sprintf("probe-trunc|%d|%d", L, have))
				for _, e := range st.errs {
					errKinds[classify(e)]++
				}
				if v != nil {
					probeViol = true
					report(v, map[string]interface{}{"probe": "truncated", "announced": L, "bytes_following": have})
				}
			}
		}
	}

	// ---- phase 2 (parallel): every TLC case x family; first at the node's real limit, then with a small configured limit
	type job struct {
		ci, fi int
	}
	runPhase := func(scale string) {
		jobs := make(chan job, 256)
		var wg sync.WaitGroup
		workers := runtime.GOMAXPROCS(0)
		if workers > 8 && scale == "true" {
			workers = 8
		}
		fams := make([]*frFamily, len(in.Families))
		for i := range in.Families {
			fams[i] = in.Families[i].resolved()
		}
		for w := 0; w < workers; w++ {
			wg.Add(1)
			go func() {
				defer wg.Done()
				for j := range jobs {
					c, f := &in.Cases[j.ci], fams[j.fi]
					if probeViol && f.Over > int64(maxPayload())+16<<20+1 {
						continue // do not ask a reader already known to over-allocate for gigabytes
					}
					rng := verifkit.Rng(int64(j.ci)*1009 + f.Salt)
					replay := map[string]interface{}{"case": c, "family": f, "case_index": j.ci, "max_payload": maxPayload()}
					var cc *concrete
					func() {
						defer func() {
							if r := recover(); r != nil {
								report(&frViol{"panic", fmt.Sprintf("WriteMsg panicked: %v", r)}, replay)
							}
						}()
						if c.Pure {
							var v *frViol
							cc, v = concretisePure(c, f, &in, j.ci, rng)
							if v != nil {
								if v.kind == "harness" {
									t.Errorf("harness: %s (case %d)", v.text, j.ci)
								} else {
									report(v, replay)
								}
								cc = nil
							}
						} else {
							cc = concretiseInjected(c, f, &in, j.ci, rng)
						}
					}()
					if cc == nil {
						continue
					}
					chunkers := []string{f.Chunker}
					if len(cc.data) <= 1<<15 && f.Chunker != "one" {
						chunkers = append(chunkers, "one")
					}
					for _, ch := range chunkers {
						v, st := runReader(cc, ch, rng, false)
						res.Count(fmt.Sprintf("case|%s|%d|%d|%s", scale, j.ci, j.fi, ch))
						mu.Lock()
						for _, e := range st.errs {
							errKinds[classify(e)]++
						}
						mu.Unlock()
						if v != nil {
							replay["chunker"] = ch
							replay["stream_len"] = len(cc.data)
							report(v, replay)
							break
						}
					}
					if j.ci%97 == 0 && j.fi == 0 {
						res.Sample(map[string]interface{}{"abstract_stream": c.Stream, "pure": c.Pure, "chopped": c.Chopped, "results": c.Out,
							"real_stream_bytes": len(cc.data), "messages": len(cc.want), "failure": cc.lastKind, "max_payload": maxPayload()})
					}
				}
			}()
		}
		every := 1
		if scale == "true" && in.TrueEvery > 1 {
			every = in.TrueEvery
		}
		for ci := range in.Cases {
			for fi := range in.Families {
				c := &in.Cases[ci]
				always := (c.Pure && len(c.Wlog) == 1 && c.Chopped <= 1) || (!c.Pure && len(c.Stream) <= 2) // the limits themselves
				if in.Families[fi].Scale != scale || ((ci+fi)%every != 0 && !always) {
					continue
				}
				jobs <- job{ci, fi}
			}
		}
		close(jobs)
		wg.Wait()
	}
	trueMax := p2pcommon.MaxPayloadLength
	defer func() { p2pcommon.MaxPayloadLength = trueMax }()
	runPhase("true")
	if in.SmallMax > 100 {
		p2pcommon.MaxPayloadLength = in.SmallMax // "the configured maximum payload": a package variable read by every ReadMsg / WriteMsg
		runPhase("small")
	}

	// ---- phase 3: seeded random byte streams against the reference parser
	{
		rng := verifkit.Rng(1803)
		for i := 0; i < in.RandomN; i++ {
			if i < in.RandomN/8 {
				p2pcommon.MaxPayloadLength = trueMax
			} else if in.SmallMax > 100 {
				p2pcommon.MaxPayloadLength = in.SmallMax
			}
			data := randomStream(rng)
			cc := refParse(data)
			if probeViol && cc.lastDecl > int64(maxPayload())+16<<20 {
				continue
			}
			ch := []string{"all", "one", "rand", "split"}[i%4]
			if ch == "one" && len(data) > 1<<16 {
				ch = "rand"
			}
			v, st := runReader(cc, ch, rng, i%8 == 0)
			res.Count(fmt.Sprintf("random|%d", i))
			for _, e := range st.errs {
				errKinds[classify(e)]++
			}
			if v != nil {
				head := data
				if len(head) > 128 {
					head = head[:128]
				}
				report(v, map[string]interface{}{"random_stream_index": i, "len": len(data), "head_hex": fmt.Sprintf("%x", head), "chunker": ch})
			}
		}
	}
	res.Extra["error_classes"] = errKinds
	res.Note("framing: %d cases x %d families, error classes seen (read from the code, not predicted): %v", len(in.Cases), len(in.Families), errKinds)
}

func classify(e string) string {
	for _, k := range []string{"too big payload", "EOF", "invalid msgHeader", "length mismatch"} {
		if bytes.Contains([]byte(e), []byte(k)) {
			i := bytes.IndexByte([]byte(e), ':')
			return e[:i] + " -> " + k
		}
	}
	i := bytes.IndexByte([]byte(e), ':')
	return e[:i] + " -> other"
}
