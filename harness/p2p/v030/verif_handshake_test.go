//go:build verif

package v030

// Conformance harness for spec/p2p/Handshake.tla (C18 b), protocol versions 0.3.3, 0.3.2 and 0.3.1:
// every finished run of the TLC model is replayed on the real V033/V032/V030 handshakers over the
// real V030 framing, with a scripted remote side (internal/verifp2p).

import (
	"testing"

	"github.com/aergoio/aergo-lib/log"
	"github.com/aergoio/aergo/v2/internal/verifkit"
	"github.com/aergoio/aergo/v2/internal/verifp2p"
	"github.com/aergoio/aergo/v2/p2p/p2pcommon"
)

func TestVerifHandshakeV03x(t *testing.T) {
	if !verifkit.Enabled() {
		t.Skip("run by bin/vcheck")
	}
	var in verifp2p.HsInput
	if err := verifkit.ReadInput(&in); err != nil {
		t.Fatal(err)
	}
	res := verifkit.NewResult()
	defer func() {
		if err := res.Write(); err != nil {
			t.Fatal(err)
		}
	}()
	logger := log.NewLogger("verif.hs")
	verifp2p.RunHandshakeCases(&in, res, 1811, func(ver string, w *verifp2p.World, conn *verifp2p.Conn) p2pcommon.VersionedHandshaker {
		pm, actor, vm := verifp2p.PM{W: w}, verifp2p.Actor{W: w}, verifp2p.VM{W: w}
		switch ver {
		case "v033":
			return NewV033VersionedHS(pm, actor, logger, vm, w.RemoteID, conn, w.Genesis)
		case "v032":
			// the version manager hands v0.3.2 / v0.3.1 handshakers the chain id of the genesis block
			return NewV032VersionedHS(pm, actor, logger, w.ChainIDAt(0), w.RemoteID, conn, w.Genesis)
		case "v031":
			return NewV030VersionedHS(pm, actor, logger, w.ChainIDAt(0), w.RemoteID, conn)
		}
		return nil
	})
}
