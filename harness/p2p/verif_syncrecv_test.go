//go:build verif

package p2p

// Conformance harness for spec/sync/ChunkRecv.tla (C17, p2p side): every transition of the TLC graph of the
// response receivers is replayed on the real BlocksChunkReceiver / BlockHashesReceiver (mocked peer and actor
// service); after every response part the receiver's status and the messages it sent to the syncer are compared
// with the model, and the property is evaluated: at most one message per request, a message without error
// carries exactly the requested blocks in order.

import (
	"bytes"
	"crypto/sha256"
	"fmt"
	"testing"
	"time"

	"github.com/aergoio/aergo/v2/chain"
	"github.com/aergoio/aergo/v2/internal/verifkit"
	"github.com/aergoio/aergo/v2/p2p/p2pcommon"
	"github.com/aergoio/aergo/v2/p2p/p2pmock"
	"github.com/aergoio/aergo/v2/types"
	"github.com/aergoio/aergo/v2/types/message"
	"github.com/golang/mock/gomock"
)

type vrPart struct {
	Items   []int `json:"items"`
	HasNext bool  `json:"hasNext"`
	Ok      bool  `json:"ok"`
}

type vrState struct {
	Status string  `json:"status"`
	Got    []int   `json:"got"`
	Sent   [][]int `json:"sent"` // one entry per message: [] = error, [items...] = ok with these items
}

type vrStep struct {
	Part vrPart  `json:"part"`
	Exp  vrState `json:"exp"`
}

type vrPath struct {
	Steps []vrStep `json:"steps"`
}

type vrInput struct {
	Kind  string   `json:"kind"` // "blocks" | "hashes"
	N     int      `json:"n"`
	Paths []vrPath `json:"paths"`
}

func vrHash(i int) []byte {
	h := sha256.Sum256([]byte(fmt.Sprintf("verif-c17-item-%d", i)))
	return h[:]
}

func vrItemOf(h []byte) int {
	for _, i := range []int{1, 2, 3, 4, 5, 9} {
		if bytes.Equal(h, vrHash(i)) {
			return i
		}
	}
	return -1
}

type vrSent struct {
	err   bool
	items []int
	seq   uint64
}

func TestVerifSyncRecv(t *testing.T) {
	if !verifkit.Enabled() {
		t.Skip("not started by bin/vcheck")
	}
	var in vrInput
	if err := verifkit.ReadInput(&in); err != nil {
		t.Fatal(err)
	}
	res := verifkit.NewResult()
	defer func() {
		if err := res.Write(); err != nil {
			t.Fatal(err)
		}
	}()
	chain.Init(1<<20, "", false, 1, 1)
	ctrl := gomock.NewController(t)
	defer ctrl.Finish()
	const seqNo = uint64(4711)
	statusName := map[receiverStatus]string{receiverStatusWaiting: "waiting", receiverStatusCanceled: "canceled", receiverStatusFinished: "finished"}

	divergences := 0
	defer func() { res.Extra["divergences"] = divergences }()
	for pi, path := range in.Paths {
		var sent []vrSent
		mockActor := p2pmock.NewMockActorService(ctrl)
		mockActor.EXPECT().TellRequest(message.SyncerSvc, gomock.Any()).DoAndReturn(func(a string, arg interface{}) {
			switch m := arg.(type) {
			case *message.GetBlockChunksRsp:
				s := vrSent{err: m.Err != nil, seq: m.Seq}
				for _, b := range m.Blocks {
					s.items = append(s.items, vrItemOf(b.GetHash()))
				}
				sent = append(sent, s)
			case *message.GetHashesRsp:
				s := vrSent{err: m.Err != nil, seq: m.Seq}
				for _, h := range m.Hashes {
					s.items = append(s.items, vrItemOf(h))
				}
				if !s.err && int(m.Count) != len(m.Hashes) {
					s.items = append(s.items, -2)
				}
				sent = append(sent, s)
			default:
				sent = append(sent, vrSent{err: true, items: []int{-3}})
			}
		}).AnyTimes()
		mockMF := p2pmock.NewMockMoFactory(ctrl)
		mockMo := createDummyMo(ctrl)
		mockMF.EXPECT().NewMsgRequestOrderWithReceiver(gomock.Any(), gomock.Any(), gomock.Any()).Return(mockMo).AnyTimes()
		mockPeer := p2pmock.NewMockRemotePeer(ctrl)
		mockPeer.EXPECT().ID().Return(dummyPeerID).AnyTimes()
		mockPeer.EXPECT().MF().Return(mockMF).AnyTimes()
		mockPeer.EXPECT().SendMessage(gomock.Any()).AnyTimes()
		mockPeer.EXPECT().ConsumeRequest(gomock.Any()).AnyTimes()

		var hashes []message.BlockHash
		for i := 1; i <= in.N; i++ {
			hashes = append(hashes, vrHash(i))
		}
		var feed func(p vrPart)
		var status func() string
		if in.Kind == "blocks" {
			br := NewBlockReceiver(mockActor, mockPeer, seqNo, hashes, 3*time.Second)
			br.StartGet()
			msg := p2pcommon.NewSimpleMsgVal(p2pcommon.GetBlocksResponse, sampleMsgID)
			feed = func(p vrPart) {
				body := &types.GetBlockResponse{HasNext: p.HasNext, Status: types.ResultStatus_OK}
				if !p.Ok {
					body.Status = types.ResultStatus_INTERNAL
				}
				for _, it := range p.Items {
					body.Blocks = append(body.Blocks, &types.Block{Hash: vrHash(it), Header: &types.BlockHeader{BlockNo: uint64(it)}})
				}
				br.ReceiveResp(msg, body)
			}
			status = func() string { return statusName[br.status] }
		} else {
			br := NewBlockHashesReceiver(mockActor, mockPeer, seqNo, &message.GetHashes{Seq: seqNo, PrevInfo: &types.BlockInfo{Hash: vrHash(0), No: 0}, Count: uint64(in.N)}, 3*time.Second)
			br.StartGet()
			msg := p2pcommon.NewSimpleMsgVal(p2pcommon.GetHashesResponse, sampleMsgID)
			feed = func(p vrPart) {
				body := &types.GetHashesResponse{HasNext: p.HasNext, Status: types.ResultStatus_OK}
				if !p.Ok {
					body.Status = types.ResultStatus_INTERNAL
				}
				for _, it := range p.Items {
					body.Hashes = append(body.Hashes, vrHash(it))
				}
				br.ReceiveResp(msg, body)
			}
			status = func() string { return statusName[br.status] }
		}
		for si, st := range path.Steps {
			feed(st.Part)
			key := fmt.Sprintf("%s/%d/%d", in.Kind, pi, si)
			replay := map[string]interface{}{"kind": in.Kind, "path": path, "step": si}
			// the property itself
			if len(sent) > 1 {
				res.Violate(map[string]interface{}{"kind": "receiver-second-message", "receiver": in.Kind}, replay,
					"%s receiver sent %d messages to the syncer for one request", in.Kind, len(sent))
				break
			}
			bad := false
			for _, s := range sent {
				if s.seq != seqNo {
					res.Violate(map[string]interface{}{"kind": "receiver-wrong-seq", "receiver": in.Kind}, replay, "message carries sequence %d, request had %d", s.seq, seqNo)
					bad = true
				}
				if !s.err && in.Kind == "blocks" {
					exact := len(s.items) == in.N
					for i := range s.items {
						if s.items[i] != i+1 {
							exact = false
						}
					}
					if !exact {
						res.Violate(map[string]interface{}{"kind": "receiver-inexact-success", "receiver": in.Kind}, replay,
							"blocks receiver reports success with blocks %v, requested 1..%d", s.items, in.N)
						bad = true
					}
				}
				if !s.err && in.Kind == "hashes" && (len(s.items) > in.N || len(s.items) == 0) {
					res.Violate(map[string]interface{}{"kind": "receiver-inexact-success", "receiver": in.Kind}, replay,
						"hashes receiver reports success with %d hashes, requested %d", len(s.items), in.N)
					bad = true
				}
			}
			if bad {
				break
			}
			// conformance with the model state
			exp := st.Exp
			ok := status() == exp.Status && len(sent) == len(exp.Sent)
			for i := 0; ok && i < len(sent); i++ {
				if sent[i].err != (len(exp.Sent[i]) == 0) {
					ok = false
				} else if !sent[i].err && fmt.Sprint(sent[i].items) != fmt.Sprint(exp.Sent[i]) {
					ok = false
				}
			}
			res.Count(key)
			if !ok {
				divergences++
				res.Note("DIVERGENCE %s receiver after part %+v (path %d step %d): status=%s messages=%+v; model: status=%s messages=%v", in.Kind, st.Part, pi, si, status(), sent, exp.Status, exp.Sent)
				break
			}
		}
		if res.NumViolations() >= 20 {
			break
		}
	}
}
