//go:build verif

package v200

// Conformance harness for spec/p2p/Handshake.tla (C18 b), protocol version 2.0.0: every finished run
// of the TLC model is replayed on the real V200Handshaker over the real V030 framing, with a
// scripted remote side (internal/verifp2p).

import (
	"testing"

	"github.com/aergoio/aergo-lib/log"
	"github.com/aergoio/aergo/v2/internal/verifkit"
	"github.com/aergoio/aergo/v2/internal/verifp2p"
	"github.com/aergoio/aergo/v2/p2p/p2pcommon"
)

func TestVerifHandshakeV200(t *testing.T) {
	if !verifkit.Enabled() {
		t.Skip("run by bin/vcheck")
	}
	var in verifp2p.HsInput
	if err := verifkit.ReadInput(&in); err != nil {
		t.Fatal(err)
	}
	res := verifkit.NewResult()
	defer func() {
		if err := res.Write(); err != nil {
			t.Fatal(err)
		}
	}()
	logger := log.NewLogger("verif.hs")
	verifp2p.RunHandshakeCases(&in, res, 1812, func(ver string, w *verifp2p.World, conn *verifp2p.Conn) p2pcommon.VersionedHandshaker {
		if ver != "v200" {
			return nil
		}
		return NewV200VersionedHS(verifp2p.IS{W: w}, logger, verifp2p.VM{W: w}, nil, w.RemoteID, conn, w.Genesis)
	})
}
