//go:build verif

package p2p

// Conformance harness for spec/p2p/BlockRecv.tla (C18 c, p2p side): every transition of the TLC model
// (intended design: content that does not hash to the announced identifier is discarded without trace)
// and seeded walks through it are replayed on the real receive paths
//   BlockProducedNotice  -> subproto.blockProducedNoticeHandler -> syncManager.HandleBlockProducedNotice
//   NewBlockNotice       -> subproto.newBlockNoticeHandler      -> syncManager.HandleNewBlockNotice
//   GetBlocksResponse    -> subproto.blockResponseHandler       -> syncManager.HandleGetBlockResponse
//                                                               -> BlocksChunkReceiver.ReceiveResp / handleInWaiting
// with real blocks (forged = Hash field of one block next to the header of another / an altered header).
// Observed: AddBlock requests to the chain service, GetBlockInfos requests, the notice cache, the
// receiver's status / offset / kept blocks and its answer to the syncer.

import (
	"bytes"
	"encoding/hex"
	"fmt"
	"math/rand"
	"runtime"
	"sort"
	"sync"
	"testing"
	"time"

	"github.com/aergoio/aergo-lib/log"
	"github.com/aergoio/aergo/v2/chain"
	"github.com/aergoio/aergo/v2/internal/verifkit"
	"github.com/aergoio/aergo/v2/p2p/p2pcommon"
	"github.com/aergoio/aergo/v2/p2p/p2putil"
	"github.com/aergoio/aergo/v2/p2p/subproto"
	"github.com/aergoio/aergo/v2/types"
	"github.com/aergoio/aergo/v2/types/message"
	"github.com/libp2p/go-libp2p/core/crypto"
)

// ---------------------------------------------------------------- input

type brItem struct {
	Ann string `json:"ann"` // a | b | x | none
	Hdr string `json:"hdr"` // a | b | x
}

type brRsp struct {
	K      string   `json:"k"` // none | ok | err
	Blocks []brItem `json:"blocks"`
}

type brState struct {
	Cache []string `json:"cache"`
	OutF  []brItem `json:"outF"`
	OutA  []string `json:"outA"`
	Req   []string `json:"req"`
	Off   int      `json:"off"`
	Got   []brItem `json:"got"`
	Rstat string   `json:"rstat"`
	Rsp   brRsp    `json:"rsp"`
}

type brAct struct {
	Name    string   `json:"name"` // BPNotice | NewBlockNotice | GetBlockRsp | StartGet | Chunk
	It      *brItem  `json:"it,omitempty"`
	Auth    bool     `json:"auth,omitempty"`
	ID      string   `json:"id,omitempty"`
	Known   bool     `json:"known,omitempty"`
	Its     []brItem `json:"its,omitempty"`
	Ok      bool     `json:"ok,omitempty"`
	HasNext bool     `json:"hasNext,omitempty"`
	Req     []string `json:"req,omitempty"`
}

type brTransition struct {
	Src brState `json:"src"`
	Act brAct   `json:"act"`
	Dst brState `json:"dst"`
}

type brFamily struct {
	Alt     string `json:"alt"`      // how the header "x" is made: "foreign" or the name of the header field of block a that is altered
	BodyAlt bool   `json:"body_alt"` // genuine blocks are delivered with a replaced body (not this layer's business)
	Agent   bool   `json:"agent"`    // notices go through the handler of an agent node (toAgentBPNoticeHandler)
	Salt    int64  `json:"salt"`
}

type brScenario struct {
	Name string  `json:"name"`
	Acts []brAct `json:"acts"`
}

type brInput struct {
	Transitions []brTransition `json:"transitions"`
	Walks       [][]int        `json:"walks"` // indices into Transitions, chained (dst of one = src of the next, per component)
	Families    []brFamily     `json:"families"`
	Scenarios   []brScenario   `json:"scenarios"` // TLC counterexamples of the as-coded model + hand-written attack orders
}

// ---------------------------------------------------------------- the concrete world of one family

type brWorld struct {
	fam    brFamily
	hdr    map[string]*types.BlockHeader // a, b, x
	body   map[string]*types.BlockBody
	id     map[string][]byte // digest of hdr[k]
	bpid   map[string]types.PeerID
	idName map[string]string // hex digest -> a | b | x
	other  types.PeerID
}

func digestOf(h *types.BlockHeader) []byte {
	return (&types.Block{Header: h}).BlockHash() // Hash field empty: computed from the header
}

func brKey() (crypto.PrivKey, []byte, types.PeerID) {
	k, pub, err := crypto.GenerateKeyPair(crypto.Secp256k1, 256)
	if err != nil {
		panic(err)
	}
	pb, err := crypto.MarshalPublicKey(pub)
	if err != nil {
		panic(err)
	}
	id, _ := types.IDFromPrivateKey(k)
	return k, pb, id
}

func rnd(rng *rand.Rand, n int) []byte {
	b := make([]byte, n)
	rng.Read(b)
	return b
}

func newHeader(rng *rand.Rand, no uint64, prev []byte, pub []byte) *types.BlockHeader {
	cid, _ := (&types.ChainID{Version: 3, Magic: "verif.c18", Consensus: "dpos"}).Bytes()
	return &types.BlockHeader{ChainID: cid, PrevBlockHash: prev, BlockNo: no, Timestamp: 1700000000000000000 + int64(no), BlocksRootHash: rnd(rng, 32),
		TxsRootHash: rnd(rng, 32), ReceiptsRootHash: rnd(rng, 32), Confirms: no / 2, PubKey: pub, CoinbaseAccount: rnd(rng, 33), Sign: rnd(rng, 70),
		Consensus: rnd(rng, 8)}
}

func newBody(rng *rand.Rand, n int) *types.BlockBody {
	b := &types.BlockBody{}
	for i := 0; i < n; i++ {
		tx := types.NewTx()
		tx.Body.Nonce = uint64(rng.Intn(1000))
		tx.Body.Account = rnd(rng, 33)
		tx.Body.Recipient = rnd(rng, 33)
		tx.Hash = tx.CalculateTxHash()
		b.Txs = append(b.Txs, tx)
	}
	return b
}

var headerFields = []string{"ChainID", "PrevBlockHash", "BlockNo", "Timestamp", "BlocksRootHash", "TxsRootHash", "ReceiptsRootHash", "Confirms",
	"PubKey", "CoinbaseAccount", "Sign", "Consensus"}

func newBrWorld(f brFamily) *brWorld {
	rng := verifkit.Rng(4000 + f.Salt)
	w := &brWorld{fam: f, hdr: map[string]*types.BlockHeader{}, body: map[string]*types.BlockBody{}, id: map[string][]byte{},
		bpid: map[string]types.PeerID{}, idName: map[string]string{}}
	_, pubA, _ := brKey()
	_, pubB, _ := brKey()
	_, pubX, _ := brKey()
	_, _, w.other = brKey()
	w.hdr["a"] = newHeader(rng, 101, rnd(rng, 32), pubA)
	w.hdr["b"] = newHeader(rng, 102, digestOf(w.hdr["a"]), pubB)
	switch f.Alt {
	case "foreign":
		w.hdr["x"] = newHeader(rng, 101, rnd(rng, 32), pubX)
	default:
		x := *w.hdr["a"] // shallow copy of a's header, one field altered
		h := &types.BlockHeader{ChainID: x.ChainID, PrevBlockHash: x.PrevBlockHash, BlockNo: x.BlockNo, Timestamp: x.Timestamp,
			BlocksRootHash: x.BlocksRootHash, TxsRootHash: x.TxsRootHash, ReceiptsRootHash: x.ReceiptsRootHash, Confirms: x.Confirms,
			PubKey: x.PubKey, CoinbaseAccount: x.CoinbaseAccount, Sign: x.Sign, Consensus: x.Consensus}
		flip := func(b []byte) []byte {
			c := append([]byte{}, b...)
			c[rng.Intn(len(c))] ^= 1 << uint(rng.Intn(8))
			return c
		}
		switch f.Alt {
		case "ChainID":
			h.ChainID = flip(h.ChainID)
		case "PrevBlockHash":
			h.PrevBlockHash = flip(h.PrevBlockHash)
		case "BlockNo":
			h.BlockNo++
		case "Timestamp":
			h.Timestamp++
		case "BlocksRootHash":
			h.BlocksRootHash = flip(h.BlocksRootHash)
		case "TxsRootHash":
			h.TxsRootHash = flip(h.TxsRootHash)
		case "ReceiptsRootHash":
			h.ReceiptsRootHash = flip(h.ReceiptsRootHash)
		case "Confirms":
			h.Confirms++
		case "PubKey":
			h.PubKey = pubX
		case "CoinbaseAccount":
			h.CoinbaseAccount = flip(h.CoinbaseAccount)
		case "Sign":
			h.Sign = flip(h.Sign)
		case "Consensus":
			h.Consensus = flip(h.Consensus)
		default:
			panic("unknown family " + f.Alt)
		}
		w.hdr["x"] = h
	}
	for _, k := range []string{"a", "b", "x"} {
		w.body[k] = newBody(rng, 1+rng.Intn(3))
		w.id[k] = digestOf(w.hdr[k])
		w.idName[hex.EncodeToString(w.id[k])] = k
		id, err := w.hdr[k].BPID()
		if err != nil {
			panic(err)
		}
		w.bpid[k] = id
	}
	if len(w.idName) != 3 {
		panic("digest collision between the blocks of the family: the altered field is not covered by the digest? " + f.Alt)
	}
	return w
}

func (w *brWorld) block(it brItem, rng *rand.Rand) *types.Block {
	// fresh copies: the code under test may fill in the Hash field
	h := *w.hdr[it.Hdr]
	hc := &types.BlockHeader{ChainID: h.ChainID, PrevBlockHash: h.PrevBlockHash, BlockNo: h.BlockNo, Timestamp: h.Timestamp,
		BlocksRootHash: h.BlocksRootHash, TxsRootHash: h.TxsRootHash, ReceiptsRootHash: h.ReceiptsRootHash, Confirms: h.Confirms,
		PubKey: h.PubKey, CoinbaseAccount: h.CoinbaseAccount, Sign: h.Sign, Consensus: h.Consensus}
	b := &types.Block{Header: hc, Body: w.body[it.Hdr]}
	if w.fam.BodyAlt {
		b.Body = newBody(rng, 1+rng.Intn(2))
	}
	if it.Ann != "none" {
		b.Hash = append([]byte{}, w.id[it.Ann]...)
	}
	return b
}

// abstract view of a real block
func (w *brWorld) itemOf(b *types.Block) brItem {
	it := brItem{Ann: "?", Hdr: "?"}
	if len(b.GetHash()) == 0 {
		it.Ann = "none"
	} else if n, ok := w.idName[hex.EncodeToString(b.GetHash())]; ok {
		it.Ann = n
	}
	if b.GetHeader() != nil {
		if n, ok := w.idName[hex.EncodeToString(digestOf(b.GetHeader()))]; ok {
			it.Hdr = n
		}
	}
	return it
}

func forgedBlock(b *types.Block) bool {
	if b == nil {
		return false
	}
	return len(b.GetHash()) != 0 && (b.GetHeader() == nil || !bytes.Equal(b.GetHash(), digestOf(b.GetHeader())))
}

// ---------------------------------------------------------------- stubs around the code under test

type brActor struct {
	p2pcommon.ActorService
	mu    sync.Mutex
	w     *brWorld
	known map[string]bool // ids the chain has
	fwd   []*types.Block
	asked [][]byte
	rsps  []*message.GetBlockChunksRsp
	odd   []string
}

func (a *brActor) SendRequest(actorName string, msg interface{}) {
	a.mu.Lock()
	defer a.mu.Unlock()
	switch m := msg.(type) {
	case *message.AddBlock:
		if actorName == message.ChainSvc {
			a.fwd = append(a.fwd, m.Block)
			return
		}
	case *message.GetBlockInfos:
		if actorName == message.P2PSvc {
			for _, h := range m.Hashes {
				a.asked = append(a.asked, []byte(h))
			}
			return
		}
	}
	a.odd = append(a.odd, fmt.Sprintf("SendRequest(%s, %T)", actorName, msg))
}

func (a *brActor) TellRequest(actorName string, msg interface{}) {
	a.mu.Lock()
	defer a.mu.Unlock()
	if m, ok := msg.(*message.GetBlockChunksRsp); ok && actorName == message.SyncerSvc {
		a.rsps = append(a.rsps, m)
		return
	}
	a.odd = append(a.odd, fmt.Sprintf("TellRequest(%s, %T)", actorName, msg))
}

func (a *brActor) GetChainAccessor() types.ChainAccessor { return brChain{a: a} }

type brChain struct {
	types.ChainAccessor
	a *brActor
}

func (c brChain) GetBlock(hash []byte) (*types.Block, error) {
	if n, ok := c.a.w.idName[hex.EncodeToString(hash)]; ok && c.a.known[n] {
		return &types.Block{Hash: hash, Header: c.a.w.hdr[n]}, nil
	}
	return nil, fmt.Errorf("not found")
}

type brMo struct {
	p2pcommon.MsgOrder
	id p2pcommon.MsgID
}

func (m brMo) GetMsgID() p2pcommon.MsgID { return m.id }

type brMF struct {
	p2pcommon.MoFactory
	peer *brPeer
}

func (f brMF) NewMsgRequestOrderWithReceiver(r p2pcommon.ResponseReceiver, p p2pcommon.SubProtocol, m p2pcommon.MessageBody) p2pcommon.MsgOrder {
	id := p2pcommon.NewMsgID()
	f.peer.mu.Lock()
	f.peer.receivers[id] = r
	f.peer.mu.Unlock()
	return brMo{id: id}
}

type brPeer struct {
	p2pcommon.RemotePeer
	mu        sync.Mutex
	id        types.PeerID
	role      types.PeerRole
	receivers map[p2pcommon.MsgID]p2pcommon.ResponseReceiver // nil receiver: pass through to the legacy handler
	consumed  []p2pcommon.MsgID
}

func newBrPeer(id types.PeerID) *brPeer {
	return &brPeer{id: id, role: types.PeerRole_Watcher, receivers: map[p2pcommon.MsgID]p2pcommon.ResponseReceiver{}}
}

func (p *brPeer) ID() types.PeerID             { return p.id }
func (p *brPeer) Name() string                 { return "verif-peer" }
func (p *brPeer) AcceptedRole() types.PeerRole { return p.role }
func (p *brPeer) RemoteInfo() p2pcommon.RemoteInfo {
	return p2pcommon.RemoteInfo{Meta: p2pcommon.PeerMeta{ID: p.id}, Zone: p2pcommon.InternalZone}
}
func (p *brPeer) UpdateLastNotice(blkHash types.BlockID, blkNumber types.BlockNo)    {}
func (p *brPeer) UpdateBlkCache(blkHash types.BlockID, blkNumber types.BlockNo) bool { return false }
func (p *brPeer) SendMessage(msg p2pcommon.MsgOrder)                                 {}
func (p *brPeer) MF() p2pcommon.MoFactory                                            { return brMF{peer: p} }
func (p *brPeer) ConsumeRequest(id p2pcommon.MsgID) p2pcommon.MsgOrder {
	p.mu.Lock()
	defer p.mu.Unlock()
	p.consumed = append(p.consumed, id)
	delete(p.receivers, id)
	return nil
}

// as remotePeerImpl.GetReceiver: unknown request id -> swallowed; request without receiver -> legacy handler
func (p *brPeer) GetReceiver(id p2pcommon.MsgID) p2pcommon.ResponseReceiver {
	p.mu.Lock()
	defer p.mu.Unlock()
	r, found := p.receivers[id]
	if !found {
		return func(p2pcommon.Message, p2pcommon.MessageBody) bool { return true }
	}
	if r == nil {
		return func(p2pcommon.Message, p2pcommon.MessageBody) bool { return false }
	}
	return r
}

type brIS struct {
	p2pcommon.InternalService
}

func (brIS) LocalSettings() p2pcommon.LocalSettings { return p2pcommon.LocalSettings{} }

type brCM struct {
	p2pcommon.CertificateManager
}

func (brCM) CanHandle(bpID types.PeerID) bool { return false }

// ---------------------------------------------------------------- one node under test

type brNode struct {
	w     *brWorld
	actor *brActor
	sm    *syncManager
	peer  *brPeer // the peer the chunk receiver talks to
	br    *BlocksChunkReceiver
	req   []string
	reqID p2pcommon.MsgID
	rng   *rand.Rand
	log   *log.Logger
}

var brLogger = log.NewLogger("verif.c18")

func newBrNode(w *brWorld, rng *rand.Rand) *brNode {
	n := &brNode{w: w, rng: rng, log: brLogger}
	n.actor = &brActor{w: w, known: map[string]bool{}}
	n.sm = newSyncManager(n.actor, nil, brLogger).(*syncManager)
	n.sm.tm.fcTicker.Stop() // the tx side is not started
	n.peer = newBrPeer(w.other)
	return n
}

func (n *brNode) blockID(name string) types.BlockID { return types.ToBlockID(n.w.id[name]) }

// put the real objects into the model state s
func (n *brNode) load(s *brState) {
	for _, c := range s.Cache {
		n.sm.blkCache.Add(n.blockID(c), true)
	}
	if s.Rstat != "none" {
		n.startGet(s.Req)
		for i, it := range s.Got {
			n.br.got[i] = n.w.block(it, n.rng)
		}
		n.br.offset = s.Off
		switch s.Rstat {
		case "canceled":
			n.br.status = receiverStatusCanceled
		case "finished":
			n.br.status = receiverStatusFinished
			n.peer.ConsumeRequest(n.reqID)
		}
		n.actor.rsps = nil
	}
}

func (n *brNode) startGet(req []string) {
	hashes := make([]message.BlockHash, len(req))
	for i, r := range req {
		hashes[i] = message.BlockHash(n.w.id[r])
	}
	n.peer = newBrPeer(n.w.other)
	n.br = NewBlockReceiver(n.actor, n.peer, 7, hashes, time.Hour)
	n.br.StartGet()
	n.req = req
	n.reqID = n.br.requestID
}

type brObs struct {
	fwd   []brItem
	fwdB  []*types.Block
	asked []string
	rsp   *message.GetBlockChunksRsp
	nrsp  int
}

func msgVal(sub p2pcommon.SubProtocol, org p2pcommon.MsgID) p2pcommon.Message {
	return p2pcommon.NewLiteMessageValue(sub, p2pcommon.NewMsgID(), org, time.Now().UnixNano())
}

// apply one model action to the real code, through the sub-protocol handlers, from wire bytes
func (n *brNode) apply(a *brAct) (obs brObs, err error) {
	n.actor.mu.Lock()
	n.actor.fwd, n.actor.asked, n.actor.rsps = nil, nil, nil
	n.actor.mu.Unlock()
	defer func() {
		if r := recover(); r != nil {
			buf := make([]byte, 3000)
			buf = buf[:runtime.Stack(buf, false)]
			err = fmt.Errorf("panic: %v\n%s", r, buf)
		}
	}()
	handle := func(h p2pcommon.MessageHandler, sub p2pcommon.SubProtocol, org p2pcommon.MsgID, body p2pcommon.MessageBody) error {
		raw, e := p2putil.MarshalMessageBody(body)
		if e != nil {
			return e
		}
		parsed, e := h.ParsePayload(raw)
		if e != nil {
			return fmt.Errorf("payload does not parse: %v", e)
		}
		m := msgVal(sub, org)
		if e := h.CheckAuth(m, parsed); e != nil {
			return nil // refused before Handle
		}
		h.Handle(m, parsed)
		return nil
	}
	switch a.Name {
	case "BPNotice":
		blk := n.w.block(*a.It, n.rng)
		sender := n.w.other
		if a.Auth {
			sender = n.w.bpid[a.It.Hdr]
		}
		peer := newBrPeer(sender)
		var h p2pcommon.MessageHandler
		if n.w.fam.Agent {
			h = subproto.NewAgentBlockProducedNoticeHandler(nil, peer, brLogger, n.actor, n.sm, brCM{})
		} else {
			h = subproto.NewBlockProducedNoticeHandler(brIS{}, nil, peer, brLogger, n.actor, n.sm)
		}
		err = handle(h, p2pcommon.BlockProducedNotice, p2pcommon.EmptyID,
			&types.BlockProducedNotice{ProducerID: []byte(n.w.bpid[a.It.Hdr]), BlockNo: blk.Header.BlockNo, Block: blk})
	case "NewBlockNotice":
		n.actor.known = map[string]bool{a.ID: a.Known}
		peer := newBrPeer(n.w.other)
		h := subproto.NewNewBlockNoticeHandler(nil, peer, brLogger, n.actor, n.sm)
		err = handle(h, p2pcommon.NewBlockNotice, p2pcommon.EmptyID, &types.NewBlockNotice{BlockHash: n.w.id[a.ID], BlockNo: n.w.hdr[a.ID].BlockNo})
	case "GetBlockRsp":
		// the answer to a GetBlockInfos request (request registered without receiver)
		peer := newBrPeer(n.w.other)
		org := p2pcommon.NewMsgID()
		peer.receivers[org] = nil
		h := subproto.NewBlockRespHandler(nil, peer, brLogger, n.actor, n.sm)
		resp := &types.GetBlockResponse{Status: types.ResultStatus_OK}
		if !a.Ok {
			resp.Status = types.ResultStatus_NOT_FOUND
		}
		for _, it := range a.Its {
			resp.Blocks = append(resp.Blocks, n.w.block(it, n.rng))
		}
		err = handle(h, p2pcommon.GetBlocksResponse, org, resp)
	case "StartGet":
		n.startGet(a.Req)
	case "Chunk":
		h := subproto.NewBlockRespHandler(nil, n.peer, brLogger, n.actor, n.sm)
		resp := &types.GetBlockResponse{Status: types.ResultStatus_OK, HasNext: a.HasNext}
		if !a.Ok {
			resp.Status = types.ResultStatus_INTERNAL
		}
		for _, it := range a.Its {
			resp.Blocks = append(resp.Blocks, n.w.block(it, n.rng))
		}
		err = handle(h, p2pcommon.GetBlocksResponse, n.reqID, resp)
	default:
		err = fmt.Errorf("unknown action %s", a.Name)
	}
	n.actor.mu.Lock()
	defer n.actor.mu.Unlock()
	for _, b := range n.actor.fwd {
		obs.fwd = append(obs.fwd, n.w.itemOf(b))
		obs.fwdB = append(obs.fwdB, b)
	}
	for _, h := range n.actor.asked {
		name, ok := n.w.idName[hex.EncodeToString(h)]
		if !ok {
			name = "?"
		}
		obs.asked = append(obs.asked, name)
	}
	obs.nrsp = len(n.actor.rsps)
	if obs.nrsp > 0 {
		obs.rsp = n.actor.rsps[obs.nrsp-1]
	}
	return obs, err
}

// the model's projection of the real state
func (n *brNode) observe(prev *brState, obs *brObs, a *brAct) brState {
	s := brState{OutF: obs.fwd, OutA: obs.asked, Rstat: "none", Rsp: brRsp{K: "none"}}
	for _, k := range []string{"a", "b", "x"} {
		if n.sm.blkCache.Contains(n.blockID(k)) {
			s.Cache = append(s.Cache, k)
		}
	}
	if n.br != nil {
		s.Req = n.req
		s.Off = n.br.offset
		for i := 0; i < n.br.offset && i < len(n.br.got); i++ {
			s.Got = append(s.Got, n.w.itemOf(n.br.got[i]))
		}
		switch n.br.status {
		case receiverStatusWaiting:
			s.Rstat = "waiting"
		case receiverStatusCanceled:
			s.Rstat = "canceled"
		default:
			s.Rstat = "finished"
		}
		// the answer to the syncer is sticky in the model
		s.Rsp = prev.Rsp
		if s.Rsp.K == "" || a.Name == "StartGet" {
			s.Rsp = brRsp{K: "none"}
		}
		if obs.rsp != nil {
			if obs.rsp.Err != nil {
				s.Rsp = brRsp{K: "err"}
			} else {
				s.Rsp = brRsp{K: "ok"}
				for _, b := range obs.rsp.Blocks {
					s.Rsp.Blocks = append(s.Rsp.Blocks, n.w.itemOf(b))
				}
			}
		}
	}
	return s
}

func canon(s brState) string {
	c := append([]string{}, s.Cache...)
	sort.Strings(c)
	if s.Rstat != "waiting" && s.Rsp.K != "ok" { // offset and kept blocks of a dead receiver are not observable
		s.Off, s.Got = 0, nil
	}
	return fmt.Sprintf("cache=%v outF=%v outA=%v req=%v off=%d got=%v rstat=%s rsp=%s%v", c, s.OutF, s.OutA, s.Req, s.Off, s.Got, s.Rstat, s.Rsp.K, s.Rsp.Blocks)
}

var brPath = map[string]string{"BPNotice": "bp-notice", "NewBlockNotice": "new-block-notice", "GetBlockRsp": "get-block-response",
	"StartGet": "chunk-receiver", "Chunk": "chunk-receiver"}

func actForged(a *brAct) bool {
	f := func(it brItem) bool { return it.Ann != "none" && it.Ann != it.Hdr }
	if a.It != nil && f(*a.It) {
		return true
	}
	for _, it := range a.Its {
		if f(it) {
			return true
		}
	}
	return false
}

// step applies a, evaluates the property predicates on what the code did and compares with the model's dst.
// Returns the signature kind of the first problem ("" = none) and a description.
func (n *brNode) step(a *brAct, src, dst *brState) (kind, text string, got brState) {
	obs, err := n.apply(a)
	got = n.observe(src, &obs, a)
	if err != nil {
		return "panic-or-error", fmt.Sprintf("%s: %v", a.Name, err), got
	}
	if len(n.actor.odd) > 0 {
		return "unexpected-request", fmt.Sprintf("%s sent %v", a.Name, n.actor.odd), got
	}
	// property: nothing is handed on under an identifier that is not the digest of its header
	for i, b := range obs.fwdB {
		if forgedBlock(b) {
			return "forged-forwarded", fmt.Sprintf("%s handed block [Hash=id(%s), header hashing to id(%s)] to the chain service (AddBlock): Hash %x, header digest %x",
				a.Name, obs.fwd[i].Ann, obs.fwd[i].Hdr, b.GetHash(), digestOf(b.GetHeader())), got
		}
	}
	if obs.rsp != nil && obs.rsp.Err == nil {
		for i, b := range obs.rsp.Blocks {
			if b == nil || b.GetHeader() == nil {
				return "nil-block-forwarded", fmt.Sprintf("the chunk receiver answered the syncer without error but block %d of %d is missing", i+1, len(obs.rsp.Blocks)), got
			}
			if i < len(n.req) && (forgedBlock(b) || !bytes.Equal(digestOf(b.GetHeader()), n.w.id[n.req[i]])) {
				it := n.w.itemOf(b)
				k := "forged-forwarded"
				if !forgedBlock(b) {
					k = "unrequested-forwarded"
				}
				return k, fmt.Sprintf("the chunk receiver answered the syncer's request for id(%s) with block [Hash=id(%s), header hashing to id(%s)]: requested %x, Hash %x, header digest %x",
					n.req[i], it.Ann, it.Hdr, n.w.id[n.req[i]], b.GetHash(), digestOf(b.GetHeader())), got
			}
		}
		if len(obs.rsp.Blocks) != len(n.req) {
			return "wrong-block-count", fmt.Sprintf("the syncer asked for %d blocks and got %d without error", len(n.req), len(obs.rsp.Blocks)), got
		}
	}
	if obs.nrsp > 1 || (obs.nrsp == 1 && a.Name == "Chunk" && (src.Rsp.K == "ok" || src.Rsp.K == "err")) {
		return "syncer-answered-twice", fmt.Sprintf("%s: %d answers to the syncer, previous answer %s", a.Name, obs.nrsp, src.Rsp.K), got
	}
	// conformance with the model
	want := *dst
	if canon(got) != canon(want) {
		k := "nonconformance"
		if actForged(a) {
			k = "forged-left-trace"
		}
		return k, fmt.Sprintf("%s %s from [%s]:\n  model: %s\n  code:  %s", a.Name, actString(a), canon(*src), canon(want), canon(got)), got
	}
	return "", "", got
}

func actsString(as []brAct) string {
	var p []string
	for i := range as {
		p = append(p, as[i].Name+actString(&as[i]))
	}
	return fmt.Sprint(p)
}

func actString(a *brAct) string {
	switch a.Name {
	case "BPNotice":
		return fmt.Sprintf("(Hash=id(%s), header %s, authorised=%v)", a.It.Ann, a.It.Hdr, a.Auth)
	case "NewBlockNotice":
		return fmt.Sprintf("(id(%s), known=%v)", a.ID, a.Known)
	case "StartGet":
		return fmt.Sprintf("%v", a.Req)
	}
	return fmt.Sprintf("(%v, hasNext=%v, ok=%v)", a.Its, a.HasNext, a.Ok)
}

// ---------------------------------------------------------------- the test

func TestVerifBlockRecv(t *testing.T) {
	if !verifkit.Enabled() {
		t.Skip("run by bin/vcheck")
	}
	var in brInput
	if err := verifkit.ReadInput(&in); err != nil {
		t.Fatal(err)
	}
	res := verifkit.NewResult()
	defer func() {
		if err := res.Write(); err != nil {
			t.Fatal(err)
		}
	}()
	chain.Init(1<<20, "", false, 1, 1)

	// violations are de-duplicated per signature: a finding is a class of inputs, one replay per class and family
	var vmu sync.Mutex
	seen := map[string]int{}
	violate := func(kind, path string, fam *brFamily, replay map[string]interface{}, text string) {
		key := kind + "|" + path
		vmu.Lock()
		seen[key]++
		first := seen[key] <= 2
		vmu.Unlock()
		if first {
			replay["family"] = fam
			sig := map[string]interface{}{"part": "block-identity", "kind": kind, "path": path}
			switch kind { // the classes that are consequences of the one missing check (DESIGN §6-e)
			case "forged-forwarded", "forged-left-trace", "poisoned":
				sig["cause"] = "hash-field-not-checked-against-header-digest"
			}
			res.Violate(sig, replay, "block identity (%s, header x = %s): %s", path, fam.Alt, text)
		}
	}

	var wg sync.WaitGroup
	sem := make(chan struct{}, runtime.GOMAXPROCS(0))
	for fi := range in.Families {
		fam := &in.Families[fi]
		w := newBrWorld(*fam)
		wg.Add(1)
		sem <- struct{}{}
		go func(fi int) {
			defer wg.Done()
			defer func() { <-sem }()
			// ---- 1. every transition, from a freshly built source state
			for ti := range in.Transitions {
				tr := &in.Transitions[ti]
				rng := verifkit.Rng(int64(fi)*100003 + int64(ti))
				n := newBrNode(w, rng)
				n.load(&tr.Src)
				kind, text, _ := n.step(&tr.Act, &tr.Src, &tr.Dst)
				res.Count(fmt.Sprintf("tr|%d|%d", fi, ti))
				if kind != "" {
					violate(kind, brPath[tr.Act.Name], fam, map[string]interface{}{"transition": tr, "transition_index": ti}, text)
				}
				if fi == 0 && ti%997 == 0 {
					res.Sample(map[string]interface{}{"src": canon(tr.Src), "act": tr.Act.Name + " " + actString(&tr.Act), "dst": canon(tr.Dst)})
				}
			}
			// ---- 2. walks on long-lived objects (notices and receiver interleaved); a walk ends at its first deviation
			for wi, walk := range in.Walks {
				rng := verifkit.Rng(int64(fi)*100019 + int64(wi) + 77)
				n := newBrNode(w, rng)
				cur := brState{Rstat: "none", Rsp: brRsp{K: "none"}}
				for si, ti := range walk {
					tr := &in.Transitions[ti]
					// the walk interleaves two components: the expected state combines the sm part and the receiver part
					want := cur
					if brPath[tr.Act.Name] == "chunk-receiver" {
						want.Req, want.Off, want.Got, want.Rstat, want.Rsp = tr.Dst.Req, tr.Dst.Off, tr.Dst.Got, tr.Dst.Rstat, tr.Dst.Rsp
						want.OutF, want.OutA = nil, nil
					} else {
						want.Cache, want.OutF, want.OutA = tr.Dst.Cache, tr.Dst.OutF, tr.Dst.OutA
					}
					kind, text, _ := n.step(&tr.Act, &cur, &want)
					res.Count(fmt.Sprintf("walk|%d|%d|%d", fi, wi, si))
					if kind != "" {
						var prefix []brAct
						for _, pi := range walk[:si+1] {
							prefix = append(prefix, in.Transitions[pi].Act)
						}
						violate(kind, brPath[tr.Act.Name], fam, map[string]interface{}{"walk": prefix, "walk_index": wi, "step": si}, fmt.Sprintf("walk %d step %d: %s", wi, si, text))
						break
					}
					cur = want
				}
			}
			// ---- 3. attack orders: forged blocks first, then the genuine block / its announcement must still get through
			for _, sc := range in.Scenarios {
				rng := verifkit.Rng(int64(fi)*100043 + 5)
				n := newBrNode(w, rng)
				res.Count(fmt.Sprintf("scenario|%d|%s", fi, sc.Name))
				for si := range sc.Acts {
					a := &sc.Acts[si]
					obs, err := n.apply(a)
					if err != nil {
						violate("panic-or-error", brPath[a.Name], fam, map[string]interface{}{"scenario": sc}, fmt.Sprintf("scenario %s step %d: %v", sc.Name, si, err))
						break
					}
					if si < len(sc.Acts)-1 {
						continue
					}
					switch a.Name {
					case "BPNotice": // the genuine, authorised notice of a block never seen before
						if len(obs.fwd) != 1 || obs.fwd[0] != *a.It {
							violate("poisoned", "bp-notice", fam, map[string]interface{}{"scenario": sc},
								fmt.Sprintf("scenario %s: after the forged notices %v the genuine block id(%s) = %x is NOT handed to the chain service (dropped as a duplicate: the forged notice occupied its identifier in the notice cache)",
									sc.Name, actsString(sc.Acts[:si]), a.It.Ann, n.w.id[a.It.Ann]))
						}
					case "NewBlockNotice":
						if len(obs.asked) != 1 || obs.asked[0] != a.ID {
							violate("poisoned", "new-block-notice", fam, map[string]interface{}{"scenario": sc},
								fmt.Sprintf("scenario %s: after the forged notices %v the announcement of the unknown block id(%s) = %x is ignored (the block is never requested)",
									sc.Name, actsString(sc.Acts[:si]), a.ID, n.w.id[a.ID]))
						}
					case "Chunk":
						if obs.rsp == nil || obs.rsp.Err != nil || len(obs.rsp.Blocks) != len(n.req) {
							violate("poisoned", "chunk-receiver", fam, map[string]interface{}{"scenario": sc},
								fmt.Sprintf("scenario %s: the genuine blocks are not delivered to the syncer after forged ones were refused", sc.Name))
						}
					}
				}
			}
		}(fi)
	}
	wg.Wait()
	vmu.Lock()
	if len(seen) > 0 {
		res.Note("block identity: violations by class (all families): %v", seen)
	}
	vmu.Unlock()
}
