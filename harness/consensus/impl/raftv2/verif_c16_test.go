//go:build verif

package raftv2

// Entry point of the C16 conformance harness (checks/c16.py): one test binary, one input file with the
// TLC-generated transitions of both models (spec/raft/RaftWal.tla, spec/raft/RaftMembership.tla).

import (
	"testing"

	"github.com/aergoio/aergo/v2/internal/verifkit"
	"github.com/rs/zerolog"
)

type c16Input struct {
	Wal    *walInput    `json:"wal"`
	Member *memberInput `json:"member"`
}

func TestVerifC16(t *testing.T) {
	if !verifkit.Enabled() {
		t.Skip("run through bin/vcheck")
	}
	// the code under test logs every operation; only fatal conditions are of interest here
	zerolog.SetGlobalLevel(zerolog.FatalLevel)
	var in c16Input
	if err := verifkit.ReadInput(&in); err != nil {
		t.Fatal(err)
	}
	res := verifkit.NewResult()
	defer func() {
		if err := res.Write(); err != nil {
			t.Fatal(err)
		}
	}()
	if in.Member != nil {
		memberPart(t, in.Member, res)
	}
	if in.Wal != nil {
		walPart(t, in.Wal, res)
	}
}
