//go:build verif

package raftv2

// Entry point of the C16 conformance harness (checks/c16.py): one test binary, one input file with the
// TLC-generated transitions of both models (spec/raft/RaftWal.tla, spec/raft/RaftMembership.tla).

import (
	"encoding/json"
	"os"
	"sort"
	"sync"
	"testing"

	"github.com/aergoio/aergo/v2/internal/verifkit"
	"github.com/rs/zerolog"
)

// inflight keeps the file $VERIF_OUT.inflight up to date with the cases being executed.  The code under test
// calls logger.Fatal (= os.Exit) in many places; when that happens no result file is written, and checks/c16.py
// uses this file together with the fatal log line to report what the node was handling when it exited.
type inflight struct {
	mu   sync.Mutex
	m    map[string]bool
	path string
}

var flight = &inflight{m: map[string]bool{}}

func (f *inflight) begin(key string) {
	f.mu.Lock()
	defer f.mu.Unlock()
	f.m[key] = true
	if f.path == "" {
		return
	}
	keys := make([]string, 0, len(f.m))
	for k := range f.m {
		keys = append(keys, k)
	}
	sort.Strings(keys)
	b, _ := json.Marshal(keys)
	// written aside and renamed: the process may exit (logger.Fatal on another goroutine) at any moment
	if os.WriteFile(f.path+".tmp", b, 0o644) == nil {
		os.Rename(f.path+".tmp", f.path)
	}
}

func (f *inflight) end(key string) {
	f.mu.Lock()
	delete(f.m, key)
	f.mu.Unlock()
}

type c16Input struct {
	Wal    *walInput    `json:"wal"`
	Member *memberInput `json:"member"`
}

func TestVerifC16(t *testing.T) {
	if !verifkit.Enabled() {
		t.Skip("run through bin/vcheck")
	}
	// the code under test logs every operation; only fatal conditions are of interest here
	zerolog.SetGlobalLevel(zerolog.FatalLevel)
	var in c16Input
	if err := verifkit.ReadInput(&in); err != nil {
		t.Fatal(err)
	}
	flight.path = os.Getenv("VERIF_OUT") + ".inflight"
	res := verifkit.NewResult()
	defer func() {
		if err := res.Write(); err != nil {
			t.Fatal(err)
		}
		os.Remove(flight.path)
	}()
	if in.Member != nil {
		memberPart(t, in.Member, res)
	}
	if in.Wal != nil {
		walPart(t, in.Wal, res)
	}
}
