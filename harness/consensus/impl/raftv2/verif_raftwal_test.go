//go:build verif

package raftv2

// Conformance harness for spec/raft/RaftWal.tla (C16a): the raft write-ahead log kept in the chain DB
// (chain/chaindbForRaft.go) as used through WalDB (waldb.go).
//
// Direction A: every transition (state, operation, state', observations') of the TLC-enumerated model is
// replayed on a real ChainDB/WalDB: the source state is built by replaying a shortest path of operations,
// the operation is executed through the public WAL API (with a crash injected after the k-th store commit
// where the model says so), everything is read back, the node is "restarted" (new ChainDB + WalDB on the
// same store) and everything is read back again.
// Direction B: seeded random histories on a store that is really closed and reopened (aergo-lib memorydb
// persisted in a directory; badger in the thorough tier) are recorded as ndjson and validated by TLC
// against RaftWalTrace.tla.

import (
	"bytes"
	"crypto/sha256"
	"encoding/binary"
	"encoding/json"
	"errors"
	"fmt"
	"math/rand"
	"os"
	"path/filepath"
	"reflect"
	"runtime"
	"sort"
	"strconv"
	"strings"
	"sync"
	"testing"

	"github.com/aergoio/aergo-lib/db"
	"github.com/aergoio/aergo/v2/chain"
	"github.com/aergoio/aergo/v2/consensus"
	"github.com/aergoio/aergo/v2/internal/enc/proto"
	"github.com/aergoio/aergo/v2/internal/verifkit"
	"github.com/aergoio/aergo/v2/types"
	raftlib "github.com/aergoio/etcd/raft"
	"github.com/aergoio/etcd/raft/raftpb"
)

// ---------------------------------------------------------------- model values (JSON written by checks/c16.py)

type wEntry struct {
	Term uint64 `json:"term"`
	Kind string `json:"kind"` // block | empty | cc
	Pl   string `json:"pl"`   // block id | "none" | conf-change payload id
}

type wHS struct {
	Term   uint64 `json:"term"`
	Commit uint64 `json:"commit"`
}

type wSnap struct {
	Idx  uint64 `json:"idx"`
	Term uint64 `json:"term"`
}

type wIdent struct {
	Name string `json:"name"`
	Peer string `json:"peer"`
}

// wState is Proj(w) of the spec.
type wState struct {
	Ent   map[string]wEntry `json:"ent"` // index (decimal) -> entry
	Last  uint64            `json:"last"`
	Inv   map[string]uint64 `json:"inv"` // block id -> index
	HS    *wHS              `json:"hs"`
	Snap  *wSnap            `json:"snap"`
	Ident *wIdent           `json:"ident"`
}

type wByBlk struct {
	Idx uint64 `json:"idx"`
	E   wEntry `json:"e"`
}

type wReadAll struct {
	Ident *wIdent  `json:"ident"`
	HS    wHS      `json:"hs"`
	First uint64   `json:"first"`
	Ents  []wEntry `json:"ents"`
}

// wObs is Obs(w) of the spec.
type wObs struct {
	ReadAll   *wReadAll          `json:"readall"` // nil: ReadAll fails
	ByBlk     map[string]*wByBlk `json:"byblk"`
	ByBlkCode map[string]*wByBlk `json:"byblkcode"`
	HasWal    []wIdent           `json:"haswal"`
}

type wAct struct {
	Op     string   `json:"op"` // SaveEntry | WriteSnapshot | WriteIdentity | Clear | Reset | Restart
	HS     *wHS     `json:"hs,omitempty"`
	First  uint64   `json:"first,omitempty"`
	Es     []wEntry `json:"es,omitempty"`
	S      *wSnap   `json:"s,omitempty"`
	Id     *wIdent  `json:"id,omitempty"`
	Term   uint64   `json:"term,omitempty"`
	Commit uint64   `json:"commit,omitempty"`
	K      int      `json:"k"` // store commits performed
	N      int      `json:"n"` // store commits of the complete operation
	Crash  bool     `json:"crash"`
}

type wTransition struct {
	Src int    `json:"src"` // index into States
	Act wAct   `json:"act"`
	Dst int    `json:"dst"`
	Obs wObs   `json:"obs"` // observations of the destination state
	Key string `json:"-"`
}

type walInput struct {
	MaxIdx      uint64        `json:"maxidx"`
	Blks        []string      `json:"blks"`
	Ccs         []string      `json:"ccs"`
	Idents      []wIdent      `json:"idents"`
	States      []wState      `json:"states"` // States[0] is the initial (empty) state
	Transitions []wTransition `json:"transitions"`
	Walks       struct {
		N       int      `json:"n"`
		Len     int      `json:"len"`
		MaxIdx  uint64   `json:"maxidx"`
		Terms   uint64   `json:"terms"`
		Blks    []string `json:"blks"`
		Ccs     []string `json:"ccs"`
		Batch   int      `json:"batch"`
		Badger  int      `json:"badger"` // number of walks on badger
		WorkDir string   `json:"workdir"`
	} `json:"walks"`
}

// ---------------------------------------------------------------- store with commit counting and crash injection

var errCrash = errors.New("verif: injected crash")

// mapDB is a minimal in-memory db.DB that can be cloned (direction A).
type mapDB struct {
	mu sync.Mutex
	m  map[string][]byte
}

func newMapDB() *mapDB { return &mapDB{m: map[string][]byte{}} }
func (d *mapDB) clone() *mapDB {
	d.mu.Lock()
	defer d.mu.Unlock()
	c := newMapDB()
	for k, v := range d.m {
		c.m[k] = v
	}
	return c
}
func (d *mapDB) Type() string { return "verifmap" }
func (d *mapDB) Set(k, v []byte) {
	d.mu.Lock()
	d.m[string(k)] = append([]byte{}, v...)
	d.mu.Unlock()
}
func (d *mapDB) Delete(k []byte) { d.mu.Lock(); delete(d.m, string(k)); d.mu.Unlock() }
func (d *mapDB) Get(k []byte) []byte {
	d.mu.Lock()
	defer d.mu.Unlock()
	return d.m[string(k)]
}
func (d *mapDB) Exist(k []byte) bool {
	d.mu.Lock()
	defer d.mu.Unlock()
	_, ok := d.m[string(k)]
	return ok
}
func (d *mapDB) Iterator(start, end []byte) db.Iterator { panic("verif mapDB: iterator not used by the WAL") }
func (d *mapDB) NewTx() db.Transaction                  { return &mapTx{d: d} }
func (d *mapDB) NewBulk() db.Bulk                       { return &mapTx{d: d} }
func (d *mapDB) Close()                                 {}

type mapOp struct {
	set  bool
	k, v []byte
}
type mapTx struct {
	d    *mapDB
	ops  []mapOp
	done bool
}

func (t *mapTx) Set(k, v []byte) {
	t.ops = append(t.ops, mapOp{true, append([]byte{}, k...), append([]byte{}, v...)})
}
func (t *mapTx) Delete(k []byte) { t.ops = append(t.ops, mapOp{false, append([]byte{}, k...), nil}) }
func (t *mapTx) apply() {
	if t.done {
		panic("verif mapDB: commit twice")
	}
	t.done = true
	t.d.mu.Lock()
	defer t.d.mu.Unlock()
	for _, o := range t.ops {
		if o.set {
			t.d.m[string(o.k)] = o.v
		} else {
			delete(t.d.m, string(o.k))
		}
	}
}
func (t *mapTx) Commit()      { t.apply() }
func (t *mapTx) Flush()       { t.apply() }
func (t *mapTx) Discard()     {}
func (t *mapTx) DiscardLast() {}

// crashDB wraps a store: every commit (Tx.Commit, Bulk.Flush, direct Set/Delete) is one atom; when `limit`
// atoms have been performed the next one panics with errCrash (and so does every later one).
type crashDB struct {
	inner db.DB
	atoms int
	limit int // -1: never crash
}

func (c *crashDB) atom() {
	if c.limit >= 0 && c.atoms >= c.limit {
		panic(errCrash)
	}
	c.atoms++
}
func (c *crashDB) Type() string                           { return c.inner.Type() }
func (c *crashDB) Set(k, v []byte)                        { c.atom(); c.inner.Set(k, v) }
func (c *crashDB) Delete(k []byte)                        { c.atom(); c.inner.Delete(k) }
func (c *crashDB) Get(k []byte) []byte                    { return c.inner.Get(k) }
func (c *crashDB) Exist(k []byte) bool                    { return c.inner.Exist(k) }
func (c *crashDB) Iterator(start, end []byte) db.Iterator { return c.inner.Iterator(start, end) }
func (c *crashDB) NewTx() db.Transaction                  { return &crashTx{c: c, tx: c.inner.NewTx()} }
func (c *crashDB) NewBulk() db.Bulk                       { return &crashBulk{c: c, b: c.inner.NewBulk()} }
func (c *crashDB) Close()                                 { c.inner.Close() }

type crashTx struct {
	c  *crashDB
	tx db.Transaction
}

func (t *crashTx) Set(k, v []byte) { t.tx.Set(k, v) }
func (t *crashTx) Delete(k []byte) { t.tx.Delete(k) }
func (t *crashTx) Commit()         { t.c.atom(); t.tx.Commit() }
func (t *crashTx) Discard()        { t.tx.Discard() }

type crashBulk struct {
	c *crashDB
	b db.Bulk
}

func (t *crashBulk) Set(k, v []byte) { t.b.Set(k, v) }
func (t *crashBulk) Delete(k []byte) { t.b.Delete(k) }
func (t *crashBulk) Flush()          { t.c.atom(); t.b.Flush() }
func (t *crashBulk) DiscardLast()    { t.b.DiscardLast() }

// ---------------------------------------------------------------- concretisation of the abstract values

type walWorld struct {
	maxIdx  uint64
	blks    []string
	ccs     []string
	idents  []wIdent
	block   map[string]*types.Block // block id -> block
	blkData map[string][]byte       // block id -> raft entry data (marshalled block)
	byHash  map[string]string       // block hash -> block id
	ccData  map[string][]byte       // cc payload id -> raft entry data (marshalled ConfChange)
	ccByDat map[string]string
	genesis *types.Genesis
}

func newWalWorld(maxIdx uint64, blks, ccs []string, idents []wIdent) *walWorld {
	ww := &walWorld{maxIdx: maxIdx, blks: blks, ccs: ccs, idents: idents, block: map[string]*types.Block{},
		blkData: map[string][]byte{}, byHash: map[string]string{}, ccData: map[string][]byte{}, ccByDat: map[string]string{}}
	ww.genesis = types.GetTestGenesis()
	gb := ww.genesis.Block()
	for i, b := range blks {
		blk := &types.Block{
			Header: &types.BlockHeader{
				ChainID:       gb.GetHeader().GetChainID(),
				PrevBlockHash: gb.BlockHash(),
				BlockNo:       uint64(i + 1),
				Timestamp:     int64(1700000000000000000 + i),
				Confirms:      0,
			},
			Body: &types.BlockBody{},
		}
		blk.BlockHash() // fixes Hash
		data, err := marshalEntryData(blk)
		if err != nil {
			panic(err)
		}
		ww.block[b] = blk
		ww.blkData[b] = data
		ww.byHash[string(blk.BlockHash())] = b
	}
	for i, c := range ccs {
		m := consensus.Member{MemberAttr: types.MemberAttr{ID: uint64(7000 + i), Name: "ccnode" + c,
			Address: fmt.Sprintf("/ip4/127.0.0.1/tcp/%d", 17000+i), PeerID: []byte(verifPeerID("cc" + c))}}
		ctx, _ := json.Marshal(&m)
		cc := raftpb.ConfChange{ID: uint64(500 + i), Type: raftpb.ConfChangeAddNode, NodeID: m.ID, Context: ctx}
		data, err := cc.Marshal()
		if err != nil {
			panic(err)
		}
		ww.ccData[c] = data
		ww.ccByDat[string(data)] = c
	}
	return ww
}

// verifPeerID is a syntactically valid libp2p peer id (sha2-256 multihash) derived from a label.
func verifPeerID(label string) types.PeerID {
	h := sha256.Sum256([]byte("verif-peer:" + label))
	b := append([]byte{0x12, 0x20}, h[:]...)
	id, err := types.IDFromBytes(b)
	if err != nil {
		panic(err)
	}
	return id
}

func (ww *walWorld) raftEntry(idx uint64, e wEntry) raftpb.Entry {
	switch e.Kind {
	case "block":
		return raftpb.Entry{Type: raftpb.EntryNormal, Term: e.Term, Index: idx, Data: append([]byte{}, ww.blkData[e.Pl]...)}
	case "cc":
		return raftpb.Entry{Type: raftpb.EntryConfChange, Term: e.Term, Index: idx, Data: append([]byte{}, ww.ccData[e.Pl]...)}
	default:
		return raftpb.Entry{Type: raftpb.EntryNormal, Term: e.Term, Index: idx}
	}
}

func hsVote(h wHS) uint64 { return 1000 + h.Term*100 + h.Commit }

func (ww *walWorld) hardState(h *wHS) raftpb.HardState {
	if h == nil {
		return raftpb.HardState{}
	}
	return raftpb.HardState{Term: h.Term, Vote: hsVote(*h), Commit: h.Commit}
}

func (ww *walWorld) snapshot(s wSnap) *raftpb.Snapshot {
	mbrs := []*consensus.Member{{MemberAttr: types.MemberAttr{ID: 11, Name: "snapm1", Address: "/ip4/127.0.0.1/tcp/11001", PeerID: []byte(verifPeerID("snapm1"))}}}
	sd := consensus.NewSnapshotData(mbrs, nil, ww.genesis.Block())
	data, err := sd.Encode()
	if err != nil {
		panic(err)
	}
	return &raftpb.Snapshot{Data: data, Metadata: raftpb.SnapshotMetadata{Index: s.Idx, Term: s.Term,
		ConfState: raftpb.ConfState{Nodes: []uint64{11, 12, 13 + s.Idx}}}}
}

func (ww *walWorld) identity(id wIdent) *consensus.RaftIdentity {
	h := sha256.Sum256([]byte(id.Name + "/" + id.Peer))
	return &consensus.RaftIdentity{ClusterID: 0xC16, ID: binary.LittleEndian.Uint64(h[:8]) | 1, Name: id.Name, PeerID: "peer-" + id.Peer}
}

// ---------------------------------------------------------------- a "node": ChainDB + WalDB on a store

type walNode struct {
	ww    *walWorld
	store *crashDB
	cdb   *chain.ChainDB
	wal   *WalDB
}

// openNode is a (re)start: a new ChainDB and WalDB on the store.
func openNode(ww *walWorld, store *crashDB) (*walNode, error) {
	store.limit = -1
	cdb, err := chain.VerifC16NewChainDB(store)
	if err != nil {
		return nil, err
	}
	if b, _ := cdb.GetBestBlock(); b == nil {
		if err := chain.VerifC16AddGenesis(cdb, ww.genesis); err != nil {
			return nil, err
		}
	}
	return &walNode{ww: ww, store: store, cdb: cdb, wal: NewWalDB(cdb)}, nil
}

// exec runs one operation through the public WAL API, crashing after act.K store commits if act.Crash.
// It returns whether the injected crash happened, the number of commits performed, and the API error.
func (n *walNode) exec(act *wAct) (crashed bool, atoms int, err error) {
	before := n.store.atoms
	n.store.limit = -1
	if act.Crash {
		n.store.limit = before + act.K
	}
	defer func() {
		atoms = n.store.atoms - before
		n.store.limit = -1
		if r := recover(); r != nil {
			if e, ok := r.(error); ok && errors.Is(e, errCrash) {
				crashed = true
				return
			}
			// a panic of the code under test is an answer, not a harness failure
			err = fmt.Errorf("PANIC: %v", r)
		}
	}()
	ww := n.ww
	switch act.Op {
	case "SaveEntry":
		ents := make([]raftpb.Entry, len(act.Es))
		for i, e := range act.Es {
			ents[i] = ww.raftEntry(act.First+uint64(i), e)
		}
		err = n.wal.SaveEntry(ww.hardState(act.HS), ents)
	case "WriteSnapshot":
		err = n.wal.WriteSnapshot(ww.snapshot(*act.S))
	case "WriteIdentity":
		err = n.wal.WriteIdentity(ww.identity(*act.Id))
	case "Clear":
		n.wal.ClearWAL()
	case "Reset":
		err = n.wal.ResetWAL(&types.HardStateInfo{Term: act.Term, Commit: act.Commit})
	case "Restart":
	default:
		panic("unknown op " + act.Op)
	}
	return
}

// ---------------------------------------------------------------- reading everything back

type realObs struct {
	State   wState             `json:"st"`
	ReadAll *wReadAll          `json:"readall"`
	ByBlk   map[string]*wByBlk `json:"byblk"`
	HasWal  []wIdent           `json:"haswal"`
	Problems []string          `json:"problems,omitempty"` // malformed answers (wrong index in entry, undecodable data, ...)
}

func (ww *walWorld) abstractWalEntry(e *consensus.WalEntry) (wEntry, string) {
	switch e.Type {
	case consensus.EntryBlock:
		if b, ok := ww.byHash[string(e.Data)]; ok {
			return wEntry{Term: e.Term, Kind: "block", Pl: b}, ""
		}
		return wEntry{Term: e.Term, Kind: "block", Pl: "?"}, fmt.Sprintf("entry %d: unknown block hash %x", e.Index, e.Data)
	case consensus.EntryEmpty:
		if len(e.Data) != 0 {
			return wEntry{Term: e.Term, Kind: "empty", Pl: "?"}, fmt.Sprintf("entry %d: empty entry with data", e.Index)
		}
		return wEntry{Term: e.Term, Kind: "empty", Pl: "none"}, ""
	case consensus.EntryConfChange:
		if c, ok := ww.ccByDat[string(e.Data)]; ok {
			return wEntry{Term: e.Term, Kind: "cc", Pl: c}, ""
		}
		return wEntry{Term: e.Term, Kind: "cc", Pl: "?"}, fmt.Sprintf("entry %d: unknown conf change data", e.Index)
	}
	return wEntry{Term: e.Term, Kind: fmt.Sprintf("type%d", e.Type), Pl: "?"}, fmt.Sprintf("entry %d: unknown type %d", e.Index, e.Type)
}

// abstractRaftEntry maps an entry handed to the consensus library back to the model (the block it carries
// must be the block that was stored, field by field).
func (ww *walWorld) abstractRaftEntry(e *raftpb.Entry) (wEntry, string) {
	switch {
	case e.Type == raftpb.EntryConfChange:
		if c, ok := ww.ccByDat[string(e.Data)]; ok {
			return wEntry{Term: e.Term, Kind: "cc", Pl: c}, ""
		}
		return wEntry{Term: e.Term, Kind: "cc", Pl: "?"}, fmt.Sprintf("raft entry %d: unknown conf change data", e.Index)
	case e.Type == raftpb.EntryNormal && len(e.Data) == 0:
		return wEntry{Term: e.Term, Kind: "empty", Pl: "none"}, ""
	case e.Type == raftpb.EntryNormal:
		blk, err := unmarshalEntryData(e.Data)
		if err != nil {
			return wEntry{Term: e.Term, Kind: "block", Pl: "?"}, fmt.Sprintf("raft entry %d: block does not unmarshal: %v", e.Index, err)
		}
		b, ok := ww.byHash[string(blk.GetHash())]
		if !ok {
			return wEntry{Term: e.Term, Kind: "block", Pl: "?"}, fmt.Sprintf("raft entry %d: unknown block %x", e.Index, blk.GetHash())
		}
		want := ww.block[b]
		if !bytes.Equal(blk.GetHash(), want.GetHash()) || !reflect.DeepEqual(blk.GetHeader().GetBlockNo(), want.GetHeader().GetBlockNo()) ||
			!bytes.Equal(mustEnc(blk), mustEnc(want)) {
			return wEntry{Term: e.Term, Kind: "block", Pl: b}, fmt.Sprintf("raft entry %d: block %s differs from the stored block", e.Index, b)
		}
		return wEntry{Term: e.Term, Kind: "block", Pl: b}, ""
	}
	return wEntry{Term: e.Term, Kind: "?", Pl: "?"}, fmt.Sprintf("raft entry %d: unknown type %v", e.Index, e.Type)
}

func mustEnc(b *types.Block) []byte {
	d, err := proto.Encode(b)
	if err != nil {
		panic(err)
	}
	return d
}

// hsOrigin tells which operation wrote the stored hard state: "save" (SaveEntry: the vote given by the
// harness), "reset" (ResetWAL writes term and commit only), "" (none/unknown).
func hsOrigin(prev string, a *wAct) string {
	switch a.Op {
	case "SaveEntry":
		if a.HS != nil && a.K == a.N {
			return "save"
		}
	case "Clear":
		if a.K >= 1 {
			return ""
		}
	case "Reset":
		if a.K >= 3 {
			return "reset"
		}
		return ""
	}
	return prev
}

func voteOK(origin string, vote uint64, h wHS) bool {
	switch origin {
	case "save":
		return vote == hsVote(h)
	case "reset":
		return vote == 0
	}
	return vote == 0 || vote == hsVote(h)
}

func (n *walNode) observe(origin string) *realObs {
	ww := n.ww
	o := &realObs{State: wState{Ent: map[string]wEntry{}, Inv: map[string]uint64{}}, ByBlk: map[string]*wByBlk{}}
	prob := func(f string, a ...interface{}) { o.Problems = append(o.Problems, fmt.Sprintf(f, a...)) }
	defer func() {
		if r := recover(); r != nil {
			prob("PANIC while reading the WAL back: %v", r)
		}
	}()

	last, err := n.cdb.GetRaftEntryLastIdx()
	if err != nil {
		prob("GetRaftEntryLastIdx: %v", err)
	}
	o.State.Last = last
	// every index of the universe, one beyond it, and one beyond whatever the store reports as last
	top := ww.maxIdx + 1
	if last+1 > top && last < 1<<20 {
		top = last + 1
	}
	for i := uint64(1); i <= top; i++ {
		e, err := n.cdb.GetRaftEntry(i)
		switch {
		case err == nil:
			if e.Index != i {
				prob("GetRaftEntry(%d) has index %d", i, e.Index)
			}
			ae, p := ww.abstractWalEntry(e)
			if p != "" {
				prob("%s", p)
			}
			o.State.Ent[strconv.FormatUint(i, 10)] = ae
		case errors.Is(err, chain.ErrNoWalEntry):
		default:
			prob("GetRaftEntry(%d): %v", i, err)
		}
	}
	for _, b := range ww.blks {
		h := ww.block[b].BlockHash()
		idx, err := n.cdb.GetRaftEntryIndexOfBlock(h)
		if err == nil {
			o.State.Inv[b] = idx
		} else if !errors.Is(err, chain.ErrNoWalEntryForBlock) {
			prob("GetRaftEntryIndexOfBlock(%s): %v", b, err)
		}
		e, err := n.cdb.GetRaftEntryOfBlock(h)
		switch {
		case err == nil:
			ae, p := ww.abstractWalEntry(e)
			if p != "" {
				prob("by-block %s: %s", b, p)
			}
			o.ByBlk[b] = &wByBlk{Idx: e.Index, E: ae}
		case errors.Is(err, chain.ErrNoWalEntryForBlock) || errors.Is(err, chain.ErrNoWalEntry):
			o.ByBlk[b] = nil
		default:
			prob("GetRaftEntryOfBlock(%s): %v", b, err)
		}
		// the body of every block that was ever written stays retrievable (entries are re-materialised from it)
	}
	hs, err := n.cdb.GetHardState()
	switch {
	case err == nil:
		o.State.HS = &wHS{Term: hs.Term, Commit: hs.Commit}
		if !voteOK(origin, hs.Vote, *o.State.HS) {
			prob("hard state vote %d (written by %q; the harness stores vote %d, ResetWAL 0)", hs.Vote, origin, hsVote(*o.State.HS))
		}
	case errors.Is(err, chain.ErrWalNoHardState):
	default:
		prob("GetHardState: %v", err)
	}
	snap, err := n.cdb.GetSnapshot()
	if err != nil {
		prob("GetSnapshot: %v", err)
	} else if snap != nil {
		o.State.Snap = &wSnap{Idx: snap.Metadata.Index, Term: snap.Metadata.Term}
		var sd consensus.SnapshotData
		if err := sd.Decode(snap.Data); err != nil {
			prob("snapshot data does not decode: %v", err)
		} else if !bytes.Equal(sd.Chain.Hash, ww.genesis.Block().BlockHash()) {
			prob("snapshot chain hash %x", sd.Chain.Hash)
		}
		// a snapshot written through WriteSnapshot comes back field by field (ResetWAL builds its own: no members)
		if w := ww.snapshot(*o.State.Snap); len(sd.Members) > 0 || len(snap.Metadata.ConfState.Nodes) > 0 {
			if !reflect.DeepEqual(snap.Metadata.ConfState.Nodes, w.Metadata.ConfState.Nodes) || !bytes.Equal(snap.Data, w.Data) {
				prob("snapshot differs from the one written: conf %v data %s", snap.Metadata.ConfState.Nodes, snap.Data)
			}
		}
	}
	id, err := n.cdb.GetIdentity()
	if err != nil {
		prob("GetIdentity: %v", err)
	} else if id != nil {
		found := false
		for _, q := range ww.idents {
			if w := ww.identity(q); *w == *id {
				o.State.Ident = &wIdent{Name: q.Name, Peer: q.Peer}
				found = true
			}
		}
		if !found {
			o.State.Ident = &wIdent{Name: id.Name, Peer: "?" + id.PeerID}
			prob("identity read back is none of the identities written: %+v", *id)
		}
	}
	for _, q := range ww.idents {
		ok, _ := n.cdb.HasWal(*ww.identity(q))
		if ok {
			o.HasWal = append(o.HasWal, q)
		}
	}
	// ReadAll the way raftServer.restartNode does: with the stored snapshot
	rid, rhs, rents, err := n.wal.ReadAll(snap)
	if err == nil {
		ra := &wReadAll{HS: wHS{Term: rhs.Term, Commit: rhs.Commit}, Ents: []wEntry{}}
		if rid != nil {
			for _, q := range ww.idents {
				if w := ww.identity(q); *w == *rid {
					ra.Ident = &wIdent{Name: q.Name, Peer: q.Peer}
				}
			}
			if ra.Ident == nil {
				ra.Ident = &wIdent{Name: rid.Name, Peer: "?" + rid.PeerID}
			}
		}
		if !voteOK(origin, rhs.Vote, ra.HS) {
			prob("ReadAll: hard state vote %d (written by %q)", rhs.Vote, origin)
		}
		ra.First = 1
		if snap != nil {
			ra.First = snap.Metadata.Index + 1
		}
		for j := range rents {
			if rents[j].Index != ra.First+uint64(j) {
				prob("ReadAll: entry #%d has index %d, expected %d", j, rents[j].Index, ra.First+uint64(j))
			}
			ae, p := ww.abstractRaftEntry(&rents[j])
			if p != "" {
				prob("ReadAll: %s", p)
			}
			ra.Ents = append(ra.Ents, ae)
		}
		o.ReadAll = ra
		// what replayWAL does with it must be accepted by the consensus library's storage
		if p := replayIntoRaftStorage(snap, rhs, rents); p != "" {
			prob("%s", p)
		}
	}
	return o
}

// replayIntoRaftStorage feeds the result of ReadAll into raft's MemoryStorage exactly like raftServer.replayWAL
// and reads the log back from it.
func replayIntoRaftStorage(snap *raftpb.Snapshot, hs *raftpb.HardState, ents []raftpb.Entry) (problem string) {
	defer func() {
		if r := recover(); r != nil {
			problem = fmt.Sprintf("raft MemoryStorage refuses the replayed log: %v", r)
		}
	}()
	ms := raftlib.NewMemoryStorage()
	if snap != nil {
		if err := ms.ApplySnapshot(*snap); err != nil {
			return fmt.Sprintf("raft MemoryStorage.ApplySnapshot: %v", err)
		}
	}
	if err := ms.SetHardState(*hs); err != nil {
		return fmt.Sprintf("raft MemoryStorage.SetHardState: %v", err)
	}
	if err := ms.Append(ents); err != nil {
		return fmt.Sprintf("raft MemoryStorage.Append: %v", err)
	}
	if len(ents) > 0 {
		li, _ := ms.LastIndex()
		if li != ents[len(ents)-1].Index {
			return fmt.Sprintf("raft MemoryStorage last index %d after replay of entries up to %d", li, ents[len(ents)-1].Index)
		}
		fi, _ := ms.FirstIndex()
		got, err := ms.Entries(fi, li+1, 1<<30)
		if err != nil || len(got) != len(ents) {
			return fmt.Sprintf("raft MemoryStorage holds %d entries (err %v) after replay of %d", len(got), err, len(ents))
		}
	}
	return ""
}

// ---------------------------------------------------------------- comparison with the model

func entStr(e wEntry) string { return fmt.Sprintf("%d/%s/%s", e.Term, e.Kind, e.Pl) }

func byBlkStr(r *wByBlk) string {
	if r == nil {
		return "absent"
	}
	return fmt.Sprintf("idx %d %s", r.Idx, entStr(r.E))
}

func identStr(i *wIdent) string {
	if i == nil {
		return "none"
	}
	return i.Name + "/" + i.Peer
}

type walDiff struct {
	Kind string
	Sig  map[string]interface{}
	Text string
}

// compare returns the differences between what the real store returned and the model state/observations.
func (ww *walWorld) compare(o *realObs, st *wState, obs *wObs) []walDiff {
	var ds []walDiff
	add := func(kind string, sig map[string]interface{}, f string, a ...interface{}) {
		if sig == nil {
			sig = map[string]interface{}{}
		}
		sig["kind"] = kind
		ds = append(ds, walDiff{kind, sig, fmt.Sprintf(f, a...)})
	}
	for _, p := range o.Problems {
		add("malformed-answer", nil, "%s", p)
	}
	if o.State.Last != st.Last {
		add("last-index", nil, "GetRaftEntryLastIdx = %d, model %d", o.State.Last, st.Last)
	}
	idxs := map[string]bool{}
	for k := range o.State.Ent {
		idxs[k] = true
	}
	for k := range st.Ent {
		idxs[k] = true
	}
	keys := make([]string, 0, len(idxs))
	for k := range idxs {
		keys = append(keys, k)
	}
	sort.Strings(keys)
	for _, k := range keys {
		r, rok := o.State.Ent[k]
		m, mok := st.Ent[k]
		i, _ := strconv.ParseUint(k, 10, 64)
		switch {
		case rok && !mok && i > st.Last:
			add("truncated-entry-present", nil, "GetRaftEntry(%s) = %s but the entry was removed (model last index %d)", k, entStr(r), st.Last)
		case rok && !mok:
			add("entry-present", nil, "GetRaftEntry(%s) = %s, model: absent", k, entStr(r))
		case !rok && mok:
			add("entry-missing", nil, "GetRaftEntry(%s) absent, model: %s", k, entStr(m))
		case r != m:
			add("entry-mismatch", nil, "GetRaftEntry(%s) = %s, most recently stored: %s", k, entStr(r), entStr(m))
		}
	}
	for _, b := range ww.blks {
		if o.State.Inv[b] != st.Inv[b] {
			add("inverse-index", nil, "GetRaftEntryIndexOfBlock(%s) = %d, model %d", b, o.State.Inv[b], st.Inv[b])
		}
	}
	if !reflect.DeepEqual(o.State.HS, st.HS) {
		add("hard-state", nil, "GetHardState = %+v, model %+v", o.State.HS, st.HS)
	}
	if !reflect.DeepEqual(o.State.Snap, st.Snap) {
		add("snapshot", nil, "GetSnapshot = %+v, model %+v", o.State.Snap, st.Snap)
	}
	if !reflect.DeepEqual(o.State.Ident, st.Ident) {
		add("identity", nil, "GetIdentity = %s, model %s", identStr(o.State.Ident), identStr(st.Ident))
	}
	if obs == nil {
		return ds
	}
	// ReadAll
	switch {
	case o.ReadAll == nil && obs.ReadAll != nil:
		add("readall-fails", nil, "ReadAll fails, model: hands over %d entries from %d", len(obs.ReadAll.Ents), obs.ReadAll.First)
	case o.ReadAll != nil && obs.ReadAll == nil:
		add("readall-succeeds", nil, "ReadAll hands over %d entries from %d, model: must fail (no hard state, hole, or term below the snapshot term)", len(o.ReadAll.Ents), o.ReadAll.First)
	case o.ReadAll != nil:
		r, m := o.ReadAll, obs.ReadAll
		if r.HS != m.HS || !reflect.DeepEqual(r.Ident, m.Ident) {
			add("readall-state", nil, "ReadAll: hard state %+v identity %s, model %+v %s", r.HS, identStr(r.Ident), m.HS, identStr(m.Ident))
		}
		rs, msx := []string{}, []string{}
		for _, e := range r.Ents {
			rs = append(rs, entStr(e))
		}
		for _, e := range m.Ents {
			msx = append(msx, entStr(e))
		}
		if r.First != m.First || strings.Join(rs, ",") != strings.Join(msx, ",") {
			add("readall-log", nil, "ReadAll hands over from %d: [%s], acknowledged log from %d: [%s]", r.First, strings.Join(rs, ","), m.First, strings.Join(msx, ","))
		}
	}
	// by-block lookup: intended = an answer carries the block; as-coded = whatever sits at the recorded index
	for _, b := range ww.blks {
		r, m := o.ByBlk[b], obs.ByBlk[b]
		if reflect.DeepEqual(r, m) {
			continue
		}
		if c := obs.ByBlkCode[b]; reflect.DeepEqual(r, c) && r != nil && (r.E.Kind != "block" || r.E.Pl != b) {
			add("by-block-lookup-returns-other-entry", map[string]interface{}{"cause": "inverse-index-neither-pruned-nor-checked"},
				"GetRaftEntryOfBlock(%s) = %s: the entry does not carry block %s (its own entry was overwritten/removed; the stale inverse key still points at index %d)",
				b, byBlkStr(r), b, r.Idx)
		} else {
			add("by-block-lookup", nil, "GetRaftEntryOfBlock(%s) = %s, model %s", b, byBlkStr(r), byBlkStr(m))
		}
	}
	rh, mh := []string{}, []string{}
	for _, q := range o.HasWal {
		rh = append(rh, identStr(&q))
	}
	for _, q := range obs.HasWal {
		q := q
		mh = append(mh, identStr(&q))
	}
	sort.Strings(rh)
	sort.Strings(mh)
	if strings.Join(rh, ",") != strings.Join(mh, ",") {
		add("haswal", nil, "HasWal true for {%s}, model {%s}", strings.Join(rh, ","), strings.Join(mh, ","))
	}
	return ds
}

// ---------------------------------------------------------------- direction A

type walReplay struct {
	Path  []wAct  `json:"path"` // operations from the empty store to the source state
	Src   wState  `json:"src"`
	Act   wAct    `json:"act"`
	Dst   wState  `json:"dst"`
	Diff  string  `json:"diff"`  // kind of the difference this replay file is about
	Phase string  `json:"phase"` // after-op | after-restart
	Real  *realObs `json:"real,omitempty"`
}

func stateKey(s *wState) string {
	b, _ := json.Marshal(s) // maps are marshalled with sorted keys
	return string(b)
}

// walPart runs directions A and B of the WAL conformance check.
func walPart(t *testing.T, in *walInput, res *verifkit.Result) {
	ww := newWalWorld(in.MaxIdx, in.Blks, in.Ccs, in.Idents)

	// one violation per (kind, phase, op) is reported -- the one with the smallest transition number, so that
	// the report does not depend on goroutine scheduling; all occurrences are counted
	type pending struct {
		ti   int
		sig  map[string]interface{}
		rp   walReplay
		text string
	}
	var vmu sync.Mutex
	seenSig := map[string]int{}
	firstOf := map[string]*pending{}
	report := func(ti int, d walDiff, phase string, rp *walReplay) {
		sig := map[string]interface{}{}
		for k, v := range d.Sig {
			sig[k] = v
		}
		sig["phase"] = phase
		sig["op"] = rp.Act.Op
		if rp.Act.Crash {
			sig["crash_after_commit"] = rp.Act.K
		}
		k, _ := json.Marshal(sig)
		vmu.Lock()
		defer vmu.Unlock()
		seenSig[string(k)]++
		if p, ok := firstOf[string(k)]; !ok || ti < p.ti {
			c := *rp
			c.Phase = phase
			c.Diff = d.Kind
			firstOf[string(k)] = &pending{ti, sig, c, fmt.Sprintf("%s %s (%s): %s", rp.Act.Op, actArgs(&rp.Act), phase, d.Text)}
		}
	}

	// shortest path (sequence of transitions) from the empty state to every state
	out := map[int][]int{}
	for i, tr := range in.Transitions {
		out[tr.Src] = append(out[tr.Src], i)
	}
	pathTo := map[int][]int{0: {}}
	queue := []int{0}
	for len(queue) > 0 {
		s := queue[0]
		queue = queue[1:]
		for _, ti := range out[s] {
			d := in.Transitions[ti].Dst
			if _, ok := pathTo[d]; !ok {
				pathTo[d] = append(append([]int{}, pathTo[s]...), ti)
				queue = append(queue, d)
			}
		}
	}
	srcs := make([]int, 0, len(out))
	for s := range out {
		srcs = append(srcs, s)
	}
	sort.Ints(srcs)

	var wg sync.WaitGroup
	sem := make(chan struct{}, runtime.NumCPU())
	for _, s := range srcs {
		s := s
		path, ok := pathTo[s]
		if !ok {
			res.Note("state %d is not reachable from the initial state in the generated graph", s)
			continue
		}
		wg.Add(1)
		sem <- struct{}{}
		go func() {
			defer func() { <-sem; wg.Done() }()
			// build the source state by replaying the path on an empty store
			fk := fmt.Sprintf("walsrc:%d", s)
			flight.begin(fk)
			defer flight.end(fk)
			base := newMapDB()
			n, err := openNode(ww, &crashDB{inner: base, limit: -1})
			if err != nil {
				panic(err)
			}
			var pacts []wAct
			origin := ""
			for _, ti := range path {
				a := in.Transitions[ti].Act
				pacts = append(pacts, a)
				origin = hsOrigin(origin, &a)
				if _, _, err := n.exec(&a); err != nil {
					res.Note("path operation %s failed: %v", a.Op, err)
				}
				if a.Crash {
					if n, err = openNode(ww, &crashDB{inner: base, limit: -1}); err != nil {
						panic(err)
					}
				}
			}
			srcSt := &in.States[s]
			if ds := ww.compare(n.observe(origin), srcSt, nil); len(ds) > 0 {
				// the state is wrong before the transition under test: attributed to the last step of the path
				// (that transition is itself under test from its own source and reports the details)
				res.Note("source state %d not reproduced by its path (%d differences, first: %s)", s, len(ds), ds[0].Text)
				return
			}
			one := func(ti int) {
				tr := &in.Transitions[ti]
				key := fmt.Sprintf("wal:%d", ti)
				flight.begin(key)
				defer flight.end(key)
				store := &crashDB{inner: base.clone(), limit: -1}
				nd, err := openNode(ww, store)
				if err != nil {
					panic(err)
				}
				act := tr.Act
				rp := &walReplay{Path: pacts, Src: *srcSt, Act: act, Dst: in.States[tr.Dst]}
				res.Count(fmt.Sprintf("tr:%d", ti))
				if ti%997 == 0 {
					res.Sample(map[string]interface{}{"src": srcSt, "act": act, "dst": in.States[tr.Dst]})
				}
				crashed, atoms, err := nd.exec(&act)
				if err != nil {
					report(ti, walDiff{"api-error", map[string]interface{}{"kind": "api-error"}, fmt.Sprintf("returned error %v", err)}, "after-op", rp)
					return
				}
				if act.Crash && !crashed {
					report(ti, walDiff{"commit-structure", map[string]interface{}{"kind": "commit-structure"},
						fmt.Sprintf("the operation completed with %d store commits, the model has %d (crash point %d never reached)", atoms, act.N, act.K)}, "after-op", rp)
					return
				}
				dst := &in.States[tr.Dst]
				org := hsOrigin(origin, &act)
				if !crashed {
					// the live node answers from the new state
					o1 := nd.observe(org)
					rp.Real = o1
					for _, d := range ww.compare(o1, dst, &tr.Obs) {
						report(ti, d, "after-op", rp)
					}
				}
				// restart: a new ChainDB/WalDB on the store
				nd2, err := openNode(ww, store)
				if err != nil {
					report(ti, walDiff{"restart-fails", map[string]interface{}{"kind": "restart-fails"}, err.Error()}, "after-restart", rp)
					return
				}
				o2 := nd2.observe(org)
				rp2 := *rp
				rp2.Real = o2
				phase := "after-restart"
				if crashed {
					phase = "after-crash"
				}
				for _, d := range ww.compare(o2, dst, &tr.Obs) {
					report(ti, d, phase, &rp2)
				}
			}
			for _, ti := range out[s] {
				one(ti)
			}
		}()
	}
	wg.Wait()
	sigKeys := make([]string, 0, len(firstOf))
	for k := range firstOf {
		sigKeys = append(sigKeys, k)
	}
	sort.Strings(sigKeys)
	for _, k := range sigKeys {
		p := firstOf[k]
		res.Violate(p.sig, &p.rp, "%s", p.text)
		if c := seenSig[k]; c > 1 {
			res.Note("%d occurrences of %s", c, k)
		}
	}

	// ---- direction B: recorded random histories on stores that are really closed and reopened
	if in.Walks.N > 0 {
		runWalWalks(t, in, res)
	}
}

func actArgs(a *wAct) string {
	switch a.Op {
	case "SaveEntry":
		es := []string{}
		for _, e := range a.Es {
			es = append(es, entStr(e))
		}
		h := "-"
		if a.HS != nil {
			h = fmt.Sprintf("%d/%d", a.HS.Term, a.HS.Commit)
		}
		c := ""
		if a.Crash {
			c = fmt.Sprintf(" crash after commit %d of %d", a.K, a.N)
		}
		return fmt.Sprintf("first=%d entries=[%s] hardstate=%s%s", a.First, strings.Join(es, ","), h, c)
	case "WriteSnapshot":
		return fmt.Sprintf("idx=%d term=%d", a.S.Idx, a.S.Term)
	case "WriteIdentity":
		return identStr(a.Id)
	case "Reset":
		c := ""
		if a.Crash {
			c = fmt.Sprintf(" crash after commit %d of %d", a.K, a.N)
		}
		return fmt.Sprintf("term=%d commit=%d%s", a.Term, a.Commit, c)
	case "Clear":
		if a.Crash {
			return fmt.Sprintf("crash after commit %d of %d", a.K, a.N)
		}
	}
	return ""
}

// ---------------------------------------------------------------- direction B: random histories, recorded

type traceEvent struct {
	Ev    string   `json:"ev"` // Op | NewWalk
	Op    string   `json:"op,omitempty"`
	HS    []wHS    `json:"hs"`    // <<>> or <<h>>
	First uint64   `json:"first"`
	Es    []wEntry `json:"es"`
	S     []wSnap  `json:"s"`
	Id    []wIdent `json:"id"`
	Term  uint64   `json:"term"`
	Commit uint64  `json:"commit"`
	K     int      `json:"k"`
	// what the real store answered after the operation and a real reopen
	Ent    []traceEnt   `json:"ent"`
	Last   uint64       `json:"last"`
	Inv    []traceInv   `json:"inv"`
	RHS    []wHS        `json:"rhs"`
	RSnap  []wSnap      `json:"rsnap"`
	RIdent []wIdent     `json:"rident"`
	ReadAll []traceReadAll `json:"readall"`
	ByBlk  []traceByBlk `json:"byblk"`
	HasWal []wIdent     `json:"haswal"`
	Store  string       `json:"store"`
}
type traceEnt struct {
	I uint64 `json:"i"`
	E wEntry `json:"e"`
}
type traceInv struct {
	B string `json:"b"`
	I uint64 `json:"i"`
}
type traceByBlk struct {
	B string       `json:"b"`
	R []wByBlkFlat `json:"r"`
}
type wByBlkFlat struct {
	Idx uint64 `json:"idx"`
	E   wEntry `json:"e"`
}
type traceReadAll struct {
	Ident []wIdent `json:"ident"`
	HS    wHS      `json:"hs"`
	First uint64   `json:"first"`
	Ents  []wEntry `json:"ents"`
}

func opt[T any](p *T) []T {
	if p == nil {
		return []T{}
	}
	return []T{*p}
}

func (ev *traceEvent) fill(ww *walWorld, o *realObs) {
	ev.Ent = []traceEnt{}
	keys := []int{}
	for k := range o.State.Ent {
		i, _ := strconv.Atoi(k)
		keys = append(keys, i)
	}
	sort.Ints(keys)
	for _, i := range keys {
		ev.Ent = append(ev.Ent, traceEnt{uint64(i), o.State.Ent[strconv.Itoa(i)]})
	}
	ev.Last = o.State.Last
	ev.Inv = []traceInv{}
	ev.ByBlk = []traceByBlk{}
	for _, b := range ww.blks {
		if i, ok := o.State.Inv[b]; ok {
			ev.Inv = append(ev.Inv, traceInv{b, i})
		}
		r := []wByBlkFlat{}
		if x := o.ByBlk[b]; x != nil {
			r = append(r, wByBlkFlat{x.Idx, x.E})
		}
		ev.ByBlk = append(ev.ByBlk, traceByBlk{b, r})
	}
	ev.RHS = opt(o.State.HS)
	ev.RSnap = opt(o.State.Snap)
	ev.RIdent = opt(o.State.Ident)
	ev.ReadAll = []traceReadAll{}
	if o.ReadAll != nil {
		ev.ReadAll = append(ev.ReadAll, traceReadAll{opt(o.ReadAll.Ident), o.ReadAll.HS, o.ReadAll.First, append([]wEntry{}, o.ReadAll.Ents...)})
	}
	ev.HasWal = append([]wIdent{}, o.HasWal...)
}

// runWalWalks drives seeded random histories.  The driver keeps no model: it chooses the next operation from
// what the store itself reports (last index, snapshot), within the environment assumptions of the spec.
func runWalWalks(t *testing.T, in *walInput, res *verifkit.Result) {
	wk := in.Walks
	ww := newWalWorld(wk.MaxIdx, wk.Blks, wk.Ccs, in.Idents)
	tracePath := os.Getenv("VERIF_TRACE")
	var mu sync.Mutex
	bufs := make([][]byte, wk.N)
	var wg sync.WaitGroup
	sem := make(chan struct{}, runtime.NumCPU())
	for wi := 0; wi < wk.N; wi++ {
		wi := wi
		wg.Add(1)
		sem <- struct{}{}
		go func() {
			defer func() { <-sem; wg.Done() }()
			rng := verifkit.Rng(int64(4200 + wi))
			dir := filepath.Join(wk.WorkDir, fmt.Sprintf("waldb-%d", wi))
			os.RemoveAll(dir)
			if err := os.MkdirAll(dir, 0o755); err != nil {
				panic(err)
			}
			defer os.RemoveAll(dir)
			impl := db.MemoryImpl
			if wi < wk.Badger {
				impl = db.BadgerImpl
			}
			open := func() (*walNode, error) {
				return openNode(ww, &crashDB{inner: db.NewDB(impl, dir), limit: -1})
			}
			nd, err := open()
			if err != nil {
				panic(err)
			}
			var buf bytes.Buffer
			enc := json.NewEncoder(&buf)
			enc.Encode(map[string]interface{}{"ev": "NewWalk"})
			var problems []string
			origin := ""
			for step := 0; step < wk.Len; step++ {
				flight.begin(fmt.Sprintf("walk:%d", wi))
				cur := nd.observe(origin)
				act := randomWalOp(rng, ww, wk.Terms, wk.Batch, cur)
				crashed, _, err := nd.exec(&act)
				if err != nil {
					problems = append(problems, fmt.Sprintf("step %d %s: error %v", step, act.Op, err))
				}
				if act.Crash && !crashed {
					problems = append(problems, fmt.Sprintf("step %d %s: crash point %d not reached", step, act.Op, act.K))
				}
				// a real restart: close the store, open it again from its directory
				nd.store.Close()
				if nd, err = open(); err != nil {
					problems = append(problems, fmt.Sprintf("step %d: reopen failed: %v", step, err))
					break
				}
				origin = hsOrigin(origin, &act)
				o := nd.observe(origin)
				for _, p := range o.Problems {
					problems = append(problems, fmt.Sprintf("step %d after %s: %s", step, act.Op, p))
				}
				ev := traceEvent{Ev: "Op", Op: act.Op, HS: opt(act.HS), First: act.First, Es: append([]wEntry{}, act.Es...), S: opt(act.S), Id: opt(act.Id),
					Term: act.Term, Commit: act.Commit, K: act.K, Store: string(impl)}
				ev.fill(ww, o)
				enc.Encode(&ev)
				res.Count(fmt.Sprintf("walk:%d:%d", wi, step))
			}
			nd.store.Close()
			flight.end(fmt.Sprintf("walk:%d", wi))
			for _, p := range problems {
				res.Violate(map[string]interface{}{"kind": "malformed-answer", "driver": "walk"}, map[string]interface{}{"walk": wi, "seed": verifkit.Seed()}, "walk %d: %s", wi, p)
			}
			mu.Lock()
			bufs[wi] = buf.Bytes()
			mu.Unlock()
		}()
	}
	wg.Wait()
	if tracePath != "" {
		var all bytes.Buffer
		for _, b := range bufs {
			all.Write(b)
		}
		if err := os.WriteFile(tracePath, all.Bytes(), 0o644); err != nil {
			t.Fatal(err)
		}
	}
}

func randomWalOp(rng *rand.Rand, ww *walWorld, terms uint64, maxBatch int, cur *realObs) wAct {
	last := cur.State.Last
	var snapIdx uint64
	if cur.State.Snap != nil {
		snapIdx = cur.State.Snap.Idx
	}
	for {
		switch p := rng.Intn(100); {
		case p < 62: // SaveEntry with entries
			firsts := []uint64{}
			for f := uint64(1); f <= last+1 && f <= ww.maxIdx; f++ {
				firsts = append(firsts, f)
			}
			if snapIdx+1 > last+1 && snapIdx+1 <= ww.maxIdx {
				firsts = append(firsts, snapIdx+1)
			}
			if len(firsts) == 0 {
				continue
			}
			// prefer appending at or near the end, but overwrite anywhere
			first := firsts[rng.Intn(len(firsts))]
			if rng.Intn(3) == 0 {
				first = firsts[len(firsts)-1]
			}
			n := 1 + rng.Intn(maxBatch)
			if uint64(n) > ww.maxIdx-first+1 {
				n = int(ww.maxIdx - first + 1)
			}
			lo := uint64(1)
			if e, ok := cur.State.Ent[strconv.FormatUint(first-1, 10)]; ok {
				lo = e.Term
			}
			if lo > terms {
				continue
			}
			es := make([]wEntry, n)
			for j := range es {
				tm := lo + uint64(rng.Intn(int(terms-lo)+1))
				if rng.Intn(2) == 0 {
					tm = lo
				}
				lo = tm
				switch k := rng.Intn(10); {
				case k < 6:
					es[j] = wEntry{tm, "block", ww.blks[rng.Intn(len(ww.blks))]}
				case k < 8 || len(ww.ccs) == 0:
					es[j] = wEntry{tm, "empty", "none"}
				default:
					es[j] = wEntry{tm, "cc", ww.ccs[rng.Intn(len(ww.ccs))]}
				}
			}
			a := wAct{Op: "SaveEntry", First: first, Es: es, K: 1, N: 1}
			if rng.Intn(3) > 0 {
				c := first + uint64(n) - 1
				if rng.Intn(2) == 0 {
					c = first - 1
				}
				a.HS = &wHS{Term: es[n-1].Term, Commit: c}
				a.N, a.K = 2, 2
				if rng.Intn(4) == 0 {
					a.K, a.Crash = 1, true
				}
			}
			return a
		case p < 70: // hard state alone
			c := last
			if rng.Intn(3) == 0 {
				c = 0
			}
			return wAct{Op: "SaveEntry", HS: &wHS{Term: 1 + uint64(rng.Intn(int(terms))), Commit: c}, K: 1, N: 1}
		case p < 80:
			if snapIdx >= ww.maxIdx {
				continue
			}
			idx := snapIdx + 1 + uint64(rng.Intn(int(ww.maxIdx-snapIdx)))
			if rng.Intn(2) == 0 && last > snapIdx {
				idx = snapIdx + 1 + uint64(rng.Intn(int(last-snapIdx)))
			}
			tm := 1 + uint64(rng.Intn(int(terms)))
			if e, ok := cur.State.Ent[strconv.FormatUint(idx, 10)]; ok && rng.Intn(4) > 0 {
				tm = e.Term
			}
			return wAct{Op: "WriteSnapshot", S: &wSnap{Idx: idx, Term: tm}, K: 1, N: 1}
		case p < 88:
			id := ww.idents[rng.Intn(len(ww.idents))]
			return wAct{Op: "WriteIdentity", Id: &id, K: 1, N: 1}
		case p < 92:
			a := wAct{Op: "Clear", K: 2, N: 2}
			if rng.Intn(3) == 0 {
				a.K, a.Crash = 1, true
			}
			return a
		case p < 97:
			a := wAct{Op: "Reset", Term: 1 + uint64(rng.Intn(int(terms))), Commit: 1 + uint64(rng.Intn(int(ww.maxIdx))), K: 5, N: 5}
			if rng.Intn(3) == 0 {
				a.K, a.Crash = 1+rng.Intn(4), true
			}
			return a
		default:
			return wAct{Op: "Restart"}
		}
	}
}
