//go:build verif

package raftv2

// Conformance harness for spec/raft/RaftMembership.tla (C16b): every transition of the TLC-enumerated model
// (cluster composition, request, health vector -> accept/refuse [-> new composition]) is replayed on a real
// Cluster attached to a real raftServer whose raft node and transport are fakes:
//   route "propose": BlockFactory.MakeConfChangeProposal (makeProposal + isEnableChangeMembership), the
//                    health vector is served by the fake node's Status().Progress;
//   route "apply":   raftServer.applyConfChange on a configuration-change entry carrying the member.
// The source composition is built by replaying the accepted changes of a shortest path through
// applyConfChange, starting from an initial cluster restored the way Cluster.Recover does.

import (
	"context"
	"encoding/json"
	"fmt"
	"net/http"
	"runtime"
	"sort"
	"strings"
	"sync"
	"testing"
	"time"

	"github.com/aergoio/aergo/v2/chain"
	"github.com/aergoio/aergo/v2/consensus"
	"github.com/aergoio/aergo/v2/internal/verifkit"
	"github.com/aergoio/aergo/v2/types"
	rtypes "github.com/aergoio/etcd/pkg/types"
	raftlib "github.com/aergoio/etcd/raft"
	"github.com/aergoio/etcd/raft/raftpb"
	"github.com/aergoio/etcd/snap"
)

// ---------------------------------------------------------------- model values

type mMember struct {
	ID   int `json:"id"`
	Name int `json:"name"`
	Addr int `json:"addr"`
	Peer int `json:"peer"`
}

type mState struct {
	Applied []mMember `json:"applied"`
	Removed []mMember `json:"removed"`
	Next    int       `json:"next"`
	Alive   bool      `json:"alive"`
}

type mAct struct {
	Route  string            `json:"route"` // propose | apply
	Type   string            `json:"type"`  // add | remove
	M      *mMember          `json:"m,omitempty"`
	ID     int               `json:"id"`
	HV     map[string]string `json:"hv,omitempty"` // member id -> healthy | slow | syncing
	Accept bool              `json:"accept"`
}

type mTransition struct {
	Src int  `json:"src"`
	Act mAct `json:"act"`
	Dst int  `json:"dst"`
}

type mRecipe struct {
	Init int    `json:"init"` // size of the initial cluster {1..n}
	Acts []mAct `json:"acts"` // accepted apply-route changes leading to the state
}

type memberInput struct {
	States      []mState      `json:"states"`
	Recipes     []mRecipe     `json:"recipes"` // per state
	Transitions []mTransition `json:"transitions"`
}

// ---------------------------------------------------------------- concretisation

func realID(v int) uint64 {
	if v == 0 {
		return 0
	}
	return 0x5000 + uint64(v)
}
func realName(v int) string { return fmt.Sprintf("node%d", v) }
func realAddr(v int) string { return fmt.Sprintf("/ip4/127.0.0.1/tcp/%d", 21000+v) }
func realPeer(v int) []byte { return []byte(verifPeerID(fmt.Sprintf("member%d", v))) }

func realMember(m mMember) *consensus.Member {
	return &consensus.Member{MemberAttr: types.MemberAttr{ID: realID(m.ID), Name: realName(m.Name), Address: realAddr(m.Addr), PeerID: realPeer(m.Peer)}}
}

func memberStr(id uint64, name, addr string, peer []byte) string {
	return fmt.Sprintf("%x/%s/%s/%x", id, name, addr, peer[len(peer)-4:])
}

func modelMembersStr(ms []mMember) string {
	out := make([]string, 0, len(ms))
	for _, m := range ms {
		out = append(out, memberStr(realID(m.ID), realName(m.Name), realAddr(m.Addr), realPeer(m.Peer)))
	}
	sort.Strings(out)
	return strings.Join(out, " ")
}

func realMembersStr(ms []*consensus.Member) string {
	out := make([]string, 0, len(ms))
	for _, m := range ms {
		p := m.PeerID
		if len(p) < 4 {
			p = append([]byte{0, 0, 0, 0}, p...)
		}
		out = append(out, memberStr(m.ID, m.Name, m.Address, p))
	}
	sort.Strings(out)
	return strings.Join(out, " ")
}

// ---------------------------------------------------------------- fakes for raft node and transport

type fakeRaftNode struct {
	mu     sync.Mutex
	status raftlib.Status
	lastCC *raftpb.ConfChange
	nApply int
}

func (f *fakeRaftNode) Tick()                                                       {}
func (f *fakeRaftNode) Campaign(ctx context.Context) error                          { return nil }
func (f *fakeRaftNode) Propose(ctx context.Context, data []byte) error              { return nil }
func (f *fakeRaftNode) ProposeConfChange(ctx context.Context, cc raftpb.ConfChange) error { return nil }
func (f *fakeRaftNode) Step(ctx context.Context, msg raftpb.Message) error          { return nil }
func (f *fakeRaftNode) Ready() <-chan raftlib.Ready                                 { return nil }
func (f *fakeRaftNode) Advance()                                                    {}
func (f *fakeRaftNode) ApplyConfChange(cc raftpb.ConfChange) *raftpb.ConfState {
	f.mu.Lock()
	defer f.mu.Unlock()
	c := cc
	f.lastCC = &c
	f.nApply++
	return &raftpb.ConfState{}
}
func (f *fakeRaftNode) TransferLeadership(ctx context.Context, lead, transferee uint64) {}
func (f *fakeRaftNode) ReadIndex(ctx context.Context, rctx []byte) error               { return nil }
func (f *fakeRaftNode) Status() raftlib.Status {
	f.mu.Lock()
	defer f.mu.Unlock()
	return f.status
}
func (f *fakeRaftNode) ReportUnreachable(id uint64)                             {}
func (f *fakeRaftNode) ReportSnapshot(id uint64, status raftlib.SnapshotStatus) {}
func (f *fakeRaftNode) Stop()                                                   {}

type fakeTransport struct {
	mu      sync.Mutex
	added   []uint64
	removed []uint64
}

func (t *fakeTransport) Start() error                { return nil }
func (t *fakeTransport) Handler() http.Handler       { return nil }
func (t *fakeTransport) Send(m []raftpb.Message)     {}
func (t *fakeTransport) SendSnapshot(m snap.Message) {}
func (t *fakeTransport) AddPeer(id rtypes.ID, peerID types.PeerID, urls []string) {
	t.mu.Lock()
	t.added = append(t.added, uint64(id))
	t.mu.Unlock()
}
func (t *fakeTransport) RemovePeer(id rtypes.ID) {
	t.mu.Lock()
	t.removed = append(t.removed, uint64(id))
	t.mu.Unlock()
}
func (t *fakeTransport) RemoveAllPeers()                        {}
func (t *fakeTransport) UpdatePeer(id rtypes.ID, urls []string) {}
func (t *fakeTransport) ActiveSince(id rtypes.ID) time.Time     { return time.Time{} }
func (t *fakeTransport) ActivePeers() int                       { return 0 }
func (t *fakeTransport) Stop()                                  {}

// ---------------------------------------------------------------- a node: Cluster + raftServer + BlockFactory shell

type memberNode struct {
	cl    *Cluster
	rs    *raftServer
	bf    *BlockFactory
	node  *fakeRaftNode
	tr    *fakeTransport
	cdb   *chain.ChainDB
	last  uint64 // last index of the leader's raft log
	seq   uint64
	mseq  int
	hseq  int
}

const memberSelf = 1

func newMemberNode(initN int) (*memberNode, error) {
	cdb, err := chain.VerifC16NewChainDB(&crashDB{inner: newMapDB(), limit: -1})
	if err != nil {
		return nil, err
	}
	if err := chain.VerifC16AddGenesis(cdb, types.GetTestGenesis()); err != nil {
		return nil, err
	}
	selfPeer, err := types.IDFromBytes(realPeer(memberSelf))
	if err != nil {
		return nil, err
	}
	cl := NewCluster([]byte("verif-c16"), nil, realName(memberSelf), selfPeer, 0, nil)
	// the initial members, restored the way Cluster.Recover restores them from a snapshot
	for i := 1; i <= initN; i++ {
		if err := cl.addMember(realMember(mMember{i, i, i, i}), true); err != nil {
			return nil, err
		}
	}
	cl.SetNodeID(realID(memberSelf))
	cl.SetClusterID(0xC16)
	mn := &memberNode{cl: cl, node: &fakeRaftNode{}, tr: &fakeTransport{}, cdb: cdb, last: MaxSlowNodeGap + 50}
	ms := raftlib.NewMemoryStorage()
	if err := ms.ApplySnapshot(raftpb.Snapshot{Metadata: raftpb.SnapshotMetadata{Index: mn.last, Term: 1}}); err != nil {
		return nil, err
	}
	rs := &raftServer{cluster: cl, node: mn.node, transport: mn.tr, walDB: NewWalDB(cdb), raftStorage: ms}
	rs.leaderStatus.IsLeader = true
	rs.leaderStatus.Leader = realID(memberSelf)
	cl.rs = rs
	mn.rs = rs
	mn.bf = &BlockFactory{bpc: cl, raftServer: rs}
	return mn, nil
}

// setHealth makes the fake node's progress tracker show the health vector (for the members of the model state).
func (mn *memberNode) setHealth(hv map[string]string, applied []mMember) {
	pr := map[uint64]raftlib.Progress{}
	if len(hv) == 0 {
		for _, m := range applied {
			pr[realID(m.ID)] = raftlib.Progress{Match: mn.last, Next: mn.last + 1, State: raftlib.ProgressStateReplicate}
		}
	}
	for k, st := range hv {
		var v int
		fmt.Sscanf(k, "%d", &v)
		p := raftlib.Progress{Match: mn.last, Next: mn.last + 1, State: raftlib.ProgressStateReplicate}
		switch st {
		case "healthy":
			mn.hseq++
			if mn.hseq%2 == 0 && v != memberSelf { // still healthy: behind the leader by exactly the permitted gap
				p.Match = mn.last - MaxSlowNodeGap
				p.Next = p.Match + 1
			}
		case "slow":
			mn.mseq++
			if mn.mseq%2 == 0 { // a slow member: probing, or replicating but too far behind the leader
				p.State = raftlib.ProgressStateProbe
			} else {
				p.Match = mn.last - MaxSlowNodeGap - 1
				p.Next = p.Match + 1
			}
		case "syncing":
			p.State = raftlib.ProgressStateSnapshot
			p.Match = 0
			p.Next = 1
			p.PendingSnapshot = mn.last
		}
		pr[realID(v)] = p
	}
	mn.node.mu.Lock()
	mn.node.status = raftlib.Status{ID: realID(memberSelf), Progress: pr}
	mn.node.status.Lead = realID(memberSelf)
	mn.node.status.RaftState = raftlib.StateLeader
	mn.node.mu.Unlock()
}

// run executes one request and returns whether the real code accepted it.
func (mn *memberNode) run(a *mAct, st *mState) (accepted bool, detail string) {
	defer func() {
		if r := recover(); r != nil { // a panic of the code under test is an answer, not a harness failure
			accepted, detail = false, fmt.Sprintf("PANIC: %v", r)
		}
	}()
	mn.seq++
	switch a.Route {
	case "propose":
		mn.setHealth(a.HV, st.Applied)
		req := &types.MembershipChange{RequestID: 9000 + mn.seq}
		if a.Type == "add" {
			req.Type = types.MembershipChangeType_ADD_MEMBER
			req.Attr = &types.MemberAttr{Name: realName(a.M.Name), Address: realAddr(a.M.Addr), PeerID: realPeer(a.M.Peer)}
		} else {
			req.Type = types.MembershipChangeType_REMOVE_MEMBER
			req.Attr = &types.MemberAttr{ID: realID(a.ID)}
		}
		prop, err := mn.bf.MakeConfChangeProposal(req)
		if err != nil {
			return false, err.Error()
		}
		// the proposal must be about the requested member
		var m consensus.Member
		if err := json.Unmarshal(prop.Cc.Context, &m); err != nil {
			return true, "proposal context does not decode: " + err.Error()
		}
		if a.Type == "add" {
			if prop.Cc.Type != raftpb.ConfChangeAddNode || m.Name != req.Attr.Name || m.Address != req.Attr.Address || string(m.PeerID) != string(req.Attr.PeerID) || m.ID == 0 || prop.Cc.NodeID != m.ID {
				return true, fmt.Sprintf("MALFORMED proposal %v for add request %v", prop.Cc, req)
			}
		} else if prop.Cc.Type != raftpb.ConfChangeRemoveNode || prop.Cc.NodeID != req.Attr.ID {
			return true, fmt.Sprintf("MALFORMED proposal %v for remove request %v", prop.Cc, req)
		}
		return true, ""
	case "apply":
		var member consensus.Member
		cc := raftpb.ConfChange{ID: 20000 + mn.seq}
		if a.Type == "add" {
			member = *realMember(*a.M)
			cc.Type = raftpb.ConfChangeAddNode
		} else {
			// what makeProposal puts into a removal: the id only
			member = consensus.Member{MemberAttr: types.MemberAttr{ID: realID(a.ID)}}
			cc.Type = raftpb.ConfChangeRemoveNode
		}
		cc.NodeID = member.ID
		ctx, err := json.Marshal(&member)
		if err != nil {
			panic(err)
		}
		cc.Context = ctx
		data, err := cc.Marshal()
		if err != nil {
			panic(err)
		}
		ent := raftpb.Entry{Type: raftpb.EntryConfChange, Term: 7, Index: mn.last + mn.seq, Data: data}
		before := mn.node.nApply
		mn.rs.applyConfChange(&ent)
		if mn.node.nApply != before+1 || mn.node.lastCC == nil {
			return false, "MALFORMED: the entry was not applied to the raft node exactly once"
		}
		// a refused entry reaches raft as a no-op (NodeID = None)
		acc := mn.node.lastCC.NodeID != raftlib.None
		if pr, _ := mn.cdb.GetConfChangeProgress(cc.ID); pr != nil {
			if (pr.Err == "") != acc {
				return acc, fmt.Sprintf("MALFORMED: raft got NodeID %x but the recorded progress says %q", mn.node.lastCC.NodeID, pr.Err)
			}
			return acc, pr.Err
		}
		return acc, ""
	}
	panic("unknown route " + a.Route)
}

func (mn *memberNode) composition() (applied, removed, members string, size uint32) {
	return realMembersStr(mn.cl.AppliedMembers().ToArray()), realMembersStr(mn.cl.RemovedMembers().ToArray()),
		realMembersStr(mn.cl.Members().ToArray()), mn.cl.Size
}

// refusalClass names the reason for which the property wants a request refused ("" = the property permits it).
func refusalClass(a *mAct, st *mState) string {
	var cls []string
	switch a.Type {
	case "add":
		for _, p := range st.Applied {
			if p.ID == a.M.ID {
				cls = append(cls, "duplicate-id")
			}
			if p.Name == a.M.Name {
				cls = append(cls, "duplicate-name")
			}
			if p.Addr == a.M.Addr {
				cls = append(cls, "duplicate-address")
			}
			if p.Peer == a.M.Peer {
				cls = append(cls, "duplicate-peerid")
			}
		}
		for _, r := range st.Removed {
			if r.ID == a.M.ID {
				cls = append(cls, "removed-id")
			}
		}
		if a.M.ID == 0 {
			cls = append(cls, "invalid-id")
		}
		if len(cls) == 0 && a.Route == "propose" {
			for _, s := range a.HV {
				if s != "healthy" {
					cls = append(cls, "unhealthy-member-present")
					break
				}
			}
		}
	case "remove":
		member := false
		for _, p := range st.Applied {
			if p.ID == a.ID {
				member = true
			}
		}
		if !member {
			cls = append(cls, "unknown-member")
		} else if a.Route == "propose" && a.HV[fmt.Sprint(a.ID)] == "healthy" {
			h := 0
			for k, s := range a.HV {
				if s == "healthy" && k != fmt.Sprint(a.ID) {
					h++
				}
			}
			if 2*h <= len(a.HV)-1 {
				cls = append(cls, "healthy-rest-loses-quorum")
			}
		}
	}
	sort.Strings(cls)
	// duplicates of the same class (several members) collapse
	out := []string{}
	for i, c := range cls {
		if i == 0 || cls[i-1] != c {
			out = append(out, c)
		}
	}
	return strings.Join(out, "+")
}

type memberReplay struct {
	Recipe mRecipe `json:"recipe"`
	Src    mState  `json:"src"`
	Act    mAct    `json:"act"`
	Dst    mState  `json:"dst"`
	Real   string  `json:"real"`
	ti     int
}

// memberPart replays every transition of the membership model.
func memberPart(t *testing.T, in *memberInput, res *verifkit.Result) {
	// one violation per signature is reported: the one with the smallest transition number (deterministic)
	type pending struct {
		ti   int
		sig  map[string]interface{}
		rp   memberReplay
		text string
	}
	var vmu sync.Mutex
	seen := map[string]int{}
	firstOf := map[string]*pending{}
	curTi := func(rp *memberReplay) int { return rp.ti }
	report := func(sig map[string]interface{}, rp *memberReplay, f string, a ...interface{}) {
		k, _ := json.Marshal(sig)
		vmu.Lock()
		defer vmu.Unlock()
		seen[string(k)]++
		if p, ok := firstOf[string(k)]; !ok || curTi(rp) < p.ti {
			firstOf[string(k)] = &pending{curTi(rp), sig, *rp, fmt.Sprintf(f, a...)}
		}
	}

	out := map[int][]int{}
	for i, tr := range in.Transitions {
		out[tr.Src] = append(out[tr.Src], i)
	}
	build := func(rc *mRecipe) (*memberNode, error) {
		mn, err := newMemberNode(rc.Init)
		if err != nil {
			return nil, err
		}
		for i := range rc.Acts {
			if acc, d := mn.run(&rc.Acts[i], nil); !acc {
				return nil, fmt.Errorf("path step %d refused: %s", i, d)
			}
		}
		return mn, nil
	}
	check := func(mn *memberNode, st *mState, what string, rp *memberReplay) bool {
		ap, rm, mb, size := mn.composition()
		wa, wr := modelMembersStr(st.Applied), modelMembersStr(st.Removed)
		if ap != wa || rm != wr {
			rp.Real = "applied: " + ap + " | removed: " + rm
			report(map[string]interface{}{"kind": "composition", "when": what, "route": rp.Act.Route, "type": rp.Act.Type}, rp,
				"%s: cluster has applied {%s} removed {%s}; model: applied {%s} removed {%s}", what, ap, rm, wa, wr)
			return false
		}
		if mb != wa || int(size) != len(st.Applied) {
			rp.Real = "members: " + mb
			report(map[string]interface{}{"kind": "member-bookkeeping", "when": what, "route": rp.Act.Route, "type": rp.Act.Type}, rp,
				"%s: member list {%s} size %d disagrees with the applied members {%s}", what, mb, size, wa)
			return false
		}
		return true
	}

	var wg sync.WaitGroup
	sem := make(chan struct{}, runtime.NumCPU())
	srcs := make([]int, 0, len(out))
	for s := range out {
		srcs = append(srcs, s)
	}
	sort.Ints(srcs)
	for _, s := range srcs {
		s := s
		wg.Add(1)
		sem <- struct{}{}
		go func() {
			defer func() { <-sem; wg.Done() }()
			rc := &in.Recipes[s]
			st := &in.States[s]
			fk := fmt.Sprintf("membersrc:%d", s)
			flight.begin(fk)
			defer flight.end(fk)
			mn, err := build(rc)
			if err != nil {
				res.Note("state %d not reproduced: %v", s, err)
				return
			}
			if !check(mn, st, "source state", &memberReplay{Recipe: *rc, Src: *st, ti: -1}) {
				return
			}
			for _, ti := range out[s] {
				tr := &in.Transitions[ti]
				a := tr.Act
				rp := &memberReplay{Recipe: *rc, Src: *st, Act: a, Dst: in.States[tr.Dst], ti: ti}
				res.Count(fmt.Sprintf("mtr:%d", ti))
				if ti%1499 == 0 {
					res.Sample(map[string]interface{}{"src": st, "act": a})
				}
				node := mn
				changes := a.Route == "apply" && a.Accept
				if changes {
					// the request changes the cluster: run it on a copy of the source state
					if node, err = build(rc); err != nil {
						res.Note("state %d not reproduced: %v", s, err)
						continue
					}
				}
				fkey := fmt.Sprintf("member:%d", ti)
				flight.begin(fkey)
				acc, detail := node.run(&a, st)
				flight.end(fkey)
				rp.Real = fmt.Sprintf("accepted=%v %s", acc, detail)
				cls := refusalClass(&a, st)
				switch {
				case strings.HasPrefix(detail, "PANIC"):
					report(map[string]interface{}{"kind": "panic", "route": a.Route, "type": a.Type, "class": cls}, rp, "%s %s request %s: %s", a.Route, a.Type, actStr(&a), detail)
					if mn, err = build(rc); err != nil { // the instance may be half-changed
						return
					}
					continue
				case strings.HasPrefix(detail, "MALFORMED"):
					report(map[string]interface{}{"kind": "malformed-answer", "route": a.Route, "type": a.Type}, rp, "%s %s: %s", a.Route, a.Type, detail)
				case acc && !a.Accept:
					report(map[string]interface{}{"kind": "accepted-must-refuse", "route": a.Route, "type": a.Type, "class": cls}, rp,
						"%s %s request accepted although it must be refused (%s): %s", a.Route, a.Type, cls, actStr(&a))
				case !acc && a.Accept:
					report(map[string]interface{}{"kind": "refused-but-permitted", "route": a.Route, "type": a.Type}, rp,
						"%s %s request refused (%s) although nothing forbids it: %s", a.Route, a.Type, detail, actStr(&a))
				}
				// the cluster afterwards: unchanged unless an accepted entry was applied
				want := st
				if acc && a.Route == "apply" {
					want = &in.States[tr.Dst]
					if !a.Accept {
						// already reported; the model has no successor for it and the shared instance is off
						if mn, err = build(rc); err != nil {
							return
						}
						continue
					}
				}
				if !check(node, want, "after the request", rp) && node == mn {
					// the shared instance is off: rebuild it for the remaining requests
					if mn, err = build(rc); err != nil {
						return
					}
				}
			}
		}()
	}
	wg.Wait()
	keys := make([]string, 0, len(firstOf))
	for k := range firstOf {
		keys = append(keys, k)
	}
	sort.Strings(keys)
	for _, k := range keys {
		p := firstOf[k]
		res.Violate(p.sig, &p.rp, "%s", p.text)
		if c := seen[k]; c > 1 {
			res.Note("%d occurrences of %s", c, k)
		}
	}
}

func actStr(a *mAct) string {
	hv := ""
	if len(a.HV) > 0 {
		ks := make([]string, 0, len(a.HV))
		for k := range a.HV {
			ks = append(ks, k)
		}
		sort.Strings(ks)
		ps := []string{}
		for _, k := range ks {
			ps = append(ps, k+":"+a.HV[k])
		}
		hv = " health{" + strings.Join(ps, " ") + "}"
	}
	if a.Type == "add" {
		return fmt.Sprintf("add member id=%d name=%d addr=%d peer=%d%s", a.M.ID, a.M.Name, a.M.Addr, a.M.Peer, hv)
	}
	return fmt.Sprintf("remove id=%d%s", a.ID, hv)
}
