//go:build verif

package raftv2

// Conformance harness of spec/raft/RaftApply.tla (extension of C16): TLC-generated behaviours of ONE raft node are
// replayed on the real code
//
//	raftServer.serveChannels      the REAL Ready loop (WalDB.SaveEntry -> MemoryStorage.Append -> publishEntries(
//	                              entriesToApply) -> triggerSnapshot -> updateTerm/updateLeader -> Advance)
//	BlockFactory.worker           the REAL commitC consumer (handleReadyMarker / connect -> chain.ConnectBlock)
//	BlockFactory.QueueJob, RaftOperator.propose   the leader's gates and the proposal hand-over
//	raftServer.restartNode        loadSnapshot + replayWAL + cluster.Recover + raft.RestartNode (the real etcd node
//	                              decides what is re-delivered after a restart)
//	chain.ChainService            real, on a real ComponentHub, over the journaling store (internal/verifnode)
//
// Stand-ins: the raft.Node that feeds the loop (Ready values are built from the behaviour; Propose records the
// proposal), the transport, block generation (verifnode.Produce mirrors BlockFactory.generateBlock with a fixed
// timestamp), the configuration state (the initial conf-change entries are not modelled: the harness sets
// raftServer.confState and the single cluster member).  After every step the whole property-relevant state of the
// node is read back and compared with the state of the specification.
//
// Crash points: the write journal of the stores of a crash-free run; a node is restarted on EVERY prefix of the
// journal (real restart path), must come up coherent, must re-deliver exactly the committed entries behind its
// snapshot, must end on the tip of the highest committed block entry of ITS log, and must converge to the tip of
// the crash-free run once the rest of the log is delivered.

import (
	"bytes"
	"context"
	"encoding/json"
	"errors"
	"fmt"
	"math/big"
	"os"
	"sort"
	"strings"
	"sync"
	"testing"
	"time"

	"github.com/aergoio/aergo-lib/db"
	"github.com/aergoio/aergo/v2/chain"
	"github.com/aergoio/aergo/v2/config"
	"github.com/aergoio/aergo/v2/consensus"
	"github.com/aergoio/aergo/v2/internal/verifkit"
	"github.com/aergoio/aergo/v2/internal/verifnode"
	"github.com/aergoio/aergo/v2/pkg/component"
	"github.com/aergoio/aergo/v2/types"
	raftlib "github.com/aergoio/etcd/raft"
	"github.com/aergoio/etcd/raft/raftpb"
	"github.com/rs/zerolog"
)

// ---------------------------------------------------------------- model values

type raEnt struct {
	Term uint64 `json:"term"`
	Kind string `json:"kind"`
	B    int    `json:"b"`
}

type raProg struct {
	Idx uint64 `json:"idx"`
	No  uint64 `json:"no"`
}

type raBlkDef struct {
	No   int `json:"no"`
	Prev int `json:"prev"`
}

type raInfl struct {
	B    int    `json:"b"`
	Term uint64 `json:"term"`
}

type raState struct {
	Ent       []raEnt    `json:"ent"`
	Commit    uint64     `json:"commit"`
	Term      uint64     `json:"term"`
	Snap      uint64     `json:"snap"`
	Stored    []int      `json:"stored"`
	Chain     []int      `json:"chain"`
	Applied   uint64     `json:"applied"`
	Req       raProg     `json:"req"`
	Conn      raProg     `json:"conn"`
	Proposed  int        `json:"proposed"`
	Inflight  []raInfl   `json:"inflight"`
	PrevWork  int        `json:"prevWork"`
	Ready     uint64     `json:"ready"`
	Role      string     `json:"role"`
	Lterm     uint64     `json:"lterm"`
	Fatal     bool       `json:"fatal"`
	Blks      []raBlkDef `json:"blks"`
	HiApplied uint64     `json:"hiApplied"`
}

type raAct struct {
	Name string `json:"name"`
	I    uint64 `json:"i"`
	Term uint64 `json:"term"`
	Kind string `json:"kind"`
	B    int    `json:"b"`
	C    uint64 `json:"c"`
	Keep bool   `json:"keep"`
	What string `json:"what"`
	Idx  uint64 `json:"idx"`
}

type raStep struct {
	Act   raAct   `json:"act"`
	State raState `json:"state"`
}

type raBehaviour struct {
	ID       string   `json:"id"`
	Steps    []raStep `json:"steps"`
	Crash    bool     `json:"crash"`    // enumerate the crash images of this behaviour
	SnapFreq uint64   `json:"snapfreq"` // SnapFreq of the model the behaviour comes from
}

type raInput struct {
	Behaviours []raBehaviour `json:"behaviours"`
}

const (
	raSelfID  = uint64(0x5001)
	raOtherID = uint64(0x5002)
	raHuge    = uint64(1) << 40
)

// ---------------------------------------------------------------- the raft.Node stand-in

type raFakeNode struct {
	readyc    chan raftlib.Ready
	advc      chan struct{}
	mu        sync.Mutex
	proposals [][]byte
}

func newRaFakeNode() *raFakeNode {
	return &raFakeNode{readyc: make(chan raftlib.Ready), advc: make(chan struct{}, 1)}
}
func (f *raFakeNode) Tick()                              {}
func (f *raFakeNode) Campaign(ctx context.Context) error { return nil }
func (f *raFakeNode) Propose(ctx context.Context, data []byte) error {
	f.mu.Lock()
	f.proposals = append(f.proposals, append([]byte(nil), data...))
	f.mu.Unlock()
	return nil
}
func (f *raFakeNode) ProposeConfChange(ctx context.Context, cc raftpb.ConfChange) error { return nil }
func (f *raFakeNode) Step(ctx context.Context, msg raftpb.Message) error                { return nil }
func (f *raFakeNode) Ready() <-chan raftlib.Ready                                       { return f.readyc }
func (f *raFakeNode) Advance()                                                          { f.advc <- struct{}{} }
func (f *raFakeNode) ApplyConfChange(cc raftpb.ConfChange) *raftpb.ConfState {
	return &raftpb.ConfState{Nodes: []uint64{raSelfID}}
}
func (f *raFakeNode) TransferLeadership(ctx context.Context, lead, transferee uint64) {}
func (f *raFakeNode) ReadIndex(ctx context.Context, rctx []byte) error                { return nil }
func (f *raFakeNode) Status() raftlib.Status                                          { return raftlib.Status{} }
func (f *raFakeNode) ReportUnreachable(id uint64)                                     {}
func (f *raFakeNode) ReportSnapshot(id uint64, status raftlib.SnapshotStatus)         {}
func (f *raFakeNode) Stop()                                                           {}

// ---------------------------------------------------------------- block universe of one behaviour

type raWorld struct {
	seed   int64
	bp     *verifnode.BPKey
	acct   *verifnode.Account
	recv   *verifnode.Account
	opt    verifnode.Options
	defs   []raBlkDef           // 1-based: defs[k-1]
	blocks map[int]*types.Block // 0 = genesis
	txs    map[int][]*types.Tx  // per block
	byHash map[string]int       // block hash -> id
	ts     map[int]int64
}

var raDirSeq int

func raFreshDir(tag string) string {
	raDirSeq++
	return fmt.Sprintf("%s/ra-%s-%d", verifnode.ScratchBase(), tag, raDirSeq)
}

func (w *raWorld) path(k int) []int {
	var p []int
	for k != 0 {
		p = append([]int{k}, p...)
		k = w.defs[k-1].Prev
	}
	return p
}

// buildWorld produces every block of the behaviour's universe through the real production path of a builder node
// (a plain verifnode with the recording stub consensus) that stands at the block's parent.
func raBuildWorld(defs []raBlkDef, seed int64) (*raWorld, error) {
	w := &raWorld{seed: seed, defs: defs, blocks: map[int]*types.Block{}, txs: map[int][]*types.Tx{}, byHash: map[string]int{}, ts: map[int]int64{}}
	w.bp = verifnode.NewBPKey("ra-bp", seed)
	w.acct = verifnode.NewAccount("ra-sender", seed)
	w.recv = verifnode.NewAccount("ra-recv", seed)
	w.opt = verifnode.Options{Seed: seed, Public: false, Balances: map[string]string{w.acct.B58(): "100000000000000000000", w.recv.B58(): "1000"},
		BPs: []string{types.IDB58Encode(w.bp.ID)}, Timestamp: 1600000000000000000}
	var bn *verifnode.Node
	at := -1 // block id the builder stands at
	stop := func() {
		if bn != nil {
			bn.Stop()
			bn = nil
		}
	}
	defer stop()
	for k := 1; k <= len(defs); k++ {
		d := defs[k-1]
		if bn == nil || at != d.Prev {
			stop()
			o := w.opt
			o.Dir = raFreshDir("builder")
			var err error
			if bn, err = verifnode.Start(o); err != nil {
				return nil, err
			}
			if w.blocks[0] == nil {
				g, err := bn.CS.VerifGetBlockByNo(0)
				if err != nil {
					return nil, err
				}
				w.blocks[0] = g
				w.byHash[string(g.BlockHash())] = 0
			}
			for _, x := range w.path(d.Prev) {
				if err := bn.Deliver(w.blocks[x]); err != nil {
					return nil, fmt.Errorf("builder: delivering block %d: %v", x, err)
				}
			}
			at = d.Prev
		}
		w.ts[k] = w.opt.Timestamp + int64(d.No)*1000000000 + int64(k)*1000
		tx := verifnode.NewTx(w.acct, w.acct, w.recv.Addr, uint64(d.No), big.NewInt(int64(1000+k)), types.TxType_TRANSFER, nil, bn.ChainIDHash(types.BlockNo(d.No)), 0)
		w.txs[k] = []*types.Tx{tx}
		blk, bs, err := bn.Produce(w.ts[k], w.txs[k], w.bp, 1)
		if err != nil {
			return nil, fmt.Errorf("builder: producing block %d: %v", k, err)
		}
		if len(blk.GetBody().GetTxs()) != 1 || int(blk.BlockNo()) != d.No {
			return nil, fmt.Errorf("builder: block %d malformed (no %d, %d txs)", k, blk.BlockNo(), len(blk.GetBody().GetTxs()))
		}
		blk.BlockHash()
		w.blocks[k] = blk
		w.byHash[string(blk.BlockHash())] = k
		// move the builder onto the new block (cheap when the next block is its child)
		if err := bn.Connect(blk, bs); err != nil {
			return nil, fmt.Errorf("builder: connecting block %d: %v", k, err)
		}
		at = k
	}
	return w, nil
}

// ---------------------------------------------------------------- the node under test

type raNode struct {
	w       *raWorld
	dir     string
	n       *verifnode.Node
	bf      *BlockFactory
	rs      *raftServer
	fake    *raFakeNode
	tr      *fakeTransport
	snapFrq uint64
	loopEnd chan struct{}
	// harness-side record of what raft holds for us
	inflight []byte
	redeliv  []raftpb.Entry // what the real etcd node re-delivered at the last restart
	hadReady bool
}

func raSelfPeer() types.PeerID { return verifPeerID("ra-self") }

// start brings a node up on dir: fresh == first start of a new cluster member, otherwise the restart path.
func raStart(w *raWorld, dir string, fresh bool, snapFreq uint64) (rn *raNode, err error) {
	rn = &raNode{w: w, dir: dir, snapFrq: snapFreq}
	o := w.opt
	o.Dir = dir
	o.MakeConsensus = func(cs *chain.ChainService, hub *component.ComponentHub, cfg *config.Config) (consensus.ChainConsensus, error) {
		bf := &BlockFactory{
			ComponentHub: hub,
			ChainWAL:     cs.WalDB(),
			jobQueue:     make(chan interface{}),
			workerQueue:  make(chan *Work),
			bpTimeoutC:   make(chan struct{}, 1),
			quit:         make(chan interface{}),
			sdb:          cs.SDB(),
			bv:           cfg.Hardfork,
		}
		bf.bpc = NewCluster([]byte("verif-raftapply"), bf, "ra-node", raSelfPeer(), o.Timestamp, nil)
		bf.raftOp = newRaftOperator(nil, bf.bpc)
		// the real constructor (walDB, snapshotter, channels)
		bf.raftServer = newRaftServer(hub, bf.bpc, false, false, nil, time.Hour, bf.bpc.confChangeC, bf.raftOp.commitC, false, bf.ChainWAL)
		bf.bpc.rs = bf.raftServer
		bf.raftOp.rs = bf.raftServer
		bf.initContext()
		rn.bf, rn.rs = bf, bf.raftServer
		return bf, nil
	}
	if rn.n, err = verifnode.Start(o); err != nil {
		return nil, err
	}
	defer func() {
		if r := recover(); r != nil {
			err = fmt.Errorf("panic while starting the raft part: %v", r)
		}
	}()
	rs, cl := rn.rs, rn.bf.bpc
	rs.snapFrequency = raHuge
	if w.blocks[0] == nil { // a behaviour without any block: no builder has run
		g, gerr := rn.n.CS.VerifGetBlockByNo(0)
		if gerr != nil {
			return nil, gerr
		}
		w.blocks[0] = g
		w.byHash[string(g.BlockHash())] = 0
	}
	self := &consensus.Member{MemberAttr: types.MemberAttr{ID: raSelfID, Name: "ra-node", Address: "/ip4/127.0.0.1/tcp/21001", PeerID: []byte(raSelfPeer())}}
	rn.fake, rn.tr = newRaFakeNode(), &fakeTransport{}
	if fresh {
		// what startNode does for a new cluster (minus raft.StartNode): node id, cluster id, identity, empty storage
		if err := cl.addMember(self, true); err != nil {
			return nil, err
		}
		cl.SetNodeID(raSelfID)
		cl.SetClusterID(0xA991)
		if err := rs.SaveIdentity(); err != nil {
			return nil, err
		}
		rs.raftStorage = raftlib.NewMemoryStorage()
	} else {
		// startRaft, case RaftServerStateRestart
		has, herr := rs.walDB.HasWal(cl.identity)
		if !has {
			return nil, fmt.Errorf("HasWal says no on a data directory with a raft log: %v", herr)
		}
		cl.ResetMembers()
		snapshot, _ := rs.walDB.GetSnapshot()
		if snapshot == nil {
			// the members come from the replay of the initial conf-change entries, which are not modelled
			if err := cl.addMember(self, true); err != nil {
				return nil, err
			}
		}
		real := rs.restartNode(false) // loadSnapshot, replayWAL, cluster.Recover, raft.RestartNode
		// the real etcd node says what is re-delivered; when the stored commit index is not ahead of the snapshot there
		// is nothing it could re-deliver and the wait is short
		wait := 20 * time.Millisecond
		if hs, err := rs.walDB.GetHardState(); err == nil && hs != nil {
			var si uint64
			if snapshot != nil {
				si = snapshot.Metadata.Index
			}
			if hs.Commit > si {
				wait = 20 * time.Second
			}
		}
		select {
		case rd := <-real.Ready():
			rn.redeliv = append([]raftpb.Entry(nil), rd.CommittedEntries...)
			rn.hadReady = true
		case <-time.After(wait):
		}
		real.Stop()
	}
	rs.setNodeSync(rn.fake)
	rs.transport = rn.tr
	rn.loopEnd = make(chan struct{})
	go func() {
		defer close(rn.loopEnd)
		rs.serveChannels()
	}()
	go rn.bf.worker()
	// an empty Ready: when it is acknowledged the preamble of serveChannels (applied/snapshot index from storage) is done
	if err := rn.feed(raftlib.Ready{}); err != nil {
		return nil, err
	}
	if rs.confState == nil || len(rs.confState.Nodes) == 0 {
		rs.setConfState(&raftpb.ConfState{Nodes: []uint64{raSelfID}})
	}
	if fresh {
		// the first Ready of a new member carries its first hard state (term 1); from then on the data directory is
		// one that HasWal recognises
		if err := rn.feed(raftlib.Ready{HardState: raftpb.HardState{Term: 1}}); err != nil {
			return nil, err
		}
	}
	return rn, nil
}

func (rn *raNode) stop() {
	if rn == nil || rn.n == nil {
		return
	}
	close(rn.bf.quit) // the worker leaves through its quit case (a closed commitC would be a logger.Fatal)
	select {
	case rn.rs.errorC <- errors.New("verif: node stopped"):
	default:
	}
	select {
	case <-rn.loopEnd:
	case <-time.After(2 * time.Second):
	}
	rn.n.Stop()
	rn.n = nil
}

// feed hands one Ready to the real loop and waits until the loop has called Advance.
func (rn *raNode) feed(rd raftlib.Ready) error {
	select {
	case rn.fake.readyc <- rd:
	case <-rn.loopEnd:
		return fmt.Errorf("the Ready loop has ended")
	case <-time.After(120 * time.Second):
		return fmt.Errorf("the Ready loop does not take a Ready")
	}
	select {
	case <-rn.fake.advc:
		return nil
	case <-rn.loopEnd:
		return fmt.Errorf("the Ready loop ended while handling a Ready")
	case <-time.After(120 * time.Second):
		return fmt.Errorf("the Ready loop does not finish a Ready (publishEntries blocked?)")
	}
}

func (rn *raNode) entryOf(idx uint64, e raEnt) (raftpb.Entry, error) {
	re := raftpb.Entry{Type: raftpb.EntryNormal, Term: e.Term, Index: idx}
	if e.Kind == "blk" {
		data, err := marshalEntryData(rn.w.blocks[e.B])
		if err != nil {
			return re, err
		}
		re.Data = data
	}
	return re, nil
}

// waitWorker waits until the block factory's worker has finished the entries the last Ready published.
func (rn *raNode) waitWorker(cond func() bool) bool {
	deadline := time.Now().Add(30 * time.Second) // generous: the machine is shared; only a broken tree runs into it
	for time.Now().Before(deadline) {
		if cond() {
			return true
		}
		time.Sleep(100 * time.Microsecond)
	}
	return cond()
}

// raStorageEntries reads [lo, hi) from the node's raft storage; the storage panics when it does not hold the range.
func raStorageEntries(ms *raftlib.MemoryStorage, lo, hi uint64) (ents []raftpb.Entry, err error) {
	defer func() {
		if r := recover(); r != nil {
			err = fmt.Errorf("%v", r)
		}
	}()
	return ms.Entries(lo, hi, 1<<30)
}

var raSentinel = &types.Block{Header: &types.BlockHeader{BlockNo: 1 << 50}}

// apply publishes the committed entry idx (with `overlap` already applied entries in front of it, which
// entriesToApply has to drop) and waits for the block factory.
func (rn *raNode) apply(idx uint64, overlap uint64, what string) error {
	lo := idx
	first, _ := rn.rs.raftStorage.FirstIndex()
	for overlap > 0 && lo > first && lo > 1 {
		lo--
		overlap--
	}
	ents, err := raStorageEntries(rn.rs.raftStorage, lo, idx+1)
	if err != nil {
		return fmt.Errorf("the raft storage of the node cannot hand out the committed entries %d..%d: %v", lo, idx, err)
	}
	if what == "marker" {
		rn.plantSentinel()
	}
	if err := rn.feed(raftlib.Ready{CommittedEntries: ents}); err != nil {
		return err
	}
	rn.waitApplied(idx, what)
	return nil
}

// plantSentinel makes the completion of reset() observable: reset() clears prevBlock under jobLock as its first effect.
// (A sentinel that reset() did not clear stays where it is: the read-back then shows a previous work that the
// specification does not have.)
func (rn *raNode) plantSentinel() {
	rn.bf.jobLock.Lock()
	if rn.bf.prevBlock == nil {
		rn.bf.prevBlock = raSentinel
	}
	rn.bf.jobLock.Unlock()
}

// waitApplied waits until the block factory's worker is through with entry idx (the last one a Ready published).
func (rn *raNode) waitApplied(idx uint64, what string) {
	switch what {
	case "marker":
		rn.waitWorker(func() bool {
			rn.bf.jobLock.Lock()
			defer rn.bf.jobLock.Unlock()
			rn.bf.ready.RLock()
			defer rn.bf.ready.RUnlock()
			return rn.bf.prevBlock == nil && rn.bf.ready.ce != nil && rn.bf.ready.ce.index == idx
		})
	case "connect", "connect-own", "replay":
		rn.waitWorker(func() bool { return rn.rs.commitProgress.GetConnect().index == idx })
	}
	rn.n.Barrier()
}

// ---------------------------------------------------------------- reading the real node back

type raObs struct {
	Ent      []string `json:"ent"`
	Last     uint64   `json:"last"`
	Above    string   `json:"above,omitempty"`
	MemLast  uint64   `json:"mem_last"`
	Commit   uint64   `json:"commit"`
	Term     uint64   `json:"term"`
	Snap     uint64   `json:"snap"`
	Stored   []int    `json:"stored"`
	Chain    []string `json:"chain"`
	Applied  uint64   `json:"applied"`
	Req      raProg   `json:"req"`
	Conn     raProg   `json:"conn"`
	Proposed string   `json:"proposed"`
	PrevWork int      `json:"prevWork"`
	Ready    uint64   `json:"ready"`
	ReadyIdx uint64   `json:"ready_idx"` // index of the entry the block factory holds as its ready marker
	Role     string   `json:"role"`
	Lterm    uint64   `json:"lterm"`
	Problems []string `json:"problems,omitempty"`
}

func (w *raWorld) name(hash []byte) string {
	if k, ok := w.byHash[string(hash)]; ok {
		return fmt.Sprintf("b%d", k)
	}
	if len(hash) == 0 {
		return "-"
	}
	return fmt.Sprintf("?%x", hash[:4])
}

func (rn *raNode) observe() *raObs {
	o := &raObs{}
	wal := rn.rs.walDB
	o.Last, _ = wal.GetRaftEntryLastIdx()
	for i := uint64(1); i <= o.Last; i++ {
		e, err := wal.GetRaftEntry(i)
		switch {
		case err != nil:
			o.Ent = append(o.Ent, "ERR:"+err.Error())
		case e.Type == consensus.EntryBlock:
			o.Ent = append(o.Ent, fmt.Sprintf("%d:blk:%s", e.Term, rn.w.name(e.Data)))
		case e.Type == consensus.EntryEmpty:
			o.Ent = append(o.Ent, fmt.Sprintf("%d:nop:-", e.Term))
		default:
			o.Ent = append(o.Ent, fmt.Sprintf("%d:type%d", e.Term, e.Type))
		}
	}
	if e, err := wal.GetRaftEntry(o.Last + 1); err == nil {
		o.Above = fmt.Sprintf("entry %d above the last index: term %d", o.Last+1, e.Term)
	}
	o.MemLast, _ = rn.rs.raftStorage.LastIndex()
	if hs, err := wal.GetHardState(); err == nil && hs != nil {
		o.Commit, o.Term = hs.Commit, hs.Term
	}
	if s, err := wal.GetSnapshot(); err == nil && s != nil {
		o.Snap = s.Metadata.Index
	}
	for k := 1; k <= len(rn.w.defs); k++ {
		if b, err := wal.GetBlock(rn.w.blocks[k].BlockHash()); err == nil && b != nil {
			o.Stored = append(o.Stored, k)
		}
	}
	best, _ := wal.GetBestBlock()
	for h := uint64(1); h <= best.BlockNo(); h++ {
		hash, err := wal.GetHashByNo(h)
		if err != nil {
			o.Chain = append(o.Chain, "ERR")
		} else {
			o.Chain = append(o.Chain, rn.w.name(hash))
		}
	}
	if len(o.Chain) > 0 && o.Chain[len(o.Chain)-1] != rn.w.name(best.BlockHash()) {
		o.Problems = append(o.Problems, fmt.Sprintf("best block %s is not the block of the highest index entry %s", rn.w.name(best.BlockHash()), o.Chain[len(o.Chain)-1]))
	}
	var all []*types.Block
	for k := 0; k <= len(rn.w.defs); k++ {
		all = append(all, rn.w.blocks[k])
	}
	o.Problems = append(o.Problems, rn.n.Project(all).Problems...)
	o.Applied = rn.rs.appliedIndex
	if r := rn.rs.commitProgress.GetRequest(); r.block != nil {
		o.Req = raProg{r.index, r.block.BlockNo()}
	}
	if c := rn.rs.commitProgress.GetConnect(); c.block != nil {
		o.Conn = raProg{c.index, c.block.BlockNo()}
	}
	o.Proposed = "-"
	if p := rn.bf.raftOp.proposed; p != nil {
		o.Proposed = rn.w.name(p.block.BlockHash())
	}
	rn.bf.jobLock.RLock()
	o.PrevWork = -1
	if rn.bf.prevBlock != nil {
		o.PrevWork = int(rn.bf.prevBlock.BlockNo())
	}
	rn.bf.jobLock.RUnlock()
	rn.bf.ready.RLock()
	if rn.bf.ready.ce != nil {
		o.Ready, o.ReadyIdx = rn.bf.ready.ce.term, rn.bf.ready.ce.index
	}
	rn.bf.ready.RUnlock()
	st := rn.rs.GetLeaderStatus()
	o.Role, o.Lterm = "F", st.Term
	if st.IsLeader {
		o.Role = "L"
	}
	return o
}

func raBname(k int) string {
	if k == 0 {
		return "-"
	}
	return fmt.Sprintf("b%d", k)
}

// diff compares the real node with the state of the specification; "" = equal.
func (o *raObs) diff(s *raState) (kind string, text string) {
	var want []string
	for _, e := range s.Ent {
		want = append(want, fmt.Sprintf("%d:%s:%s", e.Term, e.Kind, raBname(e.B)))
	}
	var wchain []string
	for _, b := range s.Chain {
		wchain = append(wchain, raBname(b))
	}
	wstored := append([]int(nil), s.Stored...)
	sort.Ints(wstored)
	switch {
	case len(o.Problems) > 0:
		return "chain-db-incoherent", strings.Join(o.Problems, "; ")
	case fmt.Sprint(o.Chain) != fmt.Sprint(wchain):
		return "chain", fmt.Sprintf("main chain is %v, specification %v", o.Chain, wchain)
	case fmt.Sprint(o.Ent) != fmt.Sprint(want) || o.Last != uint64(len(s.Ent)):
		return "wal-log", fmt.Sprintf("WAL holds %v (last index %d), specification %v", o.Ent, o.Last, want)
	case o.Above != "":
		return "wal-log", o.Above
	case o.MemLast != uint64(len(s.Ent)):
		return "raft-storage", fmt.Sprintf("raft storage ends at %d, the log at %d", o.MemLast, len(s.Ent))
	case o.Commit != s.Commit:
		return "hard-state", fmt.Sprintf("stored commit index %d, specification %d", o.Commit, s.Commit)
	case o.Snap != s.Snap:
		return "snapshot", fmt.Sprintf("stored snapshot index %d, specification %d", o.Snap, s.Snap)
	case fmt.Sprint(o.Stored) != fmt.Sprint(wstored):
		return "stored-blocks", fmt.Sprintf("blocks found by hash %v, specification %v", o.Stored, wstored)
	case o.Applied != s.Applied:
		return "applied-index", fmt.Sprintf("appliedIndex %d, specification %d", o.Applied, s.Applied)
	case o.Req != s.Req:
		return "commit-progress", fmt.Sprintf("last requested entry %+v, specification %+v", o.Req, s.Req)
	case o.Conn != s.Conn:
		return "commit-progress", fmt.Sprintf("last connected entry %+v, specification %+v", o.Conn, s.Conn)
	case o.Proposed != raBname(s.Proposed):
		return "proposed", fmt.Sprintf("proposal kept by the operator %s, specification %s", o.Proposed, raBname(s.Proposed))
	case o.PrevWork == int(raSentinel.BlockNo()):
		return "prev-work", fmt.Sprintf("an empty entry (ready marker) was among the committed entries published, but the block factory's previous work was not reset: "+
			"the marker the factory holds is entry %d of term %d (the entry did not reach handleReadyMarker, or reset() did not run)", o.ReadyIdx, o.Ready)
	case o.PrevWork != s.PrevWork:
		return "prev-work", fmt.Sprintf("previous work at height %d, specification %d", o.PrevWork, s.PrevWork)
	case o.Ready != s.Ready:
		return "ready-marker", fmt.Sprintf("ready marker term %d, specification %d", o.Ready, s.Ready)
	case o.Role != s.Role || (s.Role == "L" && o.Lterm != s.Lterm):
		return "leader-status", fmt.Sprintf("leader status %s/%d, specification %s/%d", o.Role, o.Lterm, s.Role, s.Lterm)
	}
	return "", ""
}

// ---------------------------------------------------------------- one step of the specification on the real node

func raGate(s *raState) bool {
	return s.Role == "L" && s.Ready == s.Lterm && s.PrevWork != len(s.Chain) && s.Req.No <= s.Conn.No
}

// step performs one action; src is the state of the specification in front of it.
func (rn *raNode) step(a *raAct, src, dst *raState, rng interface{ Intn(int) int }) (err error) {
	defer func() {
		if r := recover(); r != nil {
			err = fmt.Errorf("PANIC: %v", r)
		}
	}()
	switch a.Name {
	case "FollowerAppend":
		e, err := rn.entryOf(a.I, raEnt{Term: a.Term, Kind: a.Kind, B: a.B})
		if err != nil {
			return err
		}
		rd := raftlib.Ready{Entries: []raftpb.Entry{e}}
		if dst.Term != src.Term {
			rd.HardState = raftpb.HardState{Term: dst.Term, Commit: src.Commit}
		}
		return rn.feed(rd)
	case "AdvanceCommit":
		return rn.feed(raftlib.Ready{HardState: raftpb.HardState{Term: src.Term, Commit: a.C}})
	case "BecomeLeader":
		idx := uint64(len(src.Ent)) + 1
		return rn.feed(raftlib.Ready{
			SoftState: &raftlib.SoftState{Lead: raSelfID, RaftState: raftlib.StateLeader},
			HardState: raftpb.HardState{Term: a.Term, Vote: raSelfID, Commit: src.Commit},
			Entries:   []raftpb.Entry{{Type: raftpb.EntryNormal, Term: a.Term, Index: idx}},
		})
	case "StepDown":
		if !a.Keep {
			rn.inflight = nil
		}
		return rn.feed(raftlib.Ready{
			SoftState: &raftlib.SoftState{Lead: raOtherID, RaftState: raftlib.StateFollower},
			HardState: raftpb.HardState{Term: a.Term, Commit: src.Commit},
		})
	case "Propose":
		jq := make(chan interface{}, 1)
		rn.bf.QueueJob(time.Now(), jq)
		var work *Work
		select {
		case x := <-jq:
			work = x.(*Work)
		default:
			return fmt.Errorf("GATE: QueueJob hands out no work although the leader is ready, the tip moved and nothing is pending")
		}
		k := a.B
		blk, bs, err := rn.n.Produce(rn.w.ts[k], rn.w.txs[k], rn.w.bp, 1)
		if err != nil {
			return fmt.Errorf("HARNESS: block production on the node under test failed: %v", err)
		}
		if !bytes.Equal(blk.BlockHash(), rn.w.blocks[k].BlockHash()) {
			return fmt.Errorf("HARNESS: block production is not reproducible (block %d)", k)
		}
		n0 := len(rn.fake.proposals)
		if err := rn.bf.raftOp.propose(blk, bs, work.term); err != nil {
			return fmt.Errorf("GATE: RaftOperator.propose refuses the block of a ready leader: %v", err)
		}
		if len(rn.fake.proposals) != n0+1 {
			return fmt.Errorf("GATE: propose handed %d proposals to raft", len(rn.fake.proposals)-n0)
		}
		rn.inflight = rn.fake.proposals[n0]
		return nil
	case "AppendOwn":
		if rn.inflight == nil {
			return fmt.Errorf("HARNESS: no proposal in flight")
		}
		e := raftpb.Entry{Type: raftpb.EntryNormal, Term: src.Inflight[0].Term, Index: uint64(len(src.Ent)) + 1, Data: rn.inflight}
		rn.inflight = nil
		return rn.feed(raftlib.Ready{Entries: []raftpb.Entry{e}})
	case "Apply":
		return rn.apply(a.I, uint64(rng.Intn(3)), a.What)
	case "Snapshot":
		// triggerSnapshot runs at the end of EVERY Ready; the harness keeps it quiet (huge frequency) except in the
		// Ready that stands for this step, so that the connect progress it sees is the one of the specification
		rn.rs.snapFrequency = rn.snapFrq
		err := rn.feed(raftlib.Ready{})
		rn.rs.snapFrequency = raHuge
		return err
	}
	return fmt.Errorf("HARNESS: unknown action %q", a.Name)
}

// ---------------------------------------------------------------- a behaviour

type raReplay struct {
	Behaviour string     `json:"behaviour"`
	Step      int        `json:"step"`
	Acts      []raAct    `json:"actions"`
	Blocks    []raBlkDef `json:"blocks"`
	Crash     string     `json:"crash_point,omitempty"`
	Drain     uint64     `json:"drain_entry,omitempty"` // the behaviour is over; the rest of the committed entries is being applied
	Real      *raObs     `json:"real,omitempty"`
	Spec      *raState   `json:"spec,omitempty"`
}

func raActs(b *raBehaviour, upto int) []raAct {
	var out []raAct
	for i := 0; i <= upto && i < len(b.Steps); i++ {
		out = append(out, b.Steps[i].Act)
	}
	return out
}

type raProgress struct {
	path string
}

func (p *raProgress) set(v interface{}) {
	if p.path == "" {
		return
	}
	if raw, err := json.Marshal(v); err == nil {
		if os.WriteFile(p.path+".tmp", raw, 0o644) == nil {
			os.Rename(p.path+".tmp", p.path)
		}
	}
}

// checkRedelivery: after a restart the real etcd node must hand back exactly the committed entries behind the snapshot.
func (rn *raNode) checkRedelivery(s *raState) string {
	var got, want []string
	for _, e := range rn.redeliv {
		got = append(got, fmt.Sprintf("%d@%d", e.Index, e.Term))
	}
	for i := s.Snap + 1; i <= s.Commit; i++ {
		want = append(want, fmt.Sprintf("%d@%d", i, s.Ent[i-1].Term))
	}
	if fmt.Sprint(got) != fmt.Sprint(want) {
		return fmt.Sprintf("after the restart raft re-delivers %v, the committed entries behind the snapshot are %v", got, want)
	}
	return ""
}

// raRes counts the violations raised (instances, not signatures) so that a broken tree does not run every behaviour
// into its time-outs.
type raRes struct {
	*verifkit.Result
	n int
}

func (r *raRes) Violate(sig map[string]interface{}, replay interface{}, format string, a ...interface{}) {
	r.n++
	r.Result.Violate(sig, replay, format, a...)
}

func raRunBehaviour(b *raBehaviour, in *raInput, res *raRes, prog *raProgress, salt int64) {
	if len(b.Steps) == 0 {
		return
	}
	final := &b.Steps[len(b.Steps)-1].State
	db.VerifReset()
	db.VerifSetRecording(false)
	w, err := raBuildWorld(final.Blks, verifkit.Seed())
	if err != nil {
		panic(fmt.Sprintf("cannot build the block universe of %s: %v", b.ID, err))
	}
	rng := verifkit.Rng(salt)
	dir := raFreshDir("node")
	prog.set(map[string]interface{}{"behaviour": b.ID, "step": -1, "actions": raActs(b, -1), "blocks": final.Blks})
	rn, err := raStart(w, dir, true, b.SnapFreq)
	if err != nil {
		panic(fmt.Sprintf("cannot start the node under test: %v", err))
	}
	defer func() { rn.stop() }()
	// the images of the stores right after the first start (genesis + identity) and the journal from here on
	base := map[string]map[string][]byte{}
	var dirs []string
	for _, d := range db.VerifStoreDirs() {
		if strings.HasPrefix(d, dir+"/") {
			base[d] = db.VerifDump(d)
			dirs = append(dirs, d)
		}
	}
	if b.Crash {
		db.VerifSetRecording(true)
	}
	src := &raState{Term: 1, PrevWork: -1, Role: "F"}
	sig := func(kind string, a *raAct) map[string]interface{} {
		s := map[string]interface{}{"kind": kind, "action": a.Name}
		if a.Name == "Apply" {
			s["what"] = a.What
		}
		return s
	}
	for i := 0; i < len(b.Steps); i++ {
		st := &b.Steps[i]
		a := &st.Act
		rep := raReplay{Behaviour: b.ID, Step: i, Acts: raActs(b, i), Blocks: final.Blks, Spec: &st.State}
		// What ONE Ready of etcd looks like: new entries (a run of follower appends at consecutive indices), a hard state
		// with a higher commit index, and the entries that became committed (a run of Apply steps).  Every second such
		// run of steps is handed to the loop as one Ready; the node is compared with the state after the last of them.
		if (a.Name == "FollowerAppend" || a.Name == "AdvanceCommit" || a.Name == "Apply") && rng.Intn(2) == 0 {
			j := i - 1
			if a.Name == "FollowerAppend" {
				j = i
				for j+1 < len(b.Steps) && b.Steps[j+1].Act.Name == "FollowerAppend" && b.Steps[j+1].Act.I == b.Steps[j].Act.I+1 {
					j++
				}
			}
			if j+1 < len(b.Steps) && b.Steps[j+1].Act.Name == "AdvanceCommit" {
				j++
			}
			firstApply := -1
			for j+1 < len(b.Steps) && b.Steps[j+1].Act.Name == "Apply" {
				j++
				if firstApply < 0 {
					firstApply = j
				}
			}
			if j > i {
				var rd raftlib.Ready
				marker, lastWhat, lastIdx := false, "", uint64(0)
				for k := i; k <= j; k++ {
					ak := &b.Steps[k].Act
					switch ak.Name {
					case "FollowerAppend":
						e, err := rn.entryOf(ak.I, raEnt{Term: ak.Term, Kind: ak.Kind, B: ak.B})
						if err != nil {
							panic(err)
						}
						rd.Entries = append(rd.Entries, e)
					case "Apply":
						var ce *raftpb.Entry
						for x := range rd.Entries {
							if rd.Entries[x].Index == ak.I {
								ce = &rd.Entries[x]
							}
						}
						if ce == nil {
							es, err := raStorageEntries(rn.rs.raftStorage, ak.I, ak.I+1)
							if err != nil || len(es) != 1 {
								rep.Real = rn.observe()
								res.Violate(sig("raft-storage", ak), rep, "%s step %d: the raft storage of the node cannot hand out the committed entry %d: %v", b.ID, k, ak.I, err)
								return
							}
							ce = &es[0]
						}
						rd.CommittedEntries = append(rd.CommittedEntries, *ce)
						marker = marker || ak.What == "marker"
						if ak.What != "dup" {
							lastWhat, lastIdx = ak.What, ak.I
						}
					}
				}
				// like etcd after a snapshot/restart, the committed entries may start with entries that are applied already
				// (entriesToApply has to drop exactly those)
				if n := len(rd.CommittedEntries); n > 0 {
					lo := rd.CommittedEntries[0].Index
					first, _ := rn.rs.raftStorage.FirstIndex()
					for ov := rng.Intn(3); ov > 0 && lo > first && lo > 1; ov-- {
						lo--
					}
					if lo < rd.CommittedEntries[0].Index {
						if pre, err := raStorageEntries(rn.rs.raftStorage, lo, rd.CommittedEntries[0].Index); err == nil {
							rd.CommittedEntries = append(pre, rd.CommittedEntries...)
						}
					}
				}
				last := &b.Steps[j].State
				if last.Term != src.Term || last.Commit != src.Commit {
					rd.HardState = raftpb.HardState{Term: last.Term, Commit: last.Commit}
				}
				rep = raReplay{Behaviour: b.ID, Step: j, Acts: raActs(b, j), Blocks: final.Blks, Spec: last}
				prog.set(rep)
				res.Count(fmt.Sprintf("%s|%d-%d", b.ID, i, j))
				if marker {
					rn.plantSentinel()
				}
				if err := rn.feed(rd); err != nil {
					rep.Real = rn.observe()
					res.Violate(sig("step-fails", a), rep, "%s steps %d..%d (one Ready: %d entries, %d committed entries): %v", b.ID, i, j, len(rd.Entries), len(rd.CommittedEntries), err)
					return
				}
				rn.waitApplied(lastIdx, lastWhat)
				o := rn.observe()
				if kind, text := o.diff(last); kind != "" {
					rep.Real = o
					res.Violate(sig(kind, a), rep, "%s steps %d..%d, after one Ready with %d entries, commit %d, %d committed entries: %s", b.ID, i, j, len(rd.Entries), last.Commit, len(rd.CommittedEntries), text)
					return
				}
				src = last
				i = j
				continue
			}
		}
		prog.set(rep)
		res.Count(fmt.Sprintf("%s|%d", b.ID, i))
		if a.Name == "CrashRestart" {
			rn.stop()
			rn, err = raStart(w, dir, false, b.SnapFreq)
			if err != nil {
				res.Violate(sig("restart-fails", a), rep, "%s step %d: the node does not come up again: %v", b.ID, i, err)
				return
			}
			if msg := rn.checkRedelivery(&st.State); msg != "" {
				res.Violate(sig("redelivery", a), rep, "%s step %d: %s", b.ID, i, msg)
				return
			}
		} else {
			// the gates of QueueJob: no work is handed out in a state where the specification does not allow a proposal
			if !raGate(src) && src.Role == "L" {
				jq := make(chan interface{}, 1)
				rn.bf.QueueJob(time.Now(), jq)
				select {
				case <-jq:
					res.Violate(sig("gate-open", a), rep, "%s step %d: QueueJob hands out work in a state where no block may be proposed (ready %d/leader term %d, previous work %d, tip %d, requested %d, connected %d)",
						b.ID, i, src.Ready, src.Lterm, src.PrevWork, len(src.Chain), src.Req.No, src.Conn.No)
					return
				default:
				}
			}
			if err := rn.step(a, src, &st.State, rng); err != nil {
				kind := "step-fails"
				if strings.HasPrefix(err.Error(), "HARNESS:") {
					panic(err.Error())
				} else if strings.HasPrefix(err.Error(), "GATE:") {
					kind = "gate-closed"
				} else if strings.HasPrefix(err.Error(), "PANIC:") {
					kind = "panic"
				}
				rep.Real = rn.observe()
				res.Violate(sig(kind, a), rep, "%s step %d (%s): %v", b.ID, i, a.Name, err)
				return
			}
		}
		o := rn.observe()
		if kind, text := o.diff(&st.State); kind != "" {
			rep.Real = o
			res.Violate(sig(kind, a), rep, "%s step %d, after %s %s: %s", b.ID, i, a.Name, raActStr(a), text)
			return
		}
		src = &st.State
	}
	// drain: everything committed is applied -> the tip is the block of the highest committed block entry
	for idx := src.Applied + 1; idx <= src.Commit; idx++ {
		what := "connect"
		if src.Ent[idx-1].Kind == "nop" {
			what = "marker"
		}
		prog.set(raReplay{Behaviour: b.ID, Step: len(b.Steps), Acts: raActs(b, len(b.Steps)), Blocks: final.Blks, Drain: idx})
		if err := rn.apply(idx, 0, what); err != nil {
			res.Violate(map[string]interface{}{"kind": "drain-fails"}, raReplay{Behaviour: b.ID, Step: len(b.Steps), Acts: raActs(b, len(b.Steps)), Blocks: final.Blks}, "%s: applying the rest of the committed entries: %v", b.ID, err)
			return
		}
	}
	wantChain := raBlockSeq(src.Ent, src.Commit)
	o := rn.observe()
	if fmt.Sprint(o.Chain) != fmt.Sprint(wantChain) || len(o.Problems) > 0 || o.Applied != src.Commit {
		res.Violate(map[string]interface{}{"kind": "final-tip"}, raReplay{Behaviour: b.ID, Step: len(b.Steps), Acts: raActs(b, len(b.Steps)), Blocks: final.Blks, Real: o},
			"%s: with all %d committed entries applied the chain is %v (applied %d, %v), the committed block entries are %v", b.ID, src.Commit, o.Chain, o.Applied, o.Problems, wantChain)
		return
	}
	res.Count("")
	if !b.Crash {
		return
	}
	// ------------------------------------------------------------ crash images
	db.VerifSetRecording(false)
	finalEnt, finalCommit := src.Ent, src.Commit
	rn.stop()
	units := db.VerifJournalCopy(0, db.VerifJournalLen())
	for k := 0; k <= len(units); k++ {
		cp := fmt.Sprintf("after %d of %d durable write units", k, len(units))
		if k < len(units) {
			cp += fmt.Sprintf(" (next: %s on %s, %d ops)", units[k].Kind, units[k].Store[len(dir):], len(units[k].Ops))
		}
		rep := raReplay{Behaviour: b.ID, Step: -1, Acts: raActs(b, len(b.Steps)), Blocks: final.Blks, Crash: cp}
		prog.set(rep)
		res.Count(fmt.Sprintf("%s|crash|%d", b.ID, k))
		images := map[string]map[string][]byte{}
		for d, m := range base {
			c := map[string][]byte{}
			for kk, v := range m {
				c[kk] = v
			}
			images[d] = c
		}
		db.VerifApply(images, units[:k], nil, 0)
		nd := raFreshDir("crash")
		for _, d := range dirs {
			db.VerifInstall(nd+d[len(dir):], images[d])
		}
		unitKind := "end"
		if k < len(units) {
			unitKind = units[k].Kind + units[k].Store[len(dir):]
		}
		csig := func(kind string) map[string]interface{} {
			return map[string]interface{}{"kind": kind, "phase": "crash-image", "next_unit": unitKind}
		}
		cn, err := raStart(w, nd, false, b.SnapFreq)
		if err != nil {
			res.Violate(csig("restart-fails"), rep, "%s, crash %s: the node does not come up: %v", b.ID, cp, err)
			return
		}
		ok := func() bool {
			defer cn.stop()
			o := cn.observe()
			rep.Real = o
			if len(o.Problems) > 0 {
				res.Violate(csig("chain-db-incoherent"), rep, "%s, crash %s: after the restart: %s", b.ID, cp, strings.Join(o.Problems, "; "))
				return false
			}
			// the log the node has, as the node reports it
			var log []raEnt
			for _, s := range o.Ent {
				var e raEnt
				var name string
				parts := strings.SplitN(s, ":", 3)
				if len(parts) != 3 {
					res.Violate(csig("wal-log"), rep, "%s, crash %s: unreadable WAL entry %q", b.ID, cp, s)
					return false
				}
				fmt.Sscanf(parts[0], "%d", &e.Term)
				e.Kind, name = parts[1], parts[2]
				if e.Kind == "blk" {
					if _, err := fmt.Sscanf(name, "b%d", &e.B); err != nil {
						res.Violate(csig("wal-log"), rep, "%s, crash %s: WAL entry %q names no block of the run", b.ID, cp, s)
						return false
					}
				}
				log = append(log, e)
			}
			if o.Commit > uint64(len(log)) || o.Snap > o.Commit {
				res.Violate(csig("hard-state"), rep, "%s, crash %s: stored commit index %d, snapshot %d, log of %d entries", b.ID, cp, o.Commit, o.Snap, len(log))
				return false
			}
			// the crash-free run never rewrites a committed entry: the image's committed prefix is a prefix of the final log
			for i := uint64(0); i < o.Commit; i++ {
				if i >= uint64(len(finalEnt)) || log[i] != finalEnt[i] {
					res.Violate(csig("committed-prefix"), rep, "%s, crash %s: committed entry %d of the image is %+v, the run has %+v", b.ID, cp, i+1, log[i], finalEnt)
					return false
				}
			}
			img := &raState{Ent: log, Commit: o.Commit, Snap: o.Snap}
			if msg := cn.checkRedelivery(img); msg != "" {
				res.Violate(csig("redelivery"), rep, "%s, crash %s: %s", b.ID, cp, msg)
				return false
			}
			// the tip may be behind the committed entries but never something else: a prefix of their blocks
			all := raBlockSeq(log, o.Commit)
			if len(o.Chain) > len(all) || fmt.Sprint(o.Chain) != fmt.Sprint(all[:len(o.Chain)]) {
				res.Violate(csig("tip-not-committed"), rep, "%s, crash %s: the chain after the restart is %v, the committed block entries of the node's own log are %v", b.ID, cp, o.Chain, all)
				return false
			}
			// every block entry below the snapshot must be connected (replay starts behind the snapshot)
			if below := raBlockSeq(log, o.Snap); len(below) > len(o.Chain) {
				res.Violate(csig("snapshot-ahead"), rep, "%s, crash %s: the snapshot (index %d) covers the block entries %v, connected are only %v", b.ID, cp, o.Snap, below, o.Chain)
				return false
			}
			// replay what raft re-delivers
			for idx := o.Snap + 1; idx <= o.Commit; idx++ {
				what := "connect"
				if log[idx-1].Kind == "nop" {
					what = "marker"
				}
				if err := cn.apply(idx, 0, what); err != nil {
					res.Violate(csig("replay-fails"), rep, "%s, crash %s: re-applying entry %d: %v", b.ID, cp, idx, err)
					return false
				}
			}
			o2 := cn.observe()
			rep.Real = o2
			if fmt.Sprint(o2.Chain) != fmt.Sprint(all) || len(o2.Problems) > 0 {
				res.Violate(csig("replay-tip"), rep, "%s, crash %s: after re-applying the committed entries %d..%d the chain is %v %v, the committed block entries are %v", b.ID, cp, o.Snap+1, o.Commit, o2.Chain, o2.Problems, all)
				return false
			}
			// the rest of the log arrives (from whoever leads now), everything is committed and applied
			first := o.Commit + 1
			for first <= uint64(len(log)) && first <= uint64(len(finalEnt)) && log[first-1] == finalEnt[first-1] {
				first++
			}
			var rest []raftpb.Entry
			for i := first; i <= uint64(len(finalEnt)); i++ {
				e, err := cn.entryOf(i, finalEnt[i-1])
				if err != nil {
					panic(err)
				}
				rest = append(rest, e)
			}
			// (the image's log may be longer than the final one: the run truncated it and wrote the same entries again; the
			// surplus stays uncommitted)
			rd := raftlib.Ready{Entries: rest}
			if finalCommit > o.Commit {
				rd.HardState = raftpb.HardState{Term: finalEnt[len(finalEnt)-1].Term, Commit: finalCommit}
			}
			if len(rest) > 0 || finalCommit > o.Commit {
				if err := cn.feed(rd); err != nil {
					res.Violate(csig("catch-up-fails"), rep, "%s, crash %s: delivering the rest of the log: %v", b.ID, cp, err)
					return false
				}
			}
			for idx := o.Commit + 1; idx <= finalCommit; idx++ {
				what := "connect"
				if finalEnt[idx-1].Kind == "nop" {
					what = "marker"
				}
				if err := cn.apply(idx, 0, what); err != nil {
					res.Violate(csig("catch-up-fails"), rep, "%s, crash %s: applying entry %d: %v", b.ID, cp, idx, err)
					return false
				}
			}
			o3 := cn.observe()
			rep.Real = o3
			if fmt.Sprint(o3.Chain) != fmt.Sprint(wantChain) || len(o3.Problems) > 0 {
				res.Violate(csig("no-convergence"), rep, "%s, crash %s: with the whole log delivered and applied the chain is %v %v, the crash-free run ends on %v", b.ID, cp, o3.Chain, o3.Problems, wantChain)
				return false
			}
			return true
		}()
		if !ok {
			return
		}
	}
}

func raBlockSeq(ent []raEnt, n uint64) []string {
	out := []string{}
	for i := uint64(0); i < n && i < uint64(len(ent)); i++ {
		if ent[i].Kind == "blk" {
			out = append(out, raBname(ent[i].B))
		}
	}
	return out
}

func raActStr(a *raAct) string {
	switch a.Name {
	case "FollowerAppend":
		return fmt.Sprintf("(index %d, term %d, %s %s)", a.I, a.Term, a.Kind, raBname(a.B))
	case "AdvanceCommit":
		return fmt.Sprintf("(%d)", a.C)
	case "Apply":
		return fmt.Sprintf("(entry %d: %s)", a.I, a.What)
	case "Propose", "AppendOwn":
		return fmt.Sprintf("(%s)", raBname(a.B))
	case "StepDown", "BecomeLeader":
		return fmt.Sprintf("(term %d)", a.Term)
	}
	return ""
}

func TestVerifRaftApply(t *testing.T) {
	if !verifkit.Enabled() {
		t.Skip("run through the check driver")
	}
	zerolog.SetGlobalLevel(zerolog.ErrorLevel)
	BlockIntervalMs = time.Millisecond
	ConfSnapshotCatchUpEntriesN = 1
	var in raInput
	if err := verifkit.ReadInput(&in); err != nil {
		t.Fatal(err)
	}
	res := verifkit.NewResult()
	prog := &raProgress{path: os.Getenv("VERIF_OUT") + ".progress"}
	defer func() {
		verifnode.Cleanup()
		if err := res.Write(); err != nil {
			t.Fatal(err)
		}
		os.Remove(prog.path)
	}()
	shard, nshard := 0, 1
	if s := os.Getenv("VERIF_SHARD"); s != "" {
		fmt.Sscanf(s, "%d/%d", &shard, &nshard)
	}
	only := os.Getenv("VERIF_ONLY")
	failed := 0
	rres := &raRes{Result: res}
	for bi := range in.Behaviours {
		b := &in.Behaviours[bi]
		if (only == "" && bi%nshard != shard) || (only != "" && b.ID != only) {
			continue
		}
		before := rres.n
		raRunBehaviour(b, &in, rres, prog, int64(bi))
		if rres.n > before {
			failed++
		}
		if res.NumViolations() >= 8 || failed >= 6 {
			break
		}
	}
}
