//go:build verif

package dpos

// Conformance harness for spec/consensus/BpSnapshots.tla (extension of C09: which block-producer list is in force at
// which block height).  TLC-generated behaviours are replayed on the REAL objects
//
//	dpos.Status (Update: connect / rollback), bp.Snapshots (AddSnapshot, UpdateCluster, gc, loadClusterSnapshot),
//	bp.Cluster (Update, BPs, Size, BpID2Index), system.GetRankers / InitVoteResult / updateParam / CommitParams /
//	InitSystemParams, a real state.ChainStateDB (the vote ranking and the BPCOUNT parameter live in the real
//	system-contract state; a snapshot that is not cached is recomputed from the state root of the real block)
//
// with a stub ChainDB (by-number index + genesis info) that the harness maintains the way chain.ChainService does:
// a block is indexed after Status.Update (chainProcessor.execute), during a reorganisation the index keeps showing
// the old main chain until swapChain, InitSystemParams is called at the end of a reorganisation and at start-up.
//
// The code's election period is a constant (100).  Model height h (period P) is mapped to the real height
// (h div P)*100 + offset[h mod P] with offset = 0, 1, .., 99 (boundary, boundary+1, ..., boundary-1); the real blocks in
// between are connected too and carry the content of the previous model block.
//
// After every step: BPs(), Size(), BpID2Index of every candidate key, the cached snapshots and GetBpCount() are
// compared with the model's state, and the property itself is evaluated on the code: a FRESH node that is fed only
// the current main chain (no reorganisation, no restart) must report the same list (history independence).

import (
	"encoding/json"
	"fmt"
	"math/big"
	"os"
	"runtime/debug"
	"sort"
	"strconv"
	"strings"
	"testing"

	"github.com/aergoio/aergo-lib/db"
	"github.com/aergoio/aergo/v2/consensus"
	"github.com/aergoio/aergo/v2/consensus/impl/dpos/bp"
	"github.com/aergoio/aergo/v2/contract/system"
	"github.com/aergoio/aergo/v2/internal/verifkit"
	"github.com/aergoio/aergo/v2/state"
	"github.com/aergoio/aergo/v2/state/statedb"
	"github.com/aergoio/aergo/v2/types"
	"github.com/rs/zerolog"
)

// ---------------------------------------------------------------- input

type bsLookup struct {
	H   int    `json:"h"`
	Ref int    `json:"ref"`
	Src string `json:"src"`
}

type bsStep struct {
	A       string           `json:"a"` // Connect | Rollback | ReorgEnd | FailedBlock | Restart | AdvanceLib
	Rank    int              `json:"rank,omitempty"`
	Count   int              `json:"count,omitempty"`
	H       int              `json:"h,omitempty"` // Rollback target (model height)
	Tip     int              `json:"tip"`         // model state after the step
	Snaps   map[string][]int `json:"snaps"`
	Cluster []int            `json:"cluster"`
	Cur     int              `json:"cur"`
	Reorg   bool             `json:"reorg"`
	Lk      *bsLookup        `json:"lk,omitempty"`
	Ideal   []int            `json:"ideal,omitempty"` // the list the new chain defines according to the spec (Gen only)
}

type bsBeh struct {
	ID    string   `json:"id"`
	Steps []bsStep `json:"steps"`
}

// bsInput is one group of behaviours (one model instance)
type bsInput struct {
	Tag          string  `json:"tag"`
	P            int     `json:"p"`
	Offsets      []int   `json:"offsets"`
	Genesis      []int   `json:"genesis"`
	Rankings     [][]int `json:"rankings"`
	DefaultCount int     `json:"default_count"`
	NCand        int     `json:"ncand"`
	Behs         []bsBeh `json:"behs"`
}

type bsGroups struct {
	Groups []bsInput `json:"groups"`
}

type bsContent struct{ Rank, Count int }

// ---------------------------------------------------------------- the stub ChainDB

type bsCDB struct {
	genesis *types.Genesis
	main    []*types.Block // by-number index
	byHash  map[string]*types.Block
	mem     db.DB
}

func (c *bsCDB) GetBestBlock() (*types.Block, error) {
	if len(c.main) == 0 {
		return nil, fmt.Errorf("no best block")
	}
	return c.main[len(c.main)-1], nil
}
func (c *bsCDB) GetBlockByNo(no types.BlockNo) (*types.Block, error) {
	if no >= uint64(len(c.main)) {
		return nil, fmt.Errorf("block %d not found", no)
	}
	return c.main[no], nil
}
func (c *bsCDB) GetHashByNo(no types.BlockNo) ([]byte, error) {
	b, err := c.GetBlockByNo(no)
	if err != nil {
		return nil, err
	}
	return b.BlockHash(), nil
}
func (c *bsCDB) GetBlock(hash []byte) (*types.Block, error) {
	if b, ok := c.byHash[string(hash)]; ok {
		return b, nil
	}
	return nil, fmt.Errorf("block not found")
}
func (c *bsCDB) GetGenesisInfo() *types.Genesis { return c.genesis }
func (c *bsCDB) Get(key []byte) []byte          { return nil }
func (c *bsCDB) NewTx() db.Transaction          { return c.mem.NewTx() }

// ---------------------------------------------------------------- the world

type bsHarness struct {
	in      *bsInput
	res     *verifkit.Result
	ids     []string       // candidate number -> base58 peer id (1-based)
	num     map[string]int // base58 peer id -> candidate number
	pids    []types.PeerID
	sdb     *state.ChainStateDB
	mem     db.DB
	genRoot []byte
	genBlk  *types.Block
	genesis *types.Genesis
	period  int
	salt    int64
}

type bsBlock struct {
	blk *types.Block
	c   bsContent
}

type bsWorld struct {
	h       *bsHarness
	cdb     *bsCDB
	exec    []bsBlock // the executed chain by real height (0 = genesis)
	chain   []bsContent
	bpc     *bp.Cluster
	st      *Status
	inReorg bool
	// provenance of the list in force (for the signature of a history-dependence violation)
	via      string
	viaReorg bool
	snapMeta map[int]bool // model ref -> snapshot taken during a roll-forward
}

func (h *bsHarness) real(m int) uint64 {
	return uint64((m/h.in.P)*h.period + h.in.Offsets[m%h.in.P])
}

func (h *bsHarness) votes(rank int) map[string]*big.Int {
	m := map[string]*big.Int{}
	for i, c := range h.in.Rankings[rank-1] {
		m[h.ids[c]] = new(big.Int).Mul(big.NewInt(int64(1000-i)), big.NewInt(1_000_000_000))
	}
	return m
}

func (h *bsHarness) sysState(sdb *statedb.StateDB) *statedb.ContractState {
	scs, err := statedb.GetSystemAccountState(sdb)
	if err != nil {
		panic(err)
	}
	return scs
}

// setup builds the genesis state (ranking 1 stored the way InitGenesisBPs stores it, no BPCOUNT stored) once.
func (h *bsHarness) setup() error {
	dir, err := os.MkdirTemp("", "verif-bpsnap-")
	if err != nil {
		return err
	}
	h.sdb = state.NewChainStateDB()
	if err := h.sdb.Init(string(db.MemoryImpl), dir, nil, false, nil); err != nil {
		return err
	}
	h.mem = db.NewDB(db.MemoryImpl, dir+"/chainstub")
	bps := make([]string, len(h.in.Genesis))
	for i, c := range h.in.Genesis {
		bps[i] = h.ids[c]
	}
	h.genesis = &types.Genesis{BPs: bps}
	bs := h.sdb.NewBlockState(h.sdb.GetRoot())
	scs := h.sysState(bs.StateDB)
	system.InitSystemParams(scs, len(bps))
	if err := system.InitVotingPowerRank(scs); err != nil {
		return err
	}
	if err := system.InitVoteResult(scs, h.votes(1)); err != nil {
		return err
	}
	if err := statedb.StageContractState(scs, bs.StateDB); err != nil {
		return err
	}
	if err := h.sdb.Apply(bs); err != nil {
		return err
	}
	h.genRoot = append([]byte(nil), h.sdb.GetRoot()...)
	h.genBlk = &types.Block{Header: &types.BlockHeader{BlockNo: 0, BlocksRootHash: h.genRoot, Timestamp: 1}, Body: &types.BlockBody{}}
	return nil
}

// boot is a process start on the chain the stub ChainDB shows: chain.NewChainService (InitSystemParams from the best
// block's state) and dpos.New (NewCluster, Init, NewStatus).
func (w *bsWorld) boot() error {
	h := w.h
	system.InitSystemParams(h.sysState(h.sdb.GetStateDB()), len(h.genesis.BPs))
	bpc, err := bp.NewCluster(w.cdb)
	if err != nil {
		return err
	}
	// dpos.New also reloads the voting power rank here (InitVPR); it is loaded once in setup and reloaded by the real
	// Status.Update on every rollback - the reward lottery is not the subject here and a reload costs milliseconds
	Init(bpc.Size())
	w.bpc = bpc
	w.st = NewStatus(bpc, w.cdb, h.sdb, 0)
	return nil
}

func (h *bsHarness) newWorld() (*bsWorld, error) {
	if err := h.sdb.SetRoot(h.genRoot); err != nil {
		return nil, err
	}
	w := &bsWorld{h: h, snapMeta: map[int]bool{}, via: "genesis"}
	w.cdb = &bsCDB{genesis: h.genesis, main: []*types.Block{h.genBlk}, byHash: map[string]*types.Block{string(h.genBlk.BlockHash()): h.genBlk}, mem: h.mem}
	w.exec = []bsBlock{{blk: h.genBlk, c: bsContent{1, h.in.DefaultCount}}}
	if err := w.boot(); err != nil {
		return nil, err
	}
	return w, nil
}

func (w *bsWorld) tipContent() bsContent { return w.exec[len(w.exec)-1].c }

// execute one real block with content c on the executed tip (the block's "transactions": a BP vote that makes
// ranking c.Rank the stored one, a BPCOUNT vote reaching its threshold), then Status.Update, then index it.
func (w *bsWorld) connectReal(c bsContent) error {
	h := w.h
	parent := w.exec[len(w.exec)-1]
	if c != parent.c {
		bs := h.sdb.NewBlockState(h.sdb.GetRoot())
		scs := h.sysState(bs.StateDB)
		if c.Rank != parent.c.Rank {
			if err := system.InitVoteResult(scs, h.votes(c.Rank)); err != nil {
				return err
			}
		}
		if c.Count != parent.c.Count {
			if err := system.VerifUpdateBpCount(scs, int64(c.Count)); err != nil {
				return err
			}
		}
		if err := statedb.StageContractState(scs, bs.StateDB); err != nil {
			return err
		}
		if err := h.sdb.Apply(bs); err != nil {
			return err
		}
	}
	h.salt++
	blk := &types.Block{Header: &types.BlockHeader{
		BlockNo:        parent.blk.BlockNo() + 1,
		PrevBlockHash:  parent.blk.BlockHash(),
		BlocksRootHash: append([]byte(nil), h.sdb.GetRoot()...),
		Timestamp:      h.salt,
	}, Body: &types.BlockBody{}}
	w.st.Update(blk)
	w.exec = append(w.exec, bsBlock{blk: blk, c: c})
	w.cdb.byHash[string(blk.BlockHash())] = blk
	if !w.inReorg {
		w.cdb.main = append(w.cdb.main, blk)
	}
	return nil
}

// connect model block: the real blocks up to its real height
func (w *bsWorld) connect(c bsContent) error {
	m := len(w.chain) + 1
	target := w.h.real(m)
	for uint64(len(w.exec)) <= target {
		cc := w.tipContent()
		if uint64(len(w.exec)) == target {
			cc = c
		}
		if err := w.connectReal(cc); err != nil {
			return err
		}
	}
	w.chain = append(w.chain, c)
	return nil
}

func (w *bsWorld) apply(s *bsStep) error {
	h := w.h
	switch s.A {
	case "Connect":
		return w.connect(bsContent{s.Rank, s.Count})
	case "Rollback":
		// reorganizer.rollback: sdb.SetRoot(branch root) + Status.Update(branch root)
		t := w.exec[h.real(s.H)]
		if err := h.sdb.SetRoot(t.blk.GetHeader().GetBlocksRootHash()); err != nil {
			return err
		}
		w.st.Update(t.blk)
		w.exec = w.exec[:h.real(s.H)+1]
		w.chain = w.chain[:s.H]
		w.inReorg = true
	case "ReorgEnd":
		// swapChain + InitSystemParams(RESET) at the end of chain.reorg
		w.cdb.main = w.cdb.main[:0]
		for _, b := range w.exec {
			w.cdb.main = append(w.cdb.main, b.blk)
		}
		system.InitSystemParams(h.sysState(h.sdb.GetStateDB()), system.RESET)
		w.inReorg = false
	case "FailedBlock":
		// chain.executeBlock: the execution of the next block fails -> cs.Update(bestBlock)
		w.st.Update(w.exec[len(w.exec)-1].blk)
	case "Restart":
		return w.boot()
	case "AdvanceLib":
		// the LIB only restricts the model's reorganisations (see DposLib.tla for the real LIB)
	default:
		return fmt.Errorf("unknown action %q", s.A)
	}
	return nil
}

// ---------------------------------------------------------------- observation

type bsObs struct {
	List  []int            // BPs() by index (candidate numbers; 0 = unknown id)
	Size  int              // Size()
	Index map[int]int      // candidate -> BpID2Index (-1 = indexNil)
	Snaps map[uint64][]int // cached snapshots
	Cur   int              // GetBpCount()
	Raw   []string
}

func (w *bsWorld) observe() (*bsObs, error) {
	h := w.h
	o := &bsObs{Index: map[int]int{}, Snaps: map[uint64][]int{}}
	o.Raw = w.bpc.BPs()
	for i, js := range o.Raw {
		var e struct{ Index, PeerID string }
		if err := json.Unmarshal([]byte(js), &e); err != nil {
			return nil, fmt.Errorf("BPs()[%d] = %q: %v", i, js, err)
		}
		if e.Index != strconv.Itoa(i) {
			return nil, fmt.Errorf("BPs()[%d] carries index %s", i, e.Index)
		}
		o.List = append(o.List, h.num[e.PeerID])
	}
	o.Size = int(w.bpc.Size())
	if int(w.st.bps.Size()) != o.Size {
		return nil, fmt.Errorf("Snapshots.Size() %d != Cluster.Size() %d", w.st.bps.Size(), o.Size)
	}
	for c := 1; c <= h.in.NCand; c++ {
		idx := w.bpc.BpID2Index(h.pids[c])
		if idx == bp.VerifIndexNil() {
			o.Index[c] = -1
		} else {
			o.Index[c] = int(idx)
		}
		if w.bpc.Has(h.pids[c]) != (o.Index[c] >= 0) {
			return nil, fmt.Errorf("Has(%d) disagrees with BpID2Index", c)
		}
	}
	for no, l := range w.st.bps.VerifSnaps() {
		var x []int
		for _, id := range l {
			x = append(x, h.num[id])
		}
		o.Snaps[no] = x
	}
	o.Cur = system.GetBpCount()
	return o, nil
}

func eqInts(a, b []int) bool {
	if len(a) != len(b) {
		return false
	}
	for i := range a {
		if a[i] != b[i] {
			return false
		}
	}
	return true
}

func isPrefix(a, b []int) bool {
	if len(a) > len(b) {
		a, b = b, a
	}
	return eqInts(a, b[:len(a)])
}

func chainKey(c []bsContent) string {
	var sb strings.Builder
	for _, x := range c {
		fmt.Fprintf(&sb, "%d.%d,", x.Rank, x.Count)
	}
	return sb.String()
}

// ---------------------------------------------------------------- the test

func TestVerifBpSnapshots(t *testing.T) {
	if !verifkit.Enabled() {
		t.Skip("not started by bin/vcheck")
	}
	zerolog.SetGlobalLevel(zerolog.Disabled)
	debug.SetGCPercent(400)
	res := verifkit.NewResult()
	defer func() {
		if err := res.Write(); err != nil {
			t.Fatal(err)
		}
	}()
	var gs bsGroups
	if err := verifkit.ReadInput(&gs); err != nil {
		t.Fatal(err)
	}
	consensus.InitBlockInterval(1)
	for gi := range gs.Groups {
		runGroup(t, res, &gs.Groups[gi])
	}
}

func runGroup(t *testing.T, res *verifkit.Result, gin *bsInput) {
	in := *gin
	h := &bsHarness{in: &in, res: res, num: map[string]int{}, period: int(bp.VerifPeriod())}
	if len(in.Offsets) != in.P || in.Offsets[0] != 0 {
		t.Fatalf("bad offsets %v for period %d", in.Offsets, in.P)
	}
	for i := 1; i < in.P; i++ {
		if in.Offsets[i] <= in.Offsets[i-1] || in.Offsets[i] >= h.period {
			t.Fatalf("bad offsets %v for the real period %d", in.Offsets, h.period)
		}
	}
	if bp.VerifBootstrapHeight() != 3*bp.VerifPeriod() {
		// the model's BOOTSTRAP constant; a different factor is a deviation the replay will show anyway
		res.Note("bootstrapHeight() = %d, period %d", bp.VerifBootstrapHeight(), bp.VerifPeriod())
	}
	ks := makeKeys(in.NCand)
	h.ids = make([]string, in.NCand+1)
	h.pids = make([]types.PeerID, in.NCand+1)
	for c := 1; c <= in.NCand; c++ {
		h.ids[c] = ks[c].b58
		h.pids[c] = ks[c].id
		h.num[ks[c].b58] = c
		h.num[ks[c].id.String()] = c
	}
	if err := h.setup(); err != nil {
		t.Fatal(err)
	}

	shard, nshards := 0, 1
	if s := os.Getenv("VERIF_SHARD"); s != "" {
		fmt.Sscanf(s, "%d/%d", &shard, &nshards)
	}
	var behs []*bsBeh
	for i := range in.Behs {
		if i%nshards == shard {
			behs = append(behs, &in.Behs[i])
		}
	}

	// ---- phase 1: the oracle.  Every chain that occurs in a behaviour of this shard is fed to a FRESH node (no
	// reorganisation, no restart); the list it reports after every height is recorded.  Only maximal chains are run.
	chains := map[string][]bsContent{}
	for _, b := range behs {
		var ch []bsContent
		for i := range b.Steps {
			s := &b.Steps[i]
			switch s.A {
			case "Connect":
				ch = append(append([]bsContent(nil), ch...), bsContent{s.Rank, s.Count})
				chains[chainKey(ch)] = ch
			case "Rollback":
				ch = ch[:s.H]
			}
		}
	}
	keys := make([]string, 0, len(chains))
	for k := range chains {
		keys = append(keys, k)
	}
	sort.Strings(keys)
	oracle := map[string][]int{"": nil}
	nOracle := 0
	for i, k := range keys {
		if i+1 < len(keys) && strings.HasPrefix(keys[i+1], k) {
			continue // a prefix of the next chain: answered by that run
		}
		ch := chains[k]
		w, err := h.newWorld()
		if err != nil {
			t.Fatal(err)
		}
		nOracle++
		o0, err := w.observe()
		if err != nil {
			t.Fatal(err)
		}
		oracle[""] = o0.List
		for n := range ch {
			if err := w.connect(ch[n]); err != nil {
				t.Fatal(err)
			}
			o, err := w.observe()
			if err != nil {
				t.Fatal(err)
			}
			pk := chainKey(ch[:n+1])
			if prev, ok := oracle[pk]; ok && !eqInts(prev, o.List) {
				res.Violate(map[string]interface{}{"kind": "fresh-nodes-disagree"},
					map[string]interface{}{"chain": pk, "a": prev, "b": o.List},
					"two fresh nodes fed the same chain %s report different lists: %v and %v", pk, prev, o.List)
			}
			oracle[pk] = o.List
			res.Count("oracle|" + pk)
		}
	}
	if shard == 0 {
		res.Note("%s: oracle of shard 0: %d distinct chains, %d fresh-node runs", in.Tag, len(keys), nOracle)
	}

	// ---- phase 2: the behaviours
	for _, b := range behs {
		if res.NumViolations() >= 12 {
			res.Note("stopped after 12 distinct violation signatures")
			break
		}
		h.replay(b, oracle)
	}
}

func (h *bsHarness) replay(b *bsBeh, oracle map[string][]int) {
	res := h.res
	var w *bsWorld
	step := -1
	trail := func() []string {
		var out []string
		for i := 0; i <= step && i < len(b.Steps); i++ {
			s := &b.Steps[i]
			switch s.A {
			case "Connect":
				out = append(out, fmt.Sprintf("Connect(rank %d, count %d) -> height %d (real %d)", s.Rank, s.Count, s.Tip, h.real(s.Tip)))
			case "Rollback":
				out = append(out, fmt.Sprintf("Rollback(to %d = real %d)", s.H, h.real(s.H)))
			default:
				out = append(out, s.A)
			}
		}
		return out
	}
	replayObj := func() map[string]interface{} {
		return map[string]interface{}{"group": h.in.Tag, "behaviour": b.ID, "step": step, "actions": trail(), "p": h.in.P, "offsets": h.in.Offsets,
			"rankings": h.in.Rankings, "genesis": h.in.Genesis, "default_count": h.in.DefaultCount, "seed": verifkit.Seed()}
	}
	defer func() {
		if r := recover(); r != nil {
			res.Violate(map[string]interface{}{"kind": "panic", "act": b.Steps[max(step, 0)].A},
				replayObj(), "panic while replaying %s step %d: %v", b.ID, step, r)
		}
	}()
	var err error
	if w, err = h.newWorld(); err != nil {
		panic(err)
	}
	for step = 0; step < len(b.Steps); step++ {
		s := &b.Steps[step]
		wasReorg := w.inReorg
		if err := w.apply(s); err != nil {
			panic(err)
		}
		if s.A == "AdvanceLib" {
			continue
		}
		if len(w.chain) != s.Tip || w.inReorg != s.Reorg {
			panic(fmt.Sprintf("harness out of step with the model: tip %d/%d reorg %v/%v", len(w.chain), s.Tip, w.inReorg, s.Reorg))
		}
		o, err := w.observe()
		if err != nil {
			res.Violate(map[string]interface{}{"kind": "conformance", "field": "observation", "act": s.A}, replayObj(), "%v", err)
			return
		}
		res.Count(fmt.Sprintf("%s|%s|%d|%v|%v|%v", s.A, chainKey(w.chain), s.H, s.Snaps, s.Cluster, s.Cur))
		// provenance of the list in force
		if s.A == "Connect" && s.Tip%h.in.P == 0 {
			w.snapMeta[s.Tip] = wasReorg
		}
		if s.A == "Restart" {
			w.snapMeta = map[int]bool{}
		}
		if s.Lk != nil {
			w.via = s.Lk.Src
			w.viaReorg = wasReorg || w.inReorg
			if s.Lk.Src == "cache" {
				w.viaReorg = w.snapMeta[s.Lk.Ref]
			}
		}
		bad := func(field, format string, a ...interface{}) {
			res.Violate(map[string]interface{}{"kind": "conformance", "field": field, "act": s.A}, replayObj(),
				"%s step %d (%s): %s\n  actions: %s", b.ID, step, s.A, fmt.Sprintf(format, a...), strings.Join(trail(), "; "))
		}
		// 1. conformance with the model's state
		ok := true
		if !eqInts(o.List, s.Cluster) {
			bad("cluster", "BPs() = %v (%v), the model's list in force is %v", o.List, o.Raw, s.Cluster)
			ok = false
		}
		if o.Size != len(s.Cluster) {
			bad("size", "Size() = %d, the model's list in force %v has %d members", o.Size, s.Cluster, len(s.Cluster))
			ok = false
		}
		for c := 1; c <= h.in.NCand; c++ {
			want := -1
			for i, x := range s.Cluster {
				if x == c {
					want = i
				}
			}
			if o.Index[c] != want {
				bad("index", "BpID2Index(candidate %d) = %d, the model's list %v gives %d", c, o.Index[c], s.Cluster, want)
				ok = false
				break
			}
		}
		msn := map[uint64][]int{}
		for k, l := range s.Snaps {
			r, _ := strconv.Atoi(k)
			msn[h.real(r)] = l
		}
		if len(msn) != len(o.Snaps) {
			bad("snaps", "cached snapshots at %v, the model has %v (real heights)", keysOf(o.Snaps), keysOf(msn))
			ok = false
		} else {
			for no, l := range msn {
				if got, there := o.Snaps[no]; !there || !eqInts(got, l) {
					bad("snaps", "cached snapshot of block %d is %v (present %v), the model has %v", no, got, there, l)
					ok = false
					break
				}
			}
		}
		if o.Cur != s.Cur {
			bad("bpcount", "GetBpCount() = %d, the model's in-memory BPCOUNT is %d", o.Cur, s.Cur)
			ok = false
		}
		// 2. the property on the code: a fresh node fed only this chain reports the same list
		want, have := oracle[chainKey(w.chain)]
		if !have {
			panic("no oracle answer for " + chainKey(w.chain))
		}
		if !ok {
			return // the rest of the behaviour would repeat the deviation from the model
		}
		if !eqInts(o.List, want) {
			cause := "other"
			if isPrefix(o.List, want) {
				cause = "bpcount"
			}
			res.Violate(map[string]interface{}{"kind": "list-depends-on-history", "cause": cause, "via": w.via, "reorg": w.viaReorg},
				replayObj(), "%s step %d (%s): the list in force at height %d (real %d) is %v, a fresh node fed only the same main chain has %v "+
					"(list obtained via %s, during a roll-forward: %v)\n  actions: %s",
				b.ID, step, s.A, s.Tip, h.real(s.Tip), o.List, want, w.via, w.viaReorg, strings.Join(trail(), "; "))
			ok = false
		}
		if s.Ideal != nil && !eqInts(want, s.Ideal) {
			res.Violate(map[string]interface{}{"kind": "fresh-node-differs-from-spec"}, replayObj(),
				"%s step %d: a fresh node fed the chain %s reports %v at height %d (real %d), the chain defines %v",
				b.ID, step, chainKey(w.chain), want, s.Tip, h.real(s.Tip), s.Ideal)
			ok = false
		}
		if ok && len(o.Snaps) > 1 {
			res.Sample(map[string]interface{}{"group": h.in.Tag, "behaviour": b.ID, "step": step, "act": s.A, "height": s.Tip, "real_height": h.real(s.Tip), "list": o.List, "snapshots": keysOf(o.Snaps)})
		}
	}
}

func keysOf(m map[uint64][]int) []uint64 {
	var ks []uint64
	for k := range m {
		ks = append(ks, k)
	}
	sort.Slice(ks, func(i, j int) bool { return ks[i] < ks[j] })
	return ks
}
