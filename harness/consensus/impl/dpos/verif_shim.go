//go:build verif

package dpos

// Exports for the /verif conformance harnesses (added through the go -overlay).

// VerifSendVotingReward is the reward function dpos.New decorates the coinbase reward with.
var VerifSendVotingReward = sendVotingReward
