//go:build verif

package dpos

// Conformance harness for spec/consensus/Slot.tla (C09), decision part: every transition of
// the TLC graph of the decision model (Gen_Slot.cfg) is replayed on the real objects:
//
//	Elect    -> bp.Cluster.Update; the index map is compared with the model's list
//	Submit   -> a real block is built, signed with the recipe's key (types.Block.Sign), mutated
//	            as the recipe says and given to DPoS.VerifySign, DPoS.IsBlockValid and
//	            DPoS.VerifyTimestamp; the three verdicts are compared with the model's
//	Produce  -> the producer the real slot/cluster code entitles at the wall-clock instant signs
//	            a block; all three checks must accept it
//
// Model time is mapped to real time by whole slots (Slot.tla ShiftLaw):
//
//	abs: timestamps as in the model (ms since the epoch)          -> VerifySign, IsBlockValid
//	big: shifted by a whole number of producer rounds to about now -> VerifySign, IsBlockValid
//	rel: shifted so that the model's clock slot is the wall clock's slot -> VerifyTimestamp
//	     (the wall clock is read before and after; repeated if a boundary was crossed)
//
// A seeded random driver on one long-lived DPoS object per interval records what the real code
// answered (ndjson, $VERIF_TRACE); TLC validates the record against SlotTrace.tla.

import (
	"bytes"
	"crypto/sha256"
	"encoding/json"
	"fmt"
	"math/rand"
	"os"
	"runtime"
	"sort"
	"strconv"
	"sync"
	"testing"
	"time"

	"github.com/aergoio/aergo/v2/consensus"
	"github.com/aergoio/aergo/v2/consensus/impl/dpos/bp"
	"github.com/aergoio/aergo/v2/consensus/impl/dpos/slot"
	"github.com/aergoio/aergo/v2/internal/verifkit"
	"github.com/aergoio/aergo/v2/types"
	"github.com/libp2p/go-libp2p/core/crypto"
	"github.com/rs/zerolog"
)

// ---------------------------------------------------------------- input (from TLC via vcheck)

type vMut struct {
	Kind string `json:"kind"` // none | field | shift
	F    string `json:"f"`
	G    string `json:"g"`
	V    int64  `json:"v"`
}

type vRecipe struct {
	Signer int64 `json:"signer"`
	Ts     int64 `json:"ts"` // ms
	No     int64 `json:"no"`
	Mut    vMut  `json:"mut"`
}

type vVerdict struct {
	Ts  bool `json:"ts"`
	Sig bool `json:"sig"`
	Bp  bool `json:"bp"`
}

type vTrans struct {
	Iv   int64     `json:"iv"`
	Now  int64     `json:"now"`
	N    int       `json:"n"` // length of the producer list = its identity
	Lib  int64     `json:"lib"`
	Act  string    `json:"act"`
	R    *vRecipe  `json:"r,omitempty"`
	P    int64     `json:"p,omitempty"`  // Produce: the producer the model entitles
	N2   int       `json:"n2,omitempty"` // Elect: the new list
	Res  *vVerdict `json:"res,omitempty"`
	Line int       `json:"line"`
}

type vInput struct {
	Lists        map[string][]int64 `json:"lists"` // length -> key ids
	Keys         int                `json:"keys"`  // key ids 1..Keys
	Trans        []vTrans           `json:"trans"`
	RandomEvents int                `json:"random_events"` // per interval, 0 = off
	ProduceReps  int                `json:"produce_reps"`
}

const nsPerMs = 1000000

func nsOf(ms, off int64) int64 {
	if ms > 0 {
		return ms*nsPerMs + off
	}
	if ms < 0 {
		return ms*nsPerMs - off
	}
	if off%2 == 0 {
		return off
	}
	return -off
}

// specNext is NextIndex of Slot.tla for instants after the epoch.
func specNext(ms, iv int64) int64 { return (ms + iv - 1) / iv }

// ---------------------------------------------------------------- keys

type vKey struct {
	priv crypto.PrivKey
	pub  []byte // marshalled public key as Block.Sign stores it
	id   types.PeerID
	b58  string
}

func makeKeys(n int) []vKey {
	ks := make([]vKey, n+1)
	for i := 1; i <= n; i++ {
		for salt := 0; ; salt++ {
			h := sha256.Sum256([]byte(fmt.Sprintf("verif-c09-key-%d-%d-%d", verifkit.Seed(), i, salt)))
			priv, err := crypto.UnmarshalSecp256k1PrivateKey(h[:])
			if err != nil {
				continue
			}
			pub, err := crypto.MarshalPublicKey(priv.GetPublic())
			if err != nil {
				panic(err)
			}
			id, err := types.IDFromPublicKey(priv.GetPublic())
			if err != nil {
				panic(err)
			}
			ks[i] = vKey{priv: priv, pub: pub, id: id, b58: types.IDB58Encode(id)}
			break
		}
	}
	return ks
}

// ---------------------------------------------------------------- building and mutating blocks

func rbytes(r *rand.Rand, n int) []byte {
	b := make([]byte, n)
	r.Read(b)
	return b
}

// pristineHeader: shape 0 = every field filled as on a running chain, shape 1 = the optional fields empty
func pristineHeader(r *rand.Rand, shape int) *types.BlockHeader {
	h := &types.BlockHeader{
		ChainID:          append([]byte{0, 0, 0, 3}, rbytes(r, 10+r.Intn(20))...),
		PrevBlockHash:    rbytes(r, 32),
		BlocksRootHash:   rbytes(r, 32),
		TxsRootHash:      rbytes(r, 32),
		ReceiptsRootHash: rbytes(r, 32),
		Confirms:         uint64(r.Intn(50)),
		CoinbaseAccount:  rbytes(r, 33),
		Consensus:        rbytes(r, 1+r.Intn(40)),
	}
	if shape == 1 {
		h.ReceiptsRootHash = nil
		h.CoinbaseAccount = nil
		h.Consensus = nil
	}
	return h
}

func fieldPtr(h *types.BlockHeader, f string) *[]byte {
	switch f {
	case "ChainID":
		return &h.ChainID
	case "PrevBlockHash":
		return &h.PrevBlockHash
	case "BlocksRootHash":
		return &h.BlocksRootHash
	case "TxsRootHash":
		return &h.TxsRootHash
	case "ReceiptsRootHash":
		return &h.ReceiptsRootHash
	case "PubKey":
		return &h.PubKey
	case "CoinbaseAccount":
		return &h.CoinbaseAccount
	case "Consensus":
		return &h.Consensus
	case "Sign":
		return &h.Sign
	}
	return nil
}

const nVariants = 4

// alterBytes gives variant v of "the field has another value"; ok=false when the variant would not change it.
func alterBytes(b []byte, v int, r *rand.Rand) (out []byte, name string, ok bool) {
	c := append([]byte(nil), b...)
	switch v {
	case 0:
		if len(c) == 0 {
			return nil, "", false
		}
		i := r.Intn(len(c) * 8)
		c[i/8] ^= 1 << uint(i%8)
		return c, "flip-bit", true
	case 1:
		return append(c, byte(r.Intn(256))), "append-byte", true
	case 2:
		if len(c) == 0 {
			return nil, "", false
		}
		return c[:len(c)-1], "drop-last-byte", true
	default:
		if len(c) == 0 {
			return nil, "", false
		}
		return nil, "empty", true
	}
}

type vHarness struct {
	keys  []vKey
	lists map[int][]int64
	mu    sync.Mutex
	seen  map[string]int // violations already reported per signature (a flood of one class must not hide another)
}

// timeMap maps a model instant (ms) to the ms put into the real header.
type timeMap func(ms int64) int64

// build returns the real block of recipe r (variant v of the mutation); ok=false: variant not applicable.
func (h *vHarness) build(r *vRecipe, tm timeMap, off int64, shape, v int, rng *rand.Rand) (b *types.Block, what string, ok bool, err error) {
	hdr := pristineHeader(rng, shape)
	hdr.BlockNo = uint64(r.No)
	hdr.Timestamp = nsOf(tm(r.Ts), off)
	b = &types.Block{Header: hdr, Body: &types.BlockBody{}}
	if err = b.Sign(h.keys[r.Signer].priv); err != nil {
		return nil, "", false, err
	}
	m := r.Mut
	switch {
	case m.Kind == "none":
		if v != 0 {
			return nil, "", false, nil
		}
		return b, "unmodified", true, nil
	case m.Kind == "shift":
		pf, pg := fieldPtr(hdr, m.F), fieldPtr(hdr, m.G)
		f, g := append([]byte(nil), *pf...), append([]byte(nil), *pg...)
		switch v {
		case 0: // last byte of f becomes the first byte of g
			if len(f) == 0 {
				return nil, "", false, nil
			}
			*pg = append([]byte{f[len(f)-1]}, g...)
			*pf = f[:len(f)-1]
			what = "last byte of " + m.F + " moved to the front of " + m.G
		case 1: // first byte of g becomes the last byte of f
			if len(g) == 0 {
				return nil, "", false, nil
			}
			*pf = append(f, g[0])
			*pg = g[1:]
			what = "first byte of " + m.G + " moved to the end of " + m.F
		case 2: // all of g appended to f
			if len(g) == 0 {
				return nil, "", false, nil
			}
			*pf = append(f, g...)
			*pg = nil
			what = "all of " + m.G + " appended to " + m.F
		default: // all of f prepended to g
			if len(f) == 0 {
				return nil, "", false, nil
			}
			*pg = append(f, g...)
			*pf = nil
			what = "all of " + m.F + " prepended to " + m.G
		}
		return b, what, true, nil
	case m.F == "Timestamp":
		if v != 0 {
			return nil, "", false, nil
		}
		hdr.Timestamp = nsOf(tm(m.V), off)
		return b, fmt.Sprintf("Timestamp := %d ms", m.V), true, nil
	case m.F == "BlockNo":
		if v != 0 {
			return nil, "", false, nil
		}
		hdr.BlockNo = uint64(m.V)
		return b, fmt.Sprintf("BlockNo := %d", m.V), true, nil
	case m.F == "Confirms":
		switch v {
		case 0:
			hdr.Confirms++
		case 1:
			hdr.Confirms ^= 1 << 63
		default:
			return nil, "", false, nil
		}
		return b, "Confirms altered", true, nil
	case m.F == "PubKey":
		if m.V != 0 {
			if v != 0 {
				return nil, "", false, nil
			}
			hdr.PubKey = append([]byte(nil), h.keys[m.V].pub...)
			return b, fmt.Sprintf("PubKey := key %d", m.V), true, nil
		}
		switch v { // a value that is not a public key
		case 0:
			hdr.PubKey = nil
			what = "PubKey := empty"
		case 1:
			hdr.PubKey = append([]byte{0xff, 0xff}, rbytes(rng, 35)...)
			what = "PubKey := 37 bytes that are no key"
		case 2:
			hdr.PubKey = hdr.PubKey[:len(hdr.PubKey)-1]
			what = "PubKey := truncated key"
		default:
			return nil, "", false, nil
		}
		return b, what, true, nil
	case m.F == "Sign":
		if m.V != 0 { // the signature another key makes on this block
			if v != 0 {
				return nil, "", false, nil
			}
			c := &types.Block{Header: &types.BlockHeader{}, Body: &types.BlockBody{}}
			*c.Header = *hdr
			if err = c.Sign(h.keys[m.V].priv); err != nil {
				return nil, "", false, err
			}
			hdr.Sign = c.Header.Sign
			return b, fmt.Sprintf("Sign := signature of key %d", m.V), true, nil
		}
		switch v {
		case 0: // flip a bit inside the last 16 bytes (the S value of the DER signature)
			s := append([]byte(nil), hdr.Sign...)
			i := len(s)*8 - 1 - rng.Intn(128)
			s[i/8] ^= 1 << uint(i%8)
			hdr.Sign = s
			what = "Sign: one bit flipped"
		case 1:
			hdr.Sign = hdr.Sign[:len(hdr.Sign)-1]
			what = "Sign: truncated"
		case 2:
			hdr.Sign = nil
			what = "Sign := empty"
		default:
			hdr.Sign = rbytes(rng, len(hdr.Sign))
			what = "Sign := random bytes"
		}
		return b, what, true, nil
	default: // an opaque byte-string field
		p := fieldPtr(hdr, m.F)
		if p == nil {
			return nil, "", false, fmt.Errorf("unknown field %q", m.F)
		}
		nb, name, ok2 := alterBytes(*p, v, rng)
		if !ok2 {
			return nil, "", false, nil
		}
		*p = nb
		return b, m.F + ": " + name, true, nil
	}
}

type vCase struct {
	Iv       int64    `json:"iv"`
	Now      int64    `json:"model_clock_ms"`
	List     []int64  `json:"producer_list"`
	Lib      int64    `json:"lib"`
	Recipe   *vRecipe `json:"recipe,omitempty"`
	Mutation string   `json:"mutation,omitempty"`
	TimeMap  string   `json:"time_map,omitempty"`
	ShiftMs  int64    `json:"shift_ms,omitempty"`
	Shape    int      `json:"shape"`
	Header   string   `json:"header,omitempty"`
	Line     int      `json:"gen_line"`
	Seed     int64    `json:"verif_seed"` // the keys and all random contents derive from it
	Check    string   `json:"check,omitempty"` // which of the three consensus checks disagreed with the model
}

func hdrJSON(b *types.Block) string {
	j, _ := json.Marshal(b.GetHeader())
	return string(j)
}

func mutClass(m vMut) string {
	switch m.Kind {
	case "none":
		return "none"
	case "shift":
		return "shift"
	}
	return m.F
}

// safely runs one consensus check, turning a panic into an error text
func guarded(f func() bool) (ok bool, panicked string) {
	defer func() {
		if e := recover(); e != nil {
			panicked = fmt.Sprint(e)
		}
	}()
	return f(), ""
}

func newDPoS(lib int64) *DPoS {
	d := &DPoS{bpc: &bp.Cluster{}}
	setLib(d, lib)
	return d
}

func setLib(d *DPoS, lib int64) {
	if lib < 0 {
		d.Status = nil
		return
	}
	d.Status = &Status{libState: &libStatus{Lib: &blockInfo{BlockNo: uint64(lib)}}}
}

func (h *vHarness) ids(l []int64) []string {
	out := make([]string, len(l))
	for i, k := range l {
		out[i] = h.keys[k].b58
	}
	return out
}

// checkCluster compares the index map of the real cluster with the model's list.
func (h *vHarness) checkCluster(c *bp.Cluster, l []int64) string {
	if int(c.Size()) != len(l) {
		return fmt.Sprintf("Size() = %d, the list has %d producers", c.Size(), len(l))
	}
	pos := map[int64]int{}
	for i, k := range l {
		pos[k] = i
	}
	for k := 1; k < len(h.keys); k++ {
		idx := c.BpID2Index(h.keys[k].id)
		if p, ok := pos[int64(k)]; ok {
			if idx.IsNil() || int(idx) != p || !c.Has(h.keys[k].id) {
				return fmt.Sprintf("key %d is producer %d of the list, BpID2Index = %d, Has = %v", k, p, idx, c.Has(h.keys[k].id))
			}
		} else if !idx.IsNil() || c.Has(h.keys[k].id) {
			return fmt.Sprintf("key %d is not in the list, BpID2Index = %d, Has = %v", k, idx, c.Has(h.keys[k].id))
		}
	}
	for i := 0; i <= len(l)+1; i++ {
		id, ok := c.BpIndex2ID(bp.Index(i))
		if i < len(l) {
			if !ok || id != h.keys[l[i]].id {
				return fmt.Sprintf("BpIndex2ID(%d) does not give key %d", i, l[i])
			}
		} else if ok {
			return fmt.Sprintf("BpIndex2ID(%d) exists, the list has %d producers", i, len(l))
		}
	}
	return ""
}

func TestVerifProducer(t *testing.T) {
	if !verifkit.Enabled() {
		t.Skip("run through bin/vcheck")
	}
	var in vInput
	if err := verifkit.ReadInput(&in); err != nil {
		t.Fatal(err)
	}
	res := verifkit.NewResult()
	defer func() {
		if err := res.Write(); err != nil {
			t.Fatal(err)
		}
	}()
	// the consensus checks log every rejection
	zl := logger.Logger.Level(zerolog.Disabled)
	logger.Logger = &zl

	h := &vHarness{keys: makeKeys(in.Keys), lists: map[int][]int64{}, seen: map[string]int{}}
	for id, l := range in.Lists { // keyed by the model's list identifier (length, +1000 for same-size variants)
		n, err := strconv.Atoi(id)
		if err != nil {
			t.Fatal(err)
		}
		h.lists[n] = l
	}

	// group the transitions by interval and by source state
	type gkey struct {
		now int64
		n   int
		lib int64
	}
	byIv := map[int64]map[gkey][]int{}
	var ivs []int64
	for i, tr := range in.Trans {
		if byIv[tr.Iv] == nil {
			byIv[tr.Iv] = map[gkey][]int{}
			ivs = append(ivs, tr.Iv)
		}
		k := gkey{tr.Now, tr.N, tr.Lib}
		byIv[tr.Iv][k] = append(byIv[tr.Iv][k], i)
	}
	sort.Slice(ivs, func(i, j int) bool { return ivs[i] < ivs[j] })

	var traceBuf bytes.Buffer
	for _, iv := range ivs {
		if iv%1000 != 0 {
			t.Fatalf("interval %d ms cannot be configured", iv)
		}
		// package-global configuration: the intervals are handled one after the other
		consensus.BlockIntervalSec = iv / 1000
		slot.Init(consensus.BlockIntervalSec)

		groups := make([]gkey, 0, len(byIv[iv]))
		for k := range byIv[iv] {
			groups = append(groups, k)
		}
		sort.Slice(groups, func(i, j int) bool {
			a, b := groups[i], groups[j]
			if a.now != b.now {
				return a.now < b.now
			}
			if a.n != b.n {
				return a.n < b.n
			}
			return a.lib < b.lib
		})
		verifkit.Rng(iv).Shuffle(len(groups), func(i, j int) { groups[i], groups[j] = groups[j], groups[i] })
		gch := make(chan gkey, len(groups))
		for _, g := range groups {
			gch <- g
		}
		close(gch)

		var wg sync.WaitGroup
		for w := 0; w < runtime.NumCPU(); w++ {
			wg.Add(1)
			go func(w int) {
				defer wg.Done()
				// one long-lived DPoS object per worker: its cluster is updated from group to group
				d := newDPoS(-1)
				cur := -1
				for g := range gch {
					l := h.lists[g.n]
					if cur != g.n {
						if err := d.bpc.Update(h.ids(l)); err != nil {
							res.Violate(map[string]interface{}{"kind": "cluster-update-error"}, vCase{Iv: iv, List: l}, "Cluster.Update: %v", err)
							continue
						}
						cur = g.n
						if msg := h.checkCluster(d.bpc, l); msg != "" {
							res.Violate(map[string]interface{}{"kind": "cluster-index"}, vCase{Iv: iv, List: l}, "after Cluster.Update(%v): %s", l, msg)
							continue
						}
					}
					setLib(d, g.lib)
					for _, ti := range byIv[iv][g] {
						tr := &in.Trans[ti]
						rng := verifkit.Rng(int64(tr.Line)*7919 + iv)
						switch tr.Act {
						case "Elect":
							l2 := h.lists[tr.N2]
							res.Count(fmt.Sprintf("elect:%d:%d:%d", iv, g.n, tr.N2))
							if err := d.bpc.Update(h.ids(l2)); err != nil {
								res.Violate(map[string]interface{}{"kind": "cluster-update-error"}, vCase{Iv: iv, List: l2, Line: tr.Line}, "Cluster.Update: %v", err)
								break
							}
							cur = tr.N2
							if msg := h.checkCluster(d.bpc, l2); msg != "" {
								res.Violate(map[string]interface{}{"kind": "cluster-index"}, vCase{Iv: iv, List: l2, Line: tr.Line},
									"Cluster.Update(%v) after %v: %s", l2, l, msg)
							}
							// back to the group's list for the remaining transitions of the group
							if err := d.bpc.Update(h.ids(l)); err == nil {
								cur = g.n
							}
						case "Submit":
							h.submit(res, d, tr, l, rng)
						case "Produce":
							h.produceModel(res, d, tr, l, rng)
						}
					}
				}
			}(w)
		}
		wg.Wait()

		// ---- the entitled producer at the wall clock, through the real slot and cluster code
		h.produceWallClock(res, iv, in.ProduceReps)
		// ---- seeded random driver on one long-lived object, recorded for TLC (SlotTrace.tla)
		if in.RandomEvents > 0 {
			h.randomDriver(res, iv, in.RandomEvents, &traceBuf)
		}
	}
	for k, n := range h.seen {
		if n > 1 {
			res.Note("%d cases with violation signature %s (first one reported)", n, k)
		}
	}
	if tp := os.Getenv("VERIF_TRACE"); tp != "" {
		if err := os.WriteFile(tp, traceBuf.Bytes(), 0o644); err != nil {
			t.Fatal(err)
		}
	}
}

// runChecks gives the three verdicts of the real code on b; ts with the wall-clock sandwich.
type realVerdict struct {
	sig, bp, ts bool
	panicked    string
}

func checkSigBp(d *DPoS, b *types.Block) (v realVerdict) {
	var p string
	if v.sig, p = guarded(func() bool { return d.VerifySign(b) == nil }); p != "" {
		v.panicked = "VerifySign: " + p
	}
	if v.bp, p = guarded(func() bool { return d.IsBlockValid(b, nil) == nil }); p != "" {
		v.panicked = "IsBlockValid: " + p
	}
	return
}

func (h *vHarness) submit(res *verifkit.Result, d *DPoS, tr *vTrans, l []int64, rng *rand.Rand) {
	iv := tr.Iv
	r := tr.R
	n := int64(len(l))
	offs := []int64{0, 1, nsPerMs - 1, 1 + rng.Int63n(nsPerMs-2)}
	off := offs[rng.Intn(len(offs))]
	shape := 0
	if rng.Intn(4) == 0 {
		shape = 1
	}
	ident := func(ms int64) int64 { return ms }
	// quick tier: one (seeded) variant of the mutation per transition; thorough tier: all of them
	only := -1
	if verifkit.Tier() != "thorough" && r.Mut.Kind != "none" {
		var app []int
		for v := 0; v < nVariants; v++ {
			if _, _, ok, _ := h.build(r, ident, 0, shape, v, rand.New(rand.NewSource(1))); ok {
				app = append(app, v)
			}
		}
		if len(app) > 0 {
			only = app[rng.Intn(len(app))]
		}
	}
	for v := 0; v < nVariants; v++ {
		seed := rng.Int63()
		if only >= 0 && v != only {
			continue
		}
		// ---- abs and big: the clock-free checks
		for _, mode := range []string{"abs", "big"} {
			tm := timeMap(ident)
			shift := int64(0)
			if mode == "big" {
				realNext := specNext(time.Now().UnixNano()/nsPerMs, iv)
				shift = ((realNext - 2000) / n) * n * iv // a whole number of producer rounds
				tm = func(ms int64) int64 {
					if ms >= 1 {
						return ms + shift
					}
					return ms
				}
			}
			b, what, ok, err := h.build(r, tm, off, shape, v, rand.New(rand.NewSource(seed)))
			if err != nil {
				res.Violate(map[string]interface{}{"kind": "sign-error"}, vCase{Iv: iv, Now: tr.Now, List: l, Lib: tr.Lib, Recipe: r, Line: tr.Line}, "Block.Sign: %v", err)
				return
			}
			if !ok {
				continue
			}
			got := checkSigBp(d, b)
			cs := vCase{Iv: iv, Now: tr.Now, List: l, Lib: tr.Lib, Recipe: r, Mutation: what, TimeMap: mode, ShiftMs: shift, Shape: shape, Header: hdrJSON(b), Line: tr.Line}
			res.Count(fmt.Sprintf("submit:%d:%d:%s", tr.Line, v, mode))
			if v == 0 && mode == "abs" && tr.Line%997 == 0 {
				res.Sample(map[string]interface{}{"case": cs, "model": tr.Res, "code": map[string]bool{"sig": got.sig, "bp": got.bp}})
			}
			if got.panicked != "" {
				res.Violate(map[string]interface{}{"kind": "panic", "mutation": mutClass(r.Mut)}, cs, "panic in %s", got.panicked)
				continue
			}
			h.compare(res, "sig", tr.Res.Sig, got.sig, r, cs)
			h.compare(res, "bp", tr.Res.Bp, got.bp, r, cs)
		}
		// ---- rel: VerifyTimestamp next to the wall clock
		for attempt := 0; ; attempt++ {
			n1 := specNext(time.Now().UnixNano()/nsPerMs, iv)
			shift := (n1 - specNext(tr.Now, iv)) * iv
			tm := func(ms int64) int64 {
				if ms >= 1 {
					return ms + shift
				}
				return ms
			}
			b, what, ok, err := h.build(r, tm, off, shape, v, rand.New(rand.NewSource(seed)))
			if err != nil || !ok {
				break
			}
			got, p := guarded(func() bool { return d.VerifyTimestamp(b) })
			sigOK, _ := guarded(func() bool { return d.VerifySign(b) == nil })
			n2 := specNext(time.Now().UnixNano()/nsPerMs, iv)
			if n1 != n2 && attempt < 50 {
				continue // a slot boundary was crossed: no expectation for this attempt
			}
			cs := vCase{Iv: iv, Now: tr.Now, List: l, Lib: tr.Lib, Recipe: r, Mutation: what, TimeMap: "rel", ShiftMs: shift, Shape: shape, Header: hdrJSON(b), Line: tr.Line}
			res.Count(fmt.Sprintf("submit:%d:%d:rel", tr.Line, v))
			if p != "" {
				res.Violate(map[string]interface{}{"kind": "panic", "mutation": mutClass(r.Mut)}, cs, "panic in VerifyTimestamp: %s", p)
				break
			}
			h.compare(res, "ts", tr.Res.Ts, got, r, cs)
			h.compare(res, "sig", tr.Res.Sig, sigOK, r, cs)
			break
		}
	}
}

func (h *vHarness) compare(res *verifkit.Result, check string, model, code bool, r *vRecipe, cs vCase) {
	if model == code {
		return
	}
	cs.Seed = verifkit.Seed()
	cs.Check = check
	names := map[string]string{"sig": "DPoS.VerifySign", "bp": "DPoS.IsBlockValid", "ts": "DPoS.VerifyTimestamp"}
	kind := "rejected-legitimate"
	if code {
		kind = "accepted-illegitimate"
	}
	sig := map[string]interface{}{"kind": kind, "check": check, "mutation": mutClass(r.Mut)}
	if r.Mut.Kind == "shift" {
		// Moving bytes across the boundary of two neighbouring variable-length header fields leaves the signed
		// digest unchanged (the digest concatenates the fields without length prefixes), so the signature DOES
		// verify over the complete header that is presented.  C09 as stated ("its signature verifies over its
		// complete header") is therefore not violated; the non-injective header encoding is recorded as an
		// observation (DESIGN.md, findings outside the listed properties), not reported as a violation.
		res.Note("observation (not a C09 violation): %s accepts a header with bytes shifted between %s and %s - same digest, signature still valid", names[check], r.Mut.F, r.Mut.G)
		return
	}
	sk, _ := json.Marshal(sig)
	h.mu.Lock()
	h.seen[string(sk)]++
	dup := h.seen[string(sk)] > 1
	h.mu.Unlock()
	if dup {
		return
	}
	res.Violate(sig, cs, "%s %s a block that Slot.tla says must be %s (interval %d ms, model clock %d ms, %d producers, LIB %d; signer key %d, timestamp %d ms, block no %d; %s; time map %s)",
		names[check], map[bool]string{true: "accepts", false: "rejects"}[code], map[bool]string{true: "accepted", false: "rejected"}[model],
		cs.Iv, cs.Now, len(cs.List), cs.Lib, r.Signer, r.Ts, r.No, cs.Mutation, cs.TimeMap)
}

// produceModel: the producer the model entitles at the model's clock signs a block stamped with that clock.
func (h *vHarness) produceModel(res *verifkit.Result, d *DPoS, tr *vTrans, l []int64, rng *rand.Rand) {
	r := &vRecipe{Signer: tr.P, Ts: tr.Now, No: tr.Lib + 1, Mut: vMut{Kind: "none"}}
	t2 := *tr
	t2.R = r
	h.submit(res, d, &t2, l, rng)
}

// produceWallClock: whoever the real code entitles right now produces; the three checks must accept.
func (h *vHarness) produceWallClock(res *verifkit.Result, iv int64, reps int) {
	rng := verifkit.Rng(iv + 5)
	d := newDPoS(0)
	sizes := make([]int, 0, len(h.lists))
	for n := range h.lists {
		sizes = append(sizes, n)
	}
	sort.Ints(sizes)
	for rep := 0; rep < reps; rep++ {
		for _, n := range sizes {
			l := h.lists[n]
			if err := d.bpc.Update(h.ids(l)); err != nil {
				res.Violate(map[string]interface{}{"kind": "cluster-update-error"}, vCase{Iv: iv, List: l}, "Cluster.Update: %v", err)
				return
			}
			now := time.Now()
			s := slot.Time(now)
			idx := s.NextBpIndex(d.bpc.Size())
			id, ok := d.bpc.BpIndex2ID(bp.Index(idx))
			cs := vCase{Iv: iv, List: l, Lib: 0, TimeMap: "wall-clock", ShiftMs: now.UnixNano() / nsPerMs}
			res.Count(fmt.Sprintf("produce:%d:%d:%d", iv, n, rep))
			if !ok {
				res.Violate(map[string]interface{}{"kind": "no-owner-now"}, cs, "no producer is entitled at the wall-clock instant %v (index %d of %d)", now, idx, len(l))
				continue
			}
			// the model's owner of this instant
			want := specNext(now.UnixNano()/nsPerMs, iv) % int64(len(l))
			var key *vKey
			for _, k := range l {
				if h.keys[k].id == id {
					key = &h.keys[k]
				}
			}
			if key == nil || h.keys[l[want]].id != id {
				res.Violate(map[string]interface{}{"kind": "wrong-owner-now"}, cs, "wall-clock instant %v: the code entitles index %d, Slot.tla index %d", now, idx, want)
				continue
			}
			hdr := pristineHeader(rng, rep%2)
			hdr.BlockNo = 1
			hdr.Timestamp = now.UnixNano()
			b := &types.Block{Header: hdr, Body: &types.BlockBody{}}
			if err := b.Sign(key.priv); err != nil {
				res.Violate(map[string]interface{}{"kind": "sign-error"}, cs, "Block.Sign: %v", err)
				continue
			}
			cs.Header = hdrJSON(b)
			v := checkSigBp(d, b)
			tsOK, _ := guarded(func() bool { return d.VerifyTimestamp(b) })
			if !v.sig || !v.bp || !tsOK {
				res.Violate(map[string]interface{}{"kind": "rejected-legitimate", "check": "produce"}, cs,
					"the block the entitled producer signs at the wall-clock instant is rejected: sig=%v bp=%v ts=%v", v.sig, v.bp, tsOK)
			}
		}
		time.Sleep(time.Duration(50+rng.Intn(300)) * time.Millisecond)
	}
}

// ---------------------------------------------------------------- random driver (direction B)

func jsonInts(l []int64) string {
	b, _ := json.Marshal(l)
	return string(b)
}

func (h *vHarness) randomDriver(res *verifkit.Result, iv int64, events int, out *bytes.Buffer) {
	rng := verifkit.Rng(iv*31 + 17)
	d := newDPoS(-1)
	nk := len(h.keys) - 1
	fmt.Fprintf(out, `{"ev":"Config","iv":%d}`+"\n", iv)
	var list []int64
	lib := int64(-1)
	clock := int64(1 + rng.Intn(int(iv)))
	opaque := []string{"ChainID", "PrevBlockHash", "BlocksRootHash", "TxsRootHash", "ReceiptsRootHash", "Confirms", "CoinbaseAccount", "Consensus"}
	elect := func() {
		var n int
		switch rng.Intn(4) {
		case 0:
			n = 1 + rng.Intn(4)
		case 1:
			n = 100
		default:
			n = 1 + rng.Intn(100)
		}
		perm := rng.Perm(nk)
		list = list[:0]
		for _, p := range perm[:n] {
			list = append(list, int64(p+1))
		}
		if err := d.bpc.Update(h.ids(list)); err != nil {
			res.Violate(map[string]interface{}{"kind": "cluster-update-error"}, vCase{Iv: iv, List: list}, "Cluster.Update: %v", err)
		}
		fmt.Fprintf(out, `{"ev":"Elect","l":%s}`+"\n", jsonInts(list))
	}
	elect()
	for e := 0; e < events; e++ {
		switch x := rng.Intn(20); {
		case x == 0:
			elect()
			continue
		case x == 1 && lib < 5:
			lib++
			setLib(d, lib)
			fmt.Fprintf(out, `{"ev":"Lib","n":%d}`+"\n", lib)
			continue
		case x <= 3:
			clock += int64(1 + rng.Intn(int(2*iv)))
			fmt.Fprintf(out, `{"ev":"Clock","t":%d}`+"\n", clock)
			continue
		}
		n := int64(len(list))
		// timestamp: around the clock, around slot boundaries, or around the epoch
		var ts int64
		switch rng.Intn(6) {
		case 0:
			ts = int64(rng.Intn(int(4*iv))) - 3*iv
		case 1:
			ts = (specNext(clock, iv)+int64(rng.Intn(7))-3)*iv + int64(rng.Intn(3)) - 1
		default:
			ts = clock + (int64(rng.Intn(9))-5)*iv + int64(rng.Intn(int(iv))) - iv/2
		}
		// signer: the owner of the timestamp's slot, a neighbour, anybody
		var signer int64
		own := int64(0)
		if ts >= 1 {
			own = specNext(ts, iv) % n
		}
		switch rng.Intn(5) {
		case 0, 1:
			signer = list[own]
		case 2:
			signer = list[(own+1)%n]
		case 3:
			signer = list[rng.Intn(int(n))]
		default:
			signer = int64(1 + rng.Intn(nk))
		}
		no := lib + int64(rng.Intn(3))
		if no < 0 {
			no = 0
		}
		m := vMut{Kind: "none"}
		if rng.Intn(2) == 0 {
			m.Kind = "field"
			switch rng.Intn(5) {
			case 0:
				m.F = "Timestamp"
				m.V = ts + []int64{iv, -iv, n * iv, 1, -1}[rng.Intn(5)]
			case 1:
				m.F = "BlockNo"
				m.V = no + 1
			case 2:
				m.F = "PubKey"
				m.V = []int64{0, list[own], int64(1 + rng.Intn(nk))}[rng.Intn(3)]
			case 3:
				m.F = "Sign"
				m.V = []int64{0, list[own], int64(1 + rng.Intn(nk))}[rng.Intn(3)]
			default:
				m.F = opaque[rng.Intn(len(opaque))]
			}
			if (m.F == "PubKey" || m.F == "Sign") && m.V == signer {
				m = vMut{Kind: "none"}
			}
		}
		r := &vRecipe{Signer: signer, Ts: ts, No: no, Mut: m}
		off := []int64{0, 1, nsPerMs - 1, int64(rng.Intn(nsPerMs))}[rng.Intn(4)]
		variant := rng.Intn(nVariants)
		seed := rng.Int63()
		var got realVerdict
		okCase := false
		for attempt := 0; attempt < 50; attempt++ {
			n1 := specNext(time.Now().UnixNano()/nsPerMs, iv)
			round := ((n1 - specNext(clock, iv)) / n) * n // whole producer rounds: ownership is preserved
			shiftBp := round * iv
			shiftTs := (n1 - specNext(clock, iv)) * iv
			mk := func(shift int64) (*types.Block, bool) {
				tm := func(ms int64) int64 {
					if ms >= 1 {
						return ms + shift
					}
					return ms
				}
				for v := variant; v < variant+nVariants; v++ {
					b, _, ok, err := h.build(r, tm, off, e%2, v%nVariants, rand.New(rand.NewSource(seed)))
					if err == nil && ok {
						return b, true
					}
				}
				return nil, false
			}
			b1, ok1 := mk(shiftBp)
			b2, ok2 := mk(shiftTs)
			if !ok1 || !ok2 {
				break
			}
			got = checkSigBp(d, b1)
			got.ts, _ = guarded(func() bool { return d.VerifyTimestamp(b2) })
			if n2 := specNext(time.Now().UnixNano()/nsPerMs, iv); n1 != n2 {
				continue
			}
			okCase = got.panicked == ""
			break
		}
		if !okCase {
			continue
		}
		res.Count(fmt.Sprintf("random:%d:%d", iv, e))
		rj, _ := json.Marshal(r)
		fmt.Fprintf(out, `{"ev":"Submit","r":%s,"res":{"ts":%v,"sig":%v,"bp":%v}}`+"\n", rj, got.ts, got.sig, got.bp)
	}
}
