//go:build verif

package dpos

// C08 — the REAL DPoS consensus object for the node-under-test harness (internal/verifnode), without the block
// factory goroutines, and read-only projections of its finality bookkeeping.  Added through the go -overlay.

import (
	"container/list"
	"context"
	"fmt"
	"os"
	"path/filepath"

	"github.com/aergoio/aergo-lib/log"
	"github.com/aergoio/aergo/v2/config"
	"github.com/aergoio/aergo/v2/consensus"
	"github.com/aergoio/aergo/v2/consensus/impl/dpos/bp"
	"github.com/aergoio/aergo/v2/consensus/impl/dpos/slot"
	"github.com/aergoio/aergo/v2/p2p/p2pkey"
	"github.com/aergoio/aergo/v2/pkg/component"
	"github.com/aergoio/aergo/v2/state"
	"github.com/aergoio/aergo/v2/types"
	"github.com/libp2p/go-libp2p/core/crypto"
)

// VerifSetIdentity makes key the identity of this process' node (p2pkey.NodeSID / NodePrivKey), the way
// p2pkey.InitNodeInfo does at start-up from the configured key file.
func VerifSetIdentity(key crypto.PrivKey, dir string) error {
	raw, err := crypto.MarshalPrivateKey(key)
	if err != nil {
		return err
	}
	if err := os.MkdirAll(dir, 0o755); err != nil {
		return err
	}
	f := filepath.Join(dir, "verif-node.key")
	if err := os.WriteFile(f, raw, 0o600); err != nil {
		return err
	}
	p2pkey.InitNodeInfo(&config.BaseConfig{AuthDir: dir}, &config.P2PConfig{NPKey: f}, "v2.0.0", log.NewLogger("verif.p2pkey"))
	return nil
}

// VerifNew is dpos.New without chain.DecorateBlockRewardFn (no voting reward in the harness' genesis) and without
// starting anything: the DPoS object with the real Status (NewStatus -> bootLoader), the real bp.Cluster and an
// un-started BlockFactory (its generateBlock is called synchronously through VerifGenerate).
func VerifNew(cfg *config.Config, hub *component.ComponentHub, cdb consensus.ChainDB, sdb *state.ChainStateDB) (*DPoS, error) {
	consensus.InitBlockInterval(1)
	bpc, err := bp.NewCluster(cdb)
	if err != nil {
		return nil, err
	}
	st, err := getStateDB(cfg, cdb, sdb)
	if err != nil {
		return nil, err
	}
	if err = InitVPR(st); err != nil {
		return nil, err
	}
	Init(bpc.Size())
	quitC := make(chan interface{})
	return &DPoS{
		Status:       NewStatus(bpc, cdb, sdb, cfg.Blockchain.ForceResetHeight),
		ComponentHub: hub,
		ChainDB:      cdb,
		bpc:          bpc,
		bf:           NewBlockFactory(hub, sdb, quitC, cfg.Hardfork, cfg.Consensus.NoTimeoutTxEviction),
		quit:         quitC,
	}, nil
}

// VerifQuit releases the block factory's context goroutine.
func (dpos *DPoS) VerifQuit() {
	defer func() { recover() }()
	close(dpos.quit)
}

// VerifBootLpb is what the block factory worker initialises its lpbNo with.
func VerifBootLpb() types.BlockNo { return bsLoader.lpbNo() }

// VerifGenerate runs the block factory's generateBlock for the slot of ts on the current best block.
func (dpos *DPoS) VerifGenerate(ts int64, lpbNo types.BlockNo) (*types.Block, *state.BlockState, error) {
	bpi := &bpInfo{ChainDB: dpos.ChainDB, slot: slot.NewFromUnixNano(ts)}
	if bpi.updateBestBlock() == nil {
		return nil, nil, fmt.Errorf("no best block")
	}
	return dpos.bf.generateBlock(context.Background(), bpi, lpbNo)
}

// VerifCI is one entry of the confirm list.
type VerifCI struct {
	No    uint64 `json:"no"`
	Hash  string `json:"hash"`
	BP    string `json:"bp"`
	Left  uint16 `json:"left"`
	Range uint64 `json:"rng"`
}

// VerifPl is one proposed LIB.
type VerifPl struct {
	No   uint64 `json:"no"`
	Hash string `json:"hash"`
}

// VerifLibView is the finality bookkeeping of the node.
type VerifLibView struct {
	Attached bool               `json:"attached"` // Status.done: the restored status is attached to the Status
	LibNo    uint64             `json:"lib_no"`
	LibHash  string             `json:"lib_hash"`
	Prpsd    map[string]VerifPl `json:"prpsd"`
	Confirms []VerifCI          `json:"confirms"`
	LpbNo    uint64             `json:"lpb"`
	EffLibNo uint64             `json:"eff_lib_no"` // what VerifyTimestamp / the RPC see: Status.libNo()
	Required uint16             `json:"required"`
	// StatusBest is the block the Status regards as the best one (Status.bestBlock; what Update compares parents with)
	StatusBest string `json:"status_best"`
}

// VerifView projects the status the node will continue with: the attached one, or (right after a start, before the
// first Update) the one the boot loader restored.
func (dpos *DPoS) VerifView() VerifLibView {
	dpos.RLock()
	ls := dpos.libState
	done := dpos.done
	if !done && bsLoader != nil && bsLoader.ls != nil {
		ls = bsLoader.ls
	}
	v := VerifLibView{Attached: done, Prpsd: map[string]VerifPl{}, LpbNo: ls.LpbNo, Required: ls.confirmsRequired}
	if dpos.bestBlock != nil {
		v.StatusBest = dpos.bestBlock.ID()
	} else if bsLoader != nil && bsLoader.best != nil {
		v.StatusBest = bsLoader.best.ID()
	}
	if ls.Lib != nil {
		v.LibNo, v.LibHash = ls.Lib.BlockNo, ls.Lib.BlockHash
	}
	for id, p := range ls.Prpsd {
		if p != nil && p.Plib != nil {
			v.Prpsd[id] = VerifPl{No: p.Plib.BlockNo, Hash: p.Plib.BlockHash}
		}
	}
	forEach(ls.confirms, func(e *list.Element) {
		c := cInfo(e)
		v.Confirms = append(v.Confirms, VerifCI{No: c.BlockNo, Hash: c.BlockHash, BP: c.bpid, Left: c.confirmsLeft, Range: c.ConfirmRange})
	})
	dpos.RUnlock()
	v.EffLibNo = dpos.libNo()
	return v
}
