//go:build verif

package bp

// Read-only observation shim for the BpSnapshots conformance harness (harness/consensus/impl/dpos/verif_bpsnap_test.go).

// VerifSnaps returns a copy of the cached snapshots: reference block number -> list.
func (sn *Snapshots) VerifSnaps() map[uint64][]string {
	out := make(map[uint64][]string, len(sn.snaps))
	for no, s := range sn.snaps {
		out[uint64(no)] = append([]string(nil), s.List...)
	}
	return out
}

// VerifPeriod is the election period the package computes with.
func VerifPeriod() uint64 { return uint64(getElectionPeriod()) }

// VerifBootstrapHeight is the height below which the genesis list is in force.
func VerifBootstrapHeight() uint64 { return uint64(bootstrapHeight()) }

// VerifIndexNil is the index BpID2Index answers for a non-member.
func VerifIndexNil() Index { return indexNil }
