//go:build verif

package slot

// Conformance harness for spec/consensus/Slot.tla (C09), slot arithmetic part.
//
//  1. The owner table printed by TLC (Gen_SlotOwners.cfg: every instant within 3 ms of a slot
//     boundary plus one interior instant per slot, from before the epoch to beyond the third
//     round of 100 producers, for the intervals 1/2/3 s) is replayed on the real Slot
//     functions: owner index for every producer-set size 1..100, exactly one owning index per
//     instant, slot identity relations between consecutive instants.
//  2. A dense sweep in Go extends the table to EVERY ms of three rounds: ownership is
//     constant for exactly one interval and then moves to the next index.
//  3. IsFuture against the wall clock: pairs (clock row, timestamp row) of the table are moved
//     next to time.Now() by whole slots; the clock is read before and after the call and the
//     case is repeated when a slot boundary was crossed in between.

import (
	"fmt"
	"runtime"
	"sync"
	"testing"
	"time"

	"github.com/aergoio/aergo/v2/consensus/impl/dpos/bp"
	"github.com/aergoio/aergo/v2/internal/verifkit"
)

type slotRow struct {
	Ms     int64   `json:"ms"`
	Next   int64   `json:"next"`
	Prev   int64   `json:"prev"`
	Owners []int64 `json:"owners"` // owner index for n = 1..len
}

type slotTable struct {
	Iv   int64     `json:"iv"`
	Rows []slotRow `json:"rows"` // ascending ms
}

type slotInput struct {
	Tables      []slotTable `json:"tables"`
	SweepRounds int         `json:"sweep_rounds"`
	SweepIvs    []int64     `json:"sweep_intervals"` // intervals for which the dense sweep runs
	FutureReps  int         `json:"future_reps"`
}

type slotCase struct {
	Iv    int64  `json:"iv"`
	Ms    int64  `json:"ms"`
	Ns    int64  `json:"ns"`
	N     int    `json:"n,omitempty"`
	Model string `json:"model,omitempty"`
	Code  string `json:"code,omitempty"`
}

// (the slot cases are fully determined by iv/ms/ns/n: no seed needed to replay them)

const nsPerMs = 1000000

// nsOf gives a ns timestamp whose ms part (Go's truncating division) is ms, with sub-ms remainder off.
func nsOf(ms, off int64) int64 {
	if ms > 0 {
		return ms*nsPerMs + off
	}
	if ms < 0 {
		return ms*nsPerMs - off
	}
	if off%2 == 0 {
		return off
	}
	return -off
}

// specNext is NextIndex of Slot.tla for instants after the epoch: slot k = ((k-1)*I, k*I].
func specNext(ms, iv int64) int64 { return (ms + iv - 1) / iv }

func TestVerifSlot(t *testing.T) {
	if !verifkit.Enabled() {
		t.Skip("run through bin/vcheck")
	}
	var in slotInput
	if err := verifkit.ReadInput(&in); err != nil {
		t.Fatal(err)
	}
	res := verifkit.NewResult()
	defer func() {
		if err := res.Write(); err != nil {
			t.Fatal(err)
		}
	}()
	rng := verifkit.Rng(9)
	workers := runtime.NumCPU()

	for _, tb := range in.Tables {
		if tb.Iv%1000 != 0 {
			t.Fatalf("interval %d ms cannot be configured through slot.Init", tb.Iv)
		}
		Init(tb.Iv / 1000) // package-global: the intervals are handled one after the other
		iv := tb.Iv
		offs := []int64{0, 1, nsPerMs - 1, 1 + rng.Int63n(nsPerMs-2)}

		// ---- 1. the TLC table
		var wg sync.WaitGroup
		chunk := (len(tb.Rows) + workers - 1) / workers
		for w := 0; w < workers; w++ {
			lo, hi := w*chunk, (w+1)*chunk
			if hi > len(tb.Rows) {
				hi = len(tb.Rows)
			}
			if lo >= hi {
				continue
			}
			wg.Add(1)
			go func(lo, hi int) {
				defer wg.Done()
				for ri := lo; ri < hi; ri++ {
					row := tb.Rows[ri]
					for _, off := range offs {
						ns := nsOf(row.Ms, off)
						s := NewFromUnixNano(ns)
						epoch := "after-epoch"
						if row.Ms <= 0 {
							epoch = "pre-epoch"
						}
						for n := 1; n <= len(row.Owners); n++ {
							want := row.Owners[n-1]
							got := s.NextBpIndex(uint16(n))
							res.Count("")
							if got != want {
								res.Violate(map[string]interface{}{"kind": "wrong-owner", "when": epoch},
									slotCase{Iv: iv, Ms: row.Ms, Ns: ns, N: n, Model: fmt.Sprint(want), Code: fmt.Sprint(got)},
									"interval %d ms, instant %d ms (ns %d), %d producers: NextBpIndex = %d, Slot.tla BpIndex = %d", iv, row.Ms, ns, n, got, want)
								return
							}
							// exactly one index of 0..n-1 owns the instant (none before the epoch when the model says so)
							owners := 0
							for i := 0; i < n; i++ {
								if s.IsFor(bp.Index(i), uint16(n)) {
									owners++
									if int64(i) != want {
										res.Violate(map[string]interface{}{"kind": "wrong-owner", "when": epoch, "via": "IsFor"},
											slotCase{Iv: iv, Ms: row.Ms, Ns: ns, N: n, Model: fmt.Sprint(want), Code: fmt.Sprint(i)},
											"interval %d ms, instant %d ms, %d producers: IsFor(%d) holds, the owner is %d", iv, row.Ms, n, i, want)
										return
									}
								}
							}
							wantOwners := 0
							if want >= 0 && want < int64(n) {
								wantOwners = 1
							}
							if owners != wantOwners || (row.Ms >= 1 && owners != 1) {
								res.Violate(map[string]interface{}{"kind": "owner-count", "when": epoch},
									slotCase{Iv: iv, Ms: row.Ms, Ns: ns, N: n, Model: fmt.Sprint(wantOwners), Code: fmt.Sprint(owners)},
									"interval %d ms, instant %d ms, %d producers: %d indexes own the instant (must be %d)", iv, row.Ms, n, owners, wantOwners)
								return
							}
							if s.IsFor(bp.Index(65535), uint16(n)) { // the index BpID2Index gives for a non-member
								res.Violate(map[string]interface{}{"kind": "nil-index-owns"},
									slotCase{Iv: iv, Ms: row.Ms, Ns: ns, N: n}, "interval %d, instant %d, %d producers: the nil index owns the instant", iv, row.Ms, n)
								return
							}
						}
						// slot identity relations with the previous instant of the table
						if ri > 0 {
							p := tb.Rows[ri-1]
							ps := NewFromUnixNano(nsOf(p.Ms, off))
							type rel struct {
								name       string
								code, spec bool
							}
							for _, r := range []rel{
								{"Equal", Equal(ps, s), p.Next == row.Next},
								{"LessEqual", LessEqual(s, ps), row.Next <= p.Next},
								{"LessEqual-rev", LessEqual(ps, s), p.Next <= row.Next},
								{"IsNextTo", IsNextTo(s, ps), row.Prev == p.Next},
							} {
								res.Count("")
								if r.code != r.spec {
									res.Violate(map[string]interface{}{"kind": "slot-relation", "rel": r.name, "when": epoch},
										slotCase{Iv: iv, Ms: row.Ms, Ns: ns, Model: fmt.Sprint(r.spec), Code: fmt.Sprint(r.code)},
										"interval %d ms: %s(%d ms, %d ms) = %v, Slot.tla says %v", iv, r.name, p.Ms, row.Ms, r.code, r.spec)
									return
								}
							}
						}
						res.Count(fmt.Sprintf("row:%d:%d:%d", iv, row.Ms, off))
					}
				}
			}(lo, hi)
		}
		wg.Wait()
		if len(tb.Rows) > 0 {
			res.Sample(map[string]interface{}{"iv": iv, "ms": tb.Rows[len(tb.Rows)/2].Ms, "owners_1_to_5": tb.Rows[len(tb.Rows)/2].Owners[:5]})
		}
		if res.NumViolations() > 0 {
			continue
		}

		// ---- 2. dense sweep: every ms of the first rounds, every n (property predicates, no table)
		sizes := make(chan int, 128)
		for _, si := range in.SweepIvs {
			if si == iv {
				for n := 1; n <= 100; n++ {
					sizes <- n
				}
			}
		}
		close(sizes)
		for w := 0; w < workers; w++ {
			wg.Add(1)
			go func() {
				defer wg.Done()
				for n := range sizes {
					last := int64(in.SweepRounds*n)*iv + iv
					prev := int64(-1)
					run := int64(0)
					for ms := int64(1); ms <= last; ms++ {
						o := NewFromUnixNano(ms * nsPerMs).NextBpIndex(uint16(n))
						bad := ""
						switch {
						case o < 0 || o >= int64(n):
							bad = "owner outside 0..n-1"
						case ms == 1:
							if o != 1%int64(n) {
								bad = "the first slot after the epoch belongs to index 1 mod n"
							}
							run = 1
						case o == prev:
							run++
							if n > 1 && run > iv {
								bad = "an index keeps the slot for more than one interval"
							}
						default:
							if o != (prev+1)%int64(n) || run != iv {
								bad = "ownership must move to the next index after exactly one interval"
							}
							run = 1
						}
						if bad != "" {
							res.Violate(map[string]interface{}{"kind": "rotation-law"},
								slotCase{Iv: iv, Ms: ms, Ns: ms * nsPerMs, N: n, Code: fmt.Sprint(o), Model: fmt.Sprint(prev)},
								"interval %d ms, %d producers, instant %d ms: owner %d after %d (run %d ms): %s", iv, n, ms, o, prev, run, bad)
							return
						}
						prev = o
					}
					res.Count(fmt.Sprintf("sweep:%d:%d", iv, n))
				}
			}()
		}
		wg.Wait()
		if res.NumViolations() > 0 {
			continue
		}

		// ---- 3. IsFuture / IsValidNow against the wall clock
		// clock row: any row after the epoch; timestamp rows: all rows whose slot is within -3..+4 of it
		var clockRow *slotRow
		for i := range tb.Rows {
			if tb.Rows[i].Next == 100 {
				clockRow = &tb.Rows[i]
				break
			}
		}
		if clockRow == nil {
			t.Fatalf("no clock row in the table of interval %d", iv)
		}
		for rep := 0; rep < in.FutureReps; rep++ {
			for i := range tb.Rows {
				row := tb.Rows[i]
				d := row.Next - clockRow.Next
				if d < -3 || d > 4 {
					continue
				}
				want := d >= 2 // Slot.tla IsFuture: NextIndex(ts) >= NextIndex(now) + 2
				off := offs[(rep+i)%len(offs)]
				for attempt := 0; ; attempt++ {
					n1 := specNext(time.Now().UnixNano()/nsPerMs, iv)
					k := n1 - clockRow.Next
					ns := nsOf(row.Ms+k*iv, off)
					s := NewFromUnixNano(ns)
					got := s.IsFuture()
					valid := s.IsValidNow()
					n2 := specNext(time.Now().UnixNano()/nsPerMs, iv)
					if n1 != n2 {
						if attempt > 50 {
							t.Fatalf("the wall clock keeps crossing slot boundaries")
						}
						continue // a slot boundary was crossed during the calls: no expectation, repeat
					}
					res.Count(fmt.Sprintf("future:%d:%d:%d", iv, row.Ms, off))
					if got != want {
						res.Violate(map[string]interface{}{"kind": "future-check", "distance": d},
							slotCase{Iv: iv, Ms: row.Ms + k*iv, Ns: ns, Model: fmt.Sprint(want), Code: fmt.Sprint(got)},
							"interval %d ms: timestamp %d slots from the clock's slot (ms %d of the table): IsFuture = %v, Slot.tla says %v", iv, d, row.Ms, got, want)
					}
					if valid != (d == 0) {
						res.Violate(map[string]interface{}{"kind": "valid-now", "distance": d},
							slotCase{Iv: iv, Ms: row.Ms + k*iv, Ns: ns, Model: fmt.Sprint(d == 0), Code: fmt.Sprint(valid)},
							"interval %d ms: timestamp %d slots from the clock's slot: IsValidNow = %v", iv, d, valid)
					}
					break
				}
				if res.NumViolations() > 0 {
					break
				}
			}
			if rep+1 < in.FutureReps {
				// next repetition at another position inside the wall-clock slot
				time.Sleep(time.Duration(100+rng.Intn(400)) * time.Millisecond)
			}
		}
	}
}
