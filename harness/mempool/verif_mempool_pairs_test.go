//go:build verif

package mempool

// Lock-gated pair schedules (C13, deterministic concurrent part).
//
// For an ordered pair (op1, op2) of pool calls enabled in a model state `src` (both taken from the TLC transition
// graph) the harness
//   1. resets a real pool and brings it to `src` by real calls along a shortest path of the graph,
//   2. prepares both calls (transaction, block, age marks for the eviction),
//   3. takes the pool's OWN lock (the harness lives in package mempool): the write lock, or the read lock when a writer
//      has to go before a reader,
//   4. starts op1 in a goroutine and waits until that goroutine either has returned (a put turned away by the cache
//      lookup or the validation never reaches the lock) or is queued at the pool lock,
//   5. does the same with op2, releases the lock, waits for both.
// Both calls have then executed their lock-free parts in `src` and their critical sections one after the other; the
// legal outcomes (computed by the driver from the TLC graph, nothing is re-implemented here) are "op1's section then
// op2's" and "op2's then op1's".  The projection of the real pool and the two return values must equal one of them
// (else {"kind":"pair-not-linearizable"}), and the property's predicates are evaluated on the quiescent pool.
//
// "Queued at the lock" is not guessed from timing: it is read from the lock itself.  sync.RWMutex keeps the number of
// goroutines that have registered as waiters in its own state words: writers blocked behind a writer in
// w.state>>mutexWaiterShift (incremented by the CAS in Mutex.lockSlow right before the goroutine parks on the
// semaphore), a writer waiting for readers and readers waiting for a writer in readerCount (readerCount<0: a writer
// has announced itself; readerCount+rwmutexMaxReaders: readers that have passed RLock's Add).  A goroutine that has
// registered there has finished everything the call does before the lock and cannot enter the critical section before
// the harness releases the gate; only the two goroutines of the pair ever touch this pool, so the counts identify them.
// The state words are read with atomic loads through offsets taken from reflection (field names w/state/readerCount);
// a self-test on a scratch RWMutex (every gate/waiter combination used, cross-checked once against runtime.Stack
// showing the waiter inside sync.(*RWMutex).Lock / RLock) must pass or every pair is skipped.  A pair whose goroutine
// is neither done nor registered within the patience window is skipped and counted, never judged; the driver turns
// more than a small fraction of skips into NO-VERDICT.

import (
	"fmt"
	"reflect"
	"runtime"
	"sort"
	"strings"
	"sync"
	"sync/atomic"
	"testing"
	"time"
	"unsafe"

	"github.com/aergoio/aergo/v2/internal/verifkit"
	"github.com/aergoio/aergo/v2/types"
)

type pairCase struct {
	G    int     `json:"g"`
	B    string  `json:"b"`
	S    int     `json:"s"`
	O1   int     `json:"o1"` // transition index of the graph whose action is the call (enabled in S); -1: get
	O2   int     `json:"o2"`
	Gate string  `json:"gate"` // "W": harness holds the write lock, "R": the read lock
	Out  [][]any `json:"out"`  // legal outcomes [final state, result class 1, report state 1, result class 2, report state 2]
}

type pairOutcome struct {
	D      int
	R1, R2 string
	V1, V2 int
}

func (pc *pairCase) outcomes() ([]pairOutcome, error) {
	var out []pairOutcome
	for _, o := range pc.Out {
		if len(o) != 5 {
			return nil, fmt.Errorf("malformed outcome %v", o)
		}
		num := func(v any) int { f, _ := v.(float64); return int(f) }
		str := func(v any) string { s, _ := v.(string); return s }
		out = append(out, pairOutcome{D: num(o[0]), R1: str(o[1]), V1: num(o[2]), R2: str(o[3]), V2: num(o[4])})
	}
	return out, nil
}

// ---------------------------------------------------------------- reading the lock's waiter counts

const (
	probeWaiterShift = 3       // sync.mutexWaiterShift
	probeMaxReaders  = 1 << 30 // sync.rwmutexMaxReaders
)

type rwProbe struct {
	offState, offReaders uintptr
	ok                   bool
	why                  string
}

func newRWProbe() *rwProbe {
	p := &rwProbe{}
	t := reflect.TypeOf(sync.RWMutex{})
	w, ok1 := t.FieldByName("w")
	rc, ok2 := t.FieldByName("readerCount")
	if !ok1 || !ok2 {
		p.why = "sync.RWMutex has no fields w / readerCount"
		return p
	}
	st, ok3 := w.Type.FieldByName("state")
	if !ok3 || st.Type.Kind() != reflect.Int32 {
		p.why = "sync.Mutex has no int32 field state"
		return p
	}
	p.offState = w.Offset + st.Offset
	switch rc.Type.Kind() {
	case reflect.Int32:
		p.offReaders = rc.Offset
	case reflect.Struct: // atomic.Int32
		v, ok := rc.Type.FieldByName("v")
		if !ok || v.Type.Kind() != reflect.Int32 {
			p.why = "readerCount is not an atomic.Int32"
			return p
		}
		p.offReaders = rc.Offset + v.Offset
	default:
		p.why = "readerCount has an unexpected type"
		return p
	}
	p.ok = true
	if why := p.selfTest(); why != "" {
		p.ok, p.why = false, "self-test: "+why
	}
	return p
}

func (p *rwProbe) writersQueued(mu *sync.RWMutex) int {
	return int(atomic.LoadInt32((*int32)(unsafe.Add(unsafe.Pointer(mu), p.offState))) >> probeWaiterShift)
}

func (p *rwProbe) readerCount(mu *sync.RWMutex) int {
	return int(atomic.LoadInt32((*int32)(unsafe.Add(unsafe.Pointer(mu), p.offReaders))))
}

// waiting: (writers queued behind the writer that holds or has claimed the lock, a writer has announced itself and
// waits for the readers to leave, readers counted by the lock: holders + waiters)
func (p *rwProbe) waiting(mu *sync.RWMutex) (int, bool, int) {
	rc := p.readerCount(mu)
	ann := rc < 0
	if ann {
		rc += probeMaxReaders
	}
	return p.writersQueued(mu), ann, rc
}

func waitFor(cond func() bool, patience time.Duration) bool {
	deadline := time.Now().Add(patience)
	for i := 0; ; i++ {
		if cond() {
			return true
		}
		if i < 200 {
			runtime.Gosched()
		} else {
			if time.Now().After(deadline) {
				return false
			}
			time.Sleep(20 * time.Microsecond)
		}
	}
}

func stackHas(fn string) bool {
	buf := make([]byte, 1<<20)
	n := runtime.Stack(buf, true)
	return strings.Contains(string(buf[:n]), fn)
}

// selfTest drives a scratch RWMutex through every gate/waiter combination the pairs use and checks that the counts
// move exactly as assumed (and that the counted goroutines really sit inside Lock / RLock).
func (p *rwProbe) selfTest() string {
	const patience = 20 * time.Second
	var mu sync.RWMutex
	var done int32
	var wg sync.WaitGroup
	spawn := func(read bool) {
		wg.Add(1)
		go func() {
			defer wg.Done()
			if read {
				mu.RLock()
				atomic.AddInt32(&done, 1)
				mu.RUnlock()
			} else {
				mu.Lock()
				atomic.AddInt32(&done, 1)
				mu.Unlock()
			}
		}()
	}
	if w, a, r := p.waiting(&mu); w != 0 || a || r != 0 {
		return fmt.Sprintf("idle lock reads %d/%v/%d", w, a, r)
	}
	// gate W: writer, writer, reader
	mu.Lock()
	if w, a, r := p.waiting(&mu); w != 0 || !a || r != 0 {
		mu.Unlock()
		return fmt.Sprintf("write-locked lock reads %d/%v/%d", w, a, r)
	}
	spawn(false)
	ok := waitFor(func() bool { w, _, _ := p.waiting(&mu); return w == 1 }, patience)
	if ok && !stackHas("sync.(*RWMutex).Lock") {
		ok = false
	}
	if ok {
		spawn(false)
		ok = waitFor(func() bool { w, _, _ := p.waiting(&mu); return w == 2 }, patience)
	}
	if ok {
		spawn(true)
		ok = waitFor(func() bool { _, _, r := p.waiting(&mu); return r == 1 }, patience)
		if ok && !stackHas("sync.(*RWMutex).RLock") {
			ok = false
		}
	}
	stillOut := atomic.LoadInt32(&done) == 0
	mu.Unlock()
	wg.Wait()
	if !ok || !stillOut {
		return "waiters behind the write lock are not counted as assumed"
	}
	if w, a, r := p.waiting(&mu); w != 0 || a || r != 0 {
		return fmt.Sprintf("released lock reads %d/%v/%d", w, a, r)
	}
	// gate R: writer (announces itself), writer (queues behind it), reader (queues behind the announcement)
	atomic.StoreInt32(&done, 0)
	mu.RLock()
	if w, a, r := p.waiting(&mu); w != 0 || a || r != 1 {
		mu.RUnlock()
		return fmt.Sprintf("read-locked lock reads %d/%v/%d", w, a, r)
	}
	spawn(false)
	ok = waitFor(func() bool { _, a, _ := p.waiting(&mu); return a }, patience)
	if ok {
		spawn(false)
		ok = waitFor(func() bool { w, _, _ := p.waiting(&mu); return w == 1 }, patience)
	}
	if ok {
		spawn(true)
		ok = waitFor(func() bool { _, _, r := p.waiting(&mu); return r == 2 }, patience)
	}
	stillOut = atomic.LoadInt32(&done) == 0
	mu.RUnlock()
	wg.Wait()
	if !ok || !stillOut {
		return "waiters behind the read lock are not counted as assumed"
	}
	if w, a, r := p.waiting(&mu); w != 0 || a || r != 0 {
		return fmt.Sprintf("released lock reads %d/%v/%d", w, a, r)
	}
	return ""
}

// ---------------------------------------------------------------- one call of a pair

type pairRet struct {
	class  string           // put / removeTx: "ok" / "rej"
	detail string           // error text (reported, not compared)
	byAcc  map[string][]aTx // get: what it offers per account
	unconf *unconfOut       // getUnconfirmed(a)
	bad    string           // something the harness cannot interpret (unknown tx, ...)
}

// prepare builds everything the call needs outside the pool (and updates the harness's own view of the chain), so that
// the goroutine does nothing but the pool call.  kind: "w" writer, "r" reader.
func (e *mpEnv) preparePair(a aAct) (func() pairRet, bool, error) {
	switch a.Name {
	case "Put":
		tx := e.mkTx(*a.Tx)
		return func() pairRet {
			if err := e.mp.put(tx); err != nil {
				return pairRet{class: "rej", detail: err.Error()}
			}
			return pairRet{class: "ok"}
		}, false, nil
	case "Remove":
		tx := e.mkTx(*a.Tx).GetTx()
		return func() pairRet {
			if err := e.mp.removeTx(tx); err != nil {
				return pairRet{class: "rej", detail: err.Error()}
			}
			return pairRet{class: "ok"}
		}, false, nil
	case "Block":
		if e.backend == "test" && (!a.Full || a.ChgAcc != "") {
			return nil, false, fmt.Errorf("block with a state change / partial scan on the test back end")
		}
		named := append([]string{}, a.Dirty...)
		if a.ChgAcc != "" {
			if a.ChgSt.Nonce > e.chain[a.ChgAcc].Nonce {
				found := false
				for _, n := range named {
					found = found || n == a.ChgAcc
				}
				if !found {
					named = append(named, a.ChgAcc)
				}
			}
			e.chain[a.ChgAcc] = *a.ChgSt
		}
		blk, err := e.block(e.chain, a.Full, named)
		if err != nil {
			return nil, false, err
		}
		return func() pairRet {
			if err := e.mp.removeOnBlockArrival(blk); err != nil {
				return pairRet{bad: "removeOnBlockArrival: " + err.Error()}
			}
			return pairRet{}
		}, false, nil
	case "Evict":
		// evictPeriod is 0 (default configuration): a list is old unless its time stamp lies in the future
		if evictPeriod != 0 {
			return nil, false, fmt.Errorf("evictPeriod is %v, the age marks assume 0", evictPeriod)
		}
		in := map[string]bool{}
		for _, x := range a.Accs {
			in[x] = true
		}
		future := time.Now().Add(time.Hour)
		e.mp.Lock()
		for id, l := range e.mp.pool {
			if !in[e.name[id]] {
				l.lastTime = future
			}
		}
		e.mp.Unlock()
		return func() pairRet {
			e.mp.evictTransactions()
			return pairRet{}
		}, false, nil
	case "Unconfirmed":
		addr := []types.Address{types.Address(e.addr[a.Acc])}
		return func() pairRet {
			out := e.mp.getUnconfirmed(addr, false)
			if len(out) != 1 || out[0] == nil {
				return pairRet{bad: fmt.Sprintf("getUnconfirmed returned %d entries", len(out))}
			}
			p, u1 := e.idsToTxs(out[0].Pooled.IDs)
			o, u2 := e.idsToTxs(out[0].Orphaned.IDs)
			r := pairRet{unconf: &unconfOut{Pooled: p, Orphaned: o, Unknown: u1 + u2}}
			if out[0].Pooled.Count != len(out[0].Pooled.IDs) || out[0].Orphaned.Count != len(out[0].Orphaned.IDs) {
				r.bad = "getUnconfirmed counts differ from the id lists"
			}
			return r
		}, true, nil
	case "Get":
		return func() pairRet {
			txs, err := e.mp.get(1 << 30)
			if err != nil {
				return pairRet{bad: "get failed: " + err.Error()}
			}
			r := pairRet{byAcc: map[string][]aTx{}}
			for _, tx := range txs {
				at, ok := e.absTx(tx)
				if !ok {
					r.bad = "get returned an unknown tx"
					continue
				}
				r.byAcc[at.Acc] = append(r.byAcc[at.Acc], at)
			}
			return r
		}, true, nil
	}
	return nil, false, fmt.Errorf("call %q cannot be part of a pair", a.Name)
}

// retMatches: does what the call returned equal what the model's step returns (class) / shows (report state)?
func retMatches(a aAct, r pairRet, class string, view *aState) (bool, string) {
	if r.bad != "" {
		return false, r.bad
	}
	switch a.Name {
	case "Put", "Remove":
		return r.class == class, ""
	case "Get":
		for acc, l := range view.Pool {
			if !txsEq(r.byAcc[acc], l.List[:l.Ready]) {
				return false, ""
			}
		}
		for acc, l := range r.byAcc {
			if _, ok := view.Pool[acc]; !ok && len(l) > 0 {
				return false, ""
			}
		}
		return true, ""
	case "Unconfirmed":
		l := view.Pool[a.Acc]
		return r.unconf != nil && r.unconf.Unknown == 0 && txsEq(r.unconf.Pooled, l.List[:l.Ready]) && txsEq(r.unconf.Orphaned, l.List[l.Ready:]), ""
	}
	return true, ""
}

func retString(a aAct, r pairRet) string {
	switch a.Name {
	case "Put", "Remove":
		if r.detail != "" {
			return r.class + " (" + r.detail + ")"
		}
		return r.class
	case "Get":
		var names []string
		for n := range r.byAcc {
			names = append(names, n)
		}
		sort.Strings(names)
		var parts []string
		for _, n := range names {
			parts = append(parts, fmt.Sprintf("%s:%v", n, r.byAcc[n]))
		}
		return "offers {" + strings.Join(parts, " ") + "}"
	case "Unconfirmed":
		if r.unconf != nil {
			return fmt.Sprintf("pooled %v orphaned %v", r.unconf.Pooled, r.unconf.Orphaned)
		}
	}
	return "-"
}

func pairActString(a aAct) string {
	if a.Name == "Get" {
		return "Get()"
	}
	b := a
	b.Res = ""
	s := actString(b)
	return strings.TrimSuffix(s, "=")
}

// ---------------------------------------------------------------- one pair

const (
	pairJudged  = iota
	pairSkipped // the gate could not be confirmed (or the source state could not be rebuilt): no judgement
)

type pairStats struct {
	judged, skipped, first1, first2, either, early int64
	skipWhy                                         sync.Map
}

func (e *mpEnv) runPair(res *verifkit.Result, probe *rwProbe, g *aGraph, pc *pairCase, st *pairStats, patience time.Duration) int {
	skip := func(why string) int {
		atomic.AddInt64(&st.skipped, 1)
		st.skipWhy.LoadOrStore(why, fmt.Sprintf("graph %s, %s back end, state %d, ops %d/%d", g.Name, e.backend, pc.S, pc.O1, pc.O2))
		return pairSkipped
	}
	if !probe.ok {
		return skip("lock probe unusable: " + probe.why)
	}
	outs, err := pc.outcomes()
	if err != nil || len(outs) == 0 {
		return skip("malformed pair")
	}
	act := func(o int) aAct {
		if o < 0 {
			return aAct{Name: "Get"}
		}
		return g.Trans[o].A
	}
	a1, a2 := act(pc.O1), act(pc.O2)
	// 1. the source state, by real calls
	if err := e.reset(g.States[g.Init].Chain); err != nil {
		panic(fmt.Sprintf("c13 harness: reset failed: %v", err))
	}
	path, ok := pathTo(g, e.backend, pc.S)
	if !ok {
		return skip("source state not reachable on this back end")
	}
	var hist []aAct
	for _, ti := range path {
		if _, _, err := e.apply(g.Trans[ti].A); err != nil {
			return skip("path step failed: " + err.Error())
		}
		hist = append(hist, g.Trans[ti].A)
	}
	if f, txt := diffState(e.project(), &g.States[pc.S]); f != "" {
		// (every path step is checked by the sequential part; the pairs only run when that part was clean)
		return skip("source state not reproduced: " + txt)
	}
	// 2. both calls prepared outside the pool
	f1, rd1, err := e.preparePair(a1)
	if err != nil {
		return skip("cannot prepare: " + err.Error())
	}
	f2, rd2, err := e.preparePair(a2)
	if err != nil {
		return skip("cannot prepare: " + err.Error())
	}
	// 3.-5. the gate
	mu := &e.mp.RWMutex
	if w, a, r := probe.waiting(mu); w != 0 || a || r != 0 {
		return skip("pool lock not idle before the pair")
	}
	gateR := pc.Gate == "R"
	if gateR {
		mu.RLock()
	} else {
		mu.Lock()
	}
	holders := 0 // readers the lock counts that are not waiters: the harness itself under the read gate
	if gateR {
		holders = 1
	}
	var r1, r2 pairRet
	var d1, d2 int32
	done1, done2 := make(chan struct{}), make(chan struct{})
	// what the lock has to show once the goroutine of a call is queued, given what was queued before it
	type seen struct {
		w   int
		ann bool
		r   int
	}
	// (second result: can the call be held up by the gate at all?  Under the read gate a reader is only held up by a
	// writer that has announced itself; otherwise it runs through, and only its return is waited for)
	expect := func(cur seen, reader bool) (seen, bool) {
		switch {
		case reader:
			if gateR && !cur.ann {
				return cur, false
			}
			cur.r++
		case gateR && !cur.ann:
			cur.ann = true // first writer under the read gate: takes w, announces itself, waits for the harness to leave
		default:
			cur.w++
		}
		return cur, true
	}
	at := func(want seen) bool {
		w, a, r := probe.waiting(mu)
		return w == want.w && a == (want.ann || !gateR) && r == want.r+holders
	}
	cur := seen{}
	go func() { r1 = f1(); atomic.StoreInt32(&d1, 1); close(done1) }()
	want1, held1 := expect(cur, rd1)
	confirmed := waitFor(func() bool { return atomic.LoadInt32(&d1) == 1 || held1 && at(want1) }, patience)
	blocked1 := false
	if confirmed && atomic.LoadInt32(&d1) == 0 {
		blocked1, cur = true, want1
	}
	blocked2 := false
	if confirmed {
		go func() { r2 = f2(); atomic.StoreInt32(&d2, 1); close(done2) }()
		want2, held2 := expect(cur, rd2)
		confirmed = waitFor(func() bool { return atomic.LoadInt32(&d2) == 1 || held2 && at(want2) }, patience)
		if confirmed && atomic.LoadInt32(&d2) == 0 {
			blocked2, cur = true, want2
		}
		// a queued call must still be queued (it cannot have passed the gate)
		if confirmed && (blocked1 && atomic.LoadInt32(&d1) == 1 || !at(cur)) {
			confirmed = false
		}
	} else {
		close(done2)
	}
	if gateR {
		mu.RUnlock()
	} else {
		mu.Unlock()
	}
	<-done1
	<-done2
	if !confirmed {
		return skip("a call was neither finished nor queued at the pool lock within the patience window")
	}
	if !blocked1 || !blocked2 {
		atomic.AddInt64(&st.early, 1)
	}
	// 6. judgement at the quiescent point
	atomic.AddInt64(&st.judged, 1)
	res.Count(fmt.Sprintf("pair/%s/%s/%d/%d/%d", g.Name, e.backend, pc.S, pc.O1, pc.O2))
	p := e.project()
	match := -1
	var matched []int
	for i, o := range outs {
		if o.D < 0 || o.D >= len(g.States) {
			continue
		}
		view := func(v int) *aState {
			if v >= 0 && v < len(g.States) {
				return &g.States[v]
			}
			return &g.States[o.D]
		}
		ok1, _ := retMatches(a1, r1, o.R1, view(o.V1))
		ok2, _ := retMatches(a2, r2, o.R2, view(o.V2))
		if !ok1 || !ok2 {
			continue
		}
		if f, _ := diffState(p, &g.States[o.D]); f == "" {
			matched = append(matched, i)
			if match < 0 {
				match = i
			}
		}
	}
	replay := func() map[string]interface{} {
		var legal []interface{}
		for i, o := range outs {
			legal = append(legal, map[string]interface{}{"order": []string{"op1 then op2", "op2 then op1"}[i%2], "state": g.States[o.D], "res1": o.R1, "res2": o.R2})
		}
		return map[string]interface{}{"graph": g.Name, "backend": e.backend, "init_chain": g.States[g.Init].Chain, "history": hist,
			"src": g.States[pc.S], "op1": a1, "op2": a2, "gate": pc.Gate, "queued1": blocked1, "queued2": blocked2,
			"got": p, "ret1": retString(a1, r1), "ret2": retString(a2, r2), "legal": legal}
	}
	ops := a1.Name + "/" + a2.Name
	if match < 0 {
		txt := ""
		if len(outs) > 0 {
			_, txt = diffState(p, &g.States[outs[0].D])
		}
		res.Violate(map[string]interface{}{"kind": "pair-not-linearizable", "ops": ops}, replay(),
			"%s and %s started together in a pool at the lock (graph %s, %s back end, after %s): op1 returned %s, op2 returned %s, pool %+v — "+
				"neither \"op1 then op2\" (%s / %s, %+v) nor \"op2 then op1\" (%s / %s, %+v) of the model; against the first: %s",
			pairActString(a1), pairActString(a2), g.Name, e.backend, histString(hist), retString(a1, r1), retString(a2, r2), p.Pool,
			outs[0].R1, outs[0].R2, g.States[outs[0].D].Pool, outs[len(outs)-1].R1, outs[len(outs)-1].R2, g.States[outs[len(outs)-1].D].Pool, txt)
	} else {
		switch {
		case len(matched) > 1:
			atomic.AddInt64(&st.either, 1)
		case match == 0:
			atomic.AddInt64(&st.first1, 1)
		default:
			atomic.AddInt64(&st.first2, 1)
		}
	}
	for i, a := range []aAct{a1, a2} {
		if a.Name == "Get" {
			if acc, txt := fetchGap([]pairRet{r1, r2}[i].byAcc, nil); acc != "" {
				res.Violate(map[string]interface{}{"kind": "report", "field": "get-gap", "action": "pair " + ops, "backend": e.backend}, replay(),
					"in the pair %s / %s (graph %s, %s back end): %s", pairActString(a1), pairActString(a2), g.Name, e.backend, txt)
			}
		}
	}
	notified := g.States[outs[0].D].Notified
	if k, txt := checkPredicates(p, e.chain, notified); k != "" {
		res.Violate(map[string]interface{}{"kind": "predicate", "field": k, "action": "pair " + ops, "backend": e.backend}, replay(),
			"after the pair %s / %s (graph %s, %s back end, after %s): %s", pairActString(a1), pairActString(a2), g.Name, e.backend, histString(hist), txt)
	} else if match >= 0 {
		res.Sample(map[string]interface{}{"pair": []string{pairActString(a1), pairActString(a2)}, "graph": g.Name, "backend": e.backend, "gate": pc.Gate,
			"src": g.States[pc.S], "matched": []string{"op1 then op2", "op2 then op1"}[match%2], "dst": g.States[outs[match].D]})
	}
	return pairJudged
}

// runPairs distributes the pairs over the workers' pools (one pool per worker and back end, as in the sequential part).
func runPairs(t *testing.T, res *verifkit.Result, in *mpInput, envs [][]*mpEnv) {
	probe := newRWProbe()
	if !probe.ok {
		res.Note("pair schedules: lock probe unusable (%s): every pair skipped", probe.why)
	}
	patience := 5 * time.Second
	st := &pairStats{}
	t0 := time.Now()
	jobs := make(chan *pairCase, 1024)
	var wg sync.WaitGroup
	for w := range envs {
		wg.Add(1)
		go func(w int) {
			defer wg.Done()
			for pc := range jobs {
				if pc.G < 0 || pc.G >= len(in.Graphs) {
					atomic.AddInt64(&st.skipped, 1)
					continue
				}
				g := &in.Graphs[pc.G]
				for _, e := range envs[w] {
					if e.backend == pc.B {
						e.accs = g.Accounts
						e.runPair(res, probe, g, pc, st, patience)
					}
				}
			}
		}(w)
	}
	for i := range in.Pairs {
		if res.NumViolations() > 20 {
			break
		}
		jobs <- &in.Pairs[i]
	}
	close(jobs)
	wg.Wait()
	res.Extra["pairs_judged"] = st.judged
	res.Extra["pairs_skipped"] = st.skipped
	res.Extra["pairs_given"] = len(in.Pairs)
	res.Note("lock-gated pairs: %d judged (%d matched only op1-then-op2, %d only op2-then-op1, %d both orders coincide; in %d a call returned before the lock), %d skipped, %.1fs",
		st.judged, st.first1, st.first2, st.either, st.early, st.skipped, time.Since(t0).Seconds())
	n := 0
	st.skipWhy.Range(func(k, v interface{}) bool {
		if n < 5 {
			res.Note("pair skipped: %s (%s)", k, v)
		}
		n++
		return true
	})
}
