//go:build verif

package mempool

// Conformance harness for spec/admission/EnterpriseConf.tla (C14, stateful part).
//
// TLC enumerates every state of the enterprise contract's storage reachable in fewer than
// MaxLen transactions of the alphabet, and for every such state every transaction of the
// alphabet with the specification's outcome (accept / reject) and successor state.  This
// harness puts a real state DB into each of those states (by sending the transactions of a
// shortest history through the real pool and executor), then sends every transaction of
// the alphabet through the same entry points the node uses, each under recover():
//
//	admission   (*MemPool).verifyTx + (*MemPool).validateTx -> enterprise.ValidateEnterpriseTx
//	execution   chain.NewTxExecutor -> executeTx -> enterprise.ExecuteEnterpriseTx, producer and
//	            validator mode, block committed
//	readers     enterprise.GetAdmin / GetConf, mempool.setStateDB on the committed state
//
// (c14Run, c14Readers, c14World of verif_admission_test.go.)  Verdicts:
//
//	panic       at any stage                       {"kind":"panic","stage":..,"op":..,"after":<stored shape>}
//	round trip  what an admitted and executed setConf/appendConf/removeConf/enableConf set is not
//	            what enterprise.GetConf reads from the committed state
//
// The specification's accept/reject and its successor state (compared byte for byte with the
// contract storage) are counted as agreement / drift, never a verdict.  When the code leaves
// the model (it admitted what the model refuses, or stored other bytes) the real state is
// explored further without predictions: every transaction of the alphabet, up to the same
// history length, memoised on the real storage content.

import (
	"bytes"
	"encoding/json"
	"fmt"
	"math/rand"
	"os"
	"os/exec"
	"path/filepath"
	"runtime"
	"runtime/debug"
	"sort"
	"strings"
	"sync"
	"testing"

	"github.com/aergoio/aergo/v2/contract/enterprise"
	"github.com/aergoio/aergo/v2/internal/common"
	"github.com/aergoio/aergo/v2/internal/enc/base64"
	"github.com/aergoio/aergo/v2/internal/enc/proto"
	"github.com/aergoio/aergo/v2/internal/verifkit"
	"github.com/aergoio/aergo/v2/state/statedb"
	"github.com/aergoio/aergo/v2/types"
	"github.com/aergoio/aergo/v2/types/dbkey"
	"github.com/rs/zerolog"
)

// ---------------------------------------------------------------- input

type ecOp struct {
	Op   string     `json:"op"`
	Who  string     `json:"who"`  // "A" (the admin of the world) | "B" (account rich)
	Key  string     `json:"key"`  // RPC | ACCW | P2PW | P2PB | -
	Vals [][]string `json:"vals"` // values as sequences of atoms
	Flag bool       `json:"flag"`
	Addr string     `json:"addr"` // A | B | name | nonaddr | -
}

func (o *ecOp) desc() string {
	switch o.Op {
	case "setConf", "appendConf", "removeConf":
		vs := make([]string, len(o.Vals))
		for i, v := range o.Vals {
			vs[i] = strings.Join(v, ".")
			if len(v) == 0 {
				vs[i] = "<empty>"
			}
		}
		return fmt.Sprintf("%s(%s)[%s,%s]", o.Op, o.Who, o.Key, strings.Join(vs, ","))
	case "enableConf":
		return fmt.Sprintf("%s(%s)[%s,%v]", o.Op, o.Who, o.Key, o.Flag)
	case "appendAdmin", "removeAdmin":
		return fmt.Sprintf("%s(%s)[%s]", o.Op, o.Who, o.Addr)
	}
	return fmt.Sprintf("%s(%s)", o.Op, o.Who)
}

type ecState struct {
	Store  map[string][]string `json:"store"` // key -> atoms of the stored bytes ([] = never written)
	Admins []string            `json:"admins"`
}

type ecInput struct {
	World  c14WorldSpec `json:"world"`
	Ops    []ecOp       `json:"ops"`
	States []ecState    `json:"states"` // states[0] = the world after its set-up blocks
	Trans  [][][2]int   `json:"trans"`  // trans[s][op] = [outcome (1 accept, 0 reject), successor]; nil: s is not expanded
	Path   [][2]int     `json:"path"`   // path[s] = [predecessor, op] on a shortest history (path[0] unused)
	Depth  []int        `json:"depth"`
	MaxLen int          `json:"maxlen"`
	OffCap int          `json:"offcap"` // real states explored outside the model, per worker
}

var ecKeyText = map[string]string{"RPC": enterprise.RPCPermissions, "ACCW": enterprise.AccountWhite, "P2PW": enterprise.P2PWhite, "P2PB": enterprise.P2PBlack}
var ecKeys = []string{"RPC", "ACCW", "P2PW", "P2PB"}

// ---------------------------------------------------------------- concretisation: one text per atom and run

type ecConc struct {
	w    *c14World
	atom map[string]string
}

func ecNewConc(w *c14World) *ecConc {
	rng := verifkit.Rng(14014)
	pick := func(xs ...string) string { return xs[rng.Intn(len(xs))] }
	c := &ecConc{w: w, atom: map[string]string{
		"BS": `\`, "C": ":",
		"b64a": "dGVzdA==", "RW": "RW", // the value the world's set-up stores
		"b64b": pick("cm8=", "cm8y", "QUJDRA=="), "b64c": pick("YWJj", "YWJjZA==", "eHl6"), "junk": pick("junk", "abcd", "Zm9v"),
		"nb64": pick("@@@", "a*b", "not base64"),
		"R":    pick("R", "r", "S", "CS"), "W": pick("W", "w", "WC", "CW"),
		"addrA":   types.EncodeAddress(w.accts["admin"].addr),
		"addrB":   types.EncodeAddress(w.accts["rich"].addr),
		"name":    pick("aergo.vault", "aergo.system", "abc", "name.12chars"),
		"nonaddr": pick("not_an_address!", "AmLc7W2NnTsxbLSh1jUVBBuaK8JYbcGWEFNmMsXLMBu7MqYqAAAA", "with space 12", "aergo.nosuchspecial"),
		"p2pa":    `{"peerid":"` + w.bps[0] + `"}`,
		"p2pb":    pick(`{"cidr":"172.21.3.35/24"}`, `{"address":"10.0.0.7"}`, `{"peerid":"`+w.bps[1]+`","address":"::1"}`),
		"p2pbad":  pick(`{}`, `not json`, `{"address":"1.2.3.4","cidr":"1.2.3.0/24"}`, `{"peerid":"xx"}`),
		"p2pe1":   `{"address":"10.0.0.`, "p2pe2": `u0031"}`,
	}}
	return c
}

func (c *ecConc) value(atoms []string) string {
	var b strings.Builder
	for _, a := range atoms {
		t, ok := c.atom[a]
		if !ok {
			panic("entconf harness: unknown atom " + a)
		}
		b.WriteString(t)
	}
	return b.String()
}

// bytes the model expects under the conf key (nil: never written)
func (c *ecConc) stored(atoms []string) []byte {
	if len(atoms) == 0 {
		return nil
	}
	b := []byte{0}
	if atoms[0] == "ON" {
		b[0] = 1
	} else if atoms[0] != "OFF" {
		panic("entconf harness: stored bytes do not begin with ON/OFF: " + strings.Join(atoms, " "))
	}
	return append(b, []byte(c.value(atoms[1:]))...)
}

func (c *ecConc) acct(who string) *c14Acct {
	if who == "A" {
		return c.w.accts["admin"]
	}
	return c.w.accts["rich"]
}

func (c *ecConc) admins(as []string) []byte {
	var b []byte
	for _, a := range as {
		b = append(b, c.acct(a).addr...)
	}
	return b
}

// the transaction of an op; args = the string arguments of a conf transaction (key first)
func (c *ecConc) build(o *ecOp, nonce uint64, rng *rand.Rand) (wire []byte, payload string, args []string, err error) {
	a := c.acct(o.Who)
	body := &types.TxBody{Nonce: nonce, Account: a.addr, Recipient: []byte(types.AergoEnterprise), Type: types.TxType_GOVERNANCE,
		ChainIdHash: common.Hasher(c.w.chainID)}
	js := func(v interface{}) string { b, _ := json.Marshal(v); return string(b) }
	keyText := func() string {
		k := ecKeyText[o.Key]
		switch rng.Intn(3) {
		case 0:
			return strings.ToLower(k)
		case 1:
			return k[:1] + strings.ToLower(k[1:])
		}
		return k
	}
	switch o.Op {
	case "setConf", "appendConf", "removeConf":
		args = []string{keyText()}
		for _, v := range o.Vals {
			args = append(args, c.value(v))
		}
		payload = `{"Name":` + js(o.Op) + `,"Args":` + js(args) + `}`
	case "enableConf":
		args = []string{keyText()}
		payload = `{"Name":"enableConf","Args":[` + js(args[0]) + `,` + js(o.Flag) + `]}`
	case "appendAdmin", "removeAdmin":
		t := ""
		switch o.Addr {
		case "A", "B":
			t = types.EncodeAddress(c.acct(o.Addr).addr)
		default:
			t = c.atom[o.Addr]
		}
		payload = `{"Name":` + js(o.Op) + `,"Args":[` + js(t) + `]}`
	case "changeCluster":
		payload = `{"Name":"changeCluster","Args":[{"command":"remove","id":"dd44cf1a06727dc5"}]}`
	case "transfer":
		body.Type, body.Recipient, body.Amount = types.TxType_TRANSFER, c.w.accts["other"].addr, []byte{1}
	default:
		return nil, "", nil, fmt.Errorf("unknown op %q", o.Op)
	}
	body.Payload = []byte(payload)
	tx := &types.Tx{Body: body}
	c14Sign(tx, a.priv)
	wire, err = proto.Encode(tx)
	return
}

// ---------------------------------------------------------------- the real storage of the enterprise contract

type ecReal struct {
	conf   map[string][]byte
	admins []byte
}

func ecRead(w *c14World, root []byte) (*ecReal, error) {
	ecs, err := statedb.GetEnterpriseAccountState(w.sdb.OpenNewStateDB(root))
	if err != nil {
		return nil, err
	}
	r := &ecReal{conf: map[string][]byte{}}
	for _, k := range ecKeys {
		if r.conf[k], err = ecs.GetData(dbkey.EnterpriseConf([]byte(ecKeyText[k]))); err != nil {
			return nil, err
		}
	}
	if r.admins, err = ecs.GetData(dbkey.EnterpriseAdmins()); err != nil {
		return nil, err
	}
	return r, nil
}

func (r *ecReal) key() string {
	var b strings.Builder
	for _, k := range ecKeys {
		fmt.Fprintf(&b, "%s=%q;", k, r.conf[k])
	}
	fmt.Fprintf(&b, "ADMINS=%x", r.admins)
	return b.String()
}

func (r *ecReal) equal(c *ecConc, s *ecState) (bool, string) {
	for _, k := range ecKeys {
		want := c.stored(s.Store[k])
		if !bytes.Equal(want, r.conf[k]) && !(len(want) == 0 && len(r.conf[k]) == 0) {
			return false, fmt.Sprintf("%s: model %q, contract storage %q", k, want, r.conf[k])
		}
	}
	if want := c.admins(s.Admins); !bytes.Equal(want, r.admins) && !(len(want) == 0 && len(r.admins) == 0) {
		return false, fmt.Sprintf("ADMINS: model %x, contract storage %x", want, r.admins)
	}
	return true, ""
}

// what the node's reader returns for a conf (deserializeConf), under recover
func ecGetConf(w *c14World, root []byte, key string) (on bool, vals []string, p *c14Panic, err error) {
	p = c14Guard(func() {
		var ecs *statedb.ContractState
		if ecs, err = statedb.GetEnterpriseAccountState(w.sdb.OpenNewStateDB(root)); err != nil {
			return
		}
		var conf *types.EnterpriseConfig
		if conf, err = enterprise.GetConf(ecs, ecKeyText[key]); err != nil {
			return
		}
		on, vals = conf.GetOn(), append([]string{}, conf.GetValues()...)
	})
	return
}

// the class of a stored value as the validators of its key see it
func ecValueClass(key, v string) string {
	if strings.Contains(v, `\`) {
		return "has-backslash"
	}
	switch key {
	case "RPC":
		parts := strings.Split(v, ":")
		switch {
		case v == "":
			return "empty"
		case len(parts) < 2:
			return "no-colon"
		case len(parts) > 2:
			return "extra-colon"
		}
		if _, err := base64.Decode(parts[0]); err != nil {
			return "non-base64"
		}
	case "ACCW":
		if v == "" {
			return "empty"
		}
		a, err := types.DecodeAddress(v)
		if err != nil {
			return "non-address"
		}
		if len(a) != types.AddressLength {
			return "name-address"
		}
	default:
		if v == "" {
			return "empty"
		}
		if _, err := types.ParseListEntry(v); err != nil {
			return "non-entry"
		}
	}
	return "ok"
}

func ecClasses(key string, vals []string, all bool) string {
	set := map[string]bool{}
	for _, v := range vals {
		if c := ecValueClass(key, v); all || c != "ok" {
			set[c] = true
		}
	}
	if len(set) == 0 {
		return "well-formed"
	}
	cs := make([]string, 0, len(set))
	for c := range set {
		cs = append(cs, c)
	}
	sort.Strings(cs)
	return strings.Join(cs, ",")
}

// the stored shape a transaction meets: the conf of its key (conf calls), the admin list otherwise
func ecAfter(w *c14World, root []byte, o *ecOp) string {
	if _, ok := ecKeyText[o.Key]; ok {
		_, vals, p, err := ecGetConf(w, root, o.Key)
		if p != nil || err != nil {
			return ecKeyText[o.Key] + "[unreadable]"
		}
		return ecKeyText[o.Key] + "[" + ecClasses(o.Key, vals, false) + "]"
	}
	r, err := ecRead(w, root)
	if err != nil {
		return "ADMINS[unreadable]"
	}
	if len(r.admins)%types.AddressLength != 0 {
		return "ADMINS[not-a-multiple-of-33-bytes]"
	}
	_, vals, p, err := ecGetConf(w, root, "ACCW")
	if p != nil || err != nil {
		return "ADMINS[well-formed],ACCOUNTWHITE[unreadable]"
	}
	return "ADMINS[well-formed],ACCOUNTWHITE[" + ecClasses("ACCW", vals, false) + "]"
}

// ---------------------------------------------------------------- one step

type ecStep struct {
	o       c14Outcome
	payload string
	wire    []byte
	args    []string
	outcome string // accept | reject | panic | exec-err | exec-skip | stub
	newRoot []byte
}

type ecRun struct {
	w       *c14World
	c       *ecConc
	in      *ecInput
	newPool func(root []byte, no uint64) *MemPool
	finds   *c14Findings
	part    *ecPartial
}

func (r *ecRun) nonce(mp *MemPool, who string) uint64 {
	st, err := mp.getAccountState(r.c.acct(who).addr)
	if err != nil {
		panic("entconf harness: " + err.Error())
	}
	return st.GetNonce()
}

// step sends op through admission, execution (committing) on (root, depth) and classifies the result
func (r *ecRun) step(mp *MemPool, root []byte, depth int, oi int) *ecStep {
	o := &r.in.Ops[oi]
	rng := verifkit.Rng(int64(oi)*977 + int64(depth))
	wire, payload, args, err := r.c.build(o, r.nonce(mp, o.Who)+1, rng)
	if err != nil {
		panic("entconf harness: " + err.Error())
	}
	s := &ecStep{payload: payload, wire: wire, args: args}
	s.o = c14Run(r.w, mp, root, c14BestNo+uint64(depth), wire, true, true)
	x := &s.o
	switch {
	case x.panic != nil:
		s.outcome = "panic"
	case x.types != "accept" || x.pool != "accept":
		s.outcome = "reject"
	case x.exec == "stub" || x.execV == "stub":
		s.outcome = "stub"
	case x.execV == "ok" && x.exec == "ok":
		s.outcome = "accept"
		s.newRoot = x.newRoot
	case x.execV == "skip" || x.exec == "skip":
		s.outcome = "exec-skip"
	default:
		s.outcome = "exec-err"
	}
	return s
}

func ecStage(at string) string {
	if at == "exec" {
		return "execution"
	}
	return "admission"
}

func (r *ecRun) histDesc(h []int) string {
	ds := make([]string, len(h))
	for i, oi := range h {
		ds[i] = r.in.Ops[oi].desc()
	}
	return strings.Join(ds, " ; ")
}

func (r *ecRun) replay(h []int, oi int, s *ecStep, extra map[string]interface{}) map[string]interface{} {
	hist := make([]string, len(h))
	for i, x := range h {
		hist[i] = r.in.Ops[x].desc()
	}
	m := map[string]interface{}{"world": r.w.spec, "seed": verifkit.Seed(), "history_admitted_and_executed_first": hist, "op": r.in.Ops[oi], "payload": s.payload,
		"tx_protobuf_hex": c14Hex(s.wire), "atoms": r.c.atom,
		"outcome": map[string]string{"types": s.o.types, "pool": s.o.pool, "exec_producer": s.o.exec, "exec_validator": s.o.execV}}
	if s.o.panic != nil {
		m["panic"], m["panic_at"], m["stack"] = s.o.panic.val, s.o.panic.where, s.o.panic.frames
	}
	for k, v := range extra {
		m[k] = v
	}
	return m
}

func ecRank(h []int, oi int) string { return fmt.Sprintf("%02d|%04d|%v", len(h), oi, h) }

// check runs op oi on the real state (root, depth) reached by history h, reports panics and round-trip losses, and
// returns the step (newRoot != nil: admitted, executed, block committed)
func (r *ecRun) check(mp *MemPool, root []byte, h []int, oi int, count bool) *ecStep {
	o := &r.in.Ops[oi]
	depth := len(h)
	_, isConf := ecKeyText[o.Key]
	var prevOn bool
	var prevVals []string
	if isConf {
		prevOn, prevVals, _, _ = ecGetConf(r.w, root, o.Key)
	}
	s := r.step(mp, root, depth, oi)
	if count {
		r.part.Outcomes[o.Op+"/"+s.outcome]++
	}
	if s.o.panic != nil {
		p := s.o.panic
		key := "-"
		if isConf {
			key = ecKeyText[o.Key]
		}
		after := ecAfter(r.w, root, o)
		sig := map[string]interface{}{"kind": "panic", "stage": ecStage(s.o.panicAt), "op": o.Op, "key": key, "site": p.site, "panic": p.class, "after": after}
		r.finds.add(sig, r.histDesc(h)+" ; "+o.desc(), ecRank(h, oi), r.replay(h, oi, s, map[string]interface{}{"after": after}),
			fmt.Sprintf("%s of %s panics at %s (%s): %s\n stored before by admitted transactions: %s  (history: %s)\n payload %s, sender %s\n stack: %s",
				ecStage(s.o.panicAt), o.Op, p.site, p.where, p.val, after, r.histDesc(h), s.payload, o.Who, strings.Join(p.frames, " <- ")))
		return s
	}
	if s.newRoot == nil {
		return s
	}
	// the committed state: the readers of a node, then the round trip of what this transaction set
	if where, p := c14Readers(r.w, s.newRoot, r.c.acct(o.Who).addr, types.AergoEnterprise); p != nil {
		written := "-"
		if isConf {
			written = ecClasses(o.Key, s.args[1:], false)
		}
		sig := map[string]interface{}{"kind": "panic", "stage": "reader", "reader": where, "op": o.Op, "site": p.site, "panic": p.class, "written": written}
		r.finds.add(sig, r.histDesc(h)+" ; "+o.desc(), ecRank(h, oi), r.replay(h, oi, s, map[string]interface{}{"reader": where, "panic": p.val, "stack": p.frames}),
			fmt.Sprintf("after %s was admitted, executed and its block connected, %s panics at %s (%s): %s\n payload %s (history: %s)",
				o.Op, where, p.site, p.where, p.val, s.payload, r.histDesc(h)))
	}
	if isConf {
		wantOn, wantVals := prevOn, append([]string{}, prevVals...)
		switch o.Op {
		case "setConf":
			wantVals = append([]string{}, s.args[1:]...)
		case "appendConf":
			wantVals = append(wantVals, s.args[1])
		case "removeConf":
			for i, v := range wantVals {
				if v == s.args[1] {
					wantVals = append(wantVals[:i], wantVals[i+1:]...)
					break
				}
			}
		case "enableConf":
			wantOn = o.Flag
		}
		gotOn, gotVals, p, err := ecGetConf(r.w, s.newRoot, o.Key)
		if p == nil && err == nil && (gotOn != wantOn || !ecSameStrings(gotVals, wantVals)) {
			written := ecClasses(o.Key, wantVals, false)
			sig := map[string]interface{}{"kind": "roundtrip", "op": o.Op, "key": ecKeyText[o.Key], "values": written}
			r.finds.add(sig, r.histDesc(h)+" ; "+o.desc(), ecRank(h, oi),
				r.replay(h, oi, s, map[string]interface{}{"set": map[string]interface{}{"on": wantOn, "values": wantVals}, "read_back": map[string]interface{}{"on": gotOn, "values": gotVals}}),
				fmt.Sprintf("%s was admitted and executed, but what it set is not what is read back: set on=%v values=%q, enterprise.GetConf returns on=%v values=%q\n payload %s, sender %s (history: %s)",
					o.Op, wantOn, wantVals, gotOn, gotVals, s.payload, o.Who, r.histDesc(h)))
		}
	}
	return s
}

func ecSameStrings(a, b []string) bool {
	if len(a) != len(b) {
		return false
	}
	for i := range a {
		if a[i] != b[i] {
			return false
		}
	}
	return true
}

// offModel explores a real state the model does not know: every op, up to the history length, memoised on the content
func (r *ecRun) offModel(root []byte, h []int, seen map[string]int) {
	left := r.in.MaxLen - len(h)
	if left <= 0 {
		return
	}
	real, err := ecRead(r.w, root)
	if err != nil {
		return
	}
	k := real.key()
	if seen[k] >= left || len(seen) >= r.in.OffCap {
		return
	}
	seen[k] = left
	r.part.OffModel++
	mp := r.newPool(root, c14BestNo+uint64(len(h)))
	for oi := range r.in.Ops {
		s := r.check(mp, root, h, oi, false)
		r.part.Extra++
		if s.o.panic != nil {
			mp = r.newPool(root, c14BestNo+uint64(len(h)))
		}
		if s.newRoot != nil {
			r.offModel(s.newRoot, append(append([]int{}, h...), oi), seen)
		}
	}
}

// ---------------------------------------------------------------- the test

type ecPartial struct {
	Keys     []string             `json:"keys"`
	Extra    int                  `json:"extra"`
	OffModel int                  `json:"offmodel"`
	Notes    []string             `json:"notes"`
	Samples  []interface{}        `json:"samples"`
	Finds    []*c14FindingJ       `json:"finds"`
	Outcomes map[string]int       `json:"outcomes"`
	Agree    map[string]int       `json:"agree"`
	Drift    map[string]*c14Drift `json:"drift"`
	Setup    []string             `json:"setup"`
}

const ecShards = 12

func TestVerifEntConf(t *testing.T) {
	if !verifkit.Enabled() {
		t.Skip("run through bin/vcheck")
	}
	zerolog.SetGlobalLevel(zerolog.FatalLevel)
	var in ecInput
	if err := verifkit.ReadInput(&in); err != nil {
		t.Fatal(err)
	}
	if sh := os.Getenv("VERIF_EC_SHARD"); sh != "" {
		var i int
		fmt.Sscanf(sh, "%d", &i)
		debug.SetGCPercent(400)
		part := ecWorker(t, &in, i)
		b, err := json.Marshal(part)
		if err != nil {
			t.Fatal(err)
		}
		if err := os.WriteFile(os.Getenv("VERIF_EC_PART"), b, 0o644); err != nil {
			t.Fatal(err)
		}
		return
	}
	res := verifkit.NewResult()
	defer func() {
		if err := res.Write(); err != nil {
			t.Fatal(err)
		}
	}()
	dir, err := os.MkdirTemp(filepath.Dir(os.Getenv("VERIF_OUT")), "ecparts")
	if err != nil {
		t.Fatal(err)
	}
	defer os.RemoveAll(dir)
	self, err := os.Executable()
	if err != nil {
		t.Fatal(err)
	}
	parts := make([]*ecPartial, ecShards)
	errs := make([]error, ecShards)
	sem := make(chan struct{}, runtime.NumCPU())
	var wg sync.WaitGroup
	for i := 0; i < ecShards; i++ {
		wg.Add(1)
		go func(i int) {
			defer wg.Done()
			sem <- struct{}{}
			defer func() { <-sem }()
			pf := filepath.Join(dir, fmt.Sprintf("part%d.json", i))
			cmd := exec.Command(self, "-test.run", "^TestVerifEntConf$", "-test.timeout", "3000s", "-test.count", "1")
			cmd.Env = append(os.Environ(), fmt.Sprintf("VERIF_EC_SHARD=%d", i), "VERIF_EC_PART="+pf)
			cmd.Dir = dir
			out, err := cmd.CombinedOutput()
			if err != nil {
				errs[i] = fmt.Errorf("worker %d: %v\n%s", i, err, string(out[max(0, len(out)-3000):]))
				return
			}
			b, err := os.ReadFile(pf)
			if err != nil {
				errs[i] = fmt.Errorf("worker %d: %v\n%s", i, err, string(out[max(0, len(out)-3000):]))
				return
			}
			parts[i] = &ecPartial{}
			errs[i] = json.Unmarshal(b, parts[i])
		}(i)
	}
	wg.Wait()
	for _, e := range errs {
		if e != nil {
			t.Fatal(e)
		}
	}
	finds := map[string]*c14FindingJ{}
	outcomes, agree, drift := map[string]int{}, map[string]int{}, map[string]*c14Drift{}
	off := 0
	for pi, p := range parts {
		for _, k := range p.Keys {
			res.Count(k)
		}
		for i := 0; i < p.Extra; i++ {
			res.Count("")
		}
		for _, s := range p.Samples {
			res.Sample(s)
		}
		for _, n := range p.Notes {
			res.Note("%s", n)
		}
		for k, v := range p.Outcomes {
			outcomes[k] += v
		}
		for k, v := range p.Agree {
			agree[k] += v
		}
		off += p.OffModel
		for k, v := range p.Drift {
			if d := drift[k]; d == nil {
				drift[k] = v
			} else {
				d.Count += v.Count
				if v.Sample < d.Sample {
					d.Sample = v.Sample
				}
			}
		}
		if pi == 0 {
			res.Extra["setup"] = p.Setup
		}
		for _, f := range p.Finds {
			b, _ := json.Marshal(f.Sig)
			k := string(b)
			g := finds[k]
			if g == nil {
				finds[k] = f
				continue
			}
			g.Count += f.Count
			for o, n := range f.Ops {
				g.Ops[o] += n
			}
			if f.Rank < g.Rank {
				g.Rank, g.Replay, g.Text = f.Rank, f.Replay, f.Text
			}
		}
	}
	keys := make([]string, 0, len(finds))
	for k := range finds {
		keys = append(keys, k)
	}
	sort.Strings(keys)
	for _, k := range keys {
		f := finds[k]
		f.Replay["histories_with_this_signature"] = f.Count
		ops := make([]string, 0, len(f.Ops))
		for o := range f.Ops {
			ops = append(ops, o)
		}
		sort.Slice(ops, func(i, j int) bool {
			return len(ops[i]) < len(ops[j]) || (len(ops[i]) == len(ops[j]) && ops[i] < ops[j])
		})
		if len(ops) > 6 {
			ops = ops[:6]
		}
		f.Replay["other_histories"] = ops
		res.Violate(f.Sig, f.Replay, "%s\n (%d explored histories end in this; shortest: %s)", f.Text, f.Count, strings.Join(ops, " | "))
	}
	res.Extra["outcomes"] = outcomes
	res.Extra["spec_vs_code"] = agree
	res.Extra["drift"] = drift
	res.Extra["offmodel_states"] = off
	res.Note("EnterpriseConf spec vs code: %v; real states explored outside the model: %d", agree, off)
}

func ecWorker(t *testing.T, in *ecInput, shard int) *ecPartial {
	part := &ecPartial{Outcomes: map[string]int{}, Agree: map[string]int{}, Drift: map[string]*c14Drift{}}
	finds := &c14Findings{m: map[string]*c14Finding{}}
	hub := c14StartHub()
	defer hub.Stop()
	w, err := c14NewWorld(in.World)
	if err != nil {
		t.Fatalf("world %s: %v", in.World.Name, err)
	}
	defer os.RemoveAll(w.dir)
	part.Setup = w.setup
	w.resetGlobals(w.root)
	c14Chain.set(w, w.root)
	r := &ecRun{w: w, c: ecNewConc(w), in: in, finds: finds, part: part}
	r.newPool = func(root []byte, no uint64) *MemPool {
		mp := w.newPool(root, no)
		mp.SetHub(hub)
		return mp
	}
	// the world after its set-up blocks must be the initial state of the model
	real0, err := ecRead(w, w.root)
	if err != nil {
		t.Fatal(err)
	}
	if ok, why := real0.equal(r.c, &in.States[0]); !ok {
		t.Fatalf("the world's set-up does not produce the model's initial state: %s\n%v", why, w.setup)
	}
	drift := func(kind string, h []int, oi int, sample string) {
		k := kind + "|" + in.Ops[oi].Op
		d := part.Drift[k]
		if d == nil {
			d = &c14Drift{Sample: fmt.Sprintf("%s ; %s: %s", r.histDesc(h), in.Ops[oi].desc(), sample)}
			part.Drift[k] = d
		}
		d.Count++
	}
	seen := map[string]int{}
	for si := range in.States {
		if in.Trans[si] == nil || si%ecShards != shard {
			continue
		}
		// reach the state by a shortest history
		var h []int
		for x := si; x != 0; x = in.Path[x][0] {
			h = append([]int{in.Path[x][1]}, h...)
		}
		root, okPath := w.root, true
		for i, oi := range h {
			mp := r.newPool(root, c14BestNo+uint64(i))
			s := r.step(mp, root, i, oi)
			if s.newRoot == nil {
				okPath = false
				break
			}
			root = s.newRoot
		}
		if okPath {
			if real, err := ecRead(w, root); err != nil {
				okPath = false
			} else if same, _ := real.equal(r.c, &in.States[si]); !same {
				okPath = false
			}
		}
		if !okPath { // the divergence itself is reported where the owner of the predecessor expands it
			part.Notes = append(part.Notes, fmt.Sprintf("model state %d (history %s) is not reached by the code", si, r.histDesc(h)))
			continue
		}
		mp := r.newPool(root, c14BestNo+uint64(len(h)))
		for oi := range in.Ops {
			s := r.check(mp, root, h, oi, true)
			part.Keys = append(part.Keys, fmt.Sprintf("EC|%d|%d|%d", in.MaxLen, si, oi))
			if s.o.panic != nil {
				mp = r.newPool(root, c14BestNo+uint64(len(h)))
			}
			if (si*len(in.Ops)+oi)%4999 == 0 {
				part.Samples = append(part.Samples, map[string]interface{}{"history": r.histDesc(h), "op": in.Ops[oi].desc(), "payload": s.payload, "outcome": s.outcome})
			}
			want := "reject"
			if in.Trans[si][oi][0] == 1 {
				want = "accept"
			}
			if s.outcome == "panic" || s.outcome == "stub" {
				continue
			}
			if s.outcome != want {
				part.Agree["outcome/differ"]++
				drift("outcome: spec "+want+", code "+s.outcome, h, oi, fmt.Sprintf("payload %s errors %v", s.payload, s.o.errs))
				if s.newRoot != nil {
					r.offModel(s.newRoot, append(append([]int{}, h...), oi), seen)
				}
				continue
			}
			part.Agree["outcome/agree"]++
			if s.newRoot == nil {
				continue
			}
			real, err := ecRead(w, s.newRoot)
			if err != nil {
				t.Fatal(err)
			}
			if same, why := real.equal(r.c, &in.States[in.Trans[si][oi][1]]); !same {
				part.Agree["store/differ"]++
				drift("store", h, oi, why)
				r.offModel(s.newRoot, append(append([]int{}, h...), oi), seen)
			} else {
				part.Agree["store/agree"]++
			}
		}
	}
	for _, f := range finds.m {
		part.Finds = append(part.Finds, &c14FindingJ{Sig: f.sig, Rank: f.rank, Replay: f.replay, Text: f.text, Count: f.count, Ops: f.ops})
	}
	return part
}
