//go:build verif

package mempool

// Read-only view of the pool for the NodePool conformance harness (internal/verifnode, spec/node/NodePool.tla).
// Added through the go -overlay; never part of aergo.

import (
	"sort"

	"github.com/aergoio/aergo/v2/types"
)

// VerifNPTx is one pooled transaction.
type VerifNPTx struct {
	Hash  []byte
	Nonce uint64
}

// VerifNPList is one per-account list: the nonce of the account state the list was last based on, the
// nonce-ordered transactions and the length of the ready prefix.
type VerifNPList struct {
	Account   []byte
	BaseNonce uint64
	Ready     int
	Txs       []VerifNPTx
}

// VerifNPDump is everything the pool holds at one moment (taken under the pool lock).
type VerifNPDump struct {
	BestBlockID string // the block whose state the pool reads (mp.bestBlockID)
	Lists       []VerifNPList
	Cache       [][]byte // hashes in the hash cache
	Length      int
	Orphan      int
}

func (mp *MemPool) VerifNodePoolDump() *VerifNPDump {
	mp.RLock()
	defer mp.RUnlock()
	d := &VerifNPDump{BestBlockID: mp.bestBlockID.String(), Length: mp.length, Orphan: mp.orphan}
	for _, tl := range mp.pool {
		tl.RLock()
		l := VerifNPList{Account: append([]byte(nil), tl.account...), Ready: tl.ready}
		if tl.base != nil {
			l.BaseNonce = tl.base.Nonce
		}
		for _, tx := range tl.list {
			l.Txs = append(l.Txs, VerifNPTx{Hash: append([]byte(nil), tx.GetHash()...), Nonce: tx.GetBody().GetNonce()})
		}
		tl.RUnlock()
		d.Lists = append(d.Lists, l)
	}
	sort.Slice(d.Lists, func(i, j int) bool { return string(d.Lists[i].Account) < string(d.Lists[j].Account) })
	mp.cache.Range(func(k, v interface{}) bool {
		d.Cache = append(d.Cache, append([]byte(nil), v.(types.Transaction).GetHash()...))
		return true
	})
	sort.Slice(d.Cache, func(i, j int) bool { return string(d.Cache[i]) < string(d.Cache[j]) })
	return d
}
