//go:build verif

package mempool

// Conformance harness for spec/mempool/Mempool.tla (C13).
//
// Sequential part (direction A): every transition (src, action, dst) of the TLC graphs of
// SeqSpec is replayed on a REAL MemPool: the source state is reached by the real calls along a
// shortest path of the graph, then the action is applied and the projection of the real pool
// (per account: base state, nonce-ordered list, ready prefix; hash cache; the two counters; what
// get / exist / Size / getUnconfirmed / listHash report) is compared with dst; the property's
// predicates are evaluated on the real projection as well.  Two back ends:
//   "test": the package's own test configuration (mock account state of stub.go),
//   "real": testConfig=false, the pool reads a real state.ChainStateDB (memory db); block
//           notifications carry real state roots, parent hashes and transactions (exercises
//           setStateDB: child of the pool's best block = dirty-account scan, any other block = full scan).
// Pair schedules (deterministic concurrency, verif_mempool_pairs_test.go): for ordered pairs of calls of the graph the
// harness holds the pool lock until both calls are queued at it; the outcome must be one of the two sequential ones.
// Concurrent part (direction B): goroutines issue put / block arrival / get / removeTx / evict /
// exist / getUnconfirmed on one pool; call start and end are stamped with a global atomic
// sequence number; the log is validated by TLC against MempoolTrace.tla (linearizability search
// at the grain of the critical sections) and the predicates are evaluated at quiescence.

import (
	"crypto/sha256"
	"encoding/json"
	"fmt"
	"math/big"
	"math/rand"
	"os"
	"runtime"
	"sort"
	"strings"
	"sync"
	"sync/atomic"
	"testing"
	"time"

	"github.com/aergoio/aergo/v2/config"
	"github.com/aergoio/aergo/v2/internal/enc/proto"
	"github.com/aergoio/aergo/v2/internal/verifkit"
	"github.com/aergoio/aergo/v2/state"
	"github.com/aergoio/aergo/v2/types"
)

// ---------------------------------------------------------------- abstract values (as in Mempool.tla)

type aTx struct {
	Acc   string `json:"acc"`
	Nonce uint64 `json:"nonce"`
	Amt   uint64 `json:"amt"`
}

type aSt struct {
	Nonce uint64 `json:"nonce"`
	Bal   uint64 `json:"bal"`
}

type aList struct {
	Base  aSt   `json:"base"`
	List  []aTx `json:"list"`
	Ready int   `json:"ready"`
}

type aState struct {
	Chain    map[string]aSt   `json:"chain"`
	Pool     map[string]aList `json:"pool"`
	Cache    []aTx            `json:"cache"`
	Length   int              `json:"length"`
	Orphan   int              `json:"orphan"`
	Notified bool             `json:"notified"`
}

type aAct struct {
	Name   string   `json:"name"`
	Tx     *aTx     `json:"tx,omitempty"`
	Res    string   `json:"res,omitempty"`
	Acc    string   `json:"acc,omitempty"`
	St     *aSt     `json:"st,omitempty"`
	ChgAcc string   `json:"chg_acc,omitempty"` // Block: the account whose state the block changes ("" = none)
	ChgSt  *aSt     `json:"chg_st,omitempty"`
	Full   bool     `json:"full,omitempty"`
	Dirty  []string `json:"dirty,omitempty"`
	Accs   []string `json:"accs,omitempty"`
	Budget int      `json:"budget,omitempty"` // Get: body-size budget in size units (small tx = 1, large = 3)
	// Get: the possible answers of the model, one per map order: account -> offered run (absent = nothing)
	Alts []map[string][]aTx `json:"alts,omitempty"`
}

type aTrans struct {
	S int  `json:"s"`
	D int  `json:"d"`
	A aAct `json:"a"`
}

type aGraph struct {
	Name     string             `json:"name"`
	Accounts []string           `json:"accounts"`
	Txs      []aTx              `json:"txs"`
	States   []aState           `json:"states"`
	Trans    []aTrans           `json:"trans"`
	Init     int                `json:"init"`
	Parent   map[string][]int   `json:"parent"` // back end -> per state: tree transition reaching it (-1: init, -2: unreachable)
	Walks    map[string][][]int `json:"walks"`  // back end -> walks (transition indices chained from Init)
}

type concParams struct {
	Runs     int      `json:"runs"`
	Rounds   int      `json:"rounds"`
	Accounts []string `json:"accounts"`
	MaxNonce uint64   `json:"max_nonce"`
	Putters  int      `json:"putters"`
	Readers  int      `json:"readers"`
	OpsPer   int      `json:"ops_per"`
	Backends []string `json:"backends"`
}

type mpInput struct {
	Graphs   []aGraph   `json:"graphs"`
	Backends []string   `json:"backends"`
	Conc     concParams `json:"conc"`
	Pairs    []pairCase `json:"pairs"` // lock-gated pair schedules (verif_mempool_pairs_test.go)
	SkipSeq  bool       `json:"skip_seq"` // graphs are given for the pairs only (no sequential replay in this invocation)
}

func (t aTx) String() string { return fmt.Sprintf("%s/%d/%d", t.Acc, t.Nonce, t.Amt) }

func txLess(a, b aTx) bool {
	if a.Acc != b.Acc {
		return a.Acc < b.Acc
	}
	if a.Nonce != b.Nonce {
		return a.Nonce < b.Nonce
	}
	return a.Amt < b.Amt
}

func sortTxs(l []aTx) []aTx {
	out := append([]aTx{}, l...)
	sort.Slice(out, func(i, j int) bool { return txLess(out[i], out[j]) })
	return out
}

func txsEq(a, b []aTx) bool {
	if len(a) != len(b) {
		return false
	}
	for i := range a {
		if a[i] != b[i] {
			return false
		}
	}
	return true
}

// ---------------------------------------------------------------- the real pool and its environment

var (
	mpSetup   sync.Mutex // pools are created one at a time (NewMemPoolService writes package globals)
	mpGlobals sync.Once
)

type mpEnv struct {
	backend string
	salt    string
	mp      *MemPool
	accs    []string
	addr    map[string][]byte
	name    map[types.AccountID]string
	txOf    map[types.TxID]aTx
	sink    []byte
	chain   map[string]aSt // the state view the harness has given the pool
	mu      sync.Mutex     // guards txOf (concurrent part)

	// real back end
	sdb     *state.ChainStateDB
	roots   map[string][]byte
	blockNo uint64
	blkSeq  uint64
	cid     []byte
}

func mkAddr(salt, a string) []byte {
	h := verifHash("c13-addr/" + salt + "/" + a)
	return append([]byte{0x02}, h...)
}

func verifHash(s string) []byte {
	h := sha256.Sum256([]byte(s))
	return h[:]
}

func newMpEnv(t testing.TB, backend, salt string, accs []string) *mpEnv {
	mpSetup.Lock()
	defer mpSetup.Unlock()
	e := &mpEnv{backend: backend, salt: salt, accs: accs, addr: map[string][]byte{}, name: map[types.AccountID]string{},
		txOf: map[types.TxID]aTx{}, chain: map[string]aSt{}, roots: map[string][]byte{}}
	for _, a := range accs {
		e.addr[a] = mkAddr(salt, a)
		e.name[types.ToAccountID(e.addr[a])] = a
	}
	e.sink = mkAddr(salt, "sink")
	serverCtx := config.NewServerContext("", "")
	cfg := serverCtx.GetDefaultConfig().(*config.Config)
	mp := NewMemPoolService(cfg, nil)
	mpGlobals.Do(func() {
		evictWorkTimeout = time.Hour // the eviction loop must not be cut short by the 4ms work timer
	})
	switch backend {
	case "test":
		mp.testConfig = true
		mp.BeforeStart() // (resets the shared mock maps: pools are only created while no case is running)
	case "real":
		dir, err := os.MkdirTemp("", "c13sdb")
		if err != nil {
			t.Fatal(err)
		}
		e.sdb = state.NewChainStateDB()
		if err := e.sdb.Init("memorydb", dir, nil, false, nil); err != nil {
			t.Fatal(err)
		}
		os.RemoveAll(dir)
		mp.sdb = e.sdb
		cid := types.NewChainID()
		cid.PublicNet = true
		cid.Magic = "c13"
		cid.Consensus = "dpos"
		b, err := cid.Bytes()
		if err != nil {
			t.Fatal(err)
		}
		e.cid = b
	default:
		t.Fatalf("unknown back end %q", backend)
	}
	e.mp = mp
	return e
}

func (e *mpEnv) chainKey(ch map[string]aSt) string {
	var sb strings.Builder
	for _, a := range e.accs {
		fmt.Fprintf(&sb, "%s:%d:%d;", a, ch[a].Nonce, ch[a].Bal)
	}
	return sb.String()
}

func balBytes(b uint64) []byte { return new(big.Int).SetUint64(b).Bytes() }

// rootOf builds (once) the state root in which every modelled account has the given state.
func (e *mpEnv) rootOf(ch map[string]aSt) ([]byte, error) {
	k := e.chainKey(ch)
	if r, ok := e.roots[k]; ok {
		return r, nil
	}
	sdb := e.sdb.OpenNewStateDB(nil)
	for _, a := range e.accs {
		st := ch[a]
		if err := sdb.PutState(types.ToAccountID(e.addr[a]), &types.State{Nonce: st.Nonce, Balance: balBytes(st.Bal)}); err != nil {
			return nil, err
		}
	}
	if err := sdb.Update(); err != nil {
		return nil, err
	}
	if err := sdb.Commit(); err != nil {
		return nil, err
	}
	r := append([]byte{}, sdb.GetRoot()...)
	e.roots[k] = r
	return r, nil
}

func (e *mpEnv) freshBlockHash() []byte {
	e.blkSeq++
	return verifHash(fmt.Sprintf("c13-block/%s/%d", e.salt, e.blkSeq))
}

// reset brings the pool and its state view back to the initial state of the model.
func (e *mpEnv) reset(init map[string]aSt) error {
	e.chain = map[string]aSt{}
	for a, s := range init {
		e.chain[a] = s
	}
	switch e.backend {
	case "test":
		e.mp.Lock()
		e.mp.resetAll()
		e.mp.Unlock()
		e.setMock(init)
	case "real":
		e.mp.Lock()
		e.mp.resetAll()
		e.mp.Unlock()
		root, err := e.rootOf(init)
		if err != nil {
			return err
		}
		e.blockNo++
		blk := &types.Block{Hash: e.freshBlockHash(), Header: &types.BlockHeader{ChainID: e.cid, BlockNo: e.blockNo,
			BlocksRootHash: root, PrevBlockHash: e.freshBlockHash()}, Body: &types.BlockBody{}}
		if e.mp.stateDB == nil {
			e.mp.setStateDB(blk) // what AfterStart does with the best block
		} else if err := e.mp.removeOnBlockArrival(blk); err != nil {
			return err
		}
	}
	return nil
}

func (e *mpEnv) setMock(ch map[string]aSt) {
	lock.Lock()
	for a, s := range ch {
		k := types.ToAccountID(e.addr[a]).String()
		nonce[k] = s.Nonce
		balance[k] = s.Bal
	}
	lock.Unlock()
}

func (e *mpEnv) setMockField(a string, s aSt) {
	k := types.ToAccountID(e.addr[a]).String()
	lock.Lock()
	nonce[k] = s.Nonce
	balance[k] = s.Bal
	lock.Unlock()
}

// Size classes (Mempool.tla TxSize): the first variant of a transaction (amt 1) is small = 1 unit, the second
// (amt 2) carries a payload that makes its serialised size exactly 3 units; the unit is the serialised size of a
// small transaction (all of them are equally long: 33-byte accounts, nonces < 128, one-byte amounts).
var (
	sizeOnce     sync.Once
	sizeUnit     int
	largePayload []byte
)

func (e *mpEnv) rawTx(a aTx, payload []byte) *types.Tx {
	tx := &types.Tx{Body: &types.TxBody{Nonce: a.Nonce, Account: e.addr[a.Acc], Recipient: e.sink,
		Amount: new(big.Int).SetUint64(a.Amt).Bytes(), Payload: payload}}
	tx.Hash = tx.CalculateTxHash()
	return tx
}

func (e *mpEnv) calibrateSizes() {
	sizeOnce.Do(func() {
		probe := aTx{Acc: e.accs[0], Nonce: 1, Amt: 1}
		u := proto.Size(e.rawTx(probe, nil))
		probe.Amt = 2
		for n := 1; n < 4*u; n++ {
			if proto.Size(e.rawTx(probe, make([]byte, n))) == 3*u {
				sizeUnit, largePayload = u, make([]byte, n)
				return
			}
		}
		panic(fmt.Sprintf("c13 harness: no payload length gives a transaction of 3 x %d bytes", u))
	})
}

func (e *mpEnv) mkTx(a aTx) types.Transaction {
	e.calibrateSizes()
	var payload []byte
	if a.Amt == 2 {
		payload = largePayload
	}
	tx := *e.rawTx(a, payload)
	id := types.ToTxID(tx.Hash)
	e.mu.Lock()
	e.txOf[id] = a
	e.mu.Unlock()
	return types.NewTransaction(&tx)
}

func (e *mpEnv) absTx(tx types.Transaction) (aTx, bool) {
	e.mu.Lock()
	a, ok := e.txOf[types.ToTxID(tx.GetHash())]
	e.mu.Unlock()
	return a, ok
}

// block builds the notification for "the state view becomes ch; full: the block is NOT a child of the pool's best
// block (every list is scanned), else it extends it (only the named accounts are scanned);
// named: the accounts that have transactions in the block".
func (e *mpEnv) block(ch map[string]aSt, full bool, named []string) (*types.Block, error) {
	body := &types.BlockBody{}
	for _, a := range named {
		tx := &types.Tx{Body: &types.TxBody{Nonce: ch[a].Nonce, Account: e.addr[a], Recipient: e.sink, Amount: []byte{1}}}
		tx.Hash = tx.CalculateTxHash()
		body.Txs = append(body.Txs, tx)
	}
	if e.backend == "test" {
		return &types.Block{Body: body}, nil
	}
	root, err := e.rootOf(ch)
	if err != nil {
		return nil, err
	}
	e.blockNo++
	// (setStateDB as repaired by f307abce: a child of the pool's best block gets the dirty-account scan, any other
	// block the scan of every list)
	var prev []byte
	if full {
		prev = e.freshBlockHash() // some block that is not the pool's best block (branch switch, corrective announcement)
	} else {
		prev = append([]byte{}, e.mp.bestBlockID[:]...)
	}
	return &types.Block{Hash: e.freshBlockHash(), Header: &types.BlockHeader{ChainID: e.cid, BlockNo: e.blockNo,
		BlocksRootHash: root, PrevBlockHash: prev}, Body: body}, nil
}

func copyChain(ch map[string]aSt) map[string]aSt {
	out := map[string]aSt{}
	for a, s := range ch {
		out[a] = s
	}
	return out
}

// evict runs evictTransactions so that exactly the lists of `accs` are old enough.
func (e *mpEnv) evict(accs []string) {
	in := map[string]bool{}
	for _, a := range accs {
		in[a] = true
	}
	future := time.Now().Add(time.Hour)
	e.mp.Lock()
	for id, l := range e.mp.pool {
		if !in[e.name[id]] {
			l.lastTime = future
		}
	}
	e.mp.Unlock()
	e.mp.evictTransactions()
	past := time.Now()
	e.mp.Lock()
	for _, l := range e.mp.pool {
		l.lastTime = past
	}
	e.mp.Unlock()
}

type unconfOut struct {
	Pooled   []aTx
	Orphaned []aTx
	Unknown  int
}

func (e *mpEnv) idsToTxs(ids []string) ([]aTx, int) {
	e.mu.Lock()
	defer e.mu.Unlock()
	byStr := map[string]aTx{}
	for id, a := range e.txOf {
		byStr[id.String()] = a
	}
	out := []aTx{}
	unk := 0
	for _, s := range ids {
		if a, ok := byStr[s]; ok {
			out = append(out, a)
		} else {
			unk++
		}
	}
	return out, unk
}

// apply performs one action of the model on the real pool.  Returns the result class ("ok"/"rej"/"") and detail.
func (e *mpEnv) apply(a aAct) (string, string, error) {
	switch a.Name {
	case "Put":
		err := e.mp.put(e.mkTx(*a.Tx))
		if err != nil {
			return "rej", err.Error(), nil
		}
		return "ok", "", nil
	case "Remove":
		err := e.mp.removeTx(e.mkTx(*a.Tx).GetTx())
		if err != nil {
			return "rej", err.Error(), nil
		}
		return "ok", "", nil
	case "SetChain":
		if e.backend != "test" {
			return "", "", fmt.Errorf("SetChain on back end %s", e.backend)
		}
		e.chain[a.Acc] = *a.St
		e.setMock(map[string]aSt{a.Acc: *a.St})
		return "", "", nil
	case "Block":
		if e.backend == "test" && !a.Full {
			return "", "", fmt.Errorf("partial block on the test back end")
		}
		named := append([]string{}, a.Dirty...)
		if a.ChgAcc != "" {
			if a.ChgSt.Nonce > e.chain[a.ChgAcc].Nonce { // a nonce advances only through the account's own transaction
				found := false
				for _, n := range named {
					found = found || n == a.ChgAcc
				}
				if !found {
					named = append(named, a.ChgAcc)
				}
			}
			e.chain[a.ChgAcc] = *a.ChgSt
			if e.backend == "test" {
				e.setMock(map[string]aSt{a.ChgAcc: *a.ChgSt})
			}
		}
		blk, err := e.block(e.chain, a.Full, named)
		if err != nil {
			return "", "", err
		}
		if err := e.mp.removeOnBlockArrival(blk); err != nil {
			return "", "", fmt.Errorf("removeOnBlockArrival: %v", err)
		}
		return "", "", nil
	case "Evict":
		e.evict(a.Accs)
		return "", "", nil
	case "Get":
		// the producer's fetch with a body-size budget; detail = what it offers, per account in the order returned
		e.calibrateSizes()
		txs, err := e.mp.get(uint32(a.Budget * sizeUnit))
		if err != nil {
			return "", "", fmt.Errorf("get: %v", err)
		}
		got := map[string][]aTx{}
		for _, tx := range txs {
			at, ok := e.absTx(tx)
			if !ok {
				return "", "", fmt.Errorf("get returned an unknown tx")
			}
			if n := proto.Size(tx.GetTx()); n != sizeUnit*map[uint64]int{1: 1, 2: 3}[at.Amt] {
				return "", "", fmt.Errorf("harness: tx %v has %d bytes, unit %d", at, n, sizeUnit)
			}
			got[at.Acc] = append(got[at.Acc], at)
		}
		b, _ := json.Marshal(got)
		return "", string(b), nil
	case "Unconfirmed":
		out := e.mp.getUnconfirmed([]types.Address{types.Address(e.addr[a.Acc])}, false)
		if len(out) != 1 || out[0] == nil {
			return "", "", fmt.Errorf("getUnconfirmed returned %d entries", len(out))
		}
		p, u1 := e.idsToTxs(out[0].Pooled.IDs)
		o, u2 := e.idsToTxs(out[0].Orphaned.IDs)
		b, _ := json.Marshal(unconfOut{Pooled: p, Orphaned: o, Unknown: u1 + u2})
		if out[0].Pooled.Count != len(out[0].Pooled.IDs) || out[0].Orphaned.Count != len(out[0].Orphaned.IDs) {
			return "", string(b), fmt.Errorf("getUnconfirmed counts differ from the id lists")
		}
		return "", string(b), nil
	}
	return "", "", fmt.Errorf("unknown action %q", a.Name)
}

// ---------------------------------------------------------------- projection of the real pool

type projection struct {
	Pool    map[string]aList `json:"pool"`
	Cache   []aTx            `json:"cache"`
	Length  int              `json:"length"`
	Orphan  int              `json:"orphan"`
	Foreign []string         `json:"foreign,omitempty"` // things in the pool the harness never put there
}

func (e *mpEnv) project() projection {
	p := projection{Pool: map[string]aList{}}
	e.mp.RLock()
	for id, l := range e.mp.pool {
		a, ok := e.name[id]
		if !ok {
			p.Foreign = append(p.Foreign, "list of unknown account "+id.String())
			continue
		}
		al := aList{Base: aSt{Nonce: l.base.GetNonce(), Bal: l.base.GetBalanceBigInt().Uint64()}, Ready: l.ready, List: []aTx{}}
		for _, tx := range l.list {
			if at, ok := e.absTx(tx); ok {
				al.List = append(al.List, at)
			} else {
				p.Foreign = append(p.Foreign, "unknown tx in list of "+a)
			}
		}
		if string(l.account) != string(e.addr[a]) {
			p.Foreign = append(p.Foreign, "list of "+a+" filed under another account")
		}
		p.Pool[a] = al
	}
	p.Length, p.Orphan = e.mp.length, e.mp.orphan
	e.mp.RUnlock()
	e.mp.cache.Range(func(k, v interface{}) bool {
		if at, ok := e.absTx(v.(types.Transaction)); ok && types.ToTxID(v.(types.Transaction).GetHash()) == k.(types.TxID) {
			p.Cache = append(p.Cache, at)
		} else {
			p.Foreign = append(p.Foreign, "unknown or misfiled cache entry")
		}
		return true
	})
	p.Cache = sortTxs(p.Cache)
	return p
}

func listEq(a, b aList) bool { return a.Base == b.Base && a.Ready == b.Ready && txsEq(a.List, b.List) }

// diffState compares the projection with a model state; "" when equal.
func diffState(p projection, want *aState) (string, string) {
	if len(p.Foreign) > 0 {
		return "foreign", strings.Join(p.Foreign, "; ")
	}
	for a, wl := range want.Pool {
		gl, ok := p.Pool[a]
		if !ok {
			return "pool", fmt.Sprintf("no list for %s, model has %+v", a, wl)
		}
		if !listEq(gl, wl) {
			return "pool", fmt.Sprintf("list of %s is %+v, model has %+v", a, gl, wl)
		}
	}
	for a, gl := range p.Pool {
		if _, ok := want.Pool[a]; !ok {
			return "pool", fmt.Sprintf("list for %s (%+v) that the model does not have", a, gl)
		}
	}
	if !txsEq(p.Cache, sortTxs(want.Cache)) {
		return "cache", fmt.Sprintf("cache holds %v, model %v", p.Cache, sortTxs(want.Cache))
	}
	if p.Length != want.Length {
		return "length", fmt.Sprintf("length counter %d, model %d", p.Length, want.Length)
	}
	if p.Orphan != want.Orphan {
		return "orphan", fmt.Sprintf("orphan counter %d, model %d", p.Orphan, want.Orphan)
	}
	return "", ""
}

// checkPredicates evaluates the property's predicates on the real projection (independently of the model state).
// chain: the state view given to the pool; notified: every change of it has been followed by a full scan.
func checkPredicates(p projection, chain map[string]aSt, notified bool) (string, string) {
	total, orph := 0, 0
	held := map[aTx]int{}
	for a, l := range p.Pool {
		for i, tx := range l.List {
			held[tx]++
			if tx.Acc != a {
				return "foreign-tx", fmt.Sprintf("tx %v in the list of %s", tx, a)
			}
			if i > 0 && l.List[i-1].Nonce >= tx.Nonce {
				return "dup-or-unsorted-nonce", fmt.Sprintf("list of %s not strictly ascending: %v", a, l.List)
			}
			if tx.Nonce <= l.Base.Nonce {
				return "stale-vs-base", fmt.Sprintf("list of %s (base nonce %d) holds nonce %d", a, l.Base.Nonce, tx.Nonce)
			}
			if notified && tx.Nonce <= chain[a].Nonce {
				return "stale-after-block", fmt.Sprintf("list of %s holds nonce %d, account nonce is %d", a, tx.Nonce, chain[a].Nonce)
			}
		}
		if st, ok := chain[a]; ok && notified && l.Base.Nonce != st.Nonce {
			// (BaseNonceSynced: what get offers starts at state+1 and nothing due is held aside)
			return "base-not-synced", fmt.Sprintf("list of %s is based on nonce %d, the account nonce is %d (list %v, ready=%d)", a, l.Base.Nonce, st.Nonce, l.List, l.Ready)
		}
		if l.Ready < 0 || l.Ready > len(l.List) {
			return "ready-out-of-range", fmt.Sprintf("list of %s: ready=%d len=%d", a, l.Ready, len(l.List))
		}
		for i := 0; i < l.Ready; i++ {
			if l.List[i].Nonce != l.Base.Nonce+uint64(i)+1 {
				return "ready-not-gap-free", fmt.Sprintf("list of %s: base nonce %d, ready=%d, nonces %v", a, l.Base.Nonce, l.Ready, l.List)
			}
		}
		if l.Ready < len(l.List) && l.List[l.Ready].Nonce == l.Base.Nonce+uint64(l.Ready)+1 {
			return "ready-not-maximal", fmt.Sprintf("list of %s: base nonce %d, ready=%d, but nonce %d follows", a, l.Base.Nonce, l.Ready, l.List[l.Ready].Nonce)
		}
		total += len(l.List)
		orph += len(l.List) - l.Ready
	}
	for tx, n := range held {
		if n > 1 {
			return "dup-hash", fmt.Sprintf("tx %v held %d times", tx, n)
		}
	}
	if p.Length != total {
		return "length-drift", fmt.Sprintf("length counter %d, lists hold %d", p.Length, total)
	}
	if p.Orphan != orph {
		return "orphan-drift", fmt.Sprintf("orphan counter %d, lists hold %d behind gaps", p.Orphan, orph)
	}
	if len(p.Cache) != total {
		return "cache-drift", fmt.Sprintf("cache has %d entries, lists hold %d", len(p.Cache), total)
	}
	for _, tx := range p.Cache {
		if held[tx] != 1 {
			return "cache-drift", fmt.Sprintf("cache entry %v is in no list", tx)
		}
	}
	return "", ""
}

// observe compares what the pool REPORTS (get, exist, Size, getUnconfirmed, listHash) with the projection.
func (e *mpEnv) observe(p projection, universe []aTx, rng *rand.Rand) (string, string) {
	// get: per account exactly the ready prefix, ascending
	txs, err := e.mp.get(1 << 30)
	if err != nil {
		return "get", "get failed: " + err.Error()
	}
	got := map[string][]aTx{}
	for _, tx := range txs {
		at, ok := e.absTx(tx)
		if !ok {
			return "get", "get returned an unknown tx"
		}
		got[at.Acc] = append(got[at.Acc], at)
	}
	for a, l := range p.Pool {
		if !txsEq(got[a], l.List[:l.Ready]) {
			return "get", fmt.Sprintf("get offers %v for %s, ready prefix is %v (list %v)", got[a], a, l.List[:l.Ready], l.List)
		}
		for i, tx := range got[a] {
			if tx.Nonce != l.Base.Nonce+uint64(i)+1 {
				return "get-gap", fmt.Sprintf("get offers %v for %s whose pool state nonce is %d", got[a], a, l.Base.Nonce)
			}
		}
	}
	for a := range got {
		if _, ok := p.Pool[a]; !ok {
			return "get", "get offers txs of " + a + " which has no list"
		}
	}
	// a size-limited get returns per account a prefix of the ready run
	if len(txs) > 1 {
		lim := uint32(1 + rng.Intn(len(txs)*120))
		part, _ := e.mp.get(lim)
		seen := map[string]int{}
		for _, tx := range part {
			at, _ := e.absTx(tx)
			l := p.Pool[at.Acc]
			if seen[at.Acc] >= l.Ready || l.List[seen[at.Acc]] != at {
				return "get", fmt.Sprintf("size-limited get returned %v out of order for %s", at, at.Acc)
			}
			seen[at.Acc]++
		}
	}
	// exist: exactly the cache
	in := map[aTx]bool{}
	for _, tx := range p.Cache {
		in[tx] = true
	}
	for _, at := range universe {
		tx := e.mkTx(at)
		found := e.mp.exist(tx.GetHash()) != nil
		if found != in[at] {
			return "exist", fmt.Sprintf("exist(%v)=%v, held=%v", at, found, in[at])
		}
	}
	// totals
	l, o := e.mp.Size()
	if l != p.Length || o != p.Orphan {
		return "size", fmt.Sprintf("Size()=(%d,%d), counters (%d,%d)", l, o, p.Length, p.Orphan)
	}
	// unconfirmed report over the existing lists (does not insert: every account has a list)
	rep := e.mp.getUnconfirmed(nil, false)
	if len(rep) != len(p.Pool) {
		return "unconfirmed", fmt.Sprintf("getUnconfirmed reports %d accounts, pool has %d lists", len(rep), len(p.Pool))
	}
	for _, u := range rep {
		var a string
		for n, ad := range e.addr {
			if types.EncodeAddress(ad) == u.Address {
				a = n
			}
		}
		lst, ok := p.Pool[a]
		if !ok {
			return "unconfirmed", "getUnconfirmed reports an account without list: " + u.Address
		}
		po, u1 := e.idsToTxs(u.Pooled.IDs)
		or, u2 := e.idsToTxs(u.Orphaned.IDs)
		if u1+u2 > 0 || !txsEq(po, lst.List[:lst.Ready]) || !txsEq(or, lst.List[lst.Ready:]) || u.Pooled.Count != lst.Ready || u.Orphaned.Count != len(lst.List)-lst.Ready {
			return "unconfirmed", fmt.Sprintf("getUnconfirmed(%s): pooled %v orphaned %v, list %v ready %d", a, po, or, lst.List, lst.Ready)
		}
	}
	// listHash: ready transactions only
	nready := 0
	for _, l := range p.Pool {
		nready += l.Ready
	}
	ids, more := e.mp.listHash(nready + 5)
	if len(ids) != nready || more {
		return "listhash", fmt.Sprintf("listHash returned %d ids (more=%v), %d ready", len(ids), more, nready)
	}
	return "", ""
}

// ---------------------------------------------------------------- sequential replay

var seqCount map[string]*int64

type seqJob struct {
	g       *aGraph
	gi      int
	backend string
	ti      int   // transition index, or -1 for a walk
	walk    []int // walk
	wi      int
}

func replayable(backend string, a aAct) bool {
	switch a.Name {
	case "SetChain":
		return backend == "test"
	case "Block":
		return backend == "real" || a.Full
	}
	return true
}

func pathTo(g *aGraph, backend string, s int) ([]int, bool) {
	par := g.Parent[backend]
	var p []int
	for s != g.Init {
		ti := par[s]
		if ti < 0 {
			return nil, false
		}
		p = append(p, ti)
		s = g.Trans[ti].S
	}
	for i, j := 0, len(p)-1; i < j; i, j = i+1, j-1 {
		p[i], p[j] = p[j], p[i]
	}
	return p, true
}

func sigOf(kind, field string, a aAct, backend string) map[string]interface{} {
	return map[string]interface{}{"kind": kind, "field": field, "action": a.Name, "backend": backend}
}

// step applies transition ti (already known to start in the pool's current state) and checks everything.
func (e *mpEnv) step(res *verifkit.Result, g *aGraph, ti int, history []aAct, rng *rand.Rand, full bool) bool {
	tr := g.Trans[ti]
	want := &g.States[tr.D]
	replay := func(got interface{}) map[string]interface{} {
		return map[string]interface{}{"graph": g.Name, "backend": e.backend, "init_chain": g.States[g.Init].Chain,
			"history": history, "action": tr.A, "expected": want, "got": got}
	}
	class, detail, err := e.apply(tr.A)
	if err != nil {
		res.Violate(sigOf("call-failed", tr.A.Name, tr.A, e.backend), replay(detail), "%s: %v (%s)", tr.A.Name, err, detail)
		return false
	}
	if tr.A.Res != "" && class != tr.A.Res {
		res.Violate(sigOf("result", "accept-reject", tr.A, e.backend), replay(class+": "+detail),
			"%s %v returned %s (%s), the model says %s (%s back end, graph %s, after %d calls: %s)", tr.A.Name, tr.A.Tx, class, detail, tr.A.Res, e.backend, g.Name, len(history), histString(history))
		return false
	}
	p := e.project()
	if k, txt := checkPredicates(p, e.chain, want.Notified); k != "" {
		res.Violate(sigOf("predicate", k, tr.A, e.backend), replay(p), "after %s (%s back end, graph %s, %d earlier calls): %s", actString(tr.A), e.backend, g.Name, len(history), txt)
		return false
	}
	if f, txt := diffState(p, want); f != "" {
		res.Violate(sigOf("state-mismatch", f, tr.A, e.backend), replay(p), "after %s (%s back end, graph %s): %s", actString(tr.A), e.backend, g.Name, txt)
		return false
	}
	if tr.A.Name == "Get" {
		got := map[string][]aTx{}
		json.Unmarshal([]byte(detail), &got)
		// property-shaped: per account an ascending gap-free run base+1, base+2, .. (nothing after a tx that did not fit)
		if acc, txt := fetchGap(got, &p); acc != "" {
			res.Violate(sigOf("report", "get-gap", tr.A, e.backend), replay(got), "get with a budget of %d units (small tx = 1, large = 3) in a pool %+v: %s", tr.A.Budget, p.Pool, txt)
			return false
		}
		// exact: one of the model's answers (one per order in which the lists can be visited)
		okAlt := false
		for _, alt := range tr.A.Alts {
			same := true
			for acc, run := range alt {
				same = same && txsEq(got[acc], run)
			}
			for acc, run := range got {
				same = same && (len(run) == 0 || len(alt[acc]) > 0)
			}
			okAlt = okAlt || same
		}
		if !okAlt {
			res.Violate(sigOf("report", "get-budget", tr.A, e.backend), replay(got), "get with a budget of %d units offers %v, the model allows %v (pool %+v)", tr.A.Budget, got, tr.A.Alts, p.Pool)
			return false
		}
	}
	if tr.A.Name == "Unconfirmed" {
		var u unconfOut
		json.Unmarshal([]byte(detail), &u)
		l := want.Pool[tr.A.Acc]
		if u.Unknown > 0 || !txsEq(u.Pooled, l.List[:l.Ready]) || !txsEq(u.Orphaned, l.List[l.Ready:]) {
			res.Violate(sigOf("report", "unconfirmed", tr.A, e.backend), replay(u), "getUnconfirmed(%s) reports pooled %v orphaned %v, model list %v ready %d",
				tr.A.Acc, u.Pooled, u.Orphaned, l.List, l.Ready)
			return false
		}
	}
	if full {
		if k, txt := e.observe(p, g.Txs, rng); k != "" {
			res.Violate(sigOf("report", k, tr.A, e.backend), replay(p), "after %s: %s", actString(tr.A), txt)
			return false
		}
	}
	return true
}

// fetchGap: the predicate of the property on one answer of get: for every account the offered transactions are
// base+1, base+2, .. in this order (p: the projection of the pool at that moment; nil: only "ascending without a hole").
func fetchGap(got map[string][]aTx, p *projection) (string, string) {
	for acc, run := range got {
		for i, tx := range run {
			if i > 0 && tx.Nonce != run[i-1].Nonce+1 {
				return acc, fmt.Sprintf("get offers nonces with a hole or out of order for %s: %v", acc, run)
			}
			if p != nil {
				l, ok := p.Pool[acc]
				if !ok || tx.Nonce != l.Base.Nonce+uint64(i)+1 {
					return acc, fmt.Sprintf("get offers %v for %s, which is not the run from state nonce %d + 1", run, acc, l.Base.Nonce)
				}
			}
		}
	}
	return "", ""
}

func histString(h []aAct) string {
	var parts []string
	for _, a := range h {
		parts = append(parts, actString(a))
	}
	return strings.Join(parts, "; ")
}

func actString(a aAct) string {
	switch a.Name {
	case "Put", "Remove":
		return fmt.Sprintf("%s(%v)=%s", a.Name, *a.Tx, a.Res)
	case "SetChain":
		return fmt.Sprintf("SetChain(%s,%+v)", a.Acc, *a.St)
	case "Block":
		if a.ChgAcc != "" {
			return fmt.Sprintf("Block(%s:=%+v,full=%v,named=%v)", a.ChgAcc, *a.ChgSt, a.Full, a.Dirty)
		}
		return fmt.Sprintf("Block(full=%v,named=%v)", a.Full, a.Dirty)
	case "Evict":
		return fmt.Sprintf("Evict(%v)", a.Accs)
	case "Get":
		return fmt.Sprintf("Get(budget=%d)", a.Budget)
	}
	return fmt.Sprintf("%s(%s)", a.Name, a.Acc)
}

func (e *mpEnv) runJob(res *verifkit.Result, j seqJob, rng *rand.Rand) {
	g := j.g
	if err := e.reset(g.States[g.Init].Chain); err != nil {
		panic(fmt.Sprintf("c13 harness: reset failed: %v", err))
	}
	var hist []aAct
	if j.ti >= 0 {
		path, ok := pathTo(g, e.backend, g.Trans[j.ti].S)
		if !ok {
			return
		}
		for _, ti := range path {
			// the path steps are themselves transitions checked as jobs of their own: only state + predicates here
			if !e.step(res, g, ti, hist, rng, false) {
				return
			}
			hist = append(hist, g.Trans[ti].A)
		}
		res.Count(fmt.Sprintf("%s/%s/%d", g.Name, e.backend, j.ti))
		atomic.AddInt64(seqCount[g.Name+"/"+e.backend], 1)
		if e.step(res, g, j.ti, hist, rng, true) {
			res.Sample(map[string]interface{}{"graph": g.Name, "backend": e.backend, "history": hist, "action": g.Trans[j.ti].A, "dst": g.States[g.Trans[j.ti].D]})
		}
		return
	}
	for k, ti := range j.walk {
		res.Count(fmt.Sprintf("%s/%s/w%d/%d", g.Name, e.backend, j.wi, k))
		if !e.step(res, g, ti, hist, rng, k%4 == 3 || k == len(j.walk)-1) {
			return
		}
		hist = append(hist, g.Trans[ti].A)
	}
}

func TestVerifMempool(t *testing.T) {
	if !verifkit.Enabled() {
		t.Skip("not started by vcheck")
	}
	var in mpInput
	if err := verifkit.ReadInput(&in); err != nil {
		t.Fatal(err)
	}
	res := verifkit.NewResult()
	defer func() {
		if err := res.Write(); err != nil {
			t.Fatal(err)
		}
	}()

	// ---------------- sequential: every transition + walks, both back ends
	nw := runtime.NumCPU()
	if nw > 16 {
		nw = 16
	}
	if nw < 2 {
		nw = 2
	}
	jobs := make(chan seqJob, 1024)
	seqCount = map[string]*int64{}
	for _, g := range in.Graphs {
		for _, b := range in.Backends {
			seqCount[g.Name+"/"+b] = new(int64)
		}
	}
	var wg sync.WaitGroup
	allAccs := map[string]bool{}
	for _, g := range in.Graphs {
		for _, a := range g.Accounts {
			allAccs[a] = true
		}
	}
	var accs []string
	for a := range allAccs {
		accs = append(accs, a)
	}
	sort.Strings(accs)
	var envs [][]*mpEnv
	if len(in.Graphs) == 0 {
		nw = 0
	}
	for w := 0; w < nw; w++ {
		var es []*mpEnv
		for _, b := range in.Backends {
			es = append(es, newMpEnv(t, b, fmt.Sprintf("w%d", w), accs))
		}
		envs = append(envs, es)
	}
	for w := 0; w < nw; w++ {
		wg.Add(1)
		go func(w int) {
			defer wg.Done()
			rng := verifkit.Rng(int64(1000 + w))
			for j := range jobs {
				for _, e := range envs[w] {
					if e.backend == j.backend {
						e.accs = j.g.Accounts
						e.runJob(res, j, rng)
					}
				}
			}
		}(w)
	}
	for gi := range in.Graphs {
		g := &in.Graphs[gi]
		if in.SkipSeq {
			break
		}
		for _, b := range in.Backends {
			for ti := range g.Trans {
				if !replayable(b, g.Trans[ti].A) {
					continue
				}
				if res.NumViolations() > 20 {
					break
				}
				jobs <- seqJob{g: g, gi: gi, backend: b, ti: ti}
			}
			for wi, w := range g.Walks[b] {
				jobs <- seqJob{g: g, gi: gi, backend: b, ti: -1, walk: w, wi: wi}
			}
		}
	}
	close(jobs)
	wg.Wait()
	for k, v := range seqCount {
		res.Note("transitions replayed %s: %d", k, atomic.LoadInt64(v))
	}

	// ---------------- concurrent, deterministic: lock-gated pair schedules derived from the graphs
	if len(in.Pairs) > 0 && res.NumViolations() == 0 {
		runPairs(t, res, &in, envs)
	}

	// ---------------- concurrent, randomized
	if in.Conc.Runs > 0 && res.NumViolations() == 0 {
		runConcurrent(t, res, in.Conc)
	}
	if res.NumViolations() > 0 {
		t.Errorf("%d violations", res.NumViolations())
	}
}

// ---------------------------------------------------------------- concurrent part

type cEvent struct {
	Seq int64                  `json:"seq"`
	M   map[string]interface{} `json:"m"`
}

type cLog struct {
	seq *int64
	ev  []cEvent
}

func (l *cLog) add(m map[string]interface{}) {
	s := atomic.AddInt64(l.seq, 1)
	l.ev = append(l.ev, cEvent{Seq: s, M: m})
}

func txJSON(t aTx) map[string]interface{} {
	return map[string]interface{}{"acc": t.Acc, "nonce": t.Nonce, "amt": t.Amt}
}

func txsJSON(l []aTx) []interface{} {
	out := []interface{}{}
	for _, t := range l {
		out = append(out, txJSON(t))
	}
	return out
}

func stJSON(s aSt) map[string]interface{} { return map[string]interface{}{"nonce": s.Nonce, "bal": s.Bal} }

func (e *mpEnv) quiesceEvent() (map[string]interface{}, projection) {
	p := e.project()
	pool := []interface{}{}
	var names []string
	for a := range p.Pool {
		names = append(names, a)
	}
	sort.Strings(names)
	for _, a := range names {
		l := p.Pool[a]
		pool = append(pool, map[string]interface{}{"acc": a, "base": stJSON(l.Base), "list": txsJSON(l.List), "ready": l.Ready})
	}
	return map[string]interface{}{"ev": "quiesce", "pool": pool, "cache": txsJSON(p.Cache), "length": p.Length, "orphan": p.Orphan}, p
}

func runConcurrent(t *testing.T, res *verifkit.Result, cp concParams) {
	tracePath := os.Getenv("VERIF_TRACE")
	var out []map[string]interface{}
	var outMu sync.Mutex
	runs := make(chan int, cp.Runs)
	for r := 0; r < cp.Runs; r++ {
		runs <- r
	}
	close(runs)
	np := 4 // pools exercised at the same time (each with its own goroutines)
	type runOut struct {
		r  int
		ev []map[string]interface{}
	}
	results := make([]runOut, 0, cp.Runs)
	var wg sync.WaitGroup
	envs := map[string][]*mpEnv{}
	for _, b := range cp.Backends {
		for i := 0; i < np; i++ {
			envs[b] = append(envs[b], newMpEnv(t, b, fmt.Sprintf("c%d", i), cp.Accounts))
		}
	}
	for i := 0; i < np; i++ {
		wg.Add(1)
		go func(i int) {
			defer wg.Done()
			for r := range runs {
				b := cp.Backends[r%len(cp.Backends)]
				ev := concurrentRun(res, envs[b][i], cp, r)
				outMu.Lock()
				results = append(results, runOut{r, ev})
				outMu.Unlock()
			}
		}(i)
	}
	wg.Wait()
	sort.Slice(results, func(i, j int) bool { return results[i].r < results[j].r })
	for _, ro := range results {
		out = append(out, ro.ev...)
	}
	if tracePath != "" {
		f, err := os.Create(tracePath)
		if err != nil {
			t.Fatal(err)
		}
		enc := json.NewEncoder(f)
		for _, m := range out {
			enc.Encode(m)
		}
		f.Close()
	}
}

// concurrentRun: one pool, cp.Rounds rounds; in every round the goroutines of the roles issue their calls
// concurrently; a barrier and a quiescence record end the round.
func concurrentRun(res *verifkit.Result, e *mpEnv, cp concParams, run int) []map[string]interface{} {
	rng := verifkit.Rng(int64(50000 + run))
	init := map[string]aSt{}
	for _, a := range cp.Accounts {
		init[a] = aSt{Nonce: 0, Bal: 2}
	}
	if err := e.reset(init); err != nil {
		panic(fmt.Sprintf("c13 harness: reset failed: %v", err))
	}
	profile := []string{"prod", "free"}[run%2]
	initChain := []interface{}{}
	for _, a := range cp.Accounts {
		initChain = append(initChain, map[string]interface{}{"acc": a, "st": stJSON(init[a])})
	}
	evs := []map[string]interface{}{{"ev": "reset", "run": run, "backend": e.backend, "profile": profile, "chain": initChain}}
	var seq int64
	var universe []aTx
	for _, a := range cp.Accounts {
		for n := uint64(1); n <= cp.MaxNonce; n++ {
			for m := uint64(1); m <= 2; m++ {
				universe = append(universe, aTx{a, n, m})
			}
		}
	}
	for round := 0; round < cp.Rounds; round++ {
		// the roles of this round and their programmes (fixed by the seed; the schedule is not)
		type role struct {
			name string
			ops  []map[string]interface{}
		}
		var roles []role
		randTx := func() aTx { return universe[rng.Intn(len(universe))] }
		// the chain/actor goroutine: block notifications, and what the pool's actor does between them
		{
			var ops []map[string]interface{}
			cur := copyChain(e.chain)
			for k := 0; k < cp.OpsPer; k++ {
				switch x := rng.Intn(10); {
				case x < 4:
					a := cp.Accounts[rng.Intn(len(cp.Accounts))]
					st := cur[a]
					// test back end: only the nonce changes (the pool reads the mock balance and nonce in two
					// separate steps; a submitter preempted between them must not see a state that never existed)
					nn := uint64(rng.Intn(int(cp.MaxNonce) + 1))
					if rng.Intn(3) > 0 && st.Nonce < cp.MaxNonce {
						nn = st.Nonce + 1 + uint64(rng.Intn(int(cp.MaxNonce-st.Nonce)))
						if rng.Intn(2) == 0 {
							nn = st.Nonce + 1
						}
					}
					if nn == st.Nonce {
						nn = (st.Nonce + 1) % (cp.MaxNonce + 1)
					}
					if e.backend == "real" && rng.Intn(4) == 0 {
						st.Bal = 3 - st.Bal // a balance change, with or without a nonce change
						if rng.Intn(2) == 0 {
							nn = st.Nonce
						}
					}
					st.Nonce = nn
					full := true
					var dirty []string
					// a child of the pool's best block (dirty-account scan) never takes a nonce back
					if e.backend == "real" && rng.Intn(3) == 0 && st.Nonce >= cur[a].Nonce {
						full = false
						for _, d := range cp.Accounts {
							if d == a && st.Nonce > cur[a].Nonce || rng.Intn(2) == 0 {
								dirty = append(dirty, d)
							}
						}
					}
					cur[a] = st
					ops = append(ops, map[string]interface{}{"op": "block", "acc": a, "st": stJSON(st), "full": full, "dirty": dirty, "_st": st})
				case x < 6:
					ops = append(ops, map[string]interface{}{"op": "get"})
				case x < 8:
					ops = append(ops, map[string]interface{}{"op": "remove", "_tx": randTx()})
				case x < 9:
					ops = append(ops, map[string]interface{}{"op": "exist", "_tx": randTx()})
				default:
					if profile == "prod" {
						ops = append(ops, map[string]interface{}{"op": "unconf", "acc": cp.Accounts[rng.Intn(len(cp.Accounts))]})
					} else {
						ops = append(ops, map[string]interface{}{"op": "get"})
					}
				}
			}
			roles = append(roles, role{"c", ops})
		}
		for i := 0; i < cp.Putters+run%2; i++ {
			var ops []map[string]interface{}
			for k := 0; k < cp.OpsPer; k++ {
				ops = append(ops, map[string]interface{}{"op": "put", "_tx": randTx()})
			}
			roles = append(roles, role{fmt.Sprintf("p%d", i+1), ops})
		}
		if rng.Intn(3) == 0 {
			roles = append(roles, role{"e", []map[string]interface{}{{"op": "evict"}}})
		}
		if profile == "free" {
			for i := 0; i < cp.Readers; i++ {
				var ops []map[string]interface{}
				for k := 0; k < cp.OpsPer; k++ {
					switch rng.Intn(4) {
					case 0:
						ops = append(ops, map[string]interface{}{"op": "get"})
					case 1:
						ops = append(ops, map[string]interface{}{"op": "exist", "_tx": randTx()})
					case 2:
						ops = append(ops, map[string]interface{}{"op": "remove", "_tx": randTx()})
					default:
						ops = append(ops, map[string]interface{}{"op": "put", "_tx": randTx()})
					}
				}
				roles = append(roles, role{fmt.Sprintf("r%d", i+1), ops})
			}
		}
		logs := make([]*cLog, len(roles))
		var wg sync.WaitGroup
		start := make(chan struct{})
		for i := range roles {
			logs[i] = &cLog{seq: &seq}
			wg.Add(1)
			go func(i int) {
				defer wg.Done()
				<-start
				for _, op := range roles[i].ops {
					e.concOp(roles[i].name, op, logs[i])
				}
			}(i)
		}
		close(start)
		wg.Wait()
		var all []cEvent
		for _, l := range logs {
			all = append(all, l.ev...)
		}
		sort.Slice(all, func(i, j int) bool { return all[i].Seq < all[j].Seq })
		for _, ev := range all {
			if g, ok := ev.M["gap"]; ok {
				delete(ev.M, "gap")
				res.Violate(map[string]interface{}{"kind": "report", "field": "get-gap", "action": "concurrent", "backend": e.backend},
					map[string]interface{}{"run": run, "round": round, "event": ev.M}, "concurrent run %d round %d (%s): %v", run, round, e.backend, g)
			}
			evs = append(evs, ev.M)
		}
		q, p := e.quiesceEvent()
		evs = append(evs, q)
		res.Count(fmt.Sprintf("conc/%s/%d/%d", e.backend, run, round))
		if len(p.Foreign) > 0 {
			res.Violate(map[string]interface{}{"kind": "predicate", "field": "foreign", "action": "concurrent", "backend": e.backend},
				map[string]interface{}{"run": run, "round": round, "events": evs}, "concurrent run %d round %d: %v", run, round, p.Foreign)
			return evs
		}
		if k, txt := checkPredicates(p, e.chain, true); k != "" {
			res.Violate(map[string]interface{}{"kind": "predicate", "field": k, "action": "concurrent", "backend": e.backend},
				map[string]interface{}{"run": run, "round": round, "events": evs, "got": p}, "at quiescence of concurrent run %d round %d (%s): %s", run, round, e.backend, txt)
			return evs
		}
		if k, txt := e.observe(p, universe, rng); k != "" {
			res.Violate(map[string]interface{}{"kind": "report", "field": k, "action": "concurrent", "backend": e.backend},
				map[string]interface{}{"run": run, "round": round, "events": evs, "got": p}, "at quiescence of concurrent run %d round %d (%s): %s", run, round, e.backend, txt)
			return evs
		}
	}
	return evs
}

// concOp performs one call of a role and logs its start and end.
func (e *mpEnv) concOp(role string, op map[string]interface{}, l *cLog) {
	call := map[string]interface{}{"ev": "call", "t": role, "op": op["op"]}
	ret := map[string]interface{}{"ev": "ret", "t": role}
	switch op["op"] {
	case "put":
		at := op["_tx"].(aTx)
		tx := e.mkTx(at)
		call["tx"] = txJSON(at)
		l.add(call)
		err := e.mp.put(tx)
		ret["res"] = "ok"
		if err != nil {
			ret["res"] = "rej"
			ret["why"] = err.Error()
		}
		l.add(ret)
	case "remove":
		at := op["_tx"].(aTx)
		tx := e.mkTx(at)
		call["tx"] = txJSON(at)
		l.add(call)
		err := e.mp.removeTx(tx.GetTx())
		ret["res"] = "ok"
		if err != nil {
			ret["res"] = "rej"
		}
		l.add(ret)
	case "exist":
		at := op["_tx"].(aTx)
		tx := e.mkTx(at)
		call["tx"] = txJSON(at)
		l.add(call)
		ret["res"] = e.mp.exist(tx.GetHash()) != nil
		l.add(ret)
	case "get":
		l.add(call)
		txs, _ := e.mp.get(1 << 30)
		by := map[string][]aTx{}
		bad := 0
		for _, tx := range txs {
			if at, ok := e.absTx(tx); ok {
				by[at.Acc] = append(by[at.Acc], at)
			} else {
				bad++
			}
		}
		var names []string
		for a := range by {
			names = append(names, a)
		}
		sort.Strings(names)
		r := []interface{}{}
		for _, a := range names {
			r = append(r, map[string]interface{}{"acc": a, "txs": txsJSON(by[a])})
		}
		ret["res"] = r
		ret["unknown"] = bad
		if acc, txt := fetchGap(by, nil); acc != "" {
			ret["gap"] = txt // reported by concurrentRun at the end of the round
		}
		l.add(ret)
	case "unconf":
		a := op["acc"].(string)
		call["acc"] = a
		l.add(call)
		out := e.mp.getUnconfirmed([]types.Address{types.Address(e.addr[a])}, false)
		p, u1 := e.idsToTxs(out[0].Pooled.IDs)
		o, u2 := e.idsToTxs(out[0].Orphaned.IDs)
		ret["pooled"] = txsJSON(p)
		ret["orphaned"] = txsJSON(o)
		ret["unknown"] = u1 + u2
		l.add(ret)
	case "evict":
		l.add(call)
		e.mp.evictTransactions()
		l.add(ret)
	case "block":
		a := op["acc"].(string)
		st := op["_st"].(aSt)
		full := op["full"].(bool)
		dirty, _ := op["dirty"].([]string)
		call["acc"] = a
		call["st"] = op["st"]
		call["full"] = full
		d := []interface{}{}
		for _, x := range dirty {
			d = append(d, x)
		}
		call["dirty"] = d
		call["backend"] = e.backend
		named := append([]string{}, dirty...)
		if st.Nonce > e.chain[a].Nonce {
			named = append(named, a)
		}
		e.chain[a] = st // (only this goroutine touches e.chain during a round)
		blk, err := e.block(e.chain, full, named)
		if err != nil {
			panic(err)
		}
		l.add(call)
		if e.backend == "test" {
			e.setMockField(a, st)
		}
		e.mp.removeOnBlockArrival(blk)
		l.add(ret)
	}
}
