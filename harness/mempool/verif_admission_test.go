//go:build verif

package mempool

// Conformance harness for spec/admission/Admission.tla (C14 — admission totality).
//
// TLC enumerates abstract transaction shapes (envelope fields x governance payload grammar x
// sender/chain context) together with the outcome the specification assigns to each layer.
// This harness concretises every shape to real bytes (several seeded concretisations per
// shape), sends it through a protobuf encode/decode round trip (what a peer or client
// delivers) and then through the three real layers, each under recover():
//
//	L1  (*MemPool).verifyTx            -> types.(*transaction).Validate + signature check
//	L2  (*MemPool).validateTx          -> system.ValidateSystemTx / name.ValidateNameTx /
//	                                      enterprise.ValidateEnterpriseTx on the real state
//	L3  chain.NewTxExecutor(...)       -> chain.executeTx / executeGovernanceTx on a real
//	                                      BlockState, producer and validator mode, for every
//	                                      transaction the REAL pool admitted
//	L4  readers + probe transactions on the state committed after a successful L3
//
// A panic anywhere is a violation.  Which rejection is returned is never compared; the
// accept/reject prediction of the specification is compared and only counted (model drift).

import (
	"bytes"
	"context"
	"crypto/sha256"
	"encoding/binary"
	"encoding/hex"
	"encoding/json"
	"fmt"
	"math"
	"math/big"
	"math/rand"
	"os"
	"os/exec"
	"path/filepath"
	"runtime"
	"runtime/debug"
	"sort"
	"strings"
	"sync"
	"testing"
	"time"

	"github.com/aergoio/aergo-actor/actor"

	"github.com/aergoio/aergo-lib/db"
	"github.com/aergoio/aergo-lib/log"
	"github.com/aergoio/aergo/v2/blacklist"
	"github.com/aergoio/aergo/v2/chain"
	cfg "github.com/aergoio/aergo/v2/config"
	"github.com/aergoio/aergo/v2/consensus"
	"github.com/aergoio/aergo/v2/contract"
	"github.com/aergoio/aergo/v2/contract/enterprise"
	"github.com/aergoio/aergo/v2/contract/name"
	"github.com/aergoio/aergo/v2/contract/system"
	"github.com/aergoio/aergo/v2/fee"
	"github.com/aergoio/aergo/v2/internal/common"
	"github.com/aergoio/aergo/v2/internal/enc/base58"
	"github.com/aergoio/aergo/v2/internal/enc/proto"
	"github.com/aergoio/aergo/v2/internal/verifkit"
	p2plist "github.com/aergoio/aergo/v2/p2p/list"
	"github.com/aergoio/aergo/v2/pkg/component"
	"github.com/aergoio/aergo/v2/state"
	"github.com/aergoio/aergo/v2/state/statedb"
	"github.com/aergoio/aergo/v2/types"
	"github.com/aergoio/aergo/v2/types/dbkey"
	"github.com/aergoio/aergo/v2/types/message"
	"github.com/btcsuite/btcd/btcec/v2"
	"github.com/btcsuite/btcd/btcec/v2/ecdsa"
	"github.com/rs/zerolog"
)

// ---------------------------------------------------------------- input

type c14WorldSpec struct {
	Name      string `json:"name"`
	Public    bool   `json:"public"`
	Consensus string `json:"consensus"` // "dpos" | "raft"
	Fork      int32  `json:"fork"`      // version of every block of this world (0, 2..5)
	LowMin    bool   `json:"lowmin"`    // a majority staker ("whale") voted STAKINGMIN down to 1 aer; "tiny" stakes 50 aer
}

// one abstract case = context + shape + the specification's outcome per layer
type c14Case struct {
	W    string   `json:"w"`  // world
	S    string   `json:"s"`  // sender class
	Ty   string   `json:"ty"` // tx type
	Rc   string   `json:"rc"` // recipient class
	Ac   string   `json:"ac"` // account-field class
	Am   string   `json:"am"` // amount class
	Pr   string   `json:"pr"` // gas price class
	Gl   string   `json:"gl"` // gas limit class
	No   string   `json:"no"` // nonce class
	Ci   string   `json:"ci"` // chain id hash class
	Hs   string   `json:"hs"` // tx hash class
	Sg   string   `json:"sg"` // signature class
	Pk   string   `json:"pk"` // payload kind
	Op   string   `json:"op"` // call name
	Ar   []string `json:"ar"` // argument classes
	Pred []string `json:"pd"` // specification outcome: [types, pool, exec]
}

type c14Input struct {
	Worlds   []c14WorldSpec `json:"worlds"`
	Cases    []c14Case      `json:"cases"`
	Probes   []c14Case      `json:"probes"`   // second-step transactions (W/S ignored: world and sender of the first step)
	Variants int            `json:"variants"` // concretisations per case
	Fuzz     int            `json:"fuzz"`     // byte-level random transactions per world (sampled extension)
}

func (c *c14Case) shapeKey() string {
	return strings.Join([]string{c.Ty, c.Rc, c.Ac, c.Am, c.Pr, c.Gl, c.No, c.Ci, c.Hs, c.Sg, c.Pk, c.Op, strings.Join(c.Ar, ",")}, "|")
}
func (c *c14Case) key() string { return c.W + "|" + c.S + "|" + c.shapeKey() }

// short human-readable payload descriptor used in signatures: op[arg,arg]
func (c *c14Case) payloadDesc() string {
	if c.Pk != "ci" {
		return c.Pk + ":" + c.Op
	}
	return c.Op + "[" + strings.Join(c.Ar, ",") + "]"
}

// ---------------------------------------------------------------- accounts

type c14Acct struct {
	name string
	priv *btcec.PrivateKey
	addr []byte
}

func c14Key(seed string) *btcec.PrivateKey {
	h := sha256.Sum256([]byte("c14/key/" + seed))
	p, _ := btcec.PrivKeyFromBytes(h[:])
	return p
}

func c14NewAcct(n string) *c14Acct {
	p := c14Key(n)
	return &c14Acct{name: n, priv: p, addr: p.PubKey().SerializeCompressed()}
}

// a libp2p-style secp256k1 peer id: identity multihash over the 37-byte protobuf-wrapped key = 39 bytes
func c14PeerID(seed string) []byte {
	pk := c14Key("peer/" + seed).PubKey().SerializeCompressed()
	b := []byte{0x00, 0x25, 0x08, 0x02, 0x12, 0x21}
	return append(b, pk...)
}

const (
	c14NameOwned = "c14nameowned" // registered by account nameOwner
	c14NameOther = "c14nameother" // registered by account other
	c14BestNo    = uint64(200000) // best block of every world; set-up happens in blocks 1, 2 and c14BestNo
)

var c14SenderClasses = []string{"fresh", "rich", "stakedOld", "stakedNew", "votedOld", "votedNew", "nameOwner", "other", "admin", "whale", "tiny"}

// ---------------------------------------------------------------- world

type c14World struct {
	spec     c14WorldSpec
	cfg      *cfg.Config
	sdb      *state.ChainStateDB
	root     []byte
	chainID  []byte
	accts    map[string]*c14Acct
	bps      []string
	contract []byte // address of a deployed contract
	dir      string
	setup    []string // log of the set-up transactions and their outcome
}

type c14CDB struct{}

func (c14CDB) GetBlockByNo(no types.BlockNo) (*types.Block, error) {
	return &types.Block{Header: &types.BlockHeader{BlockNo: no}}, nil
}
func (c14CDB) GetBestBlock() (*types.Block, error) {
	return &types.Block{Header: &types.BlockHeader{BlockNo: c14BestNo}}, nil
}

type c14CCC struct{}

func (c14CCC) MakeConfChangeProposal(req *types.MembershipChange) (*consensus.ConfChangePropose, error) {
	return nil, consensus.ErrorMembershipChangeSkip
}

func c14Hardfork(v int32) *cfg.HardforkConfig {
	off := types.BlockNo(math.MaxUint64)
	h := &cfg.HardforkConfig{V2: off, V3: off, V4: off, V5: off}
	if v >= 2 {
		h.V2 = 0
	}
	if v >= 3 {
		h.V3 = 0
	}
	if v >= 4 {
		h.V4 = 0
	}
	if v >= 5 {
		h.V5 = 0
	}
	return h
}

// activate sets the process-wide configuration a node of this world runs with
// (chain.initChainParams, ChainService init, dpos.InitVPR).
func (w *c14World) activate() {
	types.InitGovernance(w.spec.Consensus, w.spec.Public)
	chain.VerifC14SetNet(w.spec.Public, w.spec.Consensus)
	consensus.SetCurConsensus(w.spec.Consensus)
	contract.PubNet = w.spec.Public
	if w.spec.Public {
		fee.DisableZeroFee()
	} else {
		fee.EnableZeroFee()
	}
	blacklist.Initialize([]string{types.EncodeAddress(c14NewAcct("blacklisted").addr)})
}

// resetGlobals reloads the package-level caches of contract/system from the state at root
// (what a node holds in memory when root is the state of its best block).
func (w *c14World) resetGlobals(root []byte) *c14Panic {
	return c14Guard(func() {
		scs, err := statedb.GetSystemAccountState(w.sdb.OpenNewStateDB(root))
		if err != nil {
			panic(err)
		}
		system.InitSystemParams(scs, len(w.bps))
		if w.spec.Consensus == "dpos" {
			if err := system.InitVotingPowerRank(scs); err != nil {
				panic(err)
			}
		}
	})
}

func (w *c14World) blockInfo(no uint64) *types.BlockHeaderInfo {
	return &types.BlockHeaderInfo{No: no, Ts: int64(no) * 1e9, PrevBlockHash: common.Hasher([]byte(fmt.Sprintf("c14prev%d", no))),
		ChainId: w.chainID, ForkVersion: w.spec.Fork}
}

// newPool opens a MemPool on the state `root` of best block `bestNo` through the real setStateDB.
func (w *c14World) newPool(root []byte, bestNo uint64) *MemPool {
	mp := &MemPool{cfg: w.cfg, sdb: w.sdb, pool: map[types.AccountID]*txList{}, status: running, quit: make(chan bool)}
	mp.BaseComponent = component.NewBaseComponent(message.MemPoolSvc, mp, log.NewLogger("mempool"))
	blk := &types.Block{Header: &types.BlockHeader{ChainID: w.chainID, BlockNo: bestNo, BlocksRootHash: root,
		PrevBlockHash: common.Hasher([]byte(fmt.Sprintf("c14prev%d", bestNo)))}}
	mp.setStateDB(blk)
	return mp
}

type c14ExecResult struct {
	err     error
	status  string // receipt status when err == nil
	newRoot []byte // committed root (only when commit was requested and err == nil)
}

// execute runs one transaction as the only transaction of block `no` on top of `root`.
func (w *c14World) execute(root []byte, no uint64, tx types.Transaction, mode int, commit bool) c14ExecResult {
	bs := state.NewBlockState(w.sdb.OpenNewStateDB(root), state.SetPrevBlockHash(common.Hasher([]byte(fmt.Sprintf("c14prev%d", no)))),
		state.SetGasPrice(system.GetGasPrice()))
	bs.Receipts().SetHardFork(w.cfg.Hardfork, no)
	exec := chain.NewTxExecutor(context.Background(), c14CCC{}, c14CDB{}, w.blockInfo(no), mode)
	r := c14ExecResult{}
	r.err = exec(bs, tx)
	if r.err != nil {
		return r
	}
	rs := bs.Receipts().Get()
	if len(rs) > 0 {
		r.status = rs[len(rs)-1].Status
	}
	if commit {
		if err := bs.Update(); err != nil {
			r.err = fmt.Errorf("c14 harness: update: %v", err)
			return r
		}
		if err := bs.Commit(); err != nil {
			r.err = fmt.Errorf("c14 harness: commit: %v", err)
			return r
		}
		r.newRoot = bs.GetRoot()
	}
	return r
}

func c14Amount(n int64, unit string) *big.Int {
	v := big.NewInt(n)
	switch unit {
	case "aergo":
		return v.Mul(v, big.NewInt(1e18))
	case "gaer":
		return v.Mul(v, big.NewInt(1e9))
	}
	return v
}

func c14NewWorld(spec c14WorldSpec) (*c14World, error) {
	w := &c14World{spec: spec, accts: map[string]*c14Acct{}}
	sc := cfg.NewServerContext("", "")
	w.cfg = sc.GetDefaultConfig().(*cfg.Config)
	w.cfg.Hardfork = c14Hardfork(spec.Fork)
	cid := types.ChainID{Version: spec.Fork, PublicNet: spec.Public, MainNet: false, Magic: "c14.chain", Consensus: spec.Consensus}
	var err error
	if w.chainID, err = cid.Bytes(); err != nil {
		return nil, err
	}
	for _, n := range c14SenderClasses {
		w.accts[n] = c14NewAcct(spec.Name + "/" + n)
	}
	w.sdb = state.NewChainStateDB()
	// the memory store loads a dump from its directory if there is one and writes one on Close: private directory, never closed
	if w.dir, err = os.MkdirTemp("", "c14world"); err != nil {
		return nil, err
	}
	if err := w.sdb.Init(string(db.MemoryImpl), w.dir, nil, false, nil); err != nil {
		return nil, err
	}
	gen := &types.Genesis{ID: cid, Timestamp: 1, Balance: map[string]string{}}
	for _, n := range c14SenderClasses {
		if n != "fresh" {
			gen.Balance[types.EncodeAddress(w.accts[n].addr)] = c14Amount(1000000, "aergo").String()
		}
	}
	for i := 0; i < 3; i++ {
		w.bps = append(w.bps, base58.Encode(c14PeerID(fmt.Sprintf("genesisbp%d", i))))
	}
	var bpInit func(*statedb.StateDB, *types.Genesis) error
	if spec.Consensus == "dpos" {
		gen.BPs = append([]string{}, w.bps...)
		bpInit = chain.InitGenesisBPs
	}
	gen.Block()
	if err := w.sdb.SetGenesis(gen, bpInit); err != nil {
		return nil, err
	}
	w.root = w.sdb.GetRoot()
	w.activate()
	if p := w.resetGlobals(w.root); p != nil {
		return nil, fmt.Errorf("world %s: init panicked: %s", spec.Name, p.val)
	}
	// ---- set-up blocks: every state of the sender classes is produced by the real executor
	nonces := map[string]uint64{}
	min := system.GetStakingMinimum()
	step := func(no uint64, who, rc, payload string, amount *big.Int) {
		a := w.accts[who]
		nonces[who]++
		body := &types.TxBody{Nonce: nonces[who], Account: a.addr, Recipient: []byte(rc), Amount: amount.Bytes(), Payload: []byte(payload),
			Type: types.TxType_GOVERNANCE, ChainIdHash: common.Hasher(w.chainID)}
		if rc == "" { // deployment of a (stub VM) contract that accepts fee delegation
			body.Type, body.Recipient = types.TxType_DEPLOY, nil
			w.contract = contract.CreateContractID(a.addr, nonces[who])
		}
		tx := &types.Tx{Body: body}
		c14Sign(tx, a.priv)
		var r c14ExecResult
		p := c14Guard(func() { r = w.execute(w.root, no, types.NewTransaction(tx), contract.ChainService, true) })
		out := "ok"
		switch {
		case p != nil:
			out = "PANIC " + p.val
			nonces[who]--
		case r.err != nil:
			out = "skip: " + r.err.Error()
			nonces[who]--
		default:
			out = r.status
			w.root = r.newRoot
			system.CommitParams(true)
		}
		w.setup = append(w.setup, fmt.Sprintf("block %d %s -> %s %s : %s", no, who, rc, payload, out))
	}
	twice := new(big.Int).Mul(min, big.NewInt(2))
	zero := new(big.Int)
	one := c14Amount(1, "aergo")
	for _, who := range []string{"stakedOld", "votedOld", "votedNew"} {
		step(1, who, types.AergoSystem, `{"Name":"v1stake"}`, twice)
	}
	step(1, "rich", "", "event delegate", zero)
	step(1, "nameOwner", types.AergoName, `{"Name":"v1createName","Args":["`+c14NameOwned+`"]}`, one)
	step(1, "other", types.AergoName, `{"Name":"v1createName","Args":["`+c14NameOther+`"]}`, one)
	if !spec.Public {
		step(1, "admin", types.AergoEnterprise, `{"Name":"appendAdmin","Args":["`+types.EncodeAddress(w.accts["admin"].addr)+`"]}`, zero)
		step(1, "admin", types.AergoEnterprise, `{"Name":"appendConf","Args":["p2pwhite","{\"peerid\":\"`+w.bps[0]+`\"}"]}`, zero)
		step(1, "admin", types.AergoEnterprise, `{"Name":"appendConf","Args":["rpcpermissions","dGVzdA==:RW"]}`, zero)
		step(1, "admin", types.AergoEnterprise, `{"Name":"appendConf","Args":["accountwhite","`+types.EncodeAddress(w.accts["admin"].addr)+`"]}`, zero)
	}
	vote := func(no uint64, who string) {
		step(no, who, types.AergoSystem, `{"Name":"v1voteBP","Args":["`+w.bps[0]+`","`+w.bps[1]+`"]}`, zero)
		step(no, who, types.AergoSystem, `{"Name":"v1voteDAO","Args":["BPCOUNT","3"]}`, zero)
	}
	vote(2, "votedOld")
	if spec.LowMin {
		step(1, "whale", types.AergoSystem, `{"Name":"v1stake"}`, new(big.Int).Mul(min, big.NewInt(100)))
		step(2, "whale", types.AergoSystem, `{"Name":"v1voteDAO","Args":["STAKINGMIN","1"]}`, zero)
		step(3, "tiny", types.AergoSystem, `{"Name":"v1stake"}`, big.NewInt(50))
		if system.GetStakingMinimum().Cmp(big.NewInt(1)) != 0 {
			return nil, fmt.Errorf("world %s: the staking minimum was not voted down (%s): %v", spec.Name, system.GetStakingMinimum(), w.setup)
		}
	}
	step(c14BestNo, "stakedNew", types.AergoSystem, `{"Name":"v1stake"}`, twice)
	vote(c14BestNo, "votedNew")
	return w, nil
}

// ---------------------------------------------------------------- panic capture

type c14Panic struct {
	val    string   // panic value
	class  string   // normalised kind of panic
	site   string   // innermost function of the code under test on the panicking stack
	where  string   // file:line of that frame
	frames []string // the first frames of the code under test
	stub   bool     // raised inside the overlay's stand-in for the contract VM: an artefact of the harness, not of the node
}

func c14PanicClass(v string) string {
	for _, k := range []string{"interface conversion", "index out of range", "slice bounds out of range", "nil pointer dereference",
		"nil map", "divide by zero", "division by zero", "makeslice", "out of memory", "voting data corruption"} {
		if strings.Contains(v, k) {
			return strings.ReplaceAll(k, " ", "-")
		}
	}
	if len(v) > 48 {
		v = v[:48]
	}
	return v
}

func c14Guard(f func()) (p *c14Panic) {
	defer func() {
		r := recover()
		if r == nil {
			return
		}
		p = &c14Panic{val: fmt.Sprint(r)}
		p.class = c14PanicClass(p.val)
		pcs := make([]uintptr, 64)
		n := runtime.Callers(2, pcs)
		fr := runtime.CallersFrames(pcs[:n])
		for {
			f, more := fr.Next()
			if strings.Contains(f.File, "verif_vmstub") {
				p.stub = true
			}
			if strings.Contains(f.Function, "aergoio/aergo/v2/") && !strings.Contains(f.File, "verif_") && !strings.Contains(f.Function, "c14") {
				fn := f.Function[strings.LastIndex(f.Function, "/")+1:]
				file := f.File[strings.LastIndex(f.File, "/")+1:]
				if p.site == "" {
					p.site = fn
					p.where = fmt.Sprintf("%s:%d", file, f.Line)
				}
				if len(p.frames) < 8 {
					p.frames = append(p.frames, fmt.Sprintf("%s (%s:%d)", fn, file, f.Line))
				}
			}
			if !more {
				break
			}
		}
		if p.site == "" {
			p.site = "?"
		}
	}()
	f()
	return nil
}

// ---------------------------------------------------------------- concretisation

func c14Sign(tx *types.Tx, priv *btcec.PrivateKey) {
	b := tx.Body
	h := sha256.New()
	binary.Write(h, binary.LittleEndian, b.Nonce)
	h.Write(b.Account)
	h.Write(b.Recipient)
	h.Write(b.Amount)
	h.Write(b.Payload)
	binary.Write(h, binary.LittleEndian, b.GasLimit)
	h.Write(b.GasPrice)
	binary.Write(h, binary.LittleEndian, b.Type)
	h.Write(b.ChainIdHash)
	b.Sign = ecdsa.Sign(priv, h.Sum(nil)).Serialize()
	tx.Hash = tx.CalculateTxHash()
}

const c14Alnum = "abcdefghijklmnopqrstuvwxyz0123456789"
const c14B58 = "123456789ABCDEFGHJKLMNPQRSTUVWXYZabcdefghijkmnopqrstuvwxyz"

func c14Rand(rng *rand.Rand, alphabet string, n int) string {
	b := make([]byte, n)
	for i := range b {
		b[i] = alphabet[rng.Intn(len(alphabet))]
	}
	return string(b)
}

// c14Name: n characters of [a-z0-9] with at least one '0', so that the text is never valid base58
func c14Name(rng *rand.Rand, n int) string {
	b := []byte(c14Rand(rng, c14Alnum, n))
	b[rng.Intn(n)] = '0'
	return string(b)
}

func c14Pick(rng *rand.Rand, xs ...string) string { return xs[rng.Intn(len(xs))] }

func c14JS(s string) string { b, _ := json.Marshal(s); return string(b) }

func c14Identity(n int, rng *rand.Rand) []byte { // identity multihash with an n-byte digest (n < 128)
	b := []byte{0x00, byte(n)}
	d := make([]byte, n)
	rng.Read(d)
	return append(b, d...)
}

type c14Ctx struct {
	w      *c14World
	sender *c14Acct
	rng    *rand.Rand
	prev   string // JSON text of the previous argument (class "dup")
	pos    int
	salt   int
}

// c14Arg turns an argument class into JSON text.
// pick: one of the alternatives, a different one at every position of an argument list (lists are shorter than
// the alternatives of the classes whose texts must differ), varying from case to case through salt
func (x *c14Ctx) pick(xs ...string) string { return xs[(x.pos+x.salt)%len(xs)] }

func c14Arg(x *c14Ctx, class string) string {
	w, rng := x.w, x.rng
	addr := func(a []byte) string { return c14JS(types.EncodeAddress(a)) }
	switch class {
	// ---- peer ids (v1voteBP)
	case "pid39":
		return c14JS(base58.Encode(c14PeerID(fmt.Sprintf("cand%d/%d", x.pos, rng.Intn(1000)))))
	case "pidbp":
		return c14JS(w.bps[x.pos%len(w.bps)])
	case "pidshort": // valid multihash, 2..8 bytes
		return c14JS(base58.Encode(c14Identity([]int{0, 1, 4, 6}[(x.pos+x.salt)%4], rng)))
	case "pidmid": // valid multihash, 12..38 bytes
		return c14JS(base58.Encode(c14Identity(10+rng.Intn(27), rng)))
	case "pid34": // sha2-256 multihash
		d := make([]byte, 32)
		rng.Read(d)
		return c14JS(base58.Encode(append([]byte{0x12, 0x20}, d...)))
	case "pidlong": // valid multihash, 40..100 bytes
		return c14JS(base58.Encode(c14Identity(38+rng.Intn(60), rng)))
	case "b58bad":
		return c14JS(c14Rand(rng, c14B58, 10+rng.Intn(30)) + x.pick("0", "O", "I", "l", "-", " ", "é"))
	case "b58raw": // base58 text that is not a multihash
		return c14JS(base58.Encode([]byte{0x12, 0x20, 0x01, 0x02, byte(rng.Intn(256))}))
	// ---- proposal ids and candidates (v1voteDAO)
	case "daoid":
		return `"BPCOUNT"`
	case "daoidlc":
		return []string{`"bpcount"`, `"BpCount"`, `"bpCOUNT"`}[(x.pos+x.salt)%3]
	case "daoid2":
		return []string{`"STAKINGMIN"`, `"NAMEPRICE"`, `"namePrice"`}[(x.pos+x.salt)%3] // three texts: lists of up to three ids hold no duplicate
	case "daoidgas": // the parameter every later transaction's fee is computed from
		return `"GASPRICE"`
	case "daoidbad":
		return x.pick(`"NOSUCHID"`, `"BPCOUNT "`, `"BP"`, `"voteBP"`)
	case "nstr":
		return x.pick(`"3"`, `"1"`, `"23"`, `"100"`)
	case "nstr0":
		return x.pick(`"0"`, `"00"`, `"-0"`)
	case "nstrbig":
		return x.pick(`"500000000000000000000000001"`, c14JS("9"+c14Rand(rng, "0123456789", 30+rng.Intn(70))), c14JS("9"+c14Rand(rng, "0123456789", 100+rng.Intn(3000))))
	case "nstr101": // over the limit of BPCOUNT only
		return x.pick(`"101"`, `"1000"`, `"500000000000000000000000000"`)
	case "nstrbad":
		return x.pick(`"3x"`, `" 3"`, `"1e3"`, `"0x10"`, `"1.5"`, `"٣"`, `"+"`, `"-"`)
	case "nstrneg":
		return x.pick(`"-1"`, `"-100"`, `"-7"`)
	// ---- names and addresses
	case "name12":
		return c14JS(c14Name(rng, 12))
	case "name12uc":
		return c14JS(strings.ToUpper(c14Name(rng, 12)))
	case "nameA":
		return c14JS(c14NameOwned)
	case "nameB":
		return c14JS(c14NameOther)
	case "namebad": // 12 bytes, characters allowed neither in a name nor in a name-address
		return x.pick(c14JS("abcdefghijk_"), c14JS("abcdefghiék"), c14JS("abcdefghijk\x00"), c14JS("ab cdefghijk"), c14JS("abcdefghij-k"))
	case "namedot": // 12 bytes with a dot: not a name, but accepted by types.DecodeAddress
		return x.pick(c14JS("abc.efghijkl"), c14JS(".bcdefghijkl"), c14JS("abcdefghijk."))
	case "nameshort":
		return c14JS(c14Name(rng, 1+rng.Intn(11)))
	case "namelong":
		return c14JS(c14Name(rng, 13+rng.Intn(40)))
	case "addr":
		return addr(c14NewAcct(fmt.Sprintf("random%d", rng.Intn(1000))).addr)
	case "addrself":
		return addr(x.sender.addr)
	case "addrrich":
		return addr(w.accts["rich"].addr)
	case "addradmin":
		return addr(w.accts["admin"].addr)
	case "addrbad": // right length, broken checksum / alphabet
		s := types.EncodeAddress(w.accts["rich"].addr)
		i := 1 + rng.Intn(len(s)-1)
		r := x.pick("1", "z", "0", "O")
		if r == s[i:i+1] {
			r = "2"
		}
		return c14JS(s[:i] + r + s[i+1:])
	case "addrver": // valid base58check, wrong version byte or wrong length
		return c14JS(x.pick(types.EncodePrivKey(w.accts["rich"].addr[:32]), c14B58Check(0x42, w.accts["rich"].addr[:20]),
			c14B58Check(0x42, append(append([]byte{}, w.accts["rich"].addr...), 1)), c14B58Check(0x41, w.accts["rich"].addr)))
	case "special":
		return x.pick(`"aergo.system"`, `"aergo.name"`, `"aergo.enterprise"`, `"aergo.vault"`)
	case "empty":
		return `""`
	case "str":
		return x.pick(`"hello"`, `"null"`, `"\u0000"`, `"`+c14Rand(rng, c14Alnum, 200)+`"`)
	case "dup":
		if x.prev == "" {
			return `"dup"`
		}
		return x.prev
	// ---- non-strings
	case "num":
		return x.pick("1", "0", "-5", "1.5", "3", "39", "12345678901234567890")
	case "numlarge":
		return x.pick("1e30", "1e308", "-1e308", "18446744073709551616")
	case "numbig": // not representable as float64: json.Unmarshal into interface{} fails
		return x.pick("1e400", "-1e999")
	case "bool":
		return x.pick("true", "false")
	case "true":
		return "true"
	case "false":
		return "false"
	case "strtrue":
		return `"true"`
	case "null":
		return "null"
	case "obj":
		return x.pick("{}", `{"a":1}`, `{"_bignum":"3"}`, `{"command":"add"}`)
	case "arr":
		return x.pick("[]", `["x"]`, `[1,[2,[3]]]`, `[null]`)
	// ---- enterprise configuration keys and values
	case "kP2PW":
		return `"P2PWHITE"`
	case "kP2PB":
		return `"P2PBLACK"`
	case "kACCW":
		return `"ACCOUNTWHITE"`
	case "kRPC":
		return `"RPCPERMISSIONS"`
	case "klc":
		return x.pick(`"p2pwhite"`, `"P2pWhite"`, `"p2pWHITE"`)
	case "kbad":
		return x.pick(`"NOKEY"`, `"PERMISSIONS"`, `"admins"`, `"p2p.white"`)
	case "vP2P":
		return x.pick(c14JS(`{"peerid":"`+w.bps[1]+`"}`), c14JS(`{"cidr":"172.21.3.35/24"}`), c14JS(`{"address":"10.0.0.`+fmt.Sprint(rng.Intn(250))+`"}`),
			c14JS(`{"peerid":"`+w.bps[2]+`","address":"::1"}`))
	case "vP2Pbad":
		return x.pick(c14JS(`{"peerid":"xx"}`), c14JS(`{}`), c14JS(`{"address":"1.2.3.4","cidr":"1.2.3.0/24"}`), c14JS(`{"cidr":"1.2.3.4/99"}`),
			c14JS(`not json at all`), c14JS(`{"peerid":1}`), c14JS(`[ ]`), c14JS(`null `), c14JS(`{"address":"999.1.1.1"}`))
	case "vACC":
		return addr(w.accts["rich"].addr)
	case "vACCadmin":
		return addr(w.accts["admin"].addr)
	case "vRPC":
		return x.pick(`"dGVzdDI=:RW"`, `"YWJj:W"`, `"YWJj:R"`, `":W"`)
	case "vRPCro":
		return x.pick(`"cm8=:R"`, `"cm8y:"`, `"cm8z:r"`)
	case "vRPCbad":
		return x.pick(`"no colon!"`, `"a:b:c"`, `"@@@:RW"`, `"::"`)
	case "bslash":
		return x.pick(`"a\\b"`, `"\\"`, `"{\"peerid\":\"\\\\\"}"`)
	// ---- changeCluster request objects
	case "ccAdd":
		return `{"command":"add","name":"n` + fmt.Sprint(rng.Intn(100)) + `","address":"/ip4/10.0.0.1/tcp/7846","peerid":"` + w.bps[rng.Intn(3)] + `"}`
	case "ccAddDns":
		return `{"command":"add","name":"n","address":"/dns/node.example/tcp/1","peerid":"` + w.bps[0] + `"}`
	case "ccAddMiss":
		return x.pick(`{"command":"add"}`, `{"command":"add","name":"n"}`, `{"command":"add","name":"n","address":"/ip4/1.1.1.1/tcp/1"}`)
	case "ccAddType":
		return x.pick(`{"command":"add","name":1,"address":"/ip4/1.1.1.1/tcp/1","peerid":"x"}`, `{"command":"add","name":"n","address":null,"peerid":"x"}`,
			`{"command":"add","name":"n","address":"/ip4/1.1.1.1/tcp/1","peerid":{}}`, `{"command":"add","name":[],"address":[],"peerid":[]}`)
	case "ccAddBadPeer":
		return x.pick(`{"command":"add","name":"n","address":"/ip4/1.1.1.1/tcp/1","peerid":"notapeer"}`, `{"command":"add","name":"n","address":"/ip4/1.1.1.1/tcp/1","peerid":""}`)
	case "ccAddBadAddr":
		return x.pick(`{"command":"add","name":"n","address":"1.1.1.1:80","peerid":"`+w.bps[0]+`"}`, `{"command":"add","name":"n","address":"","peerid":"`+w.bps[0]+`"}`,
			`{"command":"add","name":"n","address":"/ip4/999.1.1.1/tcp/1","peerid":"`+w.bps[0]+`"}`)
	case "ccRem":
		return x.pick(`{"command":"remove","id":"dd44cf1a06727dc5"}`, `{"command":"remove","id":"0"}`, `{"command":"remove","id":"ffffffffffffffff"}`)
	case "ccRemBad":
		return x.pick(`{"command":"remove","id":"xyz"}`, `{"command":"remove","id":""}`, `{"command":"remove","id":"10000000000000000"}`, `{"command":"remove","id":"-1"}`)
	case "ccRemType":
		return x.pick(`{"command":"remove","id":1}`, `{"command":"remove","id":null}`, `{"command":"remove"}`, `{"command":"remove","id":1e400}`)
	case "ccCmdBad":
		return x.pick(`{"command":"update"}`, `{"command":""}`, `{"command":"ADD"}`)
	case "ccCmdType":
		return x.pick(`{"command":1}`, `{"command":null}`, `{}`, `{"Command":"add"}`, `{"command":["add"]}`)
	}
	panic("c14 harness: unknown argument class " + class)
}

func c14B58Check(ver byte, data []byte) string {
	b := append([]byte{ver}, data...)
	h1 := sha256.Sum256(b)
	h2 := sha256.Sum256(h1[:])
	return base58.Encode(append(b, h2[:4]...))
}

var c14TxTypes = map[string]types.TxType{"NORMAL": types.TxType_NORMAL, "GOVERNANCE": types.TxType_GOVERNANCE, "REDEPLOY": types.TxType_REDEPLOY,
	"FEEDELEGATION": types.TxType_FEEDELEGATION, "TRANSFER": types.TxType_TRANSFER, "CALL": types.TxType_CALL, "DEPLOY": types.TxType_DEPLOY,
	"MULTICALL": types.TxType_MULTICALL}

type c14Built struct {
	tx    *types.Tx // what the peer delivers (after the protobuf round trip); nil when the shape has no body
	wire  []byte
	descr string
}

// c14Build concretises one case.  nonce0 is the sender's current nonce in the state the case runs on.
func c14Build(w *c14World, c *c14Case, nonce0 uint64, rng *rand.Rand) (*c14Built, error) {
	sender := w.accts[c.S]
	if sender == nil {
		return nil, fmt.Errorf("unknown sender class %q", c.S)
	}
	body := &types.TxBody{}
	// ---- type
	if t, ok := c14TxTypes[c.Ty]; ok {
		body.Type = t
	} else if c.Ty == "NOBODY" {
		body.Type = types.TxType_NORMAL
	} else if c.Ty == "UNKNOWN" {
		body.Type = types.TxType([]int32{8, 9, 100, -1, math.MaxInt32, math.MinInt32}[rng.Intn(6)])
	} else {
		return nil, fmt.Errorf("unknown type class %q", c.Ty)
	}
	// ---- account field
	switch c.Ac {
	case "addr":
		body.Account = sender.addr
	case "empty":
		body.Account = nil
	case "long":
		body.Account = append(append([]byte{}, sender.addr...), make([]byte, 1+rng.Intn(40))...)
	case "short":
		body.Account = append([]byte{}, sender.addr[:13+rng.Intn(20)]...)
	case "nameA":
		body.Account = []byte(c14NameOwned)
	case "unkname":
		body.Account = []byte(c14Rand(rng, c14Alnum, 1+rng.Intn(12)))
	case "rawshort":
		body.Account = make([]byte, 1+rng.Intn(12))
		rng.Read(body.Account)
	case "special":
		body.Account = []byte(c14Pick(rng, types.AergoSystem, types.AergoName, types.AergoEnterprise, types.AergoVault))
	default:
		return nil, fmt.Errorf("unknown account class %q", c.Ac)
	}
	// ---- recipient
	switch c.Rc {
	case "system":
		body.Recipient = []byte(types.AergoSystem)
	case "name":
		body.Recipient = []byte(types.AergoName)
	case "enterprise":
		body.Recipient = []byte(types.AergoEnterprise)
	case "vault":
		body.Recipient = []byte(types.AergoVault)
	case "user":
		body.Recipient = w.accts["rich"].addr
	case "usernew":
		body.Recipient = c14NewAcct(fmt.Sprintf("rcpt%d", rng.Intn(1000))).addr
	case "self":
		body.Recipient = sender.addr
	case "contract":
		body.Recipient = w.contract
	case "empty":
		body.Recipient = nil
	case "long":
		body.Recipient = make([]byte, 34+rng.Intn(40))
		rng.Read(body.Recipient)
	case "short":
		body.Recipient = make([]byte, 13+rng.Intn(20))
		rng.Read(body.Recipient)
	case "nameA":
		body.Recipient = []byte(c14NameOwned)
	case "unkname":
		body.Recipient = []byte(c14Rand(rng, c14Alnum, 1+rng.Intn(12)))
	case "rawshort":
		body.Recipient = make([]byte, 1+rng.Intn(12))
		rng.Read(body.Recipient)
	case "sysprefix": // 13+ bytes beginning like a governance name
		body.Recipient = []byte(types.AergoSystem + c14Rand(rng, c14Alnum, 1+rng.Intn(10)))
	default:
		return nil, fmt.Errorf("unknown recipient class %q", c.Rc)
	}
	// ---- amount / price
	amt := func(class string) ([]byte, error) {
		switch class {
		case "zero":
			return nil, nil
		case "one":
			return []byte{1}, nil
		case "nameprice":
			return system.GetNamePrice().Bytes(), nil
		case "stakemin":
			return system.GetStakingMinimum().Bytes(), nil
		case "stake2":
			return new(big.Int).Mul(system.GetStakingMinimum(), c14Amount(2, "")).Bytes(), nil
		case "max":
			return types.MaxAER.Bytes(), nil
		case "over":
			return new(big.Int).Add(types.MaxAER, c14Amount(1, "")).Bytes(), nil
		case "b32":
			return bytes.Repeat([]byte{0xff}, 32), nil
		case "b33":
			return bytes.Repeat([]byte{0xff}, 33+rng.Intn(200)), nil
		case "lead0":
			return []byte{0, 0, 0, 0, 0, 0, 0, 0, 0, 0, 0, 0, 0, 0, 0, 0, 0, 0, 0, 0, 0, 0, 0, 0, 0, 0, 0, 0, 0, 0, 0, 0, 0, 0, 0, 0, 0, 0, 0, 0, 1}, nil
		}
		return nil, fmt.Errorf("unknown amount class %q", class)
	}
	var err error
	if body.Amount, err = amt(c.Am); err != nil {
		return nil, err
	}
	if body.GasPrice, err = amt(c.Pr); err != nil {
		return nil, err
	}
	switch c.Gl {
	case "zero":
	case "one":
		body.GasLimit = 1
	case "mid":
		body.GasLimit = 1000000
	case "max":
		body.GasLimit = math.MaxUint64
	default:
		return nil, fmt.Errorf("unknown gas limit class %q", c.Gl)
	}
	switch c.No {
	case "next":
		body.Nonce = nonce0 + 1
	case "low":
		body.Nonce = nonce0
	case "zero":
		body.Nonce = 0
	case "high":
		body.Nonce = nonce0 + 2 + uint64(rng.Intn(5))
	case "max":
		body.Nonce = math.MaxUint64
	default:
		return nil, fmt.Errorf("unknown nonce class %q", c.No)
	}
	switch c.Ci {
	case "ok":
		body.ChainIdHash = common.Hasher(w.chainID)
	case "bad":
		body.ChainIdHash = common.Hasher([]byte("other chain"))
	case "oldver": // the id of this chain under another fork version
		body.ChainIdHash = common.Hasher(types.MakeChainId(w.chainID, w.spec.Fork+1))
	case "empty":
	default:
		return nil, fmt.Errorf("unknown chain id class %q", c.Ci)
	}
	// ---- payload
	x := &c14Ctx{w: w, sender: sender, rng: rng, salt: rng.Intn(1 << 16)}
	args := func() string {
		parts := make([]string, len(c.Ar))
		for i, a := range c.Ar {
			x.pos = i
			parts[i] = c14Arg(x, a)
			x.prev = parts[i]
		}
		return "[" + strings.Join(parts, ",") + "]"
	}
	op := c14JS(c.Op)
	switch c.Pk {
	case "ci":
		body.Payload = []byte(`{"Name":` + op + `,"Args":` + args() + `}`)
	case "lcase":
		body.Payload = []byte(`{"name":` + op + `,"args":` + args() + `}`)
	case "extra":
		body.Payload = []byte(`{"Extra":{"a":[1,2]},"Name":` + op + `,"Args":` + args() + `,"args2":1}`)
	case "dupkey":
		body.Payload = []byte(`{"Name":"zzz","Args":[1,2,3],"Name":` + op + `,"Args":` + args() + `}`)
	case "ws":
		body.Payload = []byte(" \n\t{ \"Name\" :\r\n" + op + " , \"Args\" : " + args() + " } \n")
	case "noargs":
		body.Payload = []byte(`{"Name":` + op + `}`)
	case "argsnull":
		body.Payload = []byte(`{"Name":` + op + `,"Args":null}`)
	case "argsobj":
		body.Payload = []byte(`{"Name":` + op + `,"Args":{"0":"x"}}`)
	case "argsstr":
		body.Payload = []byte(`{"Name":` + op + `,"Args":"x"}`)
	case "namenum":
		body.Payload = []byte(`{"Name":1,"Args":[]}`)
	case "namenull":
		body.Payload = []byte(`{"Name":null,"Args":` + args() + `}`)
	case "empty":
		body.Payload = nil
	case "garbage":
		body.Payload = make([]byte, 1+rng.Intn(300))
		rng.Read(body.Payload)
	case "trunc":
		full := `{"Name":` + op + `,"Args":` + args() + `}`
		body.Payload = []byte(full[:1+rng.Intn(len(full)-1)])
	case "jsonnull":
		body.Payload = []byte("null")
	case "jsonscalar":
		body.Payload = []byte(c14Pick(rng, "1", `"v1stake"`, "true", "[]", `["v1stake"]`, "[{}]"))
	case "jsonobj":
		body.Payload = []byte(c14Pick(rng, "{}", `{"x":1}`, ` { } `))
	case "bp30", "bp31":
		n := 30
		if c.Pk == "bp31" {
			n = 31
		}
		ids := make([]string, n)
		for i := range ids {
			ids[i] = c14JS(base58.Encode(c14PeerID(fmt.Sprintf("many%d/%d", i, rng.Intn(1000)))))
		}
		body.Payload = []byte(`{"Name":` + op + `,"Args":[` + strings.Join(ids, ",") + `]}`)
	case "deep":
		n := 10001 + rng.Intn(3000)
		body.Payload = []byte(`{"Name":` + op + `,"Args":[` + strings.Repeat("[", n) + strings.Repeat("]", n) + `]}`)
	case "manyargs":
		n := 1000 + rng.Intn(20000)
		body.Payload = []byte(`{"Name":` + op + `,"Args":[` + strings.TrimSuffix(strings.Repeat(`"a0",`, n), ",") + `]}`)
	case "huge":
		body.Payload = []byte(`{"Name":` + op + `,"Args":["` + strings.Repeat("a", types.TxMaxSize+rng.Intn(1000)) + `"]}`)
	case "vmops": // a program of the stub VM (non-governance types)
		body.Payload = []byte(c14Pick(rng, "nop", "set k v", "event e", "ret x", "fail", "set k v;del k", "fee 10", "sysfail"))
	default:
		return nil, fmt.Errorf("unknown payload kind %q", c.Pk)
	}
	// ---- signature and hash
	tx := &types.Tx{Body: body}
	switch c.Sg {
	case "ok":
		c14Sign(tx, sender.priv)
	case "other":
		c14Sign(tx, c14Key("somebody else"))
	case "bad":
		body.Sign = make([]byte, 60+rng.Intn(20))
		rng.Read(body.Sign)
	case "empty":
	default:
		return nil, fmt.Errorf("unknown signature class %q", c.Sg)
	}
	switch c.Hs {
	case "ok":
		tx.Hash = tx.CalculateTxHash()
	case "bad":
		tx.Hash = common.Hasher([]byte("wrong hash"))
	case "empty":
		tx.Hash = nil
	default:
		return nil, fmt.Errorf("unknown hash class %q", c.Hs)
	}
	if c.Ty == "NOBODY" {
		tx.Body = nil
	}
	// ---- the wire: what a peer or client sends is protobuf; decode it the way the node does
	wire, err := proto.Encode(tx)
	if err != nil {
		return nil, fmt.Errorf("c14 harness: encode: %v", err)
	}
	got := &types.Tx{}
	if err := proto.Decode(wire, got); err != nil {
		return nil, fmt.Errorf("c14 harness: decode: %v", err)
	}
	pl := string(body.Payload)
	if len(pl) > 300 {
		pl = pl[:300] + fmt.Sprintf("...(%d bytes)", len(body.Payload))
	}
	return &c14Built{tx: got, wire: wire, descr: pl}, nil
}

// ---------------------------------------------------------------- the three layers

type c14Outcome struct {
	layer   string // where the run stopped: "types" | "pool" | "exec"
	types   string // accept | reject | panic | -
	pool    string // accept | orphan | reject | panic | -
	exec    string // ok | err | skip | panic | stub | -   (producer mode)
	execV   string // same, validator mode
	errs    [4]string
	panic   *c14Panic
	panicAt string
	newRoot []byte
	slow    time.Duration
	rcpt    string // governance recipient of the delivered transaction ("" otherwise)
	op      string // canonical call of a governance transaction (see c14CanonOp), transaction type otherwise
	votes   bool   // an aergo.system call other than v1stake: its execution may change the voting power rank and the parameters
}

func c14ExecClass(r c14ExecResult) string {
	if r.err != nil {
		return "skip"
	}
	if r.status == "ERROR" {
		return "err"
	}
	return "ok"
}

// c14Run sends one delivered transaction through the layers on the state (root, bestNo).
func c14Run(w *c14World, mp *MemPool, root []byte, bestNo uint64, wire []byte, commit, both bool) (o c14Outcome) {
	o.types, o.pool, o.exec, o.execV = "-", "-", "-", "-"
	timed := func(f func()) *c14Panic {
		t0 := time.Now()
		p := c14Guard(f)
		if d := time.Since(t0); d > o.slow {
			o.slow = d
		}
		return p
	}
	decode := func() types.Transaction {
		tx := &types.Tx{}
		if err := proto.Decode(wire, tx); err != nil {
			panic("c14 harness: decode: " + err.Error())
		}
		return types.NewTransaction(tx)
	}
	// L1
	o.layer = "types"
	tx := decode()
	if b := tx.GetTx().GetBody(); b != nil && b.GetType() == types.TxType_GOVERNANCE {
		o.rcpt = string(b.GetRecipient())
		var ci types.CallInfo
		bad := json.Unmarshal(b.GetPayload(), &ci) != nil
		o.op = c14CanonOp(o.rcpt, ci.Name, bad)
		if o.rcpt == types.AergoSystem {
			o.votes = bad || types.GetOpSysTx(ci.Name) != types.Opstake
		}
	} else if b != nil {
		o.op = b.GetType().String()
	}
	var err error
	if p := timed(func() {
		if mp.exist(tx.GetHash()) != nil { // TxVerifier.Receive
			err = types.ErrTxAlreadyInMempool
			return
		}
		err = mp.verifyTx(tx)
	}); p != nil {
		o.types, o.panic, o.panicAt = "panic", p, "types"
		return
	}
	if err != nil {
		o.types, o.errs[0] = "reject", err.Error()
		return
	}
	o.types = "accept"
	// L2 (MemPool.put: validateTx on the verified account)
	o.layer = "pool"
	acc := tx.GetBody().GetAccount()
	if tx.HasVerifedAccount() {
		acc = tx.GetVerifedAccount()
	}
	if p := timed(func() { err = mp.validateTx(tx, acc) }); p != nil {
		o.pool, o.panic, o.panicAt = "panic", p, "pool"
		return
	}
	if err == types.ErrTxNonceToohigh {
		o.pool, o.errs[1] = "orphan", err.Error()
		return
	}
	if err != nil {
		o.pool, o.errs[1] = "reject", err.Error()
		return
	}
	o.pool = "accept"
	// L3: the block producer takes the transaction object held by the pool, a validator decodes it from the block.
	// contract/system keeps the voting power rank and the parameters in package variables which an execution
	// changes; they are reloaded from the state whenever an execution may have touched them.
	o.layer = "exec"
	restore := func(class string) {
		system.CommitParams(false)
		if o.votes && class != "skip" {
			w.resetGlobals(root)
		}
	}
	var rp, rv c14ExecResult
	if o.votes && !tx.HasVerifedAccount() {
		both = false // a vote reaches neither the VM nor the name service: the two modes run the same code
	}
	if both {
		if p := timed(func() { rp = w.execute(root, bestNo+1, tx, contract.BlockFactory, false) }); p != nil {
			restore("panic")
			if p.stub {
				o.exec = "stub"
				return
			}
			o.exec, o.panic, o.panicAt = "panic", p, "exec"
			return
		}
		o.exec = c14ExecClass(rp)
		if rp.err != nil {
			o.errs[2] = rp.err.Error()
		}
		restore(o.exec)
	}
	if p := timed(func() { rv = w.execute(root, bestNo+1, decode(), contract.ChainService, commit) }); p != nil {
		restore("panic")
		if p.stub {
			o.execV = "stub"
			if !both {
				o.exec = "stub"
			}
			return
		}
		o.execV, o.panic, o.panicAt = "panic", p, "exec"
		if !both {
			o.exec = "panic"
		}
		return
	}
	o.execV = c14ExecClass(rv)
	if rv.err != nil {
		o.errs[3] = rv.err.Error()
	}
	if !both {
		o.exec = o.execV
	}
	if commit && rv.err == nil && o.execV == "ok" {
		o.newRoot = rv.newRoot
		system.CommitParams(true) // the block is connected
	} else {
		restore(o.execV)
	}
	return
}

// c14Readers calls what a running node calls on the state of its best block: BP election, vote / stake / name /
// enterprise queries, the reloads done at start-up and on reorganisation.  Returns the first panic.
func c14Readers(w *c14World, root []byte, sender []byte, rcpt string) (where string, p *c14Panic) {
	sdb := w.sdb.OpenNewStateDB(root)
	type step struct {
		n string
		f func()
	}
	var steps []step
	switch rcpt {
	case types.AergoSystem:
		steps = []step{
			{"system.InitSystemParams", func() {
				scs, _ := statedb.GetSystemAccountState(sdb)
				system.InitSystemParams(scs, len(w.bps))
			}},
			{"system.InitVotingPowerRank", func() {
				if w.spec.Consensus == "dpos" {
					scs, _ := statedb.GetSystemAccountState(sdb)
					system.InitVotingPowerRank(scs)
				}
			}},
			{"system.GetRankers", func() {
				scs, _ := statedb.GetSystemAccountState(sdb)
				system.GetRankers(scs)
			}},
			{"system.GetVoteResult", func() {
				scs, _ := statedb.GetSystemAccountState(sdb)
				for _, i := range system.GetVotingCatalog() {
					system.GetVoteResult(scs, []byte(i.ID()), 100)
				}
			}},
			{"system.GetVotes", func() {
				scs, _ := statedb.GetSystemAccountState(sdb)
				system.GetVotes(scs, sender)
			}},
			{"system.GetStaking", func() {
				scs, _ := statedb.GetSystemAccountState(sdb)
				system.GetStaking(scs, sender)
				system.GetStakingTotal(scs)
			}},
		}
	case types.AergoName:
		steps = []step{
			{"name.GetNameInfo", func() {
				ncs, _ := statedb.GetNameAccountState(sdb)
				for _, n := range []string{c14NameOwned, c14NameOther, types.AergoName, "nosuchname12"} {
					name.GetNameInfo(ncs, n)
					name.GetOwner(ncs, []byte(n))
					name.GetAddress(ncs, []byte(n))
				}
			}},
		}
	case types.AergoEnterprise:
		steps = []step{
			{"enterprise.GetAdmin", func() {
				ecs, _ := statedb.GetEnterpriseAccountState(sdb)
				enterprise.GetAdmin(ecs)
			}},
			{"enterprise.GetConf", func() {
				ecs, _ := statedb.GetEnterpriseAccountState(sdb)
				for _, k := range []string{"P2PWHITE", "P2PBLACK", "ACCOUNTWHITE", "RPCPERMISSIONS", "p2pwhite", "accountwhite", "rpcpermissions", "PERMISSIONS"} {
					enterprise.GetConf(ecs, k)
				}
			}},
			// what the p2p service does when the chain service reports a change of the peer white list
			{"p2p/list.RefineList", func() {
				p2plist.NewListManager(nil, "", c14Acc{w: w, root: root}, nil, log.NewLogger("c14list"), w.spec.Public).RefineList()
			}},
		}
	}
	steps = append(steps, step{"mempool.setStateDB", func() { w.newPool(root, c14BestNo+1) }})
	for _, s := range steps {
		if p := c14Guard(s.f); p != nil {
			return s.n, p
		}
	}
	return "", nil
}

// c14Acc is the chain service as the p2p list manager sees it: GetEnterpriseConfig as in chain.(*ChainService).getEnterpriseConf
type c14Acc struct {
	w    *c14World
	root []byte
}

func (a c14Acc) GetGenesisInfo() *types.Genesis                     { return nil }
func (a c14Acc) GetConsensusInfo() string                           { return "" }
func (a c14Acc) GetBestBlock() (*types.Block, error)                { return c14CDB{}.GetBestBlock() }
func (a c14Acc) GetBlock([]byte) (*types.Block, error)              { return nil, fmt.Errorf("c14: no block store") }
func (a c14Acc) GetHashByNo(types.BlockNo) ([]byte, error)          { return nil, fmt.Errorf("c14: no block store") }
func (a c14Acc) GetChainStats() string                              { return "" }
func (a c14Acc) GetSystemValue(types.SystemValue) (*big.Int, error) { return nil, fmt.Errorf("c14: not supported") }
func (a c14Acc) ChainID(types.BlockNo) *types.ChainID               { return nil }
func (a c14Acc) HardforkHeights() map[string]types.BlockNo          { return nil }
func (a c14Acc) GetEnterpriseConfig(key string) (*types.EnterpriseConfig, error) {
	ecs, err := statedb.GetEnterpriseAccountState(a.w.sdb.OpenNewStateDB(a.root))
	if err != nil {
		return nil, err
	}
	if strings.ToUpper(key) != string(dbkey.EnterpriseAdmins()) {
		return enterprise.GetConf(ecs, key)
	}
	return enterprise.GetAdmin(ecs)
}

// ---------------------------------------------------------------- bookkeeping of findings

type c14Finding struct {
	sig    map[string]interface{}
	rank   string // the smallest rank is kept as the representative input
	replay map[string]interface{}
	text   string
	count  int
	ops    map[string]int
}

type c14Findings struct{ m map[string]*c14Finding }

func (fs *c14Findings) add(sig map[string]interface{}, op, rank string, replay map[string]interface{}, text string) {
	b, _ := json.Marshal(sig)
	k := string(b)
	f := fs.m[k]
	if f == nil {
		f = &c14Finding{sig: sig, rank: rank, replay: replay, text: text, ops: map[string]int{}}
		fs.m[k] = f
	}
	f.count++
	if len(f.ops) < 40 {
		f.ops[op]++
	}
	if rank < f.rank {
		f.rank, f.replay, f.text = rank, replay, text
	}
}

// c14Rank orders the inputs that end in the same panic: ordinary worlds first, then fewer arguments, shorter description
func c14Rank(c *c14Case, variant int) string {
	special := 0
	if strings.HasPrefix(c.W, "low") {
		special = 1
	}
	return fmt.Sprintf("%d|%02d|%03d|%s|%02d", special, len(c.Ar), len(c.key()), c.key(), variant)
}

func c14Replay(w *c14World, c *c14Case, variant int, b *c14Built, o *c14Outcome, extra map[string]interface{}) map[string]interface{} {
	r := map[string]interface{}{"world": w.spec, "case": c, "variant": variant, "seed": verifkit.Seed(), "payload": b.descr,
		"tx_protobuf_hex": c14Hex(b.wire), "outcome": map[string]string{"types": o.types, "pool": o.pool, "exec_producer": o.exec, "exec_validator": o.execV}}
	if o.panic != nil {
		r["panic"] = o.panic.val
		r["panic_at"] = o.panic.where
		r["stack"] = o.panic.frames
	}
	for k, v := range extra {
		r[k] = v
	}
	return r
}

func c14Hex(b []byte) string {
	if len(b) > 4096 {
		return hex.EncodeToString(b[:4096]) + fmt.Sprintf("...(%d bytes)", len(b))
	}
	return hex.EncodeToString(b)
}

// the signature of a panic: where (layer, innermost function of the node's code), what kind, and for which call
func c14Sig(o *c14Outcome) map[string]interface{} {
	return map[string]interface{}{"kind": "panic", "layer": o.panicAt, "site": o.panic.site, "panic": o.panic.class, "op": o.op}
}

var c14KnownOps = map[string]bool{types.NameCreate: true, types.NameUpdate: true, types.SetContractOwner: true,
	enterprise.AppendAdmin: true, enterprise.RemoveAdmin: true, enterprise.SetConf: true, enterprise.AppendConf: true,
	enterprise.RemoveConf: true, enterprise.EnableConf: true, enterprise.ChangeCluster: true}

// c14CanonOp names the call the way the code dispatches it: aergo.system maps every unknown name to v1voteBP
// (types.GetOpSysTx); the other governance accounts match the name exactly.
func c14CanonOp(rcpt, name string, unparsable bool) string {
	if unparsable {
		return "unparsable"
	}
	if rcpt == types.AergoSystem {
		return types.GetOpSysTx(name).Cmd()
	}
	if c14KnownOps[name] {
		return name
	}
	return "other"
}

type c14Drift struct {
	Count  int    `json:"count"`
	Sample string `json:"sample"`
}

// ---------------------------------------------------------------- the test

// c14Partial is what one worker process reports back.
type c14Partial struct {
	Keys     []string             `json:"keys"`  // one per evaluated (case, variant)
	Extra    int                  `json:"extra"` // further evaluations (probes, random transactions)
	Samples  []interface{}        `json:"samples"`
	Notes    []string             `json:"notes"`
	Finds    []*c14FindingJ       `json:"finds"`
	Outcomes map[string]int       `json:"outcomes"`
	Agree    map[string]int       `json:"agree"`
	Drift    map[string]*c14Drift `json:"drift"`
	Slowest  int64                `json:"slowest_ns"`
	SlowCase string               `json:"slow_case"`
	Setup    map[string][]string  `json:"setup"`
}

type c14FindingJ struct {
	Sig    map[string]interface{} `json:"sig"`
	Rank   string                 `json:"rank"`
	Replay map[string]interface{} `json:"replay"`
	Text   string                 `json:"text"`
	Count  int                    `json:"count"`
	Ops    map[string]int         `json:"ops"`
}

const c14Shards = 12 // fixed, so that the result does not depend on the number of cores

// TestVerifAdmission: contract/system, types and chain keep their configuration and caches in package variables,
// so independent cases cannot share a process while they execute; the test re-runs its own binary as c14Shards
// worker processes (case index modulo c14Shards) and merges their reports.
func TestVerifAdmission(t *testing.T) {
	if !verifkit.Enabled() {
		t.Skip("run through bin/vcheck")
	}
	zerolog.SetGlobalLevel(zerolog.FatalLevel)
	var in c14Input
	if err := verifkit.ReadInput(&in); err != nil {
		t.Fatal(err)
	}
	if in.Variants < 1 {
		in.Variants = 1
	}
	if sh := os.Getenv("VERIF_C14_SHARD"); sh != "" {
		var i int
		fmt.Sscanf(sh, "%d", &i)
		debug.SetGCPercent(400)
		part := c14Worker(t, &in, i)
		b, err := json.Marshal(part)
		if err != nil {
			t.Fatal(err)
		}
		if err := os.WriteFile(os.Getenv("VERIF_C14_PART"), b, 0o644); err != nil {
			t.Fatal(err)
		}
		return
	}
	res := verifkit.NewResult()
	defer func() {
		if err := res.Write(); err != nil {
			t.Fatal(err)
		}
	}()
	dir, err := os.MkdirTemp(filepath.Dir(os.Getenv("VERIF_OUT")), "c14parts")
	if err != nil {
		t.Fatal(err)
	}
	defer os.RemoveAll(dir)
	self, err := os.Executable()
	if err != nil {
		t.Fatal(err)
	}
	parts := make([]*c14Partial, c14Shards)
	errs := make([]error, c14Shards)
	sem := make(chan struct{}, runtime.NumCPU())
	var wg sync.WaitGroup
	for i := 0; i < c14Shards; i++ {
		wg.Add(1)
		go func(i int) {
			defer wg.Done()
			sem <- struct{}{}
			defer func() { <-sem }()
			pf := filepath.Join(dir, fmt.Sprintf("part%d.json", i))
			cmd := exec.Command(self, "-test.run", "^TestVerifAdmission$", "-test.timeout", "3000s", "-test.count", "1")
			cmd.Env = append(os.Environ(), fmt.Sprintf("VERIF_C14_SHARD=%d", i), "VERIF_C14_PART="+pf)
			cmd.Dir = dir
			out, err := cmd.CombinedOutput()
			if err != nil {
				errs[i] = fmt.Errorf("worker %d: %v\n%s", i, err, string(out[max(0, len(out)-3000):]))
				return
			}
			b, err := os.ReadFile(pf)
			if err != nil {
				errs[i] = fmt.Errorf("worker %d: %v\n%s", i, err, string(out[max(0, len(out)-3000):]))
				return
			}
			parts[i] = &c14Partial{}
			errs[i] = json.Unmarshal(b, parts[i])
		}(i)
	}
	wg.Wait()
	for _, e := range errs {
		if e != nil {
			t.Fatal(e)
		}
	}
	// ---- merge
	finds := map[string]*c14FindingJ{}
	outcomes, agree, drift := map[string]int{}, map[string]int{}, map[string]*c14Drift{}
	var slowest int64
	slowCase := ""
	for _, p := range parts {
		for _, k := range p.Keys {
			res.Count(k)
		}
		for i := 0; i < p.Extra; i++ {
			res.Count("")
		}
		for _, s := range p.Samples {
			res.Sample(s)
		}
		for _, n := range p.Notes {
			res.Note("%s", n)
		}
		for k, v := range p.Outcomes {
			outcomes[k] += v
		}
		for k, v := range p.Agree {
			agree[k] += v
		}
		for k, v := range p.Drift {
			if d := drift[k]; d == nil {
				drift[k] = v
			} else {
				d.Count += v.Count
				if v.Sample < d.Sample {
					d.Sample = v.Sample
				}
			}
		}
		if p.Slowest > slowest {
			slowest, slowCase = p.Slowest, p.SlowCase
		}
		for k, v := range p.Setup {
			res.Extra["setup/"+k] = v
		}
		for _, f := range p.Finds {
			b, _ := json.Marshal(f.Sig)
			k := string(b)
			g := finds[k]
			if g == nil {
				finds[k] = f
				continue
			}
			g.Count += f.Count
			for o, n := range f.Ops {
				g.Ops[o] += n
			}
			if f.Rank < g.Rank {
				g.Rank, g.Replay, g.Text = f.Rank, f.Replay, f.Text
			}
		}
	}
	keys := make([]string, 0, len(finds))
	for k := range finds {
		keys = append(keys, k)
	}
	sort.Strings(keys)
	for _, k := range keys {
		f := finds[k]
		f.Replay["inputs_with_this_signature"] = f.Count
		ops := make([]string, 0, len(f.Ops))
		for o := range f.Ops {
			ops = append(ops, o)
		}
		sort.Slice(ops, func(i, j int) bool {
			return len(ops[i]) < len(ops[j]) || (len(ops[i]) == len(ops[j]) && ops[i] < ops[j])
		})
		if len(ops) > 12 {
			ops = ops[:12]
		}
		f.Replay["other_inputs"] = ops
		res.Violate(f.Sig, f.Replay, "%s\n (%d inputs explored in this run end in this panic; shortest: %s)", f.Text, f.Count, strings.Join(ops, " | "))
	}
	res.Extra["outcomes"] = outcomes
	res.Extra["spec_vs_code"] = agree
	res.Extra["drift"] = drift
	res.Extra["slowest_layer_call"] = fmt.Sprintf("%v (%s)", time.Duration(slowest), slowCase)
	res.Note("spec outcome vs code: %v", agree)
	res.Note("slowest single layer call: %v (%s)", time.Duration(slowest), slowCase)
}

// c14Worker runs the cases whose index is congruent to shard modulo c14Shards, and its share of the random driver.
func c14Worker(t *testing.T, in *c14Input, shard int) *c14Partial {
	part := &c14Partial{Setup: map[string][]string{}}
	finds := &c14Findings{m: map[string]*c14Finding{}}
	agree := map[string]int{}
	drift := map[string]*c14Drift{} // layer|type|recipient|call|spec>code -> count, one sample
	outcomes := map[string]int{}
	var slowest time.Duration
	slowestCase := ""
	hub := c14StartHub()
	defer hub.Stop()

	byWorld := map[string][]int{}
	for i := range in.Cases {
		byWorld[in.Cases[i].W] = append(byWorld[in.Cases[i].W], i)
	}
	for _, ws := range in.Worlds {
		idx := byWorld[ws.Name]
		if len(idx) == 0 && in.Fuzz == 0 {
			continue
		}
		w, err := c14NewWorld(ws)
		if err != nil {
			t.Fatalf("world %s: %v", ws.Name, err)
		}
		for _, l := range w.setup {
			if strings.Contains(l, "PANIC") {
				part.Notes = append(part.Notes, fmt.Sprintf("world %s set-up: %s", ws.Name, l))
			}
		}
		part.Setup[ws.Name] = w.setup
		w.resetGlobals(w.root)
		c14Chain.set(w, w.root)
		newPool := func(root []byte, no uint64) *MemPool {
			mp := w.newPool(root, no)
			mp.SetHub(hub)
			return mp
		}
		mp := newPool(w.root, c14BestNo)
		nonce := map[string]uint64{}
		for n, a := range w.accts {
			st, err := mp.getAccountState(a.addr)
			if err != nil {
				t.Fatal(err)
			}
			nonce[n] = st.GetNonce()
		}
		for _, ci := range idx {
			if ci%c14Shards != shard {
				continue
			}
			c := &in.Cases[ci]
			for v := 0; v < in.Variants; v++ {
				rng := verifkit.Rng(int64(ci)*131 + int64(v))
				b, err := c14Build(w, c, nonce[c.S], rng)
				if err != nil {
					t.Fatalf("case %d (%s): %v", ci, c.key(), err)
				}
				o := c14Run(w, mp, w.root, c14BestNo, b.wire, len(in.Probes) > 0, true)
				part.Keys = append(part.Keys, c.key())
				if v == 0 && ci%997 == 0 {
					part.Samples = append(part.Samples, map[string]interface{}{"case": c, "payload": b.descr, "types": o.types, "pool": o.pool, "exec": o.exec})
				}
				outcomes[o.types+"/"+o.pool+"/"+o.exec]++
				if o.slow > slowest {
					slowest, slowestCase = o.slow, c.key()
				}
				if o.slow > 300*time.Second { // a single layer call: normally micro- to milliseconds
					finds.add(map[string]interface{}{"kind": "slow", "layer": o.layer, "op": c.Op}, c.Op, c14Rank(c, v), c14Replay(w, c, v, b, &o, nil),
						fmt.Sprintf("layer %s took %v for %s", o.layer, o.slow, c.key()))
				}
				if o.panic != nil {
					finds.add(c14Sig(&o), c.payloadDesc(), c14Rank(c, v), c14Replay(w, c, v, b, &o, nil),
						fmt.Sprintf("panic in layer %s at %s (%s): %s\n world %s, sender %s, type %s, recipient %s, payload %s\n stack: %s",
							o.panicAt, o.panic.site, o.panic.where, o.panic.val, w.spec.Name, c.S, c.Ty, c.Rc, b.descr, strings.Join(o.panic.frames, " <- ")))
					mp = newPool(w.root, c14BestNo) // do not trust a pool that panicked
				}
				if o.exec != "-" && o.execV != "-" && o.exec != "panic" && o.execV != "panic" && o.exec != o.execV {
					part.Notes = append(part.Notes, fmt.Sprintf("producer/validator outcome differs (%s vs %s) for %s", o.exec, o.execV, c.key()))
				}
				// specification outcome vs code (counted only)
				if len(c.Pred) == 3 {
					got := []string{o.types, o.pool, o.exec}
					for li, ln := range []string{"types", "pool", "exec"} {
						if got[li] == "-" || got[li] == "panic" || got[li] == "stub" || c.Pred[li] == "any" || c.Pred[li] == "-" {
							continue
						}
						if got[li] == c.Pred[li] {
							agree[ln+"/agree"]++
						} else {
							agree[ln+"/differ"]++
							k := fmt.Sprintf("%s|%s|%s|%s|%s|spec %s, code %s", ln, c.W, c.Ty, c.Rc, c.Op, c.Pred[li], got[li])
							d := drift[k]
							if d == nil {
								d = &c14Drift{Sample: fmt.Sprintf("%s (%s) payload %s", c.key(), o.errs[li], b.descr)}
								drift[k] = d
							}
							d.Count++
						}
					}
				}
				// L4: the state after a connected block: the node's readers, then a second transaction
				if o.newRoot != nil && o.votes {
					// first what the RUNNING node does next: a vote that took effect has changed the parameters the node
					// holds in memory (system.CommitParams); a plain transfer is admitted and executed with them.  (The readers
					// below reload the parameters from the state, as a restarted node does.)
					for pi := range in.Probes {
						pc := in.Probes[pi]
						if !(pc.Ty == "TRANSFER" && pc.Rc == "user" && pc.Ac == "addr") {
							continue
						}
						c14Chain.set(w, o.newRoot)
						mp2 := newPool(o.newRoot, c14BestNo+1)
						pc.W, pc.S = c.W, "rich" // an account with funds (the stakers of some worlds have staked all they own)
						n0 := nonce["rich"]
						if c.S == "rich" {
							n0++
						}
						prng := verifkit.Rng(int64(ci)*131 + int64(v) + int64(pi+1)*7919 + 1)
						pb, err := c14Build(w, &pc, n0, prng)
						if err != nil {
							t.Fatalf("probe %d: %v", pi, err)
						}
						po := c14Run(w, mp2, o.newRoot, c14BestNo+1, pb.wire, false, false)
						part.Extra++
						outcomes["feeprobe:"+po.types+"/"+po.pool+"/"+po.exec]++
						if po.panic != nil {
							sig := c14Sig(&po)
							sig["step"] = "second"
							sig["after"] = o.op
							finds.add(sig, c.payloadDesc()+" ; "+pc.payloadDesc(), c14Rank(c, v)+"/"+pc.shapeKey(),
								c14Replay(w, &pc, v, pb, &po, map[string]interface{}{"first_case": c, "first_payload": b.descr, "first_tx_protobuf_hex": c14Hex(b.wire),
									"gas_price_in_memory": system.GetGasPrice().String()}),
								fmt.Sprintf("after the vote took effect a plain transfer panics in layer %s at %s (%s): %s\n first (admitted, executed, block connected): sender %s payload %s\n second: %s of 1 aer with gas limit 0 from an account with funds; gas price held by the node: %s\n world %s\n stack: %s",
									po.panicAt, po.panic.site, po.panic.where, po.panic.val, c.S, b.descr, pc.Ty, system.GetGasPrice(), w.spec.Name, strings.Join(po.panic.frames, " <- ")))
						}
					}
				}
				if o.newRoot != nil {
					if where, p := c14Readers(w, o.newRoot, w.accts[c.S].addr, o.rcpt); p != nil {
						o2 := o
						o2.panic, o2.panicAt = p, "post"
						sig := map[string]interface{}{"kind": "panic", "layer": "post", "site": p.site, "panic": p.class, "reader": where, "op": o.op}
						finds.add(sig, c.payloadDesc(), c14Rank(c, v), c14Replay(w, c, v, b, &o2, map[string]interface{}{"reader": where}),
							fmt.Sprintf("after the admitted transaction was executed and its block connected, %s panics at %s (%s): %s\n world %s, sender %s, payload %s\n stack: %s",
								where, p.site, p.where, p.val, w.spec.Name, c.S, b.descr, strings.Join(p.frames, " <- ")))
					} else {
						// (the readers left the caches of contract/system loaded from the new state)
						c14Chain.set(w, o.newRoot)
						mp2 := newPool(o.newRoot, c14BestNo+1)
						for pi := range in.Probes {
							pc := in.Probes[pi]
							probeRc := c14RcptName(pc.Rc)
							if pc.Rc == "nameA" || pc.Ac == "nameA" {
								probeRc = types.AergoName // transfers through the name service
							} else if pc.Ty == "TRANSFER" && pc.Rc == "user" {
								if !o.votes {
									continue
								}
								probeRc = types.AergoSystem // a plain transfer after a vote: its fee is computed from the voted parameters
							}
							if probeRc != o.rcpt {
								continue // a governance contract reads only its own storage
							}
							whos := []string{c.S}
							if c.S != "rich" && o.rcpt != types.AergoSystem { // votes and stakes are kept per account
								whos = append(whos, "rich")
							}
							// next block, and (system: waiting periods) more than a day of blocks later
							heights := []uint64{c14BestNo + 1}
							if o.votes {
								heights = append(heights, c14BestNo+1+2*system.StakingDelay)
							}
							for _, who := range whos {
								for hi, best := range heights {
									if hi > 0 || mp2.bestBlockInfo.No != best {
										mp2 = newPool(o.newRoot, best)
									}
									pc.W, pc.S = c.W, who
									n0 := nonce[who]
									if who == c.S {
										n0++
									}
									prng := verifkit.Rng(int64(ci)*131 + int64(v) + int64(pi+1)*7919)
									pb, err := c14Build(w, &pc, n0, prng)
									if err != nil {
										t.Fatalf("probe %d: %v", pi, err)
									}
									po := c14Run(w, mp2, o.newRoot, best, pb.wire, false, false)
									part.Extra++
									outcomes["probe:"+po.types+"/"+po.pool+"/"+po.exec]++
									if po.panic != nil {
										sig := c14Sig(&po)
										sig["step"] = "second"
										sig["after"] = o.op
										finds.add(sig, c.payloadDesc()+" ; "+pc.payloadDesc(), c14Rank(c, v)+"/"+pc.shapeKey(),
											c14Replay(w, &pc, v, pb, &po, map[string]interface{}{"first_case": c, "first_payload": b.descr, "first_tx_protobuf_hex": c14Hex(b.wire)}),
											fmt.Sprintf("second transaction panics in layer %s at %s (%s): %s\n first (admitted, executed, block connected): sender %s payload %s\n second: sender %s recipient %s payload %s\n world %s\n stack: %s",
												po.panicAt, po.panic.site, po.panic.where, po.panic.val, c.S, b.descr, who, pc.Rc, pb.descr, w.spec.Name, strings.Join(po.panic.frames, " <- ")))
										mp2 = newPool(o.newRoot, best)
									}
								}
							}
						}
					}
					system.CommitParams(false)
					if o.rcpt == types.AergoSystem {
						w.resetGlobals(w.root) // probes may have voted
					}
					c14Chain.set(w, w.root)
				}
			}
		}
		// ---- sampled extension: byte-level random transactions (outside the abstract grammar)
		if in.Fuzz > 0 {
			c14Fuzz(w, mp, in.Fuzz/c14Shards, shard, nonce, finds, part, outcomes)
		}
		os.RemoveAll(w.dir)
	}

	for _, f := range finds.m {
		part.Finds = append(part.Finds, &c14FindingJ{Sig: f.sig, Rank: f.rank, Replay: f.replay, Text: f.text, Count: f.count, Ops: f.ops})
	}
	part.Outcomes, part.Agree, part.Drift = outcomes, agree, drift
	part.Slowest, part.SlowCase = int64(slowest), slowestCase
	return part
}

func c14RcptName(class string) string {
	switch class {
	case "system":
		return types.AergoSystem
	case "name":
		return types.AergoName
	case "enterprise":
		return types.AergoEnterprise
	}
	return ""
}

// ---------------------------------------------------------------- the chain service as seen from the pool
// mempool.validateTx asks the chain service whether a contract pays the fee (message.CheckFeeDelegation).
// The stand-in answers the way chain.ChainWorker does, on the state the pool currently sits on.

type c14ChainState struct {
	mu   sync.Mutex
	w    *c14World
	root []byte
}

func (s *c14ChainState) set(w *c14World, root []byte) {
	s.mu.Lock()
	s.w, s.root = w, root
	s.mu.Unlock()
}

var c14Chain = &c14ChainState{}

type c14ChainSvc struct {
	*component.BaseComponent
}

func (c *c14ChainSvc) BeforeStart()                        {}
func (c *c14ChainSvc) AfterStart()                         {}
func (c *c14ChainSvc) BeforeStop()                         {}
func (c *c14ChainSvc) Statistics() *map[string]interface{} { return nil }
func (c *c14ChainSvc) Receive(context actor.Context) {
	switch msg := context.Message().(type) {
	case *message.CheckFeeDelegation:
		c14Chain.mu.Lock()
		w, root := c14Chain.w, c14Chain.root
		c14Chain.mu.Unlock()
		sdb := w.sdb.OpenNewStateDB(root)
		ctrState, err := statedb.OpenContractStateAccount(msg.Contract, sdb)
		if err != nil {
			context.Respond(message.CheckFeeDelegationRsp{Err: err})
			return
		}
		bs := state.NewBlockState(sdb)
		err = contract.CheckFeeDelegation(msg.Contract, bs, nil, c14CDB{}, ctrState, msg.Payload, msg.TxHash, msg.Sender, msg.Amount)
		context.Respond(message.CheckFeeDelegationRsp{Err: err})
	}
}

func c14StartHub() *component.ComponentHub {
	hub := component.NewComponentHub()
	svc := &c14ChainSvc{}
	svc.BaseComponent = component.NewBaseComponent(message.ChainSvc, svc, log.NewLogger("c14chain"))
	hub.Register(svc)
	hub.Start()
	return hub
}

// c14Fuzz: random field bytes and mutated governance payloads; every delivered transaction is signed and hashed
// correctly half of the time so that the deeper layers are reached.
func c14Fuzz(w *c14World, mp *MemPool, n, shard int, nonce map[string]uint64, finds *c14Findings, part *c14Partial, outcomes map[string]int) {
	rng := verifkit.Rng(int64(len(w.spec.Name))*7 + int64(w.spec.Fork) + int64(shard)*104729)
	seeds := []string{
		`{"Name":"v1stake"}`, `{"Name":"v1unstake"}`, `{"Name":"v1voteBP","Args":["` + w.bps[0] + `"]}`, `{"Name":"v1voteDAO","Args":["BPCOUNT","3"]}`,
		`{"Name":"v1createName","Args":["abcdefghijkl"]}`, `{"Name":"v1updateName","Args":["` + c14NameOwned + `","` + types.EncodeAddress(w.accts["rich"].addr) + `"]}`,
		`{"Name":"v1setOwner","Args":["` + types.EncodeAddress(w.accts["rich"].addr) + `"]}`,
		`{"Name":"appendAdmin","Args":["` + types.EncodeAddress(w.accts["rich"].addr) + `"]}`, `{"Name":"setConf","Args":["p2pwhite","{\"cidr\":\"1.2.3.0/24\"}"]}`,
		`{"Name":"enableConf","Args":["accountwhite",true]}`, `{"Name":"changeCluster","Args":[{"command":"remove","id":"1"}]}`,
		`{"Name":"appendConf","Args":["rpcpermissions","YWJj:RW"]}`,
	}
	tokens := []string{"null", "1", "true", `""`, "{}", "[]", `"BPCOUNT"`, "1e400", "-1", `"0"`, `{"command":"add"}`, `"aergo.system"`, `"\\"`}
	senders := []string{"rich", "stakedOld", "votedOld", "nameOwner", "admin", "fresh"}
	rcpts := [][]byte{[]byte(types.AergoSystem), []byte(types.AergoName), []byte(types.AergoEnterprise), w.accts["rich"].addr, nil}
	for i := 0; i < n; i++ {
		s := senders[rng.Intn(len(senders))]
		a := w.accts[s]
		body := &types.TxBody{Account: a.addr, Nonce: nonce[s] + 1, ChainIdHash: common.Hasher(w.chainID), Type: types.TxType_GOVERNANCE,
			Recipient: rcpts[rng.Intn(3)]}
		p := []byte(seeds[rng.Intn(len(seeds))])
		for k := rng.Intn(4); k > 0; k-- {
			switch rng.Intn(6) {
			case 0: // replace a JSON value by a token
				parts := strings.Split(string(p), ",")
				parts[rng.Intn(len(parts))] = tokens[rng.Intn(len(tokens))]
				p = []byte(strings.Join(parts, ","))
			case 1: // flip a byte
				p[rng.Intn(len(p))] = byte(rng.Intn(256))
			case 2: // delete a span
				i0 := rng.Intn(len(p))
				i1 := i0 + rng.Intn(len(p)-i0)
				p = append(append([]byte{}, p[:i0]...), p[i1:]...)
			case 3: // duplicate a span
				i0 := rng.Intn(len(p))
				i1 := i0 + rng.Intn(len(p)-i0)
				p = append(append(append([]byte{}, p[:i1]...), p[i0:i1]...), p[i1:]...)
			case 4: // argument list from tokens
				m := rng.Intn(4)
				as := make([]string, m)
				for q := range as {
					as[q] = tokens[rng.Intn(len(tokens))]
				}
				if j := bytes.Index(p, []byte(`"Args":`)); j >= 0 {
					p = append(append([]byte{}, p[:j]...), []byte(`"Args":[`+strings.Join(as, ",")+`]}`)...)
				} else {
					p = append(bytes.TrimSuffix(p, []byte("}")), []byte(`,"Args":[`+strings.Join(as, ",")+`]}`)...)
				}
			case 5:
				body.Recipient = rcpts[rng.Intn(len(rcpts))]
			}
			if len(p) == 0 {
				p = []byte("{")
			}
		}
		body.Payload = p
		switch rng.Intn(8) {
		case 0:
			body.Type = types.TxType(rng.Intn(9))
		case 1:
			body.Amount = make([]byte, rng.Intn(40))
			rng.Read(body.Amount)
		case 2:
			body.Amount = system.GetStakingMinimum().Bytes()
		case 3:
			body.Amount = system.GetNamePrice().Bytes()
		}
		tx := &types.Tx{Body: body}
		c14Sign(tx, a.priv)
		wire, err := proto.Encode(tx)
		if err != nil {
			continue
		}
		o := c14Run(w, mp, w.root, c14BestNo, wire, false, i%4 == 0)
		part.Extra++
		outcomes["fuzz:"+o.types+"/"+o.pool+"/"+o.exec]++
		if o.panic != nil {
			c := &c14Case{W: w.spec.Name, S: s, Ty: "fuzz", Pk: "fuzz"}
			b := &c14Built{wire: wire, descr: string(p)}
			finds.add(c14Sig(&o), "fuzz:"+string(p), fmt.Sprintf("2|99|%06d|%s", len(p), string(p)), c14Replay(w, c, 0, b, &o, map[string]interface{}{"driver": "fuzz"}),
				fmt.Sprintf("panic in layer %s at %s (%s): %s\n world %s, sender %s, random payload %q\n stack: %s",
					o.panicAt, o.panic.site, o.panic.where, o.panic.val, w.spec.Name, s, string(p), strings.Join(o.panic.frames, " <- ")))
			hub := mp.Hub()
			mp = w.newPool(w.root, c14BestNo)
			mp.SetHub(hub)
		}
	}
}
