//go:build verif

package key

// Conformance harness for spec/commit/Commitments.tla (C19), transaction part: TLC's enumeration of
// (shape, mutated field) of a transaction body is replayed on Tx.CalculateTxHash (the identifier),
// CalculateHashWithoutSign (the signed digest) and on real signatures (SignTx / VerifyTx).

import (
	"bytes"
	"crypto/sha256"
	"encoding/hex"
	"fmt"
	"math"
	"math/rand"
	"reflect"
	"sort"
	"testing"

	"github.com/aergoio/aergo/v2/internal/verifkit"
	"github.com/aergoio/aergo/v2/types"
	"github.com/btcsuite/btcd/btcec/v2"
)

type c19TxCase struct {
	Kind  string `json:"kind"`
	Shape struct {
		P string `json:"p"`
	} `json:"shape"`
	Field     string   `json:"field"`
	Changed   []string `json:"changed"`
	Required  []string `json:"required"`
	Forbidden []string `json:"forbidden"`
}

type c19TxInput struct {
	Mutations []c19TxCase `json:"mutations"`
	Reps      int         `json:"reps"`
}

func c19Rnd(rng *rand.Rand, n int) []byte {
	b := make([]byte, n)
	rng.Read(b)
	return b
}

func c19Has(l []string, s string) bool {
	for _, x := range l {
		if x == s {
			return true
		}
	}
	return false
}

func c19Clone(b *types.TxBody) *types.TxBody {
	return &types.TxBody{Nonce: b.Nonce, Account: append([]byte(nil), b.Account...), Recipient: append([]byte(nil), b.Recipient...),
		Amount: append([]byte(nil), b.Amount...), Payload: append([]byte(nil), b.Payload...), GasLimit: b.GasLimit,
		GasPrice: append([]byte(nil), b.GasPrice...), Type: b.Type, ChainIdHash: append([]byte(nil), b.ChainIdHash...),
		Sign: append([]byte(nil), b.Sign...)}
}

func c19Styles(v reflect.Value) []string {
	switch v.Kind() {
	case reflect.Slice:
		if v.Len() == 0 {
			return []string{"setZeroByte", "setRandom"}
		}
		return []string{"flipFirst", "flipLast", "flipAny", "appendZero", "appendRandom", "prependZero", "truncate", "clear"}
	case reflect.Uint64, reflect.Int32:
		return []string{"inc", "highBit", "zeroOrMax"}
	}
	return nil
}

func c19Mutate(v reflect.Value, style string, rng *rand.Rand) {
	switch v.Kind() {
	case reflect.Slice:
		c := append([]byte(nil), v.Bytes()...)
		switch style {
		case "flipFirst":
			c[0] ^= 0x80
		case "flipLast":
			c[len(c)-1] ^= 0x01
		case "flipAny":
			c[rng.Intn(len(c))] ^= byte(1 << uint(rng.Intn(8)))
		case "appendZero":
			c = append(c, 0)
		case "appendRandom":
			c = append(c, byte(1+rng.Intn(255)))
		case "prependZero":
			c = append([]byte{0}, c...)
		case "truncate":
			c = c[:len(c)-1]
		case "clear":
			c = nil
		case "setZeroByte":
			c = []byte{0}
		case "setRandom":
			c = c19Rnd(rng, 1+rng.Intn(40))
		}
		v.SetBytes(c)
	case reflect.Uint64:
		x := v.Uint()
		switch style {
		case "inc":
			x++
		case "highBit":
			x ^= 1 << 63
		default:
			if x == 0 {
				x = math.MaxUint64
			} else {
				x = 0
			}
		}
		v.SetUint(x)
	case reflect.Int32:
		x := v.Int()
		switch style {
		case "inc":
			x++
		case "highBit":
			x ^= -1 << 31
		default:
			if x == 0 {
				x = math.MaxInt32
			} else {
				x = 0
			}
		}
		v.SetInt(x)
	}
}

func c19Digests(b *types.TxBody) map[string]string {
	tx := &types.Tx{Body: b}
	return map[string]string{"txHash": hex.EncodeToString(tx.CalculateTxHash()), "txSignDigest": hex.EncodeToString(CalculateHashWithoutSign(b))}
}

func c19Verifies(b *types.TxBody) bool {
	defer func() { recover() }()
	return VerifyTx(&types.Tx{Body: b}) == nil
}

func TestVerifTxSign(t *testing.T) {
	if !verifkit.Enabled() {
		t.Skip("run through bin/vcheck")
	}
	var in c19TxInput
	if err := verifkit.ReadInput(&in); err != nil {
		t.Fatal(err)
	}
	res := verifkit.NewResult()
	defer func() {
		if err := res.Write(); err != nil {
			t.Fatal(err)
		}
		if res.NumViolations() > 0 {
			t.Fail()
		}
	}()
	if in.Reps <= 0 {
		in.Reps = 1
	}
	diverge := map[string]int{}
	sigCount := map[string]int{}
	violate := func(sig map[string]interface{}, replay interface{}, format string, a ...interface{}) {
		k := fmt.Sprint(sig)
		sigCount[k]++
		if sigCount[k] <= 2 {
			res.Violate(sig, map[string]interface{}{"violated": sig, "input": replay}, format, a...)
		}
	}
	for ci, m := range in.Mutations {
		for rep := 0; rep < in.Reps; rep++ {
			rng := verifkit.Rng(int64(ci)*977 + int64(rep))
			seed := sha256.Sum256([]byte(fmt.Sprintf("c19-tx-key-%d-%d-%d", verifkit.Seed(), ci, rep)))
			priv, pub := btcec.PrivKeyFromBytes(seed[:])
			base := &types.TxBody{}
			signed := false
			if m.Shape.P == "full" {
				base = &types.TxBody{Nonce: 1 + uint64(rng.Int63()), Account: pub.SerializeCompressed(), Recipient: c19Rnd(rng, 33),
					Amount: c19Rnd(rng, 1+rng.Intn(12)), Payload: c19Rnd(rng, 1+rng.Intn(80)), GasLimit: 1 + uint64(rng.Int63()),
					GasPrice: c19Rnd(rng, 1+rng.Intn(8)), Type: types.TxType_TRANSFER, ChainIdHash: c19Rnd(rng, 32)}
				tx := &types.Tx{Body: base}
				if err := SignTx(tx, priv); err != nil {
					t.Fatal(err)
				}
				if !bytes.Equal(tx.Hash, tx.CalculateTxHash()) {
					violate(map[string]interface{}{"kind": "signtx-hash-stale"}, m, "SignTx leaves a hash that is not the identifier of the signed transaction")
				}
				signed = c19Verifies(base)
				if !signed {
					violate(map[string]interface{}{"kind": "honest-signature-rejected", "object": "tx"}, m, "a freshly signed transaction does not verify")
				}
			}
			bd := c19Digests(base)
			for _, st := range c19Styles(reflect.ValueOf(base).Elem().FieldByName(m.Field)) {
				mb := c19Clone(base)
				c19Mutate(reflect.ValueOf(mb).Elem().FieldByName(m.Field), st, rng)
				md := c19Digests(mb)
				for _, d := range []string{"txHash", "txSignDigest"} {
					before := bd[d]
					changed := before != md[d]
					res.Count(fmt.Sprintf("txmut|%s|%s|%s|%s", m.Shape.P, m.Field, st, d))
					if c19Has(m.Required, d) && !changed {
						violate(map[string]interface{}{"kind": "field-not-committed", "object": "tx", "digest": d, "field": m.Field},
							map[string]interface{}{"case": m, "style": st, "base": base, "mutant": mb},
							"tx: changing only %s (%s, shape %s) leaves %s unchanged", m.Field, st, m.Shape.P, d)
					}
					if c19Has(m.Forbidden, d) && changed {
						violate(map[string]interface{}{"kind": "sign-digest-covers-signature", "object": "tx", "digest": d},
							map[string]interface{}{"case": m, "style": st, "base": base, "mutant": mb},
							"tx: the signing digest depends on the signature field (%s)", st)
					}
					if c19Has(m.Changed, d) != changed {
						diverge[fmt.Sprintf("digest=%s field=%s model-changed=%v real-changed=%v", d, m.Field, c19Has(m.Changed, d), changed)]++
					}
				}
				// the signature of the sender covers every field but itself: the old signature must not verify the mutant
				if signed && m.Field != "Sign" {
					res.Count(fmt.Sprintf("txsig|%s|%s", m.Field, st))
					if c19Verifies(mb) {
						violate(map[string]interface{}{"kind": "signature-survives-mutation", "object": "tx", "field": m.Field},
							map[string]interface{}{"case": m, "style": st, "base": base, "mutant": mb},
							"tx field %s changed (%s) and the sender's signature still verifies", m.Field, st)
					}
				}
				res.Sample(map[string]interface{}{"case": m, "style": st, "before": bd, "after": md})
			}
		}
	}
	keys := make([]string, 0, len(diverge))
	for k := range diverge {
		keys = append(keys, k)
	}
	sort.Strings(keys)
	for _, k := range keys {
		res.Note("DIVERGENCE module=Commitments %s (%d cases): the code no longer does what the model transcribes", k, diverge[k])
	}
}
