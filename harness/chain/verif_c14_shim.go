//go:build verif

package chain

// Shim for the C14 admission-totality harness (harness/mempool/verif_admission_test.go).
//
// ChainService derives the package-level network parameters from the genesis block in
// initChainParams (chain/common.go).  The harness drives mempool.validateTx and the block
// executor without a ChainService, so it sets the same two variables directly.
func VerifC14SetNet(public bool, consensus string) {
	pubNet = public
	consensusName = consensus
}
