//go:build verif

package chain

// Shim for /verif check C17 (block sync): lets the syncer harness (package syncer) drive a real
// ChainService -- anchors (chainanchor.go:getAnchorsNew), the remote side's ancestor search
// (chainhandle.go:findAncestor) and AddBlock -- without an actor system.

import (
	"sync"

	"github.com/aergoio/aergo/v2/config"
	"github.com/aergoio/aergo/v2/consensus"
	"github.com/aergoio/aergo/v2/state"
	"github.com/aergoio/aergo/v2/types"
)

type verifC17Consensus struct{}

func (*verifC17Consensus) SetStateDB(sdb *state.ChainStateDB)                       {}
func (*verifC17Consensus) IsTransactionValid(tx *types.Tx) bool                      { return true }
func (*verifC17Consensus) VerifyTimestamp(block *types.Block) bool                   { return true }
func (*verifC17Consensus) VerifySign(block *types.Block) error                       { return nil }
func (*verifC17Consensus) IsBlockValid(block *types.Block, best *types.Block) error  { return nil }
func (*verifC17Consensus) Update(block *types.Block)                                 {}
func (*verifC17Consensus) Save(tx consensus.TxWriter) error                          { return nil }
func (*verifC17Consensus) NeedReorganization(rootNo types.BlockNo) bool              { return true }
func (*verifC17Consensus) Info() string                                              { return "" }
func (*verifC17Consensus) GetType() consensus.ConsensusType                          { return consensus.ConsensusSBP }
func (*verifC17Consensus) NeedNotify() bool                                          { return true }
func (*verifC17Consensus) HasWAL() bool                                              { return false }
func (*verifC17Consensus) IsConnectedBlock(block *types.Block) bool                  { return false }
func (*verifC17Consensus) IsForkEnable() bool                                        { return true }
func (*verifC17Consensus) MakeConfChangeProposal(req *types.MembershipChange) (*consensus.ConfChangePropose, error) {
	return nil, consensus.ErrNotSupportedMethod
}

var verifC17Mu sync.Mutex

// VerifC17NewChain creates a chain service on an in-memory store holding the testnet genesis block.
func VerifC17NewChain() *ChainService {
	verifC17Mu.Lock()
	defer verifC17Mu.Unlock()
	serverCtx := config.NewServerContext("", "")
	cfg := serverCtx.GetDefaultConfig().(*config.Config)
	cfg.DbType = "memorydb"
	cfg.UseTestnet = true
	cs := NewChainService(cfg)
	cs.SetChainConsensus(&verifC17Consensus{})
	return cs
}

func (cs *ChainService) VerifC17Genesis() *types.Block {
	b, _ := cs.getBlockByNo(0)
	return b
}

func (cs *ChainService) VerifC17AddBlock(b *types.Block) error {
	verifC17Mu.Lock()
	defer verifC17Mu.Unlock()
	return cs.addBlock(b, nil, "verif-c17")
}

func (cs *ChainService) VerifC17Anchors() ([][]byte, types.BlockNo, error) {
	a, last, err := cs.getAnchorsNew()
	return [][]byte(a), last, err
}

func (cs *ChainService) VerifC17FindAncestor(hashes [][]byte) (*types.BlockInfo, error) {
	return cs.findAncestor(hashes)
}
