//go:build verif

package chain

// Read-mostly access to ChainService internals for the /verif conformance harnesses
// (package internal/verifnode).  Added through the go -overlay; never part of aergo.

import (
	"github.com/aergoio/aergo-lib/db"
	"github.com/aergoio/aergo/v2/state"
	"github.com/aergoio/aergo/v2/types"
)

// VerifAddBlock is the critical section the ChainManager actor runs for message.AddBlock.
func (cs *ChainService) VerifAddBlock(b *types.Block, bs *state.BlockState, peer types.PeerID) error {
	return cs.addBlock(b, bs, peer)
}

func (cs *ChainService) VerifGetTx(h []byte) (*types.Tx, *types.TxIdx, error) { return cs.getTx(h) }
func (cs *ChainService) VerifGetReceipt(h []byte) (*types.Receipt, error)      { return cs.getReceipt(h) }
func (cs *ChainService) VerifGetReceipts(bh []byte) (*types.Receipts, error)   { return cs.getReceipts(bh) }
func (cs *ChainService) VerifGetBlock(h []byte) (*types.Block, error)          { return cs.getBlock(h) }
func (cs *ChainService) VerifGetBlockByNo(n types.BlockNo) (*types.Block, error) {
	return cs.getBlockByNo(n)
}
func (cs *ChainService) VerifChainStore() db.DB { return cs.cdb.store }
func (cs *ChainService) VerifStateStore() db.DB { return cs.sdb.GetStateDB().Store }
func (cs *ChainService) VerifOrphanCount() int  { return len(cs.op.cache) }
func (cs *ChainService) VerifIsErrCached(h []byte) bool {
	return cs.errBlocks.Contains(types.ToHashID(h))
}
func (cs *ChainService) VerifHasReorgMarker() bool {
	m, err := cs.cdb.getReorgMarker()
	return err == nil && m != nil
}
func (cs *ChainService) VerifVerifyBlock(b *types.Block) error { return cs.verifyBlock(b) }
func (cs *ChainService) VerifSetRecovered()                    { cs.setRecovered(true) }
func (cs *ChainService) VerifStopValidator()                   { cs.validator.Stop() }

// VerifExecuteTx runs the real executeTx against bs (used by tx-level conformance).
var VerifExecuteTx = executeTx

// VerifKill stops the chain service's actors but leaves the signature verifier alone (closing its channels
// while verifier goroutines of abandoned verifications are still pending panics the process).
func (cs *ChainService) VerifKill() {
	cs.chainManager.Stop()
	cs.chainWorker.Stop()
	cs.BaseComponent.VerifKill()
}

// VerifVerifierQueued reports how many signature-verification work items/results are queued.
func (cs *ChainService) VerifVerifierQueued() int {
	sv := cs.validator.signVerifier
	return len(sv.workCh) + len(sv.doneCh)
}
