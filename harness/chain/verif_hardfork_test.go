//go:build verif

package chain

// Conformance harness for spec/commit/Hardfork.tla (C19): every transition of the restart model is replayed on the real
// start-up check (ChainService.checkHardfork: HardforkConfig.CheckCompatibility + ChainDB.Hardfork/WriteHardfork) over a
// real ChainDB, for several concretisations of the abstract heights (up to 2^64-1); the version / fork predicates of the
// real HardforkConfig are compared on every probe height; a long random run (restarts with arbitrary configurations, real
// blocks appended with real stored receipts, receipts and versions read back after every restart) is recorded for TLC.

import (
	"bytes"
	"encoding/json"
	"fmt"
	"math/big"
	"math/rand"
	"os"
	"runtime"
	"sort"
	"sync"
	"testing"

	"github.com/aergoio/aergo-lib/db"
	"github.com/aergoio/aergo/v2/config"
	"github.com/aergoio/aergo/v2/internal/enc/proto"
	"github.com/aergoio/aergo/v2/internal/verifkit"
	"github.com/aergoio/aergo/v2/types"
)

type c19Trans struct {
	Act  string `json:"act"`
	Up   bool   `json:"up"`
	Cfg  []int  `json:"cfg"`
	Db   []int  `json:"db"` // nil: no record yet
	Best int    `json:"best"`
	C    []int  `json:"c"`
	Ok   bool   `json:"ok"`
	Db2  []int  `json:"db2"`
	No   int    `json:"no"`
	Ver  int32  `json:"ver"`
	Fmt  string `json:"fmt"`
}

type c19HfInput struct {
	Trans   []c19Trans `json:"trans"`
	Heights []int      `json:"heights"`
	Maps    [][]string `json:"maps"` // abstract height i -> real block number (decimal string)
	Runs    int        `json:"runs"`
	RunLen  int        `json:"run_len"`
}

func c19Cfg(abs []int, m []uint64) *config.HardforkConfig {
	return &config.HardforkConfig{V2: m[abs[0]], V3: m[abs[1]], V4: m[abs[2]], V5: m[abs[3]]}
}

func c19CfgList(c *config.HardforkConfig) []uint64 { return []uint64{c.V2, c.V3, c.V4, c.V5} }

func c19Sorted(c *config.HardforkConfig) bool { return c.V2 <= c.V3 && c.V3 <= c.V4 && c.V4 <= c.V5 }

func c19Forks(c *config.HardforkConfig, h uint64) []bool {
	return []bool{c.IsV2Fork(h), c.IsV3Fork(h), c.IsV4Fork(h), c.IsV5Fork(h)}
}

// a block at height no on top of nothing in particular (the chain database does not look at the parent)
func c19FakeBlock(no uint64, salt int) *types.Block {
	b := &types.Block{Header: &types.BlockHeader{BlockNo: no, Timestamp: int64(salt) + 1, PrevBlockHash: make([]byte, 32)}, Body: &types.BlockBody{}}
	b.BlockID()
	return b
}

// c19Open is a restart: a new ChainDB object over the same store, loading what the previous one left.
func c19Open(store db.DB) (*ChainDB, error) {
	cdb := NewChainDB()
	cdb.store = store
	if err := cdb.Init("", "", nil); err != nil {
		return nil, err
	}
	return cdb, nil
}

func c19Start(cdb *ChainDB, c *config.HardforkConfig) (*ChainService, error) {
	cc := *c
	cs := &ChainService{cfg: &config.Config{Hardfork: &cc}, Core: &Core{cdb: cdb}}
	return cs, cs.checkHardfork()
}

func c19DbRecord(cdb *ChainDB, c *config.HardforkConfig) []uint64 {
	d := cdb.Hardfork(*c)
	if len(d) == 0 {
		return nil
	}
	return []uint64{d["V2"], d["V3"], d["V4"], d["V5"]}
}

func c19Eq(a, b []uint64) bool {
	if len(a) != len(b) {
		return false
	}
	for i := range a {
		if a[i] != b[i] {
			return false
		}
	}
	return true
}

type c19Violator struct {
	mu    sync.Mutex
	res   *verifkit.Result
	count map[string]int
	div   map[string]int
}

func (v *c19Violator) violate(sig map[string]interface{}, replay interface{}, format string, a ...interface{}) {
	v.mu.Lock()
	k := fmt.Sprint(sig)
	v.count[k]++
	n := v.count[k]
	v.mu.Unlock()
	if n <= 2 {
		v.res.Violate(sig, map[string]interface{}{"violated": sig, "input": replay}, format, a...)
	}
}

func (v *c19Violator) diverge(k string) {
	v.mu.Lock()
	v.div[k]++
	v.mu.Unlock()
}

func TestVerifHardfork(t *testing.T) {
	if !verifkit.Enabled() {
		t.Skip("run through bin/vcheck")
	}
	var in c19HfInput
	if err := verifkit.ReadInput(&in); err != nil {
		t.Fatal(err)
	}
	res := verifkit.NewResult()
	defer func() {
		if err := res.Write(); err != nil {
			t.Fatal(err)
		}
		if res.NumViolations() > 0 {
			t.Fail()
		}
	}()
	Genesis = types.GetTestGenesis() // neither main net nor test net: the configured heights are used as they are
	vio := &c19Violator{res: res, count: map[string]int{}, div: map[string]int{}}
	var maps [][]uint64
	for _, m := range in.Maps {
		var mm []uint64
		for _, s := range m {
			x, ok := new(big.Int).SetString(s, 10)
			if !ok || !x.IsUint64() {
				t.Fatalf("bad height %q", s)
			}
			mm = append(mm, x.Uint64())
		}
		maps = append(maps, mm)
	}
	c19VersionTables(&in, maps, vio)
	c19ReplayStarts(&in, maps, vio)
	c19ReplayDerive(&in, maps, vio)
	c19GenesisRoundTrip(vio)
	if err := c19RandomRuns(&in, vio); err != nil {
		t.Fatal(err)
	}
	keys := make([]string, 0, len(vio.div))
	for k := range vio.div {
		keys = append(keys, k)
	}
	sort.Strings(keys)
	for _, k := range keys {
		res.Note("DIVERGENCE module=Hardfork %s (%d cases): the code no longer does what the model transcribes", k, vio.div[k])
	}
	res.Extra["divergences"] = len(vio.div)
}

// probe heights of a map: every mapped height and its neighbours
func c19Probes(m []uint64) []uint64 {
	set := map[uint64]bool{0: true, ^uint64(0): true}
	for _, h := range m {
		set[h] = true
		if h > 0 {
			set[h-1] = true
		}
		if h < ^uint64(0) {
			set[h+1] = true
		}
	}
	out := make([]uint64, 0, len(set))
	for h := range set {
		out = append(out, h)
	}
	sort.Slice(out, func(i, j int) bool { return out[i] < out[j] })
	return out
}

// Version / IsVnFork of every configuration of the model on every probe height: monotone, flags agree with the version
// (validated configurations), and what the model says for the appended blocks.
func c19VersionTables(in *c19HfInput, maps [][]uint64, vio *c19Violator) {
	seen := map[string]bool{}
	for _, tr := range in.Trans {
		abs := tr.Cfg
		if tr.Act == "Start" {
			abs = tr.C
		}
		for mi, m := range maps {
			c := c19Cfg(abs, m)
			if tr.Act == "AddBlock" { // the model's version / receipt format of block `no` under the running configuration
				no := m[tr.No]
				vio.res.Count(fmt.Sprintf("addblock|%v|%d|%d", abs, tr.No, mi))
				if c.Version(no) != tr.Ver {
					vio.diverge(fmt.Sprintf("Version(cfg, no): model %d, code %d", tr.Ver, c.Version(no)))
				}
				if c.IsV2Fork(no) != (tr.Fmt == "v2") {
					vio.diverge("IsV2Fork(no) differs from the model's receipt format")
				}
			}
			key := fmt.Sprint(abs, mi)
			if seen[key] {
				continue
			}
			seen[key] = true
			probes := c19Probes(m)
			prev := int32(-1 << 31)
			for _, h := range probes {
				v := c.Version(h)
				vio.res.Count(fmt.Sprintf("version|%s|%d", key, h))
				if v < prev {
					vio.violate(map[string]interface{}{"kind": "version-not-monotone"}, map[string]interface{}{"config": c19CfgList(c), "height": h, "version": v, "version_below": prev},
						"config %v: Version(%d) = %d is lower than the version %d of a lower height", c19CfgList(c), h, v, prev)
				}
				prev = v
				if c19Sorted(c) {
					for i, f := range c19Forks(c, h) {
						if f != (v >= int32(i+2)) {
							vio.violate(map[string]interface{}{"kind": "fork-flags-disagree", "fork": fmt.Sprintf("V%d", i+2)},
								map[string]interface{}{"config": c19CfgList(c), "height": h, "version": v, "flags": c19Forks(c, h)},
								"config %v height %d: IsV%dFork = %v but Version = %d", c19CfgList(c), h, i+2, f, v)
						}
					}
				}
			}
		}
	}
}

// every Start transition: record d in the database, best block h, start with c.
func c19ReplayStarts(in *c19HfInput, maps [][]uint64, vio *c19Violator) {
	type job struct {
		ti, mi int
	}
	jobs := make(chan job, 1024)
	var wg sync.WaitGroup
	for w := 0; w < runtime.NumCPU(); w++ {
		wg.Add(1)
		go func() {
			defer wg.Done()
			for j := range jobs {
				c19ReplayStart(in.Trans[j.ti], j.ti, maps[j.mi], j.mi, vio)
			}
		}()
	}
	for ti, tr := range in.Trans {
		if tr.Act != "Start" {
			continue
		}
		for mi := range maps {
			jobs <- job{ti, mi}
		}
	}
	close(jobs)
	wg.Wait()
}

func c19ReplayStart(tr c19Trans, ti int, m []uint64, mi int, vio *c19Violator) {
	store := db.NewDB(db.MemoryImpl, "")
	cdb0, err := c19Open(store)
	if err != nil {
		panic(err)
	}
	var d *config.HardforkConfig
	if tr.Db != nil {
		d = c19Cfg(tr.Db, m)
		if err := cdb0.WriteHardfork(d); err != nil {
			panic(err)
		}
		// the record itself must survive storage (JSON numbers up to 2^64-1)
		if got := c19DbRecord(cdb0, d); !c19Eq(got, c19CfgList(d)) {
			vio.violate(map[string]interface{}{"kind": "roundtrip", "object": "hardfork-record"}, map[string]interface{}{"written": c19CfgList(d), "read": got},
				"hardfork record written %v, read back %v", c19CfgList(d), got)
		}
	}
	best := m[tr.Best]
	if tr.Best > 0 {
		dbtx := store.NewTx()
		cdb0.connectToChain(dbtx, c19FakeBlock(best, ti), false)
		dbtx.Commit()
	}
	cdb, err := c19Open(store) // restart
	if err != nil {
		panic(err)
	}
	if cdb.getBestBlockNo() != best {
		panic(fmt.Sprintf("best block %d not restored (%d)", best, cdb.getBestBlockNo()))
	}
	c := c19Cfg(tr.C, m)
	_, serr := c19Start(cdb, c)
	ok := serr == nil
	vio.res.Count(fmt.Sprintf("start|%d|%d", ti, mi))
	if mi == 0 && ti%5000 == 0 {
		vio.res.Sample(map[string]interface{}{"record": tr.Db, "best": tr.Best, "start_with": tr.C, "accepted": ok, "error": fmt.Sprint(serr)})
	}
	after := c19DbRecord(cdb, c)
	if ok && d != nil {
		// the property: an accepted restart gives no existing block another version or another receipt format
		for _, h := range c19Probes(m) {
			if h > best {
				break
			}
			if c.Version(h) != d.Version(h) || c.IsV2Fork(h) != d.IsV2Fork(h) {
				vio.violate(map[string]interface{}{"kind": "version-changed-across-restart", "via": "start-check"},
					map[string]interface{}{"record": c19CfgList(d), "best": best, "start_with": c19CfgList(c), "height": h,
						"version_before": d.Version(h), "version_after": c.Version(h)},
					"start with %v over record %v at best block %d accepted, but block %d changes its version from %d to %d",
					c19CfgList(c), c19CfgList(d), best, h, d.Version(h), c.Version(h))
				break
			}
		}
	}
	// against the model (information): the decision and the record left behind
	if ok != tr.Ok {
		vio.diverge(fmt.Sprintf("start decision: model ok=%v, code ok=%v", tr.Ok, ok))
	}
	var want []uint64
	if tr.Db2 != nil {
		want = c19CfgList(c19Cfg(tr.Db2, m))
	}
	if !c19Eq(after, want) {
		vio.diverge(fmt.Sprintf("record after start (accepted=%v): differs from the model", ok))
	}
}

// c19ParentState is what must not change when the header info of a child is derived from a block held in memory.
type c19ParentState struct {
	bytes   []byte // the whole block, encoded
	id      []byte // the identifier recomputed from the header alone
	cidVer  int32
	cidJSON string
}

func c19StateOf(b *types.Block) c19ParentState {
	enc, _ := proto.Encode(b)
	st := c19ParentState{bytes: enc, id: (&types.Block{Header: b.GetHeader()}).BlockHash(), cidVer: types.DecodeChainIdVersion(b.GetHeader().GetChainID())}
	cid := types.NewChainID()
	if err := cid.Read(b.GetHeader().GetChainID()); err != nil {
		st.cidJSON = "unreadable: " + err.Error()
	} else {
		st.cidJSON = cid.ToJSON()
	}
	return st
}

func (a c19ParentState) cid() []byte {
	var b types.Block
	if err := proto.Decode(a.bytes, &b); err != nil {
		return nil
	}
	return b.GetHeader().GetChainID()
}

func (a c19ParentState) diff(b c19ParentState) string {
	switch {
	case a.cidVer != b.cidVer:
		return fmt.Sprintf("chain id version in its header %d -> %d", a.cidVer, b.cidVer)
	case a.cidJSON != b.cidJSON:
		return "chain id read back from its header: " + a.cidJSON + " -> " + b.cidJSON
	case !bytes.Equal(a.id, b.id):
		return "its header hashes to another identifier"
	case !bytes.Equal(a.bytes, b.bytes):
		return "its encoding changed"
	}
	return ""
}

// a parent block at height no whose chain id carries version ver, with its identifier computed and cached
func c19ParentBlock(no uint64, ver int32, salt int) *types.Block {
	cid, err := (&types.ChainID{Version: ver, PublicNet: salt%2 == 0, Magic: "verif.chain", Consensus: "dpos"}).Bytes()
	if err != nil {
		panic(err)
	}
	prev := make([]byte, 32)
	prev[0] = byte(salt)
	b := types.NewBlock(&types.BlockHeaderInfo{No: no, Ts: int64(salt) + 1, PrevBlockHash: prev, ChainId: cid, ForkVersion: ver}, prev, nil, nil, nil, nil)
	b.BlockID()
	return b
}

// every AddBlock transition of the model (every configuration, every height, so every version step incl. several versions
// at once and the step away from the genesis version): the header info of the child is derived from a real parent block
// the way the block factories (NewBlockHeaderInfoFromPrevBlock) and the mempool (MakeChainId on the parent's header
// field, for every new best block) do it; the parent must be left as it was (ParentUnchangedByChild).
func c19ReplayDerive(in *c19HfInput, maps [][]uint64, vio *c19Violator) {
	for ti, tr := range in.Trans {
		if tr.Act != "AddBlock" {
			continue
		}
		for mi, m := range maps {
			c := c19Cfg(tr.Cfg, m)
			childNo := m[tr.No] // the child sits exactly on the mapped height (a fork height of the configuration or not)
			if childNo == 0 {
				continue
			}
			pver := int32(0) // the genesis block carries the version of the genesis file
			if tr.Best > 0 {
				pver = c.Version(childNo - 1)
			}
			boundary := pver != c.Version(childNo)
			for _, how := range []string{"NewBlockHeaderInfoFromPrevBlock", "MakeChainId(parent header field)"} {
				parent := c19ParentBlock(childNo-1, pver, ti+mi)
				before := c19StateOf(parent)
				var childCid []byte
				if how == "NewBlockHeaderInfoFromPrevBlock" {
					bi := types.NewBlockHeaderInfoFromPrevBlock(parent, int64(ti)+7, c)
					childCid = bi.ChainId
					if bi.No != childNo || bi.ForkVersion != c.Version(childNo) || !bytes.Equal(bi.PrevBlockHash, before.id) {
						vio.violate(map[string]interface{}{"kind": "child-header-info", "class": "fields"}, map[string]interface{}{"config": c19CfgList(c), "child": childNo},
							"header info derived for block %d: no=%d version=%d prev=%x", childNo, bi.No, bi.ForkVersion, bi.PrevBlockHash)
					}
				} else {
					childCid = types.MakeChainId(parent.GetHeader().GetChainID(), c.Version(childNo))
				}
				vio.res.Count(fmt.Sprintf("derive|%d|%d|%s", ti, mi, how))
				after := c19StateOf(parent)
				if d := before.diff(after); d != "" {
					vio.violate(map[string]interface{}{"kind": "input-modified", "function": "MakeChainId", "object": "parent-block", "boundary": boundary},
						map[string]interface{}{"config": c19CfgList(c), "parent_height": childNo - 1, "parent_version": pver, "child_version": c.Version(childNo), "via": how, "difference": d},
						"deriving the header info of block %d (version %d, config %v) through %s changed the parent block held in memory: %s",
						childNo, c.Version(childNo), c19CfgList(c), how, d)
				}
				// the child's chain id: the version of its height, everything else as in the parent's
				if types.DecodeChainIdVersion(childCid) != c.Version(childNo) || !types.ChainIdEqualWithoutVersion(childCid, before.cid()) {
					vio.violate(map[string]interface{}{"kind": "child-header-info", "class": "chainid"}, map[string]interface{}{"config": c19CfgList(c), "child": childNo, "via": how},
						"chain id derived for block %d has version %d (want %d) or differs from the parent's beyond the version", childNo, types.DecodeChainIdVersion(childCid), c.Version(childNo))
				}
				if c.Version(childNo) != tr.Ver {
					vio.diverge(fmt.Sprintf("Version(cfg, no) at a derived child: model %d, code %d", tr.Ver, c.Version(childNo)))
				}
				if boundary && mi == 0 && ti%40 == 0 {
					vio.res.Sample(map[string]interface{}{"derive": how, "config": c19CfgList(c), "parent_version": pver, "child_version": c.Version(childNo), "parent_unchanged": before.diff(after) == ""})
				}
			}
		}
	}
}

// the genesis record and chain id written by a real ChainDB and read back by another one
func c19GenesisRoundTrip(vio *c19Violator) {
	rng := verifkit.Rng(4242)
	for k := 0; k < 40; k++ {
		g := &types.Genesis{ID: types.ChainID{Version: int32(rng.Intn(6)), PublicNet: rng.Intn(2) == 0, MainNet: false,
			Magic: fmt.Sprintf("verif%d.chain", rng.Intn(1000)), Consensus: []string{"dpos", "raft", "sbp"}[rng.Intn(3)]}, Timestamp: rng.Int63()}
		for i := rng.Intn(4); i > 0; i-- {
			g.BPs = append(g.BPs, fmt.Sprintf("16Uiu2HAm%030d", rng.Int63()))
		}
		if rng.Intn(2) == 0 {
			g.EnterpriseBPs = []types.EnterpriseBP{{Name: "bp1", Address: "/ip4/10.0.0.1/tcp/7846", PeerID: fmt.Sprintf("16Uiu2HAm%030d", rng.Int63())}}
		}
		if rng.Intn(2) == 0 {
			g.AddBalance(new(big.Int).Lsh(big.NewInt(1+rng.Int63()), uint(rng.Intn(60))))
		}
		store := db.NewDB(db.MemoryImpl, "")
		cdb, _ := c19Open(store)
		if err := cdb.addGenesisBlock(g); err != nil {
			panic(err)
		}
		cdb2, _ := c19Open(store)
		back := cdb2.GetGenesisInfo()
		vio.res.Count(fmt.Sprintf("genesisdb|%d", k))
		bad := ""
		switch {
		case back == nil:
			bad = "missing"
		case !back.ID.Equals(&g.ID):
			bad = "ID"
		case back.Timestamp != g.Timestamp:
			bad = "Timestamp"
		case fmt.Sprint(back.BPs) != fmt.Sprint(g.BPs):
			bad = "BPs"
		case len(back.EnterpriseBPs) != len(g.EnterpriseBPs) || (len(g.EnterpriseBPs) > 0 && back.EnterpriseBPs[0] != g.EnterpriseBPs[0]):
			bad = "EnterpriseBPs"
		case (g.TotalBalance() == nil) != (back.TotalBalance() == nil) || (g.TotalBalance() != nil && g.TotalBalance().Cmp(back.TotalBalance()) != 0):
			bad = "TotalBalance"
		case !bytes.Equal(back.Block().BlockHash(), g.Block().BlockHash()):
			bad = "genesis block"
		}
		if bad != "" {
			vio.violate(map[string]interface{}{"kind": "roundtrip", "object": "genesis", "class": bad}, map[string]interface{}{"genesis": g, "read": back},
				"genesis read back from the chain database differs in %s", bad)
		}
	}
}

// ---------------------------------------------------------------- the random run (recorded for HardforkTrace.tla)

type c19Written struct {
	ver  int32
	fmt  string
	hash []byte
	rs   []*types.Receipt
}

func c19MakeReceipts(rng *rand.Rand, no uint64) []*types.Receipt {
	var out []*types.Receipt
	for i := 0; i < 1+rng.Intn(3); i++ {
		addr := make([]byte, types.AddressLength)
		rng.Read(addr)
		addr[0] = 0x0C
		r := types.NewReceipt(addr, []string{"SUCCESS", "CREATED", "ERROR", "RECREATED"}[rng.Intn(4)], fmt.Sprintf(`{"n":%d}`, rng.Intn(1000)))
		r.TxHash = make([]byte, 32)
		rng.Read(r.TxHash)
		r.FeeUsed = big.NewInt(rng.Int63()).Bytes()
		r.GasUsed = 2 + uint64(rng.Intn(200)) // never zero: tells the two stored formats apart when read back; small, so that a decoder
		// reading the wrong format does not take it for a huge counter
		r.FeeDelegation = true
		for e := rng.Intn(3); e > 0; e-- {
			ev := &types.Event{ContractAddress: addr, EventName: fmt.Sprintf("e%d", e), JsonArgs: fmt.Sprintf("[%d]", rng.Intn(99)), EventIdx: int32(e), TxHash: r.TxHash}
			if rng.Intn(2) == 0 {
				ev.ContractAddress = append([]byte{0x0C}, r.TxHash...)
			}
			r.Events = append(r.Events, ev)
		}
		out = append(out, r)
	}
	return out
}

// c19ReadBack reads the receipts of a block through the real ChainDB under cfg; reports the format the decoder used
// (GasUsed and the fee delegation flag exist in the V2 format only) and whether everything stored came back.
func c19ReadBack(cdb *ChainDB, w *c19Written, no uint64, hc *config.HardforkConfig) (format string, same bool, problem string) {
	defer func() {
		if p := recover(); p != nil {
			format, same, problem = "?", false, fmt.Sprintf("panic: %v", p)
		}
	}()
	rs, err := cdb.getReceipts(w.hash, no, hc)
	if err != nil {
		return "?", false, err.Error()
	}
	got := rs.Get()
	if len(got) != len(w.rs) {
		return "?", false, "count"
	}
	format = "v1"
	if got[0].GasUsed == w.rs[0].GasUsed && got[0].FeeDelegation {
		format = "v2"
	}
	for i, a := range w.rs {
		b := got[i]
		b.SetMemoryInfo(w.hash, no, int32(i))
		switch {
		case !bytes.Equal(a.ContractAddress, b.ContractAddress), a.Status != b.Status, a.Ret != b.Ret, !bytes.Equal(a.TxHash, b.TxHash),
			!bytes.Equal(a.FeeUsed, b.FeeUsed), len(a.Events) != len(b.Events):
			return format, false, fmt.Sprintf("receipt %d", i)
		case w.fmt == "v2" && (a.GasUsed != b.GasUsed || a.FeeDelegation != b.FeeDelegation):
			return format, false, fmt.Sprintf("receipt %d gas/fee delegation", i)
		}
		for j, x := range a.Events {
			y := b.Events[j]
			if !bytes.Equal(x.ContractAddress, y.ContractAddress) || x.EventName != y.EventName || x.JsonArgs != y.JsonArgs || x.EventIdx != y.EventIdx || !bytes.Equal(x.TxHash, y.TxHash) {
				return format, false, fmt.Sprintf("receipt %d event %d", i, j)
			}
		}
	}
	return format, true, ""
}

func c19RandomRuns(in *c19HfInput, vio *c19Violator) error {
	path := os.Getenv("VERIF_TRACE")
	if path == "" || in.Runs == 0 {
		return nil
	}
	f, err := os.Create(path)
	if err != nil {
		return err
	}
	defer f.Close()
	emit := func(e map[string]interface{}) {
		b, _ := json.Marshal(e)
		f.Write(append(b, '\n'))
	}
	rng := verifkit.Rng(1919)
	for run := 0; run < in.Runs; run++ {
		if run > 0 {
			emit(map[string]interface{}{"ev": "Reset"})
		}
		store := db.NewDB(db.MemoryImpl, "")
		cdb, err := c19Open(store)
		if err != nil {
			return err
		}
		genesis := types.GetTestGenesis()
		if err := cdb.addGenesisBlock(genesis); err != nil {
			return err
		}
		written := map[uint64]*c19Written{}
		var cs *ChainService
		span := uint64(4 + rng.Intn(12)) // fork heights are drawn from 0..span, the chain grows past it
		randCfg := func(base *config.HardforkConfig) *config.HardforkConfig {
			h := []uint64{uint64(rng.Intn(int(span))), uint64(rng.Intn(int(span))), uint64(rng.Intn(int(span))), uint64(rng.Intn(int(span)))}
			if rng.Intn(10) > 0 { // mostly a configuration validate() accepts
				sort.Slice(h, func(i, j int) bool { return h[i] < h[j] })
			}
			c := &config.HardforkConfig{V2: h[0], V3: h[1], V4: h[2], V5: h[3]}
			if base != nil && rng.Intn(3) > 0 { // mostly: the previous configuration with one height moved
				*c = *base
				switch rng.Intn(4) {
				case 0:
					c.V2 = h[0]
				case 1:
					c.V3 = h[1]
				case 2:
					c.V4 = h[2]
				default:
					c.V5 = h[3]
				}
			}
			return c
		}
		var last *config.HardforkConfig
		var accepted []*config.HardforkConfig
		for step := 0; step < in.RunLen; step++ {
			vio.res.Count(fmt.Sprintf("run|%d|%d", run, step))
			if cs == nil { // down: try to start
				c := randCfg(last)
				if last != nil && rng.Intn(4) == 0 {
					c = last
				} else if len(accepted) > 1 && rng.Intn(3) == 0 { // the operator goes back to a configuration used earlier
					c = accepted[rng.Intn(len(accepted))]
				}
				cdb, err = c19Open(store)
				if err != nil {
					return err
				}
				s, serr := c19Start(cdb, c)
				emit(map[string]interface{}{"ev": "Start", "c": c19CfgList(c), "ok": serr == nil})
				if serr != nil {
					continue
				}
				cs, last = s, c
				accepted = append(accepted, c)
				// after the restart: every existing block keeps its version and its receipts
				best := cdb.getBestBlockNo()
				for no := uint64(1); no <= best; no++ {
					w := written[no]
					ver := int32(-99)
					if id := cs.ChainID(no); id != nil {
						ver = id.Version
					}
					format, same, problem := c19ReadBack(cdb, w, no, cs.cfg.Hardfork)
					emit(map[string]interface{}{"ev": "Read", "no": no, "ver": ver, "fmt": format, "same": same})
					if ver != w.ver {
						vio.violate(map[string]interface{}{"kind": "version-changed-across-restart", "via": "run"},
							map[string]interface{}{"run": run, "step": step, "block": no, "version_at_creation": w.ver, "version_now": ver, "config": c19CfgList(c)},
							"after a restart with %v block %d has version %d; it was created with version %d", c19CfgList(c), no, ver, w.ver)
					}
					if !same {
						vio.violate(map[string]interface{}{"kind": "receipts-changed-across-restart"},
							map[string]interface{}{"run": run, "step": step, "block": no, "format_written": w.fmt, "format_read": format, "problem": problem, "config": c19CfgList(c)},
							"after a restart with %v the receipts of block %d (written in format %s) are read back differently: %s", c19CfgList(c), no, w.fmt, problem)
					}
				}
				continue
			}
			if rng.Intn(5) == 0 {
				emit(map[string]interface{}{"ev": "Stop"})
				cs = nil
				continue
			}
			// append a block the way the block factory does: chain id version from the configuration, receipts stored in the block's format
			prev, _ := cdb.GetBestBlock()
			prevBefore := c19StateOf(prev)
			bi := types.NewBlockHeaderInfoFromPrevBlock(prev, int64(step+1), cs.cfg.Hardfork)
			prevAfter := c19StateOf(prev)
			if d := prevBefore.diff(prevAfter); d != "" {
				vio.violate(map[string]interface{}{"kind": "input-modified", "function": "MakeChainId", "object": "parent-block", "via": "run"},
					map[string]interface{}{"run": run, "step": step, "parent": prev.BlockNo(), "difference": d, "config": c19CfgList(cs.cfg.Hardfork)},
					"deriving the header info of block %d changed the best block held in memory: %s", prev.BlockNo()+1, d)
			}
			no := bi.No
			receipts := &types.Receipts{}
			receipts.SetHardFork(cs.cfg.Hardfork, no)
			rs := c19MakeReceipts(rng, no)
			receipts.Set(rs)
			blk := types.NewBlock(bi, nil, receipts, nil, nil, nil)
			blk.BlockID()
			dbtx := store.NewTx()
			cdb.connectToChain(dbtx, blk, false)
			dbtx.Commit()
			cdb.writeReceiptsAndOperations(blk, receipts, "")
			w := &c19Written{ver: types.DecodeChainIdVersion(blk.GetHeader().GetChainID()), hash: blk.BlockHash(), rs: rs}
			w.fmt = "v1"
			if cs.cfg.Hardfork.IsV2Fork(no) {
				w.fmt = "v2"
			}
			format, same, problem := c19ReadBack(cdb, w, no, cs.cfg.Hardfork)
			if !same || format != w.fmt {
				vio.violate(map[string]interface{}{"kind": "roundtrip", "object": "receipts", "class": "chaindb"},
					map[string]interface{}{"run": run, "step": step, "block": no, "format": w.fmt, "read_format": format, "problem": problem},
					"receipts of block %d written through the chain database in format %s are read back differently (%s, %s)", no, w.fmt, format, problem)
			}
			if n := len(written); n > 0 && w.ver < written[no-1].ver {
				vio.violate(map[string]interface{}{"kind": "version-not-monotone", "via": "run"},
					map[string]interface{}{"run": run, "step": step, "block": no, "version": w.ver, "parent_version": written[no-1].ver},
					"block %d got version %d, its parent has version %d", no, w.ver, written[no-1].ver)
			}
			written[no] = w
			emit(map[string]interface{}{"ev": "AddBlock", "no": no, "ver": w.ver, "fmt": format,
				"pver": prevAfter.cidVer, "pid": bytes.Equal(prevAfter.id, prev.BlockHash())})
		}
		if cs != nil {
			emit(map[string]interface{}{"ev": "Stop"})
		}
	}
	return nil
}
