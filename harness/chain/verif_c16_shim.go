//go:build verif

package chain

// C16 (raft WAL) shim: lets the conformance harness in consensus/impl/raftv2 put a ChainDB on a
// store it controls (crash-point injection, reopen) and seed the genesis block that ResetWAL
// needs.  Added through the go -overlay; never part of aergo.

import (
	"github.com/aergoio/aergo-lib/db"
	"github.com/aergoio/aergo/v2/types"
)

// VerifC16NewChainDB returns a ChainDB on the given store, initialised the way ChainDB.Init
// does after opening the store (load best block, recover from a reorg marker).
func VerifC16NewChainDB(store db.DB) (*ChainDB, error) {
	cdb := NewChainDB()
	cdb.store = store
	if err := cdb.Init("", "", nil); err != nil {
		return nil, err
	}
	return cdb, nil
}

// VerifC16AddGenesis stores the genesis block (what ChainService does on an empty data dir).
func VerifC16AddGenesis(cdb *ChainDB, g *types.Genesis) error { return cdb.addGenesisBlock(g) }

// VerifC16Store exposes the store of a ChainDB opened through Init.
func VerifC16Store(cdb *ChainDB) db.DB { return cdb.store }
