//go:build verif

package trie

// Conformance harness for spec/state/Proof.tla (C11) at the trie level: every Prove step of the TLC model (a
// committed history of tries, a root, a query key, an encoding) is replayed on the real Trie over several
// concretisations of the abstract bit-string keys; the real generator's answer (MerkleProof, MerkleProofR,
// MerkleProofCompressed(R)) is compared with the spec's honest message (shape conformance), verified by the real
// verifier functions (VerifyInclusion(C), VerifyNonInclusion(C)) and by an independent verifier written from the
// spec (internal/verifproof); then every forgery of the spec's ForgeTable is applied to the real proof and fed to
// the real verifier: nothing the design rejects may be accepted.  Walks on one long-lived instance are recorded
// for ProofTrace.tla.
//
// Helpers of verif_smt_test.go (C10) are reused: vhash, cval, applyBatch.

import (
	"bytes"
	"encoding/hex"
	"fmt"
	"os"
	"runtime"
	"sort"
	"strings"
	"sync"
	"testing"

	"github.com/aergoio/aergo-lib/db"
	"github.com/aergoio/aergo/v2/internal/verifkit"
	vp "github.com/aergoio/aergo/v2/internal/verifproof"
)

// realAccept feeds the message to the verifier functions of pkg/trie, the way a light client would.
// A panic (index out of range on malformed input) is not an acceptance; it is counted separately.
func realAccept(m *vp.Msg) (ok bool, panicked bool) {
	defer func() {
		if r := recover(); r != nil {
			ok, panicked = false, true
		}
	}()
	vt := NewTrie(m.Root, vhash, nil)
	switch {
	case !m.Comp && m.Incl:
		return vt.VerifyInclusion(m.Ap, m.Key, m.Val), false
	case !m.Comp:
		return vt.VerifyNonInclusion(m.Ap, m.Key, m.Pv, m.Pk), false
	case m.Incl:
		return vt.VerifyInclusionC(m.Bitmap, m.Key, m.Val, m.Ap, m.Height), false
	default:
		return vt.VerifyNonInclusionC(m.Ap, m.Height, m.Bitmap, m.Key, m.Pv, m.Pk), false
	}
}

func prfBgVal(i int) []byte { return vhash([]byte(fmt.Sprintf("bg%d", i))) }

// prfConcrete: concrete contents (hex key -> value) = background + concretised abstract map
func prfConcrete(f *vp.Family, m map[string]string) map[string][]byte {
	out := map[string][]byte{}
	for i, k := range f.Bg {
		out[hex.EncodeToString(k)] = prfBgVal(i)
	}
	for k, v := range m {
		out[hex.EncodeToString(f.Key(k))] = cval(v)
	}
	return out
}

func prfDiff(f *vp.Family, from, to map[string]string) map[string][]byte {
	upd := map[string][]byte{}
	for k, v := range to {
		if from[k] != v {
			upd[hex.EncodeToString(f.Key(k))] = cval(v)
		}
	}
	for k := range from {
		if _, ok := to[k]; !ok {
			upd[hex.EncodeToString(f.Key(k))] = DefaultLeaf
		}
	}
	return upd
}

func sameProof(ap1, ap2 [][]byte) bool {
	if len(ap1) != len(ap2) {
		return false
	}
	for i := range ap1 {
		if !bytes.Equal(ap1[i], ap2[i]) {
			return false
		}
	}
	return true
}

// honestProof asks the real generator; current roots go through MerkleProof(Compressed) AND the ...R variant
// (they must agree), historical roots through the ...R variant; reopened: a fresh instance on the same store.
func honestProof(tr *Trie, reopened *Trie, root []byte, current bool, key []byte, comp bool) (*vp.Msg, string) {
	m := &vp.Msg{Root: root, Key: key, Comp: comp}
	type raw struct {
		bitmap []byte
		ap     [][]byte
		height int
		incl   bool
		pk, pv []byte
		err    error
	}
	get := func(t *Trie, viaR bool) raw {
		var r raw
		if comp {
			if viaR {
				r.bitmap, r.ap, r.height, r.incl, r.pk, r.pv, r.err = t.MerkleProofCompressedR(key, root)
			} else {
				r.bitmap, r.ap, r.height, r.incl, r.pk, r.pv, r.err = t.MerkleProofCompressed(key)
			}
		} else {
			if viaR {
				r.ap, r.incl, r.pk, r.pv, r.err = t.MerkleProofR(key, root)
			} else {
				r.ap, r.incl, r.pk, r.pv, r.err = t.MerkleProof(key)
			}
		}
		return r
	}
	same := func(a, b raw) bool {
		return sameProof(a.ap, b.ap) && bytes.Equal(a.bitmap, b.bitmap) && a.height == b.height && a.incl == b.incl &&
			bytes.Equal(a.pk, b.pk) && bytes.Equal(a.pv, b.pv)
	}
	r := get(tr, true)
	if r.err != nil {
		return nil, fmt.Sprintf("generator error: %v", r.err)
	}
	if current {
		if r2 := get(tr, false); r2.err != nil || !same(r, r2) {
			return nil, fmt.Sprintf("MerkleProof and MerkleProofR of the current root differ (err %v)", r2.err)
		}
	}
	if reopened != nil {
		if r3 := get(reopened, true); r3.err != nil || !same(r, r3) {
			return nil, fmt.Sprintf("a reopened instance generates a different proof (err %v)", r3.err)
		}
	}
	m.Ap, m.Bitmap, m.Height, m.Incl = r.ap, r.bitmap, r.height, r.incl
	if r.incl {
		m.Val = r.pv // on inclusion the value comes back in the proofVal slot
	} else {
		m.Pk, m.Pv = r.pk, r.pv
	}
	return m, ""
}

func TestVerifProof(t *testing.T) {
	if !verifkit.Enabled() {
		t.Skip("run through bin/vcheck")
	}
	var in vp.Input
	if err := verifkit.ReadInput(&in); err != nil {
		t.Fatal(err)
	}
	res := verifkit.NewResult()
	rep := vp.NewReport(res)
	defer func() {
		res.Extra["counts"] = rep.Snapshot()
		if err := res.Write(); err != nil {
			t.Fatal(err)
		}
	}()
	absKeys := in.AbsKeys()
	var traceMu sync.Mutex
	var traceBuf bytes.Buffer

	var wg sync.WaitGroup
	sem := make(chan struct{}, runtime.NumCPU())
	var failMu sync.Mutex
	var failures []string
	guard := func() {
		if r := recover(); r != nil {
			failMu.Lock()
			failures = append(failures, fmt.Sprint(r))
			failMu.Unlock()
		}
		<-sem
		wg.Done()
	}
	for fi, pos := range in.Families {
		fi, pos := fi, pos
		rng := verifkit.Rng(int64(2000 + fi))
		f := vp.NewFamily(pos, rng, in.Background)
		junk := make([]byte, 32)
		rng.Read(junk)
		bg := prfConcrete(f, nil)
		// cases are independent: one goroutine per (family, slice of cases)
		const chunk = 8
		for c0 := 0; c0 < len(in.Cases); c0 += chunk {
			c0 := c0
			wg.Add(1)
			sem <- struct{}{}
			go func() {
				defer guard()
				for ci := c0; ci < c0+chunk && ci < len(in.Cases); ci++ {
					cs := in.Cases[ci]
					store := db.NewDB(db.MemoryImpl, "")
					tr := NewTrie(nil, vhash, store)
					if (fi+ci)%2 == 1 {
						tr.CacheHeightLimit = 232 // the node's account trie keeps the top levels in its live cache
					}
					if err := applyBatch(tr, bg); err != nil {
						panic(err)
					}
					env := &vp.Env{Level: "trie", Fam: f, Hist: cs.Hist, AbsKeys: absKeys, ValOf: cval, Verify: realAccept, Junk: junk, Rep: rep}
					env.Roots = [][]byte{append([]byte(nil), tr.Root...)}
					env.Models = []map[string][]byte{prfConcrete(f, cs.Hist[0])}
					for i := 1; i < len(cs.Hist); i++ {
						if err := applyBatch(tr, prfDiff(f, cs.Hist[i-1], cs.Hist[i])); err != nil {
							panic(fmt.Sprintf("update error: %v", err))
						}
						env.Roots = append(env.Roots, append([]byte(nil), tr.Root...))
						env.Models = append(env.Models, prfConcrete(f, cs.Hist[i]))
					}
					reopened := NewTrie(env.Roots[len(env.Roots)-1], vhash, store)
					for pi := range cs.Proofs {
						p := &cs.Proofs[pi]
						rp := env.ReplayOf(p.Ri, p.Key, p.Enc)
						res.Count(fmt.Sprintf("prove:%d:%d:%d:%s:%s", fi, ci, p.Ri, p.Key, p.Enc))
						if fi == 0 && ci == len(in.Cases)/2 && p.Key == absKeys[1] {
							res.Sample(rp)
						}
						m, errText := honestProof(tr, reopened, env.Roots[p.Ri-1], p.Ri == len(env.Roots), f.Key(p.Key), p.Enc == "comp")
						if m == nil {
							rep.Violate(map[string]interface{}{"kind": "generator-failed", "level": "trie", "enc": p.Enc}, rp, "family %v: %s", pos, errText)
							continue
						}
						env.CheckProof(p, m)
					}
				}
			}()
		}
		// recorded walks on one long-lived instance (direction B)
		if len(in.Walks) > 0 {
			wg.Add(1)
			sem <- struct{}{}
			go func() {
				defer guard()
				var buf bytes.Buffer
				runProofWalks(&in, fi, f, junk, absKeys, rep, &buf)
				traceMu.Lock()
				traceBuf.Write(buf.Bytes())
				traceMu.Unlock()
			}()
		}
	}
	wg.Wait()
	if tp := os.Getenv("VERIF_TRACE"); tp != "" {
		if err := os.WriteFile(tp, traceBuf.Bytes(), 0o644); err != nil {
			t.Fatal(err)
		}
	}
	if len(failures) > 0 {
		t.Fatalf("harness failure (no verdict): %s", failures[0])
	}
}

// ---------------------------------------------------------------- direction B: recorded walks (ProofTrace.tla)

func runProofWalks(in *vp.Input, fi int, f *vp.Family, junk []byte, absKeys []string, rep *vp.Report, out *bytes.Buffer) {
	rng := verifkit.Rng(int64(5000 + fi))
	for wi, walk := range in.Walks {
		fmt.Fprintf(out, "{\"ev\":\"Reset\"}\n")
		store := db.NewDB(db.MemoryImpl, "")
		tr := NewTrie(nil, vhash, store)
		if (fi+wi)%2 == 1 {
			tr.CacheHeightLimit = 232
		}
		if err := applyBatch(tr, prfConcrete(f, nil)); err != nil {
			panic(err)
		}
		env := &vp.Env{Level: "trie-walk", Fam: f, AbsKeys: absKeys, ValOf: cval, Verify: realAccept, Junk: junk, Rep: rep}
		env.Hist = []map[string]string{{}}
		env.Roots = [][]byte{append([]byte(nil), tr.Root...)}
		env.Models = []map[string][]byte{prfConcrete(f, nil)}
		for si, st := range walk.Steps {
			// one block: the batch as given (it may overwrite with the same value or delete absent keys)
			cur := map[string]string{}
			for k, v := range env.Hist[len(env.Hist)-1] {
				cur[k] = v
			}
			var ks []string
			for k := range st.Upd {
				ks = append(ks, k)
			}
			sort.Strings(ks)
			var pairs []string
			upd := map[string][]byte{}
			for _, k := range ks {
				v := st.Upd[k]
				if v == "DEL" {
					delete(cur, k)
				} else {
					cur[k] = v
				}
				upd[hex.EncodeToString(f.Key(k))] = cval(v)
				pairs = append(pairs, fmt.Sprintf(`{"k":%s,"v":"%s"}`, vp.BitsJSON(k), v))
			}
			if err := applyBatch(tr, upd); err != nil {
				panic(fmt.Sprintf("walk update error: %v", err))
			}
			env.Hist = append(env.Hist, cur)
			env.Roots = append(env.Roots, append([]byte(nil), tr.Root...))
			env.Models = append(env.Models, prfConcrete(f, cur))
			fmt.Fprintf(out, "{\"ev\":\"Batch\",\"upd\":[%s]}\n", strings.Join(pairs, ","))
			// proof requests against the current and earlier roots
			for n := 0; n < st.Proofs; n++ {
				ri := len(env.Hist)
				if rng.Intn(2) == 0 {
					ri = 1 + rng.Intn(len(env.Hist))
				}
				key := absKeys[rng.Intn(len(absKeys))]
				comp := rng.Intn(2) == 0
				rp := env.ReplayOf(ri, key, vp.EncName(comp))
				rep.Res.Count(fmt.Sprintf("walk:%d:%d:%d:%d", fi, wi, si, n))
				var reopened *Trie
				if n == 0 {
					reopened = NewTrie(env.Roots[len(env.Roots)-1], vhash, store)
				}
				m, errText := honestProof(tr, reopened, env.Roots[ri-1], ri == len(env.Roots), f.Key(key), comp)
				if m == nil {
					rep.Violate(map[string]interface{}{"kind": "generator-failed", "level": "trie-walk", "enc": rp.Enc}, rp, "family %v: %s", f.Pos, errText)
					continue
				}
				m.Ri = ri
				sh := env.AbsShape(m, in.Vals)
				fmt.Fprintln(out, vp.TraceProve(ri, key, comp, sh))
				fm := m
				if sh.Len >= 0 && !strings.HasPrefix(sh.Pk, "?") && rng.Intn(8) != 0 {
					fs := vp.ForgeriesOf(sh, env.Hist, ri, key, comp, absKeys, in.Vals, in.H)
					g := fs[rng.Intn(len(fs))]
					if c := env.ApplyForgery(m, sh.Len, g); c != nil {
						fm = c
						fmt.Fprintf(out, "{\"ev\":\"Forge\",\"f\":%s}\n", g.TraceJSON())
					}
				}
				ra, _ := realAccept(fm)
				fmt.Fprintf(out, "{\"ev\":\"Verify\",\"acc\":%v}\n", ra)
			}
		}
		// at the end of the walk every committed root still proves its own contents (plain, every key)
		for ri := 1; ri <= len(env.Roots); ri++ {
			for _, key := range absKeys {
				m, errText := honestProof(tr, nil, env.Roots[ri-1], ri == len(env.Roots), f.Key(key), false)
				rp := env.ReplayOf(ri, key, "plain")
				if m == nil {
					rep.Violate(map[string]interface{}{"kind": "generator-failed", "level": "trie-walk", "enc": "plain"}, rp, "family %v: %s", f.Pos, errText)
					continue
				}
				want, present := env.Models[ri-1][hex.EncodeToString(m.Key)]
				if m.Incl != present || (present && !bytes.Equal(m.Val, want)) {
					rep.Violate(map[string]interface{}{"kind": "generator-wrong-claim", "level": "trie-walk", "enc": "plain"}, rp,
						"after the walk, root #%d: generator claims incl=%v val=%x for key %s; its contents: present=%v val=%x", ri, m.Incl, m.Val, key, present, want)
				}
			}
		}
	}
}
