//go:build verif

package trie

// Conformance harness for spec/state/ProofRoots.tla (C11, "a proof requested for root r is a proof about r") at the
// trie level.  Every state of the TLC-generated tree of life-cycle behaviours (Update / AtomicUpdate without
// Commit, Commit, Stash, Trie.Root := committed root, LoadCache, a new instance on the same store) is rebuilt on the
// real Trie — without live cache (the default, what the node uses) and with one (CacheHeightLimit 0 / 232) — and in
// that state the real generator is asked, for EVERY root the specification says is still retained (committed or
// not, current or not), for every key and both encodings: MerkleProofR / MerkleProofCompressedR.  The answer must
// be the specification's honest message for the contents of THAT root (claim, foreign leaf, path length, siblings),
// be accepted against that root by trie.Verify* and by the independent verifier, and must not be accepted against
// any other retained root unless the independent (design) verifier accepts it there too.
//
// It runs in the same test binary as TestVerifProof; input/output: $VERIF_ROOTS_IN / $VERIF_ROOTS_OUT.

import (
	"bytes"
	"encoding/hex"
	"encoding/json"
	"fmt"
	"os"
	"runtime"
	"sort"
	"strings"
	"sync"
	"testing"

	"github.com/aergoio/aergo-lib/db"
	"github.com/aergoio/aergo/v2/internal/verifkit"
	vp "github.com/aergoio/aergo/v2/internal/verifproof"
)

type rootsAct struct {
	Name string            `json:"name"`
	Upd  map[string]string `json:"upd,omitempty"`
	Ri   int               `json:"ri,omitempty"`
	Rb   bool              `json:"rb,omitempty"`
}

type rootsNode struct {
	Trail []rootsAct          `json:"trail"`
	Hist  []map[string]string `json:"hist"` // every root ever produced, hist[0] = the initial (abstractly empty) trie
	St    []string            `json:"st"`   // "c" committed, "u" uncommitted but retained, "x" given up
	Cur   int                 `json:"cur"`  // 1-based
	Prev  int                 `json:"prev"`
}

type rootsInput struct {
	H          int                            `json:"h"`
	Families   [][]int                        `json:"families"`
	Background int                            `json:"background"`
	Vals       []string                       `json:"vals"`
	Shapes     map[string]map[string]vp.Shape `json:"shapes"` // contents ("000=v1,001=v2") -> key -> honest message
	Nodes      []rootsNode                    `json:"nodes"`
}

func rootsMapKey(m map[string]string) string {
	ks := make([]string, 0, len(m))
	for k, v := range m {
		ks = append(ks, k+"="+v)
	}
	sort.Strings(ks)
	return strings.Join(ks, ",")
}

type rootsReplay struct {
	Level  string              `json:"level"`
	Family []int               `json:"family"`
	Base   string              `json:"base"`
	Cache  int                 `json:"cache_height_limit"`
	Trail  []rootsAct          `json:"trail"`
	Hist   []map[string]string `json:"hist"`
	St     []string            `json:"st"`
	Cur    int                 `json:"cur"`
	Ri     int                 `json:"ri"`
	Key    string              `json:"key"`
	Enc    string              `json:"enc"`
	Other  int                 `json:"other_root,omitempty"`
}

// rootClass names the situation of the requested root (part of the violation signature)
func rootClass(nd *rootsNode, ri int) string {
	switch {
	case ri == nd.Cur:
		return "current"
	case nd.St[ri-1] == "u":
		return "earlier-uncommitted"
	default:
		return "other-committed"
	}
}

func cacheClass(lim int) string {
	if lim > 256 {
		return "off"
	}
	return "on"
}

func rootsUpd(f *vp.Family, upd map[string]string) ([][]byte, [][]byte) {
	ks := make([]string, 0, len(upd))
	for k := range upd {
		ks = append(ks, k)
	}
	// the trie wants the keys sorted; abstract order = concrete order (the family stretches the bit strings)
	sort.Slice(ks, func(i, j int) bool { return bytes.Compare(f.Key(ks[i]), f.Key(ks[j])) < 0 })
	var keys, vals [][]byte
	for _, k := range ks {
		keys = append(keys, f.Key(k))
		vals = append(vals, cval(upd[k]))
	}
	return keys, vals
}

// rootsRun rebuilds one state of the tree on a real trie and asks for every proof.
func rootsRun(in *rootsInput, ni int, f *vp.Family, lim int, junk []byte, absKeys []string, rep *vp.Report, variant string) {
	nd := &in.Nodes[ni]
	store := db.NewDB(db.MemoryImpl, "")
	tr := NewTrie(nil, vhash, store)
	tr.CacheHeightLimit = lim
	if err := applyBatch(tr, prfConcrete(f, nil)); err != nil {
		panic(err)
	}
	roots := [][]byte{append([]byte(nil), tr.Root...)}
	rpOf := func(ri int, key, enc string) rootsReplay {
		return rootsReplay{Level: "trie-roots", Family: f.Pos, Base: hex.EncodeToString(f.Base), Cache: lim, Trail: nd.Trail, Hist: nd.Hist, St: nd.St, Cur: nd.Cur, Ri: ri, Key: key, Enc: enc}
	}
	for si, a := range nd.Trail {
		// a panic inside the code under test is an observation about it, not a harness failure
		err := rootsGuard(func() (err error) {
			switch a.Name {
			case "Update", "AtomicUpdate":
				keys, vals := rootsUpd(f, a.Upd)
				var r []byte
				if a.Name == "Update" {
					r, err = tr.Update(keys, vals)
				} else {
					r, err = tr.AtomicUpdate(keys, vals)
				}
				if err == nil {
					roots = append(roots, append([]byte(nil), r...))
				}
			case "Commit":
				err = tr.Commit()
			case "Stash":
				err = tr.Stash(a.Rb)
			case "SetRoot":
				tr.Root = roots[a.Ri-1]
			case "LoadCache":
				err = tr.LoadCache(roots[a.Ri-1])
			case "Reopen":
				tr = NewTrie(roots[a.Ri-1], vhash, store)
				tr.CacheHeightLimit = lim
			default:
				err = fmt.Errorf("harness: unknown life-cycle step %s", a.Name)
			}
			return err
		})
		if err != nil && strings.HasPrefix(err.Error(), "harness:") {
			panic(err.Error())
		}
		if err != nil {
			sig := map[string]interface{}{"kind": "life-cycle-step-failed", "level": "trie-roots", "step": a.Name, "cache": cacheClass(lim)}
			if cause := lostNodeCause(err.Error(), f, absKeys, in.Vals); cause != "" {
				sig = map[string]interface{}{"kind": "trie-node-lost", "level": "trie-roots", "cause": cause}
			}
			rep.Violate(sig, rpOf(0, "", ""), "trie-roots, family %v, cache limit %d: step %d (%s) of %s fails: %v", f.Pos, lim, si+1, a.Name, trailText(nd.Trail), err)
			return
		}
	}
	if len(roots) != len(nd.Hist) {
		panic(fmt.Sprintf("harness: %d roots for %d model roots", len(roots), len(nd.Hist)))
	}
	// the projection of the real state the specification talks about: the current root, and "equal contents <=> equal root"
	if !bytes.Equal(tr.Root, roots[nd.Cur-1]) {
		rep.Violate(map[string]interface{}{"kind": "current-root-differs", "level": "trie-roots", "last": nd.Trail[len(nd.Trail)-1].Name, "cache": cacheClass(lim)}, rpOf(nd.Cur, "", ""),
			"trie-roots, family %v, cache limit %d: after %s the trie's root is %x, the specification's current root #%d is %x", f.Pos, lim, trailText(nd.Trail), tr.Root, nd.Cur, roots[nd.Cur-1])
		return
	}
	for i := range roots {
		for j := 0; j < i; j++ {
			if bytes.Equal(roots[i], roots[j]) != vp.AbsMapEq(nd.Hist[i], nd.Hist[j]) {
				rep.Violate(map[string]interface{}{"kind": "root-not-a-function-of-contents", "level": "trie-roots", "cache": cacheClass(lim)}, rpOf(i+1, "", ""),
					"trie-roots, family %v, cache limit %d: after %s roots #%d (%v) and #%d (%v) are equal=%v", f.Pos, lim, trailText(nd.Trail), j+1, nd.Hist[j], i+1, nd.Hist[i], bytes.Equal(roots[i], roots[j]))
				return
			}
		}
	}
	env := &vp.Env{Level: "trie-roots", Fam: f, Hist: nd.Hist, AbsKeys: absKeys, ValOf: cval, Verify: realAccept, Junk: junk, Rep: rep, Roots: roots}
	for _, m := range nd.Hist {
		env.Models = append(env.Models, prfConcrete(f, m))
	}
	for ri := 1; ri <= len(roots); ri++ {
		if nd.St[ri-1] == "x" {
			// given up by the specification (superseded by Update, stashed, lost with the instance, O4): not judged
			if err := rootsGuard(func() error { _, _, _, _, e := tr.MerkleProofR(f.Key(absKeys[0]), roots[ri-1]); return e }); err != nil {
				rep.Bump("note:given-up-root-unprovable")
			} else {
				rep.Bump("note:given-up-root-still-resolves")
			}
			continue
		}
		shapes := in.Shapes[rootsMapKey(nd.Hist[ri-1])]
		if shapes == nil {
			panic("harness: no shape table for contents " + rootsMapKey(nd.Hist[ri-1]))
		}
		for _, key := range absKeys {
			for _, comp := range []bool{false, true} {
				enc := vp.EncName(comp)
				rp := rpOf(ri, key, enc)
				rep.Res.Count(fmt.Sprintf("roots:%d:%s:%d:%s:%s", ni, variant, ri, key, enc))
				var m *vp.Msg
				var errText string
				if perr := rootsGuard(func() error {
					m, errText = honestProof(tr, nil, roots[ri-1], ri == nd.Cur, f.Key(key), comp)
					return nil
				}); perr != nil {
					m, errText = nil, perr.Error()
				}
				if m == nil {
					sig := map[string]interface{}{"kind": "generator-failed", "level": "trie-roots", "root": rootClass(nd, ri), "cache": cacheClass(lim)}
					if cause := lostNodeCause(errText, f, absKeys, in.Vals); cause != "" {
						sig = map[string]interface{}{"kind": "trie-node-lost", "level": "trie-roots", "cause": cause}
					}
					rep.Violate(sig, rp,
						"trie-roots, family %v, cache limit %d: after %s no %s proof for key %s against the retained root #%d (%s): %s", f.Pos, lim, trailText(nd.Trail), enc, key, ri, rootClass(nd, ri), errText)
					continue
				}
				m.Ri = ri
				// THE property: the answer states what the key held at the requested root
				want, present := env.Models[ri-1][hex.EncodeToString(m.Key)]
				if m.Incl != present || (present && !bytes.Equal(m.Val, want)) {
					elsewhere := "no retained root"
					for rj := len(roots); rj >= 1; rj-- {
						if rj == ri || nd.St[rj-1] == "x" {
							continue
						}
						w2, p2 := env.Models[rj-1][hex.EncodeToString(m.Key)]
						if m.Incl == p2 && (!p2 || bytes.Equal(m.Val, w2)) {
							c := m.Clone()
							c.Root = roots[rj-1]
							if ok, _ := realAccept(c); ok {
								elsewhere = fmt.Sprintf("root #%d (%s)", rj, rootClass(nd, rj))
								break
							}
						}
					}
					rep.Violate(map[string]interface{}{"kind": "proof-not-about-requested-root", "level": "trie-roots", "root": rootClass(nd, ri), "cache": cacheClass(lim), "enc": enc}, rp,
						"trie-roots, family %v, cache limit %d: after %s the %s proof requested for key %s at root #%d (%s, contents %v) claims incl=%v val=%s; at that root the key is present=%v val=%s; the answer verifies against %s",
						f.Pos, lim, trailText(nd.Trail), enc, key, ri, rootClass(nd, ri), nd.Hist[ri-1], m.Incl, absVal(m.Val, in.Vals), present, absVal(want, in.Vals), elsewhere)
					continue
				}
				sh, ok := shapes[key]
				if !ok {
					panic("harness: no shape for key " + key)
				}
				if !env.CheckHonest(m, sh, vp.Replay{Level: "trie-roots", Family: f.Pos, Base: rp.Base, Hist: nd.Hist, Ri: ri, Key: key, Enc: enc, Message: trailText(nd.Trail)}) {
					continue
				}
				// transplant to every other retained root: accepted there only if the design accepts it there
				// (plain encoding in the no-cache replay, compressed in the other one: the verifiers do not depend on the cache)
				for rj := 1; rj <= len(roots); rj++ {
					if comp != (lim <= 256) {
						break
					}
					if rj == ri || nd.St[rj-1] == "x" || bytes.Equal(roots[rj-1], roots[ri-1]) {
						continue
					}
					c := m.Clone()
					c.Root, c.Ri = roots[rj-1], rj
					rep.Res.Count("")
					if ra, _ := realAccept(c); ra && !vp.SpecAccept(c) {
						rpx := rp
						rpx.Other = rj
						rep.Violate(map[string]interface{}{"kind": "proof-accepted-against-other-root", "level": "trie-roots", "enc": enc}, rpx,
							"trie-roots, family %v: the %s proof of key %s generated for root #%d is accepted by the real verifier against root #%d, the design rejects it: %s", f.Pos, enc, key, ri, rj, c)
					}
				}
			}
		}
	}
}

// lostNodeCause classifies "the trie node <hex> is unavailable": a node whose hash is the hash of a (key, value) leaf with height
// byte 0 is the leaf at height 0 — and, because byte(256) = 0 (oddity O3 of Proof.tla), also that leaf as the shortcut of a
// single-key trie at height 256.
func lostNodeCause(errText string, f *vp.Family, absKeys, vals []string) string {
	const marker = "the trie node "
	i := strings.Index(errText, marker)
	if i < 0 || len(errText) < i+len(marker)+64 {
		return ""
	}
	h, err := hex.DecodeString(errText[i+len(marker) : i+len(marker)+64])
	if err != nil {
		return ""
	}
	for _, k := range absKeys {
		for _, v := range vals {
			if bytes.Equal(h, vhash(f.Key(k), cval(v), []byte{0})) {
				return "height-0-leaf-shares-hash-with-root-shortcut"
			}
		}
	}
	return ""
}

// rootsGuard runs a call into the code under test; a panic there comes back as an error
func rootsGuard(fn func() error) (err error) {
	defer func() {
		if r := recover(); r != nil {
			err = fmt.Errorf("PANIC in pkg/trie: %v", r)
		}
	}()
	return fn()
}

func absVal(v []byte, vals []string) string {
	if len(v) == 0 {
		return "none"
	}
	for _, a := range vals {
		if bytes.Equal(v, cval(a)) {
			return a
		}
	}
	return hex.EncodeToString(v)
}

func trailText(t []rootsAct) string {
	var parts []string
	for _, a := range t {
		switch a.Name {
		case "Update", "AtomicUpdate":
			parts = append(parts, fmt.Sprintf("%s(%s)", a.Name, rootsMapKey(a.Upd)))
		case "Stash":
			parts = append(parts, fmt.Sprintf("Stash(%v)", a.Rb))
		case "Commit":
			parts = append(parts, "Commit")
		default:
			parts = append(parts, fmt.Sprintf("%s(#%d)", a.Name, a.Ri))
		}
	}
	if len(parts) == 0 {
		return "<start>"
	}
	return strings.Join(parts, "; ")
}

func TestVerifProofRoots(t *testing.T) {
	inPath, outPath := os.Getenv("VERIF_ROOTS_IN"), os.Getenv("VERIF_ROOTS_OUT")
	if !verifkit.Enabled() || inPath == "" || outPath == "" {
		t.Skip("run through bin/vcheck")
	}
	raw, err := os.ReadFile(inPath)
	if err != nil {
		t.Fatal(err)
	}
	var in rootsInput
	if err := json.Unmarshal(raw, &in); err != nil {
		t.Fatal(err)
	}
	res := verifkit.NewResult()
	rep := vp.NewReport(res)
	defer func() {
		res.Extra["counts"] = rep.Snapshot()
		os.Setenv("VERIF_OUT", outPath) // (the result of TestVerifProof, which ran before, is already written)
		if err := res.Write(); err != nil {
			t.Fatal(err)
		}
	}()
	var absKeys []string
	for i := 0; i < 1<<uint(in.H); i++ {
		absKeys = append(absKeys, fmt.Sprintf("%0*b", in.H, i))
	}
	type famJunk struct {
		f    *vp.Family
		junk []byte
	}
	var fams []famJunk
	for fi, pos := range in.Families {
		rng := verifkit.Rng(int64(7000 + fi))
		f := vp.NewFamily(pos, rng, in.Background)
		junk := make([]byte, 32)
		rng.Read(junk)
		fams = append(fams, famJunk{f, junk})
	}
	var wg sync.WaitGroup
	sem := make(chan struct{}, runtime.NumCPU())
	var failMu sync.Mutex
	var failures []string
	const chunk = 16
	for n0 := 0; n0 < len(in.Nodes); n0 += chunk {
		n0 := n0
		wg.Add(1)
		sem <- struct{}{}
		go func() {
			defer func() {
				if r := recover(); r != nil {
					failMu.Lock()
					failures = append(failures, fmt.Sprint(r))
					failMu.Unlock()
				}
				<-sem
				wg.Done()
			}()
			for ni := n0; ni < n0+chunk && ni < len(in.Nodes); ni++ {
				// every state without live cache (the node's configuration) and with one; the families take turns
				a, b := fams[ni%len(fams)], fams[(ni+1)%len(fams)]
				lim := 0
				if ni%2 == 1 {
					lim = 232
				}
				rootsRun(&in, ni, a.f, 257, a.junk, absKeys, rep, "nocache")
				rootsRun(&in, ni, b.f, lim, b.junk, absKeys, rep, "cache")
				if ni == len(in.Nodes)/2 {
					res.Sample(map[string]interface{}{"level": "trie-roots", "trail": trailText(in.Nodes[ni].Trail), "st": in.Nodes[ni].St, "cur": in.Nodes[ni].Cur})
				}
			}
		}()
	}
	wg.Wait()
	if len(failures) > 0 {
		t.Fatalf("harness failure (no verdict): %s", failures[0])
	}
}
