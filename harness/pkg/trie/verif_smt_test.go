//go:build verif

package trie

// Conformance harness for spec/state/Smt.tla (C10): replays every transition of the TLC state
// graph (and seeded walks through it) on the real Trie, over several concretisations of the
// abstract bit-string keys into prefix-colliding 256-bit keys.

import (
	"bytes"
	"crypto/sha256"
	"encoding/hex"
	"fmt"
	"math/rand"
	"os"
	"runtime"
	"sort"
	"strings"
	"sync"
	"testing"

	"github.com/aergoio/aergo-lib/db"
	"github.com/aergoio/aergo/v2/internal/verifkit"
)

// ---------------------------------------------------------------- input (from TLC via vcheck)

type smtTransition struct {
	Src map[string]string `json:"src"` // abstract key (bit string) -> abstract value
	Upd map[string]string `json:"upd"` // abstract key -> value or "DEL"
	Dst map[string]string `json:"dst"`
}

type smtInput struct {
	H           int             `json:"h"`
	Keys        []string        `json:"keys"`
	Transitions []smtTransition `json:"transitions"`
	Walks       [][]int         `json:"walks"`    // each walk: indices into Transitions, chained from the empty map
	Families    [][]int         `json:"families"` // bit positions (ascending, 0..255) for abstract bits 1..H
	Background  int             `json:"background"`
	RandomOps   int             `json:"random_ops"` // size of the randomized large-batch driver (0 = off)
}

// ---------------------------------------------------------------- concretisation

func vhash(data ...[]byte) []byte {
	h := sha256.New()
	for _, d := range data {
		h.Write(d)
	}
	return h.Sum(nil)
}

type family struct {
	pos  []int
	base []byte
	bg   map[string][]byte // background keys (hex) -> value, never modified
}

func (f *family) key(abs string) []byte {
	k := append([]byte(nil), f.base...)
	for i, c := range abs {
		p := f.pos[i]
		if c == '1' {
			k[p/8] |= 1 << uint(7-p%8)
		} else {
			k[p/8] &^= 1 << uint(7-p%8)
		}
	}
	return k
}

func cval(abs string) []byte {
	if abs == "DEL" {
		return DefaultLeaf
	}
	return vhash([]byte("value:" + abs))
}

func newFamily(pos []int, rng *rand.Rand, nbg int) *family {
	f := &family{pos: pos, base: make([]byte, 32), bg: map[string][]byte{}}
	rng.Read(f.base)
	// background keys: share a prefix of random length < pos[0] with the base, then differ
	for i := 0; i < nbg && pos[0] > 0; i++ {
		k := make([]byte, 32)
		rng.Read(k)
		p := rng.Intn(pos[0]) // first differing bit
		for b := 0; b < p; b++ {
			if bitIsSet(f.base, b) {
				k[b/8] |= 1 << uint(7-b%8)
			} else {
				k[b/8] &^= 1 << uint(7-b%8)
			}
		}
		if bitIsSet(f.base, p) {
			k[p/8] &^= 1 << uint(7-p%8)
		} else {
			k[p/8] |= 1 << uint(7-p%8)
		}
		f.bg[hex.EncodeToString(k)] = vhash([]byte(fmt.Sprintf("bg%d", i)))
	}
	return f
}

// concrete contents = background + concretised abstract map
func (f *family) concrete(m map[string]string) map[string][]byte {
	out := map[string][]byte{}
	for k, v := range f.bg {
		out[k] = v
	}
	for k, v := range m {
		out[hex.EncodeToString(f.key(k))] = cval(v)
	}
	return out
}

// ---------------------------------------------------------------- reference (from the spec, not from trie.go)

func sortedKeys(m map[string][]byte) [][]byte {
	ks := make([][]byte, 0, len(m))
	for k := range m {
		b, _ := hex.DecodeString(k)
		ks = append(ks, b)
	}
	sort.Slice(ks, func(i, j int) bool { return bytes.Compare(ks[i], ks[j]) < 0 })
	return ks
}

// refRoot is Smt.tla's Tree/Root over the real hash: a key sits at the highest subtree containing only it.
func refRoot(m map[string][]byte) []byte {
	ks := sortedKeys(m)
	if len(ks) == 0 {
		return nil
	}
	return refTree(m, ks, 0)
}

func refTree(m map[string][]byte, ks [][]byte, lvl int) []byte {
	if len(ks) == 0 {
		return nil
	}
	if len(ks) == 1 {
		return vhash(ks[0], m[hex.EncodeToString(ks[0])], []byte{byte(256 - lvl)})
	}
	i := sort.Search(len(ks), func(i int) bool { return bitIsSet(ks[i], lvl) })
	l, r := refTree(m, ks[:i], lvl+1), refTree(m, ks[i:], lvl+1)
	if l == nil {
		l = DefaultLeaf
	}
	if r == nil {
		r = DefaultLeaf
	}
	return vhash(l, r)
}

func lcp(a, b []byte) int {
	for i := 0; i < 256; i++ {
		if bitIsSet(a, i) != bitIsSet(b, i) {
			return i
		}
	}
	return 256
}

// refDepth is Smt.tla's Depth on concrete keys.
func refDepth(k []byte, ks [][]byte) int {
	d := 0
	for _, o := range ks {
		if bytes.Equal(o, k) {
			continue
		}
		if l := lcp(k, o) + 1; l > d {
			d = l
		}
	}
	return d
}

// ---------------------------------------------------------------- applying a batch the way the node does

func applyBatch(t *Trie, upd map[string][]byte) error {
	ks := sortedKeys(upd)
	vs := make([][]byte, len(ks))
	for i, k := range ks {
		vs[i] = upd[hex.EncodeToString(k)]
	}
	if len(ks) == 0 {
		return nil
	}
	if _, err := t.Update(ks, vs); err != nil {
		return err
	}
	return t.Commit()
}

func (f *family) concreteUpd(u map[string]string) map[string][]byte {
	out := map[string][]byte{}
	for k, v := range u {
		out[hex.EncodeToString(f.key(k))] = cval(v)
	}
	return out
}

type smtCase struct {
	Family []int               `json:"family"`
	Base   string              `json:"base"`
	Route  string              `json:"route"`
	Src    map[string]string   `json:"src"`
	Upd    map[string]string   `json:"upd"`
	Dst    map[string]string   `json:"dst"`
	Hist   []map[string]string `json:"hist,omitempty"`
}

// classify gives the known-findings signature of a failing transition: which structural
// situation the batch is in (used only to tell one specific defect from any other).
func classifyBatch(src, upd map[string]string) string {
	var dels, sets []string
	for k, v := range upd {
		if v == "DEL" {
			if _, ok := src[k]; ok {
				dels = append(dels, k)
			}
		} else {
			sets = append(sets, k)
		}
	}
	sort.Strings(dels)
	sort.Strings(sets)
	if len(dels) == 1 && len(sets) >= 2 {
		lo, hi := false, false
		for _, s := range sets {
			if s < dels[0] {
				lo = true
			}
			if s > dels[0] {
				hi = true
			}
		}
		if lo && hi {
			return "delete-present-key-with-smaller-and-larger-key-in-same-batch"
		}
	}
	return fmt.Sprintf("dels=%d,sets=%d", len(dels), len(sets))
}

// checkState compares the real trie with the expected concrete contents; returns "" or a description.
func checkState(t *Trie, f *family, absKeys []string, want map[string][]byte, checkShape bool) (kind, text string) {
	// 1. reads
	for _, ak := range absKeys {
		k := f.key(ak)
		got, err := t.Get(k)
		if err != nil {
			return "get-error", fmt.Sprintf("Get(%s): %v", ak, err)
		}
		w := want[hex.EncodeToString(k)]
		if !bytes.Equal(got, w) {
			return "wrong-read", fmt.Sprintf("Get(%s) = %x, model says %x", ak, got, w)
		}
	}
	for hk, w := range f.bg {
		k, _ := hex.DecodeString(hk)
		got, err := t.Get(k)
		if err != nil || !bytes.Equal(got, w) {
			return "wrong-read", fmt.Sprintf("background key %s = %x (err %v), want %x", hk, got, err, w)
		}
	}
	// 2. root is the canonical root of the contents
	if ref := refRoot(want); !bytes.Equal(ref, t.Root) {
		return "root-not-canonical", fmt.Sprintf("root %x, canonical root of the contents %x (%d keys)", t.Root, ref, len(want))
	}
	// 3. canonical shape through the public proof API
	if checkShape {
		ks := sortedKeys(want)
		for _, k := range ks {
			ap, incl, _, val, err := t.MerkleProof(k)
			if err != nil {
				return "proof-error", fmt.Sprintf("MerkleProof(%x): %v", k, err)
			}
			if !incl || !bytes.Equal(val, want[hex.EncodeToString(k)]) {
				return "proof-wrong", fmt.Sprintf("MerkleProof(%x): included=%v val=%x", k, incl, val)
			}
			if d := refDepth(k, ks); len(ap) != d {
				return "shape-not-canonical", fmt.Sprintf("key %x sits at depth %d, canonical depth %d", k, len(ap), d)
			}
		}
	}
	return "", ""
}

func TestVerifSmt(t *testing.T) {
	if !verifkit.Enabled() {
		t.Skip("run through bin/vcheck")
	}
	var in smtInput
	if err := verifkit.ReadInput(&in); err != nil {
		t.Fatal(err)
	}
	res := verifkit.NewResult()
	defer func() {
		if err := res.Write(); err != nil {
			t.Fatal(err)
		}
	}()

	// index transitions by source state
	stateKey := func(m map[string]string) string {
		ks := make([]string, 0, len(m))
		for k, v := range m {
			ks = append(ks, k+"="+v)
		}
		sort.Strings(ks)
		return strings.Join(ks, ",")
	}
	bySrc := map[string][]int{}
	reach := map[string][]int{} // state -> a path (transition indices) from the empty map
	for i, tr := range in.Transitions {
		bySrc[stateKey(tr.Src)] = append(bySrc[stateKey(tr.Src)], i)
	}
	// BFS for a shortest path to every state, and a second, different (longer, randomised) path
	reach[""] = []int{}
	queue := []string{""}
	for len(queue) > 0 {
		s := queue[0]
		queue = queue[1:]
		for _, i := range bySrc[s] {
			d := stateKey(in.Transitions[i].Dst)
			if _, ok := reach[d]; !ok {
				reach[d] = append(append([]int{}, reach[s]...), i)
				queue = append(queue, d)
			}
		}
	}
	randomPathTo := func(target string, r *rand.Rand) []int {
		// random walk of 3..6 steps, then the BFS path from wherever... simpler: walk randomly and
		// finish by the single transition (if any) leading to target, else fall back to BFS path.
		cur := ""
		var path []int
		for n := 0; n < 3+r.Intn(4); n++ {
			outs := bySrc[cur]
			i := outs[r.Intn(len(outs))]
			path = append(path, i)
			cur = stateKey(in.Transitions[i].Dst)
		}
		for _, i := range bySrc[cur] {
			if stateKey(in.Transitions[i].Dst) == target {
				return append(path, i)
			}
		}
		// two-step completion
		for _, i := range bySrc[cur] {
			mid := stateKey(in.Transitions[i].Dst)
			for _, j := range bySrc[mid] {
				if stateKey(in.Transitions[j].Dst) == target {
					return append(path, i, j)
				}
			}
		}
		return reach[target]
	}

	rootOf := map[string]string{} // concrete contents digest -> root (history independence across the whole run)
	var rootMu sync.Mutex
	var traceMu sync.Mutex
	var traceBuf bytes.Buffer
	absDepth := func(pos []int, d int) int { // number of family positions below the concrete depth
		n := 0
		for _, p := range pos {
			if p < d {
				n++
			}
		}
		return n
	}
	bitsOf := func(k string) string {
		out := make([]string, len(k))
		for i, c := range k {
			out[i] = string(c)
		}
		return "[" + strings.Join(out, ",") + "]"
	}
	pairs := func(m map[string]string) string {
		ks := make([]string, 0, len(m))
		for k := range m {
			ks = append(ks, k)
		}
		sort.Strings(ks)
		out := make([]string, len(ks))
		for i, k := range ks {
			out[i] = fmt.Sprintf(`{"k":%s,"v":"%s"}`, bitsOf(k), m[k])
		}
		return "[" + strings.Join(out, ",") + "]"
	}
	var wg sync.WaitGroup
	sem := make(chan struct{}, runtime.NumCPU())

	for fi, pos := range in.Families {
		fi, pos := fi, pos
		rng := verifkit.Rng(int64(1000 + fi))
		f := newFamily(pos, rng, in.Background)
		wg.Add(1)
		sem <- struct{}{}
		go func() {
			defer func() { <-sem; wg.Done() }()
			newStore := func() db.DB { return db.NewDB(db.MemoryImpl, "") }

			// ---- part 1: every transition, from two differently-built instances of its source state
			for sk, outs := range bySrc {
				src := in.Transitions[outs[0]].Src
				for route := 0; route < 2; route++ {
					store := newStore()
					tr := NewTrie(nil, vhash, store)
					var path []int
					routeName := "bfs-path"
					if route == 0 {
						path = reach[sk]
					} else {
						routeName = "random-path"
						path = randomPathTo(sk, rng)
					}
					if err := applyBatch(tr, f.bg); err != nil {
						panic(err)
					}
					bad := false
					for _, i := range path {
						if err := applyBatch(tr, f.concreteUpd(in.Transitions[i].Upd)); err != nil {
							res.Violate(map[string]interface{}{"kind": "update-error"}, smtCase{Family: pos, Base: hex.EncodeToString(f.base), Route: routeName, Src: in.Transitions[i].Src, Upd: in.Transitions[i].Upd}, "update error: %v", err)
							bad = true
							break
						}
					}
					if bad {
						continue
					}
					// the source state itself must already be right (it was reached through checked edges,
					// but along another route) — failures here are attributed to the last step of the path
					srcWant := f.concrete(src)
					if kind, text := checkState(tr, f, in.Keys, srcWant, false); kind != "" {
						last := in.Transitions[path[len(path)-1]]
						res.Violate(map[string]interface{}{"kind": kind, "pattern": classifyBatch(last.Src, last.Upd)},
							smtCase{Family: pos, Base: hex.EncodeToString(f.base), Route: routeName, Src: last.Src, Upd: last.Upd, Dst: last.Dst},
							"family %v, state reached by %s: %s", pos, routeName, text)
						continue
					}
					srcRoot := append([]byte(nil), tr.Root...)
					for _, i := range outs {
						e := in.Transitions[i]
						// fresh instance opened on the stored data at the source root
						t2 := NewTrie(srcRoot, vhash, store)
						err := applyBatch(t2, f.concreteUpd(e.Upd))
						cs := smtCase{Family: pos, Base: hex.EncodeToString(f.base), Route: routeName, Src: e.Src, Upd: e.Upd, Dst: e.Dst}
						res.Count(fmt.Sprintf("edge:%d:%d", fi, i))
						if fi == 0 && route == 0 {
							res.Sample(cs)
						}
						if err != nil {
							res.Violate(map[string]interface{}{"kind": "update-error", "pattern": classifyBatch(e.Src, e.Upd)}, cs, "update error: %v", err)
							continue
						}
						want := f.concrete(e.Dst)
						if kind, text := checkState(t2, f, in.Keys, want, true); kind != "" {
							res.Violate(map[string]interface{}{"kind": kind, "pattern": classifyBatch(e.Src, e.Upd)}, cs,
								"family %v (%s): after batch %v on %v: %s", pos, routeName, e.Upd, e.Src, text)
							continue
						}
						dk := hex.EncodeToString(refRoot(want))
						rootMu.Lock()
						if prev, ok := rootOf[dk]; ok && prev != hex.EncodeToString(t2.Root) {
							res.Violate(map[string]interface{}{"kind": "root-history-dependent"}, cs, "two roots for the same contents: %s vs %x", prev, t2.Root)
						}
						rootOf[dk] = hex.EncodeToString(t2.Root)
						rootMu.Unlock()
						// a fresh instance at the new root answers identically
						t3 := NewTrie(t2.Root, vhash, store)
						if kind, text := checkState(t3, f, in.Keys, want, false); kind != "" {
							res.Violate(map[string]interface{}{"kind": "reopen-" + kind, "pattern": classifyBatch(e.Src, e.Upd)}, cs, "reopened instance: %s", text)
						}
					}
					// the source root is still readable with its own contents after all those commits
					t4 := NewTrie(srcRoot, vhash, store)
					if kind, text := checkState(t4, f, in.Keys, srcWant, false); kind != "" {
						res.Violate(map[string]interface{}{"kind": "history-" + kind}, smtCase{Family: pos, Base: hex.EncodeToString(f.base), Src: src},
							"previously committed root %x no longer reads its contents: %s", srcRoot, text)
					}
				}
			}

			// ---- part 2: long walks on ONE long-lived instance, every historical root re-read at the end
			var fam bytes.Buffer
			for wi, walk := range in.Walks {
				fmt.Fprintf(&fam, "{\"ev\":\"Reset\",\"newfam\":%v}\n", wi == 0)
				store := newStore()
				tr := NewTrie(nil, vhash, store)
				if wi%2 == 1 {
					tr.CacheHeightLimit = 232 // the account trie of the node keeps the top levels cached
				}
				if err := applyBatch(tr, f.bg); err != nil {
					panic(err)
				}
				type hr struct {
					root []byte
					m    map[string]string
				}
				var hist []hr
				var histAbs []map[string]string
				ok := true
				for _, i := range walk {
					e := in.Transitions[i]
					cs := smtCase{Family: pos, Base: hex.EncodeToString(f.base), Route: "walk", Src: e.Src, Upd: e.Upd, Dst: e.Dst, Hist: histAbs}
					res.Count(fmt.Sprintf("walk:%d:%d:%d", fi, wi, len(hist)))
					if err := applyBatch(tr, f.concreteUpd(e.Upd)); err != nil {
						res.Violate(map[string]interface{}{"kind": "update-error", "pattern": classifyBatch(e.Src, e.Upd)}, cs, "update error: %v", err)
						ok = false
						break
					}
					if kind, text := checkState(tr, f, in.Keys, f.concrete(e.Dst), true); kind != "" {
						res.Violate(map[string]interface{}{"kind": kind, "pattern": classifyBatch(e.Src, e.Upd)}, cs, "walk %d step %d: %s", wi, len(hist), text)
						ok = false
						break
					}
					hist = append(hist, hr{append([]byte(nil), tr.Root...), e.Dst})
					histAbs = append(histAbs, e.Dst)
					// trace event: what was READ BACK from the real trie (contents, proof depths, root)
					reads := map[string]string{}
					var depths []string
					for _, ak := range in.Keys {
						got, _ := tr.Get(f.key(ak))
						for _, av := range []string{"v1", "v2"} {
							if bytes.Equal(got, cval(av)) {
								reads[ak] = av
							}
						}
						if got != nil {
							ap, _, _, _, _ := tr.MerkleProof(f.key(ak))
							depths = append(depths, fmt.Sprintf(`{"k":%s,"v":%d}`, bitsOf(ak), absDepth(pos, len(ap))))
						}
					}
					// the root id is qualified by the family: contents are compared per family
					fmt.Fprintf(&fam, `{"ev":"Batch","upd":%s,"reads":%s,"depth":[%s],"root":"%d:%x"}`+"\n",
						pairs(e.Upd), pairs(reads), strings.Join(depths, ","), fi, tr.Root)
				}
				if !ok {
					continue
				}
				for hi, h := range hist {
					t5 := NewTrie(h.root, vhash, store)
					if kind, text := checkState(t5, f, in.Keys, f.concrete(h.m), false); kind != "" {
						res.Violate(map[string]interface{}{"kind": "history-" + kind}, smtCase{Family: pos, Base: hex.EncodeToString(f.base), Route: "walk", Hist: histAbs},
							"walk %d: root committed at step %d no longer reads its own contents: %s", wi, hi, text)
						break
					}
				}
			}
			traceMu.Lock()
			traceBuf.Write(fam.Bytes())
			traceMu.Unlock()
		}()
	}
	wg.Wait()
	if tp := os.Getenv("VERIF_TRACE"); tp != "" {
		if err := os.WriteFile(tp, traceBuf.Bytes(), 0o644); err != nil {
			t.Fatal(err)
		}
	}

	// ---- part 3: randomised large batches (parallel subtree updates), GOMAXPROCS 1 and all
	if in.RandomOps > 0 {
		for _, procs := range []int{1, runtime.NumCPU()} {
			old := runtime.GOMAXPROCS(procs)
			r := verifkit.Rng(int64(77 + procs))
			store := db.NewDB(db.MemoryImpl, "")
			tr := NewTrie(nil, vhash, store)
			model := map[string][]byte{}
			var pool [][]byte
			for i := 0; i < in.RandomOps; i++ {
				k := make([]byte, 32)
				r.Read(k)
				if len(pool) > 0 && r.Intn(3) == 0 { // long shared prefix with an existing key
					o := pool[r.Intn(len(pool))]
					p := r.Intn(256)
					for b := 0; b < p; b++ {
						if bitIsSet(o, b) {
							k[b/8] |= 1 << uint(7-b%8)
						} else {
							k[b/8] &^= 1 << uint(7-b%8)
						}
					}
				}
				pool = append(pool, k)
			}
			for round := 0; round < 12; round++ {
				upd := map[string][]byte{}
				n := 1 + r.Intn(len(pool)/2)
				for j := 0; j < n; j++ {
					k := pool[r.Intn(len(pool))]
					if r.Intn(3) == 0 {
						upd[hex.EncodeToString(k)] = DefaultLeaf
					} else {
						upd[hex.EncodeToString(k)] = vhash([]byte{byte(r.Intn(256))})
					}
				}
				if err := applyBatch(tr, upd); err != nil {
					res.Violate(map[string]interface{}{"kind": "update-error", "driver": "random"}, map[string]interface{}{"round": round, "procs": procs}, "random driver: %v", err)
					break
				}
				for k, v := range upd {
					if bytes.Equal(v, DefaultLeaf) {
						delete(model, k)
					} else {
						model[k] = v
					}
				}
				res.Count(fmt.Sprintf("random:%d:%d", procs, round))
				if ref := refRoot(model); !bytes.Equal(ref, tr.Root) {
					res.Violate(map[string]interface{}{"kind": "root-not-canonical", "driver": "random"},
						map[string]interface{}{"round": round, "procs": procs, "seed": verifkit.Seed(), "ops": in.RandomOps},
						"random driver (GOMAXPROCS=%d) round %d: root %x, canonical %x", procs, round, tr.Root, ref)
					break
				}
				bad := false
				for _, k := range pool {
					got, _ := tr.Get(k)
					if !bytes.Equal(got, model[hex.EncodeToString(k)]) {
						res.Violate(map[string]interface{}{"kind": "wrong-read", "driver": "random"},
							map[string]interface{}{"round": round, "procs": procs, "seed": verifkit.Seed(), "ops": in.RandomOps},
							"random driver round %d: Get(%x) = %x want %x", round, k, got, model[hex.EncodeToString(k)])
						bad = true
						break
					}
				}
				if bad {
					break
				}
			}
			runtime.GOMAXPROCS(old)
		}
	}
}
