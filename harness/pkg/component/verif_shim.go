//go:build verif

package component

// VerifKill stops the component's actor WITHOUT running the actor's BeforeStop hook
// (used by the /verif node harness; see internal/verifnode.(*Node).Stop).
func (base *BaseComponent) VerifKill() {
	if base.pid != nil {
		base.pid.Stop()
		base.pid = nil
	}
}
