//go:build verif

package system

// Read-only observation shim for the C15 conformance harness (harness/contract/name): exposes the
// unexported in-memory voting power rank, a reload of it from the contract state, the in-memory
// system parameters and repeated rebuilds of the stored vote list.  Nothing here changes any state
// of the package except VerifRestart, which does what a node restart does.

import (
	"bytes"
	"crypto/sha256"
	"encoding/hex"
	"fmt"
	"math/big"
	"sort"

	"github.com/aergoio/aergo/v2/state/statedb"
	"github.com/aergoio/aergo/v2/types/dbkey"
)

// VerifVp is one voter of the voting power rank.
type VerifVp struct {
	Addr  string `json:"addr"` // hex address
	ID    string `json:"id"`   // hex account id
	Power string `json:"power"`
}

// VerifVpr is a dump of a voting power rank.
type VerifVpr struct {
	Total      string               `json:"total"`
	Powers     map[string]string    `json:"powers"`  // hex address -> power (topVoters.powers)
	Members    []VerifVp            `json:"members"` // the ranking tree in order
	MembersErr string               `json:"members_err,omitempty"`
	MemberSize int                  `json:"member_size"`
	Buckets    map[string][]VerifVp `json:"buckets"` // bucket index -> list in order (non-empty buckets)
	Lowest     *VerifVp             `json:"lowest,omitempty"`
	Pending    int                  `json:"pending"` // non-zero entries of the change buffer
}

func verifVp(vp *votingPower) VerifVp {
	id := vp.getID()
	return VerifVp{Addr: hex.EncodeToString(vp.getAddr()), ID: hex.EncodeToString(id[:]), Power: vp.getPower().String()}
}

func verifDump(v *vpr) *VerifVpr {
	d := &VerifVpr{Powers: map[string]string{}, Buckets: map[string][]VerifVp{}}
	if v == nil {
		d.MembersErr = "nil rank"
		return d
	}
	d.Total = v.getTotalPower().String()
	for _, vp := range v.voters.powers {
		d.Powers[hex.EncodeToString(vp.getAddr())] = vp.getPower().String()
	}
	// the members tree may be inconsistent: walk it defensively
	func() {
		defer func() {
			if r := recover(); r != nil {
				d.MembersErr = fmt.Sprintf("panic while iterating: %v", r)
			}
		}()
		d.MemberSize = v.voters.members.Size()
		it := v.voters.members.Iterator()
		n := 0
		for it.Next() {
			n++
			if n > 4*d.MemberSize+16 {
				d.MembersErr = "iteration does not terminate"
				break
			}
			d.Members = append(d.Members, verifVp(it.Key().(*votingPower)))
		}
	}()
	for i, l := range v.store.buckets {
		if l == nil || l.Len() == 0 {
			continue
		}
		var b []VerifVp
		for e := l.Front(); e != nil; e = e.Next() {
			b = append(b, verifVp(toVotingPower(e)))
		}
		d.Buckets[fmt.Sprint(i)] = b
	}
	if v.lowest != nil {
		l := verifVp(v.lowest)
		d.Lowest = &l
	}
	for _, c := range v.changes {
		if c.cmp(zeroValue) != 0 {
			d.Pending++
		}
	}
	return d
}

// VerifDumpVpr dumps the live in-memory voting power rank.
func VerifDumpVpr() *VerifVpr { return verifDump(votingPowerRank) }

// VerifLoadVpr rebuilds a voting power rank from the contract state (what a restarted node would hold) and runs
// the voting reward lottery on it for the given seeds.
func VerifLoadVpr(scs *statedb.ContractState, seeds []int64) (*VerifVpr, []string, error) {
	v, err := loadVpr(scs)
	if err != nil {
		return nil, nil, err
	}
	return verifDump(v), verifWinners(v, seeds), nil
}

// VerifVprRaw returns a digest of the stored voting power buckets (loadVpr is a function of exactly these bytes).
func VerifVprRaw(scs *statedb.ContractState) (string, error) {
	h := sha256.New()
	for i := uint8(0); i < vprBucketsMax; i++ {
		b, err := scs.GetData(dbkey.SystemVpr(i))
		if err != nil {
			return "", err
		}
		fmt.Fprintf(h, "%d:%d:", i, len(b))
		h.Write(b)
	}
	return hex.EncodeToString(h.Sum(nil)), nil
}

// VerifMemWinners runs the voting reward lottery on the live rank.
func VerifMemWinners(seeds []int64) []string { return verifWinners(votingPowerRank, seeds) }

func verifWinners(v *vpr, seeds []int64) []string {
	out := make([]string, len(seeds))
	for i, seed := range seeds {
		if a, err := v.pickVotingRewardWinner(seed); err != nil {
			out[i] = "error: " + err.Error()
		} else {
			out[i] = hex.EncodeToString(a)
		}
	}
	return out
}

// VerifRestart re-initialises the in-memory governance state from the contract state, as a node start does
// (chain.initGenesis/InitSystemParams + dpos.InitVPR).
func VerifRestart(scs *statedb.ContractState, bpCount int) error {
	InitSystemParams(scs, bpCount)
	return InitVotingPowerRank(scs)
}

// VerifParams returns the parameters in force (memory), the pending ones (memory) and the ones a reload from
// the contract state would give.
func VerifParams(scs *statedb.ContractState) (cur, next, disk map[string]string) {
	cur, next, disk = map[string]string{}, map[string]string{}, map[string]string{}
	loaded := loadParams(scs)
	for i := sysParamIndex(0); i < sysParamMax; i++ {
		id := i.ID()
		cur[id] = GetParam(id).String()
		if v := systemParams.getNextBlockParam(id); v != nil {
			next[id] = v.String()
		}
		if v := loaded.getParam(id); v != nil {
			disk[id] = v.String()
		}
	}
	return
}

// VerifVoteTotal reads the recorded vote total of a parameter vote.
func VerifVoteTotal(scs *statedb.ContractState, id string) (*big.Int, error) {
	data, err := scs.GetData(dbkey.SystemVoteTotal(GenProposalKey(id)))
	if err != nil {
		return nil, err
	}
	return new(big.Int).SetBytes(data), nil
}

// VerifRebuildVoteList rebuilds the sorted vote list of an issue n times from the stored result (the way every
// Sync does) and returns the distinct serialisations it produced, sorted.  More than one = the stored ranking
// depends on Go's map iteration order.
func VerifRebuildVoteList(scs *statedb.ContractState, issue string, n int) ([]string, error) {
	key := defaultVoteKey
	if issue != string(defaultVoteKey) {
		key = GenProposalKey(issue)
	}
	seen := map[string]bool{}
	for i := 0; i < n; i++ {
		vr, err := loadVoteResult(scs, key)
		if err != nil {
			return nil, err
		}
		seen[hex.EncodeToString(serializeVoteList(vr.buildVoteList(), vr.ex))] = true
	}
	out := make([]string, 0, len(seen))
	for k := range seen {
		out = append(out, k)
	}
	sort.Strings(out)
	return out, nil
}

// VerifStoredVoteList returns the stored serialisation of the ranking of an issue.
func VerifStoredVoteList(scs *statedb.ContractState, issue string) (string, error) {
	key := defaultVoteKey
	if !bytes.Equal([]byte(issue), defaultVoteKey) {
		key = GenProposalKey(issue)
	}
	data, err := scs.GetData(dbkey.SystemVoteSort(key))
	return hex.EncodeToString(data), err
}
