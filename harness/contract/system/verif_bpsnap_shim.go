//go:build verif

package system

// Shim for the BpSnapshots conformance harness: the state-changing half of a parameter vote that reached its
// threshold (VoteResult.Sync -> updateParam), without the voting transactions around it.

import (
	"math/big"

	"github.com/aergoio/aergo/v2/state/statedb"
)

// VerifUpdateBpCount does what VoteResult.Sync does when the BPCOUNT vote passes the threshold with value n:
// the parameter is written to the contract state and remembered as the next block's value.
func VerifUpdateBpCount(scs *statedb.ContractState, n int64) error {
	return updateParam(scs, bpCount.ID(), big.NewInt(n))
}
