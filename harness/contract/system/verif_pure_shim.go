//go:build verif

package system

// Set-up helper for the C20 read-purity harness (harness/contract/name/verif_govpure_test.go): writes a staking
// record the way stakeCmd.run does (setStaking), without the rest of a system transaction.

import (
	"github.com/aergoio/aergo/v2/state/statedb"
	"github.com/aergoio/aergo/v2/types"
)

// VerifSetStaking stores the staking record of account in the system contract state.
func VerifSetStaking(scs *statedb.ContractState, account []byte, st *types.Staking) error {
	return setStaking(scs, account, st)
}
