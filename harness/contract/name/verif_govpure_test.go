//go:build verif

package name

// C20, dynamic part, governance contracts (spec/vm/ReadPurity.tla: GovTx, GvStaking, GvResolve, GvAddress, GvOwner).
//
// The read-only host calls of the VM also bottom out OUTSIDE package state: luaGetStaking -> statedb.GetSystemAccountState,
// statedb.GetNameAccountState, name.GetAddress, system.GetStaking; luaNameResolve and every callback that takes a name or
// an address -> name.Resolve.  Same twin-run differential as harness/state/verif_pure_test.go: run A replays a walk of
// governance transactions (which put the storage of the system / name contract into the storage cache of the block state:
// only then does a ContractState opened by a read share the live storage of the block) and performs the read transitions
// TLC generated for every state on the walk, comparing the working state of the block state and of another block state
// before / after every single Go call and the result with the model's; run B is the walk without the reads; roots and
// dumps after Update + Commit must be equal.

import (
	"bytes"
	"encoding/hex"
	"fmt"
	"math/big"
	"runtime"
	"strings"
	"sync"
	"testing"

	"github.com/aergoio/aergo-lib/db"
	"github.com/aergoio/aergo/v2/contract/system"
	"github.com/aergoio/aergo/v2/internal/common"
	"github.com/aergoio/aergo/v2/internal/verifkit"
	"github.com/aergoio/aergo/v2/state"
	"github.com/aergoio/aergo/v2/state/statedb"
	"github.com/aergoio/aergo/v2/types"
)

type gpAct struct {
	Name string `json:"name"`
	E    string `json:"e,omitempty"`
	Res  string `json:"res,omitempty"`
	Cls  string `json:"cls,omitempty"`
}

type gpGraph struct {
	Acts    []gpAct    `json:"acts"`
	ReadsAt [][]int    `json:"reads_at"`
	Walks   [][][2]int `json:"walks"`
	Init    int        `json:"init"`
}

type gpInput struct {
	Gov   gpGraph `json:"gov"`
	Salts int     `json:"salts"` // concretisations per walk
}

type gpReplay struct {
	Part string  `json:"part"`
	Salt string  `json:"salt"`
	Walk int     `json:"walk"`
	Acts []gpAct `json:"acts"`
	Call string  `json:"call,omitempty"`
	Seed int64   `json:"seed"`
}

type gpConc struct{ salt string }

func (c gpConc) addr(n string) []byte {
	b := make([]byte, types.AddressLength)
	copy(b, common.Hasher([]byte("verif-c20-gov/"+c.salt+"/"+n)))
	b[0] = 0x03
	return b
}

// account names are 12 characters of [a-zA-Z0-9]
func (c gpConc) name(n string) []byte {
	switch n {
	case "special":
		return []byte(types.AergoSystem)
	case "addr":
		return c.addr("some-address")
	}
	h := hex.EncodeToString(common.Hasher([]byte(c.salt + "/" + n)))
	return []byte((n[:3] + h)[:types.NameLength])
}

func gpAmount(v string) *big.Int { // "v3" -> 3000 aergo-ish
	var n int64
	fmt.Sscanf(v, "v%d", &n)
	return new(big.Int).Mul(big.NewInt(n*1000), big.NewInt(1e15))
}

type gpWorld struct {
	conc      gpConc
	store     db.DB
	root      []byte
	bs, other *state.BlockState
	last      [2]statedb.VerifWorking
}

func (w *gpWorld) print() [2]statedb.VerifWorking {
	return [2]statedb.VerifWorking{w.bs.VerifWorkingState(), w.other.VerifWorkingState()}
}

func gpStake(bs *state.BlockState, addr []byte, v string, when uint64) error {
	scs, err := statedb.GetSystemAccountState(bs.StateDB)
	if err != nil {
		return err
	}
	if err := system.VerifSetStaking(scs, addr, &types.Staking{Amount: gpAmount(v).Bytes(), When: when}); err != nil {
		return err
	}
	return statedb.StageContractState(scs, bs.StateDB)
}

func gpRegister(bs *state.BlockState, nm, owner []byte) error {
	scs, err := statedb.GetNameAccountState(bs.StateDB)
	if err != nil {
		return err
	}
	if err := createName(scs, nm, owner); err != nil {
		return err
	}
	return statedb.StageContractState(scs, bs.StateDB)
}

func newGpWorld(conc gpConc) (*gpWorld, error) {
	w := &gpWorld{conc: conc, store: db.NewDB(db.MemoryImpl, "")}
	// committed: the staking record of "staker", the name "regname" owned by "owner"
	b := state.NewBlockState(statedb.NewStateDB(w.store, nil, false))
	if err := gpStake(b, conc.addr("staker"), "v1", 1); err != nil {
		return nil, err
	}
	if err := gpRegister(b, conc.name("regname"), conc.addr("owner")); err != nil {
		return nil, err
	}
	if err := b.Update(); err != nil {
		return nil, err
	}
	if err := b.Commit(); err != nil {
		return nil, err
	}
	w.root = append([]byte(nil), b.GetRoot()...)
	if len(w.root) == 0 {
		return nil, fmt.Errorf("harness: empty committed root")
	}
	w.bs = state.NewBlockState(statedb.NewStateDB(w.store, w.root, false))
	// another block state over the same store with its own uncommitted governance work
	w.other = state.NewBlockState(statedb.NewStateDB(w.store, w.root, false))
	if err := gpStake(w.other, conc.addr("other-staker"), "v9", 9); err != nil {
		return nil, err
	}
	w.last = w.print()
	return w, nil
}

func (w *gpWorld) mutate(a *gpAct) error {
	if a.Name != "GovTx" {
		return fmt.Errorf("harness: unknown step %q", a.Name)
	}
	if a.E == "sys" {
		return gpStake(w.bs, w.conc.addr("blockstaker"), "v3", 3)
	}
	return gpRegister(w.bs, w.conc.name("blockname"), w.conc.addr("owner"))
}

func (w *gpWorld) finish() (string, string, string, error) {
	if err := w.bs.Update(); err != nil {
		return "", "", "", err
	}
	root := append([]byte(nil), w.bs.GetRoot()...)
	if err := w.bs.Commit(); err != nil {
		return "", "", "", err
	}
	dump, err := statedb.NewStateDB(w.store, root, false).Dump()
	if err != nil {
		return "", "", "", err
	}
	if err := w.other.Update(); err != nil {
		return "", "", "", err
	}
	return hex.EncodeToString(root), string(dump), hex.EncodeToString(w.other.GetRoot()), nil
}

type gpRun struct {
	w     *gpWorld
	res   *verifkit.Result
	walk  int
	acts  []gpAct
	calls map[string]int
}

func (r *gpRun) replay(a *gpAct, call string) gpReplay {
	return gpReplay{Part: "gov", Salt: r.w.conc.salt, Walk: r.walk, Acts: append(append([]gpAct{}, r.acts...), *a), Call: call, Seed: verifkit.Seed()}
}

func (r *gpRun) probe(a *gpAct, call string, f func() error) bool {
	r.calls[call]++
	var err error
	func() {
		defer func() {
			if p := recover(); p != nil {
				err = fmt.Errorf("panic: %v", p)
			}
		}()
		err = f()
	}()
	now := r.w.print()
	var d []string
	if s := r.w.last[0].Diff(now[0]); s != "" {
		d = append(d, "the block state: "+s)
	}
	if s := r.w.last[1].Diff(now[1]); s != "" {
		d = append(d, "ANOTHER block state of the same chain: "+s)
	}
	r.w.last = now
	if len(d) > 0 {
		r.res.Violate(map[string]interface{}{"kind": "read-changes-state", "call": call, "target": a.Cls}, r.replay(a, call),
			"%s on %s (%s %s) is what a read-only host call of the VM bottoms out in, but it changed %s", call, a.Cls, a.Name, a.E, strings.Join(d, "; "))
		return false
	}
	if err != nil {
		r.res.Violate(map[string]interface{}{"kind": "read-fails", "call": call, "target": a.Cls}, r.replay(a, call), "%s on %s (%s %s): %v", call, a.Cls, a.Name, a.E, err)
		return false
	}
	return true
}

func (r *gpRun) want(a *gpAct, call, what, got, want string) {
	if got != want {
		r.res.Violate(map[string]interface{}{"kind": "read-wrong-value", "call": call, "target": a.Cls}, r.replay(a, call),
			"%s on %s (%s %s): %s is %s, the state of the block says %s", call, a.Cls, a.Name, a.E, what, got, want)
	}
}

func (r *gpRun) read(a *gpAct) {
	w := r.w
	r.res.Count(fmt.Sprintf("%s|%s|%s|%s", a.Name, a.E, a.Cls, a.Res))
	absName := func(b []byte, self []byte) string {
		switch {
		case len(b) == 0:
			return "none"
		case bytes.Equal(b, w.conc.addr("owner")):
			return "owner"
		case bytes.Equal(b, self):
			return "self"
		}
		return "?" + hex.EncodeToString(b)
	}
	switch a.Name {
	case "GvStaking": // vm_callback.go luaGetStaking
		var scs, ncs *statedb.ContractState
		if !r.probe(a, "statedb.GetSystemAccountState", func() (err error) { scs, err = statedb.GetSystemAccountState(w.bs.StateDB); return }) {
			return
		}
		if !r.probe(a, "statedb.GetNameAccountState", func() (err error) { ncs, err = statedb.GetNameAccountState(w.bs.StateDB); return }) {
			return
		}
		var addr []byte
		if !r.probe(a, "name.GetAddress", func() error { addr = GetAddress(ncs, w.conc.addr(a.E)); return nil }) {
			return
		}
		r.want(a, "name.GetAddress", "the address", hex.EncodeToString(addr), hex.EncodeToString(w.conc.addr(a.E)))
		var st *types.Staking
		if r.probe(a, "system.GetStaking", func() (err error) { st, err = system.GetStaking(scs, addr); return }) {
			got := "none"
			if st != nil && len(st.GetAmount()) > 0 {
				got = "?" + st.GetAmountBigInt().String()
				for _, v := range []string{"v1", "v3", "v9"} {
					if st.GetAmountBigInt().Cmp(gpAmount(v)) == 0 && fmt.Sprintf("v%d", st.GetWhen()) == v {
						got = v
					}
				}
			}
			r.want(a, "system.GetStaking", "the staking record", got, a.Res)
		}
	case "GvResolve": // vm_callback.go luaNameResolve, getAddressNameResolved
		var got []byte
		nm := w.conc.name(a.E)
		if r.probe(a, "name.Resolve", func() (err error) { got, err = Resolve(w.bs, nm, false); return }) {
			r.want(a, "name.Resolve", "the address", absName(got, nm), a.Res)
		}
	case "GvAddress", "GvOwner":
		var ncs *statedb.ContractState
		if !r.probe(a, "statedb.GetNameAccountState", func() (err error) { ncs, err = statedb.GetNameAccountState(w.bs.StateDB); return }) {
			return
		}
		nm := w.conc.name(a.E)
		var got []byte
		if a.Name == "GvAddress" {
			if r.probe(a, "name.GetAddress", func() error { got = GetAddress(ncs, nm); return nil }) {
				r.want(a, "name.GetAddress", "the address", absName(got, nm), a.Res)
			}
		} else if r.probe(a, "name.GetOwner", func() error { got = GetOwner(ncs, nm); return nil }) {
			r.want(a, "name.GetOwner", "the owner", absName(got, nil), a.Res)
		}
	default:
		r.res.Violate(map[string]interface{}{"kind": "harness", "act": a.Name}, r.replay(a, ""), "harness: unknown read %q", a.Name)
	}
}

func gpRunWalk(res *verifkit.Result, g *gpGraph, wi, si int, calls map[string]int) {
	walk := g.Walks[wi]
	conc := gpConc{salt: fmt.Sprintf("g%d-%d-%d", verifkit.Seed(), wi, si)}
	rng := verifkit.Rng(int64(7000 + 31*wi + si))
	run := &gpRun{res: res, walk: wi, calls: calls}
	fail := func(kind string, a *gpAct, format string, args ...interface{}) {
		res.Violate(map[string]interface{}{"kind": kind, "act": a.Name}, run.replay(a, ""), format, args...)
	}
	defer func() {
		if p := recover(); p != nil {
			fail("panic", &gpAct{Name: "walk"}, "panic in governance walk %d: %v", wi, p)
		}
	}()
	wa, err := newGpWorld(conc)
	if err != nil {
		fail("error", &gpAct{Name: "build"}, "building the world: %v", err)
		return
	}
	run.w = wa
	readsIn := func(s int) {
		ids := append([]int{}, g.ReadsAt[s]...)
		rng.Shuffle(len(ids), func(i, j int) { ids[i], ids[j] = ids[j], ids[i] })
		for _, ai := range ids {
			run.read(&g.Acts[ai])
		}
	}
	readsIn(g.Init)
	for _, st := range walk {
		a := &g.Acts[st[0]]
		if err := wa.mutate(a); err != nil {
			fail("error", a, "governance walk %d: %+v returned %v", wi, *a, err)
			return
		}
		wa.last = wa.print()
		run.acts = append(run.acts, *a)
		readsIn(st[1])
	}
	ra, da, oa, err := wa.finish()
	if err != nil {
		fail("error", &gpAct{Name: "finish"}, "governance walk %d: Update/Commit after the reads: %v", wi, err)
		return
	}
	wb, err := newGpWorld(conc)
	if err != nil {
		fail("error", &gpAct{Name: "build"}, "building the twin world: %v", err)
		return
	}
	for _, st := range walk {
		if err := wb.mutate(&g.Acts[st[0]]); err != nil {
			fail("error", &g.Acts[st[0]], "twin governance walk %d: %v", wi, err)
			return
		}
	}
	rb, dbb, ob, err := wb.finish()
	if err != nil {
		fail("error", &gpAct{Name: "finish"}, "twin governance walk %d: Update/Commit: %v", wi, err)
		return
	}
	res.Count(fmt.Sprintf("gov-twin|%d", wi))
	last := gpAct{Name: "Update+Commit"}
	switch {
	case ra != rb:
		res.Violate(map[string]interface{}{"kind": "reads-change-state-root", "part": "governance"}, run.replay(&last, ""),
			"governance walk %d: the state root after Update is %s with the read-only calls and %s without them", wi, ra, rb)
	case da != dbb:
		res.Violate(map[string]interface{}{"kind": "reads-change-committed-state", "part": "governance"}, run.replay(&last, ""),
			"governance walk %d: the committed state differs with / without the read-only calls:\n%s\n---\n%s", wi, da, dbb)
	case oa != ob:
		res.Violate(map[string]interface{}{"kind": "reads-change-other-block-state", "part": "governance"}, run.replay(&last, ""),
			"governance walk %d: the root of ANOTHER block state is %s with the read-only calls and %s without them", wi, oa, ob)
	}
}

func TestVerifGovPurity(t *testing.T) {
	if !verifkit.Enabled() {
		t.Skip("run through bin/vcheck")
	}
	var in gpInput
	if err := verifkit.ReadInput(&in); err != nil {
		t.Fatal(err)
	}
	res := verifkit.NewResult()
	defer func() {
		if err := res.Write(); err != nil {
			t.Fatal(err)
		}
	}()
	if in.Salts < 1 {
		in.Salts = 1
	}
	var wg sync.WaitGroup
	var mu sync.Mutex
	sem := make(chan struct{}, runtime.NumCPU())
	calls := map[string]int{}
	for wi := range in.Gov.Walks {
		for si := 0; si < in.Salts; si++ {
			wi, si := wi, si
			wg.Add(1)
			sem <- struct{}{}
			go func() {
				defer func() { <-sem; wg.Done() }()
				m := map[string]int{}
				gpRunWalk(res, &in.Gov, wi, si, m)
				mu.Lock()
				for k, v := range m {
					calls[k] += v
				}
				mu.Unlock()
			}()
		}
	}
	wg.Wait()
	res.Extra["go_calls"] = calls
	res.Extra["gov_walks"] = len(in.Gov.Walks) * in.Salts
}
