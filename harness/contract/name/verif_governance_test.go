//go:build verif

package name

// Conformance harness for spec/gov/Governance.tla (C15).
//
// mode "graph" (direction A): an edge cover of the complete TLC state graph of the small model is
// replayed, path by path, through the REAL system.ExecuteSystemTx / name.ExecuteNameTx on a real
// state.BlockState over an in-memory state DB, the way chain.executeGovernanceTx does it; after
// every transaction and every block boundary the property-relevant projection of the real state is
// compared with the model state, the in-memory voting power rank with a reload from state, and in
// every state visited for the first time every transaction the model refuses is tried (it must be
// refused and change nothing).
//
// mode "random" (direction B): seeded multi-account histories with real block numbers around the
// lock periods are executed; every event is written with the observed state to $VERIF_TRACE and
// validated by TLC against GovernanceTrace.tla.
//
// The packages keep the voting power rank and the parameters in globals, so parallelism is by
// re-executing the test binary as worker processes (one shard each).

import (
	"bytes"
	"crypto/sha256"
	"encoding/hex"
	"encoding/json"
	"fmt"
	"math/big"
	"math/rand"
	"os"
	"os/exec"
	"reflect"
	"runtime"
	"sort"
	"strconv"
	"strings"
	"sync"
	"testing"

	"github.com/aergoio/aergo-lib/db"
	"github.com/aergoio/aergo/v2/contract/system"
	"github.com/aergoio/aergo/v2/internal/enc/base58"
	"github.com/aergoio/aergo/v2/internal/verifkit"
	"github.com/aergoio/aergo/v2/state"
	"github.com/aergoio/aergo/v2/state/statedb"
	"github.com/aergoio/aergo/v2/types"
)

// ---------------------------------------------------------------- input

type govCand struct {
	Key int `json:"key"`
	ID  int `json:"id"`
}

type govCfg struct {
	Accts    []string           `json:"accts"`
	Cands    map[string]govCand `json:"cands"`
	Issues   []string           `json:"issues"` // "BP" + parameter issues
	DaoVals  map[string][]int64 `json:"dao_vals"`
	Names    []string           `json:"names"`
	InitBal  int64              `json:"init_bal"`
	Delay    int64              `json:"delay"` // model StakingDelay = VotingDelay
	Defaults map[string]int64   `json:"defaults"`
}

type govOp struct {
	Name string   `json:"name"`
	A    string   `json:"a,omitempty"`
	X    int64    `json:"x"`
	Cs   []string `json:"cs"`
	I    string   `json:"i,omitempty"`
	V    int64    `json:"v"`
	N    string   `json:"n,omitempty"`
	To   string   `json:"to,omitempty"`
	P    int64    `json:"p"`
}

type mVote struct {
	Set   bool     `json:"set"`
	Cands []string `json:"cands"`
	Amt   int64    `json:"amt"`
}

type mAcct struct {
	Bal  int64            `json:"bal"`
	Amt  int64            `json:"amt"`
	When int64            `json:"when"`
	Ever bool             `json:"ever"`
	Vpr  int64            `json:"vpr"`
	Vote map[string]mVote `json:"vote"`
}

type mName struct {
	Owner string `json:"owner"`
	Dest  string `json:"dest"`
	Born  int64  `json:"born"`
	Comm  bool   `json:"comm"` // visible in the state of the last block boundary (observations only)
}

type mState struct {
	H      int64                       `json:"h"`
	Sys    int64                       `json:"sys"`
	Nb     int64                       `json:"nb"`
	Total  int64                       `json:"total"`
	Acct   map[string]mAcct            `json:"acct"`
	Tally  map[string]map[string]int64 `json:"tally"` // issue -> candidate -> tally (-1: not listed)
	VTotal map[string]int64            `json:"vtotal"`
	Param  map[string]int64            `json:"param"`
	PNext  map[string]int64            `json:"pnext"`
	Names  map[string]mName            `json:"names"`
	Rank   map[string][]string         `json:"rank"`
}

type govStep struct {
	Op      int   `json:"op"`      // index into Ops; -1: NextBlock; -2: DiscardBlock
	Restart bool  `json:"restart"` // NextBlock with a node restart
	Dst     int   `json:"dst"`     // index into States
	Refuse  []int `json:"refuse"`  // transactions the model refuses in the source state (probed before the step)
}

type govRandom struct {
	Histories int `json:"histories"`
	Length    int `json:"length"`
}

// govGraph is one TLC state graph (abstract states, an edge cover by paths from the initial state).
type govGraph struct {
	Name   string            `json:"name"`
	Cfg    govCfg            `json:"cfg"`
	Ops    []govOp           `json:"ops"`
	States []json.RawMessage `json:"states"` // mState each, decoded on use (the table is large)
	MaxH   int64             `json:"max_h"`
	Init   int               `json:"init"`
	Paths  [][]govStep       `json:"paths"`
}

type govInput struct {
	Graphs []govGraph `json:"graphs"`
	Random govRandom  `json:"random"`
	RCfg   govCfg     `json:"rcfg"` // configuration of the random driver
	Shards int        `json:"shards"`
}

func (in *govGraph) state(i int) *mState {
	var m mState
	if err := json.Unmarshal(in.States[i], &m); err != nil {
		panic(err)
	}
	return &m
}

// ---------------------------------------------------------------- concretisation

// Amount scales: the concrete value (in aer) of one model AERGO.  "aergo": 10^18.  "byte-boundary": chosen so that
// 10000 model AERGO is just below 2^80 aer/2 and 20000 just above 2^80: consecutive model amounts then differ in the
// LENGTH of their big-endian encoding (10 bytes with leading 0x80.., 11 bytes with leading 0x01), which is how the
// contracts store amounts.  All amounts (balances, stakes, payments, proposed STAKINGMIN/NAMEPRICE values) are scaled
// alike, so every comparison between them is preserved; the built-in defaults (10^22 minimum stake, 10^18 name price)
// relate to the multiples of 10000 resp. 1 model AERGO the model uses exactly as the model's defaults 10000 and 1 do.
var (
	unitAergo = new(big.Int).Exp(big.NewInt(10), big.NewInt(18), nil)
	// ceil(2^80 / 20000)
	unitBoundary = func() *big.Int {
		q := new(big.Int).Lsh(big.NewInt(1), 80)
		q.Add(q, big.NewInt(19999))
		return q.Div(q, big.NewInt(20000))
	}()
	scaleNames = []string{"aergo", "byte-boundary"}
	aergo      = unitAergo // the scale in use (one world at a time per process); set by newSut
)

func unitOf(scale string) *big.Int {
	if scale == "byte-boundary" {
		return unitBoundary
	}
	return unitAergo
}

func toAer(m int64) *big.Int { return new(big.Int).Mul(big.NewInt(m), aergo) }

// fromAer converts an aer amount to AERGO; ok=false if it is not a whole number of AERGO
func fromAer(x *big.Int) (int64, bool) {
	q, r := new(big.Int).QuoRem(x, aergo, new(big.Int))
	return q.Int64(), r.Sign() == 0 && q.IsInt64()
}

// heightMap maps model heights onto block numbers.  The code compares when+86400 > blockNo; with model delay D
// the map must satisfy real(w)+86400 > real(h) <=> w+D > h for all heights w <= h.  "linear": 86400/D blocks per
// height.  For D = 2 the alternating gaps 86399,1,86399,... (and 1,86399,1,...) satisfy it too (every single gap is
// < 86400, every two consecutive gaps add up to exactly 86400) and put a transaction one block inside the lock
// period (when+86399) as well as exactly on its end (when+86400).  nil table: identity (random histories).
type heightMap struct {
	name string
	real map[int64]uint64
	back map[uint64]int64
}

func newHeightMap(name string, delay, maxH int64) *heightMap {
	hm := &heightMap{name: name, real: map[int64]uint64{}, back: map[uint64]int64{0: 0}}
	full := int64(system.StakingDelay)
	no := int64(1000)
	for h := int64(1); h <= maxH; h++ {
		hm.real[h] = uint64(no)
		hm.back[uint64(no)] = h
		switch {
		case name == "linear" || delay != 2:
			no += full / delay
		case (name == "inside-first") == (h%2 == 1):
			no += full - 1
		default:
			no++
		}
	}
	return hm
}

func (hm *heightMap) block(h int64) uint64 {
	if hm.real == nil {
		return uint64(h)
	}
	return hm.real[h]
}

func (hm *heightMap) model(no uint64) (int64, bool) {
	if hm.real == nil {
		return int64(no), true
	}
	h, ok := hm.back[no]
	return h, ok
}

type world struct {
	cfg      govCfg
	hm       *heightMap // model heights <-> block numbers
	amounts  string     // amount scale ("aergo" if empty)
	addr     map[string][]byte
	acctOf   map[string]string // hex address -> model account
	cand     map[string][]byte
	candOf   map[string]string // hex candidate -> model candidate
	name     map[string]string
	nameOf   map[string]string
	layout   string
	scale    map[string]*big.Int // parameter issue -> concrete units per model unit
	issueKey map[string][]byte
}

func issueScale(i string) *big.Int {
	switch i {
	case "BPCOUNT":
		return big.NewInt(1)
	case "GASPRICE":
		return big.NewInt(1000000000) // gaer
	}
	return aergo
}

// newWorld chooses concrete addresses (with a chosen voting-power bucket layout), candidate ids
// (twins = ids that differ only in byte 6, i.e. outside the bytes [7:] the tie-break compares) and names.
func newWorld(cfg govCfg, rng *rand.Rand, layout string, hm *heightMap) *world {
	w := &world{cfg: cfg, hm: hm, addr: map[string][]byte{}, acctOf: map[string]string{}, cand: map[string][]byte{},
		candOf: map[string]string{}, name: map[string]string{}, nameOf: map[string]string{}, layout: layout,
		scale: map[string]*big.Int{}, issueKey: map[string][]byte{}}
	b0 := rng.Intn(71)
	for i, a := range cfg.Accts {
		want := -1
		switch layout {
		case "one-bucket":
			want = b0
		case "two-buckets":
			want = (b0 + (i%2)*7) % 71
		}
		for {
			ad := make([]byte, types.AddressLength)
			rng.Read(ad)
			ad[0] = byte(2 + rng.Intn(2))
			id := types.ToAccountID(ad)
			if want >= 0 && int(id[0])%71 != want {
				continue
			}
			if _, dup := w.acctOf[hex.EncodeToString(ad)]; dup {
				continue
			}
			w.addr[a] = ad
			w.acctOf[hex.EncodeToString(ad)] = a
			break
		}
	}
	// candidates: distinct 32-byte suffixes per key, ordered like the keys; ids ordered like CandId inside a key
	keys := map[int][]string{}
	var ks []int
	for c, d := range cfg.Cands {
		if _, ok := keys[d.Key]; !ok {
			ks = append(ks, d.Key)
		}
		keys[d.Key] = append(keys[d.Key], c)
	}
	sort.Ints(ks)
	sufs := make([][]byte, len(ks))
	for i := range sufs {
		sufs[i] = make([]byte, 32)
		rng.Read(sufs[i])
		if rng.Intn(3) == 0 && i > 0 { // long common prefix with another suffix
			copy(sufs[i][:31], sufs[i-1][:31])
		}
	}
	sort.Slice(sufs, func(i, j int) bool { return bytes.Compare(sufs[i], sufs[j]) < 0 })
	for i := 1; i < len(sufs); i++ {
		if bytes.Equal(sufs[i], sufs[i-1]) {
			sufs[i][31]++ // (never wraps in practice; suffixes are random)
		}
	}
	sort.Slice(sufs, func(i, j int) bool { return bytes.Compare(sufs[i], sufs[j]) < 0 })
	for i, k := range ks {
		cs := keys[k]
		sort.Slice(cs, func(x, y int) bool { return cfg.Cands[cs[x]].ID < cfg.Cands[cs[y]].ID })
		for j, c := range cs {
			// identity multihash of a protobuf secp256k1 public key: 00 25 08 02 12 21 <02|03> X
			id := append([]byte{0x00, 0x25, 0x08, 0x02, 0x12, 0x21, byte(2 + j)}, sufs[i]...)
			w.cand[c] = id
			w.candOf[hex.EncodeToString(id)] = c
		}
	}
	const alnum = "abcdefghijklmnopqrstuvwxyz0123456789ABCDEFGHIJKLMNOPQRSTUVWXYZ"
	for _, n := range cfg.Names {
		for {
			b := make([]byte, types.NameLength)
			for i := range b {
				b[i] = alnum[rng.Intn(len(alnum))]
			}
			if _, dup := w.nameOf[string(b)]; !dup {
				w.name[n] = string(b)
				w.nameOf[string(b)] = n
				break
			}
		}
	}
	for _, i := range cfg.Issues {
		if i == "BP" {
			w.issueKey[i] = []byte(types.OpvoteBP.ID())
		} else {
			w.issueKey[i] = system.GenProposalKey(i)
			w.scale[i] = issueScale(i)
		}
	}
	return w
}

func (w *world) describe() map[string]interface{} {
	a := map[string]string{}
	for k, v := range w.addr {
		a[k] = types.EncodeAddress(v)
	}
	c := map[string]string{}
	for k, v := range w.cand {
		c[k] = base58.Encode(v)
	}
	return map[string]interface{}{"accounts": a, "candidates": c, "names": w.name, "layout": w.layout, "heights": w.hm.name, "amounts": w.amounts, "aer_per_model_aergo": unitOf(w.amounts).String()}
}

// ---------------------------------------------------------------- the system under test

type sut struct {
	w    *world
	cdb  *state.ChainStateDB
	bs   *state.BlockState
	no   uint64 // real block number of the block being built
	fork int32
	hist []string // concrete history (for replays and the root determinism check)
	dir  string
}

func newSut(w *world, startNo uint64) (*sut, error) {
	s := &sut{w: w, no: startNo, fork: 3}
	aergo = unitOf(w.amounts)
	for i := range w.scale {
		w.scale[i] = issueScale(i)
	}
	// the in-memory store loads <dir>/state/database when it exists and dumps itself there on Close:
	// every instance gets a directory of its own and is never closed
	dir, err := os.MkdirTemp("", "verif-gov-")
	if err != nil {
		return nil, err
	}
	s.dir = dir
	s.cdb = state.NewChainStateDB()
	if err := s.cdb.Init(string(db.MemoryImpl), dir, nil, false, nil); err != nil {
		return nil, err
	}
	s.bs = s.cdb.NewBlockState(s.cdb.GetRoot())
	for _, a := range w.cfg.Accts {
		as, err := state.GetAccountState(w.addr[a], s.bs.StateDB)
		if err != nil {
			return nil, err
		}
		as.AddBalance(toAer(w.cfg.InitBal))
		if err := as.PutState(); err != nil {
			return nil, err
		}
	}
	if err := s.cdb.Apply(s.bs); err != nil {
		return nil, err
	}
	s.bs = s.cdb.NewBlockState(s.cdb.GetRoot())
	scs, err := statedb.GetSystemAccountState(s.bs.StateDB)
	if err != nil {
		return nil, err
	}
	if err := system.VerifRestart(scs, int(w.cfg.Defaults["BPCOUNT"])); err != nil {
		return nil, err
	}
	return s, nil
}

func (s *sut) close() { os.RemoveAll(s.dir) }

func (s *sut) sysState() (*statedb.ContractState, *state.AccountState, error) {
	acc, err := state.GetAccountState([]byte(types.AergoSystem), s.bs.StateDB)
	if err != nil {
		return nil, nil, err
	}
	scs, err := statedb.OpenContractState(acc.IDNoPadding(), acc.State(), s.bs.StateDB)
	return scs, acc, err
}

func (s *sut) nameState() (*statedb.ContractState, *state.AccountState, error) {
	acc, err := state.GetAccountState([]byte(types.AergoName), s.bs.StateDB)
	if err != nil {
		return nil, nil, err
	}
	scs, err := statedb.OpenContractState(acc.IDNoPadding(), acc.State(), s.bs.StateDB)
	return scs, acc, err
}

// execGov executes one governance transaction the way chain.executeTx/executeGovernanceTx and the
// block factory (snapshot, rollback on error) do.  refused=true: the transaction is not in the block.
func (s *sut) execGov(recipient string, account []byte, amount *big.Int, payload []byte) (refused bool, why string, fatal error) {
	body := &types.TxBody{Account: account, Recipient: []byte(recipient), Amount: amount.Bytes(), Payload: payload, Type: types.TxType_GOVERNANCE}
	if recipient == types.AergoSystem {
		if err := types.ValidateSystemTx(body); err != nil { // admission (tx.Validate)
			return true, "admission: " + err.Error(), nil
		}
	}
	snap := s.bs.Snapshot()
	sender, err := state.GetAccountState(account, s.bs.StateDB)
	if err != nil {
		return false, "", err
	}
	receiver, err := state.GetAccountState([]byte(recipient), s.bs.StateDB)
	if err != nil {
		return false, "", err
	}
	scs, err := statedb.OpenContractState(receiver.IDNoPadding(), receiver.State(), s.bs.StateDB)
	if err != nil {
		return false, "", err
	}
	bi := &types.BlockHeaderInfo{No: s.no, ForkVersion: s.fork}
	if recipient == types.AergoSystem {
		_, err = system.ExecuteSystemTx(scs, body, sender, receiver, bi)
	} else {
		_, err = ExecuteNameTx(s.bs, scs, body, sender, receiver, bi)
	}
	if err == nil {
		err = statedb.StageContractState(scs, s.bs.StateDB)
	}
	if err != nil {
		if e2 := s.bs.Rollback(snap); e2 != nil {
			return false, "", e2
		}
		return true, err.Error(), nil
	}
	if err := sender.PutState(); err != nil {
		return false, "", err
	}
	if sender.AccountID() != receiver.AccountID() {
		if err := receiver.PutState(); err != nil {
			return false, "", err
		}
	}
	return false, "", nil
}

func (s *sut) payload(op govOp) (recipient string, amount *big.Int, payload []byte) {
	w := s.w
	switch op.Name {
	case "Stake":
		return types.AergoSystem, toAer(op.X), []byte(`{"Name":"v1stake"}`)
	case "Unstake":
		return types.AergoSystem, toAer(op.X), []byte(`{"Name":"v1unstake"}`)
	case "VoteBP":
		cs := append([]string(nil), op.Cs...)
		sort.Strings(cs)
		args := make([]string, len(cs))
		for i, c := range cs {
			args[i] = base58.Encode(w.cand[c])
		}
		b, _ := json.Marshal(map[string]interface{}{"Name": "v1voteBP", "Args": args})
		return types.AergoSystem, new(big.Int), b
	case "VoteDAO":
		val := new(big.Int).Mul(big.NewInt(op.V), w.scale[op.I]).String()
		b, _ := json.Marshal(map[string]interface{}{"Name": "v1voteDAO", "Args": []string{op.I, val}})
		return types.AergoSystem, new(big.Int), b
	case "NameCreate":
		b, _ := json.Marshal(map[string]interface{}{"Name": types.NameCreate, "Args": []string{w.name[op.N]}})
		return types.AergoName, toAer(op.P), b
	case "NameUpdate":
		b, _ := json.Marshal(map[string]interface{}{"Name": types.NameUpdate, "Args": []string{w.name[op.N], types.EncodeAddress(w.addr[op.To])}})
		return types.AergoName, toAer(op.P), b
	}
	return "", nil, nil
}

// exec runs a model-level operation; accepted=false when the real code refused it.
func (s *sut) exec(op govOp) (accepted bool, why string, fatal error) {
	defer func() {
		if r := recover(); r != nil {
			fatal = fmt.Errorf("panic: %v", r)
		}
	}()
	s.hist = append(s.hist, fmt.Sprintf("%d:%s", s.no, opString(op)))
	if op.Name == "Transfer" {
		from, err := state.GetAccountState(s.w.addr[op.A], s.bs.StateDB)
		if err != nil {
			return false, "", err
		}
		to, err := state.GetAccountState(s.w.addr[op.To], s.bs.StateDB)
		if err != nil {
			return false, "", err
		}
		if err := state.SendBalance(from, to, toAer(op.X)); err != nil {
			return false, err.Error(), nil
		}
		from.PutState()
		to.PutState()
		return true, "", nil
	}
	rcpt, amt, pl := s.payload(op)
	refused, why, err := s.execGov(rcpt, s.w.addr[op.A], amt, pl)
	return !refused, why, err
}

// nextBlock commits the block under construction and starts the block with number `no`.
func (s *sut) nextBlock(no uint64, restart bool) (root []byte, err error) {
	defer func() {
		if r := recover(); r != nil {
			err = fmt.Errorf("panic: %v", r)
		}
	}()
	if err := s.cdb.Apply(s.bs); err != nil {
		return nil, err
	}
	system.CommitParams(true) // dpos Status.Update on block connect
	root = append([]byte(nil), s.cdb.GetRoot()...)
	s.bs = s.cdb.NewBlockState(s.cdb.GetRoot())
	s.no = no
	s.hist = append(s.hist, fmt.Sprintf("block %d restart=%v", no, restart))
	if restart {
		scs, err := statedb.GetSystemAccountState(s.bs.StateDB)
		if err != nil {
			return nil, err
		}
		if err := system.VerifRestart(scs, int(s.w.cfg.Defaults["BPCOUNT"])); err != nil {
			return nil, err
		}
	}
	return root, nil
}

// discardBlock: the block under construction fails validation.  chain.executeBlock returns the error after
// cs.Update(bestBlock): the block state is dropped, and dpos.Status.Update (rollback branch) reloads the voting
// power rank from the state of the best block and calls system.CommitParams(false).
func (s *sut) discardBlock() (err error) {
	defer func() {
		if r := recover(); r != nil {
			err = fmt.Errorf("panic: %v", r)
		}
	}()
	s.bs = s.cdb.NewBlockState(s.cdb.GetRoot())
	scs, err := statedb.GetSystemAccountState(s.bs.StateDB)
	if err != nil {
		return err
	}
	if err := system.InitVotingPowerRank(scs); err != nil {
		return err
	}
	system.CommitParams(false)
	s.hist = append(s.hist, "discard block")
	return nil
}

func opString(op govOp) string {
	b, _ := json.Marshal(op)
	return string(b)
}

// ---------------------------------------------------------------- observation

type observation struct {
	St        mState
	Rankers   []string // system.GetRankers (top BPCOUNT of the BP ranking)
	RankAmt   map[string][]int64
	ParamDisk map[string]int64
	Mem, Disk *system.VerifVpr
	MemWin    []string  // reward lottery winners for lotterySeeds from the live rank ...
	DiskWin   []string  // ... and from a rank reloaded from state
	Problems  []problem // things wrong with the observation itself (non-integral amounts, unknown ids ...)
}

type problem struct {
	Part string
	Text string
}

var lotterySeeds = []int64{7919, 15838, 23757, 31676, 39595, 47514}

type reloaded struct {
	disk *system.VerifVpr
	win  []string
}

// stored bucket bytes (digest) -> the rank system.loadVpr builds from them (each process is single-threaded)
var reloadCache = map[string]reloaded{}

// observe reads the property-relevant state back (prev is the observation before the event, unused at present).
func (s *sut) observe(prev *observation) (o *observation, err error) {
	defer func() {
		if r := recover(); r != nil {
			err = fmt.Errorf("panic while reading the state: %v", r)
		}
	}()
	w := s.w
	o = &observation{RankAmt: map[string][]int64{}, ParamDisk: map[string]int64{}}
	st := &o.St
	bad := func(part, f string, a ...interface{}) {
		o.Problems = append(o.Problems, problem{part, fmt.Sprintf(f, a...)})
	}
	amt := func(part string, x *big.Int) int64 {
		v, ok := fromAer(x)
		if !ok {
			bad(part, "%s: %s aer is not a whole number of AERGO", part, x)
		}
		return v
	}
	scs, sysAcc, err := s.sysState()
	if err != nil {
		return nil, err
	}
	ncs, nameAcc, err := s.nameState()
	if err != nil {
		return nil, err
	}
	var hok bool
	if st.H, hok = w.hm.model(s.no); !hok {
		bad("height", "block number %d is not a model height", s.no)
	}
	st.Sys = amt("sysBal", sysAcc.Balance())
	st.Nb = amt("nameBal", nameAcc.Balance())
	tot, err := system.GetStakingTotal(scs)
	if err != nil {
		return nil, err
	}
	st.Total = amt("total", tot)
	st.Acct = map[string]mAcct{}
	votes := map[string][]*types.VoteInfo{}
	for _, a := range w.cfg.Accts {
		as, err := state.GetAccountState(w.addr[a], s.bs.StateDB)
		if err != nil {
			return nil, err
		}
		sk, err := system.GetStaking(scs, w.addr[a])
		if err != nil {
			return nil, err
		}
		ma := mAcct{Bal: amt("bal", as.Balance()), Amt: amt("stake", sk.GetAmountBigInt()), Ever: sk.Amount != nil, Vote: map[string]mVote{}}
		var wok bool
		if ma.When, wok = w.hm.model(sk.GetWhen()); !wok {
			bad("when", "staking.When %d of %s is not a model height", sk.GetWhen(), a)
		}
		for _, i := range w.cfg.Issues {
			v, err := system.GetVote(scs, w.addr[a], w.issueKey[i])
			if err != nil {
				return nil, err
			}
			mv := mVote{Set: v.Amount != nil, Amt: amt("vote", v.GetAmountBigInt()), Cands: []string{}}
			if i == "BP" {
				if len(v.Candidate)%system.PeerIDLength != 0 {
					bad("vote", "BP vote of %s has %d candidate bytes", a, len(v.Candidate))
				} else {
					for off := 0; off < len(v.Candidate); off += system.PeerIDLength {
						c, ok := w.candOf[hex.EncodeToString(v.Candidate[off:off+system.PeerIDLength])]
						if !ok {
							bad("vote", "BP vote of %s names an unknown candidate", a)
						}
						mv.Cands = append(mv.Cands, c)
					}
				}
			} else if mv.Set {
				var cs []string
				if err := json.Unmarshal(v.Candidate, &cs); err != nil {
					bad("vote", "vote of %s on %s: %v", a, i, err)
				}
				for _, c := range cs {
					mv.Cands = append(mv.Cands, w.daoCand(i, c, bad))
				}
			}
			sort.Strings(mv.Cands)
			ma.Vote[i] = mv
		}
		st.Acct[a] = ma
		vi, err := system.GetVotes(scs, w.addr[a])
		if err != nil {
			return nil, err
		}
		votes[a] = vi
	}
	// the RPC view (GetVotes) must agree with the per-issue records
	for _, a := range w.cfg.Accts {
		for _, vi := range votes[a] {
			for _, i := range w.cfg.Issues {
				id := i
				if i == "BP" {
					id = types.OpvoteBP.ID()
				}
				if vi.Id != id {
					continue
				}
				mv := st.Acct[a].Vote[i]
				want := "0"
				if mv.Set {
					want = toAer(mv.Amt).String()
				} else {
					want = ""
				}
				if vi.Amount != want {
					bad("getvotes", "GetVotes(%s)[%s].Amount=%q, vote record says %q", a, i, vi.Amount, want)
				}
				if len(vi.Candidates) != len(mv.Cands) {
					bad("getvotes", "GetVotes(%s)[%s] has %d candidates, vote record %d", a, i, len(vi.Candidates), len(mv.Cands))
				}
			}
		}
	}
	st.Tally = map[string]map[string]int64{}
	st.Rank = map[string][]string{}
	st.VTotal = map[string]int64{}
	for _, i := range w.cfg.Issues {
		id := []byte(i)
		if i == "BP" {
			id = []byte(types.OpvoteBP.ID())
		}
		vl, err := system.GetVoteResult(scs, id, 1<<20)
		if err != nil {
			return nil, err
		}
		t := map[string]int64{}
		if i == "BP" {
			for c := range w.cfg.Cands {
				t[c] = -1
			}
		} else {
			for _, v := range w.cfg.DaoVals[i] {
				t[strconv.FormatInt(v, 10)] = -1
			}
		}
		var rk []string
		var ra []int64
		for _, v := range vl.Votes {
			var c string
			if i == "BP" {
				var ok bool
				if c, ok = w.candOf[hex.EncodeToString(v.Candidate)]; !ok {
					bad("tally", "ranking of BP lists an unknown candidate %x", v.Candidate)
					continue
				}
			} else {
				c = w.daoCand(i, string(v.Candidate), bad)
			}
			if t[c] != -1 {
				bad("rank", "ranking of %s lists %s twice", i, c)
			}
			t[c] = amt("tally", v.GetAmountBigInt())
			rk = append(rk, c)
			ra = append(ra, t[c])
		}
		st.Tally[i] = t
		st.Rank[i] = rk
		o.RankAmt[i] = ra
		if i != "BP" {
			vt, err := system.VerifVoteTotal(scs, i)
			if err != nil {
				return nil, err
			}
			st.VTotal[i] = amt("vtotal", vt)
		}
	}
	rankers, err := system.GetRankers(scs)
	if err != nil {
		return nil, err
	}
	for _, r := range rankers {
		b, _ := base58.Decode(r)
		o.Rankers = append(o.Rankers, w.candOf[hex.EncodeToString(b)])
	}
	// parameters: in force (memory), pending (memory), reloaded from state
	cur, next, disk := system.VerifParams(scs)
	st.Param = map[string]int64{}
	st.PNext = map[string]int64{}
	for p := range w.cfg.Defaults {
		conv := func(sv string) int64 {
			x, _ := new(big.Int).SetString(sv, 10)
			if d := system.DefaultParams[p]; d != nil && d.Cmp(x) == 0 {
				return w.cfg.Defaults[p] // the built-in default stands for the model's default
			}
			q, r := new(big.Int).QuoRem(x, issueScale(p), new(big.Int))
			if r.Sign() != 0 {
				bad("param", "parameter %s = %s is not a model value", p, sv)
			}
			return q.Int64()
		}
		st.Param[p] = conv(cur[p])
		st.PNext[p] = -1
		if nv, ok := next[p]; ok {
			st.PNext[p] = conv(nv)
		}
		o.ParamDisk[p] = conv(disk[p])
	}
	// names
	st.Names = map[string]mName{}
	for _, n := range w.cfg.Names {
		cn := []byte(w.name[n])
		mn := mName{Owner: "none", Dest: "none"}
		if owner := getOwner(ncs, cn, false); owner != nil {
			a, ok := w.acctOf[hex.EncodeToString(owner)]
			if !ok {
				bad("names", "owner of %s is not one of the accounts: %x", n, owner)
			}
			mn.Owner = a
			nm := getNameMap(ncs, cn, false)
			d, ok := w.acctOf[hex.EncodeToString(nm.Destination)]
			if !ok {
				bad("names", "destination of %s is not one of the accounts: %x", n, nm.Destination)
			}
			mn.Dest = d
		}
		mn.Comm = GetOwner(ncs, cn) != nil
		st.Names[n] = mn
	}
	// voting power rank: live and reloaded
	o.Mem = system.VerifDumpVpr()
	o.MemWin = system.VerifMemWinners(lotterySeeds)
	// loadVpr is a function of the stored bucket bytes: reload only for bucket contents not seen before
	raw, err := system.VerifVprRaw(scs)
	if err != nil {
		return nil, err
	}
	if c, ok := reloadCache[raw]; ok {
		o.Disk, o.DiskWin = c.disk, c.win
	} else {
		if o.Disk, o.DiskWin, err = system.VerifLoadVpr(scs, lotterySeeds); err != nil {
			return nil, err
		}
		reloadCache[raw] = reloaded{o.Disk, o.DiskWin}
	}
	for _, a := range w.cfg.Accts {
		ma := st.Acct[a]
		if p, ok := o.Mem.Powers[hex.EncodeToString(w.addr[a])]; ok {
			x, _ := new(big.Int).SetString(p, 10)
			ma.Vpr = amt("vpr", x)
		}
		st.Acct[a] = ma
	}
	return o, nil
}

func (w *world) daoCand(i, c string, bad func(part, f string, a ...interface{})) string {
	x, ok := new(big.Int).SetString(c, 10)
	if !ok {
		bad("tally", "candidate %q of %s is not a number", c, i)
		return c
	}
	q, r := new(big.Int).QuoRem(x, w.scale[i], new(big.Int))
	if r.Sign() != 0 {
		bad("tally", "candidate %q of %s is not a model value", c, i)
	}
	return q.String()
}

// ---------------------------------------------------------------- checks on one observation

// vprProblems compares the live voting power rank with the one rebuilt from state, part by part.
func (s *sut) vprProblems(o *observation) []problem {
	var ps []problem
	m, d := o.Mem, o.Disk
	if m.Total != d.Total {
		ps = append(ps, problem{"total", fmt.Sprintf("total voting power in memory %s, reloaded from state %s", m.Total, d.Total)})
	}
	if !reflect.DeepEqual(m.Powers, d.Powers) {
		ps = append(ps, problem{"powers", fmt.Sprintf("voting powers in memory %v, reloaded from state %v", m.Powers, d.Powers)})
	}
	if !reflect.DeepEqual(m.Buckets, d.Buckets) {
		ps = append(ps, problem{"buckets", fmt.Sprintf("voting power buckets in memory %v, reloaded from state %v", m.Buckets, d.Buckets)})
	}
	if m.MembersErr != "" || d.MembersErr != "" || !reflect.DeepEqual(m.Members, d.Members) || m.MemberSize != d.MemberSize {
		ps = append(ps, problem{"members", fmt.Sprintf("ranking tree (topVoters.members) in memory: size %d, in-order %v %s; reloaded from state: size %d, in-order %v %s",
			m.MemberSize, vpList(m.Members), m.MembersErr, d.MemberSize, vpList(d.Members), d.MembersErr)})
	}
	if m.Pending != 0 {
		ps = append(ps, problem{"pending", fmt.Sprintf("%d unapplied voting power changes left in the buffer", m.Pending)})
	}
	// total = sum of the powers, every voter in exactly its bucket
	sum := new(big.Int)
	for _, p := range m.Powers {
		x, _ := new(big.Int).SetString(p, 10)
		sum.Add(sum, x)
	}
	if sum.String() != m.Total {
		ps = append(ps, problem{"total-sum", fmt.Sprintf("total voting power %s, sum of the voters' powers %s", m.Total, sum)})
	}
	inB := map[string]string{}
	for bi, b := range m.Buckets {
		for _, vp := range b { // a voter lives in bucket (first byte of its account id) mod 71
			if idb, err := hex.DecodeString(vp.ID); err != nil || len(idb) == 0 || strconv.Itoa(int(idb[0])%71) != bi {
				ps = append(ps, problem{"bucket-index", fmt.Sprintf("voter with account id %s sits in voting power bucket %s", vp.ID, bi)})
			}
		}
		// vprStore.update keeps every bucket ordered by descending account id; the reward lottery walks the
		// buckets in this order, so it is part of what all nodes must agree on
		for k := 0; k+1 < len(b); k++ {
			if b[k].ID <= b[k+1].ID {
				ps = append(ps, problem{"bucket-order", fmt.Sprintf("a voting power bucket is not in descending account-id order: %v", vpList(b))})
				break
			}
		}
		for _, vp := range b {
			if _, dup := inB[vp.Addr]; dup {
				ps = append(ps, problem{"buckets", "voter " + vp.Addr + " is in the buckets twice"})
			}
			inB[vp.Addr] = vp.Power
		}
	}
	if !reflect.DeepEqual(inB, m.Powers) {
		ps = append(ps, problem{"buckets-vs-powers", fmt.Sprintf("bucket contents %v differ from the voters' powers %v", inB, m.Powers)})
	}
	// the reward lottery must pick the same winner from the live rank and from a reloaded one
	for k := range lotterySeeds {
		if o.MemWin[k] != o.DiskWin[k] {
			ps = append(ps, problem{"winner", fmt.Sprintf("voting reward winner for seed %d: %s from memory, %s after a reload", lotterySeeds[k], o.MemWin[k], o.DiskWin[k])})
			break
		}
	}
	return ps
}

func vpList(l []system.VerifVp) string {
	var b []string
	for k, v := range l {
		if k == 12 {
			b = append(b, fmt.Sprintf("... (%d entries)", len(l)))
			break
		}
		b = append(b, v.Addr[:8]+":"+v.Power)
	}
	return "[" + strings.Join(b, " ") + "]"
}

// twinTie tells whether the tally has two listed candidates with equal tally and equal tie-break key.
func (w *world) twinTie(t map[string]int64) bool {
	seen := map[string]bool{}
	for c, v := range t {
		if v < 0 {
			continue
		}
		k := fmt.Sprintf("%d/%d", v, w.cfg.Cands[c].Key)
		if seen[k] {
			return true
		}
		seen[k] = true
	}
	return false
}

// rankSorted: the listed ranking is in tally order with ties in key order (the code's comparator);
// candidates the comparator cannot tell apart may come in either order (their order is judged by rankDeterministic).
func (w *world) rankSorted(i string, rank []string, t map[string]int64) string {
	key := func(c string) int64 {
		if i == "BP" {
			return int64(w.cfg.Cands[c].Key)
		}
		v, _ := strconv.ParseInt(c, 10, 64)
		return v
	}
	n := 0
	for _, v := range t {
		if v >= 0 {
			n++
		}
	}
	if len(rank) != n {
		return fmt.Sprintf("ranking of %s lists %d candidates, %d were voted for", i, len(rank), n)
	}
	for k := 0; k+1 < len(rank); k++ {
		a, b := rank[k], rank[k+1]
		if t[a] < t[b] || (t[a] == t[b] && key(a) > key(b)) {
			return fmt.Sprintf("ranking of %s: %s (tally %d) is listed before %s (tally %d)", i, a, t[a], b, t[b])
		}
	}
	return ""
}

// diff compares the model state with the observed one; returns the first differing part and a description.
func (w *world) diff(want *mState, o *observation, boundary bool) (part, text string) {
	got := &o.St
	if len(o.Problems) > 0 {
		return o.Problems[0].Part, o.Problems[0].Text
	}
	if want.H != got.H {
		return "height", fmt.Sprintf("height %d, model %d", got.H, want.H)
	}
	if want.Total != got.Total {
		return "total", fmt.Sprintf("staking total %d, model %d", got.Total, want.Total)
	}
	if want.Sys != got.Sys {
		return "sysBal", fmt.Sprintf("balance of aergo.system %d, model %d", got.Sys, want.Sys)
	}
	if want.Nb != got.Nb {
		return "nameBal", fmt.Sprintf("balance of aergo.name %d, model %d", got.Nb, want.Nb)
	}
	for _, a := range w.cfg.Accts {
		x, y := want.Acct[a], got.Acct[a]
		if x.Bal != y.Bal {
			return "bal", fmt.Sprintf("balance of %s %d, model %d", a, y.Bal, x.Bal)
		}
		if x.Amt != y.Amt {
			return "stake", fmt.Sprintf("stake of %s %d, model %d", a, y.Amt, x.Amt)
		}
		if x.Ever != y.Ever || (x.Ever && x.When != y.When) {
			return "when", fmt.Sprintf("staking record of %s: exists=%v when=%d, model exists=%v when=%d", a, y.Ever, y.When, x.Ever, x.When)
		}
		for _, i := range w.cfg.Issues {
			xv, yv := x.Vote[i], y.Vote[i]
			xc := append([]string{}, xv.Cands...)
			sort.Strings(xc)
			if xv.Set != yv.Set || xv.Amt != yv.Amt || !reflect.DeepEqual(xc, append([]string{}, yv.Cands...)) {
				return "vote", fmt.Sprintf("vote of %s on %s: %+v, model %+v", a, i, yv, xv)
			}
		}
		if x.Vpr != y.Vpr {
			return "vpr", fmt.Sprintf("voting power of %s in memory %d, model %d", a, y.Vpr, x.Vpr)
		}
	}
	for _, i := range w.cfg.Issues {
		if !reflect.DeepEqual(want.Tally[i], got.Tally[i]) {
			return "tally", fmt.Sprintf("tally of %s %v, model %v", i, got.Tally[i], want.Tally[i])
		}
		if msg := w.rankSorted(i, got.Rank[i], got.Tally[i]); msg != "" {
			return "rank", msg
		}
		// the stored ranking, exactly: tally, then id bytes [7:], then the complete id
		if !reflect.DeepEqual(append([]string{}, want.Rank[i]...), append([]string{}, got.Rank[i]...)) {
			return "rank", fmt.Sprintf("ranking of %s %v, model %v", i, got.Rank[i], want.Rank[i])
		}
		if i != "BP" && want.VTotal[i] != got.VTotal[i] {
			return "vtotal", fmt.Sprintf("recorded vote total of %s %d, model %d", i, got.VTotal[i], want.VTotal[i])
		}
	}
	// GetRankers = the first BPCOUNT entries of the BP ranking
	n := int(got.Param["BPCOUNT"])
	if n > len(got.Rank["BP"]) {
		n = len(got.Rank["BP"])
	}
	if !reflect.DeepEqual(append([]string{}, o.Rankers...), append([]string{}, got.Rank["BP"][:n]...)) {
		return "rankers", fmt.Sprintf("GetRankers %v, first %d of the ranking %v", o.Rankers, n, got.Rank["BP"])
	}
	for p := range w.cfg.Defaults {
		if want.Param[p] != got.Param[p] {
			return "param", fmt.Sprintf("parameter %s in force %d, model %d", p, got.Param[p], want.Param[p])
		}
		if want.PNext[p] != got.PNext[p] {
			return "paramNext", fmt.Sprintf("parameter %s pending %d, model %d", p, got.PNext[p], want.PNext[p])
		}
		wd := want.Param[p]
		if want.PNext[p] >= 0 {
			wd = want.PNext[p]
		}
		if o.ParamDisk[p] != wd {
			return "paramDisk", fmt.Sprintf("parameter %s reloaded from state %d, model %d", p, o.ParamDisk[p], wd)
		}
	}
	for _, n := range w.cfg.Names {
		x, y := want.Names[n], got.Names[n]
		if x.Owner != y.Owner || x.Dest != y.Dest {
			return "names", fmt.Sprintf("name %s: owner %s destination %s, model owner %s destination %s", n, y.Owner, y.Dest, x.Owner, x.Dest)
		}
		wc := x.Owner != "none" && x.Born < want.H
		if y.Comm != wc {
			return "names-committed", fmt.Sprintf("name %s visible at the last block boundary: %v, model %v", n, y.Comm, wc)
		}
	}
	return "", ""
}

// selfConsistent evaluates the property's predicates directly on the observation (no model needed).
func (w *world) selfConsistent(o *observation) (part, text string) {
	st := &o.St
	if len(o.Problems) > 0 {
		return o.Problems[0].Part, o.Problems[0].Text
	}
	var sum int64
	for _, a := range w.cfg.Accts {
		sum += st.Acct[a].Amt
	}
	if sum != st.Total || st.Total != st.Sys {
		return "total", fmt.Sprintf("staking total %d, sum of the stakes %d, balance of aergo.system %d", st.Total, sum, st.Sys)
	}
	for _, i := range w.cfg.Issues {
		exp := map[string]int64{}
		for c, v := range st.Tally[i] {
			if v >= 0 {
				exp[c] = 0
			}
		}
		var vt int64
		for _, a := range w.cfg.Accts {
			v := st.Acct[a].Vote[i]
			if v.Amt > st.Acct[a].Amt {
				return "vote-gt-stake", fmt.Sprintf("%s's vote on %s weighs %d but its stake is %d", a, i, v.Amt, st.Acct[a].Amt)
			}
			vt += v.Amt
			for _, c := range v.Cands {
				if _, ok := exp[c]; !ok {
					return "tally", fmt.Sprintf("%s votes for %s on %s, which the ranking does not list", a, c, i)
				}
				exp[c] += v.Amt
			}
		}
		for c, v := range exp {
			if st.Tally[i][c] != v {
				return "tally", fmt.Sprintf("tally of %s on %s is %d, the votes for it sum to %d", c, i, st.Tally[i][c], v)
			}
		}
		if i != "BP" && vt != st.VTotal[i] {
			return "vtotal", fmt.Sprintf("recorded vote total of %s %d, the votes sum to %d", i, st.VTotal[i], vt)
		}
		if msg := w.rankSorted(i, st.Rank[i], st.Tally[i]); msg != "" {
			return "rank", msg
		}
	}
	n := int(st.Param["BPCOUNT"])
	if n > len(st.Rank["BP"]) {
		n = len(st.Rank["BP"])
	}
	if !reflect.DeepEqual(append([]string{}, o.Rankers...), append([]string{}, st.Rank["BP"][:n]...)) {
		return "rankers", fmt.Sprintf("GetRankers %v, BPCOUNT=%d, ranking %v", o.Rankers, st.Param["BPCOUNT"], st.Rank["BP"])
	}
	var all int64
	for _, a := range w.cfg.Accts {
		var p int64
		for _, i := range w.cfg.Issues {
			p += st.Acct[a].Vote[i].Amt
		}
		if p != st.Acct[a].Vpr {
			return "vpr", fmt.Sprintf("voting power of %s in memory %d, its votes sum to %d", a, st.Acct[a].Vpr, p)
		}
		all += st.Acct[a].Bal
	}
	if all+st.Sys+st.Nb != int64(len(w.cfg.Accts))*w.cfg.InitBal {
		return "conservation", fmt.Sprintf("balances %d + system %d + name %d != initial supply %d", all, st.Sys, st.Nb, int64(len(w.cfg.Accts))*w.cfg.InitBal)
	}
	return "", ""
}

// rankDeterministic: rebuilding the stored BP ranking (as every vote does) must always give the same bytes.
func (s *sut) rankDeterministic(i string) (n int, err error) {
	scs, _, err := s.sysState()
	if err != nil {
		return 0, err
	}
	id := i
	if i == "BP" {
		id = types.OpvoteBP.ID()
	}
	l, err := system.VerifRebuildVoteList(scs, id, 24)
	return len(l), err
}

// ---------------------------------------------------------------- model guards (only to name the refused guard in signatures)

func guardOf(cfg *govCfg, st *mState, op govOp) string {
	a := st.Acct[op.A]
	d := cfg.Delay
	switch op.Name {
	case "Stake":
		if a.Bal < op.X {
			return "balance"
		}
		if a.Ever && a.When+d > st.H {
			return "lock"
		}
		if a.Amt+op.X < st.Param["STAKINGMIN"] {
			return "minimum"
		}
	case "Unstake":
		if a.Amt == 0 {
			return "nothing-staked"
		}
		if a.Amt < op.X {
			return "exceeds-stake"
		}
		if a.Ever && a.When+d > st.H {
			return "lock"
		}
		if a.Amt-op.X != 0 && a.Amt-op.X < st.Param["STAKINGMIN"] {
			return "minimum"
		}
	case "VoteBP", "VoteDAO":
		i := "BP"
		if op.Name == "VoteDAO" {
			i = op.I
		}
		if op.Name == "VoteDAO" && (op.V <= 0 || (op.I == "BPCOUNT" && op.V > 100)) {
			return "invalid-value"
		}
		if a.Amt == 0 {
			return "nothing-staked"
		}
		if a.Vote[i].Set && a.When+d > st.H {
			return "lock"
		}
	case "NameCreate":
		if a.Bal < op.P {
			return "balance"
		}
		if op.P < st.Param["NAMEPRICE"] {
			return "price"
		}
		if st.Names[op.N].Owner != "none" {
			return "occupied"
		}
	case "NameUpdate":
		if a.Bal < op.P {
			return "balance"
		}
		if op.P < st.Param["NAMEPRICE"] {
			return "price"
		}
		if st.Names[op.N].Owner != op.A {
			return "not-owner"
		}
		if st.Names[op.N].Born >= st.H {
			return "same-block"
		}
	case "Transfer":
		if a.Bal < op.X {
			return "balance"
		}
	}
	return "none"
}

// ---------------------------------------------------------------- reporting (one violation per signature)

type reporter struct {
	res  *verifkit.Result
	mu   sync.Mutex
	seen map[string]bool
}

func (r *reporter) violate(sig map[string]interface{}, replay interface{}, format string, a ...interface{}) {
	k, _ := json.Marshal(sig)
	r.mu.Lock()
	dup := r.seen[string(k)]
	r.seen[string(k)] = true
	r.mu.Unlock()
	if dup {
		return
	}
	r.res.Violate(sig, replay, "%s  [sig %s]", fmt.Sprintf(format, a...), k)
}

type replayInfo struct {
	Mode    string                 `json:"mode"` // "graph <name>" or "random"
	World   map[string]interface{} `json:"world"`
	History []string               `json:"history"` // "<block number>:<operation>" in execution order
	Op      *govOp                 `json:"op,omitempty"`
	Note    string                 `json:"note,omitempty"`
}

func (s *sut) replay(mode string, op *govOp, note string) replayInfo {
	return replayInfo{Mode: mode, World: s.w.describe(), History: append([]string(nil), s.hist...), Op: op, Note: note}
}

// common per-state checks that need no model: memory vs reload, determinism of the stored ranking
func (s *sut) stateChecks(rep *reporter, mode string, o *observation, lastOp *govOp) {
	for _, p := range s.vprProblems(o) {
		rep.violate(map[string]interface{}{"kind": "vpr-mem-vs-reload", "part": p.Part}, s.replay(mode, lastOp, ""), "voting power rank: %s", p.Text)
	}
	if s.w.twinTie(o.St.Tally["BP"]) {
		n, err := s.rankDeterministic("BP")
		if err == nil && n > 1 {
			stored, _ := func() (string, error) {
				scs, _, err := s.sysState()
				if err != nil {
					return "", err
				}
				return system.VerifStoredVoteList(scs, types.OpvoteBP.ID())
			}()
			rep.violate(map[string]interface{}{"kind": "ranking-not-deterministic", "tie": "candidates-equal-in-id-bytes-7-and-up"}, s.replay(mode, lastOp, "stored list "+stored),
				"BP ranking %v with tallies %v: rebuilding the stored vote list 24 times gave %d different serialisations - the order of two candidates with equal tally whose ids "+
					"agree from byte 7 on depends on Go's map iteration order, so the bytes written to the state (and the state root) differ between nodes", o.St.Rank["BP"], o.St.Tally["BP"], n)
		}
	}
}

// ---------------------------------------------------------------- mode A: the TLC graph

var layouts = []string{"one-bucket", "free", "two-buckets"}

func runGraph(in *govGraph, shard, nshards int, res *verifkit.Result, rep *reporter) {
	if int64(system.StakingDelay)%in.Cfg.Delay != 0 || system.StakingDelay != system.VotingDelay {
		rep.violate(map[string]interface{}{"kind": "delay-constants"}, nil, "StakingDelay=%d and VotingDelay=%d cannot be mapped onto the model delay %d", system.StakingDelay, system.VotingDelay, in.Cfg.Delay)
		return
	}
	maxH := in.MaxH
	hmaps := []*heightMap{newHeightMap("inside-first", in.Cfg.Delay, maxH), newHeightMap("inside-second", in.Cfg.Delay, maxH), newHeightMap("linear", in.Cfg.Delay, maxH)}
	roots := map[string]string{}  // concrete history -> state root at the block boundary
	rootTwin := map[string]bool{} // history had a twin tie
	worlds := map[string]*world{} // one concretisation per layout (so that histories are comparable)
	for pi := shard; pi < len(in.Paths); pi += nshards {
		path := in.Paths[pi]
		// account layout and height map vary with the path (every combination occurs: 3 and 5 are coprime)
		v := pi / nshards
		layout := layouts[v%len(layouts)]
		hm := hmaps[[]int{0, 1, 0, 1, 2}[v%5]]
		amounts := scaleNames[[]int{0, 1, 0, 1, 1, 0, 1}[v%7]] // 3, 5 and 7 are coprime: every combination occurs
		w := worlds[layout+hm.name+amounts]
		if w == nil {
			w = newWorld(in.Cfg, verifkit.Rng(int64(len(layout))), layout, hm)
			w.amounts = amounts
			worlds[layout+hm.name+amounts] = w
		}
		s, err := newSut(w, hm.block(in.state(in.Init).H))
		if err != nil {
			panic(err)
		}
		cur := in.Init
		twin := false
		func() {
			defer s.close()
			// the initial state
			curObs, err := s.observe(nil)
			if err != nil {
				rep.violate(map[string]interface{}{"kind": "read-error"}, s.replay("graph "+in.Name, nil, ""), "%v", err)
				return
			} else if part, text := w.diff(in.state(cur), curObs, true); part != "" {
				rep.violate(map[string]interface{}{"kind": "state-mismatch", "part": part, "op": "Init"}, s.replay("graph "+in.Name, nil, ""), "initial state: %s", text)
				return
			}
			for si, step := range path {
				src := in.state(cur)
				// refusals: every transaction the model refuses in this state, once per state
				if len(step.Refuse) > 0 {
					for _, ri := range step.Refuse {
						op := in.Ops[ri]
						acc, _, err := s.exec(op)
						res.Count(fmt.Sprintf("refuse:%s:%d:%d", in.Name, cur, ri))
						g := guardOf(&in.Cfg, src, op)
						if err != nil {
							rep.violate(map[string]interface{}{"kind": "exec-error", "op": op.Name, "guard": g}, s.replay("graph "+in.Name, &op, ""), "%s: %v", opString(op), err)
							return
						}
						o, err := s.observe(curObs)
						if err != nil {
							rep.violate(map[string]interface{}{"kind": "read-error", "op": op.Name}, s.replay("graph "+in.Name, &op, ""), "%v", err)
							return
						}
						if acc {
							rep.violate(map[string]interface{}{"kind": "not-refused", "op": op.Name, "guard": g}, s.replay("graph "+in.Name, &op, ""),
								"%s was accepted at height %d although the model refuses it (%s)", opString(op), src.H, g)
							return
						}
						if part, text := w.diff(src, o, false); part != "" {
							rep.violate(map[string]interface{}{"kind": "refused-tx-changed-state", "op": op.Name, "part": part}, s.replay("graph "+in.Name, &op, ""),
								"refused %s changed the state: %s", opString(op), text)
							return
						}
						s.stateChecks(rep, "graph "+in.Name, o, &op)
						s.hist = s.hist[:len(s.hist)-1]
					}
				}
				// the step itself
				dst := in.state(step.Dst)
				var lastOp *govOp
				opName := "NextBlock"
				boundary := false
				if step.Op == -2 {
					opName = "DiscardBlock"
					if err := s.discardBlock(); err != nil {
						rep.violate(map[string]interface{}{"kind": "exec-error", "op": "DiscardBlock"}, s.replay("graph "+in.Name, nil, ""), "discarding the block: %v", err)
						return
					}
				} else if step.Op < 0 {
					step.Restart = (pi+si)%2 == 1 // a node restart at every other block boundary (invisible in the model)
					root, err := s.nextBlock(hm.block(dst.H), step.Restart)
					if err != nil {
						rep.violate(map[string]interface{}{"kind": "exec-error", "op": "NextBlock"}, s.replay("graph "+in.Name, nil, ""), "block boundary: %v", err)
						return
					}
					boundary = true
					// (restarts are not part of the key: a restart must not change the state)
					hk := w.layout + hm.name + w.amounts + "|" + strings.NewReplacer(" restart=true", "", " restart=false", "").Replace(strings.Join(s.hist[:len(s.hist)-1], ";"))
					hs := sha256.Sum256([]byte(hk))
					hkey := hex.EncodeToString(hs[:])
					if prev, ok := roots[hkey]; ok && prev != hex.EncodeToString(root) {
						sig := map[string]interface{}{"kind": "state-root-not-deterministic"}
						if twin || rootTwin[hkey] {
							sig["tie"] = "candidates-equal-in-id-bytes-7-and-up"
						}
						rep.violate(sig, s.replay("graph "+in.Name, nil, ""), "two executions of the same history end the block with different state roots: %s vs %x", prev, root)
					}
					roots[hkey] = hex.EncodeToString(root)
					rootTwin[hkey] = twin
				} else {
					op := in.Ops[step.Op]
					lastOp = &op
					opName = op.Name
					acc, why, err := s.exec(op)
					if err != nil {
						rep.violate(map[string]interface{}{"kind": "exec-error", "op": op.Name}, s.replay("graph "+in.Name, &op, ""), "%s: %v", opString(op), err)
						return
					}
					if !acc {
						rep.violate(map[string]interface{}{"kind": "refused-but-model-accepts", "op": op.Name}, s.replay("graph "+in.Name, &op, ""),
							"%s was refused (%s) at height %d although the model accepts it", opString(op), why, src.H)
						return
					}
				}
				res.Count(fmt.Sprintf("edge:%s:%d:%d:%v:%s:%s:%s", in.Name, cur, step.Op, step.Restart, w.layout, hm.name, w.amounts))
				o, err := s.observe(nil)
				if err != nil {
					rep.violate(map[string]interface{}{"kind": "read-error", "op": opName}, s.replay("graph "+in.Name, lastOp, ""), "%v", err)
					return
				}
				if part, text := w.diff(dst, o, boundary); part != "" {
					rep.violate(map[string]interface{}{"kind": "state-mismatch", "part": part, "op": opName}, s.replay("graph "+in.Name, lastOp, ""),
						"after %s (path %d step %d): %s", s.hist[len(s.hist)-1], pi, si, text)
					return
				}
				if part, text := w.selfConsistent(o); part != "" {
					rep.violate(map[string]interface{}{"kind": "invariant", "part": part, "op": opName}, s.replay("graph "+in.Name, lastOp, ""), "after %s: %s", s.hist[len(s.hist)-1], text)
					return
				}
				if w.twinTie(o.St.Tally["BP"]) {
					twin = true
				}
				s.stateChecks(rep, "graph "+in.Name, o, lastOp)
				if pi == 0 && si < 3 {
					res.Sample(map[string]interface{}{"history": append([]string(nil), s.hist...), "observed": o.St})
				}
				cur = step.Dst
				curObs = o
			}
		}()
	}
}

// ---------------------------------------------------------------- mode B: random histories, recorded for TLC

type traceEvent struct {
	Ev      string                 `json:"ev"`
	Op      map[string]interface{} `json:"op,omitempty"`
	Ok      bool                   `json:"ok"`
	H       int64                  `json:"h,omitempty"`
	Restart bool                   `json:"restart"`
	Obs     map[string]interface{} `json:"obs,omitempty"`
}

func pairsOf(t map[string]int64, numeric bool) []map[string]interface{} {
	ks := make([]string, 0, len(t))
	for k := range t {
		ks = append(ks, k)
	}
	sort.Strings(ks)
	out := []map[string]interface{}{}
	for _, k := range ks {
		var c interface{} = k
		if numeric {
			n, _ := strconv.ParseInt(k, 10, 64)
			c = n
		}
		out = append(out, map[string]interface{}{"c": c, "t": t[k]})
	}
	return out
}

func numList(l []string, numeric bool) []interface{} {
	out := []interface{}{}
	for _, c := range l {
		if numeric {
			n, _ := strconv.ParseInt(c, 10, 64)
			out = append(out, n)
		} else {
			out = append(out, c)
		}
	}
	return out
}

// obsJSON renders an observation for GovernanceTrace.tla
func (w *world) obsJSON(o *observation) map[string]interface{} {
	st := &o.St
	acct := map[string]interface{}{}
	for _, a := range w.cfg.Accts {
		ma := st.Acct[a]
		votes := map[string]interface{}{}
		for _, i := range w.cfg.Issues {
			v := ma.Vote[i]
			votes[i] = map[string]interface{}{"set": v.Set, "cands": numList(v.Cands, i != "BP"), "amt": v.Amt}
		}
		acct[a] = map[string]interface{}{"bal": ma.Bal, "amt": ma.Amt, "when": ma.When, "ever": ma.Ever, "vpr": ma.Vpr, "vote": votes}
	}
	tally := map[string]interface{}{}
	rank := map[string]interface{}{}
	vt := map[string]interface{}{}
	for _, i := range w.cfg.Issues {
		tally[i] = pairsOf(st.Tally[i], i != "BP")
		rank[i] = numList(st.Rank[i], i != "BP")
		if i != "BP" {
			vt[i] = st.VTotal[i]
		}
	}
	names := map[string]interface{}{}
	for _, n := range w.cfg.Names {
		names[n] = map[string]interface{}{"owner": st.Names[n].Owner, "dest": st.Names[n].Dest, "comm": st.Names[n].Comm}
	}
	return map[string]interface{}{"h": st.H, "sys": st.Sys, "nb": st.Nb, "total": st.Total, "acct": acct, "tally": tally, "rank": rank,
		"vtotal": vt, "param": st.Param, "pnext": st.PNext, "names": names}
}

func opJSON(op govOp) map[string]interface{} {
	m := map[string]interface{}{"name": op.Name, "a": op.A, "x": op.X, "cs": numList(op.Cs, false), "i": op.I, "v": op.V, "n": op.N, "to": op.To, "p": op.P}
	if op.Cs == nil {
		m["cs"] = []interface{}{}
	}
	return m
}

func runRandom(in *govInput, shard, nshards int, res *verifkit.Result, rep *reporter, trace *bytes.Buffer) {
	cfg := in.RCfg
	var cands []string
	for c := range cfg.Cands {
		cands = append(cands, c)
	}
	sort.Strings(cands)
	var dao []string
	for _, i := range cfg.Issues {
		if i != "BP" {
			dao = append(dao, i)
		}
	}
	delay := int64(system.StakingDelay)
	enc := json.NewEncoder(trace)
	for hi := shard; hi < in.Random.Histories; hi += nshards {
		rng := verifkit.Rng(int64(500000 + hi))
		w := newWorld(cfg, rng, layouts[hi%len(layouts)], &heightMap{name: "block numbers"})
		start := uint64(1 + rng.Intn(1000))
		s, err := newSut(w, start)
		if err != nil {
			panic(err)
		}
		emit := func(e traceEvent) { enc.Encode(e) }
		func() {
			defer s.close()
			o, err := s.observe(nil)
			if err != nil {
				rep.violate(map[string]interface{}{"kind": "read-error"}, s.replay("random", nil, ""), "%v", err)
				return
			}
			emit(traceEvent{Ev: "Reset", H: int64(start), Obs: w.obsJSON(o)})
			stakeAmts := []int64{0, 5000, 10000, 10000, 15000, 20000, 20000, 30000, 40000}
			focus, focusLeft := "", 0
			for n := 0; n < in.Random.Length; n++ {
				st := &o.St
				var op govOp
				a := cfg.Accts[rng.Intn(len(cfg.Accts))]
				r := rng.Intn(100)
				if focusLeft > 0 { // right after a jump to the edge of focus' lock period: lock-sensitive transactions by it
					focusLeft--
					a, r = focus, 18+rng.Intn(66)
				}
				if r >= 18 && rng.Intn(25) == 0 { // the block under construction fails
					if err := s.discardBlock(); err != nil {
						rep.violate(map[string]interface{}{"kind": "exec-error", "op": "DiscardBlock"}, s.replay("random", nil, ""), "discarding the block: %v", err)
						return
					}
					if o, err = s.observe(nil); err != nil {
						rep.violate(map[string]interface{}{"kind": "read-error", "op": "DiscardBlock"}, s.replay("random", nil, ""), "%v", err)
						return
					}
					emit(traceEvent{Ev: "Discard", Obs: w.obsJSON(o)})
					res.Count(fmt.Sprintf("rdiscard:%d:%d", hi, n))
					if part, text := w.selfConsistent(o); part != "" {
						rep.violate(map[string]interface{}{"kind": "invariant", "part": part, "op": "DiscardBlock"}, s.replay("random", nil, ""), "after a failed block: %s", text)
						return
					}
					s.stateChecks(rep, "random", o, nil)
					continue
				}
				switch {
				case r < 18: // block boundary, often exactly around somebody's lock period
					next := int64(s.no) + 1
					if rng.Intn(4) > 0 {
						b := cfg.Accts[rng.Intn(len(cfg.Accts))]
						if st.Acct[b].Ever {
							t := st.Acct[b].When + delay + int64(rng.Intn(3)) - 1
							if rng.Intn(5) == 0 {
								t = st.Acct[b].When + delay/2
							}
							if t > int64(s.no) {
								next = t
								focus, focusLeft = b, 1+rng.Intn(2)
							}
						}
					}
					restart := rng.Intn(4) == 0
					if _, err := s.nextBlock(uint64(next), restart); err != nil {
						rep.violate(map[string]interface{}{"kind": "exec-error", "op": "NextBlock"}, s.replay("random", nil, ""), "block boundary: %v", err)
						return
					}
					if o, err = s.observe(nil); err != nil {
						rep.violate(map[string]interface{}{"kind": "read-error", "op": "NextBlock"}, s.replay("random", nil, ""), "%v", err)
						return
					}
					emit(traceEvent{Ev: "Block", H: next, Restart: restart, Obs: w.obsJSON(o)})
					res.Count(fmt.Sprintf("rblock:%d:%d", hi, n))
					if part, text := w.selfConsistent(o); part != "" {
						rep.violate(map[string]interface{}{"kind": "invariant", "part": part, "op": "NextBlock"}, s.replay("random", nil, ""), "at the block boundary: %s", text)
						return
					}
					s.stateChecks(rep, "random", o, nil)
					continue
				case r < 36:
					op = govOp{Name: "Stake", A: a, X: stakeAmts[rng.Intn(len(stakeAmts))]}
				case r < 52:
					x := stakeAmts[rng.Intn(len(stakeAmts))]
					if rng.Intn(3) == 0 {
						x = st.Acct[a].Amt // everything
					}
					op = govOp{Name: "Unstake", A: a, X: x}
				case r < 72:
					var cs []string
					for _, c := range cands {
						if rng.Intn(3) == 0 {
							cs = append(cs, c)
						}
					}
					if rng.Intn(3) == 0 { // force a pair of twins / a tie
						cs = nil
						k := cfg.Cands[cands[rng.Intn(len(cands))]].Key
						for _, c := range cands {
							if cfg.Cands[c].Key == k {
								cs = append(cs, c)
							}
						}
					}
					op = govOp{Name: "VoteBP", A: a, Cs: cs}
				case r < 84:
					if len(dao) == 0 {
						continue
					}
					i := dao[rng.Intn(len(dao))]
					vs := cfg.DaoVals[i]
					op = govOp{Name: "VoteDAO", A: a, I: i, V: vs[rng.Intn(len(vs))]}
				case r < 90:
					op = govOp{Name: "NameCreate", A: a, N: cfg.Names[rng.Intn(len(cfg.Names))], P: int64(rng.Intn(4))}
				case r < 96:
					op = govOp{Name: "NameUpdate", A: a, N: cfg.Names[rng.Intn(len(cfg.Names))], To: cfg.Accts[rng.Intn(len(cfg.Accts))], P: int64(rng.Intn(4))}
				default:
					b := cfg.Accts[rng.Intn(len(cfg.Accts))]
					if b == a {
						continue
					}
					op = govOp{Name: "Transfer", A: a, To: b, X: []int64{1, 5000, 10000, 50000, 200000}[rng.Intn(5)]}
				}
				acc, _, err := s.exec(op)
				if err != nil {
					rep.violate(map[string]interface{}{"kind": "exec-error", "op": op.Name}, s.replay("random", &op, ""), "%s: %v", opString(op), err)
					return
				}
				before := o
				var prev *observation
				if !acc {
					prev = before
				}
				if o, err = s.observe(prev); err != nil {
					rep.violate(map[string]interface{}{"kind": "read-error", "op": op.Name}, s.replay("random", &op, ""), "%v", err)
					return
				}
				emit(traceEvent{Ev: "Tx", Op: opJSON(op), Ok: acc, Obs: w.obsJSON(o)})
				res.Count(fmt.Sprintf("rtx:%d:%d", hi, n))
				if !acc && !reflect.DeepEqual(before.St, o.St) {
					rep.violate(map[string]interface{}{"kind": "refused-tx-changed-state", "op": op.Name}, s.replay("random", &op, ""), "refused %s changed the state", opString(op))
					return
				}
				if part, text := w.selfConsistent(o); part != "" {
					rep.violate(map[string]interface{}{"kind": "invariant", "part": part, "op": op.Name}, s.replay("random", &op, ""), "after %s: %s", opString(op), text)
					return
				}
				s.stateChecks(rep, "random", o, &op)
			}
		}()
	}
}

// ---------------------------------------------------------------- entry point (parent spawns one worker process per shard)

func TestVerifGovernance(t *testing.T) {
	if !verifkit.Enabled() {
		t.Skip("run through bin/vcheck")
	}
	var in govInput
	if err := verifkit.ReadInput(&in); err != nil {
		t.Fatal(err)
	}
	res := verifkit.NewResult()
	rep := &reporter{res: res, seen: map[string]bool{}}
	if sh := os.Getenv("VERIF_SHARD"); sh != "" { // worker
		var shard, n int
		fmt.Sscanf(sh, "%d/%d", &shard, &n)
		var trace bytes.Buffer
		for gi := range in.Graphs {
			runGraph(&in.Graphs[gi], shard, n, res, rep)
		}
		runRandom(&in, shard, n, res, rep, &trace)
		if tp := os.Getenv("VERIF_TRACE"); tp != "" {
			if err := os.WriteFile(tp, trace.Bytes(), 0o644); err != nil {
				t.Fatal(err)
			}
		}
		if err := res.Write(); err != nil {
			t.Fatal(err)
		}
		return
	}
	n := in.Shards
	if n <= 0 {
		n = runtime.NumCPU()
		if n > 12 {
			n = 12
		}
	}
	out := os.Getenv("VERIF_OUT")
	tracePath := os.Getenv("VERIF_TRACE")
	type child struct {
		out, trace string
		err        error
		log        []byte
	}
	kids := make([]child, n)
	var wg sync.WaitGroup
	for i := 0; i < n; i++ {
		i := i
		kids[i].out = fmt.Sprintf("%s.shard%d", out, i)
		kids[i].trace = fmt.Sprintf("%s.trace%d", out, i)
		wg.Add(1)
		go func() {
			defer wg.Done()
			cmd := exec.Command(os.Args[0], "-test.run", "^TestVerifGovernance$", "-test.timeout", "3000s")
			cmd.Env = append(os.Environ(), fmt.Sprintf("VERIF_SHARD=%d/%d", i, n), "VERIF_OUT="+kids[i].out, "VERIF_TRACE="+kids[i].trace, "GOGC=400")
			kids[i].log, kids[i].err = cmd.CombinedOutput()
		}()
	}
	wg.Wait()
	var trace bytes.Buffer
	seenSig := map[string]bool{}
	evals := 0
	for i := range kids {
		b, err := os.ReadFile(kids[i].out)
		if err != nil {
			t.Fatalf("shard %d wrote no result (%v):\n%s", i, kids[i].err, tail(kids[i].log))
		}
		var r struct {
			Evaluations int                  `json:"evaluations"`
			Distinct    []string             `json:"distinct"`
			Samples     []interface{}        `json:"samples"`
			Violations  []verifkit.Violation `json:"violations"`
			Notes       []string             `json:"notes"`
		}
		if err := json.Unmarshal(b, &r); err != nil {
			t.Fatalf("shard %d: %v", i, err)
		}
		if kids[i].err != nil && len(r.Violations) == 0 {
			t.Fatalf("shard %d failed: %v\n%s", i, kids[i].err, tail(kids[i].log))
		}
		evals += r.Evaluations
		for _, d := range r.Distinct {
			res.Count(d)
		}
		for _, s := range r.Samples {
			res.Sample(s)
		}
		for _, nn := range r.Notes {
			res.Note("%s", nn)
		}
		for _, v := range r.Violations {
			k, _ := json.Marshal(v.Sig)
			if seenSig[string(k)] {
				continue
			}
			seenSig[string(k)] = true
			res.Violate(v.Sig, v.Replay, "%s", v.Text)
		}
		if tb, err := os.ReadFile(kids[i].trace); err == nil {
			trace.Write(tb)
		}
		os.Remove(kids[i].out)
		os.Remove(kids[i].trace)
	}
	res.Evaluations = evals
	if tracePath != "" {
		if err := os.WriteFile(tracePath, trace.Bytes(), 0o644); err != nil {
			t.Fatal(err)
		}
	}
	if err := res.Write(); err != nil {
		t.Fatal(err)
	}
}

func tail(b []byte) string {
	if len(b) > 4000 {
		b = b[len(b)-4000:]
	}
	return string(b)
}
