//go:build verif

// Package contract — pure-Go stand-in for the LuaJIT VM (verification harness only).
//
// This file is added to package contract by /verif/overlay/gen_overlay.py while all
// cgo/C files of the package are masked.  contract.go (Execute, checkExecution,
// checkRedeploy, CreateContractID) and errors.go stay the REAL code.
//
// The stub interprets the call payload as a ';'-separated list of tiny operations
// acting on the real statedb.ContractState / state.AccountState:
//
//	set <k> <v> | del <k> | send <b58addr> <amount> | event <name> | fail | sysfail
//	| fee <n> | ret <string> | nop
//
// A failing operation makes the whole call fail with a runtime error.  As in the real
// executor, contract storage written before the failure is NOT rolled back by the VM
// (its savepoints only cover SQL); `send` transfers made before the failure are undone
// (the real VM's recovery points restore balances of nested sends).
package contract

import (
	"context"
	"errors"
	"fmt"
	"math/big"
	"os"
	"strings"

	"github.com/aergoio/aergo-lib/log"
	"github.com/aergoio/aergo/v2/state"
	"github.com/aergoio/aergo/v2/state/statedb"
	"github.com/aergoio/aergo/v2/types"
	"github.com/aergoio/aergo/v2/types/dbkey"
)

const (
	maxCallDepthOld = 5
	maxCallDepth    = 64
)

var (
	ctrLgr     = log.NewLogger("contract")
	maxContext int
)

type ChainAccessor interface {
	GetBlockByNo(blockNo types.BlockNo) (*types.Block, error)
	GetBestBlock() (*types.Block, error)
}

type vmContext struct {
	bs          *state.BlockState
	cdb         ChainAccessor
	sender      *state.AccountState
	receiver    *state.AccountState
	ctrState    *statedb.ContractState
	senderID    []byte
	txHash      []byte
	blockInfo   *types.BlockHeaderInfo
	isQuery     bool
	amount      *big.Int
	gasLimit    uint64
	traceFile   *os.File
	isMultiCall bool
	execFee     *big.Int
}

func MaxCallDepth(version int32) int32 {
	if version >= 3 {
		return maxCallDepth
	}
	return maxCallDepthOld
}

func InitContext(numCtx int, logInternalOps bool) { maxContext = numCtx }

func StartLStateFactory(num, numClosers, numCloseLimit int) {}

func LoadDatabase(dataDir string) error     { return nil }
func LoadTestDatabase(dataDir string) error { return nil }
func CloseDatabase()                        {}

func SaveRecoveryPoint(bs *state.BlockState) error { return nil }

func NewVmContext(
	execCtx context.Context,
	blockState *state.BlockState,
	cdb ChainAccessor,
	sender, receiver *state.AccountState,
	contractState *statedb.ContractState,
	senderID,
	txHash []byte,
	bi *types.BlockHeaderInfo,
	node string,
	confirmed, query bool,
	rp uint64,
	executionMode int,
	amount *big.Int,
	gasLimit uint64,
	feeDelegation, isMultiCall bool,
) *vmContext {
	return &vmContext{
		bs: blockState, cdb: cdb, sender: sender, receiver: receiver, ctrState: contractState,
		senderID: senderID, txHash: txHash, blockInfo: bi, isQuery: query, amount: amount,
		gasLimit: gasLimit, isMultiCall: isMultiCall, execFee: new(big.Int),
	}
}

func (ctx *vmContext) usedFee() *big.Int { return new(big.Int).Set(ctx.execFee) }

type stubSend struct {
	to  *state.AccountState
	amt *big.Int
}

// runOps interprets the op list. It returns ret, events, error.
func runOps(ctx *vmContext, cs *statedb.ContractState, contractAddress []byte, prog string, readOnly bool) (string, []*types.Event, error) {
	var (
		ret    string
		events []*types.Event
		sends  []stubSend
	)
	// Like the real executor (vm.go Call/Create): a failing top-level call does NOT roll the contract storage
	// back itself - rollbackToSavepoint only concerns the SQL databases.  Storage writes made before the failure
	// stay in the ContractState handle; whether they survive is up to executeTx / the block state.
	fail := func(err error) (string, []*types.Event, error) {
		for i := len(sends) - 1; i >= 0; i-- {
			sends[i].to.SubBalance(sends[i].amt)
			ctx.receiver.AddBalance(sends[i].amt)
		}
		return "", events, err
	}
	touched := map[types.AccountID]*state.AccountState{}
	for _, raw := range strings.Split(prog, ";") {
		f := strings.Fields(strings.TrimSpace(raw))
		if len(f) == 0 {
			continue
		}
		switch f[0] {
		case "nop":
		case "set":
			if len(f) != 3 {
				return fail(fmt.Errorf("stub: bad set"))
			}
			if readOnly {
				return fail(errors.New("[Contract.SetVariable] not permitted in query"))
			}
			if err := cs.SetData([]byte(f[1]), []byte(f[2])); err != nil {
				return fail(err)
			}
		case "del":
			if len(f) != 2 {
				return fail(fmt.Errorf("stub: bad del"))
			}
			if readOnly {
				return fail(errors.New("[Contract.DelVariable] not permitted in query"))
			}
			if err := cs.DeleteData([]byte(f[1])); err != nil {
				return fail(err)
			}
		case "send":
			if len(f) != 3 {
				return fail(fmt.Errorf("stub: bad send"))
			}
			if readOnly {
				return fail(errors.New("[Contract.LuaSendAmount] send not permitted in query"))
			}
			to, err := types.DecodeAddress(f[1])
			if err != nil {
				return fail(err)
			}
			amt, ok := new(big.Int).SetString(f[2], 10)
			if !ok || amt.Sign() < 0 {
				return fail(fmt.Errorf("stub: bad amount"))
			}
			aid := types.ToAccountID(to)
			var toSt *state.AccountState
			switch {
			case aid == ctx.receiver.AccountID():
				toSt = ctx.receiver
			case ctx.sender != nil && aid == ctx.sender.AccountID():
				toSt = ctx.sender
			default:
				if toSt = touched[aid]; toSt == nil {
					if toSt, err = state.GetAccountState(to, ctx.bs.StateDB); err != nil {
						return fail(err)
					}
					touched[aid] = toSt
				}
			}
			if ctx.receiver.Balance().Cmp(amt) < 0 {
				return fail(types.ErrInsufficientBalance)
			}
			ctx.receiver.SubBalance(amt)
			toSt.AddBalance(amt)
			sends = append(sends, stubSend{toSt, amt})
		case "event":
			if len(f) != 2 {
				return fail(fmt.Errorf("stub: bad event"))
			}
			if readOnly {
				return fail(errors.New("[Contract.Event] event not permitted in query"))
			}
			events = append(events, &types.Event{ContractAddress: contractAddress, EventName: f[1], JsonArgs: "[]", EventIdx: int32(len(events))})
		case "fee":
			if len(f) != 2 {
				return fail(fmt.Errorf("stub: bad fee"))
			}
			n, ok := new(big.Int).SetString(f[1], 10)
			if !ok {
				return fail(fmt.Errorf("stub: bad fee"))
			}
			ctx.execFee.Add(ctx.execFee, n)
		case "ret":
			ret = strings.Join(f[1:], " ")
		case "fail":
			return fail(errors.New("stub: contract failed"))
		case "sysfail":
			_, ev, _ := fail(nil)
			return "", ev, newVmSystemError(errors.New("stub: system failure"))
		default:
			return fail(fmt.Errorf("stub: unknown op %q", f[0]))
		}
	}
	// commitCalledContract: persist accounts touched by sends
	for _, st := range touched {
		if err := st.PutState(); err != nil {
			return fail(newDbSystemError(err))
		}
	}
	return ret, events, nil
}

func hasCode(cs *statedb.ContractState) bool { return len(cs.GetCodeHash()) != 0 }

func Call(contractState *statedb.ContractState, payload, contractAddress []byte, ctx *vmContext) (string, []*types.Event, string, *big.Int, error) {
	if !ctx.isMultiCall && !hasCode(contractState) {
		addr := types.EncodeAddress(contractAddress)
		return "", nil, "", ctx.usedFee(), fmt.Errorf("not found contract %s", addr)
	}
	ret, ev, err := runOps(ctx, contractState, contractAddress, string(payload), false)
	return ret, ev, "", ctx.usedFee(), err
}

func Create(contractState *statedb.ContractState, payload, contractAddress []byte, ctx *vmContext) (string, []*types.Event, string, *big.Int, error) {
	if len(payload) == 0 {
		return "", nil, "", ctx.usedFee(), errors.New("contract code is required")
	}
	if err := contractState.SetCode(nil, payload); err != nil {
		return "", nil, "", ctx.usedFee(), err
	}
	if err := contractState.SetData(dbkey.CreatorMeta(), []byte(types.EncodeAddress(ctx.senderID))); err != nil {
		return "", nil, "", ctx.usedFee(), err
	}
	// the deployed "code" is itself an op list run as the constructor
	ret, ev, err := runOps(ctx, contractState, contractAddress, string(payload), false)
	return ret, ev, "", ctx.usedFee(), err
}

func Query(contractAddress []byte, bs *state.BlockState, cdb ChainAccessor, contractState *statedb.ContractState, queryInfo []byte) ([]byte, error) {
	if !hasCode(contractState) {
		return nil, fmt.Errorf("not found contract %s", types.EncodeAddress(contractAddress))
	}
	acc := state.InitAccountState(contractState.GetID(), bs.StateDB, contractState.State, contractState.State)
	ctx := &vmContext{bs: bs, cdb: cdb, receiver: acc, ctrState: contractState, isQuery: true, amount: new(big.Int), execFee: new(big.Int)}
	ret, _, err := runOps(ctx, contractState, contractAddress, string(queryInfo), true)
	return []byte(ret), err
}

func CheckFeeDelegation(contractAddress []byte, bs *state.BlockState, bi *types.BlockHeaderInfo, cdb ChainAccessor,
	contractState *statedb.ContractState, payload, txHash, sender, amount []byte) error {
	if !hasCode(contractState) {
		return fmt.Errorf("not found contract %s", types.EncodeAddress(contractAddress))
	}
	// code containing the word "delegate" allows fee delegation
	code, err := contractState.GetCode()
	if err != nil {
		return err
	}
	if !strings.Contains(string(code), "delegate") {
		return types.ErrNotAllowedFeeDelegation
	}
	return nil
}

func GetABI(contractState *statedb.ContractState, bs *state.BlockState) (*types.ABI, error) {
	if !hasCode(contractState) {
		return nil, errors.New("cannot find contract")
	}
	return &types.ABI{Version: "stub", Language: "stub"}, nil
}
