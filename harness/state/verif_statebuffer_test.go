//go:build verif

package state

// Conformance harness for spec/state/StateBuffer.tla (C12): snapshots of the working state.
//
// Part A (spec -> code): walks through the complete TLC transition graph of the small model
// (an edge cover computed by checks/c12.py) are replayed on the real StateDB / BlockState /
// ContractState / AccountState; after every step everything the property talks about is read
// back through the public API and compared with the reference layer of the target state.
//
// Part B (code -> spec): a seeded random driver (more accounts, contracts, keys, deeper
// nesting) drives the real code, checks it against a Go transcription of the reference layer
// and records what was read back as ndjson events; TLC validates the recording against
// StateBufferTrace.tla.

import (
	"bytes"
	"encoding/hex"
	"encoding/json"
	"fmt"
	"math/rand"
	"os"
	"runtime"
	"sort"
	"sync"
	"testing"

	"github.com/aergoio/aergo-lib/db"
	"github.com/aergoio/aergo/v2/internal/common"
	"github.com/aergoio/aergo/v2/internal/enc/proto"
	"github.com/aergoio/aergo/v2/internal/verifkit"
	"github.com/aergoio/aergo/v2/state/statedb"
	"github.com/aergoio/aergo/v2/types"
)

// ---------------------------------------------------------------- input (from TLC via checks/c12.py)

type sbAct struct {
	Name string `json:"name"`
	A    string `json:"a,omitempty"`
	C    string `json:"c,omitempty"`
	K    string `json:"k,omitempty"`
	V    string `json:"v,omitempty"`
	I    int    `json:"i,omitempty"`
	Kind string `json:"kind,omitempty"`
}

type sbAcct struct {
	D  string            `json:"d"`
	Sr map[string]string `json:"sr"`
}

// sbObs is the reference layer of a specification state (MC_StateBuffer!Obs).
type sbObs struct {
	Acct    map[string]sbAcct            `json:"acct"`
	Store   map[string]map[string]string `json:"store"`
	Hv      map[string]map[string]string `json:"hv"`
	Live    []string                     `json:"live"`
	Depth   int                          `json:"depth"`
	Ncommit int                          `json:"ncommit"`
}

type sbRandom struct {
	Walks   int `json:"walks"`
	Ops     int `json:"ops"`
	Accts   int `json:"accts"`
	Ctrs    int `json:"ctrs"`
	Keys    int `json:"keys"`
	Vals    int `json:"vals"`
	MaxSnap int `json:"maxsnap"`
	Traced  int `json:"traced"` // number of walks recorded for TLC (the first ones)
}

// one complete TLC transition graph with the walks that cover it
type sbGraph struct {
	Name   string   `json:"name"`
	Accts  []string `json:"accts"`
	Ctrs   []string `json:"ctrs"`
	Keys   []string `json:"keys"`
	States []sbObs  `json:"states"`
	Acts   []sbAct  `json:"acts"`
	Edges  [][3]int `json:"edges"` // src state, act, dst state
	Init   int      `json:"init"`
	Walks  [][]int  `json:"walks"` // edge indices, chained from Init
}

type sbInput struct {
	Graphs []sbGraph `json:"graphs"`
	Salts  int       `json:"salts"` // concretisations per walk
	Random sbRandom  `json:"random"`
}

const sbNone, sbZero = "none", "zero"

// ---------------------------------------------------------------- concretisation

type sbConc struct{ salt string }

// account ids are address sized (AccountState.ID pads shorter ones)
func (c sbConc) id(name string) []byte {
	b := make([]byte, types.AddressLength)
	copy(b, common.Hasher([]byte("verif/"+c.salt+"/"+name)))
	b[types.AddressLength-1] = 0x33
	return b
}
func (c sbConc) key(k string) []byte             { return []byte(c.salt + ":" + k) }
func (c sbConc) val(v string) []byte             { return []byte("value-" + v + "-" + c.salt) }
func (c sbConc) aid(name string) types.AccountID { return types.ToAccountID(c.id(name)) }

func sbNonce(v string) uint64 { // "v7" -> 7
	var n uint64
	fmt.Sscanf(v, "v%d", &n)
	return n
}

// abstract a value read from the real code back into the specification's vocabulary
func (c sbConc) absVal(b []byte, vals int) string {
	if len(b) == 0 {
		return sbNone
	}
	for i := 1; i <= vals; i++ {
		v := fmt.Sprintf("v%d", i)
		if bytes.Equal(b, c.val(v)) {
			return v
		}
	}
	return "?" + hex.EncodeToString(b)
}

func sbAbsAcct(st *types.State) string {
	if st == nil {
		return sbNone
	}
	if st.Nonce == 0 {
		return sbZero
	}
	return fmt.Sprintf("v%d", st.Nonce)
}

// ---------------------------------------------------------------- reference roots (from the spec of C10: canonical tree)

func sbBit(b []byte, i int) bool { return b[i/8]&(1<<uint(7-i%8)) != 0 }

func sbRefTree(m map[string][]byte, ks [][]byte, lvl int) []byte {
	if len(ks) == 0 {
		return nil
	}
	if len(ks) == 1 {
		return common.Hasher(ks[0], m[string(ks[0])], []byte{byte(256 - lvl)})
	}
	i := sort.Search(len(ks), func(i int) bool { return sbBit(ks[i], lvl) })
	l, r := sbRefTree(m, ks[:i], lvl+1), sbRefTree(m, ks[i:], lvl+1)
	if l == nil {
		l = []byte{0}
	}
	if r == nil {
		r = []byte{0}
	}
	return common.Hasher(l, r)
}

// root of the canonical sparse Merkle tree holding m (trie key -> trie value)
func sbRefRoot(m map[string][]byte) []byte {
	ks := make([][]byte, 0, len(m))
	for k := range m {
		ks = append(ks, []byte(k))
	}
	sort.Slice(ks, func(i, j int) bool { return bytes.Compare(ks[i], ks[j]) < 0 })
	return sbRefTree(m, ks, 0)
}

func (c sbConc) storageRoot(contents map[string]string) []byte {
	m := map[string][]byte{}
	for k, v := range contents {
		if v == sbNone {
			continue
		}
		id := types.GetHashID(c.key(k))
		m[string(id[:])] = common.Hasher(c.val(v))
	}
	return sbRefRoot(m)
}

func (c sbConc) acctState(a sbAcct) *types.State {
	st := &types.State{StorageRoot: c.storageRoot(a.Sr)}
	if a.D != sbZero {
		st.Nonce = sbNonce(a.D)
	}
	return st
}

func (c sbConc) stateRoot(accts map[string]sbAcct) ([]byte, error) {
	m := map[string][]byte{}
	for name, a := range accts {
		if a.D == sbNone {
			continue
		}
		buf, err := proto.Encode(c.acctState(a))
		if err != nil {
			return nil, err
		}
		id := c.aid(name)
		m[string(id[:])] = common.Hasher(buf)
	}
	return sbRefRoot(m), nil
}

// ---------------------------------------------------------------- the real objects

type sbSnap struct {
	kind  string
	c     string
	block BlockSnapshot
	rev   statedb.Snapshot
}

type sbWorld struct {
	conc      sbConc
	store     db.DB
	bs        *BlockState
	handles   map[string]*statedb.ContractState
	snaps     []sbSnap
	committed []byte
	nOpen     int
}

func newSbWorld(conc sbConc) *sbWorld {
	w := &sbWorld{conc: conc, store: db.NewDB(db.MemoryImpl, ""), handles: map[string]*statedb.ContractState{}}
	w.bs = NewBlockState(statedb.NewStateDB(w.store, nil, false))
	return w
}

func (w *sbWorld) reopen() {
	w.bs = NewBlockState(statedb.NewStateDB(w.store, w.committed, false))
	w.handles = map[string]*statedb.ContractState{}
	w.snaps = nil
}

func (w *sbWorld) putAcct(a, v string) error {
	as, err := GetAccountState(w.conc.id(a), w.bs.StateDB)
	if err != nil {
		return err
	}
	as.SetNonce(sbNonce(v))
	return as.PutState()
}

func (w *sbWorld) open(c string) error {
	var h *statedb.ContractState
	var err error
	w.nOpen++
	if w.nOpen%2 == 0 { // the way contract.Execute does it
		var as *AccountState
		as, err = GetAccountState(w.conc.id(c), w.bs.StateDB)
		if err != nil {
			return err
		}
		h, err = statedb.OpenContractState(as.ID(), as.State(), w.bs.StateDB)
	} else {
		h, err = statedb.OpenContractStateAccount(w.conc.id(c), w.bs.StateDB)
	}
	if err != nil {
		return err
	}
	w.handles[c] = h
	return nil
}

// build an initial committed state with the given contents through the real code
func (w *sbWorld) build(o *sbObs) error {
	for c, kv := range o.Store {
		n := 0
		for _, v := range kv {
			if v != sbNone {
				n++
			}
		}
		if n == 0 {
			continue
		}
		if err := w.open(c); err != nil {
			return err
		}
		for k, v := range kv {
			if v != sbNone {
				if err := w.handles[c].SetData(w.conc.key(k), w.conc.val(v)); err != nil {
					return err
				}
			}
		}
		if err := statedb.StageContractState(w.handles[c], w.bs.StateDB); err != nil {
			return err
		}
		delete(w.handles, c)
	}
	for a, st := range o.Acct {
		if st.D != sbNone && st.D != sbZero {
			if err := w.putAcct(a, st.D); err != nil {
				return err
			}
		}
	}
	if err := w.bs.Update(); err != nil {
		return err
	}
	if err := w.bs.Commit(); err != nil {
		return err
	}
	w.committed = append([]byte(nil), w.bs.GetRoot()...)
	w.reopen()
	return nil
}

func (w *sbWorld) apply(a *sbAct) error {
	switch a.Name {
	case "PutAcct":
		return w.putAcct(a.A, a.V)
	case "Open":
		return w.open(a.C)
	case "Write":
		h := w.handles[a.C]
		if h == nil {
			return fmt.Errorf("harness: no handle for %s", a.C)
		}
		if a.V == sbNone {
			return h.DeleteData(w.conc.key(a.K))
		}
		return h.SetData(w.conc.key(a.K), w.conc.val(a.V))
	case "Stage":
		h := w.handles[a.C]
		if h == nil {
			return fmt.Errorf("harness: no handle for %s", a.C)
		}
		delete(w.handles, a.C)
		return statedb.StageContractState(h, w.bs.StateDB)
	case "Drop":
		delete(w.handles, a.C)
	case "SnapBlock":
		w.snaps = append(w.snaps, sbSnap{kind: "block", block: w.bs.Snapshot()})
	case "SnapHandle":
		h := w.handles[a.C]
		if h == nil {
			return fmt.Errorf("harness: no handle for %s", a.C)
		}
		w.snaps = append(w.snaps, sbSnap{kind: "handle", c: a.C, rev: h.Snapshot()})
	case "Rollback":
		if a.I < 1 || a.I > len(w.snaps) {
			return fmt.Errorf("harness: no snapshot %d", a.I)
		}
		s := w.snaps[a.I-1]
		w.snaps = w.snaps[:a.I]
		if s.kind == "block" {
			return w.bs.Rollback(s.block)
		}
		h := w.handles[s.c]
		if h == nil {
			return fmt.Errorf("harness: handle of snapshot %d is gone", a.I)
		}
		return h.Rollback(s.rev)
	case "Release":
		if a.I < 1 || a.I > len(w.snaps) {
			return fmt.Errorf("harness: no snapshot %d", a.I)
		}
		w.snaps = w.snaps[:a.I-1]
	case "Update":
		w.snaps = nil
		return w.bs.Update()
	case "Commit":
		w.snaps = nil
		if err := w.bs.Commit(); err != nil {
			return err
		}
		w.committed = append([]byte(nil), w.bs.GetRoot()...)
	case "Reopen":
		w.reopen()
	default:
		return fmt.Errorf("harness: unknown action %q", a.Name)
	}
	return nil
}

// handles the specification no longer has (P3: transaction-scoped handles die with a revert) are forgotten
func (w *sbWorld) syncHandles(live []string) {
	keep := map[string]bool{}
	for _, c := range live {
		keep[c] = true
	}
	for c := range w.handles {
		if !keep[c] {
			delete(w.handles, c)
		}
	}
}

// what is read back from the real code, in the specification's vocabulary
type sbSeen struct {
	Acct  map[string]string            `json:"acct"`
	Store map[string]map[string]string `json:"store"`
	Hv    map[string]map[string]string `json:"hv"`
	Live  []string                     `json:"live"`
}

// observe reads every account, every storage key (through a fresh handle) and every live handle,
// and compares with the reference; returns "" or (kind, text).
func (w *sbWorld) observe(sdb *statedb.StateDB, handles map[string]*statedb.ContractState, want *sbObs,
	accts, ctrs, keys []string, nvals int, seen *sbSeen) (string, string) {
	for _, a := range accts {
		st, err := sdb.GetState(w.conc.aid(a))
		if err != nil {
			return "read-error", fmt.Sprintf("GetState(%s): %v", a, err)
		}
		got := sbAbsAcct(st)
		if seen != nil {
			seen.Acct[a] = got
		}
		wa := want.Acct[a]
		if got != wa.D {
			return "wrong-account-read", fmt.Sprintf("account %s reads %s, reference %s", a, got, wa.D)
		}
		if st != nil {
			if ref := w.conc.storageRoot(wa.Sr); !bytes.Equal(common.Compactz(st.StorageRoot), ref) {
				return "wrong-storage-root", fmt.Sprintf("account %s has storage root %x, the root of the reference contents %v is %x", a, st.StorageRoot, wa.Sr, ref)
			}
		}
	}
	for _, c := range ctrs {
		h, err := statedb.OpenContractStateAccount(w.conc.id(c), sdb)
		if err != nil {
			return "read-error", fmt.Sprintf("open %s: %v", c, err)
		}
		if seen != nil {
			seen.Store[c] = map[string]string{}
		}
		for _, k := range keys {
			b, err := h.GetData(w.conc.key(k))
			if err != nil {
				return "read-error", fmt.Sprintf("GetData(%s,%s): %v", c, k, err)
			}
			got := w.conc.absVal(b, nvals)
			if seen != nil {
				seen.Store[c][k] = got
			}
			if got != want.Store[c][k] {
				return "wrong-storage-read", fmt.Sprintf("storage %s[%s] reads %s, reference %s", c, k, got, want.Store[c][k])
			}
		}
	}
	for c, h := range handles {
		if seen != nil {
			seen.Hv[c] = map[string]string{}
			seen.Live = append(seen.Live, c)
		}
		for _, k := range keys {
			b, err := h.GetData(w.conc.key(k))
			if err != nil {
				return "read-error", fmt.Sprintf("handle GetData(%s,%s): %v", c, k, err)
			}
			got := w.conc.absVal(b, nvals)
			if seen != nil {
				seen.Hv[c][k] = got
			}
			if got != want.Hv[c][k] {
				return "wrong-handle-read", fmt.Sprintf("open handle of %s reads %s = %s, reference %s", c, k, got, want.Hv[c][k])
			}
		}
	}
	if seen != nil {
		sort.Strings(seen.Live)
	}
	return "", ""
}

// check is the full oracle after one step.
func (w *sbWorld) check(act *sbAct, want *sbObs, accts, ctrs, keys []string, nvals int, seen *sbSeen) (string, string) {
	all := append(append([]string{}, accts...), ctrs...)
	if kind, text := w.observe(w.bs.StateDB, w.handles, want, all, ctrs, keys, nvals, seen); kind != "" {
		return kind, text
	}
	if len(w.handles) != len(want.Live) {
		return "harness", fmt.Sprintf("harness has %d handles, specification %d", len(w.handles), len(want.Live))
	}
	if act.Name == "Update" || act.Name == "Commit" {
		ref, err := w.conc.stateRoot(want.Acct)
		if err != nil {
			return "harness", err.Error()
		}
		if !bytes.Equal(w.bs.GetRoot(), ref) {
			return "wrong-state-root", fmt.Sprintf("state root after %s is %x, the root of the reference contents is %x", act.Name, w.bs.GetRoot(), ref)
		}
	}
	if act.Name == "Commit" || act.Name == "Reopen" {
		// the final oracle: another StateDB opened on the store at the committed root
		if act.Name == "Commit" && len(w.committed) > 0 && !w.bs.HasMarker(w.committed) {
			return "no-marker", fmt.Sprintf("committed root %x has no marker", w.committed)
		}
		fresh := statedb.NewStateDB(w.store, w.committed, false)
		wantC := want
		if act.Name == "Reopen" {
			wantC = want // after Reopen the reference IS the committed reference
		}
		if kind, text := w.observe(fresh, nil, wantC, all, ctrs, keys, nvals, nil); kind != "" {
			return "reopened-" + kind, "StateDB reopened at the committed root: " + text
		}
	}
	return "", ""
}

// ---------------------------------------------------------------- Go transcription of the reference layer (part B)

type gmHandle struct {
	shared bool
	ep     int
	view   map[string]string
}

type gmSnap struct {
	kind  string
	c     string
	gA    map[string]sbAcct
	gS    map[string]map[string]string
	gH    map[string]string
	cache map[string]bool
}

type gmModel struct {
	accts, ctrs, keys []string
	refA, refCA       map[string]sbAcct
	refS, refCS       map[string]map[string]string
	live              map[string]*gmHandle
	cache             map[string]bool
	snaps             []gmSnap
	phase             string
	ncommit           int
}

func cpKV(m map[string]string) map[string]string {
	o := make(map[string]string, len(m))
	for k, v := range m {
		o[k] = v
	}
	return o
}
func cpS(m map[string]map[string]string) map[string]map[string]string {
	o := make(map[string]map[string]string, len(m))
	for k, v := range m {
		o[k] = cpKV(v)
	}
	return o
}
func cpA(m map[string]sbAcct) map[string]sbAcct {
	o := make(map[string]sbAcct, len(m))
	for k, v := range m {
		o[k] = sbAcct{D: v.D, Sr: cpKV(v.Sr)}
	}
	return o
}
func cpB(m map[string]bool) map[string]bool {
	o := make(map[string]bool, len(m))
	for k, v := range m {
		o[k] = v
	}
	return o
}
func eqKV(a, b map[string]string) bool {
	for k, v := range a {
		if b[k] != v {
			return false
		}
	}
	return len(a) == len(b)
}

func newGm(accts, ctrs, keys []string) *gmModel {
	m := &gmModel{accts: accts, ctrs: ctrs, keys: keys, refA: map[string]sbAcct{}, refS: map[string]map[string]string{},
		live: map[string]*gmHandle{}, cache: map[string]bool{}, phase: "committed"}
	empty := func() map[string]string {
		e := map[string]string{}
		for _, k := range keys {
			e[k] = sbNone
		}
		return e
	}
	for _, a := range append(append([]string{}, accts...), ctrs...) {
		m.refA[a] = sbAcct{D: sbNone, Sr: empty()}
	}
	for _, c := range ctrs {
		m.refS[c] = empty()
	}
	m.refCA, m.refCS = cpA(m.refA), cpS(m.refS)
	return m
}

func (m *gmModel) hasHandleSnap(c string) bool {
	for _, s := range m.snaps {
		if s.kind == "handle" && s.c == c {
			return true
		}
	}
	return false
}

// enabled actions of the specification in the current state (Next of StateBuffer.tla)
func (m *gmModel) pick(r *rand.Rand, nvals, maxSnap int) sbAct {
	val := func() string { return fmt.Sprintf("v%d", 1+r.Intn(nvals)) }
	all := append(append([]string{}, m.accts...), m.ctrs...)
	for {
		switch x := r.Intn(100); {
		case x < 14:
			return sbAct{Name: "PutAcct", A: all[r.Intn(len(all))], V: val()}
		case x < 24:
			c := m.ctrs[r.Intn(len(m.ctrs))]
			if m.live[c] == nil {
				return sbAct{Name: "Open", C: c}
			}
		case x < 52:
			if len(m.live) > 0 {
				c := m.anyLive(r)
				v := val()
				if r.Intn(4) == 0 {
					v = sbNone
				}
				return sbAct{Name: "Write", C: c, K: m.keys[r.Intn(len(m.keys))], V: v}
			}
		case x < 60:
			if len(m.live) > 0 {
				if c := m.anyLive(r); !m.hasHandleSnap(c) {
					return sbAct{Name: "Stage", C: c}
				}
			}
		case x < 63:
			if len(m.live) > 0 {
				if c := m.anyLive(r); !m.hasHandleSnap(c) {
					return sbAct{Name: "Drop", C: c}
				}
			}
		case x < 72:
			if len(m.snaps) < maxSnap {
				return sbAct{Name: "SnapBlock"}
			}
		case x < 77:
			if len(m.snaps) < maxSnap && len(m.live) > 0 {
				return sbAct{Name: "SnapHandle", C: m.anyLive(r)}
			}
		case x < 88:
			if len(m.snaps) > 0 {
				i := 1 + r.Intn(len(m.snaps))
				return sbAct{Name: "Rollback", I: i, Kind: m.snaps[i-1].kind, C: m.snaps[i-1].c}
			}
		case x < 92:
			if len(m.snaps) > 0 {
				return sbAct{Name: "Release", I: 1 + r.Intn(len(m.snaps))}
			}
		case x < 97:
			return sbAct{Name: "Update"}
		default:
			return sbAct{Name: "Reopen"}
		}
	}
}

func (m *gmModel) anyLive(r *rand.Rand) string {
	cs := make([]string, 0, len(m.live))
	for c := range m.live {
		cs = append(cs, c)
	}
	sort.Strings(cs)
	return cs[r.Intn(len(cs))]
}

func (m *gmModel) step(a *sbAct) {
	switch a.Name {
	case "PutAcct":
		m.refA[a.A] = sbAcct{D: a.V, Sr: m.refA[a.A].Sr}
		m.phase = "dirty"
	case "Open":
		m.live[a.C] = &gmHandle{shared: m.cache[a.C], ep: len(m.snaps), view: cpKV(m.refS[a.C])}
	case "Write":
		h := m.live[a.C]
		h.view[a.K] = a.V
		if h.shared {
			m.refS[a.C][a.K] = a.V
			m.phase = "dirty"
		}
	case "Stage":
		m.refS[a.C] = cpKV(m.live[a.C].view)
		m.cache[a.C] = true
		delete(m.live, a.C)
		m.phase = "dirty"
	case "Drop":
		delete(m.live, a.C)
	case "SnapBlock":
		m.snaps = append(m.snaps, gmSnap{kind: "block", gA: cpA(m.refA), gS: cpS(m.refS), cache: cpB(m.cache)})
	case "SnapHandle":
		m.snaps = append(m.snaps, gmSnap{kind: "handle", c: a.C, gH: cpKV(m.live[a.C].view)})
	case "Rollback":
		s := m.snaps[a.I-1]
		m.snaps = m.snaps[:a.I]
		if s.kind == "block" {
			m.refA, m.refS, m.cache = cpA(s.gA), cpS(s.gS), cpB(s.cache)
			for c, h := range m.live {
				if h.ep >= a.I {
					delete(m.live, c)
				} else if h.shared {
					h.view = cpKV(m.refS[c])
				}
			}
			m.phase = "dirty"
		} else {
			h := m.live[s.c]
			h.view = cpKV(s.gH)
			if h.shared {
				m.refS[s.c] = cpKV(s.gH)
				m.phase = "dirty"
			}
			for _, o := range m.live {
				if o.ep > a.I {
					o.ep = a.I
				}
			}
		}
	case "Release":
		m.snaps = m.snaps[:a.I-1]
		for _, h := range m.live {
			if h.ep > a.I-1 {
				h.ep = a.I - 1
			}
		}
	case "Update":
		for _, c := range m.ctrs {
			if !eqKV(m.refS[c], m.refA[c].Sr) {
				d := m.refA[c].D
				if d == sbNone {
					d = sbZero
				}
				m.refA[c] = sbAcct{D: d, Sr: cpKV(m.refS[c])}
			}
		}
		m.snaps = nil
		for _, h := range m.live {
			h.ep = 0
		}
		m.phase = "updated"
	case "Commit":
		m.refCA, m.refCS = cpA(m.refA), cpS(m.refS)
		m.snaps = nil
		for _, h := range m.live {
			h.ep = 0
		}
		m.ncommit++
		m.phase = "committed"
	case "Reopen":
		m.refA, m.refS = cpA(m.refCA), cpS(m.refCS)
		m.live = map[string]*gmHandle{}
		m.cache = map[string]bool{}
		m.snaps = nil
		m.phase = "committed"
	}
}

func (m *gmModel) obs() *sbObs {
	o := &sbObs{Acct: m.refA, Store: m.refS, Hv: map[string]map[string]string{}, Depth: len(m.snaps), Ncommit: m.ncommit}
	for c, h := range m.live {
		o.Hv[c] = h.view
		o.Live = append(o.Live, c)
	}
	sort.Strings(o.Live)
	return o
}

// ---------------------------------------------------------------- the test

type sbReplay struct {
	Part string  `json:"part"`
	Salt string  `json:"salt"`
	Walk int     `json:"walk"`
	Step int     `json:"step"`
	Acts []sbAct `json:"acts"` // the walk up to and including the failing step
	Seed int64   `json:"seed,omitempty"`
}

func sbActKey(a *sbAct) string {
	if a.Name == "Rollback" {
		return "Rollback-" + a.Kind
	}
	if a.Name == "Write" && a.V == sbNone {
		return "Delete"
	}
	return a.Name
}

func TestVerifStateBuffer(t *testing.T) {
	if !verifkit.Enabled() {
		t.Skip("run through bin/vcheck")
	}
	var in sbInput
	if err := verifkit.ReadInput(&in); err != nil {
		t.Fatal(err)
	}
	res := verifkit.NewResult()
	defer func() {
		if err := res.Write(); err != nil {
			t.Fatal(err)
		}
	}()
	salts := in.Salts
	if salts < 1 {
		salts = 1
	}
	var wg sync.WaitGroup
	sem := make(chan struct{}, runtime.NumCPU())

	// ---- part A: edge-cover walks through the TLC graphs
	for gi := range in.Graphs {
		in := &in.Graphs[gi]
		gname := in.Name
		nvals := 2
		for _, a := range in.Acts {
			if n := int(sbNonce(a.V)); n > nvals {
				nvals = n
			}
		}
		runWalk := func(wi int, walk []int, salt string) {
			conc := sbConc{salt: salt}
			var acts []sbAct
			step := -1
			var cur *sbAct
			defer func() {
				if p := recover(); p != nil {
					name := "init"
					if cur != nil {
						name = sbActKey(cur)
					}
					res.Violate(map[string]interface{}{"kind": "panic", "act": name},
						sbReplay{Part: gname, Salt: salt, Walk: wi, Step: step, Acts: acts},
						"panic in the real code at step %d (%s) of walk %d of graph %s: %v", step, name, wi, gname, p)
				}
			}()
			w := newSbWorld(conc)
			init := &in.States[in.Init]
			if err := w.build(init); err != nil {
				res.Violate(map[string]interface{}{"kind": "error", "act": "init"}, sbReplay{Part: gname, Salt: salt, Walk: wi}, "building the initial state: %v", err)
				return
			}
			if kind, text := w.check(&sbAct{Name: "Reopen"}, init, in.Accts, in.Ctrs, in.Keys, nvals, nil); kind != "" {
				res.Violate(map[string]interface{}{"kind": kind, "act": "init"}, sbReplay{Part: gname, Salt: salt, Walk: wi}, "initial state: %s", text)
				return
			}
			for si, ei := range walk {
				e := in.Edges[ei]
				act := in.Acts[e[1]]
				cur, step = &act, si
				acts = append(acts, act)
				res.Count(fmt.Sprintf("edge:%s:%d", gname, ei))
				if err := w.apply(&act); err != nil {
					res.Violate(map[string]interface{}{"kind": "error", "act": sbActKey(&act)}, sbReplay{Part: gname, Salt: salt, Walk: wi, Step: si, Acts: acts},
						"graph %s walk %d step %d: %+v returned %v", gname, wi, si, act, err)
					return
				}
				want := &in.States[e[2]]
				w.syncHandles(want.Live)
				if kind, text := w.check(&act, want, in.Accts, in.Ctrs, in.Keys, nvals, nil); kind != "" {
					res.Violate(map[string]interface{}{"kind": kind, "act": sbActKey(&act)}, sbReplay{Part: gname, Salt: salt, Walk: wi, Step: si, Acts: acts},
						"graph %s walk %d step %d, after %+v: %s", gname, wi, si, act, text)
					return
				}
			}
		}
		for wi, walk := range in.Walks {
			for s := 0; s < salts; s++ {
				wi, walk, salt := wi, walk, fmt.Sprintf("s%d-%d", verifkit.Seed(), (wi+s*7919)%97)
				if wi == 0 && s == 0 {
					var acts []sbAct
					for _, ei := range walk {
						acts = append(acts, in.Acts[in.Edges[ei][1]])
					}
					res.Sample(map[string]interface{}{"part": gname, "salt": salt, "acts": acts})
				}
				wg.Add(1)
				sem <- struct{}{}
				go func() {
					defer func() { <-sem; wg.Done() }()
					runWalk(wi, walk, salt)
				}()
			}
		}
		wg.Wait()
	}

	// ---- part B: seeded random driver, checked against the Go reference, recorded for TLC
	rc := in.Random
	names := func(p string, n int) []string {
		out := make([]string, n)
		for i := range out {
			out[i] = fmt.Sprintf("%s%d", p, i+1)
		}
		return out
	}
	traces := make([]bytes.Buffer, rc.Walks)
	runRandom := func(wi int) {
		// the recorded walks use the (smaller) vocabulary StateBufferTrace.tla is configured for
		accts, ctrs, keys := names("a", rc.Accts), names("c", rc.Ctrs), names("k", rc.Keys)
		maxSnap := rc.MaxSnap
		r := verifkit.Rng(int64(5000 + wi))
		salt := fmt.Sprintf("r%d-%d", verifkit.Seed(), wi)
		conc := sbConc{salt: salt}
		var acts []sbAct
		step := -1
		var cur *sbAct
		defer func() {
			if p := recover(); p != nil {
				name := "init"
				if cur != nil {
					name = sbActKey(cur)
				}
				res.Violate(map[string]interface{}{"kind": "panic", "act": name},
					sbReplay{Part: "random", Salt: salt, Walk: wi, Step: step, Acts: acts, Seed: verifkit.Seed()},
					"panic in the real code at step %d (%s) of random walk %d: %v", step, name, wi, p)
			}
		}()
		w := newSbWorld(conc)
		m := newGm(accts, ctrs, keys)
		tr := &traces[wi]
		traced := wi < rc.Traced
		if traced {
			fmt.Fprintf(tr, "{\"ev\":\"Reset\"}\n")
		}
		for si := 0; si < rc.Ops; si++ {
			act := m.pick(r, rc.Vals, maxSnap)
			acts = append(acts, act)
			cur, step = &act, si
			var follow []sbAct
			if act.Name == "Update" { // P5: Update is directly followed by Commit or by giving up the block state
				if r.Intn(8) != 0 {
					follow = append(follow, sbAct{Name: "Commit"})
				} else {
					follow = append(follow, sbAct{Name: "Reopen"})
				}
			}
			for fi, a := range append([]sbAct{act}, follow...) {
				a := a
				if fi > 0 {
					acts = append(acts, a)
					cur = &a
				}
				m.step(&a)
				res.Count(fmt.Sprintf("rnd:%d:%d:%s", wi, si, a.Name))
				if err := w.apply(&a); err != nil {
					res.Violate(map[string]interface{}{"kind": "error", "act": sbActKey(&a)}, sbReplay{Part: "random", Salt: salt, Walk: wi, Step: si, Acts: acts, Seed: verifkit.Seed()},
						"random walk %d step %d: %+v returned %v", wi, si, a, err)
					return
				}
				want := m.obs()
				w.syncHandles(want.Live)
				seen := &sbSeen{Acct: map[string]string{}, Store: map[string]map[string]string{}, Hv: map[string]map[string]string{}, Live: []string{}}
				kind, text := w.check(&a, want, accts, ctrs, keys, rc.Vals, seen)
				if traced {
					ev := map[string]interface{}{"ev": a.Name, "a": a.A, "c": a.C, "k": a.K, "v": a.V, "i": a.I, "seen": seen}
					b, _ := json.Marshal(ev)
					tr.Write(b)
					tr.WriteByte('\n')
				}
				if kind != "" {
					res.Violate(map[string]interface{}{"kind": kind, "act": sbActKey(&a)}, sbReplay{Part: "random", Salt: salt, Walk: wi, Step: si, Acts: acts, Seed: verifkit.Seed()},
						"random walk %d step %d, after %+v: %s", wi, si, a, text)
					return
				}
			}
		}
	}
	for wi := 0; wi < rc.Walks; wi++ {
		wi := wi
		wg.Add(1)
		sem <- struct{}{}
		go func() {
			defer func() { <-sem; wg.Done() }()
			runRandom(wi)
		}()
	}
	wg.Wait()
	if tp := os.Getenv("VERIF_TRACE"); tp != "" && res.NumViolations() == 0 {
		var all bytes.Buffer
		n := 0
		for i := 0; i < rc.Traced && i < rc.Walks; i++ {
			all.Write(traces[i].Bytes())
			n++
		}
		if err := os.WriteFile(tp, all.Bytes(), 0o644); err != nil {
			t.Fatal(err)
		}
		res.Note("recorded %d random walks (%d bytes) for trace validation", n, all.Len())
	}
}
