//go:build verif

package state

// Conformance harness for spec/vm/ReadPurity.tla (C20, dynamic part).
//
// The model extraction of C20 (tools/vmguards + ViewNesting.tla) TRUSTS that the state / statedb getters the
// read-only primitives of the VM host API bottom out in are pure.  This harness discharges that assumption on
// the real code.  The test plan is TLC's enumeration of the transitions of ReadPurity.tla (checks/c20.py):
//
//  1. TWIN-RUN DIFFERENTIAL.  A world is built through the real code (two committed blocks on a memory DB, a
//     working block state with the buffered changes of the walk, another block state with its own uncommitted
//     work, a query's block state at the older root).  Run A replays a walk of the model and performs the read
//     actions TLC generated for the states on it; after EVERY single Go call of a read the working state of all
//     block states (account buffer, storage cache, trie roots), their code/ABI caches and the number of DB writes
//     are compared with what they were before the call, and the returned value is compared with the value the
//     model says the read has to return.  Then Update + Commit.  Run B is the same walk without any read.  Roots,
//     full dumps, DB contents and the root of the other block state of A and B must be equal.
//  2. CACHE ISOLATION.  Walks of CacheAdd / CacheRemove / CacheLookup over two block states of one ChainStateDB
//     (one opened before, one after a redeploy): a lookup returns what THAT block state cached, or nothing.

import (
	"bytes"
	"crypto/sha256"
	"encoding/hex"
	"encoding/json"
	"fmt"
	"math/big"
	"runtime"
	"sort"
	"strings"
	"sync"
	"sync/atomic"
	"testing"

	"github.com/aergoio/aergo-lib/db"
	"github.com/aergoio/aergo/v2/internal/common"
	"github.com/aergoio/aergo/v2/internal/verifkit"
	"github.com/aergoio/aergo/v2/state/statedb"
	"github.com/aergoio/aergo/v2/types"
)

// ---------------------------------------------------------------- input (from TLC via checks/c20.py)

type rpAct struct {
	Name string `json:"name"`
	E    string `json:"e,omitempty"`
	K    string `json:"k,omitempty"`
	V    string `json:"v,omitempty"`
	Root string `json:"root,omitempty"`
	Z    bool   `json:"z,omitempty"`
	How  string `json:"how,omitempty"`
	Res  string `json:"res,omitempty"`
	Cls  string `json:"cls,omitempty"`
	B    string `json:"b,omitempty"`
	Kind string `json:"kind,omitempty"`
}

// one transition graph of the model: the state changing edges as walks from the initial state, the read
// (self-loop) transitions per state
type rpGraph struct {
	Acts    []rpAct    `json:"acts"`
	ReadsAt [][]int    `json:"reads_at"` // state -> read acts enabled in it
	Walks   [][][2]int `json:"walks"`    // steps (act, destination state), chained from Init
	Init    int        `json:"init"`
}

type rpInput struct {
	Purity rpGraph `json:"purity"`
	Cache  rpGraph `json:"cache"`
	Sample int     `json:"sample"` // reads replayed in the intermediate states of a walk (all of them in its last state)
}

type rpReplay struct {
	Part string  `json:"part"`
	Salt string  `json:"salt"`
	Walk int     `json:"walk"`
	Acts []rpAct `json:"acts"` // the walk so far (state changing steps and the failing read)
	Call string  `json:"call,omitempty"`
	Seed int64   `json:"seed"`
}

func rpIsRead(name string) bool { return strings.HasPrefix(name, "Rd") || name == "CacheLookup" }

// ---------------------------------------------------------------- concretisation

type rpConc struct{ salt string }

func (c rpConc) id(name string) []byte {
	switch name {
	case "sys":
		return []byte(types.AergoSystem)
	case "name":
		return []byte(types.AergoName)
	}
	b := make([]byte, types.AddressLength)
	copy(b, common.Hasher([]byte("verif-c20/"+c.salt+"/"+name)))
	b[types.AddressLength-1] = 0x42
	return b
}
func (c rpConc) aid(name string) types.AccountID { return types.ToAccountID(c.id(name)) }
func (c rpConc) key(k string) []byte             { return []byte(c.salt + ":" + k) }
func (c rpConc) val(v string) []byte             { return []byte("value-" + v + "-" + c.salt) }
func (c rpConc) source(v string) []byte          { return []byte("source-" + v + "-" + c.salt) }

// the deployed "code" is the JSON of its ABI (as in contract/vm.go the ABI is what the `view` flags are taken from)
func (c rpConc) abi(v string) *types.ABI {
	return &types.ABI{Version: v, Language: "lua/" + c.salt, Functions: []*types.Function{{Name: "f", View: v != "v1"}}}
}
func (c rpConc) code(v string) []byte {
	b, err := json.Marshal(c.abi(v))
	if err != nil {
		panic(err)
	}
	return b
}

func rpNonce(v string) uint64 { // "v3" -> 3; "zero", "none" -> 0
	var n uint64
	fmt.Sscanf(v, "v%d", &n)
	return n
}
func rpBalance(n uint64) *big.Int { return new(big.Int).SetUint64(1000*n + 7) }

func rpAbsAcct(st *types.State) string {
	if st == nil {
		return "none"
	}
	if st.Nonce == 0 {
		return "zero"
	}
	return fmt.Sprintf("v%d", st.Nonce)
}

func (c rpConc) absVal(b []byte) string {
	if len(b) == 0 {
		return "none"
	}
	for _, v := range []string{"v1", "v2", "v3", "v9"} {
		if bytes.Equal(b, c.val(v)) {
			return v
		}
	}
	return "?" + hex.EncodeToString(b)
}

func (c rpConc) absCode(b []byte) string {
	if len(b) == 0 {
		return "none"
	}
	for _, v := range []string{"v1", "v2", "v3"} {
		if bytes.Equal(b, c.code(v)) {
			return v
		}
	}
	return "?" + hex.EncodeToString(b)
}

// committed history of the world (ReadPurity!Hist / HistStore)
func rpHistStore(root, c, k string) string {
	if c != "c1" {
		return "none"
	}
	switch k {
	case "k1":
		return "v1"
	case "k2":
		if root == "r1" {
			return "v1"
		}
		return "v2"
	}
	return "none"
}

// ---------------------------------------------------------------- a DB that counts writes

type rpCountDB struct {
	db.DB
	writes *int64
}
type rpCountTx struct {
	db.Transaction
	writes *int64
}
type rpCountBulk struct {
	db.Bulk
	writes *int64
}

func (d *rpCountDB) Set(k, v []byte)       { atomic.AddInt64(d.writes, 1); d.DB.Set(k, v) }
func (d *rpCountDB) Delete(k []byte)       { atomic.AddInt64(d.writes, 1); d.DB.Delete(k) }
func (d *rpCountDB) NewTx() db.Transaction { return &rpCountTx{d.DB.NewTx(), d.writes} }
func (d *rpCountDB) NewBulk() db.Bulk      { return &rpCountBulk{d.DB.NewBulk(), d.writes} }
func (t *rpCountTx) Set(k, v []byte)       { atomic.AddInt64(t.writes, 1); t.Transaction.Set(k, v) }
func (t *rpCountTx) Delete(k []byte)       { atomic.AddInt64(t.writes, 1); t.Transaction.Delete(k) }
func (t *rpCountBulk) Set(k, v []byte)     { atomic.AddInt64(t.writes, 1); t.Bulk.Set(k, v) }
func (t *rpCountBulk) Delete(k []byte)     { atomic.AddInt64(t.writes, 1); t.Bulk.Delete(k) }
func rpDBDigest(store db.DB) (int, string) {
	h := sha256.New()
	n := 0
	for it := store.Iterator(nil, nil); it.Valid(); it.Next() {
		k, v := it.Key(), it.Value()
		fmt.Fprintf(h, "%d:%x=%d:%x;", len(k), k, len(v), v)
		n++
	}
	return n, hex.EncodeToString(h.Sum(nil)[:12])
}

// ---------------------------------------------------------------- the world

type rpWorld struct {
	conc   rpConc
	writes int64
	store  db.DB
	sdb    *ChainStateDB
	r1, r2 []byte
	bs     *BlockState // "b2": the working block state, opened at r2
	other  *BlockState // another block state at r2 with its own uncommitted work
	query  *BlockState // "b1": the block state of a client query, opened at r1 (before the redeploy of c1)
	last   rpPrint
}

// everything a read must leave alone
type rpPrint struct {
	bs, other, query, chain statedb.VerifWorking
	ownCache, otherCaches   string
	writes                  int64
}

func rpCacheDigest(bss ...*BlockState) string {
	var sb strings.Builder
	for i, b := range bss {
		for j, c := range []interface {
			GetALL(bool) map[interface{}]interface{}
		}{b.codeCache, b.abiCache} {
			all := c.GetALL(false)
			lines := make([]string, 0, len(all))
			for k, v := range all {
				var d string
				switch x := v.(type) {
				case []byte:
					d = fmt.Sprintf("%x", sha256.Sum256(x))[:12]
				case *types.ABI:
					if x == nil {
						d = "nil"
					} else {
						d = x.Version + "/" + x.Language
					}
				default:
					d = fmt.Sprintf("%T", v)
				}
				lines = append(lines, fmt.Sprintf("%v=%s", k, d))
			}
			sort.Strings(lines)
			fmt.Fprintf(&sb, "bs%d.cache%d{%s} ", i, j, strings.Join(lines, ","))
		}
	}
	return sb.String()
}

func (w *rpWorld) print() rpPrint {
	return rpPrint{bs: w.bs.VerifWorkingState(), other: w.other.VerifWorkingState(), query: w.query.VerifWorkingState(),
		chain: w.sdb.GetStateDB().VerifWorkingState(), ownCache: rpCacheDigest(w.bs), otherCaches: rpCacheDigest(w.other, w.query),
		writes: atomic.LoadInt64(&w.writes)}
}

// diff names what changed between two prints ("" if nothing); ownCacheMayChange: the call is the VM's code/ABI
// loader, whose only permitted effect is the cache of the block state it runs on.
func (p rpPrint) diff(q rpPrint, ownCacheMayChange bool) string {
	var d []string
	add := func(who, s string) {
		if s != "" {
			d = append(d, who+": "+s)
		}
	}
	add("the block state", p.bs.Diff(q.bs))
	add("ANOTHER block state of the same chain", p.other.Diff(q.other))
	add("the block state of a query", p.query.Diff(q.query))
	add("the StateDB of the chain", p.chain.Diff(q.chain))
	if p.writes != q.writes {
		d = append(d, fmt.Sprintf("%d write(s) to the database", q.writes-p.writes))
	}
	if !ownCacheMayChange && p.ownCache != q.ownCache {
		d = append(d, "code/ABI cache of the block state: "+p.ownCache+" -> "+q.ownCache)
	}
	if p.otherCaches != q.otherCaches {
		d = append(d, "code/ABI caches of OTHER block states: "+p.otherCaches+" -> "+q.otherCaches)
	}
	return strings.Join(d, "; ")
}

func rpCopy(b []byte) []byte { return append([]byte(nil), b...) }

func (w *rpWorld) setAcct(bs *BlockState, name string, nonce uint64) error {
	as, err := GetAccountState(w.conc.id(name), bs.StateDB)
	if err != nil {
		return err
	}
	as.SetNonce(nonce)
	as.newState.Balance = rpBalance(nonce).Bytes()
	return as.PutState()
}

// deploy / redeploy as contract.Execute + Create do it on the Go side
func (w *rpWorld) deploy(bs *BlockState, name, ver string, kv map[string]string) error {
	var as *AccountState
	var err error
	if st, _ := bs.GetState(w.conc.aid(name)); st == nil {
		as, err = CreateAccountState(w.conc.id(name), bs.StateDB)
	} else {
		as, err = GetAccountState(w.conc.id(name), bs.StateDB)
		if err == nil {
			as.SetRedeploy()
		}
	}
	if err != nil {
		return err
	}
	as.SetNonce(rpNonce(ver))
	as.newState.Balance = rpBalance(rpNonce(ver)).Bytes()
	cs, err := statedb.OpenContractState(as.ID(), as.State(), bs.StateDB)
	if err != nil {
		return err
	}
	bs.RemoveCache(as.AccountID())
	if err := cs.SetCode(w.conc.source(ver), w.conc.code(ver)); err != nil {
		return err
	}
	for k, v := range kv {
		if err := cs.SetData(w.conc.key(k), w.conc.val(v)); err != nil {
			return err
		}
	}
	if err := statedb.StageContractState(cs, bs.StateDB); err != nil {
		return err
	}
	return as.PutState()
}

func (w *rpWorld) write(bs *BlockState, name, k, v string) error {
	as, err := GetAccountState(w.conc.id(name), bs.StateDB)
	if err != nil {
		return err
	}
	cs, err := statedb.OpenContractState(as.ID(), as.State(), bs.StateDB)
	if err != nil {
		return err
	}
	if v == "none" {
		err = cs.DeleteData(w.conc.key(k))
	} else {
		err = cs.SetData(w.conc.key(k), w.conc.val(v))
	}
	if err != nil {
		return err
	}
	return statedb.StageContractState(cs, bs.StateDB)
}

func newRpWorld(conc rpConc) (*rpWorld, error) {
	w := &rpWorld{conc: conc}
	w.store = &rpCountDB{DB: db.NewDB(db.MemoryImpl, ""), writes: &w.writes}
	w.sdb = NewChainStateDB()
	w.sdb.store = w.store
	if err := w.sdb.Init(string(db.MemoryImpl), "", nil, false, nil); err != nil {
		return nil, err
	}
	// block 1: account a1, contract c1 (code v1, k1 = k2 = v1)
	b := w.sdb.NewBlockState(w.sdb.GetRoot())
	if err := w.setAcct(b, "a1", 1); err != nil {
		return nil, err
	}
	if err := w.deploy(b, "c1", "v1", map[string]string{"k1": "v1", "k2": "v1"}); err != nil {
		return nil, err
	}
	if err := w.sdb.Apply(b); err != nil {
		return nil, err
	}
	w.r1 = rpCopy(w.sdb.GetRoot())
	// block 2: a1 changed, c1 redeployed (code v2, k2 = v2)
	b = w.sdb.NewBlockState(w.r1)
	if err := w.setAcct(b, "a1", 2); err != nil {
		return nil, err
	}
	if err := w.deploy(b, "c1", "v2", map[string]string{"k2": "v2"}); err != nil {
		return nil, err
	}
	if err := w.sdb.Apply(b); err != nil {
		return nil, err
	}
	w.r2 = rpCopy(w.sdb.GetRoot())
	if len(w.r1) == 0 || len(w.r2) == 0 || bytes.Equal(w.r1, w.r2) {
		return nil, fmt.Errorf("harness: committed roots %x %x", w.r1, w.r2)
	}
	w.bs = w.sdb.NewBlockState(w.r2)
	w.other = w.sdb.NewBlockState(w.r2)
	if err := w.setAcct(w.other, "a1", 9); err != nil {
		return nil, err
	}
	if err := w.write(w.other, "c1", "k3", "v9"); err != nil {
		return nil, err
	}
	w.query = NewBlockState(w.sdb.OpenNewStateDB(w.r1))
	w.last = w.print()
	return w, nil
}

// the state changing steps of the purity graph (the block's own transactions)
func (w *rpWorld) mutate(a *rpAct) error {
	switch a.Name {
	case "PutAcct":
		return w.setAcct(w.bs, a.E, 3)
	case "Deploy":
		return w.deploy(w.bs, a.E, "v3", map[string]string{"k1": "v3"})
	case "Write":
		return w.write(w.bs, a.E, a.K, a.V)
	}
	return fmt.Errorf("harness: unknown step %q", a.Name)
}

type rpFinal struct {
	Root, Dump, OtherRoot, DB string
	Entries                   int
}

func (w *rpWorld) finish() (rpFinal, error) {
	var f rpFinal
	if err := w.bs.Update(); err != nil {
		return f, err
	}
	root := rpCopy(w.bs.GetRoot())
	if err := w.bs.Commit(); err != nil {
		return f, err
	}
	f.Root = hex.EncodeToString(root)
	dump, err := statedb.NewStateDB(w.store, root, false).Dump()
	if err != nil {
		return f, err
	}
	f.Dump = string(dump)
	if err := w.other.Update(); err != nil {
		return f, err
	}
	f.OtherRoot = hex.EncodeToString(w.other.GetRoot())
	f.Entries, f.DB = rpDBDigest(w.store)
	return f, nil
}

// ---------------------------------------------------------------- reads

type rpRun struct {
	w     *rpWorld
	res   *verifkit.Result
	part  string
	walk  int
	acts  []rpAct
	calls map[string]int
	bad   bool
	plain bool // cache part: the calls are only made and counted (the caches are what is looked at there)
}

func (r *rpRun) replay(a *rpAct, call string) rpReplay {
	acts := append(append([]rpAct{}, r.acts...), *a)
	return rpReplay{Part: r.part, Salt: r.w.conc.salt, Walk: r.walk, Acts: acts, Call: call, Seed: verifkit.Seed()}
}

// probe runs ONE Go call of a read and compares everything a read must leave alone with what it was before.
func (r *rpRun) probe(a *rpAct, call string, f func() error) bool {
	r.calls[call]++
	var err error
	func() {
		defer func() {
			if p := recover(); p != nil {
				err = fmt.Errorf("panic: %v", p)
			}
		}()
		err = f()
	}()
	if r.plain {
		return err == nil
	}
	now := r.w.print()
	d := r.w.last.diff(now, a.Name == "RdVmLoad")
	r.w.last = now
	if d != "" {
		r.bad = true
		r.res.Violate(map[string]interface{}{"kind": "read-changes-state", "call": call, "target": a.Cls}, r.replay(a, call),
			"%s on %s (%s %s%s) is a read-only primitive of the VM host API but changed %s", call, a.Cls, a.Name, a.E, rpArgs(a), d)
		return false
	}
	if err != nil {
		r.bad = true
		r.res.Violate(map[string]interface{}{"kind": "read-fails", "call": call, "target": a.Cls}, r.replay(a, call),
			"%s on %s (%s %s%s): %v", call, a.Cls, a.Name, a.E, rpArgs(a), err)
		return false
	}
	return true
}

func rpArgs(a *rpAct) string {
	s := ""
	if a.K != "" {
		s += " key " + a.K
	}
	if a.Root != "" {
		s += fmt.Sprintf(" root %s compressed=%v", a.Root, a.Z)
	}
	if a.How != "" {
		s += " opened:" + a.How
	}
	return s
}

func (r *rpRun) want(a *rpAct, call, what, got, want string) bool {
	if got == want {
		return true
	}
	r.bad = true
	r.res.Violate(map[string]interface{}{"kind": "read-wrong-value", "call": call, "target": a.Cls}, r.replay(a, call),
		"%s on %s (%s %s%s): %s is %s, the state of the block says %s", call, a.Cls, a.Name, a.E, rpArgs(a), what, got, want)
	return false
}

func (r *rpRun) checkState(a *rpAct, call string, st *types.State, want string) bool {
	if !r.want(a, call, "the account", rpAbsAcct(st), want) {
		return false
	}
	if st != nil {
		return r.want(a, call, "the balance", st.GetBalanceBigInt().String(), func() string {
			if st.Nonce == 0 {
				return "0"
			}
			return rpBalance(st.Nonce).String()
		}())
	}
	return true
}

// the three ways the VM opens the state of a contract
func (r *rpRun) open(a *rpAct, how string) *statedb.ContractState {
	w := r.w
	id := w.conc.id(a.E)
	var cs *statedb.ContractState
	switch how {
	case "acc": // vm_state.go getOnlyContractState
		r.probe(a, "statedb.OpenContractStateAccount", func() (err error) {
			cs, err = statedb.OpenContractStateAccount(id, w.bs.StateDB)
			return
		})
	case "st": // luaGetBalance style lookup, then open
		var st *types.State
		if !r.probe(a, "StateDB.GetAccountState", func() (err error) {
			st, err = w.bs.GetAccountState(w.conc.aid(a.E))
			return
		}) {
			return nil
		}
		r.probe(a, "statedb.OpenContractState", func() (err error) {
			cs, err = statedb.OpenContractState(id, st, w.bs.StateDB)
			return
		})
	default: // vm_state.go getCallState + getContractState, contract.go Execute
		var as *AccountState
		if !r.probe(a, "state.GetAccountState", func() (err error) {
			as, err = GetAccountState(id, w.bs.StateDB)
			return
		}) {
			return nil
		}
		r.probe(a, "statedb.OpenContractState", func() (err error) {
			cs, err = statedb.OpenContractState(as.ID(), as.State(), w.bs.StateDB)
			return
		})
	}
	return cs
}

func (r *rpRun) rootOf(name string) []byte {
	switch name {
	case "r1":
		return r.w.r1
	case "r2":
		return r.w.r2
	}
	return nil
}

// contract/vm.go GetABI + getCode, transcribed (the code of a contract is the JSON of its ABI here)
func (r *rpRun) vmGetABI(a *rpAct, bs *BlockState, cs *statedb.ContractState) (*types.ABI, error) {
	var abi *types.ABI
	if !cs.IsMultiCall() {
		r.probe(a, "BlockState.GetABI", func() error { abi = bs.GetABI(cs.GetAccountID()); return nil })
		if abi != nil {
			return abi, nil
		}
	}
	var code []byte
	r.probe(a, "BlockState.GetCode", func() error { code = bs.GetCode(cs.GetAccountID()); return nil })
	if code == nil {
		var err error
		r.probe(a, "ContractState.GetCode", func() error { code, err = cs.GetCode(); return nil })
		if err != nil {
			return nil, err
		}
		r.probe(a, "BlockState.AddCode", func() error { bs.AddCode(cs.GetAccountID(), code); return nil })
	}
	if len(code) == 0 {
		return nil, fmt.Errorf("cannot find contract")
	}
	abi = new(types.ABI)
	if err := json.Unmarshal(code, abi); err != nil {
		return nil, err
	}
	r.probe(a, "BlockState.AddABI", func() error { bs.AddABI(cs.GetAccountID(), abi); return nil })
	return abi, nil
}

func (r *rpRun) read(a *rpAct) {
	w := r.w
	id, aid := w.conc.id(a.E), w.conc.aid(a.E)
	r.res.Count(fmt.Sprintf("%s|%s|%s|%s|%v|%s|%s|%s", a.Name, a.E, a.K, a.Root, a.Z, a.How, a.Cls, a.Res))
	switch a.Name {
	case "RdGetState":
		var st *types.State
		if r.probe(a, "StateDB.GetState", func() (err error) { st, err = w.bs.GetState(aid); return }) {
			r.checkState(a, "StateDB.GetState", st, a.Res)
		}
	case "RdGetAccountState": // vm_callback.go luaGetBalance
		var st *types.State
		if r.probe(a, "StateDB.GetAccountState", func() (err error) { st, err = w.bs.GetAccountState(aid); return }) {
			r.checkState(a, "StateDB.GetAccountState", st, a.Res)
		}
	case "RdAccountState": // vm_state.go getCallState
		var as *AccountState
		if !r.probe(a, "state.GetAccountState", func() (err error) { as, err = GetAccountState(id, w.bs.StateDB); return }) {
			return
		}
		var got string
		if r.probe(a, "AccountState accessors", func() error {
			got = fmt.Sprintf("%s new=%v nonce=%d balance=%s contract=%v deploy=%v rp=%d id=%x aid=%x codehash=%x",
				rpAbsAcct(as.State()), as.IsNew(), as.Nonce(), as.Balance(), as.IsContract(), as.IsDeploy(), as.RP(), as.ID(), as.AccountID(), as.CodeHash())
			return nil
		}) {
			n := rpNonce(a.Res)
			bal := "0"
			if n > 0 {
				bal = rpBalance(n).String()
			}
			isCtr := strings.HasPrefix(a.E, "c") && n > 0
			var ch []byte
			if isCtr {
				ch = common.Hasher(w.conc.code(a.Res))
			}
			rp := 0
			if isCtr {
				rp = 1
			}
			r.want(a, "AccountState accessors", "the account state", got, fmt.Sprintf("%s new=%v nonce=%d balance=%s contract=%v deploy=false rp=%d id=%x aid=%x codehash=%x",
				a.Res, n == 0, n, bal, isCtr, rp, id, aid, ch))
		}
	case "RdOpenAcc": // vm_state.go getOnlyContractState
		cs := r.open(a, "acc")
		if cs == nil {
			return
		}
		var got string
		if r.probe(a, "ContractState accessors", func() error {
			got = fmt.Sprintf("%s multicall=%v id=%x aid=%x balance=%s", rpAbsAcct(cs.State), cs.IsMultiCall(), cs.GetID(), cs.GetAccountID(), cs.GetBalanceBigInt())
			if cs.GetNonce() != rpNonce(a.Res) || new(big.Int).SetBytes(cs.GetBalance()).Cmp(cs.GetBalanceBigInt()) != 0 ||
				(len(cs.GetCodeHash()) > 0) != (strings.HasPrefix(a.E, "c") && rpNonce(a.Res) > 0) || (len(cs.GetStorageRoot()) > 0 && !strings.HasPrefix(a.E, "c")) {
				got += fmt.Sprintf(" [nonce=%d balance=%x codehash=%x storageroot=%x]", cs.GetNonce(), cs.GetBalance(), cs.GetCodeHash(), cs.GetStorageRoot())
			}
			return nil
		}) {
			bal := "0"
			if n := rpNonce(a.Res); n > 0 {
				bal = rpBalance(n).String()
			}
			r.want(a, "ContractState accessors", "the contract state", got, fmt.Sprintf("%s multicall=false id=%x aid=%x balance=%s", a.Res, id, aid, bal))
		}
	case "RdMulti": // vm_callback.go luaDelegateCallContract (multicall), vm.go getMultiCallCode
		var st *types.State
		if !r.probe(a, "StateDB.GetAccountState", func() (err error) { st, err = w.bs.GetAccountState(aid); return }) {
			return
		}
		var got string
		if r.probe(a, "statedb.GetMultiCallState", func() error {
			ms := statedb.GetMultiCallState(id, st)
			ms.SetMultiCallCode([]byte("multicall"))
			code, err := ms.GetCode()
			got = fmt.Sprintf("%s multicall=%v aid=%x code=%s", rpAbsAcct(ms.State), ms.IsMultiCall(), ms.GetAccountID(), code)
			return err
		}) {
			r.want(a, "statedb.GetMultiCallState", "the multicall state", got, fmt.Sprintf("%s multicall=true aid=%x code=multicall", a.Res, aid))
		}
	case "RdData": // vm_callback.go luaGetDB -> ctrState.GetData
		cs := r.open(a, a.How)
		if cs == nil {
			return
		}
		key := w.conc.key(a.K)
		var v []byte
		if r.probe(a, "ContractState.GetData", func() (err error) { v, err = cs.GetData(key); return }) {
			r.want(a, "ContractState.GetData", "the value", w.conc.absVal(v), a.Res)
		}
		var has bool
		if r.probe(a, "ContractState.HasKey", func() error { has = cs.HasKey(key); return nil }) {
			if a.Res != "none" {
				r.want(a, "ContractState.HasKey", "the presence of the key", fmt.Sprint(has), "true")
			} else if strings.HasSuffix(a.Cls, "/missing-key") && !strings.Contains(a.Cls, "+staged-storage") {
				// (a key written and deleted again in this block is "present" for HasKey: not predicted)
				r.want(a, "ContractState.HasKey", "the presence of the key", fmt.Sprint(has), "false")
			}
		}
		if r.probe(a, "ContractState.GetInitialData", func() (err error) { v, err = cs.GetInitialData(key); return }) {
			r.want(a, "ContractState.GetInitialData", "the committed value", w.conc.absVal(v), rpHistStore("r2", a.E, a.K))
		}
	case "RdCode": // vm.go getCode / vm_callback.go luaDeployContract (deploy by address of an existing contract)
		cs := r.open(a, a.How)
		if cs == nil {
			return
		}
		var code []byte
		if r.probe(a, "ContractState.GetCode", func() (err error) { code, err = cs.GetCode(); return }) {
			r.want(a, "ContractState.GetCode", "the code", w.conc.absCode(code), a.Res)
		}
		if r.probe(a, "ContractState.GetSourceCode", func() error { code = cs.GetSourceCode(); return nil }) {
			wantSrc := ""
			if a.Res != "none" {
				wantSrc = string(w.conc.source(a.Res))
			}
			// state.GetAccountState hands out types.State.Clone(), which does not copy SourceHash: through that way of
			// opening the source is not found.  Not what C20 is about: the value is taken from the code, not predicted.
			if a.How != "as" || len(code) > 0 {
				r.want(a, "ContractState.GetSourceCode", "the source", string(code), wantSrc)
			}
		}
		if ch := cs.GetCodeHash(); len(ch) > 0 {
			if r.probe(a, "ContractState.GetRawKV", func() (err error) { code, err = cs.GetRawKV(ch); return }) {
				r.want(a, "ContractState.GetRawKV", "the code", w.conc.absCode(code), a.Res)
			}
		}
	case "RdAcctProof": // vm_callback.go luaGetDB at a block height, rpc
		var p *types.AccountProof
		if r.probe(a, "StateDB.GetAccountAndProof", func() (err error) { p, err = w.bs.GetAccountAndProof(aid[:], r.rootOf(a.Root), a.Z); return }) {
			got := "none"
			if p.GetInclusion() {
				got = rpAbsAcct(p.GetState())
			}
			r.want(a, "StateDB.GetAccountAndProof", "the account at root "+a.Root, got, a.Res)
		}
	case "RdVarProof": // vm_callback.go luaGetDB at a block height
		var p *types.AccountProof
		if !r.probe(a, "StateDB.GetAccountAndProof", func() (err error) { p, err = w.bs.GetAccountAndProof(aid[:], r.rootOf(a.Root), false); return }) {
			return
		}
		got := "none"
		if p.GetInclusion() {
			var vp *types.ContractVarProof
			if !r.probe(a, "StateDB.GetVarAndProof", func() (err error) {
				vp, err = w.bs.GetVarAndProof(common.Hasher(w.conc.key(a.K)), p.GetState().GetStorageRoot(), a.Z)
				return
			}) {
				return
			}
			if vp.GetInclusion() {
				got = w.conc.absVal(vp.GetValue())
			}
		}
		r.want(a, "StateDB.GetVarAndProof", "the value at root "+a.Root, got, a.Res)
	case "RdSys", "RdName": // vm_callback.go luaGetStaking
		var cs *statedb.ContractState
		call := "statedb.GetSystemAccountState"
		f := statedb.GetSystemAccountState
		if a.Name == "RdName" {
			call, f = "statedb.GetNameAccountState", statedb.GetNameAccountState
		}
		if r.probe(a, call, func() (err error) { cs, err = f(w.bs.StateDB); return }) {
			r.want(a, call, "the account", rpAbsAcct(cs.State), a.Res)
			var v []byte
			if r.probe(a, "ContractState.GetData", func() (err error) { v, err = cs.GetData([]byte("staking")); return }) {
				r.want(a, "ContractState.GetData", "the value", w.conc.absVal(v), "none")
			}
		}
	case "RdNewBS": // vm.go NewVmContextQuery (InitAccountState), chainservice (NewBlockState over the state of a query)
		var st *types.State
		if !r.probe(a, "StateDB.GetAccountState", func() (err error) { st, err = w.bs.GetAccountState(aid); return }) {
			return
		}
		r.probe(a, "state.InitAccountState", func() error {
			as := InitAccountState(id, w.bs.StateDB, st, st)
			if as.Nonce() != st.Nonce || as.AccountID() != aid {
				return fmt.Errorf("InitAccountState: nonce %d id %x", as.Nonce(), as.AccountID())
			}
			return nil
		})
		r.probe(a, "state.NewBlockState", func() error {
			nb := NewBlockState(w.bs.StateDB)
			if nb.StateDB != w.bs.StateDB || !bytes.Equal(nb.GetRoot(), w.bs.GetRoot()) {
				return fmt.Errorf("NewBlockState: other StateDB")
			}
			return nil
		})
	case "RdSnapshot": // vm_state.go createRecoveryPoint: revision numbers only
		r.probe(a, "BlockState.Snapshot", func() error { _ = w.bs.Snapshot(); return nil })
		r.probe(a, "StateDB.Snapshot", func() error { _ = w.bs.StateDB.Snapshot(); return nil })
		if cs := r.open(a, "as"); cs != nil {
			r.probe(a, "ContractState.Snapshot", func() error { _ = cs.Snapshot(); return nil })
		}
	case "RdVmLoad": // vm.go GetABI -> getCode
		cs := r.open(a, "as")
		if cs == nil {
			return
		}
		abi, err := r.vmGetABI(a, w.bs, cs)
		got := "none"
		if err == nil && abi != nil {
			got = abi.Version
		}
		r.want(a, "contract.GetABI", "the ABI the block executes", got, a.Res)
	default:
		r.res.Violate(map[string]interface{}{"kind": "harness", "act": a.Name}, r.replay(a, ""), "harness: unknown read %q", a.Name)
	}
}

// ---------------------------------------------------------------- part 1: twin runs over the purity graph

func rpRunPurity(res *verifkit.Result, g *rpGraph, wi, sample int, calls map[string]int) {
	walk := g.Walks[wi]
	salt := fmt.Sprintf("s%d-%d", verifkit.Seed(), wi%11)
	conc := rpConc{salt: salt}
	rng := verifkit.Rng(int64(9000 + wi))
	run := &rpRun{res: res, part: "purity", walk: wi, calls: calls}
	fail := func(kind string, a *rpAct, format string, args ...interface{}) {
		res.Violate(map[string]interface{}{"kind": kind, "act": a.Name}, run.replay(a, ""), format, args...)
	}
	defer func() {
		if p := recover(); p != nil {
			a := rpAct{Name: "walk"}
			if len(run.acts) > 0 {
				a = run.acts[len(run.acts)-1]
			}
			fail("panic", &a, "panic in walk %d after %+v: %v", wi, a, p)
		}
	}()
	// ---- run A: with the reads TLC generated for the states of the walk
	wa, err := newRpWorld(conc)
	if err != nil {
		fail("error", &rpAct{Name: "build"}, "building the world: %v", err)
		return
	}
	run.w = wa
	readsIn := func(state int, all bool) {
		ids := g.ReadsAt[state]
		if !all && sample < len(ids) {
			ids = append([]int{}, ids...)
			rng.Shuffle(len(ids), func(i, j int) { ids[i], ids[j] = ids[j], ids[i] })
			ids = ids[:sample]
		} else {
			ids = append([]int{}, ids...)
			rng.Shuffle(len(ids), func(i, j int) { ids[i], ids[j] = ids[j], ids[i] })
		}
		for _, ai := range ids {
			run.read(&g.Acts[ai])
		}
	}
	readsIn(g.Init, len(walk) == 0)
	for si, st := range walk {
		a := &g.Acts[st[0]]
		if rpIsRead(a.Name) { // RdVmLoad: a read for the chain state that is a step of the model (it fills the cache)
			run.read(a)
		} else {
			if err := wa.mutate(a); err != nil {
				fail("error", a, "walk %d step %d: %+v returned %v", wi, si, *a, err)
				return
			}
			wa.last = wa.print()
		}
		run.acts = append(run.acts, *a)
		readsIn(st[1], si == len(walk)-1)
	}
	fa, err := wa.finish()
	if err != nil {
		fail("error", &rpAct{Name: "finish"}, "walk %d: Update/Commit after the reads: %v", wi, err)
		return
	}
	// ---- run B: the same block without any read
	wb, err := newRpWorld(conc)
	if err != nil {
		fail("error", &rpAct{Name: "build"}, "building the twin world: %v", err)
		return
	}
	for si, st := range walk {
		a := &g.Acts[st[0]]
		if rpIsRead(a.Name) {
			continue
		}
		if err := wb.mutate(a); err != nil {
			fail("error", a, "twin walk %d step %d: %+v returned %v", wi, si, *a, err)
			return
		}
	}
	fb, err := wb.finish()
	if err != nil {
		fail("error", &rpAct{Name: "finish"}, "twin walk %d: Update/Commit: %v", wi, err)
		return
	}
	res.Count(fmt.Sprintf("twin|%d", wi))
	last := rpAct{Name: "Update+Commit"}
	switch {
	case fa.Root != fb.Root:
		res.Violate(map[string]interface{}{"kind": "reads-change-state-root"}, run.replay(&last, ""),
			"walk %d: the state root after Update is %s with the read-only calls and %s without them", wi, fa.Root, fb.Root)
	case fa.Dump != fb.Dump:
		res.Violate(map[string]interface{}{"kind": "reads-change-committed-state"}, run.replay(&last, ""),
			"walk %d: the committed state differs with / without the read-only calls:\n%s\n---\n%s", wi, fa.Dump, fb.Dump)
	case fa.OtherRoot != fb.OtherRoot:
		res.Violate(map[string]interface{}{"kind": "reads-change-other-block-state"}, run.replay(&last, ""),
			"walk %d: the root of ANOTHER block state after its Update is %s with the read-only calls and %s without them", wi, fa.OtherRoot, fb.OtherRoot)
	case fa.DB != fb.DB:
		res.Violate(map[string]interface{}{"kind": "reads-change-database"}, run.replay(&last, ""),
			"walk %d: the database holds %d entries (digest %s) with the read-only calls and %d (%s) without them", wi, fa.Entries, fa.DB, fb.Entries, fb.DB)
	}
}

// ---------------------------------------------------------------- part 2: cache isolation

func rpRunCache(res *verifkit.Result, g *rpGraph, wi int, calls map[string]int) {
	walk := g.Walks[wi]
	salt := fmt.Sprintf("c%d-%d", verifkit.Seed(), wi) // unique: nothing may be shared, not even between walks
	conc := rpConc{salt: salt}
	run := &rpRun{res: res, part: "cache", walk: wi, calls: calls, plain: true}
	defer func() {
		if p := recover(); p != nil {
			res.Violate(map[string]interface{}{"kind": "panic", "act": "cache"}, run.replay(&rpAct{Name: "walk"}, ""), "panic in cache walk %d: %v", wi, p)
		}
	}()
	w, err := newRpWorld(conc)
	if err != nil {
		res.Violate(map[string]interface{}{"kind": "error", "act": "build"}, run.replay(&rpAct{Name: "build"}, ""), "building the world: %v", err)
		return
	}
	run.w = w
	bsOf := func(b string) *BlockState {
		if b == "b1" {
			return w.query
		}
		return w.bs
	}
	otherOf := map[string]string{"b1": "b2", "b2": "b1"}
	ref := map[string]string{} // b/kind/key -> version THAT block state cached
	lastOp := "nothing"
	lookup := func(a *rpAct) bool {
		res.Count(fmt.Sprintf("cache|%s|%s|%s|%s|%s", a.B, a.Kind, a.E, a.Res, lastOp))
		calls["BlockState.GetCode/GetABI (isolation)"]++
		got := "none"
		call := "BlockState.GetCode"
		if a.Kind == "code" {
			got = conc.absCode(bsOf(a.B).GetCode(conc.aid(a.E)))
		} else {
			call = "BlockState.GetABI"
			if abi := bsOf(a.B).GetABI(conc.aid(a.E)); abi != nil {
				got = abi.Version
				if abi.Language != "lua/"+salt {
					got = "?" + abi.Language
				}
			}
		}
		if own := ref[a.B+"/"+a.Kind+"/"+a.E]; own != a.Res && (own != "" || a.Res != "none") {
			res.Violate(map[string]interface{}{"kind": "harness", "act": "cache-reference"}, run.replay(a, call), "harness: reference %q, model %q", own, a.Res)
			return false
		}
		if got == a.Res {
			return true
		}
		effect := "wrong-entry"
		theirs := ref[otherOf[a.B]+"/"+a.Kind+"/"+a.E]
		switch {
		case a.Res == "none" && got == theirs:
			effect = "sees-entry-of-other-block-state"
		case got == "none":
			effect = "entry-removed-by-other-block-state"
		case got == theirs:
			effect = "entry-replaced-by-other-block-state"
		}
		res.Violate(map[string]interface{}{"kind": "cache-shared-between-block-states", "lookup": call, "effect": effect}, run.replay(a, call),
			"%s(%s) on block state %s returns %s after %s; this block state itself cached %s, the other block state (%s) cached %s",
			call, a.E, a.B, got, lastOp, a.Res, otherOf[a.B], func() string {
				if theirs == "" {
					return "none"
				}
				return theirs
			}())
		return false
	}
	lookupsIn := func(state int) bool {
		for _, ai := range g.ReadsAt[state] {
			if !lookup(&g.Acts[ai]) {
				return false
			}
		}
		return true
	}
	for si, st := range walk {
		a := &g.Acts[st[0]]
		run.acts = append(run.acts, *a)
		b, aid := bsOf(a.B), conc.aid(a.E)
		switch a.Name {
		case "CacheAdd":
			if a.Kind == "code" {
				calls["BlockState.AddCode"]++
				b.AddCode(aid, conc.code(a.V))
			} else {
				calls["BlockState.AddABI"]++
				b.AddABI(aid, conc.abi(a.V))
			}
			ref[a.B+"/"+a.Kind+"/"+a.E] = a.V
			lastOp = fmt.Sprintf("Add%s(%s, %s) on %s", map[string]string{"code": "Code", "abi": "ABI"}[a.Kind], a.E, a.V, a.B)
		case "CacheRemove":
			calls["BlockState.RemoveCache"]++
			b.RemoveCache(aid)
			ref[a.B+"/code/"+a.E], ref[a.B+"/abi/"+a.E] = "none", "none"
			lastOp = fmt.Sprintf("RemoveCache(%s) on %s", a.E, a.B)
		default:
			res.Violate(map[string]interface{}{"kind": "harness", "act": a.Name}, run.replay(a, ""), "harness: unknown cache step %q", a.Name)
			return
		}
		res.Count("")
		// the lookups of the intermediate states are replayed by the walks that end there
		if si == len(walk)-1 && !lookupsIn(st[1]) {
			return
		}
	}
	if len(walk) == 0 && !lookupsIn(g.Init) {
		return
	}
	// finally the way the VM uses the caches (vm.go GetABI): each block state has to end up with the ABI it cached
	// itself or, if it cached nothing, with the one deployed in ITS state (v1 before the redeploy, v2 after it)
	for _, b := range []string{"b1", "b2"} {
		a := &rpAct{Name: "RdVmLoad", E: "c1", B: b, Cls: "contract:committed"}
		bs := bsOf(b)
		cs, err := statedb.OpenContractStateAccount(conc.id("c1"), bs.StateDB)
		if err != nil {
			res.Violate(map[string]interface{}{"kind": "read-fails", "call": "statedb.OpenContractStateAccount", "target": a.Cls}, run.replay(a, ""), "open c1 on %s: %v", b, err)
			return
		}
		want := map[string]string{"b1": "v1", "b2": "v2"}[b]
		if v := ref[b+"/abi/c1"]; v != "" && v != "none" {
			want = v
		} else if v := ref[b+"/code/c1"]; v != "" && v != "none" {
			want = v
		}
		abi, err := run.vmGetABI(a, bs, cs)
		got := "none"
		if err == nil && abi != nil {
			got = abi.Version
		}
		res.Count(fmt.Sprintf("cache-vm|%s|%s|%s", b, want, lastOp))
		if got != want {
			res.Violate(map[string]interface{}{"kind": "cache-shared-between-block-states", "lookup": "contract.GetABI", "effect": "stale-abi-executed"}, run.replay(a, "contract.GetABI"),
				"after %s, the VM's GetABI(c1) on block state %s (opened %s the redeploy of c1) yields ABI %s (f view=%v), it has to be %s",
				lastOp, b, map[string]string{"b1": "before", "b2": "after"}[b], got, abi != nil && len(abi.Functions) > 0 && abi.Functions[0].View, want)
			return
		}
	}
}

// ---------------------------------------------------------------- the test

func TestVerifReadPurity(t *testing.T) {
	if !verifkit.Enabled() {
		t.Skip("run through bin/vcheck")
	}
	var in rpInput
	if err := verifkit.ReadInput(&in); err != nil {
		t.Fatal(err)
	}
	res := verifkit.NewResult()
	defer func() {
		if err := res.Write(); err != nil {
			t.Fatal(err)
		}
	}()
	if in.Sample < 1 {
		in.Sample = 8
	}
	var wg sync.WaitGroup
	var mu sync.Mutex
	sem := make(chan struct{}, runtime.NumCPU())
	calls := map[string]int{}
	merge := func(m map[string]int) {
		mu.Lock()
		for k, v := range m {
			calls[k] += v
		}
		mu.Unlock()
	}
	for wi := range in.Cache.Walks {
		wi := wi
		wg.Add(1)
		sem <- struct{}{}
		go func() {
			defer func() { <-sem; wg.Done() }()
			m := map[string]int{}
			rpRunCache(res, &in.Cache, wi, m)
			merge(m)
		}()
	}
	wg.Wait() // cache walks first: their violations must not be crowded out
	for wi := range in.Purity.Walks {
		wi := wi
		wg.Add(1)
		sem <- struct{}{}
		go func() {
			defer func() { <-sem; wg.Done() }()
			m := map[string]int{}
			rpRunPurity(res, &in.Purity, wi, in.Sample, m)
			merge(m)
		}()
	}
	wg.Wait()
	if len(in.Purity.Walks) > 0 {
		var acts []rpAct
		for _, st := range in.Purity.Walks[len(in.Purity.Walks)-1] {
			acts = append(acts, in.Purity.Acts[st[0]])
		}
		res.Sample(map[string]interface{}{"part": "purity", "walk": acts, "reads_in_last_state": len(in.Purity.ReadsAt[in.Purity.Init])})
	}
	res.Extra["go_calls"] = calls
	res.Extra["purity_walks"] = len(in.Purity.Walks)
	res.Extra["cache_walks"] = len(in.Cache.Walks)
}
