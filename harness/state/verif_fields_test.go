//go:build verif

package state

// Conformance harness for C12, account part of spec/state/StateBuffer.tla at the grain of the FIELDS of an account
// record: the model's PutAccount writes a whole value and "reads always see the most recent non-reverted write".
// The real account value is a record (types.State); the working copy that transactions change is made by
// state.GetAccountState (old value / clone).  For every exported field F of types.State (found by reflection, so
// that a field added later is covered too) and every other field G:
//
//	commit an account whose field F is set  ->  load it with state.GetAccountState, change G, PutState, Update,
//	Commit  ->  a fresh StateDB at the committed root must still report F (it was never written again).
//
// The same through a snapshot / revert of the block state, and through the StateDB-level GetState/PutState.

import (
	"bytes"
	"fmt"
	"math/big"
	"reflect"
	"testing"

	"github.com/aergoio/aergo-lib/db"
	"github.com/aergoio/aergo/v2/internal/verifkit"
	"github.com/aergoio/aergo/v2/state/statedb"
	"github.com/aergoio/aergo/v2/types"
)

type vfCase struct {
	Field   string `json:"field"`
	Changed string `json:"changed"`
	Route   string `json:"route"`
}

func vfSet(st *types.State, field string, salt byte) {
	v := reflect.ValueOf(st).Elem().FieldByName(field)
	switch v.Kind() {
	case reflect.Uint64:
		v.SetUint(uint64(salt) + 7)
	case reflect.Slice:
		if field == "Balance" {
			v.SetBytes(new(big.Int).SetUint64(uint64(salt) + 1000).Bytes())
		} else {
			v.SetBytes(bytes.Repeat([]byte{salt}, 32))
		}
	default:
		panic("field kind not handled: " + field + " " + v.Kind().String())
	}
}

func vfGet(st *types.State, field string) string {
	if st == nil {
		return "<nil state>"
	}
	return fmt.Sprintf("%v", reflect.ValueOf(st).Elem().FieldByName(field).Interface())
}

func TestVerifStateFields(t *testing.T) {
	if !verifkit.Enabled() {
		t.Skip("run through bin/vcheck")
	}
	res := verifkit.NewResult()
	defer func() {
		if err := res.Write(); err != nil {
			t.Fatal(err)
		}
	}()
	var fields []string
	tp := reflect.TypeOf(types.State{})
	for i := 0; i < tp.NumField(); i++ {
		f := tp.Field(i)
		if f.PkgPath != "" { // unexported (protobuf bookkeeping)
			continue
		}
		fields = append(fields, f.Name)
	}
	if len(fields) < 5 {
		t.Fatalf("types.State has only the exported fields %v", fields)
	}
	res.Extra["fields"] = fields
	for _, route := range []string{"account-state", "account-state-snapshot-revert", "statedb"} {
		for fi, f := range fields {
			for gi, g := range fields {
				if f == g {
					continue
				}
				cs := vfCase{Field: f, Changed: g, Route: route}
				res.Count(fmt.Sprintf("%s|%s|%s", route, f, g))
				store := db.NewDB(db.MemoryImpl, "")
				sdb := statedb.NewStateDB(store, nil, false)
				addr := append([]byte{0x02}, bytes.Repeat([]byte{byte(0x40 + fi)}, 32)...)
				aid := types.ToAccountID(addr)
				st0 := &types.State{}
				vfSet(st0, f, byte(0x10+fi))
				want := vfGet(st0, f)
				if err := sdb.PutState(aid, st0); err != nil {
					t.Fatal(err)
				}
				if err := sdb.Update(); err != nil {
					t.Fatal(err)
				}
				if err := sdb.Commit(); err != nil {
					t.Fatal(err)
				}
				// a block on top: load, change another field, write back
				bs := NewBlockState(statedb.NewStateDB(store, sdb.GetRoot(), false))
				switch route {
				case "statedb":
					cur, err := bs.StateDB.GetState(aid)
					if err != nil || cur == nil {
						t.Fatalf("GetState: %v", err)
					}
					nw := cur.Clone()
					vfSet(nw, g, byte(0x80+gi))
					if err := bs.StateDB.PutState(aid, nw); err != nil {
						t.Fatal(err)
					}
				default:
					as, err := GetAccountState(addr, bs.StateDB)
					if err != nil {
						t.Fatalf("GetAccountState: %v", err)
					}
					if route == "account-state-snapshot-revert" {
						snap := bs.Snapshot()
						as.AddBalance(big.NewInt(5))
						if err := as.PutState(); err != nil {
							t.Fatal(err)
						}
						if err := bs.Rollback(snap); err != nil {
							t.Fatal(err)
						}
						if as, err = GetAccountState(addr, bs.StateDB); err != nil {
							t.Fatal(err)
						}
					}
					vfSet(as.State(), g, byte(0x80+gi))
					if err := as.PutState(); err != nil {
						t.Fatal(err)
					}
				}
				if err := bs.Update(); err != nil {
					t.Fatal(err)
				}
				if err := bs.Commit(); err != nil {
					t.Fatal(err)
				}
				fresh := statedb.NewStateDB(store, bs.GetRoot(), false)
				got, err := fresh.GetState(aid)
				if err != nil {
					t.Fatalf("reading back: %v", err)
				}
				if vfGet(got, f) != want {
					res.Violate(map[string]interface{}{"kind": "account-field-lost", "field": f, "route": route}, cs,
						"account committed with %s = %s; a block that loads it (%s), changes only %s and writes it back: %s reads %s afterwards",
						f, want, route, g, f, vfGet(got, f))
				}
			}
		}
	}
}
