//go:build verif

package statedb

// Read-only views of the uncommitted working state for the /verif ledger harness (added through the go -overlay).

import (
	"crypto/sha256"
	"encoding/hex"
	"sort"

	"github.com/aergoio/aergo/v2/types"
)

// VerifBufferedAccounts lists the account ids that have an entry in the account buffer.
func (states *StateDB) VerifBufferedAccounts() []types.AccountID {
	states.lock.RLock()
	defer states.lock.RUnlock()
	var out []types.AccountID
	for k, v := range states.Buffer.indexes {
		if v.peek() >= 0 {
			out = append(out, types.AccountID(k))
		}
	}
	return out
}

// VerifStorageFingerprints returns, per contract whose storage is staged in the cache, a digest of the
// latest buffered (key, value-hash) pairs — the storage writes not yet folded into the storage root.
func (states *StateDB) VerifStorageFingerprints() map[types.AccountID]string {
	out := map[types.AccountID]string{}
	states.Cache.lock.RLock()
	defer states.Cache.lock.RUnlock()
	for id, st := range states.Cache.storages {
		var lines []string
		for k, v := range st.Buffer.indexes {
			idx := v.peek()
			if idx < 0 {
				continue
			}
			et := st.Buffer.entries[idx]
			if _, meta := et.(*metaEntry); meta {
				continue
			}
			lines = append(lines, hex.EncodeToString(k[:])+"="+hex.EncodeToString(et.Hash()))
		}
		sort.Strings(lines)
		h := sha256.New()
		for _, l := range lines {
			h.Write([]byte(l))
		}
		if len(lines) > 0 {
			out[id] = hex.EncodeToString(h.Sum(nil)[:8])
		}
	}
	return out
}
