//go:build verif

package statedb

// Read-only views of the uncommitted working state for the /verif ledger harness (added through the go -overlay).

import (
	"crypto/sha256"
	"encoding/hex"
	"sort"

	"github.com/aergoio/aergo/v2/types"
)

var verifDebugValues = false

// VerifDebugValues switches printing of buffered storage values on (debugging aid).
func VerifDebugValues(on bool) { verifDebugValues = on }

// VerifBufferedAccounts lists the account ids that have an entry in the account buffer.
func (states *StateDB) VerifBufferedAccounts() []types.AccountID {
	states.lock.RLock()
	defer states.lock.RUnlock()
	var out []types.AccountID
	for k, v := range states.Buffer.indexes {
		if v.peek() >= 0 {
			out = append(out, types.AccountID(k))
		}
	}
	return out
}

// VerifStorageFingerprints returns, per contract whose storage is staged in the cache, a digest of the
// latest buffered (key, value-hash) pairs — the storage writes not yet folded into the storage root.
func (states *StateDB) VerifStorageFingerprints() map[types.AccountID]string {
	out := map[types.AccountID]string{}
	states.Cache.lock.RLock()
	defer states.Cache.lock.RUnlock()
	for id, st := range states.Cache.storages {
		var lines []string
		for k, v := range st.Buffer.indexes {
			idx := v.peek()
			if idx < 0 {
				continue
			}
			et := st.Buffer.entries[idx]
			if _, meta := et.(*metaEntry); meta {
				continue
			}
			lines = append(lines, hex.EncodeToString(k[:])+"="+hex.EncodeToString(et.Hash()))
			if verifDebugValues {
				if raw, ok := et.Value().([]byte); ok {
					println("DEBUG-VALUE", hex.EncodeToString(k[:6]), hex.EncodeToString(raw))
				} else if raw, ok := et.Value().(*[]byte); ok && raw != nil {
					println("DEBUG-VALUE", hex.EncodeToString(k[:6]), hex.EncodeToString(*raw))
				}
			}
		}
		sort.Strings(lines)
		h := sha256.New()
		for _, l := range lines {
			h.Write([]byte(l))
		}
		if len(lines) > 0 {
			out[id] = hex.EncodeToString(h.Sum(nil)[:8])
		}
	}
	return out
}

// VerifStorageDump lists (trie key, value hash) of every staged contract storage after an Update (debugging aid).
func (states *StateDB) VerifStorageDump() map[types.AccountID][]string {
	out := map[types.AccountID][]string{}
	states.Cache.lock.RLock()
	defer states.Cache.lock.RUnlock()
	for id, st := range states.Cache.storages {
		var lines []string
		for _, k := range st.Trie.GetKeys() {
			v, _ := st.Trie.Get(k)
			lines = append(lines, hex.EncodeToString(k[:6])+"="+hex.EncodeToString(v)[:12])
		}
		sort.Strings(lines)
		out[id] = lines
	}
	return out
}
