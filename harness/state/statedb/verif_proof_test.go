//go:build verif

package statedb

// Conformance harness for spec/state/Proof.tla (C11) at the statedb level: the Prove steps of the TLC model are
// replayed through StateDB.GetAccountAndProof (accounts in the state trie) and StateDB.GetVarAndProof (variables in
// a contract's storage trie), for the current and for historical roots, the way chain/chainservice.go answers
// GetStateAndProof / GetStateQuery (a fresh StateDB opened on the store at the current state root).  The returned
// types.AccountProof / types.ContractVarProof is turned into the proof message a light client would check: the
// value hash is recomputed from the returned State / Value, the proof fields are fed to trie.Verify* (the
// repository has no ValidateProof of its own) and to the independent verifier of internal/verifproof; then every
// forgery of the spec's table is applied.

import (
	"bytes"
	"encoding/hex"
	"fmt"
	"runtime"
	"sync"
	"testing"

	"github.com/aergoio/aergo-lib/db"
	"github.com/aergoio/aergo/v2/internal/common"
	"github.com/aergoio/aergo/v2/internal/enc/proto"
	"github.com/aergoio/aergo/v2/internal/verifkit"
	vp "github.com/aergoio/aergo/v2/internal/verifproof"
	"github.com/aergoio/aergo/v2/pkg/trie"
	"github.com/aergoio/aergo/v2/types"
)

// ---------------------------------------------------------------- concrete values

func vpState(abs string) *types.State {
	switch abs {
	case "v1":
		return &types.State{Nonce: 1, Balance: []byte{1, 0}}
	case "v2":
		return &types.State{Nonce: 2, Balance: []byte{2, 0, 0}}
	}
	var n uint64
	fmt.Sscanf(abs, "bg%d", &n)
	return &types.State{Nonce: 100 + n, Balance: []byte{9}}
}

func vpStateHash(abs string) []byte {
	raw, err := proto.Encode(vpState(abs))
	if err != nil {
		panic(err)
	}
	return common.Hasher(raw)
}

func vpVarValue(abs string) []byte { return []byte("contract variable value " + abs) }
func vpVarHash(abs string) []byte  { return common.Hasher(vpVarValue(abs)) }

// the REAL verifier, used the way a light client would use it
func vpRealAccept(m *vp.Msg) (ok bool, panicked bool) {
	defer func() {
		if r := recover(); r != nil {
			ok, panicked = false, true
		}
	}()
	vt := trie.NewTrie(m.Root, common.Hasher, nil)
	switch {
	case !m.Comp && m.Incl:
		return vt.VerifyInclusion(m.Ap, m.Key, m.Val), false
	case !m.Comp:
		return vt.VerifyNonInclusion(m.Ap, m.Key, m.Pv, m.Pk), false
	case m.Incl:
		return vt.VerifyInclusionC(m.Bitmap, m.Key, m.Val, m.Ap, m.Height), false
	default:
		return vt.VerifyNonInclusionC(m.Ap, m.Height, m.Bitmap, m.Key, m.Pv, m.Pk), false
	}
}

func vpConcrete(f *vp.Family, m map[string]string, valOf func(string) []byte) map[string][]byte {
	out := map[string][]byte{}
	for i, k := range f.Bg {
		out[hex.EncodeToString(k)] = valOf(fmt.Sprintf("bg%d", i))
	}
	for k, v := range m {
		out[hex.EncodeToString(f.Key(k))] = valOf(v)
	}
	return out
}

func vpHasDeletion(hist []map[string]string) bool {
	for i := 1; i < len(hist); i++ {
		for k := range hist[i-1] {
			if _, ok := hist[i][k]; !ok {
				return true
			}
		}
	}
	return false
}

func sameAP(a, b [][]byte) bool {
	if len(a) != len(b) {
		return false
	}
	for i := range a {
		if !bytes.Equal(a[i], b[i]) {
			return false
		}
	}
	return true
}

// ---------------------------------------------------------------- accounts: StateDB.GetAccountAndProof

func accountMsg(root []byte, id []byte, comp bool, ap *types.AccountProof) (*vp.Msg, string) {
	m := &vp.Msg{Root: root, Key: id, Comp: comp, Incl: ap.Inclusion, Ap: ap.AuditPath, Bitmap: ap.Bitmap, Height: int(ap.Height)}
	if ap.Inclusion {
		if ap.State == nil {
			return nil, "inclusion without a state"
		}
		if len(ap.ProofKey) != 0 || len(ap.ProofVal) != 0 {
			return nil, "inclusion with a proof key/value"
		}
		raw, err := proto.Encode(ap.State) // what the light client does: hash the returned state
		if err != nil {
			return nil, err.Error()
		}
		m.Val = common.Hasher(raw)
	} else {
		if ap.State != nil {
			return nil, "a state is returned for an absent account"
		}
		m.Pk, m.Pv = ap.ProofKey, ap.ProofVal
	}
	return m, ""
}

func sameAccountProof(a, b *types.AccountProof) bool {
	return a.Inclusion == b.Inclusion && proto.Equal(a.State, b.State) && bytes.Equal(a.ProofKey, b.ProofKey) && bytes.Equal(a.ProofVal, b.ProofVal) &&
		bytes.Equal(a.Bitmap, b.Bitmap) && a.Height == b.Height && sameAP(a.AuditPath, b.AuditPath)
}

func runAccountCase(in *vp.Input, f *vp.Family, cs *vp.Case, junk []byte, absKeys []string, rep *vp.Report, fi, ci int) {
	store := db.NewDB(db.MemoryImpl, "")
	sdb := NewStateDB(store, nil, false)
	commit := func(upd map[string]string, bg bool) {
		n := 0
		if bg {
			for i, k := range f.Bg {
				if err := sdb.PutState(types.AccountID(types.ToHashID(k)), vpState(fmt.Sprintf("bg%d", i))); err != nil {
					panic(err)
				}
				n++
			}
		}
		for k, v := range upd {
			if err := sdb.PutState(types.AccountID(types.ToHashID(f.Key(k))), vpState(v)); err != nil {
				panic(err)
			}
			n++
		}
		if n == 0 {
			return
		}
		if err := sdb.Update(); err != nil {
			panic(err)
		}
		if err := sdb.Commit(); err != nil {
			panic(err)
		}
	}
	env := &vp.Env{Level: "statedb-account", Fam: f, Hist: cs.Hist, AbsKeys: absKeys, ValOf: vpStateHash, Verify: vpRealAccept, Junk: junk, Rep: rep}
	commit(nil, true)
	env.Roots = [][]byte{append([]byte(nil), sdb.GetRoot()...)}
	env.Models = []map[string][]byte{vpConcrete(f, cs.Hist[0], vpStateHash)}
	for i := 1; i < len(cs.Hist); i++ {
		upd := map[string]string{}
		for k, v := range cs.Hist[i] {
			if cs.Hist[i-1][k] != v {
				upd[k] = v
			}
		}
		commit(upd, false)
		env.Roots = append(env.Roots, append([]byte(nil), sdb.GetRoot()...))
		env.Models = append(env.Models, vpConcrete(f, cs.Hist[i], vpStateHash))
	}
	last := len(env.Roots)
	// the node answers from a fresh StateDB opened on the store at the current root (chainservice: OpenNewStateDB)
	qdb := NewStateDB(store, sdb.GetRoot(), false)
	for pi := range cs.Proofs {
		p := &cs.Proofs[pi]
		root := env.Roots[p.Ri-1]
		if len(root) == 0 && p.Ri != last {
			rep.Bump("note:empty-historical-root-not-addressable") // an empty root argument means "latest"
			continue
		}
		rp := env.ReplayOf(p.Ri, p.Key, p.Enc)
		rep.Res.Count(fmt.Sprintf("account:%d:%d:%d:%s:%s", fi, ci, p.Ri, p.Key, p.Enc))
		id := f.Key(p.Key)
		comp := p.Enc == "comp"
		ap, err := qdb.GetAccountAndProof(id, root, comp)
		if err != nil {
			rep.Violate(map[string]interface{}{"kind": "generator-failed", "level": env.Level, "enc": p.Enc}, rp, "GetAccountAndProof: %v", err)
			continue
		}
		if p.Ri == last { // the latest root may also be addressed by an empty root argument, and on the long-lived instance
			ap2, err2 := qdb.GetAccountAndProof(id, nil, comp)
			ap3, err3 := sdb.GetAccountAndProof(id, nil, comp)
			if err2 != nil || err3 != nil || !sameAccountProof(ap, ap2) || !sameAccountProof(ap, ap3) {
				rep.Violate(map[string]interface{}{"kind": "generator-inconsistent", "level": env.Level, "enc": p.Enc}, rp,
					"GetAccountAndProof answers differently for the current root given explicitly / as latest / on the long-lived instance (errors %v %v)", err2, err3)
				continue
			}
		}
		m, bad := accountMsg(root, id, comp, ap)
		if m == nil {
			rep.Violate(map[string]interface{}{"kind": "proof-shape", "level": env.Level, "enc": p.Enc}, rp, "AccountProof for key %s root #%d: %s", p.Key, p.Ri, bad)
			continue
		}
		if ap.Inclusion { // the returned state IS the stored one
			if want := vpState(cs.Hist[p.Ri-1][p.Key]); cs.Hist[p.Ri-1][p.Key] != "" && !proto.Equal(ap.State, want) {
				rep.Violate(map[string]interface{}{"kind": "generator-wrong-claim", "level": env.Level, "enc": p.Enc}, rp, "state %v returned, stored %v", ap.State, want)
				continue
			}
		}
		env.CheckProof(p, m)
	}
}

// ---------------------------------------------------------------- contract variables: StateDB.GetVarAndProof

func varMsg(root []byte, key []byte, comp bool, vpf *types.ContractVarProof) (*vp.Msg, string) {
	m := &vp.Msg{Root: root, Key: key, Comp: comp, Incl: vpf.Inclusion, Ap: vpf.AuditPath, Bitmap: vpf.Bitmap, Height: int(vpf.Height)}
	if vpf.Inclusion {
		if len(vpf.ProofKey) != 0 || len(vpf.ProofVal) != 0 {
			return nil, "inclusion with a proof key/value"
		}
		m.Val = common.Hasher(vpf.Value) // what the light client does: hash the returned value
	} else {
		if len(vpf.Value) != 0 {
			return nil, "a value is returned for an absent variable"
		}
		m.Pk, m.Pv = vpf.ProofKey, vpf.ProofVal
	}
	return m, ""
}

func runVarCase(in *vp.Input, f *vp.Family, cs *vp.Case, junk []byte, absKeys []string, rep *vp.Report, fi, ci int) {
	store := db.NewDB(db.MemoryImpl, "")
	sdb := NewStateDB(store, nil, false)
	cid := common.Hasher([]byte(fmt.Sprintf("contract-%d-%d", fi, ci)))
	aid := types.ToAccountID(cid)
	// an ordinary account next to the contract, so that the state trie has more than one leaf
	if err := sdb.PutState(types.ToAccountID(common.Hasher([]byte("someone"))), &types.State{Nonce: 7, Balance: []byte{7}}); err != nil {
		panic(err)
	}
	if err := sdb.PutState(aid, &types.State{Nonce: 1, CodeHash: []byte("code")}); err != nil {
		panic(err)
	}
	if err := sdb.Update(); err != nil {
		panic(err)
	}
	if err := sdb.Commit(); err != nil {
		panic(err)
	}
	storageRoot := func() []byte {
		st, err := sdb.GetAccountState(aid)
		if err != nil {
			panic(err)
		}
		return append([]byte(nil), common.Compactz(st.StorageRoot)...)
	}
	commit := func(upd map[string]string, dels []string, bg bool) {
		ctr, err := OpenContractStateAccount(cid, sdb)
		if err != nil {
			panic(err)
		}
		n := 0
		if bg {
			for i, k := range f.Bg {
				ctr.storage.put(newValueEntry(types.ToHashID(k), vpVarValue(fmt.Sprintf("bg%d", i))))
				n++
			}
		}
		for k, v := range upd { // what SetData does, with the trie key chosen by the harness instead of sha256(name)
			ctr.storage.put(newValueEntry(types.ToHashID(f.Key(k)), vpVarValue(v)))
			n++
		}
		for _, k := range dels { // DeleteData
			ctr.storage.put(newValueEntryDelete(types.ToHashID(f.Key(k))))
			n++
		}
		if n == 0 {
			return
		}
		if err := StageContractState(ctr, sdb); err != nil {
			panic(err)
		}
		if err := sdb.Update(); err != nil {
			panic(err)
		}
		if err := sdb.Commit(); err != nil {
			panic(err)
		}
	}
	env := &vp.Env{Level: "statedb-var", Fam: f, Hist: cs.Hist, AbsKeys: absKeys, ValOf: vpVarHash, Verify: vpRealAccept, Junk: junk, Rep: rep}
	commit(nil, nil, true)
	env.Roots = [][]byte{storageRoot()}
	env.Models = []map[string][]byte{vpConcrete(f, cs.Hist[0], vpVarHash)}
	for i := 1; i < len(cs.Hist); i++ {
		upd := map[string]string{}
		var dels []string
		for k, v := range cs.Hist[i] {
			if cs.Hist[i-1][k] != v {
				upd[k] = v
			}
		}
		for k := range cs.Hist[i-1] {
			if _, ok := cs.Hist[i][k]; !ok {
				dels = append(dels, k)
			}
		}
		commit(upd, dels, false)
		env.Roots = append(env.Roots, storageRoot())
		env.Models = append(env.Models, vpConcrete(f, cs.Hist[i], vpVarHash))
	}
	stateRoot := append([]byte(nil), sdb.GetRoot()...)
	qdb := NewStateDB(store, stateRoot, false)
	for pi := range cs.Proofs {
		p := &cs.Proofs[pi]
		root := env.Roots[p.Ri-1]
		rp := env.ReplayOf(p.Ri, p.Key, p.Enc)
		rep.Res.Count(fmt.Sprintf("var:%d:%d:%d:%s:%s", fi, ci, p.Ri, p.Key, p.Enc))
		key := f.Key(p.Key)
		comp := p.Enc == "comp"
		// chainservice GetStateQuery: sdb.GetVarAndProof(storageKey, contractProof.State.StorageRoot, compressed)
		vpf, err := qdb.GetVarAndProof(key, root, comp)
		if err != nil {
			rep.Violate(map[string]interface{}{"kind": "generator-failed", "level": env.Level, "enc": p.Enc}, rp, "GetVarAndProof: %v", err)
			continue
		}
		m, bad := varMsg(root, key, comp, vpf)
		if m == nil {
			rep.Violate(map[string]interface{}{"kind": "proof-shape", "level": env.Level, "enc": p.Enc}, rp, "ContractVarProof for key %s root #%d: %s", p.Key, p.Ri, bad)
			continue
		}
		if len(root) == 0 {
			// the contract has no variables: its storage root is empty.  The answer must be about the (empty) storage
			// trie; an answer that verifies against the STATE root was generated from the account trie.
			am := m.Clone()
			am.Root = stateRoot
			if ok, _ := vpRealAccept(am); ok {
				extra := ""
				if probe, err := qdb.GetVarAndProof(aid[:], nil, comp); err == nil && probe.Inclusion {
					extra = fmt.Sprintf("; asked for the contract's own account id as variable key it returns Inclusion=true with the %d-byte marshalled account state as the variable's value", len(probe.Value))
				}
				rep.Violate(map[string]interface{}{"kind": "var-proof-from-account-trie", "storage": "empty", "level": env.Level}, rp,
					"GetVarAndProof(key, <empty storage root>, %v) answers from the account trie: the returned proof (incl=%v, proofKey=%x, %d siblings) verifies against the state root %x, not against the contract's storage root%s",
					comp, vpf.Inclusion, vpf.ProofKey, len(vpf.AuditPath), stateRoot, extra)
				continue
			}
		}
		if vpf.Inclusion && !bytes.Equal(vpf.Value, vpVarValue(cs.Hist[p.Ri-1][p.Key])) {
			rep.Violate(map[string]interface{}{"kind": "generator-wrong-claim", "level": env.Level, "enc": p.Enc}, rp, "value %q returned, stored %q", vpf.Value, vpVarValue(cs.Hist[p.Ri-1][p.Key]))
			continue
		}
		env.CheckProof(p, m)
	}
}

func TestVerifProofStateDB(t *testing.T) {
	if !verifkit.Enabled() {
		t.Skip("run through bin/vcheck")
	}
	var in vp.Input
	if err := verifkit.ReadInput(&in); err != nil {
		t.Fatal(err)
	}
	res := verifkit.NewResult()
	rep := vp.NewReport(res)
	defer func() {
		res.Extra["counts"] = rep.Snapshot()
		if err := res.Write(); err != nil {
			t.Fatal(err)
		}
	}()
	absKeys := in.AbsKeys()
	var wg sync.WaitGroup
	sem := make(chan struct{}, runtime.NumCPU())
	var failMu sync.Mutex
	var failures []string
	for fi, pos := range in.Families {
		fi, pos := fi, pos
		rng := verifkit.Rng(int64(3000 + fi))
		f := vp.NewFamily(pos, rng, in.Background)
		junk := make([]byte, 32)
		rng.Read(junk)
		const chunk = 4
		for c0 := 0; c0 < len(in.Cases); c0 += chunk {
			c0 := c0
			wg.Add(1)
			sem <- struct{}{}
			go func() {
				defer func() {
					if r := recover(); r != nil {
						failMu.Lock()
						failures = append(failures, fmt.Sprint(r))
						failMu.Unlock()
					}
					<-sem
					wg.Done()
				}()
				for ci := c0; ci < c0+chunk && ci < len(in.Cases); ci++ {
					cs := &in.Cases[ci]
					if vpHasDeletion(cs.Hist) {
						rep.Bump("note:account-level-skips-history-with-deletion") // accounts are never deleted from the state trie
					} else {
						runAccountCase(&in, f, cs, junk, absKeys, rep, fi, ci)
					}
					runVarCase(&in, f, cs, junk, absKeys, rep, fi, ci)
					if fi == 0 && ci == len(in.Cases)/2 {
						res.Sample(map[string]interface{}{"level": "statedb", "family": pos, "hist": cs.Hist})
					}
				}
			}()
		}
	}
	wg.Wait()
	if len(failures) > 0 {
		t.Fatalf("harness failure (no verdict): %s", failures[0])
	}
}
