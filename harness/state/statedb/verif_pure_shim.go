//go:build verif

package statedb

// Read-only view of EVERYTHING uncommitted a StateDB holds, for the C20 read-purity harness
// (harness/state/verif_pure_test.go): a read primitive has to leave all of it untouched.

import (
	"encoding/hex"
	"fmt"
	"sort"
	"strings"
)

// VerifWorking is the working state of a StateDB: account trie root, account buffer, storage cache.
type VerifWorking struct {
	Root     string            // root of the account trie object
	BufLen   int               // number of entries in the account buffer (every put since the last reset)
	Accounts map[string]string // account id -> depth of its index stack : hash of its latest entry
	Storages map[string]string // staged storage -> trie root | dirty | entries | digest of the latest entries
}

func verifBufferDigest(b *stateBuffer) (int, map[string]string) {
	out := map[string]string{}
	for k, v := range b.indexes {
		idx := v.peek()
		if idx < 0 || v == nil {
			out[hex.EncodeToString(k[:])] = "d0"
			continue
		}
		et := b.entries[idx]
		kind := "v"
		if _, meta := et.(*metaEntry); meta {
			kind = "m"
		}
		out[hex.EncodeToString(k[:])] = fmt.Sprintf("d%d@%d%s:%x", len(*v), idx, kind, et.Hash())
	}
	return b.nextIdx, out
}

// VerifWorkingState returns the working state (see VerifWorking).
func (states *StateDB) VerifWorkingState() VerifWorking {
	states.lock.RLock()
	defer states.lock.RUnlock()
	w := VerifWorking{Root: hex.EncodeToString(states.Trie.Root), Storages: map[string]string{}}
	w.BufLen, w.Accounts = verifBufferDigest(states.Buffer)
	states.Cache.lock.RLock()
	defer states.Cache.lock.RUnlock()
	for id, st := range states.Cache.storages {
		if st == nil {
			w.Storages[hex.EncodeToString(id[:])] = "nil"
			continue
		}
		n, m := verifBufferDigest(st.Buffer)
		keys := make([]string, 0, len(m))
		for k := range m {
			keys = append(keys, k)
		}
		sort.Strings(keys)
		var sb strings.Builder
		for _, k := range keys {
			sb.WriteString(k[:12] + "=" + m[k] + ";")
		}
		w.Storages[hex.EncodeToString(id[:])] = fmt.Sprintf("root=%x dirty=%v entries=%d [%s]", st.Trie.Root, st.dirty, n, sb.String())
	}
	return w
}

// Diff names the components in which two working states differ ("" if none).
func (w VerifWorking) Diff(o VerifWorking) string {
	var d []string
	if w.Root != o.Root {
		d = append(d, fmt.Sprintf("account trie root %s -> %s", w.Root, o.Root))
	}
	if w.BufLen != o.BufLen {
		d = append(d, fmt.Sprintf("account buffer length %d -> %d", w.BufLen, o.BufLen))
	}
	d = append(d, verifMapDiff("account buffer entry", w.Accounts, o.Accounts)...)
	d = append(d, verifMapDiff("staged storage", w.Storages, o.Storages)...)
	return strings.Join(d, "; ")
}

func verifMapDiff(what string, a, b map[string]string) []string {
	var d []string
	keys := map[string]bool{}
	for k := range a {
		keys[k] = true
	}
	for k := range b {
		keys[k] = true
	}
	ks := make([]string, 0, len(keys))
	for k := range keys {
		ks = append(ks, k)
	}
	sort.Strings(ks)
	for _, k := range ks {
		x, inA := a[k]
		y, inB := b[k]
		switch {
		case !inA:
			d = append(d, fmt.Sprintf("%s %s.. appeared (%s)", what, k[:12], y))
		case !inB:
			d = append(d, fmt.Sprintf("%s %s.. disappeared", what, k[:12]))
		case x != y:
			d = append(d, fmt.Sprintf("%s %s.. changed (%s -> %s)", what, k[:12], x, y))
		}
	}
	return d
}
