//go:build verif

package statedb

// Conformance harness for spec/state/ProofRoots.tla (C11) at the statedb level.  StateDB offers less than the trie:
// a block is Update immediately followed by Commit (ChainStateDB.Apply), the root is moved with SetRoot / Revert
// (Trie.Root := committed root) or LoadCache, and queries are answered by a NEW StateDB opened on the store at the
// current root (ChainStateDB.OpenNewStateDB).  So the states of the TLC-generated tree whose trail uses only
// (Update; Commit) pairs, SetRoot, LoadCache and Reopen are rebuilt
//   - on accounts   (StateDB.PutState; one long-lived StateDB, or a fresh StateDB per block like the node) and
//   - on the variables of a contract (storage buffer like SetData/DeleteData; a fresh StateDB per block),
// and in each of them GetAccountAndProof / GetVarAndProof is asked for EVERY committed root, every key and both
// encodings: the answer must be the specification's honest message for the contents of that root and verify
// against that (storage) root.
//
// It runs in the same test binary as TestVerifProofStateDB; input/output: $VERIF_ROOTS_IN / $VERIF_ROOTS_OUT.

import (
	"bytes"
	"encoding/hex"
	"encoding/json"
	"fmt"
	"os"
	"runtime"
	"sort"
	"strings"
	"sync"
	"testing"

	"github.com/aergoio/aergo-lib/db"
	"github.com/aergoio/aergo/v2/internal/common"
	"github.com/aergoio/aergo/v2/internal/enc/proto"
	"github.com/aergoio/aergo/v2/internal/verifkit"
	vp "github.com/aergoio/aergo/v2/internal/verifproof"
	"github.com/aergoio/aergo/v2/types"
)

type srAct struct {
	Name string            `json:"name"`
	Upd  map[string]string `json:"upd,omitempty"`
	Ri   int               `json:"ri,omitempty"`
}

type srNode struct {
	Trail []srAct             `json:"trail"`
	Hist  []map[string]string `json:"hist"`
	St    []string            `json:"st"`
	Cur   int                 `json:"cur"`
}

type srInput struct {
	H          int                            `json:"h"`
	Families   [][]int                        `json:"families"`
	Background int                            `json:"background"`
	Vals       []string                       `json:"vals"`
	Shapes     map[string]map[string]vp.Shape `json:"shapes"`
	Nodes      []srNode                       `json:"nodes"`
}

type srReplay struct {
	Level  string              `json:"level"`
	Family []int               `json:"family"`
	Base   string              `json:"base"`
	Style  string              `json:"style"`
	Trail  []srAct             `json:"trail"`
	Hist   []map[string]string `json:"hist"`
	Cur    int                 `json:"cur"`
	Ri     int                 `json:"ri"`
	Key    string              `json:"key"`
	Enc    string              `json:"enc"`
}

func srMapKey(m map[string]string) string {
	ks := make([]string, 0, len(m))
	for k, v := range m {
		ks = append(ks, k+"="+v)
	}
	sort.Strings(ks)
	return strings.Join(ks, ",")
}

func srTrailText(t []srAct) string {
	var parts []string
	for _, a := range t {
		switch a.Name {
		case "Update":
			parts = append(parts, fmt.Sprintf("Block(%s)", srMapKey(a.Upd)))
		case "Commit":
		default:
			parts = append(parts, fmt.Sprintf("%s(#%d)", a.Name, a.Ri))
		}
	}
	if len(parts) == 0 {
		return "<start>"
	}
	return strings.Join(parts, "; ")
}

func srRootClass(nd *srNode, ri int) string {
	if ri == nd.Cur {
		return "current"
	}
	return "other-committed"
}

func srHasDeletion(nd *srNode) bool {
	for _, a := range nd.Trail {
		for _, v := range a.Upd {
			if v == "DEL" {
				return true
			}
		}
	}
	return false
}

// srWorld: the real objects one state of the tree is rebuilt on
type srWorld struct {
	store db.DB
	main  *StateDB // what ChainStateDB.states is: follows the chain's state root
	fresh bool     // blocks are executed on a fresh StateDB (like the node) instead of on main
	cid   []byte   // contract (variable level) or nil (account level)
	f     *vp.Family
}

func (w *srWorld) block(upd map[string]string, bg bool) {
	sdb := w.main
	if w.fresh {
		sdb = NewStateDB(w.store, w.main.GetRoot(), false)
	}
	n := 0
	if w.cid == nil {
		if bg {
			for i, k := range w.f.Bg {
				if err := sdb.PutState(types.AccountID(types.ToHashID(k)), vpState(fmt.Sprintf("bg%d", i))); err != nil {
					panic(err)
				}
				n++
			}
		}
		for k, v := range upd {
			if v == "DEL" {
				panic("harness: accounts are never deleted")
			}
			if err := sdb.PutState(types.AccountID(types.ToHashID(w.f.Key(k))), vpState(v)); err != nil {
				panic(err)
			}
			n++
		}
	} else {
		ctr, err := OpenContractStateAccount(w.cid, sdb)
		if err != nil {
			panic(err)
		}
		if bg {
			for i, k := range w.f.Bg {
				ctr.storage.put(newValueEntry(types.ToHashID(k), vpVarValue(fmt.Sprintf("bg%d", i))))
				n++
			}
		}
		for k, v := range upd { // what SetData / DeleteData do, with the trie key chosen by the harness instead of sha256(name)
			if v == "DEL" {
				ctr.storage.put(newValueEntryDelete(types.ToHashID(w.f.Key(k))))
			} else {
				ctr.storage.put(newValueEntry(types.ToHashID(w.f.Key(k)), vpVarValue(v)))
			}
			n++
		}
		if err := StageContractState(ctr, sdb); err != nil {
			panic(err)
		}
	}
	if n == 0 {
		return
	}
	// ChainStateDB.Apply: Update, Commit, then the chain's StateDB follows
	if err := sdb.Update(); err != nil {
		panic(err)
	}
	if err := sdb.Commit(); err != nil {
		panic(err)
	}
	if w.fresh {
		if err := w.main.SetRoot(sdb.GetRoot()); err != nil {
			panic(err)
		}
	}
}

// the root a light client is given for index i: the state root (accounts) or the contract's storage root at that state
func (w *srWorld) rootNow() (stateRoot, proofRoot []byte) {
	stateRoot = append([]byte(nil), w.main.GetRoot()...)
	if w.cid == nil {
		return stateRoot, stateRoot
	}
	st, err := NewStateDB(w.store, stateRoot, false).GetAccountState(types.ToAccountID(w.cid))
	if err != nil {
		panic(err)
	}
	return stateRoot, append([]byte(nil), common.Compactz(st.StorageRoot)...)
}

func srRun(in *srInput, ni int, f *vp.Family, junk []byte, absKeys []string, rep *vp.Report, level string, fresh bool) {
	nd := &in.Nodes[ni]
	w := &srWorld{store: db.NewDB(db.MemoryImpl, ""), fresh: fresh, f: f}
	w.main = NewStateDB(w.store, nil, false)
	style := "long-lived StateDB"
	if fresh {
		style = "fresh StateDB per block"
	}
	valOf := vpStateHash
	if level == "statedb-var-roots" {
		w.cid = common.Hasher([]byte(fmt.Sprintf("contract-roots-%d", ni)))
		valOf = vpVarHash
		// the contract account and an ordinary account next to it
		if err := w.main.PutState(types.ToAccountID(common.Hasher([]byte("someone"))), &types.State{Nonce: 7, Balance: []byte{7}}); err != nil {
			panic(err)
		}
		if err := w.main.PutState(types.ToAccountID(w.cid), &types.State{Nonce: 1, CodeHash: []byte("code")}); err != nil {
			panic(err)
		}
		if err := w.main.Update(); err != nil {
			panic(err)
		}
		if err := w.main.Commit(); err != nil {
			panic(err)
		}
	}
	w.block(nil, true)
	sr, pr := w.rootNow()
	stateRoots, proofRoots := [][]byte{sr}, [][]byte{pr}
	rpOf := func(ri int, key, enc string) srReplay {
		return srReplay{Level: level, Family: f.Pos, Base: hex.EncodeToString(f.Base), Style: style, Trail: nd.Trail, Hist: nd.Hist, Cur: nd.Cur, Ri: ri, Key: key, Enc: enc}
	}
	for si := 0; si < len(nd.Trail); si++ {
		a := nd.Trail[si]
		var err error
		switch a.Name {
		case "Update":
			if si+1 >= len(nd.Trail) || nd.Trail[si+1].Name != "Commit" {
				panic("harness: an Update without its Commit reached the statedb level")
			}
			si++
			w.block(a.Upd, false)
			sr, pr := w.rootNow()
			stateRoots, proofRoots = append(stateRoots, sr), append(proofRoots, pr)
		case "SetRoot":
			err = w.main.SetRoot(stateRoots[a.Ri-1])
		case "LoadCache":
			err = w.main.LoadCache(stateRoots[a.Ri-1])
		case "Reopen":
			w.main = NewStateDB(w.store, stateRoots[a.Ri-1], false)
		default:
			panic("harness: step " + a.Name + " reached the statedb level")
		}
		if err != nil {
			rep.Violate(map[string]interface{}{"kind": "life-cycle-step-failed", "level": level, "step": a.Name}, rpOf(0, "", ""),
				"%s, family %v (%s): step %d (%s) of %s fails: %v", level, f.Pos, style, si+1, a.Name, srTrailText(nd.Trail), err)
			return
		}
	}
	if len(stateRoots) != len(nd.Hist) {
		panic(fmt.Sprintf("harness: %d roots for %d model roots", len(stateRoots), len(nd.Hist)))
	}
	if !bytes.Equal(w.main.GetRoot(), stateRoots[nd.Cur-1]) {
		rep.Violate(map[string]interface{}{"kind": "current-root-differs", "level": level, "last": nd.Trail[len(nd.Trail)-1].Name}, rpOf(nd.Cur, "", ""),
			"%s, family %v (%s): after %s the StateDB's root is %x, the specification's current root #%d is %x", level, f.Pos, style, srTrailText(nd.Trail), w.main.GetRoot(), nd.Cur, stateRoots[nd.Cur-1])
		return
	}
	env := &vp.Env{Level: level, Fam: f, Hist: nd.Hist, AbsKeys: absKeys, ValOf: valOf, Verify: vpRealAccept, Junk: junk, Rep: rep, Roots: proofRoots}
	for _, m := range nd.Hist {
		env.Models = append(env.Models, vpConcrete(f, m, valOf))
	}
	// the node answers from a fresh StateDB opened on the store at the current root (chainservice: OpenNewStateDB)
	qdb := NewStateDB(w.store, w.main.GetRoot(), false)
	for ri := 1; ri <= len(stateRoots); ri++ {
		if nd.St[ri-1] != "c" {
			panic("harness: an uncommitted root reached the statedb level")
		}
		root := proofRoots[ri-1]
		if w.cid == nil && len(root) == 0 && ri != nd.Cur {
			rep.Bump("note:empty-historical-root-not-addressable") // an empty root argument means "latest"
			continue
		}
		shapes := in.Shapes[srMapKey(nd.Hist[ri-1])]
		if shapes == nil {
			panic("harness: no shape table for contents " + srMapKey(nd.Hist[ri-1]))
		}
		for _, key := range absKeys {
			for _, comp := range []bool{false, true} {
				enc := vp.EncName(comp)
				rp := rpOf(ri, key, enc)
				rep.Res.Count(fmt.Sprintf("%s:%d:%v:%d:%s:%s", level, ni, fresh, ri, key, enc))
				id := f.Key(key)
				var m *vp.Msg
				var bad string
				var gotVal, wantVal string
				abs, present := nd.Hist[ri-1][key]
				if w.cid == nil {
					ap, err := qdb.GetAccountAndProof(id, root, comp)
					if err != nil {
						rep.Violate(map[string]interface{}{"kind": "generator-failed", "level": level, "root": srRootClass(nd, ri)}, rp,
							"%s, family %v (%s): after %s GetAccountAndProof(key %s, root #%d, %s): %v", level, f.Pos, style, srTrailText(nd.Trail), key, ri, enc, err)
						continue
					}
					if ri == nd.Cur { // the chain's own StateDB must agree about the current root
						ap2, err2 := w.main.GetAccountAndProof(id, nil, comp)
						if err2 != nil || !sameAccountProof(ap, ap2) {
							rep.Violate(map[string]interface{}{"kind": "generator-inconsistent", "level": level}, rp,
								"%s, family %v (%s): after %s GetAccountAndProof for the current root differs between a fresh StateDB and the chain's StateDB (error %v)", level, f.Pos, style, srTrailText(nd.Trail), err2)
							continue
						}
					}
					m, bad = accountMsg(root, id, comp, ap)
					if m != nil && ap.Inclusion {
						gotVal = fmt.Sprint(ap.State)
						if present {
							wantVal = fmt.Sprint(vpState(abs))
							if !proto.Equal(ap.State, vpState(abs)) {
								bad = "state differs"
							}
						}
					}
				} else {
					// chainservice GetStateQuery: sdb.GetVarAndProof(storageKey, contractProof.State.StorageRoot, compressed)
					vpf, err := qdb.GetVarAndProof(id, root, comp)
					if err != nil {
						rep.Violate(map[string]interface{}{"kind": "generator-failed", "level": level, "root": srRootClass(nd, ri)}, rp,
							"%s, family %v (%s): after %s GetVarAndProof(key %s, storage root #%d, %s): %v", level, f.Pos, style, srTrailText(nd.Trail), key, ri, enc, err)
						continue
					}
					m, bad = varMsg(root, id, comp, vpf)
					if m != nil && vpf.Inclusion {
						gotVal = string(vpf.Value)
						if present {
							wantVal = string(vpVarValue(abs))
							if !bytes.Equal(vpf.Value, vpVarValue(abs)) {
								bad = "value differs"
							}
						}
					}
				}
				if m == nil {
					rep.Violate(map[string]interface{}{"kind": "proof-shape", "level": level, "enc": enc}, rp, "%s: answer for key %s root #%d: %s", level, key, ri, bad)
					continue
				}
				m.Ri = ri
				// THE property: the answer states what the key held at the requested root
				if m.Incl != present || bad != "" {
					rep.Violate(map[string]interface{}{"kind": "proof-not-about-requested-root", "level": level, "root": srRootClass(nd, ri), "enc": enc}, rp,
						"%s, family %v (%s): after %s the %s answer for key %s at root #%d (%s, contents %v) claims incl=%v value %q; at that root the key is present=%v value %q",
						level, f.Pos, style, srTrailText(nd.Trail), enc, key, ri, srRootClass(nd, ri), nd.Hist[ri-1], m.Incl, gotVal, present, wantVal)
					continue
				}
				sh, ok := shapes[key]
				if !ok {
					panic("harness: no shape for key " + key)
				}
				env.CheckHonest(m, sh, vp.Replay{Level: level, Family: f.Pos, Base: rp.Base, Hist: nd.Hist, Ri: ri, Key: key, Enc: enc, Message: style + ": " + srTrailText(nd.Trail)})
			}
		}
	}
}

func TestVerifProofRootsStateDB(t *testing.T) {
	inPath, outPath := os.Getenv("VERIF_ROOTS_IN"), os.Getenv("VERIF_ROOTS_OUT")
	if !verifkit.Enabled() || inPath == "" || outPath == "" {
		t.Skip("run through bin/vcheck")
	}
	raw, err := os.ReadFile(inPath)
	if err != nil {
		t.Fatal(err)
	}
	var in srInput
	if err := json.Unmarshal(raw, &in); err != nil {
		t.Fatal(err)
	}
	res := verifkit.NewResult()
	rep := vp.NewReport(res)
	defer func() {
		res.Extra["counts"] = rep.Snapshot()
		os.Setenv("VERIF_OUT", outPath) // (the result of TestVerifProofStateDB, which ran before, is already written)
		if err := res.Write(); err != nil {
			t.Fatal(err)
		}
	}()
	var absKeys []string
	for i := 0; i < 1<<uint(in.H); i++ {
		absKeys = append(absKeys, fmt.Sprintf("%0*b", in.H, i))
	}
	type famJunk struct {
		f    *vp.Family
		junk []byte
	}
	var fams []famJunk
	for fi, pos := range in.Families {
		rng := verifkit.Rng(int64(8000 + fi))
		f := vp.NewFamily(pos, rng, in.Background)
		junk := make([]byte, 32)
		rng.Read(junk)
		fams = append(fams, famJunk{f, junk})
	}
	var wg sync.WaitGroup
	sem := make(chan struct{}, runtime.NumCPU())
	var failMu sync.Mutex
	var failures []string
	const chunk = 4
	for n0 := 0; n0 < len(in.Nodes); n0 += chunk {
		n0 := n0
		wg.Add(1)
		sem <- struct{}{}
		go func() {
			defer func() {
				if r := recover(); r != nil {
					failMu.Lock()
					failures = append(failures, fmt.Sprint(r))
					failMu.Unlock()
				}
				<-sem
				wg.Done()
			}()
			for ni := n0; ni < n0+chunk && ni < len(in.Nodes); ni++ {
				a, b := fams[ni%len(fams)], fams[(ni+1)%len(fams)]
				if srHasDeletion(&in.Nodes[ni]) {
					rep.Bump("note:account-level-skips-history-with-deletion") // accounts are never deleted from the state trie
				} else {
					srRun(&in, ni, a.f, a.junk, absKeys, rep, "statedb-account-roots", ni%2 == 0)
				}
				srRun(&in, ni, b.f, b.junk, absKeys, rep, "statedb-var-roots", true)
				if ni == len(in.Nodes)/2 {
					res.Sample(map[string]interface{}{"level": "statedb-roots", "trail": srTrailText(in.Nodes[ni].Trail), "cur": in.Nodes[ni].Cur})
				}
			}
		}()
	}
	wg.Wait()
	if len(failures) > 0 {
		t.Fatalf("harness failure (no verdict): %s", failures[0])
	}
}
