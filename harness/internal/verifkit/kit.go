//go:build verif

// Package verifkit holds the small amount of code shared by the /verif conformance
// harnesses: reading TLC-generated inputs, collecting results, deterministic randomness.
package verifkit

import (
	"crypto/sha256"
	"encoding/hex"
	"encoding/json"
	"fmt"
	"math/rand"
	"os"
	"sort"
	"strconv"
	"sync"
)

// Violation is a property violation observed on the real code.
type Violation struct {
	Sig    map[string]interface{} `json:"sig"`    // identifies the specific failing input (known-findings matching)
	Replay interface{}            `json:"replay"` // everything needed to re-run exactly this case
	Text   string                 `json:"text"`
}

// Result is what a harness reports back to bin/vcheck.
type Result struct {
	mu              sync.Mutex
	Evaluations     int           `json:"evaluations"`
	Distinct        []string      `json:"distinct"`
	Samples         []interface{} `json:"samples"`
	Violations      []Violation   `json:"violations"`
	TracesValidated int           `json:"traces_validated"`
	Notes           []string      `json:"notes"`
	Extra           map[string]interface{} `json:"extra,omitempty"`
	distinct        map[string]bool
	perSig          map[string]int
	maxViol         int
}

func NewResult() *Result {
	return &Result{distinct: map[string]bool{}, maxViol: 25, Extra: map[string]interface{}{}}
}

// Count registers one evaluation; key (if non-empty) identifies a distinct non-trivial case.
func (r *Result) Count(key string) {
	r.mu.Lock()
	defer r.mu.Unlock()
	r.Evaluations++
	if key != "" {
		h := sha256.Sum256([]byte(key))
		r.distinct[hex.EncodeToString(h[:8])] = true
	}
}

func (r *Result) Sample(s interface{}) {
	r.mu.Lock()
	defer r.mu.Unlock()
	if len(r.Samples) < 3 {
		r.Samples = append(r.Samples, s)
	}
}

func (r *Result) Note(format string, a ...interface{}) {
	r.mu.Lock()
	defer r.mu.Unlock()
	if len(r.Notes) < 50 {
		r.Notes = append(r.Notes, fmt.Sprintf(format, a...))
	}
}

// Violate records a violation (at most maxViol are kept).
func (r *Result) Violate(sig map[string]interface{}, replay interface{}, format string, a ...interface{}) {
	r.mu.Lock()
	defer r.mu.Unlock()
	// at most two instances per signature are kept, and the budgets (maxViol here, the harnesses' own "stop after n")
	// count signatures, not instances: the many instances of one registered finding must not crowd out a new violation
	k, _ := json.Marshal(sig)
	if r.perSig == nil {
		r.perSig = map[string]int{}
	}
	r.perSig[string(k)]++
	if r.perSig[string(k)] <= 2 && len(r.Violations) < 2*r.maxViol {
		r.Violations = append(r.Violations, Violation{Sig: sig, Replay: replay, Text: fmt.Sprintf(format, a...)})
	}
}

// NumViolations is the number of distinct violation signatures seen so far.
func (r *Result) NumViolations() int {
	r.mu.Lock()
	defer r.mu.Unlock()
	return len(r.perSig)
}

// Write stores the result in $VERIF_OUT.
func (r *Result) Write() error {
	r.mu.Lock()
	defer r.mu.Unlock()
	r.Distinct = r.Distinct[:0]
	for k := range r.distinct {
		r.Distinct = append(r.Distinct, k)
	}
	sort.Strings(r.Distinct)
	out := os.Getenv("VERIF_OUT")
	if out == "" {
		return fmt.Errorf("VERIF_OUT not set")
	}
	b, err := json.Marshal(r)
	if err != nil {
		return err
	}
	return os.WriteFile(out, b, 0o644)
}

// ReadInput decodes $VERIF_IN into v.
func ReadInput(v interface{}) error {
	in := os.Getenv("VERIF_IN")
	if in == "" {
		return fmt.Errorf("VERIF_IN not set")
	}
	b, err := os.ReadFile(in)
	if err != nil {
		return err
	}
	return json.Unmarshal(b, v)
}

func Seed() int64 {
	s, err := strconv.ParseInt(os.Getenv("VERIF_SEED"), 10, 64)
	if err != nil {
		return 1
	}
	return s
}

func Tier() string {
	if os.Getenv("VERIF_TIER") == "thorough" {
		return "thorough"
	}
	return "quick"
}

func Rng(salt int64) *rand.Rand { return rand.New(rand.NewSource(Seed()*1000003 + salt)) }

// Enabled tells a harness test whether it was started by bin/vcheck (tests are skipped otherwise,
// so that `go test -tags verif ./...` of the overlay tree does not run them by accident).
func Enabled() bool { return os.Getenv("VERIF_OUT") != "" }
