//go:build verif

// Package verifnode hosts a whole node-under-test for the /verif conformance harnesses:
// the real ChainService, the real MemPool and recording stand-ins for the other services on a
// real ComponentHub, over the journaling in-memory store `verifdb`.
package verifnode

import (
	"bytes"
	"context"
	"crypto/sha256"
	"encoding/binary"
	"encoding/hex"
	"fmt"
	"math/big"
	"os"
	"sort"
	"sync"
	"time"

	"github.com/aergoio/aergo-actor/actor"
	"github.com/aergoio/aergo-lib/db"
	"github.com/aergoio/aergo-lib/log"
	"github.com/aergoio/aergo/v2/chain"
	"github.com/aergoio/aergo/v2/config"
	"github.com/aergoio/aergo/v2/consensus"
	cchain "github.com/aergoio/aergo/v2/consensus/chain"
	"github.com/aergoio/aergo/v2/consensus/impl/dpos"
	"github.com/aergoio/aergo/v2/contract"
	"github.com/aergoio/aergo/v2/contract/system"
	"github.com/aergoio/aergo/v2/internal/common"
	"github.com/aergoio/aergo/v2/internal/enc/proto"
	"github.com/aergoio/aergo/v2/mempool"
	"github.com/aergoio/aergo/v2/pkg/component"
	"github.com/aergoio/aergo/v2/state"
	"github.com/aergoio/aergo/v2/state/statedb"
	"github.com/aergoio/aergo/v2/types"
	"github.com/aergoio/aergo/v2/types/dbkey"
	"github.com/aergoio/aergo/v2/types/message"
	"github.com/btcsuite/btcd/btcec/v2"
	"github.com/btcsuite/btcd/btcec/v2/ecdsa"
	"github.com/libp2p/go-libp2p/core/crypto"
)

var origBlockReward = chain.SendBlockReward

// ---------------------------------------------------------------- keys

// Account is a deterministic secp256k1 key pair.
type Account struct {
	Name string
	Priv *btcec.PrivateKey
	Addr []byte // 33-byte compressed public key = aergo address
}

func NewAccount(name string, seed int64) *Account {
	h := sha256.Sum256([]byte(fmt.Sprintf("verif-account/%s/%d", name, seed)))
	priv, pub := btcec.PrivKeyFromBytes(h[:])
	return &Account{Name: name, Priv: priv, Addr: pub.SerializeCompressed()}
}

func (a *Account) B58() string { return types.EncodeAddress(a.Addr) }

// BPKey is a libp2p secp256k1 key for signing blocks.
type BPKey struct {
	Priv crypto.PrivKey
	ID   types.PeerID
}

func NewBPKey(name string, seed int64) *BPKey {
	// (crypto.GenerateSecp256k1Key ignores its reader, so the key is derived explicitly)
	h := sha256.Sum256([]byte(fmt.Sprintf("verif-bp/%s/%d", name, seed)))
	priv, err := crypto.UnmarshalSecp256k1PrivateKey(h[:])
	if err != nil {
		panic(err)
	}
	id, err := types.IDFromPublicKey(priv.GetPublic())
	if err != nil {
		panic(err)
	}
	return &BPKey{Priv: priv, ID: id}
}

// ---------------------------------------------------------------- recording stand-ins

// Recorder is a component that records every message it receives (SyncerSvc, RPCSvc, p2pSvc ...).
type Recorder struct {
	*component.BaseComponent
	mu   sync.Mutex
	msgs []interface{}
}

func NewRecorder(name string) *Recorder {
	r := &Recorder{}
	r.BaseComponent = component.NewBaseComponent(name, r, log.NewLogger("verif."+name))
	return r
}
func (r *Recorder) BeforeStart() {}
func (r *Recorder) AfterStart()  {}
func (r *Recorder) BeforeStop()  {}
func (r *Recorder) Statistics() *map[string]interface{} {
	return &map[string]interface{}{}
}
func (r *Recorder) Receive(c actor.Context) {
	switch m := c.Message().(type) {
	case actor.SystemMessage, actor.AutoReceiveMessage, *component.CompStatReq:
	case *barrier:
		c.Respond(m)
	default:
		r.mu.Lock()
		r.msgs = append(r.msgs, m)
		r.mu.Unlock()
	}
}
func (r *Recorder) Take() []interface{} {
	r.mu.Lock()
	defer r.mu.Unlock()
	out := r.msgs
	r.msgs = nil
	return out
}

type barrier struct{}

// PoolTap sits under the name MemPoolSvc when the real pool is not wanted: records MemPoolPut/Del.
type PoolTap struct {
	*component.BaseComponent
	mu   sync.Mutex
	Puts []*types.Tx
	Dels []*types.Block
}

func NewPoolTap() *PoolTap {
	r := &PoolTap{}
	r.BaseComponent = component.NewBaseComponent(message.MemPoolSvc, r, log.NewLogger("verif.pooltap"))
	return r
}
func (r *PoolTap) BeforeStart() {}
func (r *PoolTap) AfterStart()  {}
func (r *PoolTap) BeforeStop()  {}
func (r *PoolTap) Statistics() *map[string]interface{} {
	return &map[string]interface{}{}
}
func (r *PoolTap) Receive(c actor.Context) {
	switch m := c.Message().(type) {
	case *message.MemPoolPut:
		r.mu.Lock()
		r.Puts = append(r.Puts, m.Tx)
		r.mu.Unlock()
		c.Respond(&message.MemPoolPutRsp{})
	case *message.MemPoolDel:
		r.mu.Lock()
		r.Dels = append(r.Dels, m.Block)
		r.mu.Unlock()
		c.Respond(&message.MemPoolDelRsp{})
	case *message.MemPoolExist:
		c.Respond(&message.MemPoolExistRsp{})
	case *message.MemPoolExistEx:
		c.Respond(&message.MemPoolExistExRsp{Txs: make([]*types.Tx, len(m.Hashes))})
	case *message.MemPoolGet:
		c.Respond(&message.MemPoolGetRsp{})
	case *message.MemPoolDelTx:
		c.Respond(&message.MemPoolDelTxRsp{})
	case *barrier:
		c.Respond(m)
	}
}
func (r *PoolTap) TakePuts() []*types.Tx {
	r.mu.Lock()
	defer r.mu.Unlock()
	out := r.Puts
	r.Puts = nil
	return out
}

// ---------------------------------------------------------------- stub consensus

// StubConsensus is a recording ChainConsensus with a harness-controlled LIB.  It mirrors the side
// effects of dpos.Status.Update that the rest of the node relies on (system parameter commit,
// voting-power-rank reload on rollback) but computes no finality itself.
type StubConsensus struct {
	mu        sync.Mutex
	Lib       types.BlockNo
	best      *types.Block
	sdb       *state.ChainStateDB
	Calls     []string
	VerifySig bool
	vpr       bool
	SavedBest []byte
}

func (s *StubConsensus) rec(format string, a ...interface{}) {
	s.Calls = append(s.Calls, fmt.Sprintf(format, a...))
}
func (s *StubConsensus) GetType() consensus.ConsensusType     { return consensus.ConsensusDPOS }
func (s *StubConsensus) IsTransactionValid(tx *types.Tx) bool { return true }
func (s *StubConsensus) VerifyTimestamp(b *types.Block) bool {
	s.mu.Lock()
	defer s.mu.Unlock()
	// like dpos: blocks numbered at or below the LIB cannot lead to a reorganisation
	return !(s.Lib > 0 && b.BlockNo() <= s.Lib)
}
func (s *StubConsensus) VerifySign(b *types.Block) error {
	if !s.VerifySig {
		return nil
	}
	ok, err := b.VerifySign()
	if !ok || err != nil {
		return &consensus.ErrorConsensus{Msg: "bad block signature", Err: err}
	}
	return nil
}
func (s *StubConsensus) IsBlockValid(b *types.Block, best *types.Block) error { return nil }
func (s *StubConsensus) Update(b *types.Block) {
	s.mu.Lock()
	defer s.mu.Unlock()
	s.rec("Update:%d:%s", b.BlockNo(), b.ID())
	if s.best == nil || s.best.ID() == b.PrevID() {
		system.CommitParams(true)
	} else {
		if s.vpr && s.sdb != nil {
			if scs, err := statedb.GetSystemAccountState(s.sdb.OpenNewStateDB(b.GetHeader().GetBlocksRootHash())); err == nil {
				_ = system.InitVotingPowerRank(scs)
			}
		}
		system.CommitParams(false)
	}
	s.best = b
}
func (s *StubConsensus) Save(tx consensus.TxWriter) error {
	s.mu.Lock()
	defer s.mu.Unlock()
	if s.best != nil {
		tx.Set([]byte("verif.cons.best"), s.best.BlockHash())
	}
	return nil
}
func (s *StubConsensus) NeedReorganization(rootNo types.BlockNo) bool {
	s.mu.Lock()
	defer s.mu.Unlock()
	s.rec("NeedReorg:%d", rootNo)
	return rootNo >= s.Lib
}
func (s *StubConsensus) NeedNotify() bool                     { return true }
func (s *StubConsensus) HasWAL() bool                         { return false }
func (s *StubConsensus) IsConnectedBlock(b *types.Block) bool { return false }
func (s *StubConsensus) IsForkEnable() bool                   { return true }
func (s *StubConsensus) Info() string                         { return "verif-stub" }
func (s *StubConsensus) MakeConfChangeProposal(req *types.MembershipChange) (*consensus.ConfChangePropose, error) {
	return nil, consensus.ErrNotSupportedMethod
}
func (s *StubConsensus) SetLib(n types.BlockNo) {
	s.mu.Lock()
	s.Lib = n
	s.mu.Unlock()
}

// ---------------------------------------------------------------- node

type Options struct {
	Dir          string // logical data dir (verifdb registry key); reused = restart on the same stores
	Seed         int64
	Public       bool             // public network => real fees; private => zero fee
	Coinbase     []byte           // nil => fees are burnt
	Hardfork     [4]types.BlockNo // heights of V2..V5 (0 = from genesis)
	Balances     map[string]string
	BPs          []string
	RealPool     bool // real MemPool on the hub (else a recording tap)
	VotingReward bool // decorate the block reward with the DPoS voting reward
	VerifySig    bool
	Timestamp    int64
	// MakeConsensus, when set, supplies the ChainConsensus instead of the recording stub (e.g. the real DPoS
	// Status); it is called after the chain service exists and before the actors start.
	MakeConsensus func(cs *chain.ChainService, hub *component.ComponentHub, cfg *config.Config) (consensus.ChainConsensus, error)
}

type Node struct {
	Opt   Options
	Cfg   *config.Config
	CS    *chain.ChainService
	Hub   *component.ComponentHub
	Pool  *mempool.MemPool
	Tap   *PoolTap
	Sync  *Recorder
	RPC   *Recorder
	P2P   *Recorder
	Cons  *StubConsensus
	Real  consensus.ChainConsensus // set when Options.MakeConsensus supplied the consensus
	BV    types.BlockVersionner
	Peer  types.PeerID
	alive bool
}

var nodeMu sync.Mutex

var scratchBase string

// ScratchBase is the directory under which all logical data dirs of this process live.
func ScratchBase() string {
	if scratchBase == "" {
		d, err := os.MkdirTemp("", "verifnode-")
		if err != nil {
			panic(err)
		}
		scratchBase = d
	}
	return scratchBase
}

// Cleanup removes the scratch base (call from TestMain).
func Cleanup() {
	if scratchBase != "" {
		os.RemoveAll(scratchBase)
	}
}

func genesisOf(o Options) *types.Genesis {
	return &types.Genesis{
		ID:        types.ChainID{Version: 0, Magic: "verif.chain", PublicNet: o.Public, MainNet: false, Consensus: "dpos"},
		Timestamp: o.Timestamp,
		Balance:   o.Balances,
		BPs:       append([]string(nil), o.BPs...),
	}
}

// Start creates (or re-opens, when the verifdb stores of o.Dir already exist) a node and runs recovery.
func Start(o Options) (n *Node, err error) {
	nodeMu.Lock()
	defer nodeMu.Unlock()
	defer func() {
		if r := recover(); r != nil {
			err = fmt.Errorf("panic while starting node: %v", r)
			n = nil
		}
	}()
	sc := config.NewServerContext("", "")
	cfg := sc.GetDefaultConfig().(*config.Config)
	cfg.DbType = string(db.VerifImpl)
	cfg.DataDir = o.Dir
	cfg.UseTestnet = true
	cfg.Consensus.EnableBp = true
	cfg.Blockchain.VerifierCount = 2
	cfg.Blockchain.NumWorkers = 1
	cfg.Mempool.EnableFadeout = false
	cfg.Mempool.VerifierNumber = 1
	cfg.Mempool.DumpFilePath = ""
	cfg.Hardfork = &config.HardforkConfig{V2: o.Hardfork[0], V3: o.Hardfork[1], V4: o.Hardfork[2], V5: o.Hardfork[3]}
	if o.Coinbase != nil {
		cfg.Blockchain.CoinbaseAccount = types.EncodeAddress(o.Coinbase)
	} else {
		cfg.Blockchain.CoinbaseAccount = ""
	}

	fresh := true
	for _, d := range db.VerifStoreDirs() {
		if len(d) >= len(o.Dir) && d[:len(o.Dir)] == o.Dir {
			fresh = false
		}
	}
	if fresh {
		core, err := chain.NewCore(cfg.DbType, cfg.DataDir, false, 0, cfg.DB)
		if err != nil {
			return nil, err
		}
		if err := core.InitGenesisBlock(genesisOf(o), false); err != nil {
			return nil, err
		}
		core.Close()
	}

	chain.CoinbaseAccount = nil
	chain.SendBlockReward = origBlockReward
	cs := chain.NewChainService(cfg)
	chain.CoinbaseAccount = o.Coinbase
	n = &Node{Opt: o, Cfg: cfg, CS: cs, BV: cfg.Hardfork, Peer: types.PeerID("verif-peer")}
	n.Cons = &StubConsensus{sdb: cs.SDB(), VerifySig: o.VerifySig, vpr: o.VotingReward}
	if best, _ := cs.GetBestBlock(); best != nil {
		n.Cons.best = best
	}
	n.Hub = component.NewComponentHub()
	if o.MakeConsensus != nil {
		cc, err := o.MakeConsensus(cs, n.Hub, cfg)
		if err != nil {
			return nil, err
		}
		n.Real = cc
		cs.SetChainConsensus(cc)
	} else {
		cs.SetChainConsensus(n.Cons)
	}
	if o.VotingReward {
		if err := dpos.InitVPR(cs.SDB().GetStateDB()); err != nil {
			return nil, err
		}
		chain.DecorateBlockRewardFn(dpos.VerifSendVotingReward)
	}

	n.Sync = NewRecorder(message.SyncerSvc)
	n.RPC = NewRecorder(message.RPCSvc)
	n.P2P = NewRecorder(message.P2PSvc)
	if o.RealPool {
		n.Pool = mempool.NewMemPoolService(cfg, cs)
		n.Hub.Register(cs, n.Pool, n.Sync, n.RPC, n.P2P)
	} else {
		n.Tap = NewPoolTap()
		n.Hub.Register(cs, n.Tap, n.Sync, n.RPC, n.P2P)
	}
	// The chain service actor runs Recover() lazily on its first message; run it here, before the actors
	// start, so that (1) a failure is an error instead of a process exit and (2) it cannot race with the
	// harness driving the node directly.
	if err := cs.Recover(); err != nil {
		return nil, fmt.Errorf("recover: %w", err)
	}
	cs.VerifSetRecovered()
	n.Hub.Start()
	n.alive = true
	return n, nil
}

// Stop stops the node's actors (actor names are process-global, so only one node can be alive at a time).
// The chain service's signature verifier is deliberately NOT closed: verifier goroutines left over from
// blocks that were rejected before their signature check was awaited would panic ("send on closed channel")
// and take the harness process down.  The verifdb stores stay in the registry (like files on disk); a later
// Start on the same Dir re-opens them.
func (n *Node) Stop() {
	if n == nil || !n.alive {
		return
	}
	n.alive = false
	defer func() { recover() }()
	n.Quiesce()
	n.CS.VerifKill()
	if n.Pool != nil {
		n.Pool.Stop()
	}
	if n.Tap != nil {
		n.Tap.VerifKill()
	}
	n.Sync.VerifKill()
	n.RPC.VerifKill()
	n.P2P.VerifKill()
}

// Quiesce lets the signature verification of a block that was rejected before its result was awaited run to
// completion (its workers still talk to the pool actor), the way the seconds between two blocks do in a real
// network.  Without it two verifications overlap and the chain service can block forever in WaitDone.
func (n *Node) Quiesce() {
	idle := 0
	for i := 0; i < 400 && idle < 3; i++ {
		n.Barrier()
		time.Sleep(200 * time.Microsecond)
		if n.CS.VerifVerifierQueued() == 0 {
			idle++
		} else {
			idle = 0
		}
	}
}

// Barrier waits until every message sent so far to the pool and the recorders has been handled.
func (n *Node) Barrier() {
	for _, name := range []string{message.MemPoolSvc, message.SyncerSvc, message.RPCSvc} {
		if name == message.MemPoolSvc && n.Pool != nil {
			_, _ = n.Hub.RequestFuture(name, &message.MemPoolExist{Hash: []byte("verif-barrier")}, 5*time.Second, "verif").Result()
			continue
		}
		_, _ = n.Hub.RequestFuture(name, &barrier{}, 5*time.Second, "verif").Result()
	}
}

// Deliver hands a block to the chain service the way the ChainManager actor does for a block from the network.
func (n *Node) Deliver(b *types.Block) (err error) {
	defer func() {
		if r := recover(); r != nil {
			err = fmt.Errorf("PANIC in addBlock: %v", r)
		}
	}()
	// a block from the network is a fresh decoded message: never share the object with other nodes
	err = n.CS.VerifAddBlock(CloneBlock(b), nil, n.Peer)
	if err != nil {
		n.Quiesce()
	} else {
		n.Barrier()
	}
	return err
}

func CloneBlock(b *types.Block) *types.Block {
	return proto.Clone(b).(*types.Block)
}

// Best returns the best block.
func (n *Node) Best() *types.Block {
	b, _ := n.CS.GetBestBlock()
	return b
}

// Produce builds a block on the current best block through the real block-production path
// (BlockGenerator/GatherTXs with the real tx executor in BlockFactory mode).  txs==nil with a real
// pool fetches from the pool.  The block is signed with bp and NOT yet connected.
func (n *Node) Produce(ts int64, txs []*types.Tx, bp *BPKey, confirms uint64) (blk *types.Block, bs *state.BlockState, err error) {
	defer func() {
		if r := recover(); r != nil {
			err = fmt.Errorf("PANIC in block production: %v", r)
		}
	}()
	best := n.Best()
	bi := types.NewBlockHeaderInfoFromPrevBlock(best, ts, n.BV)
	bs = n.CS.SDB().NewBlockState(best.GetHeader().GetBlocksRootHash(), state.SetPrevBlockHash(best.BlockHash()))
	bs.SetGasPrice(system.GetGasPrice())
	bs.Receipts().SetHardFork(n.BV, bi.No)
	exec := chain.NewTxExecutor(context.Background(), nil, n.CS.CDB(), bi, contract.BlockFactory)
	gen := cchain.NewBlockGenerator(n.Hub, context.Background(), bi, bs, cchain.TxOpFn(func(b *state.BlockState, tx types.Transaction) error {
		return exec(b, tx)
	}), false)
	if txs != nil || n.Pool == nil {
		gen = gen.WithDeco(func(cchain.FetchFn) cchain.FetchFn {
			return func(component.ICompSyncRequester, uint32) []types.Transaction {
				out := make([]types.Transaction, len(txs))
				for i, t := range txs {
					out[i] = types.NewTransaction(t)
				}
				return out
			}
		})
	}
	blk, err = gen.GenerateBlock()
	if err != nil {
		return nil, nil, err
	}
	blk.SetConfirms(confirms)
	if bp != nil {
		if err = blk.Sign(bp.Priv); err != nil {
			return nil, nil, err
		}
	}
	return blk, bs, nil
}

// Connect hands a self-produced block (with its executed block state) to the chain service.
func (n *Node) Connect(blk *types.Block, bs *state.BlockState) (err error) {
	defer func() {
		if r := recover(); r != nil {
			err = fmt.Errorf("PANIC in addBlock(own): %v", r)
		}
	}()
	err = n.CS.VerifAddBlock(blk, bs, "")
	n.Barrier()
	return err
}

// ---------------------------------------------------------------- transactions

func (n *Node) ChainIDHash(no types.BlockNo) []byte {
	cid, err := n.CS.ChainID(no).Bytes()
	if err != nil {
		panic(err)
	}
	return common.Hasher(cid)
}

// NewTx builds and signs a transaction.
func NewTx(from *Account, signer *Account, to []byte, nonce uint64, amount *big.Int, typ types.TxType, payload []byte, chainIDHash []byte, gasLimit uint64) *types.Tx {
	tx := &types.Tx{Body: &types.TxBody{
		Nonce: nonce, Account: from.Addr, Recipient: to, Amount: amount.Bytes(), Payload: payload,
		GasLimit: gasLimit, GasPrice: nil, Type: typ, ChainIdHash: chainIDHash,
	}}
	SignTx(tx, signer)
	return tx
}

func SignTx(tx *types.Tx, signer *Account) {
	h := hashWithoutSign(tx.Body)
	tx.Body.Sign = ecdsa.Sign(signer.Priv, h).Serialize()
	tx.Hash = tx.CalculateTxHash()
}

// hashWithoutSign mirrors account/key.CalculateHashWithoutSign (the digest a tx signature covers).
func hashWithoutSign(b *types.TxBody) []byte {
	h := sha256.New()
	binary.Write(h, binary.LittleEndian, b.Nonce)
	h.Write(b.Account)
	h.Write(b.Recipient)
	h.Write(b.Amount)
	h.Write(b.Payload)
	binary.Write(h, binary.LittleEndian, b.GasLimit)
	h.Write(b.GasPrice)
	binary.Write(h, binary.LittleEndian, b.Type)
	h.Write(b.ChainIdHash)
	return h.Sum(nil)
}

// ---------------------------------------------------------------- projections

// AccountDump is one account of a full state dump.
type AccountDump struct {
	Balance string `json:"bal"`
	Nonce   uint64 `json:"nonce"`
	Storage string `json:"sroot,omitempty"`
	Code    string `json:"code,omitempty"`
}

// DumpState walks EVERY key of the account trie at root (not only the accounts the harness knows).
func (n *Node) DumpState(root []byte) (map[string]AccountDump, *big.Int, error) {
	sdb := n.CS.SDB().OpenNewStateDB(root)
	out := map[string]AccountDump{}
	sum := new(big.Int)
	if len(root) == 0 {
		return out, sum, nil
	}
	store := n.CS.VerifStateStore()
	for _, k := range sdb.Trie.GetKeys() {
		vh, err := sdb.Trie.Get(k)
		if err != nil || vh == nil {
			return nil, nil, fmt.Errorf("trie key %x unreadable: %v", k, err)
		}
		raw := store.Get(vh)
		st := &types.State{}
		if err := proto.Decode(raw, st); err != nil {
			return nil, nil, fmt.Errorf("state of %x undecodable: %v", k, err)
		}
		bal := new(big.Int).SetBytes(st.Balance)
		sum.Add(sum, bal)
		out[hex.EncodeToString(k)] = AccountDump{Balance: bal.String(), Nonce: st.Nonce,
			Storage: hex.EncodeToString(st.StorageRoot), Code: hex.EncodeToString(st.CodeHash)}
	}
	return out, sum, nil
}

// Projection is the chain-database view the ChainDB specification talks about.
type Projection struct {
	BestNo    uint64            `json:"best_no"`
	Best      string            `json:"best"`
	Hidx      []string          `json:"hidx"`      // height -> block id (main chain by the height index)
	StateRoot string            `json:"sroot"`     // in-memory state root
	BestRoot  string            `json:"best_root"` // state root in the best block's header
	Orphans   int               `json:"orphans"`
	Marker    bool              `json:"marker"`
	Problems  []string          `json:"problems"` // violations of the C05 coherence predicate
	TxAt      map[string]string `json:"tx_at"`    // tx id -> "blockid:idx" as reported by the tx lookup
}

// Project evaluates the C05 coherence predicate ("Coherent" of ChainDB.tla) on the real database through the
// public lookup surface, given the universe of blocks and transactions the harness ever created.
func (n *Node) Project(blocks []*types.Block) *Projection {
	p := &Projection{TxAt: map[string]string{}}
	best := n.Best()
	p.BestNo, p.Best = best.BlockNo(), best.ID()
	p.BestRoot = hex.EncodeToString(best.GetHeader().GetBlocksRootHash())
	p.StateRoot = hex.EncodeToString(n.CS.SDB().GetRoot())
	p.Orphans = n.CS.VerifOrphanCount()
	p.Marker = n.CS.VerifHasReorgMarker()
	bad := func(f string, a ...interface{}) { p.Problems = append(p.Problems, fmt.Sprintf(f, a...)) }

	if p.StateRoot != p.BestRoot {
		bad("current state root %s != best block's state root %s", p.StateRoot[:12], p.BestRoot[:12])
	}
	if p.Marker {
		bad("reorg marker present at quiescence")
	}
	// the chain DB's own record of the best block (what a restarted node starts from) names the best block
	if raw := n.CS.VerifChainStore().Get(dbkey.LatestBlock()); !bytes.Equal(raw, types.BlockNoToBytes(best.BlockNo())) {
		bad("the stored latest-block key says height %x, the best block is %d", raw, best.BlockNo())
	}
	// best is the tip of a parent-linked path to genesis and the height index maps exactly that path
	main := map[string]int{}
	cur := best
	for {
		byNo, err := n.CS.VerifGetBlockByNo(cur.BlockNo())
		if err != nil {
			bad("height %d has no index entry (expected %s)", cur.BlockNo(), cur.ID())
		} else if byNo.ID() != cur.ID() {
			bad("height index %d -> %s but the path from best has %s", cur.BlockNo(), byNo.ID(), cur.ID())
		}
		byHash, err := n.CS.VerifGetBlock(cur.BlockHash())
		if err != nil || byHash.ID() != cur.ID() {
			bad("block %s on the main path is not found by hash", cur.ID())
		}
		main[cur.ID()] = int(cur.BlockNo())
		if cur.BlockNo() == 0 {
			break
		}
		parent, err := n.CS.VerifGetBlock(cur.GetHeader().GetPrevBlockHash())
		if err != nil {
			bad("parent of main-chain block %s (no %d) missing", cur.ID(), cur.BlockNo())
			break
		}
		if parent.BlockNo()+1 != cur.BlockNo() {
			bad("parent of %s has number %d", cur.ID(), parent.BlockNo())
			break
		}
		cur = parent
	}
	p.Hidx = make([]string, p.BestNo+1)
	for i := uint64(0); i <= p.BestNo; i++ {
		if b, err := n.CS.VerifGetBlockByNo(types.BlockNo(i)); err == nil {
			p.Hidx[i] = b.ID()
		}
	}
	// no index entry above the tip
	for i := p.BestNo + 1; i <= p.BestNo+4; i++ {
		if b, err := n.CS.VerifGetBlockByNo(types.BlockNo(i)); err == nil {
			bad("height index has an entry above the best block: %d -> %s", i, b.ID())
		}
	}
	// transactions: main-chain txs resolve to (block, position); txs only on abandoned branches are not confirmed
	onMain := map[string]string{}
	everywhere := map[string]bool{}
	for _, b := range blocks {
		for i, tx := range b.GetBody().GetTxs() {
			id := hex.EncodeToString(tx.GetHash())
			everywhere[id] = true
			if _, ok := main[b.ID()]; ok {
				onMain[id] = fmt.Sprintf("%s:%d", b.ID(), i)
			}
		}
	}
	ids := make([]string, 0, len(everywhere))
	for id := range everywhere {
		ids = append(ids, id)
	}
	sort.Strings(ids)
	for _, id := range ids {
		h, _ := hex.DecodeString(id)
		tx, idx, err := n.CS.VerifGetTx(h)
		want, isMain := onMain[id]
		if err == nil {
			got := fmt.Sprintf("%s:%d", types.ToBlockID(idx.BlockHash).String(), idx.Idx)
			p.TxAt[id[:12]] = got
			if !isMain {
				bad("tx %s is only on an abandoned branch but is reported confirmed at %s", id[:12], got)
			} else if got != want {
				bad("tx %s reported at %s, is at %s on the main chain", id[:12], got, want)
			} else if !bytes.Equal(tx.GetHash(), h) {
				bad("tx lookup %s returned another tx", id[:12])
			}
			if isMain {
				if r, err := n.CS.VerifGetReceipt(h); err != nil || r == nil {
					bad("no receipt for main-chain tx %s: %v", id[:12], err)
				} else if !bytes.Equal(r.TxHash, h) {
					bad("receipt of tx %s carries tx hash %x", id[:12], r.TxHash)
				}
			}
		} else if isMain {
			bad("main-chain tx %s (at %s) not found by hash: %v", id[:12], want, err)
		}
	}
	// receipts exist for every main-chain block with txs
	for _, b := range blocks {
		if _, ok := main[b.ID()]; ok && len(b.GetBody().GetTxs()) > 0 {
			rs, err := n.CS.VerifGetReceipts(b.BlockHash())
			if err != nil || rs == nil || len(rs.Get()) != len(b.GetBody().GetTxs()) {
				bad("receipts of main-chain block %s (no %d): err=%v", b.ID(), b.BlockNo(), err)
			}
		}
	}
	return p
}
