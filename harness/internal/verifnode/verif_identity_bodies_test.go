//go:build verif

package verifnode

// C18(c) at the chain-service boundary, model-derived part: the "cs" component of spec/p2p/BlockRecv.tla.  For genuine
// blocks of 1..12 transactions (built by a real producing node) TLC enumerates every copy a relay can make of the block
// under its identifier - body emptied / shortened / reordered / substituted / extended, EVERY body that has the genuine
// transaction root by the merkle padding rule (PadVariants of the model), header altered - and every order of arrivals.
// Each sequence is replayed on a fresh real node; after every arrival the model's projection is compared (connected
// under the identifier of the genuine block? with which body? identifier cached as errored?) and the property is
// evaluated on what the node did: a forged copy is never connected, the genuine block always is when it arrives.

import (
	"bytes"
	"fmt"
	"math/big"
	"os"
	"testing"

	"github.com/aergoio/aergo-lib/db"
	"github.com/aergoio/aergo/v2/internal/verifkit"
	"github.com/aergoio/aergo/v2/types"
)

type ibItem struct {
	Hdr  string `json:"hdr"`  // a: the genuine header; x: the genuine header with one field altered
	Body []int  `json:"body"` // 1..n: the transactions of the genuine block, n+1: a valid transaction that is not in it
	Kind string `json:"kind"`
}

type ibStep struct {
	It       ibItem `json:"it"`
	Res      string `json:"res"`       // model: refused | dropped | cached | known | connected | failed
	ConnOn   bool   `json:"conn_on"`   // model, after the step: a block is connected under the genuine identifier ...
	ConnBody []int  `json:"conn_body"` // ... with this body
	Bad      bool   `json:"bad"`       // ... the genuine identifier is cached as errored
}

type ibSeq struct {
	N     int      `json:"n"`
	Steps []ibStep `json:"steps"`
	Name  string   `json:"name,omitempty"`
}

type ibInput struct {
	Sequences  []ibSeq  `json:"sequences"`
	HeaderAlts []string `json:"header_alts"` // the header fields altered for hdr = x, taken in turn
}

func alterHeader(b *types.Block, field string) {
	h := b.Header
	flip := func(p []byte, n int) []byte {
		q := append([]byte(nil), p...)
		if len(q) == 0 {
			q = make([]byte, n)
		}
		q[len(q)/2] ^= 0x41
		return q
	}
	switch field {
	case "ChainID":
		h.ChainID = flip(h.ChainID, 8)
	case "PrevBlockHash":
		h.PrevBlockHash = flip(h.PrevBlockHash, 32)
	case "BlockNo":
		h.BlockNo++
	case "Timestamp":
		h.Timestamp += 12345
	case "BlocksRootHash":
		h.BlocksRootHash = flip(h.BlocksRootHash, 32)
	case "TxsRootHash": // the header is made to commit to the body that comes with it
		old := h.TxsRootHash
		h.TxsRootHash = types.CalculateTxsRootHash(b.GetBody().GetTxs())
		if bytes.Equal(h.TxsRootHash, old) {
			h.TxsRootHash = flip(old, 32)
		}
	case "ReceiptsRootHash":
		h.ReceiptsRootHash = flip(h.ReceiptsRootHash, 32)
	case "Confirms":
		h.Confirms += 3
	case "PubKey":
		h.PubKey = flip(h.PubKey, 33)
	case "CoinbaseAccount":
		h.CoinbaseAccount = flip(h.CoinbaseAccount, 33)
	case "Sign":
		h.Sign = flip(h.Sign, 70)
	default: // Consensus
		h.Consensus = flip(h.Consensus, 4)
	}
}

func TestVerifBlockIdentityBodies(t *testing.T) {
	if !verifkit.Enabled() {
		t.Skip("run through bin/vcheck")
	}
	var in ibInput
	if err := verifkit.ReadInput(&in); err != nil {
		t.Fatal(err)
	}
	res := verifkit.NewResult()
	defer func() {
		if err := res.Write(); err != nil {
			t.Fatal(err)
		}
	}()
	shard, nshard := 0, 1
	if s := os.Getenv("VERIF_SHARD"); s != "" {
		fmt.Sscanf(s, "%d/%d", &shard, &nshard)
	}
	db.VerifReset()
	db.VerifSetRecording(false)
	if len(in.HeaderAlts) == 0 {
		in.HeaderAlts = []string{"Timestamp"}
	}
	seed := verifkit.Seed()
	a1, a2, a3 := NewAccount("a1", seed), NewAccount("a2", seed), NewAccount("a3", seed)
	bp := NewBPKey("bp0", seed)
	base := Options{Seed: seed, VerifySig: true, BPs: []string{types.IDB58Encode(bp.ID)}, Timestamp: 1600000000000000000,
		Balances: map[string]string{a1.B58(): "1000000000000000000000", a2.B58(): "5", a3.B58(): "1000000000000000000000"}}

	// the genuine block of n transactions, produced and connected by a real node
	type genuine struct {
		blk     *types.Block
		txs     []*types.Tx // 1-based: txs[i-1]; txs[n] is the foreign transaction
		id      []byte
	}
	built := map[int]*genuine{}
	build := func(n int) *genuine {
		if g := built[n]; g != nil {
			return g
		}
		o := base
		o.Dir = freshDir(fmt.Sprintf("ibp-%d", n))
		p, err := Start(o)
		if err != nil {
			t.Fatal(err)
		}
		defer p.Stop()
		var txs []*types.Tx
		for i := 1; i <= n; i++ {
			txs = append(txs, NewTx(a1, a1, a2.Addr, uint64(i), big.NewInt(int64(6+i)), types.TxType_TRANSFER, nil, p.ChainIDHash(1), 0))
		}
		foreign := NewTx(a3, a3, a2.Addr, 1, big.NewInt(99), types.TxType_TRANSFER, nil, p.ChainIDHash(1), 0)
		blk, bs, err := p.Produce(1600000001000000000+int64(n), txs, bp, 1)
		if err != nil {
			t.Fatal(err)
		}
		if len(blk.GetBody().GetTxs()) != n {
			t.Fatalf("produced block holds %d of %d transactions", len(blk.GetBody().GetTxs()), n)
		}
		if err := p.Connect(blk, bs); err != nil {
			t.Fatal(err)
		}
		g := &genuine{blk: blk, txs: append(append([]*types.Tx(nil), blk.GetBody().GetTxs()...), foreign), id: append([]byte(nil), blk.BlockHash()...)}
		built[n] = g
		return g
	}
	sameBody := func(txs []*types.Tx, g *genuine, idx []int) bool {
		if len(txs) != len(idx) {
			return false
		}
		for i, k := range idx {
			if !bytes.Equal(txs[i].GetHash(), g.txs[k-1].GetHash()) {
				return false
			}
		}
		return true
	}
	for si := range in.Sequences {
		sq := &in.Sequences[si]
		if sq.N%nshard != shard {
			continue
		}
		g := build(sq.N)
		genIdx := make([]int, sq.N)
		for i := range genIdx {
			genIdx[i] = i + 1
		}
		o := base
		o.Dir = freshDir("ibv")
		v, err := Start(o)
		if err != nil {
			t.Fatal(err)
		}
		var trail []string
		forgedSeen := "" // kinds of the forged copies delivered so far
		tainted := false // a violation was reported for an earlier arrival: only the property is evaluated from here on
		for k, st := range sq.Steps {
			blk := CloneBlock(g.blk) // the announced identifier (Hash field) is the genuine one in every copy
			var body []*types.Tx
			for _, i := range st.It.Body {
				if i < 1 || i > len(g.txs) {
					t.Fatalf("sequence %d: transaction index %d out of range", si, i)
				}
				body = append(body, g.txs[i-1])
			}
			blk.Body.Txs = body
			field := ""
			if st.It.Hdr != "a" {
				field = in.HeaderAlts[(si+k)%len(in.HeaderAlts)]
				alterHeader(blk, field)
			}
			// binding of the model's root function: the copies the model calls root-equivalent are exactly the real ones
			if st.It.Hdr == "a" {
				rootEq := bytes.Equal(types.CalculateTxsRootHash(body), g.blk.GetHeader().GetTxsRootHash())
				if want := st.It.Kind == "genuine" || st.It.Kind == "padded"; rootEq != want {
					t.Fatalf("model and code disagree on the transaction root: n=%d body %v (%s): same root as the genuine body in the code: %v, in the model: %v", sq.N, st.It.Body, st.It.Kind, rootEq, want)
				}
			}
			derr := v.Deliver(blk)
			trail = append(trail, fmt.Sprintf("%s%v%s -> %v", st.It.Kind, st.It.Body, field, derr))
			// projection
			connOn, connBody := false, "none"
			if best := v.Best(); best != nil && best.BlockNo() == 1 && bytes.Equal(best.BlockHash(), g.id) {
				connOn = true
			}
			stored, serr := v.CS.VerifGetBlock(g.id)
			if serr == nil && stored != nil {
				switch {
				case sameBody(stored.GetBody().GetTxs(), g, genIdx):
					connBody = "genuine"
				default:
					connBody = fmt.Sprintf("other (%d transactions)", len(stored.GetBody().GetTxs()))
				}
			}
			bad := v.CS.VerifIsErrCached(g.id)
			accepted := derr == nil
			replay := map[string]interface{}{"transactions": sq.N, "sequence": sq.Steps, "step": k, "altered_header_field": field, "trail": trail,
				"genuine_block": g.blk.ID(), "connected": connOn, "stored_body": connBody, "cached_as_errored": bad}
			sig := func(kind string) map[string]interface{} {
				how := st.It.Kind
				if st.It.Kind == "genuine" {
					how = forgedSeen
				}
				return map[string]interface{}{"part": "block-identity", "level": "chain-service", "kind": kind, "how": how}
			}
			res.Count(fmt.Sprintf("ib|%d|%d|%d", sq.N, si, k))
			failed := true
			switch {
			case derr != nil && len(derr.Error()) > 5 && derr.Error()[:5] == "PANIC":
				res.Violate(sig("panic"), replay, "block of %d transactions, arrivals %v: %v", sq.N, trail, derr)
			case st.It.Kind != "genuine" && (accepted && !(st.Res == "known") || (serr == nil && connBody != "genuine" && connBody != "none")):
				res.Violate(sig("forged-connected"), replay,
					"a copy of block %s (%d transactions) with %s body %v%s under the genuine identifier was accepted (error: %v; stored under the identifier: %s body); arrivals %v",
					g.blk.ID(), sq.N, st.It.Kind, st.It.Body, field, derr, connBody, trail)
			case st.It.Kind != "genuine" && bad && !st.Bad && !tainted:
				failed, tainted = false, true // go on: the genuine block is still to come
				res.Violate(sig("genuine-id-cached-as-errored"), replay,
					"a copy of block %s (%d transactions) with %s body %v%s was refused (%v) but left the identifier of the genuine block in the errored-blocks cache; arrivals %v",
					g.blk.ID(), sq.N, st.It.Kind, st.It.Body, field, derr, trail)
			case st.It.Kind == "genuine" && st.ConnOn && (!accepted || !connOn || connBody != "genuine"):
				res.Violate(sig("forged-block-poisons-genuine"), replay,
					"the genuine block %s (%d transactions) is not connected when it arrives after forged copies (%s) with its identifier: %v (connected: %v, cached as errored: %v); arrivals %v",
					g.blk.ID(), sq.N, forgedSeen, derr, connOn, bad, trail)
			case tainted:
				failed = false
			case connOn != st.ConnOn || bad != st.Bad || accepted != (st.Res == "connected" || st.Res == "known"):
				res.Violate(sig("nonconformance"), replay,
					"chain service differs from BlockRecv.tla after arrival %d of %v: accepted %v (model: %s), connected %v (model %v), cached as errored %v (model %v)",
					k+1, trail, accepted, st.Res, connOn, st.ConnOn, bad, st.Bad)
			default:
				failed = false
			}
			if st.It.Kind != "genuine" {
				if forgedSeen != "" {
					forgedSeen += "+"
				}
				forgedSeen += st.It.Kind
			}
			if failed {
				break
			}
		}
		if si%40 == 0 {
			res.Sample(map[string]interface{}{"transactions": sq.N, "arrivals": trail})
		}
		v.Stop()
		if res.NumViolations() >= 8 {
			break
		}
	}
}
