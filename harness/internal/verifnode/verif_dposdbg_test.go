//go:build verif

package verifnode

import (
	"os"
	"testing"
	"time"

	"github.com/aergoio/aergo-lib/db"
)

func TestVerifDposDbg(t *testing.T) {
	if os.Getenv("VERIF_DBG") == "" {
		t.Skip()
	}
	db.VerifReset()
	b := &dpBehaviour{N: 3}
	w, err := dpBuildWorld(b, 1)
	if err != nil {
		t.Fatal(err)
	}
	t.Logf("template genesis %s root %x", w.blocks[0].ID(), w.blocks[0].GetHeader().GetBlocksRootHash())
	for i := 0; i < 3; i++ {
		t0 := time.Now()
		n, dp, err := dpStart(w, freshDir("dbg"), i)
		if err != nil {
			t.Fatal(err)
		}
		g, _ := n.CS.VerifGetBlockByNo(0)
		t.Logf("node %d genesis %s root %x start took %v", i, g.ID(), g.GetHeader().GetBlocksRootHash(), time.Since(t0))
		n.Stop()
		dp.VerifQuit()
	}
}
