//go:build verif

package verifnode

// Name senders for the ledger harness (C04): transactions whose sender ACCOUNT is the name "verifname001" (NameId "n1"
// of spec/ledger/Ledger.tla).  The rule of the specification (NameSenderNeedsOwnerKey): such a transaction takes effect
// only when it is signed by the key of the owner REGISTERED IN THE STATE THE BLOCK STARTS FROM, and it is then executed
// for the address the name stood for in that same state.
//
//   - helpers for the behaviour loop / observe() of verif_ledger_test.go (who a name sender is executed for, whose nonce
//     counter a template's nonce is taken from);
//   - CRAFTED blocks for the validator phase (an honest producer never builds them): a handover of the name and a
//     name-sender transaction in ONE block, signed by the previous owner / by the new owner / with the next nonce of
//     either, name-sender transactions of strangers and of the previous owner after a committed handover.  They are
//     built with the production path itself (explicit transaction list); a transaction the producing executor leaves
//     out is put back by hand;
//   - the pool-hit scenario: the block signature verifier skips a transaction it finds in the node's own pool; a
//     name-sender transaction admitted to the pool BEFORE a handover is delivered in a block AFTER the handover.

import (
	"bytes"
	"encoding/hex"
	"fmt"
	"os"
	"sort"
	"sync/atomic"
	"time"

	"github.com/aergoio/aergo/v2/consensus/impl/dpos"
	"github.com/aergoio/aergo/v2/internal/verifkit"
	"github.com/aergoio/aergo/v2/types"
	"github.com/aergoio/aergo/v2/types/message"
)

const (
	ldgNameID = "n1"           // the name as it appears in the templates of MC_Ledger.tla
	ldgName   = "verifname001" // the name on the chain (kind "name" registers it)
)

// acct is the signing/sending party of a template: a user, or the name (an "account" without a key).
func (w *ldgWorld) acct(name string) *Account {
	if name == ldgNameID {
		return &Account{Name: ldgNameID, Addr: []byte(ldgName)}
	}
	return w.users[name]
}

// exeOf is Sender(t) of Ledger.tla: the user a transaction with sender account `from` is executed for ("" = nobody).
// afterBlock selects the mapping written by the block being observed instead of the committed one.
func (w *ldgWorld) exeOf(from string, afterBlock bool) string {
	if from != ldgNameID {
		return from
	}
	if afterBlock {
		return w.blkDest
	}
	return w.nameDest
}

// nonceBase is NonceBase(tpl) of Ledger.tla.
func (w *ldgWorld) nonceBase(x ldgTemplate) string {
	if x.From != ldgNameID {
		return x.From
	}
	if w.users[x.Ops] != nil {
		return x.Ops
	}
	return w.nameDest
}

// ---- crafted blocks

type ldgCraftTx struct {
	from, signer, to string
	kind             string // transfer | nameupd
	nonce            uint64
}

type ldgCrafted struct {
	what       string
	blk        *types.Block
	mustReject bool   // the block carries a transaction the specification rejects, or the producing path charged the wrong account
	why        string // ... and why
	full       bool   // the producing executor took every transaction
}

// ---- watchdog

var (
	ldgProgress atomic.Int64
	ldgPhase    atomic.Value
)

// ldgTick records that the harness got somewhere (and where).
func ldgTick(phase string) {
	ldgPhase.Store(phase)
	ldgProgress.Add(1)
}

// ldgWatchdog ends the process when the harness made no step for minutes: the results reached so far are written
// first (a violation found before the node under test blocked keeps its verdict; without one the check reports an
// infrastructure failure, with the phase the run was stuck in).
func ldgWatchdog(stop chan struct{}, res *verifkit.Result, trace *bytes.Buffer) {
	limit := 6 * time.Minute
	last, since := int64(-1), time.Now()
	for {
		select {
		case <-stop:
			return
		case <-time.After(5 * time.Second):
		}
		if cur := ldgProgress.Load(); cur != last {
			last, since = cur, time.Now()
			continue
		}
		if time.Since(since) < limit {
			continue
		}
		phase, _ := ldgPhase.Load().(string)
		res.Note("WATCHDOG: no step for %s, stuck in: %s", limit, phase)
		fmt.Printf("WATCHDOG: the ledger harness made no step for %s; stuck in: %s\n", limit, phase)
		if tp := os.Getenv("VERIF_TRACE"); tp != "" {
			_ = os.WriteFile(tp, trace.Bytes(), 0o644)
		}
		_ = res.Write()
		os.Exit(3)
	}
}

// nsCount counts an evaluation (and shows it when debugging).
func nsCount(res *verifkit.Result) func(string) {
	return func(k string) {
		res.Count(k)
		if os.Getenv("VERIF_DEBUG") != "" {
			fmt.Println("DEBUG-NS", k)
		}
	}
}

func ldgUserNames() []string { return []string{"u1", "u2", "u3"} }

// craft builds one block on the current best block of the producer node from explicit transactions and decides, from
// the COMMITTED name mapping and the committed nonces alone (MustReject of Ledger.tla), whether a validator may connect it.
func (w *ldgWorld) craft(ts int64, what string, specs []ldgCraftTx) *ldgCrafted {
	n := w.n
	blockNo := n.Best().BlockNo() + 1
	var txs []*types.Tx
	next := map[string]uint64{}
	rightful := map[string]uint64{} // user -> number of transactions of the block that are executed for it
	why := ""
	for _, s := range specs {
		if s.from != ldgNameID && w.users[s.from] == nil || w.users[s.signer] == nil || w.users[s.to] == nil {
			return nil
		}
		txs = append(txs, w.concretise(ldgTemplate{Tid: "craft", Kind: s.kind, From: s.from, Signer: s.signer, Chain: "this", To: s.to, Amt: 1}, s.nonce, blockNo))
		exe, own := s.from, s.from
		if s.from == ldgNameID {
			exe, own = w.nameDest, w.nameOwner
		}
		switch {
		case own == "" || exe == "":
			why = "a name-sender transaction although the name has no registered owner"
		case s.signer != own && s.from == ldgNameID:
			why = fmt.Sprintf("a transaction with sender account %s signed by %s, not by the owner registered at the start of the block (%s)", ldgName, s.signer, own)
		case s.signer != own:
			why = "a transaction signed by another account's key"
		default:
			cur, ok := next[exe]
			if !ok {
				cur = w.nonceOf(exe)
			}
			if s.nonce != cur+1 {
				if why == "" {
					why = fmt.Sprintf("a transaction that is to be executed for %s (the account its sender stands for at the start of the block) with nonce %d, whose next nonce is %d", exe, s.nonce, cur+1)
				}
				continue
			}
			next[exe] = s.nonce
			rightful[exe]++
		}
	}
	blk, bs, err := n.Produce(ts, txs, w.bp, 1)
	if err != nil || blk == nil {
		return nil
	}
	c := &ldgCrafted{what: what, blk: blk, full: len(blk.GetBody().GetTxs()) == len(txs), why: why}
	if c.full {
		// whom did the producing path charge?  (a validator that accepts the block arrives at the same state root)
		for _, u := range ldgUserNames() {
			st, err := bs.GetAccountState(types.ToAccountID(w.users[u].Addr))
			got := uint64(0)
			if err == nil && st != nil {
				got = st.Nonce
			}
			if got != w.nonceOf(u)+rightful[u] && c.why == "" {
				c.why = fmt.Sprintf("transactions that advance the nonce of %s from %d to %d where the transactions it authorised account for %d", u, w.nonceOf(u), got, rightful[u])
			}
		}
	} else {
		// put the transactions back that the producing executor left out (the header's state root is then the one without them)
		blk.Body.Txs = txs
		blk.Header.TxsRootHash = types.CalculateTxsRootHash(txs)
		if c.why == "" {
			c.why = "a transaction the producing executor refused (stale roots)"
		}
	}
	c.mustReject = c.why != ""
	blk.Hash = nil
	_ = blk.Sign(w.bp.Priv)
	blk.Hash = nil
	blk.BlockHash()
	return c
}

// craftNameBlocks: the name-sender blocks for the validator phase, all built on the producer's final best block.
// O owns the name in the committed state; X and Y are the other users; P is the owner before the last handover.
func (w *ldgWorld) craftNameBlocks(ts int64) []*ldgCrafted {
	O := w.nameOwner
	if O == "" || O != w.nameDest {
		return nil
	}
	var others []string
	for _, u := range ldgUserNames() {
		if u != O {
			others = append(others, u)
		}
	}
	nO := w.nonceOf(O)
	var out []*ldgCrafted
	add := func(what string, specs ...ldgCraftTx) {
		ldgTick("crafting " + what)
		if c := w.craft(ts+int64(len(out)), what, specs); c != nil {
			out = append(out, c)
		}
	}
	for _, X := range others {
		nX := w.nonceOf(X)
		hand := ldgCraftTx{from: O, signer: O, to: X, kind: "nameupd", nonce: nO + 1}
		// the name is handed over and, in the same block, used as sender
		add(fmt.Sprintf("[handover %s->%s; from name, signed by %s (previous owner in the block, owner at block start), next nonce of %s]", O, X, O, X),
			hand, ldgCraftTx{from: ldgNameID, signer: O, to: X, kind: "transfer", nonce: nX + 1})
		add(fmt.Sprintf("[handover %s->%s; from name, signed by %s (the new holder), next nonce of %s]", O, X, X, X),
			hand, ldgCraftTx{from: ldgNameID, signer: X, to: O, kind: "transfer", nonce: nX + 1})
		add(fmt.Sprintf("[handover %s->%s; from name, signed by %s (the new holder), next nonce of %s]", O, X, X, O),
			hand, ldgCraftTx{from: ldgNameID, signer: X, to: O, kind: "transfer", nonce: nO + 2})
		add(fmt.Sprintf("[handover %s->%s; from name, signed by %s (owner at block start), next nonce of %s]", O, X, O, O),
			hand, ldgCraftTx{from: ldgNameID, signer: O, to: X, kind: "transfer", nonce: nO + 2})
		// no handover in the block: a stranger (or the previous owner, after a committed handover) signs for the name
		rel := "a stranger"
		if X == w.namePrev {
			rel = "the previous owner, handover committed by an earlier block"
		}
		add(fmt.Sprintf("[from name, signed by %s (%s), next nonce of %s]", X, rel, O), ldgCraftTx{from: ldgNameID, signer: X, to: X, kind: "transfer", nonce: nO + 1})
		add(fmt.Sprintf("[from name, signed by %s (%s), next nonce of %s]", X, rel, X), ldgCraftTx{from: ldgNameID, signer: X, to: X, kind: "transfer", nonce: nX + 1})
		add(fmt.Sprintf("[plain transfer of %s; from name, signed by %s (%s), next nonce of %s]", O, X, rel, O),
			ldgCraftTx{from: O, signer: O, to: X, kind: "transfer", nonce: nO + 1}, ldgCraftTx{from: ldgNameID, signer: X, to: X, kind: "transfer", nonce: nO + 2})
	}
	// the rightful use
	add(fmt.Sprintf("[from name, signed by %s (the owner), next nonce of %s]", O, O), ldgCraftTx{from: ldgNameID, signer: O, to: others[0], kind: "transfer", nonce: nO + 1})
	return out
}

// deliverCrafted hands the crafted blocks to the validator v (whose best block is their parent).
func (w *ldgWorld) deliverCrafted(v *Node, crafted []*ldgCrafted, count func(string), voting bool, violate func(map[string]interface{}, string, ...interface{})) {
	for i, c := range crafted {
		ldgTick(fmt.Sprintf("validator, crafted name-sender block %d %s", i, c.what))
		if !c.mustReject {
			// a block the specification allows: only counted (verify-only, the validator's chain does not move)
			err := v.CS.VerifVerifyBlock(CloneBlock(c.blk))
			_ = v.CS.SDB().SetRoot(v.Best().GetHeader().GetBlocksRootHash())
			if voting {
				w.reloadVPR(v)
			}
			v.Quiesce()
			count(fmt.Sprintf("crafted-allowed|%s|accepted-%v|%s", w.regime.Name, err == nil, c.what))
			continue
		}
		before := fmt.Sprint(v.DumpState(v.CS.SDB().GetRoot()))
		bestBefore := v.Best().ID()
		err := v.Deliver(c.blk)
		after := fmt.Sprint(v.DumpState(v.CS.SDB().GetRoot()))
		count(fmt.Sprintf("crafted-forbidden|%s|full-%v|%s|%v", w.regime.Name, c.full, c.what, err))
		if err == nil || v.Best().ID() != bestBefore || before != after {
			violate(ldgSig("unauthorised-tx-executed", map[string]interface{}{"path": "validator-name-sender"}),
				"a validator connects the crafted block %s (%d txs), which carries %s (err=%v, best %s -> %s; owner of %s at the start of the block: %s)",
				c.what, len(c.blk.GetBody().GetTxs()), c.why, err, bestBefore, v.Best().ID(), ldgName, w.nameOwner)
			return
		}
	}
}

// poolHit: the node's own pool holds a name-sender transaction T signed by O that was admitted while O owned the name
// (as a future-nonce transaction of O); then a block hands the name over to X; then a block carrying T, with T's nonce
// being the next nonce of X, is delivered to the node as a block from the network.  The block signature verifier asks
// the pool first and skips what it finds there.  O is not the registered owner of the name in the state that block
// starts from: T must not take effect.  Runs on the producer node (the only one with a real pool), as the last thing
// before it is stopped; its blocks are not part of the chain the validators replay.
func (w *ldgWorld) poolHit(ts int64, count func(string), violate func(map[string]interface{}, string, ...interface{})) {
	n := w.n
	O := w.nameOwner
	if n.Pool == nil || O == "" || O != w.nameDest {
		return
	}
	var others []string
	for _, u := range ldgUserNames() {
		if u != O {
			others = append(others, u)
		}
	}
	sort.Slice(others, func(i, j int) bool { return w.nonceOf(others[i]) > w.nonceOf(others[j]) }) // the one that needs the fewest filler transactions
	X, Y := others[0], others[1]
	nO, nX := w.nonceOf(O), w.nonceOf(X)
	kmin := uint64(0)
	if nX < nO+1 {
		kmin = nO + 1 - nX
	}
	if kmin > 4 {
		return
	}
	ldgTick("pool-hit scenario")
	best := n.Best()
	// T's nonce: the next nonce of X after the handover block (which carries k transfers of X); for O it is a future nonce
	// now and at least the next one then.  (O may have left-overs in the pool: a nonce that is taken there is skipped.)
	var T *types.Tx
	var k, tn uint64
	for k = kmin; k < kmin+5 && T == nil; k++ {
		tn = nX + k + 1
		cand := w.concretise(ldgTemplate{Tid: "poolhit", Kind: "transfer", From: ldgNameID, Signer: O, Chain: "this", To: Y, Amt: 1}, tn, best.BlockNo()+2)
		r, err := n.Hub.RequestFuture(message.MemPoolSvc, &message.MemPoolPut{Tx: cand}, 5*time.Second, "verif").Result()
		if err != nil {
			return
		}
		if rsp, _ := r.(*message.MemPoolPutRsp); rsp != nil && rsp.Err == nil {
			T = cand
			break
		} else if rsp != nil {
			count(fmt.Sprintf("poolhit|%s|not-admitted|%v", w.regime.Name, rsp.Err))
		}
	}
	if T == nil {
		return
	}
	// the handover block (plus transfers of X that bring its nonce up to T's)
	htxs := []*types.Tx{w.concretise(ldgTemplate{Tid: "poolhit", Kind: "nameupd", From: O, Signer: O, Chain: "this", To: X}, nO+1, best.BlockNo()+1)}
	for i := uint64(1); i <= k; i++ {
		htxs = append(htxs, w.concretise(ldgTemplate{Tid: "poolhit", Kind: "transfer", From: X, Signer: X, Chain: "this", To: Y, Amt: 1}, nX+i, best.BlockNo()+1))
	}
	hb, hbs, err := n.Produce(ts, htxs, w.bp, 1)
	if err != nil || len(hb.GetBody().GetTxs()) != len(htxs) {
		count(fmt.Sprintf("poolhit|%s|no-handover-block", w.regime.Name))
		return
	}
	if err := n.Connect(hb, hbs); err != nil || n.Best().ID() != hb.ID() {
		count(fmt.Sprintf("poolhit|%s|handover-block-not-connected", w.regime.Name))
		return
	}
	if w.regime.Voting {
		w.reloadVPR(n)
	}
	if w.nonceOf(X) != tn-1 {
		return
	}
	// the block carrying T: the producing executor (which checks no signatures) executes T for X, the holder of the name now
	kb, kbs, err := n.Produce(ts+1000000000, []*types.Tx{T}, w.bp, 1)
	if err != nil || len(kb.GetBody().GetTxs()) != 1 {
		count(fmt.Sprintf("poolhit|%s|producer-refuses", w.regime.Name))
		return
	}
	charged := ""
	for _, u := range ldgUserNames() {
		if st, err := kbs.GetAccountState(types.ToAccountID(w.users[u].Addr)); err == nil && st != nil && st.Nonce != w.nonceOf(u) {
			charged += u
		}
	}
	if w.regime.Voting {
		w.reloadVPR(n)
	}
	before := fmt.Sprint(n.DumpState(n.CS.SDB().GetRoot()))
	bestBefore := n.Best().ID()
	inPool := false
	if r, err := n.Hub.RequestFuture(message.MemPoolSvc, &message.MemPoolExist{Hash: T.Hash}, 5*time.Second, "verif").Result(); err == nil {
		if rsp, _ := r.(*message.MemPoolExistRsp); rsp != nil && rsp.Tx != nil {
			inPool = true
		}
	}
	ldgTick("pool-hit scenario: delivering the block")
	err = n.Deliver(kb)
	after := fmt.Sprint(n.DumpState(n.CS.SDB().GetRoot()))
	count(fmt.Sprintf("poolhit|%s|delivered|in-pool-%v|connected-%v", w.regime.Name, inPool, err == nil && n.Best().ID() == kb.ID()))
	if err == nil || n.Best().ID() != bestBefore || before != after {
		violate(ldgSig("unauthorised-tx-executed", map[string]interface{}{"path": "validator-pool-hit", "why": "name sender signed by the previous owner of the name"}),
			"a node connects a block whose only transaction %s has sender account %s and is signed by %s, the PREVIOUS owner: the name was handed over to %s by the parent block; "+
				"the transaction (nonce %d) was in the node's pool since before the handover (in pool at delivery: %v) and is executed for %s (err=%v, best %s -> %s)",
			hex.EncodeToString(T.Hash)[:12], ldgName, O, X, tn, inPool, charged, err, bestBefore, n.Best().ID())
	}
}

func (w *ldgWorld) reloadVPR(n *Node) {
	_ = dpos.InitVPR(n.CS.SDB().OpenNewStateDB(n.Best().GetHeader().GetBlocksRootHash()))
}
