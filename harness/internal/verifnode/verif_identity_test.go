//go:build verif

package verifnode

// C18(c) at the chain-service boundary: a block is stored and referenced only under the digest of its own
// header; a forged block that announces a genuine block's identifier must not poison what the node accepts later.
// Scenarios: a linear chain and a fork (tree T0/T1 of ChainDB.tla, all blocks valid); before the genuine block x
// arrives, a forged copy of x (identifier field kept, one header/body field altered) is delivered.  Oracle: the
// final chain state equals the one of a run that never saw the forgery, and no stored block's header digest
// differs from the identifier it is stored under.

import (
	"bytes"
	"fmt"
	"os"
	"testing"

	"github.com/aergoio/aergo-lib/db"
	"github.com/aergoio/aergo/v2/internal/verifkit"
	"github.com/aergoio/aergo/v2/types"
)

type idInput struct {
	cdbInput
	Orders [][]string `json:"orders"` // arrival orders (block names)
}

func forgeBlock(b *types.Block, how string) *types.Block {
	f := CloneBlock(b) // keeps the announced identifier (Hash field)
	switch how {
	case "txroot":
		f.Header.TxsRootHash = bytes.Repeat([]byte{0x11}, 32)
	case "stateroot":
		f.Header.BlocksRootHash = bytes.Repeat([]byte{0x22}, 32)
	case "timestamp":
		f.Header.Timestamp += 12345
	case "body":
		f.Body.Txs = nil
	case "coinbase":
		f.Header.CoinbaseAccount = bytes.Repeat([]byte{0x33}, 33)
	}
	return f
}

func headerDigest(b *types.Block) []byte {
	c := CloneBlock(b)
	c.Hash = nil
	return c.BlockHash()
}

func TestVerifBlockIdentity(t *testing.T) {
	if !verifkit.Enabled() {
		t.Skip("run through bin/vcheck")
	}
	var in idInput
	if err := verifkit.ReadInput(&in); err != nil {
		t.Fatal(err)
	}
	res := verifkit.NewResult()
	defer func() {
		if err := res.Write(); err != nil {
			t.Fatal(err)
		}
	}()
	shard, nshard := 0, 1
	if s := os.Getenv("VERIF_SHARD"); s != "" {
		fmt.Sscanf(s, "%d/%d", &shard, &nshard)
	}
	db.VerifReset()
	db.VerifSetRecording(false)
	valid := map[string]bool{}
	for _, b := range in.Tree.Blocks {
		valid[b] = true
	}
	u, err := buildUniverse(&in.cdbInput, valid, verifkit.Seed(), 0)
	if err != nil {
		t.Fatal(err)
	}
	run := func(order []string, forgeAt int, how string) (string, []string, error) {
		o := u.opt
		o.Dir = freshDir("id")
		o.VerifySig = true // like every real consensus implementation: the block signature covers the header
		n, err := Start(o)
		if err != nil {
			return "", nil, err
		}
		defer n.Stop()
		var problems []string
		for i, name := range order {
			if i == forgeAt {
				ferr := n.Deliver(forgeBlock(u.blocks[name], how))
				if ferr != nil && len(ferr.Error()) > 5 && ferr.Error()[:5] == "PANIC" {
					problems = append(problems, ferr.Error())
				}
			}
			_ = n.Deliver(u.blocks[name])
		}
		// nothing is stored under an identifier that is not the digest of its own header
		for _, name := range in.Tree.Blocks {
			id := u.blocks[name].BlockHash()
			if sb, err := n.CS.VerifGetBlock(id); err == nil {
				if !bytes.Equal(headerDigest(sb), id) {
					problems = append(problems, fmt.Sprintf("block stored under the identifier of %s has header digest %x", name, headerDigest(sb)[:6]))
				}
			}
		}
		fp, err := finalFingerprint(n, u)
		return fp, problems, err
	}
	kinds := []string{"txroot", "stateroot", "timestamp", "body", "coinbase"}
	ci := 0
	for oi, order := range in.Orders {
		want, _, err := run(order, -1, "")
		if err != nil {
			t.Fatal(err)
		}
		for at := range order {
			for _, how := range kinds {
				ci++
				if ci%nshard != shard {
					continue
				}
				cs := map[string]interface{}{"order": order, "forged": order[at], "how": how}
				res.Count(fmt.Sprintf("%d|%d|%s", oi, at, how))
				if ci < 4 {
					res.Sample(cs)
				}
				got, problems, err := run(order, at, how)
				if err != nil {
					t.Fatal(err)
				}
				if len(problems) > 0 {
					res.Violate(map[string]interface{}{"kind": "stored-under-foreign-id", "how": how}, cs, "forged copy of %s (%s altered, identifier kept) delivered before the genuine block in %v: %v", order[at], how, order, problems)
				} else if got != want {
					res.Violate(map[string]interface{}{"kind": "forged-block-poisons-genuine", "how": how}, cs,
						"a forged copy of %s (%s altered, announced identifier kept) delivered before the genuine block changes what the node ends up with for arrivals %v\n got %.300s\nwant %.300s", order[at], how, order, got, want)
				}
				if res.NumViolations() >= 6 {
					return
				}
			}
		}
	}
}
