//go:build verif

package verifnode

// BpSnapshots, end-to-end confirmation of finding BPS-F1 (docs/notes/BpSnapshots.md) on a REAL node: real
// chain.ChainService (block execution, reorganisation, InitSystemParams), real DPoS consensus object (dpos.VerifNew:
// Status, bp.Snapshots, bp.Cluster), real staking / v1voteDAO transactions that change BPCOUNT from 2 to 1.
//
//	X: the reference node - chain B (blocks 1..300, no BPCOUNT vote after the common prefix) - list at block 300
//	Z: chain C = common prefix 1..100, BPCOUNT voted to 1 in block 250, up to 300: list at 300 while running, then
//	   the same node RESTARTED on the same stores: list at 300 again                       (variant 1: restart)
//	Y: common prefix, then branch A (BPCOUNT voted to 1 in block 101) up to 205, then chain B arrives (206 blocks):
//	   reorganisation across the snapshot block 200, then B up to 300: list at 300          (variant 2: reorganisation)
//
// Not part of the routine check (run by hand: see the notes); it reports through verifkit like the other harnesses.

import (
	"fmt"
	"math/big"
	"strings"
	"testing"

	"github.com/aergoio/aergo-lib/db"
	"github.com/aergoio/aergo/v2/consensus/impl/dpos"
	"github.com/aergoio/aergo/v2/internal/verifkit"
	"github.com/aergoio/aergo/v2/types"
)

func bpsTemplate(seed int64) (*dpTemplate, *Account, error) {
	const n = 2
	t := &dpTemplate{images: map[string]map[string][]byte{}}
	keys := make([]*BPKey, n)
	var bps []string
	for i := 0; i < n; i++ {
		keys[i] = NewBPKey(fmt.Sprintf("bpsnap-bp%d", i), seed)
		bps = append(bps, types.IDB58Encode(keys[i].ID))
	}
	holder := NewAccount("bpsnap-holder", seed)
	t.opt = Options{Seed: seed, Public: false, Balances: map[string]string{holder.B58(): "500000000000000000000000000"}, BPs: bps, Timestamp: dpGenesis}
	o := t.opt
	o.Dir = freshDir("bpsnap-template")
	nd, err := Start(o)
	if err != nil {
		return nil, nil, err
	}
	if t.genesis, err = nd.CS.VerifGetBlockByNo(0); err != nil {
		return nil, nil, err
	}
	order := nd.CS.GetGenesisInfo().BPs
	t.cidHash = nd.ChainIDHash(1)
	nd.Stop()
	for _, id := range order {
		for _, k := range keys {
			if types.IDB58Encode(k.ID) == id {
				t.keys = append(t.keys, k)
			}
		}
	}
	if len(t.keys) != n {
		return nil, nil, fmt.Errorf("stored genesis BP list %v does not match the producer keys", order)
	}
	for _, d := range db.VerifStoreDirs() {
		if strings.HasPrefix(d, o.Dir+"/") || d == o.Dir {
			t.images[d[len(o.Dir):]] = db.VerifDump(d)
		}
	}
	return t, holder, nil
}

func TestVerifBpSnapE2E(t *testing.T) {
	if !verifkit.Enabled() {
		t.Skip("not started by bin/vcheck")
	}
	res := verifkit.NewResult()
	defer func() {
		if err := res.Write(); err != nil {
			t.Fatal(err)
		}
	}()
	db.VerifReset()
	tpl, holder, err := bpsTemplate(verifkit.Seed())
	if err != nil {
		t.Fatal(err)
	}
	w := &dpWorld{n: 2, obs: map[int]*BPKey{}, byHash: map[string]int{}, idx: map[string]int{}, kind: map[int]string{}}
	w.tpl, w.opt, w.keys = tpl, tpl.opt, tpl.keys
	sys := []byte(types.AergoSystem)
	stake := func(nonce uint64) *types.Tx {
		amt := new(big.Int).Mul(big.NewInt(20000), new(big.Int).Exp(big.NewInt(10), big.NewInt(18), nil))
		return NewTx(holder, holder, sys, nonce, amt, types.TxType_GOVERNANCE, []byte(`{"Name":"v1stake"}`), tpl.cidHash, 0)
	}
	vote := func(nonce uint64) *types.Tx {
		return NewTx(holder, holder, sys, nonce, new(big.Int), types.TxType_GOVERNANCE, []byte(`{"Name":"v1voteDAO","Args":["BPCOUNT","1"]}`), tpl.cidHash, 0)
	}
	// produce block no on the node's best block (producers alternate, each in a slot it owns)
	produce := func(n *Node, txs []*types.Tx) (*types.Block, error) {
		k := int(n.Best().BlockNo()) + 1
		bp := k % 2
		blk, bs, err := n.Produce(dpTs(2, k, bp), txs, w.keys[bp], 0)
		if err != nil {
			return nil, err
		}
		if len(txs) != len(blk.GetBody().GetTxs()) {
			return nil, fmt.Errorf("block %d: %d of %d transactions were accepted into the block", k, len(blk.GetBody().GetTxs()), len(txs))
		}
		if err := n.Connect(blk, bs); err != nil {
			return nil, fmt.Errorf("connect block %d: %v", k, err)
		}
		return blk, nil
	}
	list := func(dp *dpos.DPoS) []string { return dp.ConsensusInfo().Bps }
	fail := func(format string, a ...interface{}) {
		res.Note("E2E INCOMPLETE: "+format, a...)
		t.Logf("E2E INCOMPLETE: "+format, a...)
	}

	// ---- X: common prefix 1..100 (stake in block 1), then chain B up to 300
	nx, dpx, err := dpStart(w, freshDir("bpsnap-x"), 0)
	if err != nil {
		t.Fatal(err)
	}
	var chainB []*types.Block
	for k := 1; k <= 300; k++ {
		var txs []*types.Tx
		if k == 1 {
			txs = []*types.Tx{stake(1)}
		}
		blk, err := produce(nx, txs)
		if err != nil {
			fail("X: %v", err)
			return
		}
		chainB = append(chainB, blk)
	}
	ref := list(dpx)
	res.Note("X (reference, chain B, no BPCOUNT change): list at block %d = %v", nx.Best().BlockNo(), ref)
	nx.Stop()
	res.Count("e2e-x")

	// ---- Z: variant 1 (restart)
	dirZ := freshDir("bpsnap-z")
	nz, dpz, err := dpStart(w, dirZ, 0)
	if err != nil {
		t.Fatal(err)
	}
	for k := 1; k <= 100; k++ {
		if err := nz.Deliver(CloneBlock(chainB[k-1])); err != nil {
			fail("Z: deliver B%d: %v", k, err)
			return
		}
	}
	for k := 101; k <= 300; k++ {
		var txs []*types.Tx
		if k == 250 {
			txs = []*types.Tx{vote(2)}
		}
		if _, err := produce(nz, txs); err != nil {
			fail("Z: %v", err)
			return
		}
	}
	running := list(dpz)
	res.Note("Z (BPCOUNT voted to 1 in block 250), running node: list at block %d = %v", nz.Best().BlockNo(), running)
	nz.Stop()
	nz2, dpz2, err := dpStart(w, dirZ, 0)
	if err != nil {
		t.Fatal(err)
	}
	restarted := list(dpz2)
	res.Note("Z restarted on the same stores: best block %d, list = %v", nz2.Best().BlockNo(), restarted)
	nz2.Stop()
	res.Count("e2e-z")
	if strings.Join(running, ",") != strings.Join(restarted, ",") {
		res.Violate(map[string]interface{}{"kind": "list-depends-on-history", "cause": "bpcount", "via": "e2e-restart"},
			map[string]interface{}{"scenario": "2 genesis BPs; stake in block 1; v1voteDAO BPCOUNT=1 in block 250; blocks up to 300; restart", "running": running, "restarted": restarted},
			"real node: the list in force at block 300 is %v while running and %v after a restart on the same chain", running, restarted)
	}

	// ---- Y: variant 2 (reorganisation across the snapshot block 200)
	ny, dpy, err := dpStart(w, freshDir("bpsnap-y"), 0)
	if err != nil {
		t.Fatal(err)
	}
	for k := 1; k <= 100; k++ {
		if err := ny.Deliver(CloneBlock(chainB[k-1])); err != nil {
			fail("Y: deliver B%d: %v", k, err)
			return
		}
	}
	for k := 101; k <= 205; k++ {
		var txs []*types.Tx
		if k == 101 {
			txs = []*types.Tx{vote(2)}
		}
		if _, err := produce(ny, txs); err != nil {
			fail("Y: %v", err)
			return
		}
	}
	res.Note("Y on branch A (BPCOUNT voted to 1 in block 101): best %d, list = %v", ny.Best().BlockNo(), list(dpy))
	for k := 101; k <= 300; k++ {
		if err := ny.Deliver(CloneBlock(chainB[k-1])); err != nil {
			fail("Y: deliver B%d: %v", k, err)
			return
		}
	}
	if ny.Best().ID() != chainB[299].ID() {
		fail("Y did not adopt chain B: best is %d %s", ny.Best().BlockNo(), ny.Best().ID())
		return
	}
	after := list(dpy)
	res.Note("Y after the reorganisation to chain B: best %d, list = %v", ny.Best().BlockNo(), after)
	ny.Stop()
	res.Count("e2e-y")
	if strings.Join(after, ",") != strings.Join(ref, ",") {
		res.Violate(map[string]interface{}{"kind": "list-depends-on-history", "cause": "bpcount", "via": "e2e-reorg"},
			map[string]interface{}{"scenario": "2 genesis BPs; common prefix 1..100; branch A votes BPCOUNT=1 in block 101, grows to 205; chain B (no vote) arrives with 300 blocks", "reference": ref, "reorganised": after},
			"real nodes on the same main chain B: the node that only saw B has %v at block 300, the node that reorganised from branch A has %v", ref, after)
	}
}
