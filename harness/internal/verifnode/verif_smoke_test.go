//go:build verif

package verifnode

import (
	"math/big"
	"os"
	"testing"

	"github.com/aergoio/aergo-lib/db"
	"github.com/aergoio/aergo/v2/types"
)

func TestMain(m *testing.M) {
	code := m.Run()
	Cleanup()
	os.Exit(code)
}

func TestVerifSmoke(t *testing.T) {
	if os.Getenv("VERIF_SMOKE") == "" {
		t.Skip()
	}
	db.VerifReset()
	a1, a2 := NewAccount("a1", 1), NewAccount("a2", 1)
	bp := NewBPKey("bp0", 1)
	o := Options{Dir: ScratchBase() + "/smoke", Seed: 1, Public: false, Coinbase: nil,
		Balances: map[string]string{a1.B58(): "1000000000000000000000", a2.B58(): "5"}, BPs: []string{types.IDB58Encode(bp.ID)}, Timestamp: 1600000000000000000}
	n, err := Start(o)
	if err != nil {
		t.Fatal(err)
	}
	defer n.Stop()
	var blocks []*types.Block
	ts := int64(1600000001000000000)
	for i := 1; i <= 3; i++ {
		tx := NewTx(a1, a1, a2.Addr, uint64(i), big.NewInt(7), types.TxType_TRANSFER, nil, n.ChainIDHash(types.BlockNo(i)), 0)
		blk, bs, err := n.Produce(ts, []*types.Tx{tx}, bp, 1)
		if err != nil {
			t.Fatal(err)
		}
		if err := n.Connect(blk, bs); err != nil {
			t.Fatal(err)
		}
		blocks = append(blocks, blk)
		ts += 1000000000
		t.Logf("block %d %s txs=%d", blk.BlockNo(), blk.ID(), len(blk.GetBody().GetTxs()))
	}
	p := n.Project(blocks)
	t.Logf("%+v", p)
	dump, sum, err := n.DumpState(n.Best().GetHeader().GetBlocksRootHash())
	t.Logf("sum=%s accounts=%d err=%v", sum, len(dump), err)
	t.Logf("journal units: %d", db.VerifJournalLen())
	// validator node
	o2 := o
	o2.Dir = ScratchBase() + "/smoke2"
	v, err := Start(o2)
	if err != nil {
		t.Fatal(err)
	}
	defer v.Stop()
	for _, b := range blocks {
		if err := v.Deliver(b); err != nil {
			t.Fatal(err)
		}
	}
	t.Logf("validator: %+v", v.Project(blocks))
}
