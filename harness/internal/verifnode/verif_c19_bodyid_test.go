//go:build verif

package verifnode

// C19, node level: the identifier of a block must commit to the exact ordered list of its
// transactions.  For blocks of 1..6 transactions produced by a real node the harness builds every copy whose body is
// pad-equivalent under the merkle padding rule (tail transactions repeated) or differs in another way (a transaction
// dropped, two swapped), keeps the header, and looks at what a second real node makes of it:
//   - a copy with a different body must not have the identifier of the genuine block AND pass the body commitment
//     check of the receiving node; if it does, two different bodies share one identifier;
//   - the consequence is observed too: the copy is delivered first, then the genuine block.

import (
	"bytes"
	"fmt"
	"math/big"
	"testing"

	"github.com/aergoio/aergo-lib/db"
	"github.com/aergoio/aergo/v2/internal/verifkit"
	"github.com/aergoio/aergo/v2/types"
)

func TestVerifC19BodyId(t *testing.T) {
	if !verifkit.Enabled() {
		t.Skip("run through bin/vcheck")
	}
	res := verifkit.NewResult()
	defer func() {
		if err := res.Write(); err != nil {
			t.Fatal(err)
		}
		if res.NumViolations() > 0 {
			t.Fail()
		}
	}()
	reported := map[string]int{}
	for ntx := 1; ntx <= 6; ntx++ {
		db.VerifReset()
		a1, a2 := NewAccount("a1", verifkit.Seed()), NewAccount("a2", verifkit.Seed())
		bp := NewBPKey("bp0", verifkit.Seed())
		o := Options{Dir: fmt.Sprintf("%s/c19p-%d", ScratchBase(), ntx), Seed: verifkit.Seed(), VerifySig: true,
			Balances: map[string]string{a1.B58(): "1000000000000000000000", a2.B58(): "5"}, BPs: []string{types.IDB58Encode(bp.ID)}, Timestamp: 1600000000000000000}
		p, err := Start(o)
		if err != nil {
			t.Fatal(err)
		}
		var txs []*types.Tx
		for i := 1; i <= ntx; i++ {
			txs = append(txs, NewTx(a1, a1, a2.Addr, uint64(i), big.NewInt(7), types.TxType_TRANSFER, nil, p.ChainIDHash(1), 0))
		}
		blk, bs, err := p.Produce(1600000001000000000, txs, bp, 1)
		if err != nil {
			t.Fatal(err)
		}
		if err := p.Connect(blk, bs); err != nil {
			t.Fatal(err)
		}
		body := blk.GetBody().GetTxs()
		if len(body) != ntx {
			t.Fatalf("produced block holds %d of %d transactions", len(body), ntx)
		}
		variants := map[string][]*types.Tx{}
		for k := 1; k <= 3 && k <= ntx; k++ { // the last k transactions once more
			variants[fmt.Sprintf("tail%d-repeated", k)] = append(append([]*types.Tx(nil), body...), body[ntx-k:]...)
		}
		variants["last-dropped"] = append([]*types.Tx(nil), body[:ntx-1]...)
		if ntx > 1 {
			sw := append([]*types.Tx(nil), body...)
			sw[0], sw[ntx-1] = sw[ntx-1], sw[0]
			variants["first-last-swapped"] = sw
		}
		for name, vtxs := range variants {
			forged := CloneBlock(blk)
			forged.Body.Txs = vtxs
			forged.Hash = nil
			sameID := bytes.Equal(forged.BlockHash(), blk.BlockHash())
			rootOK := bytes.Equal(types.CalculateTxsRootHash(vtxs), forged.GetHeader().GetTxsRootHash())
			res.Count(fmt.Sprintf("bodyid|%d|%s", ntx, name))
			if !(sameID && rootOK) {
				continue // the receiving node can tell the copy from the genuine block
			}
			// two different bodies, one identifier.  What does a node do with them?
			o2 := o
			o2.Dir = fmt.Sprintf("%s/c19v-%d-%s", ScratchBase(), ntx, name)
			v, err := Start(o2)
			if err != nil {
				t.Fatal(err)
			}
			e1 := v.Deliver(forged)
			cached := v.CS.VerifIsErrCached(blk.BlockHash())
			e2 := v.Deliver(blk)
			best := v.Best().BlockNo()
			v.Stop()
			pattern := "other"
			if len(vtxs) > ntx {
				pattern = "odd-tail-repeated"
			}
			consequence := "none" // the node told the copy from the genuine block without harm
			if e1 == nil {
				consequence = "forged-body-accepted"
			} else if e2 != nil || best != 1 {
				consequence = "genuine-block-refused"
			}
			if consequence != "none" {
				key := pattern + consequence
				reported[key]++
				if reported[key] <= 2 {
					res.Violate(map[string]interface{}{"kind": "root-not-binding", "root": "txs", "pattern": pattern, "level": "node", "consequence": consequence},
						map[string]interface{}{"transactions": ntx, "variant": name, "forged_body_len": len(vtxs), "block": blk.ID(),
							"forged_first": fmt.Sprint(e1), "cached_as_errored": cached, "genuine_next": fmt.Sprint(e2), "best_after": best},
						"a copy of block %s (%d txs) with body variant %s has the same identifier and passes the tx-root check; delivered first: %v (cached as errored: %v); genuine block next: %v, best block %d",
						blk.ID(), ntx, name, e1, cached, e2, best)
				}
			}
			res.Sample(map[string]interface{}{"transactions": ntx, "variant": name, "same_id": sameID, "forged_first": fmt.Sprint(e1), "genuine_next": fmt.Sprint(e2)})
		}
		p.Stop()
	}
}
