//go:build verif

package verifnode

// Conformance harness for spec/state/StateQuery.tla (C11, node level): the state queries of the chain service answer
// for the block whose state root was given.
//
// Every behaviour TLC generated (genesis, then per block one transaction of the behaviour's own sender: deploy of a
// contract whose constructor writes variables, a call that sets / overwrites / deletes / creates variables, or a
// plain transfer) gets its own sender account and its own contract on ONE real chain of this process: block i holds
// the i-th transaction of every behaviour, produced through the real block production path and connected by the real
// ChainService (contract execution through the VM stand-in: ops `set k v`, `del k`).  Then every query TLC
// enumerated for the behaviour is sent to the chain service through the component hub exactly as rpc/grpcserver.go
// does (*message.GetStateQuery for QueryContractState, *message.GetStateAndProof for GetStateAndProof; storage key =
// sha256("_sv_" + variable name) as aergocli / web3 derive it), with Root = the state root in the header of the
// requested block (or none), and the answer is checked the way a light client has to:
//   1. the (contract) account proof against the state root of the REQUESTED block,
//   2. every variable proof against the storage root INSIDE the proven account state,
//   3. inclusion and value = what the specification says the variable held at that block,
// with the verifier functions of pkg/trie and with the independent verifier of internal/verifproof.

import (
	"bytes"
	"encoding/hex"
	"fmt"
	"math/big"
	"os"
	"sort"
	"strings"
	"testing"
	"time"

	"github.com/aergoio/aergo-lib/db"
	"github.com/aergoio/aergo/v2/contract"
	"github.com/aergoio/aergo/v2/internal/common"
	"github.com/aergoio/aergo/v2/internal/enc/proto"
	"github.com/aergoio/aergo/v2/internal/verifkit"
	vp "github.com/aergoio/aergo/v2/internal/verifproof"
	"github.com/aergoio/aergo/v2/pkg/trie"
	"github.com/aergoio/aergo/v2/types"
	"github.com/aergoio/aergo/v2/types/message"
)

type sqAct struct {
	Name string            `json:"name"` // Idle | Deploy | Call
	Upd  map[string]string `json:"upd,omitempty"`
}

type sqBlockState struct {
	Ctr   bool              `json:"ctr"`
	Sv    map[string]string `json:"sv"`
	Nonce uint64            `json:"nonce"`
}

type sqVarAns struct {
	Incl bool   `json:"incl"`
	Val  string `json:"val"`
}

type sqQuery struct {
	Kind  string     `json:"kind"` // query | acct
	B     int        `json:"b"`    // 1-based index into the chain (1 = genesis), 0 = no root given
	Comp  bool       `json:"comp"`
	Ks    []string   `json:"ks,omitempty"`
	Who   string     `json:"who,omitempty"`
	Incl  bool       `json:"incl"` // expected inclusion of the (contract) account
	Vars  []sqVarAns `json:"vars,omitempty"`
	Nonce uint64     `json:"nonce,omitempty"`
}

type sqBehaviour struct {
	Trail   []sqAct        `json:"trail"`
	Chain   []sqBlockState `json:"chain"`
	Queries []sqQuery      `json:"queries"`
}

type sqInput struct {
	Blocks     int           `json:"blocks"`
	Behaviours []sqBehaviour `json:"behaviours"`
}

func sqVarName(v string) []byte    { return []byte("_sv_" + v) }                     // how the VM names a state variable
func sqStorageKey(v string) []byte { return common.Hasher(sqVarName(v)) }            // how aergocli / web3 derive the storage key
func sqValue(abs string) []byte    { return []byte("\"value-" + abs + "\"") }        // (variables hold JSON)
func sqValueWord(abs string) string { return string(sqValue(abs)) }

func sqOps(upd map[string]string) string {
	ks := make([]string, 0, len(upd))
	for k := range upd {
		ks = append(ks, k)
	}
	sort.Strings(ks)
	var ops []string
	for _, k := range ks {
		if upd[k] == "DEL" {
			ops = append(ops, fmt.Sprintf("del %s", sqVarName(k)))
		} else {
			ops = append(ops, fmt.Sprintf("set %s %s", sqVarName(k), sqValueWord(upd[k])))
		}
	}
	return strings.Join(ops, ";")
}

func sqTrailText(t []sqAct) string {
	var parts []string
	for _, a := range t {
		if a.Name == "Idle" {
			parts = append(parts, "Idle")
		} else {
			parts = append(parts, fmt.Sprintf("%s(%s)", a.Name, sqOps(a.Upd)))
		}
	}
	return strings.Join(parts, " | ")
}

// lcAccept: the light client's check of one Merkle proof (real verifier functions and the independent verifier)
func lcAccept(m *vp.Msg) (realOK, specOK bool) {
	func() {
		defer func() {
			if r := recover(); r != nil {
				realOK = false
			}
		}()
		vt := trie.NewTrie(m.Root, common.Hasher, nil)
		switch {
		case !m.Comp && m.Incl:
			realOK = vt.VerifyInclusion(m.Ap, m.Key, m.Val)
		case !m.Comp:
			realOK = vt.VerifyNonInclusion(m.Ap, m.Key, m.Pv, m.Pk)
		case m.Incl:
			realOK = vt.VerifyInclusionC(m.Bitmap, m.Key, m.Val, m.Ap, m.Height)
		default:
			realOK = vt.VerifyNonInclusionC(m.Ap, m.Height, m.Bitmap, m.Key, m.Pv, m.Pk)
		}
	}()
	return realOK, vp.SpecAccept(m)
}

func sqAccountMsg(root, addr []byte, comp bool, ap *types.AccountProof) (*vp.Msg, string) {
	id := types.ToAccountID(addr)
	m := &vp.Msg{Root: root, Key: id[:], Comp: comp, Incl: ap.Inclusion, Ap: ap.AuditPath, Bitmap: ap.Bitmap, Height: int(ap.Height)}
	if ap.Inclusion {
		if ap.State == nil {
			return nil, "inclusion without a state"
		}
		raw, err := proto.Encode(ap.State) // the light client hashes the returned state
		if err != nil {
			return nil, err.Error()
		}
		m.Val = common.Hasher(raw)
	} else {
		if ap.State != nil {
			return nil, "a state is returned for an absent account"
		}
		m.Pk, m.Pv = ap.ProofKey, ap.ProofVal
	}
	return m, ""
}

func sqVarMsg(root, key []byte, comp bool, v *types.ContractVarProof) *vp.Msg {
	m := &vp.Msg{Root: root, Key: key, Comp: comp, Incl: v.Inclusion, Ap: v.AuditPath, Bitmap: v.Bitmap, Height: int(v.Height)}
	if v.Inclusion {
		m.Val = common.Hasher(v.Value) // the light client hashes the returned value
	} else {
		m.Pk, m.Pv = v.ProofKey, v.ProofVal
	}
	return m
}

type sqWorld struct {
	n        *Node
	sender   *Account
	contract []byte
}

func TestVerifStateQuery(t *testing.T) {
	if !verifkit.Enabled() {
		t.Skip("run through bin/vcheck")
	}
	var in sqInput
	if err := verifkit.ReadInput(&in); err != nil {
		t.Fatal(err)
	}
	res := verifkit.NewResult()
	defer func() {
		if err := res.Write(); err != nil {
			t.Fatal(err)
		}
	}()
	shard, nshard := 0, 1
	if s := os.Getenv("VERIF_SHARD"); s != "" {
		fmt.Sscanf(s, "%d/%d", &shard, &nshard)
	}
	var mine []int
	for bi := range in.Behaviours {
		if bi%nshard == shard {
			mine = append(mine, bi)
		}
	}
	if len(mine) == 0 {
		return
	}
	seed := verifkit.Seed()
	db.VerifReset()
	db.VerifSetRecording(false)
	bp := NewBPKey("bp0", seed)
	sink := NewAccount("sink", seed)
	nobody := NewAccount("nobody", seed)
	worlds := map[int]*sqWorld{}
	bal := map[string]string{}
	for _, bi := range mine {
		w := &sqWorld{sender: NewAccount(fmt.Sprintf("sq-sender-%d", bi), seed)}
		worlds[bi] = w
		bal[w.sender.B58()] = "1000000000000000000000000"
	}
	n, err := Start(Options{Dir: freshDir("statequery"), Seed: seed, Public: false, Balances: bal, BPs: []string{types.IDB58Encode(bp.ID)},
		Timestamp: 1600000000000000000})
	if err != nil {
		t.Fatal(err)
	}
	defer n.Stop()
	for _, w := range worlds {
		w.n = n
	}

	// ---- the chain: block i carries the i-th transaction of every behaviour
	stateRoots := [][]byte{append([]byte(nil), n.Best().GetHeader().GetBlocksRootHash()...)} // [0] = genesis
	ts := int64(1600000001000000000)
	for blk := 1; blk <= in.Blocks; blk++ {
		var txs []*types.Tx
		cid := n.ChainIDHash(types.BlockNo(blk))
		for _, bi := range mine {
			beh, w := &in.Behaviours[bi], worlds[bi]
			if len(beh.Trail) != in.Blocks || len(beh.Chain) != in.Blocks+1 {
				t.Fatalf("behaviour %d: %d steps / %d block states for %d blocks", bi, len(beh.Trail), len(beh.Chain), in.Blocks)
			}
			a := beh.Trail[blk-1]
			nonce := uint64(blk) // one transaction of this sender per block
			switch a.Name {
			case "Idle":
				txs = append(txs, NewTx(w.sender, w.sender, sink.Addr, nonce, big.NewInt(1), types.TxType_TRANSFER, nil, cid, 0))
			case "Deploy":
				code := "nop"
				if len(a.Upd) > 0 {
					code += ";" + sqOps(a.Upd)
				}
				w.contract = contract.CreateContractID(w.sender.Addr, nonce)
				txs = append(txs, NewTx(w.sender, w.sender, nil, nonce, new(big.Int), types.TxType_DEPLOY, []byte(code), cid, 0))
			case "Call":
				txs = append(txs, NewTx(w.sender, w.sender, w.contract, nonce, new(big.Int), types.TxType_CALL, []byte(sqOps(a.Upd)), cid, 0))
			default:
				t.Fatalf("unknown step %q", a.Name)
			}
		}
		b, bs, err := n.Produce(ts, txs, bp, 1)
		if err != nil {
			t.Fatalf("block %d: production failed: %v", blk, err)
		}
		if len(b.GetBody().GetTxs()) != len(txs) {
			t.Fatalf("block %d: %d of %d transactions were included", blk, len(b.GetBody().GetTxs()), len(txs))
		}
		if err := n.Connect(b, bs); err != nil {
			t.Fatalf("block %d: not connected: %v", blk, err)
		}
		if n.Best().ID() != b.ID() {
			t.Fatalf("block %d is not the best block", blk)
		}
		for _, tx := range txs {
			r, err := n.CS.VerifGetReceipt(tx.GetHash())
			if err != nil || r == nil || (r.Status != "SUCCESS" && r.Status != "CREATED") {
				st := ""
				if r != nil {
					st = r.Status + " " + r.Ret
				}
				t.Fatalf("block %d: transaction %x (payload %q) did not succeed: %v %s", blk, tx.GetHash()[:6], tx.GetBody().GetPayload(), err, st)
			}
		}
		stateRoots = append(stateRoots, append([]byte(nil), b.GetHeader().GetBlocksRootHash()...))
		ts += 1000000000
	}
	latest := len(stateRoots) // 1-based index of the latest block in the specification's chain

	// ---- the queries, through the hub like rpc/grpcserver.go
	for _, bi := range mine {
		beh, w := &in.Behaviours[bi], worlds[bi]
		ctrAddr := w.contract
		if ctrAddr == nil { // never deployed: ask for the address a deployment would have had
			ctrAddr = contract.CreateContractID(w.sender.Addr, 1)
		}
		for qi := range beh.Queries {
			q := &beh.Queries[qi]
			B := q.B
			var rootArg []byte
			rootClass := "none"
			if B == 0 {
				B = latest
			} else {
				rootArg = stateRoots[B-1]
				rootClass = "older-block"
				if B == latest {
					rootClass = "latest-block"
				}
			}
			trusted := stateRoots[B-1] // what the light client trusts: the state root in the header of the requested block
			enc := vp.EncName(q.Comp)
			replay := map[string]interface{}{"level": "node-query", "behaviour": sqTrailText(beh.Trail), "chain": beh.Chain, "query": q, "seed": seed,
				"contract": hex.EncodeToString(ctrAddr), "state_roots": hexAll(stateRoots)}
			sig := func(kind string, extra ...string) map[string]interface{} {
				s := map[string]interface{}{"kind": kind, "level": "node-" + q.Kind, "root": rootClass, "enc": enc}
				for i := 0; i+1 < len(extra); i += 2 {
					s[extra[i]] = extra[i+1]
				}
				return s
			}
			where := fmt.Sprintf("behaviour [%s], block %d of %d (root argument: %s), %s", sqTrailText(beh.Trail), B-1, latest-1, rootClass, enc)
			res.Count(fmt.Sprintf("sq:%d:%d", bi, qi))

			if q.Kind == "acct" {
				addr := map[string][]byte{"contract": ctrAddr, "sender": w.sender.Addr, "nobody": nobody.Addr}[q.Who]
				r, err := n.Hub.RequestFuture(message.ChainSvc, &message.GetStateAndProof{Account: addr, Root: rootArg, Compressed: q.Comp}, 20*time.Second, "verif.statequery").Result()
				if err != nil {
					t.Fatalf("GetStateAndProof: no answer from the chain service: %v", err)
				}
				rsp, ok := r.(message.GetStateAndProofRsp)
				if !ok {
					t.Fatalf("GetStateAndProof: answer of type %T", r)
				}
				if rsp.Err != nil || rsp.StateProof == nil {
					res.Violate(sig("query-failed", "who", q.Who), replay, "GetStateAndProof(%s) fails: %v; %s", q.Who, rsp.Err, where)
					continue
				}
				checkAccount(res, sig, replay, where, "GetStateAndProof("+q.Who+")", rsp.StateProof, addr, trusted, q.Comp, q.Incl, q.Who == "sender", q.Nonce)
				continue
			}

			keys := make([][]byte, len(q.Ks))
			for i, v := range q.Ks {
				keys[i] = sqStorageKey(v)
			}
			r, err := n.Hub.RequestFuture(message.ChainSvc, &message.GetStateQuery{ContractAddress: ctrAddr, StorageKeys: keys, Root: rootArg, Compressed: q.Comp}, 20*time.Second, "verif.statequery").Result()
			if err != nil {
				t.Fatalf("GetStateQuery: no answer from the chain service: %v", err)
			}
			rsp, ok := r.(message.GetStateQueryRsp)
			if !ok {
				t.Fatalf("GetStateQuery: answer of type %T", r)
			}
			if rsp.Err != nil || rsp.Result == nil || rsp.Result.ContractProof == nil {
				res.Violate(sig("query-failed"), replay, "QueryContractState fails: %v; %s", rsp.Err, where)
				continue
			}
			cp := rsp.Result.ContractProof
			if !checkAccount(res, sig, replay, where, "QueryContractState: contract account", cp, ctrAddr, trusted, q.Comp, q.Incl, false, 0) {
				continue
			}
			if !q.Incl {
				if len(rsp.Result.VarProofs) != 0 {
					res.Violate(sig("var-proofs-for-absent-contract"), replay, "QueryContractState returns %d variable proofs although the contract does not exist at the requested block; %s", len(rsp.Result.VarProofs), where)
				}
				continue
			}
			if len(rsp.Result.VarProofs) != len(keys) {
				res.Violate(sig("var-proof-count"), replay, "QueryContractState returns %d variable proofs for %d storage keys; %s", len(rsp.Result.VarProofs), len(keys), where)
				continue
			}
			// the storage root the light client may trust: the one INSIDE the account state it has just verified
			sroot := common.Compactz(cp.State.StorageRoot)
			latestSt, _ := n.CS.SDB().OpenNewStateDB(stateRoots[latest-1]).GetAccountState(types.ToAccountID(ctrAddr))
			for i, v := range rsp.Result.VarProofs {
				name := q.Ks[i]
				exp := q.Vars[i]
				res.Count("")
				if !bytes.Equal(v.Key, keys[i]) {
					res.Violate(sig("var-proof-key"), replay, "QueryContractState: variable proof %d is for key %x, asked %x (%s); %s", i, v.Key, keys[i], name, where)
					continue
				}
				if v.Inclusion != exp.Incl || (exp.Incl && !bytes.Equal(v.Value, sqValue(exp.Val))) || (!v.Inclusion && len(v.Value) != 0) {
					// what the answer is about instead (diagnosis only)
					about := ""
					last := beh.Chain[len(beh.Chain)-1].Sv
					if lv, ok := last[name]; v.Inclusion == ok && (!ok || bytes.Equal(v.Value, sqValue(lv))) {
						about = "; that is the variable's state at the LATEST block"
					}
					res.Violate(sig("var-not-about-requested-block", "claim", claimClass(v.Inclusion, exp.Incl)), replay,
						"QueryContractState: variable %s is reported as incl=%v value %q; at the requested block it is present=%v value %q%s; %s",
						name, v.Inclusion, v.Value, exp.Incl, sqValueOrNone(exp), about, where)
					continue
				}
				m := sqVarMsg(sroot, keys[i], q.Comp, v)
				if len(sroot) == 0 {
					// a contract without storage: nothing to fold; absence is all that can be claimed
					if v.Inclusion || len(v.AuditPath) != 0 {
						res.Violate(sig("var-proof-rejected", "claim", m.Claim()), replay, "QueryContractState: variable %s: the proven account has no storage root but the answer carries incl=%v and %d siblings; %s", name, v.Inclusion, len(v.AuditPath), where)
					}
					continue
				}
				realOK, specOK := lcAccept(m)
				if !realOK || !specOK {
					elsewhere := ""
					if latestSt != nil {
						m2 := m.Clone()
						m2.Root = common.Compactz(latestSt.StorageRoot)
						if ok2, _ := lcAccept(m2); ok2 && !bytes.Equal(m2.Root, sroot) {
							elsewhere = "; it verifies against the contract's storage root at the LATEST block"
						}
					}
					res.Violate(sig("var-proof-rejected", "claim", m.Claim()), replay,
						"QueryContractState: the proof of %s of variable %s does not verify against the storage root %x inside the proven contract account (trie.Verify: %v, independent verifier: %v)%s; %s",
						m.Claim(), name, sroot, realOK, specOK, elsewhere, where)
				}
			}
		}
	}
	res.Sample(map[string]interface{}{"level": "node-query", "behaviour": sqTrailText(in.Behaviours[mine[0]].Trail), "queries": len(in.Behaviours[mine[0]].Queries), "blocks": in.Blocks})
}

func claimClass(got, want bool) string {
	switch {
	case got && !want:
		return "present-but-absent-at-block"
	case !got && want:
		return "absent-but-present-at-block"
	default:
		return "other-value"
	}
}

func sqValueOrNone(v sqVarAns) string {
	if !v.Incl {
		return ""
	}
	return string(sqValue(v.Val))
}

func hexAll(bs [][]byte) []string {
	out := make([]string, len(bs))
	for i, b := range bs {
		out[i] = hex.EncodeToString(b)
	}
	return out
}

// checkAccount: the light client's check of an account proof against the state root of the requested block
func checkAccount(res *verifkit.Result, sig func(string, ...string) map[string]interface{}, replay interface{}, where, what string,
	ap *types.AccountProof, addr, trusted []byte, comp, wantIncl, checkNonce bool, wantNonce uint64) bool {
	if !bytes.Equal(ap.Key, addr) {
		res.Violate(sig("account-proof-key"), replay, "%s: the answer is for address %x, asked %x; %s", what, ap.Key, addr, where)
		return false
	}
	m, bad := sqAccountMsg(trusted, addr, comp, ap)
	if m == nil {
		res.Violate(sig("account-proof-malformed"), replay, "%s: %s; %s", what, bad, where)
		return false
	}
	if ap.Inclusion != wantIncl {
		res.Violate(sig("account-not-about-requested-block", "claim", claimClass(ap.Inclusion, wantIncl)), replay,
			"%s: the account is reported as incl=%v; at the requested block it is present=%v; %s", what, ap.Inclusion, wantIncl, where)
		return false
	}
	if realOK, specOK := lcAccept(m); !realOK || !specOK {
		res.Violate(sig("account-proof-rejected", "claim", m.Claim()), replay,
			"%s: the proof of %s does not verify against the state root %x of the requested block (trie.Verify: %v, independent verifier: %v); %s", what, m.Claim(), trusted, realOK, specOK, where)
		return false
	}
	if checkNonce && ap.State.GetNonce() != wantNonce {
		res.Violate(sig("account-not-about-requested-block", "claim", "other-value"), replay,
			"%s: the proven state has nonce %d; at the requested block the sender has sent %d transactions; %s", what, ap.State.GetNonce(), wantNonce, where)
		return false
	}
	return true
}
