//go:build verif

package verifp2p

import (
	"bytes"
	"context"
	"fmt"
	"runtime"
	"sort"
	"strings"
	"sync"

	"github.com/aergoio/aergo/v2/internal/verifkit"
	"github.com/aergoio/aergo/v2/p2p/p2pcommon"
	"github.com/aergoio/aergo/v2/types"
)

// MakeHS builds the real handshaker of protocol version ver on the given connection (nil: version not
// handled by this package's harness).
type MakeHS func(ver string, w *World, conn *Conn) p2pcommon.VersionedHandshaker

var twin = map[string]string{"msg": "status", "cid": "same", "sender": "ok", "pid": "same", "gen": "same", "bhash": "ok", "role": "plain"}

func deviations(rs map[string]string) string {
	var d []string
	for k, v := range rs {
		if twin[k] != v {
			d = append(d, k+"="+v)
		}
	}
	sort.Strings(d)
	if len(d) == 0 {
		return "none"
	}
	return strings.Join(d, ",")
}

// RunHandshakeCases replays every finished run of Handshake.tla that make() can build on the real
// handshakers: the remote's first frame is scripted, what the local side writes is captured.
func RunHandshakeCases(in *HsInput, res *verifkit.Result, salt int64, make_ MakeHS) {
	w := NewWorld(verifkit.Rng(salt))
	variants := in.Variants
	if variants < 1 {
		variants = 1
	}
	type job struct{ ci, k int }
	jobs := make(chan job, 128)
	var wg sync.WaitGroup
	goAwayDiff := 0
	var mu sync.Mutex
	for n := 0; n < runtime.GOMAXPROCS(0); n++ {
		wg.Add(1)
		go func() {
			defer wg.Done()
			for j := range jobs {
				c := &in.Cases[j.ci]
				rng := verifkit.Rng(salt*7919 + int64(j.ci)*131 + int64(j.k))
				static := c.Ver == "v032" || c.Ver == "v031"
				b := w.Build(c.Rs, rng, static)
				conn := &Conn{In: bytes.NewReader(b.Wire), FailWrites: !c.Wok}
				hs := make_(c.Ver, w, conn)
				if hs == nil {
					continue
				}
				dev := deviations(c.Rs)
				replay := map[string]interface{}{"case": c, "variant": j.k, "concrete": b.Desc, "deviations": dev}
				if b.Status != nil {
					replay["status"] = b.Status.String()
				}
				viol := func(kind string, extra map[string]interface{}, format string, a ...interface{}) {
					sig := map[string]interface{}{"part": "handshake", "kind": kind, "ver": c.Ver}
					for k, v := range extra {
						sig[k] = v
					}
					res.Violate(sig, replay, "handshake %s/%s, remote deviates in [%s] %v: %s", c.Ver, c.Dir, dev, b.Desc, fmt.Sprintf(format, a...))
				}
				var hr *p2pcommon.HandshakeResult
				var err error
				panicked := func() (p bool) {
					defer func() {
						if r := recover(); r != nil {
							buf := make([]byte, 2048)
							buf = buf[:runtime.Stack(buf, false)]
							viol("panic", nil, "the handshaker panicked: %v\n%s", r, buf)
							p = true
						}
					}()
					if c.Dir == "out" {
						hr, err = hs.DoForOutbound(context.Background())
					} else {
						hr, err = hs.DoForInbound(context.Background())
					}
					return false
				}()
				res.Count(fmt.Sprintf("hs|%s|%s|%s|%v|%d", c.Ver, c.Dir, dev, c.Wok, j.k))
				if panicked {
					continue
				}
				accepted := err == nil
				// clean outcome: exactly one of result / error
				if accepted == (hr == nil) {
					viol("unclean-outcome", nil, "result=%v err=%v", hr, err)
					continue
				}
				// 1. the property, on the concrete message and independently of the model
				if accepted {
					sg, cc, sp := w.GroundTruth(b.Status, static)
					switch {
					case b.Status == nil:
						viol("accepted-foreign-peer", map[string]interface{}{"field": "no-status"}, "succeeded although the peer sent no status message")
					case !sp:
						viol("accepted-foreign-peer", map[string]interface{}{"field": "peerid"}, "succeeded although the status carries another peer id than the connection")
					case !cc:
						viol("accepted-foreign-peer", map[string]interface{}{"field": "chainid"}, "succeeded although the chain id is not the local one at height %d", b.Status.BestHeight)
					case !sg && c.Ver != "v031":
						viol("accepted-foreign-peer", map[string]interface{}{"field": "genesis"}, "succeeded although the genesis hash differs from the local one")
					case !sg:
						mu.Lock()
						res.Extra["v031_accepts_other_genesis"] = true
						mu.Unlock()
					}
					if hr != nil && (hr.Meta.ID != w.RemoteID || (b.Status != nil && hr.BestBlockNo != b.Status.BestHeight)) {
						viol("result-wrong", nil, "handshake result names peer %s height %d", hr.Meta.ID, hr.BestBlockNo)
					}
				}
				// 2. the decision of the model
				if accepted != (c.Result == "ok") {
					if accepted {
						viol("accepted", map[string]interface{}{"dev": dev}, "the code accepts, the model rejects")
					} else {
						viol("rejected", map[string]interface{}{"dev": dev}, "the code rejects (%v), the model accepts", err)
					}
					continue
				}
				// 3. what the local side wrote
				sentLocal, sentGoAway := false, false
				for _, s := range conn.SubsWritten() {
					switch s {
					case p2pcommon.StatusRequest:
						sentLocal = true
					case p2pcommon.GoAway:
						sentGoAway = true
					}
				}
				if sentLocal != c.SentLocal {
					viol("local-status-order", map[string]interface{}{"dir": c.Dir}, "local status sent=%v, model %v", sentLocal, c.SentLocal)
				}
				if sentGoAway != c.SentGoAway {
					mu.Lock()
					goAwayDiff++
					mu.Unlock()
				}
				if ls := conn.LocalStatus(); ls != nil {
					wantCid, _ := w.ChainIDAt(w.BestBlock.Header.BlockNo).Bytes()
					if static {
						wantCid, _ = w.ChainIDAt(0).Bytes()
					}
					switch {
					case ls.Sender == nil || types.PeerID(ls.Sender.PeerID) != w.LocalID:
						viol("local-status-wrong", map[string]interface{}{"field": "peerid"}, "the local status does not carry the local peer id")
					case !bytes.Equal(ls.ChainID, wantCid):
						viol("local-status-wrong", map[string]interface{}{"field": "chainid"}, "the local status carries chain id %x, want %x", ls.ChainID, wantCid)
					case c.Ver != "v031" && !bytes.Equal(ls.Genesis, w.Genesis):
						viol("local-status-wrong", map[string]interface{}{"field": "genesis"}, "the local status carries genesis %x, want %x", ls.Genesis, w.Genesis)
					}
				}
				if j.k == 0 && j.ci%211 == 0 {
					res.Sample(map[string]interface{}{"ver": c.Ver, "dir": c.Dir, "remote": c.Rs, "concrete": b.Desc, "accepted": accepted, "error": fmt.Sprint(err)})
				}
			}
		}()
	}
	for ci := range in.Cases {
		for k := 0; k < variants; k++ {
			jobs <- job{ci, k}
		}
	}
	close(jobs)
	wg.Wait()
	if goAwayDiff > 0 {
		res.Note("handshake: GoAway notices differ from the model in %d runs (not part of the property, not a verdict)", goAwayDiff)
	}
}
