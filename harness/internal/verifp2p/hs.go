//go:build verif

// Package verifp2p holds what the C18 handshake harnesses of p2p/v030 and p2p/v200 share:
// the local node's facts ("world"), the concretisation of the abstract status classes of
// spec/p2p/Handshake.tla into real status messages, a scripted in-memory connection and the
// stubs of the services the handshakers read from.  It must not import p2p/v030 or p2p/v200.
package verifp2p

import (
	"bytes"
	"encoding/binary"
	"fmt"
	"io"
	"math/rand"
	"time"

	"github.com/aergoio/aergo/v2/internal/enc/proto"
	"github.com/aergoio/aergo/v2/p2p/p2pcommon"
	"github.com/aergoio/aergo/v2/p2p/p2putil"
	"github.com/aergoio/aergo/v2/types"
	"github.com/libp2p/go-libp2p/core/crypto"
)

// ---------------------------------------------------------------- input (one finished run of the TLC model)

type HsCase struct {
	Ver        string            `json:"ver"` // v200 | v033 | v032 | v031
	Dir        string            `json:"dir"` // out | in
	Rs         map[string]string `json:"rs"`
	Wok        bool              `json:"wok"`
	SentLocal  bool              `json:"sentLocal"`
	SentGoAway bool              `json:"sentGoAway"`
	Result     string            `json:"result"` // ok | fail
}

type HsInput struct {
	Cases    []HsCase `json:"cases"`
	Variants int      `json:"variants"` // concrete variants tried per case
}

// ---------------------------------------------------------------- the local node

const ForkHeight = 1000 // chain id version 2 below, 3 from this height on

type World struct {
	Genesis   []byte
	Base      types.ChainID
	LocalID   types.PeerID
	LocalMeta p2pcommon.PeerMeta
	BestBlock *types.Block
	RemoteID  types.PeerID // the peer id the connection was opened to / accepted from
	RemoteKey crypto.PrivKey
	OtherID   types.PeerID
	BPKeys    []crypto.PrivKey
	BPIDs     []types.PeerID
}

func newKey() (crypto.PrivKey, types.PeerID) {
	k, _, err := crypto.GenerateKeyPair(crypto.Secp256k1, 256)
	if err != nil {
		panic(err)
	}
	id, err := types.IDFromPrivateKey(k)
	if err != nil {
		panic(err)
	}
	return k, id
}

func NewWorld(rng *rand.Rand) *World {
	w := &World{Genesis: make([]byte, 32)}
	rng.Read(w.Genesis)
	w.Base = types.ChainID{Magic: "verif.c18.chain", Consensus: "dpos", PublicNet: false, MainNet: false}
	_, w.LocalID = newKey()
	w.RemoteKey, w.RemoteID = newKey()
	_, w.OtherID = newKey()
	for i := 0; i < 3; i++ {
		k, id := newKey()
		w.BPKeys = append(w.BPKeys, k)
		w.BPIDs = append(w.BPIDs, id)
	}
	w.LocalMeta = p2pcommon.NewMetaWith1Addr(w.LocalID, "192.168.7.1", 7846, "v2.4.0")
	w.LocalMeta.Role = types.PeerRole_Watcher
	bh := make([]byte, 32)
	rng.Read(bh)
	w.BestBlock = &types.Block{Hash: bh, Header: &types.BlockHeader{BlockNo: 1234}}
	return w
}

func (w *World) ChainIDAt(no types.BlockNo) *types.ChainID {
	c := w.Base
	c.Version = 2
	if no >= ForkHeight {
		c.Version = 3
	}
	return &c
}

// ---------------------------------------------------------------- stubs (only what the handshakers call)

type VM struct {
	p2pcommon.VersionedManager
	W *World
}

func (v VM) GetChainID(no types.BlockNo) *types.ChainID { return v.W.ChainIDAt(no) }
func (v VM) GetBestChainID() *types.ChainID {
	return v.W.ChainIDAt(v.W.BestBlock.Header.BlockNo)
}

type CA struct {
	types.ChainAccessor
	W *World
}

func (c CA) GetBestBlock() (*types.Block, error)     { return c.W.BestBlock, nil }
func (c CA) ChainID(no types.BlockNo) *types.ChainID { return c.W.ChainIDAt(no) }

type IS struct {
	p2pcommon.InternalService
	W *World
}

func (s IS) SelfMeta() p2pcommon.PeerMeta           { return s.W.LocalMeta }
func (s IS) SelfNodeID() types.PeerID               { return s.W.LocalID }
func (s IS) GetChainAccessor() types.ChainAccessor  { return CA{W: s.W} }
func (s IS) LocalSettings() p2pcommon.LocalSettings { return p2pcommon.LocalSettings{} }

type PM struct {
	p2pcommon.PeerManager
	W *World
}

func (p PM) SelfMeta() p2pcommon.PeerMeta { return p.W.LocalMeta }
func (p PM) SelfNodeID() types.PeerID     { return p.W.LocalID }

type Actor struct {
	p2pcommon.ActorService
	W *World
}

func (a Actor) GetChainAccessor() types.ChainAccessor { return CA{W: a.W} }

// ---------------------------------------------------------------- the connection: scripted input, captured output

type Conn struct {
	In         *bytes.Reader
	Out        bytes.Buffer
	FailWrites bool
	Closed     bool
}

func (c *Conn) Read(p []byte) (int, error) { return c.In.Read(p) }
func (c *Conn) Write(p []byte) (int, error) {
	if c.FailWrites {
		return 0, fmt.Errorf("verif: connection reset")
	}
	return c.Out.Write(p)
}
func (c *Conn) Close() error { c.Closed = true; return nil }

var _ io.ReadWriteCloser = (*Conn)(nil)

const hdrLen = 48

func Frame(sub p2pcommon.SubProtocol, payload []byte, rng *rand.Rand) []byte {
	b := make([]byte, hdrLen, hdrLen+len(payload))
	binary.BigEndian.PutUint32(b[0:4], sub.Uint32())
	binary.BigEndian.PutUint32(b[4:8], uint32(len(payload)))
	binary.BigEndian.PutUint64(b[8:16], uint64(time.Now().UnixNano()))
	rng.Read(b[16:32])
	return append(b, payload...)
}

// SubsWritten lists the sub-protocols of the complete frames in the captured output
func (c *Conn) SubsWritten() []p2pcommon.SubProtocol {
	var out []p2pcommon.SubProtocol
	b := c.Out.Bytes()
	for len(b) >= hdrLen {
		l := int(binary.BigEndian.Uint32(b[4:8]))
		if len(b) < hdrLen+l {
			break
		}
		out = append(out, p2pcommon.SubProtocol(binary.BigEndian.Uint32(b[0:4])))
		b = b[hdrLen+l:]
	}
	return out
}

// LocalStatus decodes the status message the local node wrote, if any
func (c *Conn) LocalStatus() *types.Status {
	b := c.Out.Bytes()
	for len(b) >= hdrLen {
		l := int(binary.BigEndian.Uint32(b[4:8]))
		if len(b) < hdrLen+l {
			break
		}
		if p2pcommon.SubProtocol(binary.BigEndian.Uint32(b[0:4])) == p2pcommon.StatusRequest {
			st := &types.Status{}
			if proto.Decode(b[hdrLen:hdrLen+l], st) == nil {
				return st
			}
		}
		b = b[hdrLen+l:]
	}
	return nil
}

// ---------------------------------------------------------------- concretisation of the status classes

// Built is a concrete first frame of the remote side plus the facts the property talks about
type Built struct {
	Wire   []byte
	Status *types.Status // nil unless the frame is a decodable status message
	Desc   map[string]string
	// ground truth of the concrete message, computed independently of the handshakers
	SameGenesis, CompatibleChain, SamePeerID, ValidAddress bool
}

func pick(rng *rand.Rand, n int) int { return rng.Intn(n) }

func (w *World) cert(bp int, agent types.PeerID, ttl time.Duration) *types.AgentCertificate {
	c, err := p2putil.NewAgentCertV1(w.BPIDs[bp], agent, p2putil.ConvertPKToBTCEC(w.BPKeys[bp]), []string{"192.168.7.9"}, ttl)
	if err != nil {
		panic(err)
	}
	pc, err := p2putil.ConvertCertToProto(c)
	if err != nil {
		panic(err)
	}
	return pc
}

// Build makes the remote's first frame for the abstract classes rs; variant selects among the concrete
// representatives of every class and the neutral variations (fields no check looks at).
// static: protocol versions 0.3.1 / 0.3.2 compare with the chain id of the genesis block whatever the height.
func (w *World) Build(rs map[string]string, rng *rand.Rand, static bool) *Built {
	b := &Built{Desc: map[string]string{}}
	d := b.Desc
	switch rs["msg"] {
	case "goaway":
		p, _ := p2putil.MarshalMessageBody(&types.GoAwayNotice{Message: "go away"})
		if pick(rng, 3) == 0 {
			p = []byte{0x0a, 0xff} // undecodable notice
			d["msg"] = "goaway, undecodable"
		}
		b.Wire = Frame(p2pcommon.GoAway, p, rng)
		return b
	case "other":
		subs := []p2pcommon.SubProtocol{p2pcommon.PingRequest, p2pcommon.NewBlockNotice, p2pcommon.AddressesRequest, p2pcommon.SubProtocol(0)}
		s := subs[pick(rng, len(subs))]
		d["msg"] = fmt.Sprintf("sub-protocol %d", s)
		b.Wire = Frame(s, []byte{1, 2, 3}, rng)
		return b
	case "garbage":
		ps := [][]byte{{0x0a, 0xff}, {0xff, 0xff, 0xff, 0xff, 0xff, 0xff, 0xff, 0xff, 0xff, 0xff, 0xff}, {0x0a, 0x05, 0x01}}
		p := ps[pick(rng, len(ps))]
		if err := proto.Decode(p, &types.Status{}); err == nil {
			p = []byte{0x0a, 0xff}
		}
		d["msg"] = fmt.Sprintf("status frame, payload %x", p)
		b.Wire = Frame(p2pcommon.StatusRequest, p, rng)
		return b
	case "eof":
		switch pick(rng, 4) {
		case 0:
			d["msg"] = "nothing"
		case 1:
			b.Wire = make([]byte, 10)
			d["msg"] = "10 bytes"
		case 2:
			b.Wire = Frame(p2pcommon.StatusRequest, make([]byte, 100), rng)[:hdrLen+40]
			d["msg"] = "status frame cut inside the payload"
		default:
			b.Wire = Frame(p2pcommon.StatusRequest, nil, rng)
			binary.BigEndian.PutUint32(b.Wire[4:8], 0xfffffff0)
			d["msg"] = "header announcing 4 GB"
		}
		return b
	}

	// ---- a decodable status message
	height := types.BlockNo([]uint64{0, 1, 500, ForkHeight - 1, ForkHeight, ForkHeight + 1, 1 << 40}[pick(rng, 7)])
	cid := *w.ChainIDAt(height)
	if static {
		cid = *w.ChainIDAt(0)
	}
	b.CompatibleChain = true
	var cidBytes []byte
	switch rs["cid"] {
	case "same":
	case "diff":
		b.CompatibleChain = false
		switch pick(rng, 5) {
		case 0:
			cid.Magic = "verif.c18.chaiN"
		case 1:
			cid.Consensus = "raft"
		case 2:
			cid.PublicNet = !cid.PublicNet
		case 3:
			cid.MainNet = !cid.MainNet
		default:
			cid.Magic = ""
		}
		d["cid"] = cid.ToJSON()
	case "badver":
		b.CompatibleChain = false
		switch pick(rng, 3) {
		case 0:
			cid.Version++
		case 1:
			cid.Version--
		default: // the version of the other side of the fork
			cid.Version = 5 - cid.Version
		}
		d["cid"] = fmt.Sprintf("version %d at height %d", cid.Version, height)
	case "malformed":
		b.CompatibleChain = false
		good, _ := cid.Bytes()
		switch pick(rng, 5) {
		case 0:
			cidBytes = []byte{}
		case 1:
			cidBytes = good[:3]
		case 2:
			cidBytes = good[:5]
		case 3:
			cidBytes = append(append([]byte{}, good[:6]...), []byte("nomagicnoslash")...)
		default:
			cidBytes = append(append([]byte{}, good...), []byte("/extra")...)
		}
		d["cid"] = fmt.Sprintf("malformed %x", cidBytes)
	}
	if cidBytes == nil {
		cidBytes, _ = cid.Bytes()
	}

	bestHash := make([]byte, 32)
	rng.Read(bestHash)
	if rs["bhash"] == "malformed" {
		bestHash = [][]byte{{}, bestHash[:31], append(append([]byte{}, bestHash...), 1)}[pick(rng, 3)]
		d["bhash"] = fmt.Sprintf("%d bytes", len(bestHash))
	}

	genesis := append([]byte{}, w.Genesis...)
	b.SameGenesis = true
	switch rs["gen"] {
	case "diff":
		b.SameGenesis = false
		switch pick(rng, 4) {
		case 0:
			genesis[pick(rng, 32)] ^= 1 << uint(pick(rng, 8))
		case 1:
			genesis = genesis[:31]
		case 2:
			genesis = append(genesis, 0)
		default:
			genesis = make([]byte, 32)
		}
		d["gen"] = fmt.Sprintf("%x", genesis)
	case "empty":
		b.SameGenesis = false
		genesis = [][]byte{nil, {}}[pick(rng, 2)]
	}

	addrs := []string{"192.168.7.7", "peer7.example.org", "fe80::7", "10.0.0.7"}
	addr := addrs[pick(rng, len(addrs))]
	port := uint32(7846)
	ma, err := types.ToMultiAddr(addr, port)
	if err != nil {
		panic(err)
	}
	sender := &types.PeerAddress{Address: addr, Port: port, PeerID: []byte(w.RemoteID), Addresses: []string{ma.String()},
		Version: "v2.4.0", Role: types.PeerRole_Watcher}
	b.SamePeerID, b.ValidAddress = true, true
	if rs["pid"] == "diff" {
		b.SamePeerID = false
		switch pick(rng, 4) {
		case 0:
			sender.PeerID = []byte(w.OtherID)
		case 1:
			sender.PeerID = []byte(w.LocalID)
		case 2:
			sender.PeerID = nil
		default:
			sender.PeerID = []byte(w.RemoteID)[:len(w.RemoteID)-1]
		}
		d["pid"] = fmt.Sprintf("%x", sender.PeerID)
	}
	switch rs["role"] {
	case "plain":
		sender.Role = []types.PeerRole{types.PeerRole_Watcher, types.PeerRole_Producer, types.PeerRole_LegacyVersion, types.PeerRole(99)}[pick(rng, 4)]
	case "agentOk":
		sender.Role = types.PeerRole_Agent
		switch pick(rng, 3) {
		case 0:
			sender.ProducerIDs = [][]byte{[]byte(w.BPIDs[0])}
			d["role"] = "agent, 1 producer, 1 certificate"
		case 1:
			sender.ProducerIDs = [][]byte{[]byte(w.BPIDs[0]), []byte(w.BPIDs[1])}
			d["role"] = "agent, 2 producers, 1 certificate"
		default:
			sender.ProducerIDs = [][]byte{[]byte(w.BPIDs[0])}
			d["role"] = "agent, 1 producer, no certificate"
		}
	case "agentNoProd":
		sender.Role = types.PeerRole_Agent
		d["role"] = "agent without producers"
	case "agentBadCert":
		sender.Role = types.PeerRole_Agent
		sender.ProducerIDs = [][]byte{[]byte(w.BPIDs[0])}
	}
	if rs["sender"] == "badaddr" {
		b.ValidAddress = false
		bad := []string{"", "not an address!", "1.2.3.4:7846", "exa mple.org", "/ip4/1.2.3.4"}
		sender.Address = bad[pick(rng, len(bad))]
		if pick(rng, 2) == 0 {
			sender.Addresses = nil
		}
		d["sender"] = fmt.Sprintf("address %q, %d multiaddrs", sender.Address, len(sender.Addresses))
	}

	st := &types.Status{Sender: sender, BestBlockHash: bestHash, BestHeight: height, ChainID: cidBytes,
		NoExpose: pick(rng, 2) == 0, Version: []string{"v2.4.0", "v9.9.9", ""}[pick(rng, 3)], Genesis: genesis}
	// certificates (only v200 looks at them); the agent id of a good certificate is the id the status claims
	agent := types.PeerID(sender.PeerID)
	if len(agent) == 0 {
		agent = w.RemoteID
	}
	if _, err := types.IDFromBytes(sender.PeerID); err != nil {
		agent = w.RemoteID
	}
	switch rs["role"] {
	case "agentOk":
		if d["role"] != "agent, 1 producer, no certificate" {
			st.Certificates = []*types.AgentCertificate{w.cert(0, agent, time.Hour)}
		}
	case "agentNoProd":
		if pick(rng, 2) == 0 {
			st.Certificates = []*types.AgentCertificate{w.cert(0, agent, time.Hour)}
		}
	case "agentBadCert":
		switch pick(rng, 5) {
		case 0:
			st.Certificates = []*types.AgentCertificate{w.cert(0, w.OtherID, time.Hour)}
			d["role"] = "certificate issued to another agent"
		case 1:
			st.Certificates = []*types.AgentCertificate{w.cert(1, agent, time.Hour)}
			d["role"] = "certificate of a producer the agent does not list"
		case 2:
			c := w.cert(0, agent, time.Hour)
			c.ExpireTime++ // signed content changed
			st.Certificates = []*types.AgentCertificate{c}
			d["role"] = "certificate altered after signing"
		case 3:
			st.Certificates = []*types.AgentCertificate{w.cert(0, agent, -time.Hour)}
			d["role"] = "certificate expired"
		default:
			c := w.cert(0, agent, time.Hour)
			c.AgentAddress = nil
			st.Certificates = []*types.AgentCertificate{w.cert(0, agent, time.Hour), c}
			d["role"] = "second certificate without address"
		}
	}
	if rs["sender"] == "nil" {
		st.Sender = nil
		b.SamePeerID, b.ValidAddress = false, false
	}
	p, err := p2putil.MarshalMessageBody(st)
	if err != nil {
		panic(err)
	}
	b.Status = st
	b.Wire = Frame(p2pcommon.StatusRequest, p, rng)
	if pick(rng, 4) == 0 { // more frames behind the status message must not matter
		b.Wire = append(b.Wire, Frame(p2pcommon.PingRequest, []byte{1}, rng)...)
	}
	return b
}

// GroundTruth recomputes, from the concrete status message alone, the facts the property names.
func (w *World) GroundTruth(st *types.Status, static bool) (sameGenesis, compatibleChain, samePeerID bool) {
	if st == nil {
		return
	}
	sameGenesis = bytes.Equal(st.Genesis, w.Genesis)
	rc := types.NewChainID()
	if rc.Read(st.ChainID) == nil {
		if static {
			compatibleChain = w.ChainIDAt(0).Equals(rc)
		} else {
			compatibleChain = w.ChainIDAt(st.BestHeight).Equals(rc)
		}
	}
	samePeerID = st.Sender != nil && types.PeerID(st.Sender.PeerID) == w.RemoteID
	return
}
