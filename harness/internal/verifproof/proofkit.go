//go:build verif

// Package verifproof is the part of the C11 (Merkle proofs, spec/state/Proof.tla) conformance harness shared by
// the trie-level harness (pkg/trie) and the statedb-level harness (state/statedb): the input format written by
// checks/c11.py from TLC's output, the concretisation of abstract keys, the proof message, the INDEPENDENT
// verifier written from Proof.tla (it shares no code with pkg/trie), the concrete counterparts of the spec's
// forgeries, and the verdict rules.  The real generator and the real verifier are passed in by the callers.
package verifproof

import (
	"bytes"
	"crypto/sha256"
	"encoding/hex"
	"fmt"
	"math/rand"
	"sort"
	"strings"
	"sync"

	"github.com/aergoio/aergo/v2/internal/verifkit"
)

// ---------------------------------------------------------------- input (from TLC via checks/c11.py)

type Shape struct {
	Incl bool   `json:"incl"`
	Val  string `json:"val"` // "v1".. or "none"
	Pk   string `json:"pk"`  // abstract key or "" (none)
	Pv   string `json:"pv"`
	Len  int    `json:"len"`  // abstract path length
	Nd   []int  `json:"nd"`   // abstract positions (0 = bottom) of non-default siblings
	Naps int    `json:"naps"` // number of transmitted siblings
}

type Forgery struct {
	T  string `json:"t"`
	K  string `json:"k,omitempty"` // Key / ProofKey ("" = none)
	V  string `json:"v,omitempty"`
	Ri int    `json:"ri,omitempty"`
	I  int    `json:"i,omitempty"`
	J  int    `json:"j,omitempty"`
	S  string `json:"s,omitempty"`
	D  int    `json:"d,omitempty"`
}

type Forged struct {
	F   Forgery `json:"f"`
	Out [4]bool `json:"out"` // Proof.tla Outcome: design verdict, as-coded verdict (O1+O2), claim true, as-coded with O1 only
}

type Proof struct {
	Ri    int      `json:"ri"` // 1-based index into hist
	Key   string   `json:"key"`
	Enc   string   `json:"enc"`
	Shape Shape    `json:"shape"`
	Out   [4]bool  `json:"out"`
	Forg  []Forged `json:"forg"`
}

type Case struct {
	Hist   []map[string]string `json:"hist"` // hist[0] is the empty trie
	Proofs []Proof             `json:"proofs"`
}

type WalkStep struct {
	Upd    map[string]string `json:"upd"`
	Proofs int               `json:"proofs"` // number of random proof requests after this block
}

type Walk struct {
	Steps []WalkStep `json:"steps"`
}

type Input struct {
	H          int      `json:"h"`
	Families   [][]int  `json:"families"`
	Background int      `json:"background"` // number of background key PAIRS per family (when pos[0] > 0)
	Cases      []Case   `json:"cases"`
	Walks      []Walk   `json:"walks"`
	Vals       []string `json:"vals"`
}

func (in *Input) AbsKeys() []string {
	var ks []string
	for i := 0; i < 1<<uint(in.H); i++ {
		ks = append(ks, fmt.Sprintf("%0*b", in.H, i))
	}
	return ks
}

// ---------------------------------------------------------------- concretisation

var DefaultLeaf = []byte{0}

func Bit(b []byte, i int) bool {
	if i < 0 || i/8 >= len(b) {
		return false // the spec's bitmap is a set of indices: everything else is clear
	}
	return b[i/8]>>(7-uint(i%8))&1 == 1
}

func SetBit(k []byte, p int, one bool) {
	if one {
		k[p/8] |= 1 << uint(7-p%8)
	} else {
		k[p/8] &^= 1 << uint(7-p%8)
	}
}

// Family maps abstract bit i of a key to bit Pos[i] of a 256-bit key (all other bits: Base), so that the prefix
// structure of an abstract key set is the stretched prefix structure of the concrete one (as in C10).  Background
// keys come in PAIRS with a long common prefix: along the path of any family key the number of background keys
// below a node drops from >= 2 to 0, so a background key is never the foreign leaf of a family query and the
// abstract proof shape maps 1:1 to the concrete one.
type Family struct {
	Pos     []int
	Base    []byte
	Bg      [][]byte // background keys
	BgBits  []int    // distinct first-differing bits of the background pairs (all < Pos[0]), ascending
	BgDepth int      // concrete depth of the subtree that holds only family keys (0 without background)
}

func NewFamily(pos []int, rng *rand.Rand, npairs int) *Family {
	f := &Family{Pos: pos, Base: make([]byte, 32)}
	rng.Read(f.Base)
	seen := map[int]bool{}
	for i := 0; i < npairs && pos[0] > 0; i++ {
		p := rng.Intn(pos[0])
		if p == 255 {
			continue
		}
		a := make([]byte, 32)
		rng.Read(a)
		for b := 0; b < p; b++ {
			SetBit(a, b, Bit(f.Base, b))
		}
		SetBit(a, p, !Bit(f.Base, p))
		q := p + 1 + rng.Intn(255-p) // first bit where the two keys of the pair differ
		b2 := make([]byte, 32)
		rng.Read(b2)
		for b := 0; b < q; b++ {
			SetBit(b2, b, Bit(a, b))
		}
		SetBit(b2, q, !Bit(a, q))
		f.Bg = append(f.Bg, a, b2)
		if !seen[p] {
			seen[p] = true
			f.BgBits = append(f.BgBits, p)
		}
		if p+1 > f.BgDepth {
			f.BgDepth = p + 1
		}
	}
	sort.Ints(f.BgBits)
	return f
}

func (f *Family) Key(abs string) []byte {
	k := append([]byte(nil), f.Base...)
	for i, c := range abs {
		SetBit(k, f.Pos[i], c == '1')
	}
	return k
}

func (f *Family) AbsKeyOf(k []byte, absKeys []string) string {
	for _, a := range absKeys {
		if bytes.Equal(f.Key(a), k) {
			return a
		}
	}
	return "?" + hex.EncodeToString(k)
}

// ConcLen: concrete path length of an abstract path length
func (f *Family) ConcLen(absLen int) int {
	if absLen == 0 {
		return f.BgDepth
	}
	return f.Pos[absLen-1] + 1
}

// ConcNd: concrete positions (0 = bottom of the full path) of the non-default siblings
func (f *Family) ConcNd(absLen int, nd []int) []int {
	L := f.ConcLen(absLen)
	var out []int
	for _, a := range nd {
		out = append(out, L-1-f.Pos[absLen-1-a])
	}
	for _, p := range f.BgBits {
		out = append(out, L-1-p)
	}
	sort.Ints(out)
	return out
}

// ---------------------------------------------------------------- the proof message (what travels to a light client)

type Msg struct {
	Root   []byte // the root the client trusts
	Ri     int
	Key    []byte
	Comp   bool
	Incl   bool
	Val    []byte // hash of the claimed value (inclusion)
	Pk, Pv []byte // foreign leaf (non-inclusion)
	Ap     [][]byte
	Bitmap []byte
	Height int
}

func (m *Msg) Clone() *Msg {
	c := *m
	c.Ap = make([][]byte, len(m.Ap))
	copy(c.Ap, m.Ap)
	c.Bitmap = append([]byte(nil), m.Bitmap...)
	return &c
}

func (m *Msg) PathLen() int {
	if m.Comp {
		return m.Height
	}
	return len(m.Ap)
}

func (m *Msg) String() string {
	return fmt.Sprintf("{ri=%d root=%x key=%x comp=%v incl=%v val=%x pk=%x pv=%x naps=%d bitmap=%x height=%d}",
		m.Ri, m.Root, m.Key, m.Comp, m.Incl, m.Val, m.Pk, m.Pv, len(m.Ap), m.Bitmap, m.Height)
}

func (m *Msg) Claim() string {
	if m.Incl {
		return "presence"
	}
	return "absence"
}

func EncName(comp bool) string {
	if comp {
		return "comp"
	}
	return "plain"
}

// NdOf: positions (0 = bottom) of the non-default siblings of the full path
func NdOf(m *Msg) []int {
	var out []int
	if m.Comp {
		for i := 0; i < m.Height; i++ {
			if Bit(m.Bitmap, i) {
				out = append(out, i)
			}
		}
		return out
	}
	for i, s := range m.Ap {
		if !bytes.Equal(s, DefaultLeaf) {
			out = append(out, i)
		}
	}
	return out
}

// ---------------------------------------------------------------- independent verifier, written from Proof.tla
// Accept(p, FALSE) = WellFormed /\ root = Computed(...) with Fold / FoldC, HeightByte, Leaf, Node.

func spH(parts ...[]byte) []byte {
	h := sha256.New()
	for _, p := range parts {
		h.Write(p)
	}
	return h.Sum(nil)
}

func spLeaf(k, v []byte, depth int) []byte { return spH(k, v, []byte{byte((256 - depth) % 256)}) }

// spComputed is Computed(p, key, leaf): the root obtained by hashing leaf up the path of key.
func spComputed(m *Msg, key, leaf []byte) ([]byte, bool) {
	L := m.PathLen()
	if L < 0 || L > 256 || len(key) != 32 {
		return nil, false
	}
	sib := make([][]byte, L) // sib[d] = sibling of the child (at depth d+1) of the path node at depth d
	if !m.Comp {
		for d := 0; d < L; d++ {
			sib[d] = m.Ap[L-1-d]
		}
	} else {
		n := 0
		for i := 0; i < L; i++ {
			if Bit(m.Bitmap, i) {
				n++
			}
		}
		if n > len(m.Ap) {
			return nil, false
		}
		j := 0
		for d := 0; d < L; d++ { // from the root down, set bits consume ap from its end
			if Bit(m.Bitmap, L-1-d) {
				sib[d] = m.Ap[len(m.Ap)-1-j]
				j++
			} else {
				sib[d] = DefaultLeaf
			}
		}
	}
	h := leaf
	for d := L - 1; d >= 0; d-- {
		if Bit(key, d) {
			h = spH(sib[d], h)
		} else {
			h = spH(h, sib[d])
		}
	}
	return h, true
}

// SpecAccept is the design verifier of Proof.tla on concrete messages.
func SpecAccept(m *Msg) bool {
	root := m.Root
	if len(root) == 0 {
		root = DefaultLeaf // the root of the empty trie is the default node
	}
	if m.Incl {
		c, ok := spComputed(m, m.Key, spLeaf(m.Key, m.Val, m.PathLen()))
		return ok && bytes.Equal(c, root)
	}
	if len(m.Pk) == 0 {
		c, ok := spComputed(m, m.Key, DefaultLeaf)
		return ok && bytes.Equal(c, root)
	}
	if bytes.Equal(m.Pk, m.Key) || len(m.Pk) != 32 {
		return false
	}
	c, ok := spComputed(m, m.Pk, spLeaf(m.Pk, m.Pv, m.PathLen()))
	if !ok || !bytes.Equal(c, root) {
		return false
	}
	for b := 0; b < m.PathLen(); b++ {
		if Bit(m.Key, b) != Bit(m.Pk, b) {
			return false
		}
	}
	return true
}

// ---------------------------------------------------------------- result collection (one violation per signature)

type Report struct {
	Res    *verifkit.Result
	mu     sync.Mutex
	Counts map[string]int
}

func NewReport(res *verifkit.Result) *Report { return &Report{Res: res, Counts: map[string]int{}} }

func (r *Report) Violate(sig map[string]interface{}, replay interface{}, format string, a ...interface{}) {
	ks := make([]string, 0, len(sig))
	for k, v := range sig {
		ks = append(ks, fmt.Sprintf("%s=%v", k, v))
	}
	sort.Strings(ks)
	key := strings.Join(ks, ",")
	r.mu.Lock()
	r.Counts[key]++
	first := r.Counts[key] == 1
	r.mu.Unlock()
	if first {
		r.Res.Violate(sig, replay, format, a...)
	}
}

func (r *Report) Bump(key string) {
	r.mu.Lock()
	r.Counts[key]++
	r.mu.Unlock()
}

func (r *Report) Snapshot() map[string]int {
	r.mu.Lock()
	defer r.mu.Unlock()
	out := map[string]int{}
	for k, v := range r.Counts {
		out[k] = v
	}
	return out
}

// ---------------------------------------------------------------- one committed history on the real implementation

type Replay struct {
	Level   string              `json:"level"`
	Family  []int               `json:"family"`
	Base    string              `json:"base"`
	Hist    []map[string]string `json:"hist"`
	Ri      int                 `json:"ri"`
	Key     string              `json:"key"`
	Enc     string              `json:"enc"`
	Forgery *Forgery            `json:"forgery,omitempty"`
	Message string              `json:"message,omitempty"`
}

// Env: one committed history built on the real implementation
type Env struct {
	Level   string // "trie", "statedb-account", "statedb-var", ...
	Fam     *Family
	Hist    []map[string]string
	Roots   [][]byte            // Roots[i]: the root committed for Hist[i]
	Models  []map[string][]byte // concrete contents (hex key -> value hash) of every root, background included
	AbsKeys []string
	ValOf   func(abs string) []byte      // value hash of an abstract value
	Verify  func(m *Msg) (bool, bool)    // the REAL verifier: (accepted, panicked)
	Junk    []byte
	Rep     *Report
}

func (e *Env) ReplayOf(ri int, key, enc string) Replay {
	return Replay{Level: e.Level, Family: e.Fam.Pos, Base: hex.EncodeToString(e.Fam.Base), Hist: e.Hist, Ri: ri, Key: key, Enc: enc}
}

func (e *Env) concVal(abs string) []byte {
	if abs == "none" || abs == "" {
		return nil
	}
	return e.ValOf(abs)
}

func intsEq(a, b []int) bool {
	if len(a) != len(b) {
		return false
	}
	for i := range a {
		if a[i] != b[i] {
			return false
		}
	}
	return true
}

// CheckHonest: the real generator's answer m against the spec's honest message (shape conformance) and
// completeness (real verifier and independent verifier accept).  Returns false when the forgeries of this
// message cannot be replayed meaningfully.
func (e *Env) CheckHonest(m *Msg, sh Shape, rp Replay) bool {
	rep, f := e.Rep, e.Fam
	model := e.Models[m.Ri-1]
	emptyTrie := "non-empty"
	if len(model) == 0 {
		emptyTrie = "empty"
	}
	// the claim is the truth about the contents
	want, present := model[hex.EncodeToString(m.Key)]
	if m.Incl != present || (present && !bytes.Equal(m.Val, want)) {
		rep.Violate(map[string]interface{}{"kind": "generator-wrong-claim", "level": e.Level, "enc": rp.Enc}, rp,
			"proof generator claims incl=%v val=%x for key %s; the trie holds present=%v val=%x", m.Incl, m.Val, rp.Key, present, want)
		return false
	}
	ok := true
	shapeBad := func(format string, a ...interface{}) {
		rep.Violate(map[string]interface{}{"kind": "proof-shape", "level": e.Level, "enc": rp.Enc}, rp,
			"%s, family %v, key %s root #%d (%s): %s", e.Level, f.Pos, rp.Key, rp.Ri, rp.Enc, fmt.Sprintf(format, a...))
		ok = false
	}
	if m.Incl != sh.Incl {
		shapeBad("incl=%v, spec %v", m.Incl, sh.Incl)
		return false
	}
	if sh.Pk == "" {
		if len(m.Pk) != 0 || len(m.Pv) != 0 {
			shapeBad("proof key/value %x/%x returned, spec: none", m.Pk, m.Pv)
		}
	} else if !bytes.Equal(m.Pk, f.Key(sh.Pk)) || !bytes.Equal(m.Pv, e.concVal(sh.Pv)) {
		shapeBad("foreign leaf %s=%x, spec %s=%s", f.AbsKeyOf(m.Pk, e.AbsKeys), m.Pv, sh.Pk, sh.Pv)
	}
	if L := f.ConcLen(sh.Len); m.PathLen() != L {
		shapeBad("path length %d, spec %d (abstract %d)", m.PathLen(), L, sh.Len)
	} else if nd, wantNd := NdOf(m), f.ConcNd(sh.Len, sh.Nd); !intsEq(nd, wantNd) {
		shapeBad("non-default siblings at %v, spec %v", nd, wantNd)
	} else if m.Comp && len(m.Ap) != len(wantNd) {
		shapeBad("%d siblings transmitted, %d bitmap bits set", len(m.Ap), len(wantNd))
	}
	if !ok {
		return false
	}
	// completeness: the real verifier and the independent one accept the honest proof
	if ra, pan := e.Verify(m); !ra {
		rep.Violate(map[string]interface{}{"kind": "honest-proof-rejected", "by": "trie.Verify", "trie": emptyTrie, "claim": m.Claim()}, rp,
			"%s, family %v: the honest %s proof of %s of key %s against root #%d (%s trie) is rejected by the real verifier (panic=%v): %s",
			e.Level, f.Pos, rp.Enc, m.Claim(), rp.Key, rp.Ri, emptyTrie, pan, m)
	}
	if !SpecAccept(m) {
		rep.Violate(map[string]interface{}{"kind": "honest-proof-rejected", "by": "independent-verifier", "trie": emptyTrie, "claim": m.Claim()}, rp,
			"%s, family %v: the honest %s proof of %s of key %s against root #%d is rejected by the independent verifier: %s",
			e.Level, f.Pos, rp.Enc, m.Claim(), rp.Key, rp.Ri, m)
		return false
	}
	return true
}

// sibIndex maps the abstract sibling index i (1 = bottom) of the honest message to an index into m.Ap
func (e *Env) sibIndex(m *Msg, absLen, i int) int {
	if m.Comp {
		return i - 1 // family siblings are the lowest non-default ones; background siblings lie above
	}
	return len(m.Ap) - 1 - e.Fam.Pos[absLen-i]
}

// ApplyForgery is Forged(p, f) of Proof.tla on the concrete message; absLen: abstract path length of the honest
// message.  Returns nil when the abstract forgery has no concrete counterpart (spare bit beyond the bitmap).
func (e *Env) ApplyForgery(h *Msg, absLen int, g Forgery) *Msg {
	m := h.Clone()
	jd := func(s string) []byte {
		if s == "default" {
			return DefaultLeaf
		}
		return e.Junk
	}
	switch g.T {
	case "Key":
		m.Key = e.Fam.Key(g.K)
	case "Root":
		m.Ri = g.Ri
		m.Root = e.Roots[g.Ri-1]
	case "FlipIncl":
		if h.Incl {
			m.Incl, m.Val = false, nil
		} else {
			m.Incl, m.Val, m.Pk, m.Pv = true, h.Pv, nil, nil
		}
	case "Val":
		m.Val = e.concVal(g.V)
	case "SelfLeaf":
		m.Incl, m.Pk, m.Pv, m.Val = false, h.Key, h.Val, nil
	case "AsPresent":
		m.Incl, m.Val, m.Pk, m.Pv = true, e.concVal(g.V), nil, nil
	case "ProofKey":
		if g.K == "" {
			m.Pk = nil
		} else {
			m.Pk = e.Fam.Key(g.K)
		}
	case "ProofVal":
		m.Pv = e.concVal(g.V)
	case "Sib":
		m.Ap[e.sibIndex(h, absLen, g.I)] = jd(g.S)
	case "SibCopy":
		m.Ap[e.sibIndex(h, absLen, g.I)] = h.Ap[e.sibIndex(h, absLen, g.J)]
	case "DropBottom":
		m.Ap = m.Ap[1:]
	case "DropTop":
		m.Ap = m.Ap[:len(m.Ap)-1]
	case "PushBottom":
		m.Ap = append([][]byte{jd(g.S)}, m.Ap...)
	case "PushTop":
		if m.Comp { // above the abstract siblings = just below the background siblings, which are the topmost ones
			at := len(h.Ap) - len(e.Fam.BgBits)
			m.Ap = append(append(append([][]byte{}, h.Ap[:at]...), jd(g.S)), h.Ap[at:]...)
		} else {
			m.Ap = append(m.Ap, jd(g.S))
		}
	case "Height":
		m.Height += g.D
		if m.Height < 0 {
			return nil
		}
	case "Bit":
		L := h.Height
		var idx int
		if g.I < absLen {
			idx = L - 1 - e.Fam.Pos[absLen-1-g.I]
		} else {
			idx = L + (g.I - absLen) // a spare bit above the path
		}
		if idx/8 >= len(m.Bitmap) {
			return nil
		}
		m.Bitmap[idx/8] ^= 1 << uint(7-idx%8)
	default:
		panic("unknown forgery " + g.T)
	}
	return m
}

// classOf names the structural situation of an accepted forged message (known-findings signature)
func classOf(m *Msg) string {
	if !m.Incl && len(m.Pk) != 0 && bytes.Equal(m.Pk, m.Key) {
		return "proofKey-equals-key"
	}
	return "other"
}

// CheckForged: one forged message against the real verifier.  out = the spec's Outcome of this message.
func (e *Env) CheckForged(m *Msg, out [4]bool, rp Replay) {
	rep := e.Rep
	design, coded, truth := out[0], out[1], out[2]
	if len(e.Models[m.Ri-1]) != 0 {
		coded = out[3] // background keys: the abstractly empty trie is not physically empty, O2 cannot show
	}
	// the claim's truth as the spec computed it must be what the concrete contents say (harness self-check)
	want, present := e.Models[m.Ri-1][hex.EncodeToString(m.Key)]
	ctruth := (!m.Incl && !present) || (m.Incl && present && bytes.Equal(want, m.Val))
	if ctruth != truth {
		panic(fmt.Sprintf("harness: claim truth differs from the spec's (%v vs %v) for %+v %s", ctruth, truth, rp, m))
	}
	ra, pan := e.Verify(m)
	if pan {
		rep.Bump("note:verifier-panics")
	}
	ia := SpecAccept(m)
	if ia && !truth {
		panic(fmt.Sprintf("harness: the independent verifier accepts a false claim: %+v %s", rp, m))
	}
	if ia != design {
		rep.Bump("note:independent-vs-design:" + rp.Forgery.T + ":" + rp.Enc)
	}
	if ra != coded {
		rep.Bump("note:real-vs-coded-model:" + rp.Forgery.T + ":" + rp.Enc)
	}
	if ra != design {
		rep.Bump("note:real-vs-design-model:" + rp.Forgery.T + ":" + rp.Enc)
	}
	if ra && !design {
		kind := "corrupted-proof-accepted"
		if !truth {
			kind = "false-claim-accepted"
		}
		rp.Message = m.String()
		rep.Violate(map[string]interface{}{"kind": kind, "claim": m.Claim(), "class": classOf(m), "forgery": rp.Forgery.T, "enc": rp.Enc, "level": e.Level}, rp,
			"%s, family %v: the real verifier accepts a %s proof that the design rejects (the claim of %s is %v): forgery %+v of the honest proof for key %s, root #%d: %s",
			e.Level, e.Fam.Pos, rp.Enc, m.Claim(), truth, *rp.Forgery, rp.Key, rp.Ri, m)
	}
}

// CheckProof: shape + completeness of the honest message m, then every forgery of the spec's table.
func (e *Env) CheckProof(p *Proof, m *Msg) {
	rp := e.ReplayOf(p.Ri, p.Key, p.Enc)
	m.Ri = p.Ri
	if !e.CheckHonest(m, p.Shape, rp) {
		return
	}
	for gi := range p.Forg {
		g := p.Forg[gi]
		fm := e.ApplyForgery(m, p.Shape.Len, g.F)
		if fm == nil {
			e.Rep.Bump("note:forgery-not-concretisable:" + g.F.T)
			continue
		}
		e.Rep.Res.Count("")
		rpf := rp
		rpf.Forgery = &g.F
		e.CheckForged(fm, g.Out, rpf)
	}
}

// ---------------------------------------------------------------- direction B helpers (ProofTrace.tla)

func BitsJSON(k string) string {
	out := make([]string, len(k))
	for i, c := range k {
		out[i] = string(c)
	}
	return "[" + strings.Join(out, ",") + "]"
}

func (g Forgery) TraceJSON() string {
	switch g.T {
	case "Key", "ProofKey":
		return fmt.Sprintf(`{"t":"%s","k":%s}`, g.T, BitsJSON(g.K))
	case "Val", "AsPresent", "ProofVal":
		return fmt.Sprintf(`{"t":"%s","v":"%s"}`, g.T, g.V)
	case "Root":
		return fmt.Sprintf(`{"t":"Root","ri":%d}`, g.Ri)
	case "Sib":
		return fmt.Sprintf(`{"t":"Sib","i":%d,"s":"%s"}`, g.I, g.S)
	case "SibCopy":
		return fmt.Sprintf(`{"t":"SibCopy","i":%d,"j":%d}`, g.I, g.J)
	case "PushBottom", "PushTop":
		return fmt.Sprintf(`{"t":"%s","s":"%s"}`, g.T, g.S)
	case "Height":
		return fmt.Sprintf(`{"t":"Height","d":%d}`, g.D)
	case "Bit":
		return fmt.Sprintf(`{"t":"Bit","i":%d}`, g.I)
	}
	return fmt.Sprintf(`{"t":"%s"}`, g.T)
}

func AbsMapEq(a, b map[string]string) bool {
	if len(a) != len(b) {
		return false
	}
	for k, v := range a {
		if w, ok := b[k]; !ok || w != v {
			return false
		}
	}
	return true
}

// ForgeriesOf enumerates Proof.tla's Forgeries(p) for an honest message of the given abstract shape
func ForgeriesOf(sh Shape, hist []map[string]string, ri int, key string, comp bool, absKeys, vals []string, h int) []Forgery {
	var out []Forgery
	for _, k := range absKeys {
		if k != key {
			out = append(out, Forgery{T: "Key", K: k})
		}
	}
	for j := range hist {
		if !AbsMapEq(hist[j], hist[ri-1]) {
			out = append(out, Forgery{T: "Root", Ri: j + 1})
		}
	}
	out = append(out, Forgery{T: "FlipIncl"})
	if sh.Incl {
		for _, v := range vals {
			if v != sh.Val {
				out = append(out, Forgery{T: "Val", V: v})
			}
		}
		out = append(out, Forgery{T: "SelfLeaf"})
	} else {
		for _, v := range vals {
			out = append(out, Forgery{T: "AsPresent", V: v})
		}
		for _, k := range append([]string{""}, absKeys...) {
			if k != sh.Pk {
				out = append(out, Forgery{T: "ProofKey", K: k})
			}
		}
		if sh.Pk != "" {
			for _, v := range vals {
				if v != sh.Pv {
					out = append(out, Forgery{T: "ProofVal", V: v})
				}
			}
		}
	}
	nAp := sh.Len
	if comp {
		nAp = len(sh.Nd)
	}
	for i := 1; i <= nAp; i++ {
		out = append(out, Forgery{T: "Sib", I: i, S: "default"}, Forgery{T: "Sib", I: i, S: "junk"})
		for j := 1; j <= nAp; j++ {
			out = append(out, Forgery{T: "SibCopy", I: i, J: j})
		}
	}
	if nAp > 0 {
		out = append(out, Forgery{T: "DropBottom"}, Forgery{T: "DropTop"})
	}
	for _, s := range []string{"default", "junk"} {
		out = append(out, Forgery{T: "PushBottom", S: s}, Forgery{T: "PushTop", S: s})
	}
	if comp {
		if sh.Len-1 >= 0 {
			out = append(out, Forgery{T: "Height", D: -1})
		}
		out = append(out, Forgery{T: "Height", D: 1})
		for i := 0; i <= h; i++ {
			out = append(out, Forgery{T: "Bit", I: i})
		}
	}
	return out
}

// AbsShape maps the real generator's answer back to abstract terms (-1 / 99 / "?.." where it has no abstract counterpart)
func (e *Env) AbsShape(m *Msg, vals []string) Shape {
	f := e.Fam
	av := func(v []byte) string {
		if len(v) == 0 {
			return "none"
		}
		for _, a := range vals {
			if bytes.Equal(v, e.ValOf(a)) {
				return a
			}
		}
		return "?" + hex.EncodeToString(v)
	}
	sh := Shape{Incl: m.Incl, Val: av(m.Val), Pv: av(m.Pv), Naps: len(m.Ap)}
	if len(m.Pk) != 0 {
		sh.Pk = f.AbsKeyOf(m.Pk, e.AbsKeys)
	}
	L := m.PathLen()
	sh.Len = -1
	if L == f.BgDepth {
		sh.Len = 0
	}
	for i, p := range f.Pos {
		if L == p+1 {
			sh.Len = i + 1
		}
	}
	sh.Nd = []int{}
	for _, c := range NdOf(m) {
		bit := L - 1 - c // the key bit this sibling branches on
		isBg := false
		for _, p := range f.BgBits {
			if p == bit {
				isBg = true
			}
		}
		if isBg {
			continue
		}
		a := 99
		for t, p := range f.Pos {
			if p == bit && sh.Len > 0 {
				a = sh.Len - 1 - t
			}
		}
		sh.Nd = append(sh.Nd, a)
	}
	sort.Ints(sh.Nd)
	return sh
}

// TraceProve renders the Prove event of ProofTrace.tla for the real answer m
func TraceProve(ri int, key string, comp bool, sh Shape) string {
	nd := make([]string, len(sh.Nd))
	for i, a := range sh.Nd {
		nd[i] = fmt.Sprint(a)
	}
	pk := "[]"
	if sh.Pk != "" {
		pk = BitsJSON(sh.Pk)
		if strings.HasPrefix(sh.Pk, "?") {
			pk = "[9]"
		}
	}
	return fmt.Sprintf(`{"ev":"Prove","ri":%d,"key":%s,"enc":"%s","incl":%v,"val":"%s","pk":%s,"pv":"%s","len":%d,"nd":[%s]}`,
		ri, BitsJSON(key), EncName(comp), sh.Incl, sh.Val, pk, sh.Pv, sh.Len, strings.Join(nd, ","))
}
