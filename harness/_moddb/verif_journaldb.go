//go:build verif

package db

// verifdb: an in-memory key-value store that (1) survives Close/reopen inside one process
// (keyed by directory), and (2) keeps a process-global, ordered journal of durable write
// units across all stores, so that a harness can materialise the exact on-disk state a crash
// after any unit (or inside a bulk) would leave behind.  Added to package db through the
// go -overlay of /verif (never part of aergo-lib).

import (
	"container/list"
	"sort"
	"sync"
)

const VerifImpl ImplType = "verifdb"

// VerifOp is one key write inside a unit.
type VerifOp struct {
	Set   bool
	Key   []byte
	Value []byte
}

// VerifUnit is one durable write unit: a single Set/Delete, a committed Tx, or a flushed Bulk.
type VerifUnit struct {
	Store string // directory of the store
	Kind  string // "set" | "del" | "tx" | "bulk"
	Ops   []VerifOp
}

var (
	verifMu      sync.Mutex
	verifStores  = map[string]map[string][]byte{}
	verifJournal []VerifUnit
	verifRecord  = true
)

func init() {
	registerDBConstructor(VerifImpl, func(dir string, opts ...Option) (DB, error) {
		verifMu.Lock()
		defer verifMu.Unlock()
		m, ok := verifStores[dir]
		if !ok {
			m = map[string][]byte{}
			verifStores[dir] = m
		}
		return &verifdb{memorydb: memorydb{db: m, dir: dir}}, nil
	})
}

// VerifReset forgets every store and the journal.
func VerifReset() {
	verifMu.Lock()
	defer verifMu.Unlock()
	verifStores = map[string]map[string][]byte{}
	verifJournal = nil
	verifRecord = true
}

// VerifSetRecording switches journaling on/off (off while a harness prepares a baseline).
func VerifSetRecording(on bool) {
	verifMu.Lock()
	defer verifMu.Unlock()
	verifRecord = on
}

func VerifJournalLen() int {
	verifMu.Lock()
	defer verifMu.Unlock()
	return len(verifJournal)
}

// VerifJournalCopy returns units [from, to).
func VerifJournalCopy(from, to int) []VerifUnit {
	verifMu.Lock()
	defer verifMu.Unlock()
	if to > len(verifJournal) {
		to = len(verifJournal)
	}
	out := make([]VerifUnit, to-from)
	copy(out, verifJournal[from:to])
	return out
}

// VerifDump returns a copy of the raw contents of a store.
func VerifDump(dir string) map[string][]byte {
	verifMu.Lock()
	defer verifMu.Unlock()
	out := map[string][]byte{}
	for k, v := range verifStores[dir] {
		out[k] = append([]byte(nil), v...)
	}
	return out
}

// VerifStoreDirs lists the directories of all stores.
func VerifStoreDirs() []string {
	verifMu.Lock()
	defer verifMu.Unlock()
	var out []string
	for d := range verifStores {
		out = append(out, d)
	}
	sort.Strings(out)
	return out
}

// VerifInstall replaces the contents of a store (used to materialise a crash image).
func VerifInstall(dir string, content map[string][]byte) {
	verifMu.Lock()
	defer verifMu.Unlock()
	m := map[string][]byte{}
	for k, v := range content {
		m[k] = append([]byte(nil), v...)
	}
	verifStores[dir] = m
}

// VerifApply applies units (and optionally the first `partial` ops of the unit `extra`) to images.
func VerifApply(images map[string]map[string][]byte, units []VerifUnit, extra *VerifUnit, partial int) {
	app := func(u VerifUnit, n int) {
		m := images[u.Store]
		if m == nil {
			m = map[string][]byte{}
			images[u.Store] = m
		}
		for i, op := range u.Ops {
			if n >= 0 && i >= n {
				break
			}
			if op.Set {
				m[string(op.Key)] = op.Value
			} else {
				delete(m, string(op.Key))
			}
		}
	}
	for _, u := range units {
		app(u, -1)
	}
	if extra != nil {
		app(*extra, partial)
	}
}

func verifAppend(u VerifUnit) {
	// caller holds no lock
	verifMu.Lock()
	if verifRecord {
		verifJournal = append(verifJournal, u)
	}
	verifMu.Unlock()
}

type verifdb struct {
	memorydb
}

func (db *verifdb) Type() string { return "verifdb" }

func (db *verifdb) Set(key, value []byte) {
	key = append([]byte(nil), convNilToBytes(key)...)
	value = append([]byte(nil), convNilToBytes(value)...)
	db.memorydb.Set(key, value)
	verifAppend(VerifUnit{Store: db.dir, Kind: "set", Ops: []VerifOp{{true, key, value}}})
}

func (db *verifdb) Delete(key []byte) {
	key = append([]byte(nil), convNilToBytes(key)...)
	db.memorydb.Delete(key)
	verifAppend(VerifUnit{Store: db.dir, Kind: "del", Ops: []VerifOp{{false, key, nil}}})
}

// Close keeps the data in the registry (no file is written).
func (db *verifdb) Close() {}

func (db *verifdb) NewTx() Transaction {
	return &verifTx{memoryTransaction: memoryTransaction{db: &db.memorydb, opList: list.New()}, owner: db, kind: "tx"}
}

func (db *verifdb) NewBulk() Bulk {
	return &verifBulk{memoryBulk: memoryBulk{db: &db.memorydb, opList: list.New()}, owner: db}
}

func opsOf(l *list.List) []VerifOp {
	var ops []VerifOp
	for e := l.Front(); e != nil; e = e.Next() {
		op := e.Value.(*txOp)
		ops = append(ops, VerifOp{op.isSet, append([]byte(nil), op.key...), append([]byte(nil), op.value...)})
	}
	return ops
}

type verifTx struct {
	memoryTransaction
	owner *verifdb
	kind  string
}

func (t *verifTx) Commit() {
	ops := opsOf(t.opList)
	t.memoryTransaction.Commit()
	verifAppend(VerifUnit{Store: t.owner.dir, Kind: "tx", Ops: ops})
}

type verifBulk struct {
	memoryBulk
	owner *verifdb
}

func (b *verifBulk) Flush() {
	ops := opsOf(b.opList)
	b.memoryBulk.Flush()
	verifAppend(VerifUnit{Store: b.owner.dir, Kind: "bulk", Ops: ops})
}
