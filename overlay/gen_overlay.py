#!/usr/bin/env python3
"""Generate /verif/.build/overlay.json from the CURRENT /repo working tree.

* masks every cgo / C file of package contract (LuaJIT + sqlite are not in the
  sandbox), regenerates contract/contract.go from the current source with the
  single line `import "C"` removed, and adds the pure-Go VM stub;
* maps every file under /verif/harness/<repo-relative-dir>/ into /repo/<dir>/
  (new packages, in-package shims and _test.go files, all `//go:build verif`);
* maps /verif/harness/_moddb/* into the aergo-lib db package of the module cache
  (journaling key-value store `verifdb`; needs GODEBUG=goindex=0).
"""
import json, os, re, subprocess, sys

REPO = os.environ.get("VERIF_REPO", "/repo")
VERIF = os.path.dirname(os.path.dirname(os.path.abspath(__file__)))
BUILD = os.environ.get("VERIF_BUILD") or os.path.join(VERIF, ".build")
GEN = os.path.join(BUILD, "gen")

PURE_GO_VM_ONLY = {"vm_state.go", "vm_multicall.go", "internal_operations.go", "ethstorageproof.go",
                   "statesql_params.go"}

def write_atomic(path, text):
    """concurrent checks regenerate the same files: readers must never see a half-written one"""
    tmp = "%s.%d.tmp" % (path, os.getpid())
    with open(tmp, "w") as f:
        f.write(text)
    os.replace(tmp, path)


def main():
    os.makedirs(GEN, exist_ok=True)
    replace = {}
    cdir = os.path.join(REPO, "contract")
    for fn in sorted(os.listdir(cdir)):
        p = os.path.join(cdir, fn)
        if not os.path.isfile(p):
            continue
        if fn.endswith((".c", ".h")):
            replace[p] = ""
        elif fn.endswith(".go"):
            src = open(p, encoding="utf-8", errors="replace").read()
            if fn == "contract.go":
                out = re.sub(r'(?m)^import "C"\s*$', "", src, count=1)
                g = os.path.join(GEN, "contract.go")
                if not os.path.exists(g) or open(g).read() != out:
                    write_atomic(g, out)
                replace[p] = g
            elif re.search(r'(?m)^import "C"', src) or fn in PURE_GO_VM_ONLY or fn.endswith("_test.go"):
                replace[p] = ""
    # constants contract.go needs from masked files
    g = os.path.join(GEN, "verif_consts.go")
    txt = ("//go:build verif\n\npackage contract\n\nconst (\n\tstateSQLMaxDBSize = 4 * 1024 * 1024\n"
           "\tstateSQLMinDBSize = 10\n)\n")
    if not os.path.exists(g) or open(g).read() != txt:
        write_atomic(g, txt)
    replace[os.path.join(cdir, "verif_consts.go")] = g

    hroot = os.path.join(VERIF, "harness")
    moddb = None
    for root, dirs, files in os.walk(hroot):
        rel = os.path.relpath(root, hroot)
        for fn in files:
            if not (fn.endswith(".go") or fn.endswith(".json") or fn.endswith(".txt")):
                continue
            src = os.path.join(root, fn)
            if rel.split(os.sep)[0] == "_moddb":
                if moddb is None:
                    moddb = subprocess.run(
                        ["go", "list", "-m", "-f", "{{.Dir}}", "github.com/aergoio/aergo-lib"],
                        cwd=REPO, capture_output=True, text=True,
                        env=dict(os.environ, GOFLAGS="-mod=mod", GOPROXY="off", GOSUMDB="off",
                                 GOTOOLCHAIN="local")).stdout.strip()
                    if not moddb:
                        sys.exit("cannot locate aergo-lib module dir")
                replace[os.path.join(moddb, "db", fn)] = src
            else:
                replace[os.path.join(REPO, rel, fn)] = src
    out = os.path.join(BUILD, "overlay.json")
    write_atomic(out, json.dumps({"Replace": replace}, indent=1, sort_keys=True))
    print(out)

if __name__ == "__main__":
    main()
