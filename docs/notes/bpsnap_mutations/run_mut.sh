#!/bin/bash
# usage: run_mut.sh <patch> ; applies the patch to a scratch worktree, runs the package's own tests and the BpSnapshots check
P="$1"; N=$(basename "$P" .patch)
D=${MUT:-/tmp/bps/mut}/wt_$N
export GOFLAGS=-mod=mod GOPROXY=off GOSUMDB=off GOTOOLCHAIN=local GODEBUG=goindex=0
git -C /repo worktree add -q --detach "$D" HEAD || exit 9
trap 'git -C /repo worktree remove --force "$D" >/dev/null 2>&1; rm -rf "$D" ${MUT:-/tmp/bps/mut}/w_$N' EXIT
( cd "$D" && git apply "$P" ) || { echo "$N: PATCH DOES NOT APPLY"; exit 9; }
OV=$(cd /verif && VERIF_REPO="$D" python3 -c "import sys; sys.path.insert(0,'tools'); import vlib; print(vlib.gen_overlay())")
( cd "$D" && go test -tags verif -overlay "$OV" -vet=off ./consensus/impl/dpos/... 2>&1 | tail -5 ) > ${MUT:-/tmp/bps/mut}/$N.own 2>&1
echo "$N own tests: $(grep -c '^ok' ${MUT:-/tmp/bps/mut}/$N.own) ok, $(grep -c 'FAIL' ${MUT:-/tmp/bps/mut}/$N.own) FAIL"
( cd /verif && VERIF_REPO="$D" VERIF_WORK=${MUT:-/tmp/bps/mut}/w_$N python3 checks/bpsnap_try.py ) > ${MUT:-/tmp/bps/mut}/$N.log 2>&1
echo "$N check exit=$? : $(grep -c '^VIOLATION' ${MUT:-/tmp/bps/mut}/$N.log) violations"
grep -A1 "^VIOLATION" ${MUT:-/tmp/bps/mut}/$N.log | grep -v "^VIOLATION\|^--" | cut -c1-260
