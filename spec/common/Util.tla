------------------------------- MODULE Util --------------------------------
(* Small helpers shared by all specifications of /verif/spec.               *)
EXTENDS Integers, Sequences, FiniteSets, TLC

Range(f) == {f[x] : x \in DOMAIN f}

Max(S) == CHOOSE x \in S : \A y \in S : y <= x
Min(S) == CHOOSE x \in S : \A y \in S : x <= y

RECURSIVE SumSet(_, _)
\* Sum of f[x] for x in S
SumSet(f, S) == IF S = {} THEN 0
                ELSE LET x == CHOOSE y \in S : TRUE IN f[x] + SumSet(f, S \ {x})

SumFun(f) == SumSet(f, DOMAIN f)

\* Restrict a function to a sub-domain
Restrict(f, S) == [x \in S |-> f[x]]

\* Transition logging used by the *Gen.cfg configurations: an ACTION_CONSTRAINT that
\* prints one line per generated transition.  tools/vlib.py parses these lines.
LogTransition(src, act, dst) == PrintT("TR|" \o ToString(<<src, act, dst>>))
=============================================================================
