\* behaviour generation by simulation: 3 users, the larger template pool, all nonce modes, replays
SPECIFICATION Spec
CONSTANTS
  Users = {"u1", "u2", "u3"}
  Contract = "c1"
  Sys = "sys"
  Name = "name"
  Vault = "vault"
  Coinbase = "cb"
  FeeSet = {0, 1}
  InitBal = 20
  MinStake = 2
  NamePrice = 1
  Reward = 1
  MaxTxPerBlock = 4
  MaxBlocks = 4
  TxPool <- PoolGen
  NonceModes <- AllModes
INVARIANTS TypeOK Conservation
CHECK_DEADLOCK FALSE
