-------------------------------- MODULE Ledger --------------------------------
(***************************************************************************)
(* C01 (conservation), C03 (transaction atomicity, transaction level),     *)
(* C04 (authorisation / replay protection), C02 (producer/validator        *)
(* agreement) — block execution: chain/chainhandle.go (executeTx,          *)
(* blockExecutor, sendRewardCoinbase), consensus/chain/tx.go (GatherTXs),  *)
(* contract/contract.go (Execute), chain/governance.go,                    *)
(* contract/system/staking.go, contract/name.                              *)
(*                                                                         *)
(* Amounts are abstract coins.  The fee of a transaction is NOT predicted   *)
(* (the property does not fix the fee schedule): it is chosen from FeeSet.  *)
(* The specification predicts the CLASS of every transaction               *)
(* (success / runtime error / rejected) and the SHAPE of its effects.      *)
(***************************************************************************)
EXTENDS Integers, Sequences, FiniteSets, TLC, Util

CONSTANTS Users,       \* user accounts
          Contract,    \* one contract account (deployed by a transaction)
          Sys, Name, Vault,   \* system accounts: staking, naming, reward vault
          Coinbase,    \* the block producer's coinbase account or None
          FeeSet,      \* possible fees of one transaction
          InitBal,     \* initial balance of every user
          MinStake,    \* minimum stake
          NamePrice,   \* price of a name
          Reward,      \* voting reward per block (paid from the vault, capped by its balance)
          MaxTxPerBlock, MaxBlocks, TxPool,  \* bounds / the transaction templates offered (records, see MC module)
          NonceModes   \* subset of {"next", "dup", "gap"}

None == "none"
Accts == Users \cup {Contract, Sys, Name, Vault} \cup (IF Coinbase = None THEN {} ELSE {Coinbase})

VARIABLES bal,        \* [Accts -> Nat]
          nonce,      \* [Users -> Nat]
          staked,     \* [Users -> Nat]
          total,      \* recorded total stake
          owner,      \* [n1 |-> owner of the one name "n1", admin |-> owner of the name contract itself (v1setOwner)], Users \cup {None}
          deployed,   \* is the contract deployed
          store,      \* contract storage: value of the single key "k" (0 = absent)
          executed,   \* set of transactions executed on this chain (success or error)
          bpReward,   \* fees collected in the current block
          burnt,      \* coins destroyed (only fees, only without coinbase)
          blockNo, inBlock, txCount,
          rcpts,      \* receipts of the current block: sequence of [id, status, fee]
          lastAct

vars == <<bal, nonce, staked, total, owner, deployed, store, executed, bpReward, burnt, blockNo, inBlock, txCount, rcpts, lastAct>>
view == <<bal, nonce, staked, total, owner, deployed, store, executed, bpReward, burnt, blockNo, inBlock, txCount>>

Supply == Cardinality(Users) * InitBal

\* ---------------------------------------------------------------- transactions
\* TxPool holds templates [tid, kind, from, signer, chain, to, amt, ops]; a transaction is a template plus a
\* nonce (next / dup / gap relative to the sender's current nonce) and the id <<tid, nonce>>:
\*   [tid, id, kind, from, signer, chain, nonce, to, amt, ops]
\*   kind: transfer | stake | unstake | vote | name | deploy | call | fdcall | vault
\*   signer: the key that signed (= from when honest); chain: "this" | "other"
\*   ops (call): "ok" | "fail" (runtime failure after a storage write and a send) | "sys" (system failure of the VM after the same) | "send" (contract sends amt to `to`)
Authorised(t) == t.signer = t.from /\ t.chain = "this"
\* who pays the fee: the called contract for a fee-delegated call, the sender otherwise
Payer(t) == IF t.kind = "fdcall" THEN Contract ELSE t.from

\* What the properties FIX about the class of t: an unauthorised transaction, a wrong nonce or a replay must be
\* rejected (C04).  Whether an authorised transaction succeeds, fails at run time or is rejected (balance, fee
\* schedule, lock periods, contract behaviour ...) is the implementation's business; the specification only
\* demands that the effects have the shape of the class (C03) and conserve coin (C01).
MustReject(t) == ~Authorised(t) \/ t.nonce # nonce[t.from] + 1 \/ t \in executed

\* an authorised transaction may take effect only if the abstract state can carry the effect
CanApply(t, fee) ==
  /\ bal[t.from] >= t.amt + (IF Payer(t) = t.from THEN fee ELSE 0) + (IF t.kind = "name" THEN NamePrice ELSE 0)
  /\ bal[Payer(t)] >= fee
  /\ CASE t.kind = "stake"   -> staked[t.from] = 0 /\ t.amt >= MinStake
       [] t.kind = "unstake" -> FALSE                      \* inside the staking lock period (heights are small)
       [] t.kind = "vote"    -> staked[t.from] > 0            \* (re-votes inside the voting lock period are rejected by the code)
       [] t.kind = "name"    -> owner.n1 = None
       [] t.kind = "setowner" -> owner.admin = None            \* one shot: anybody may appoint the owner of the name contract
       [] t.kind = "deploy"  -> ~deployed
       [] t.kind = "call"    -> deployed
       [] t.kind = "fdcall"  -> deployed
       [] OTHER              -> TRUE

Classes(t, fee) ==
  IF MustReject(t) THEN {"reject"}
  ELSE {"reject"} \cup (IF ~CanApply(t, fee) THEN {}
                        ELSE IF t.kind \in {"call", "fdcall"} /\ t.ops = "sys" THEN {}   \* the VM itself fails: dropped, no trace
                        ELSE IF t.kind \in {"call", "fdcall"} /\ t.ops = "fail" THEN {"error"} ELSE {"success"})

\* effects of a successful transaction on balances (fee excluded)
Move(b, from, to, a) == [b EXCEPT ![from] = @ - a, ![to] = @ + a]

NameRcpt == IF owner.admin = None THEN Name ELSE owner.admin

ApplySuccess(t, fee) ==
  /\ nonce' = [nonce EXCEPT ![t.from] = t.nonce]
  /\ executed' = executed \cup {t}
  /\ bpReward' = bpReward + fee
  /\ CASE t.kind = "transfer" ->
            /\ bal' = [Move(bal, t.from, t.to, t.amt) EXCEPT ![t.from] = @ - fee]
            /\ UNCHANGED <<staked, total, owner, deployed, store>>
       [] t.kind = "vault" ->
            /\ bal' = [Move(bal, t.from, Vault, t.amt) EXCEPT ![t.from] = @ - fee]
            /\ UNCHANGED <<staked, total, owner, deployed, store>>
       [] t.kind = "stake" ->
            /\ bal' = [Move(bal, t.from, Sys, t.amt) EXCEPT ![t.from] = @ - fee]
            /\ staked' = [staked EXCEPT ![t.from] = @ + t.amt] /\ total' = total + t.amt
            /\ UNCHANGED <<owner, deployed, store>>
       [] t.kind = "vote" ->                                 \* tallies only (Governance.tla); no coin moves
            /\ bal' = [bal EXCEPT ![t.from] = @ - fee]
            /\ UNCHANGED <<staked, total, owner, deployed, store>>
       [] t.kind = "name" ->                                 \* the price goes to the owner of the name contract once there is one
            /\ bal' = [Move(bal, t.from, NameRcpt, NamePrice) EXCEPT ![t.from] = @ - fee]
            /\ owner' = [owner EXCEPT !.n1 = t.from]
            /\ UNCHANGED <<staked, total, deployed, store>>
       [] t.kind = "setowner" ->                             \* everything the name contract collected so far moves to the new owner
            /\ bal' = [Move(bal, Name, t.to, bal[Name]) EXCEPT ![t.from] = @ - fee]
            /\ owner' = [owner EXCEPT !.admin = t.to]
            /\ UNCHANGED <<staked, total, deployed, store>>
       [] t.kind = "deploy" ->
            /\ bal' = [bal EXCEPT ![t.from] = @ - fee]
            /\ deployed' = TRUE
            /\ UNCHANGED <<staked, total, owner, store>>
       [] t.kind = "call" ->
            /\ bal' = [Move(bal, t.from, Contract, t.amt) EXCEPT ![t.from] = @ - fee]
            /\ store' = t.nonce                    \* the call writes the storage key
            /\ UNCHANGED <<staked, total, owner, deployed>>
       [] t.kind = "fdcall" ->                    \* fee-delegated call: the contract pays the fee
            /\ bal' = [Move(bal, t.from, Contract, t.amt) EXCEPT ![Contract] = @ - fee]
            /\ store' = t.nonce
            /\ UNCHANGED <<staked, total, owner, deployed>>

\* a transaction that fails at run time: ONLY the fee (charged to the payer) and the SENDER's nonce
ApplyError(t, fee) ==
  /\ nonce' = [nonce EXCEPT ![t.from] = t.nonce]
  /\ executed' = executed \cup {t}
  /\ bal' = [bal EXCEPT ![Payer(t)] = @ - fee]
  /\ bpReward' = bpReward + fee
  /\ UNCHANGED <<staked, total, owner, deployed, store>>

\* ---------------------------------------------------------------- actions
Init ==
  /\ bal = [a \in Accts |-> IF a \in Users THEN InitBal ELSE 0]
  /\ nonce = [u \in Users |-> 0] /\ staked = [u \in Users |-> 0] /\ total = 0
  /\ owner = [n1 |-> None, admin |-> None] /\ deployed = FALSE /\ store = 0 /\ executed = {}
  /\ bpReward = 0 /\ burnt = 0 /\ blockNo = 0 /\ inBlock = FALSE /\ txCount = 0 /\ rcpts = <<>>
  /\ lastAct = [name |-> "Init"]

BeginBlock ==
  /\ ~inBlock /\ blockNo < MaxBlocks
  /\ inBlock' = TRUE /\ blockNo' = blockNo + 1 /\ txCount' = 0 /\ rcpts' = <<>>
  /\ UNCHANGED <<bal, nonce, staked, total, owner, deployed, store, executed, bpReward, burnt>>
  /\ lastAct' = [name |-> "BeginBlock"]

Mk(tpl, nm) ==
  LET n == nonce[tpl.from] + (CASE nm = "next" -> 1 [] nm = "dup" -> 0 [] nm = "gap" -> 2)
  IN [tid |-> tpl.tid, id |-> <<tpl.tid, n>>, kind |-> tpl.kind, from |-> tpl.from, signer |-> tpl.signer, chain |-> tpl.chain,
      nonce |-> n, to |-> tpl.to, amt |-> tpl.amt, ops |-> tpl.ops]

\* one transaction offered to the block (producer: a rejected one is skipped; validator: it invalidates the block)
Offer(t, fee, how) ==
  /\ inBlock /\ txCount < MaxTxPerBlock
  /\ txCount' = txCount + 1
  /\ \E c \in Classes(t, fee) :
       /\ CASE c = "success" -> ApplySuccess(t, fee) /\ rcpts' = Append(rcpts, [id |-> t.id, status |-> "SUCCESS", fee |-> fee])
            [] c = "error"   -> ApplyError(t, fee)   /\ rcpts' = Append(rcpts, [id |-> t.id, status |-> "ERROR", fee |-> fee])
            [] c = "reject"  -> UNCHANGED <<bal, nonce, staked, total, owner, deployed, store, executed, bpReward, rcpts>>
       /\ lastAct' = [name |-> "Tx", tx |-> t, fee |-> fee, class |-> c, how |-> how]
  /\ UNCHANGED <<burnt, blockNo, inBlock>>

Tx(tpl, nm, fee) == Offer(Mk(tpl, nm), fee, nm)
\* an already executed transaction offered again (replay; also what a reorganisation does when it returns txs)
Replay(t, fee) == t \in executed /\ Offer(t, fee, "replay")

\* end of block: voting reward (vault -> a staker), then the collected fees go to the coinbase or are burnt
EndBlock(winner) ==
  /\ inBlock
  /\ LET r  == IF total > 0 /\ winner \in Users /\ staked[winner] > 0 THEN (IF bal[Vault] < Reward THEN bal[Vault] ELSE Reward) ELSE 0
         b1 == IF r > 0 THEN Move(bal, Vault, winner, r) ELSE bal
     IN IF Coinbase # None /\ bpReward > 0
          THEN bal' = [b1 EXCEPT ![Coinbase] = @ + bpReward] /\ burnt' = burnt
          ELSE bal' = b1 /\ burnt' = burnt + bpReward
  /\ bpReward' = 0 /\ inBlock' = FALSE
  /\ UNCHANGED <<nonce, staked, total, owner, deployed, store, executed, blockNo, txCount, rcpts>>
  /\ lastAct' = [name |-> "EndBlock", winner |-> winner]

Next == BeginBlock
        \/ (\E tpl \in TxPool, nm \in NonceModes, f \in FeeSet : Tx(tpl, nm, f))
        \/ (\E t \in executed, f \in FeeSet : Replay(t, f))
        \/ (\E w \in Users \cup {None} : EndBlock(w))

Spec == Init /\ [][Next]_vars

\* ---------------------------------------------------------------- properties
TypeOK == \A a \in Accts : bal[a] >= 0

\* C01: every unit debited is credited exactly once; the only sink is fee burning without a coinbase
Conservation == SumFun(bal) + bpReward + burnt = Supply
BurnOnlyWithoutCoinbase == (Coinbase # None) => burnt = 0
BurnIsFees == [][burnt' # burnt => /\ Coinbase = None
                                   /\ burnt' - burnt = bpReward]_vars

\* C03: exactly one of three outcomes
Trichotomy ==
  [][lastAct'.name = "Tx" =>
       LET t == lastAct'.tx  f == lastAct'.fee  c == lastAct'.class IN
         /\ c \in {"success", "error", "reject"}
         /\ c = "reject" => /\ bal' = bal /\ nonce' = nonce /\ staked' = staked /\ total' = total /\ owner' = owner
                            /\ deployed' = deployed /\ store' = store /\ bpReward' = bpReward /\ rcpts' = rcpts
         /\ c = "error"  => /\ bal' = [bal EXCEPT ![Payer(t)] = @ - f] /\ nonce' = [nonce EXCEPT ![t.from] = t.nonce]
                            /\ staked' = staked /\ total' = total /\ owner' = owner /\ deployed' = deployed /\ store' = store
                            /\ bpReward' = bpReward + f]_vars

\* C04: only authorised transactions with the exact next nonce change state; no tx id is executed twice
OnlyAuthorised ==
  [][(lastAct'.name = "Tx" /\ lastAct'.class # "reject") =>
        /\ Authorised(lastAct'.tx) /\ lastAct'.tx.nonce = nonce[lastAct'.tx.from] + 1 /\ lastAct'.tx \notin executed]_vars
NonceSequential == [][\A u \in Users : nonce'[u] \in {nonce[u], nonce[u] + 1}]_vars

\* C15 (part): the recorded total is the sum of the stakes and the balance of the staking account
StakeAccounting == total = SumFun(staked) /\ bal[Sys] = total
=============================================================================
